import PsV.Proofs.AuxFits
namespace PsV.Aux
open PsV.Gen

end PsV.Aux
