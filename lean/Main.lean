import PsV.Driver.Common
import PsV.Driver.C04
import PsV.Driver.Eval
import PsV.Driver.C06
open PsV.Driver

def stateless (f : List String → String) : IO Unit := do
  lineLoop (← IO.getStdin) (← IO.getStdout) f

def drivers : List (String × IO Unit) :=
  [("C04", stateless C04.handle),
   ("EV", Eval.run),
   ("C06", C06.run)]

def main (args : List String) : IO UInt32 := do
  match args with
  | [p] =>
    match drivers.lookup p with
    | some run => run; return 0
    | none => IO.eprintln s!"unknown driver {p}"; return 2
  | _ => IO.eprintln "usage: psvdriver <driver>"; return 2
