import PsV.Driver.Common
import PsV.Driver.C04
import PsV.Driver.C16
import PsV.Driver.C19
import PsV.Driver.C13
import PsV.Driver.C18
import PsV.Driver.Eval
import PsV.Driver.C15
import PsV.Driver.C12
import PsV.Driver.C14
import PsV.Driver.C17
import PsV.Driver.C09
import PsV.Driver.C08
import PsV.Driver.C20
import PsV.Driver.C11
import PsV.Driver.C10
import PsV.Driver.C06
import PsV.Driver.C07
open PsV.Driver

def stateless (f : List String → String) : IO Unit := do
  lineLoop (← IO.getStdin) (← IO.getStdout) f

def drivers : List (String × IO Unit) :=
  [("C04", stateless C04.handle),
   ("EV", Eval.run),
   ("C16", C16.run),
   ("C15", stateless C15.handle),
   ("C12", C12.run),
   ("C19", stateless C19.handle),
   ("C14", C14.run),
   ("C13", stateless C13.handle),
   ("C18", C18.run),
   ("C17", stateless C17.handle),
   ("C09", C09.run),
   ("C08", C08.run),
   ("C20", C20.run),
   ("C11", C11.run),
   ("C10", C10.run),
   ("C06", C06.run),
   ("C07", C07.run)]

def main (args : List String) : IO UInt32 := do
  match args with
  | [p] =>
    match drivers.lookup p with
    | some run => run; return 0
    | none => IO.eprintln s!"unknown driver {p}"; return 2
  | _ => IO.eprintln "usage: psvdriver <driver>"; return 2
