import PsV.Spec.BSpline
/-!
# Specification of grid evaluation (C17)

The value at one grid point is the sum over every stored coefficient of coefficient × Π_d (Cox–de Boor
basis function, right-continuous order-0 indicator, `a/0 = 0`) — the same `specSum` the pointwise
specification `specEval` uses, with the basis convention `indR` in every dimension.
-/
namespace PsV
open Arith
variable {α : Type} [A : Arith α]

/-- per dimension `(stride, [B_0(x), …, B_{naxes-1}(x)])` with the right-continuous basis -/
def gridRows : List (Dim α) → List α → List (Nat × List α)
  | d :: ds, x :: xs =>
    (d.stride, (List.range d.naxes).map fun (i : Nat) => Bind (indR d.knots x) d.knots x d.order i)
      :: gridRows ds xs
  | _, _ => []

/-- `Σ_idx coef[idx] · Π_d B_d(idx_d, x_d)` -/
def gridSpec (dims : List (Dim α)) (coef : Int → α) (xs : List α) : α :=
  specSum coef (gridRows dims xs) A.one 0

/-- the point addressed by grid index `g`: `coords_d[g_d]` (`none` when an index is out of range) -/
def gridPoint : List (List α) → List Nat → Option (List α)
  | [], [] => some []
  | c :: cs, g :: gs =>
    match c[g]?, gridPoint cs gs with
    | some x, some xs => some (x :: xs)
    | _, _ => none
  | _, _ => none

end PsV
