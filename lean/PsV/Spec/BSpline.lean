import PsV.Model.Eval
/-!
# Specification of the tensor-product B-spline sum (independent of the evaluation model)

`Br` / `Bl`: Cox–de Boor recursion with the right-continuous (`t i ≤ x < t (i+1)`) / left-continuous
(`t i < x ≤ t (i+1)`) order-0 indicator and the usual `a/0 = 0` convention for repeated knots.
`Bsel` picks the convention as the property states it: the piece to the right of a knot below the
upper end of the fully supported range `knots[naxes]`, the piece to its left from there upwards.
`specEval` is the sum over *all* stored coefficients.
Executable over any `Arith` (the driver runs it at `Rat`); the theorems use the field instance.
-/
namespace PsV
open Arith
variable {α : Type} [A : Arith α]

def indR (t : Int → α) (x : α) (i : Int) : Bool := A.le (t i) x && A.lt x (t (i+1))
def indL (t : Int → α) (x : α) (i : Int) : Bool := A.lt (t i) x && A.le x (t (i+1))

/-- Cox–de Boor with a given order-0 indicator. -/
def Bind (ind : Int → Bool) (t : Int → α) (x : α) : Nat → Int → α
  | 0, i => if ind i then A.one else A.zero
  | n+1, i =>
    A.add (A.mul (A.div (A.sub x (t i)) (A.sub (t (i + n + 1)) (t i))) (Bind ind t x n i))
          (A.mul (A.div (A.sub (t (i + n + 2)) x) (A.sub (t (i + n + 2)) (t (i + 1)))) (Bind ind t x n (i+1)))

/-- k-th derivative of the selected piece through the knot-difference formula
`B' n i = n (B (n-1) i / (t(i+n) - t i) - B (n-1) (i+1) / (t(i+n+1) - t(i+1)))`. -/
def Dind (ind : Int → Bool) (t : Int → α) (x : α) : (k : Nat) → (n : Nat) → Int → α
  | 0, n, i => Bind ind t x n i
  | _+1, 0, _ => A.zero
  | k+1, n+1, i =>
    A.mul (A.ofNat (n+1))
      (A.sub (A.div (Dind ind t x k n i) (A.sub (t (i + n + 1)) (t i)))
             (A.div (Dind ind t x k n (i+1)) (A.sub (t (i + n + 2)) (t (i + 1)))))

/-- the convention of C01: right-continuous below `knots[naxes]`, left-continuous from there up -/
def selInd (d : Dim α) (x : α) : Int → Bool :=
  if A.lt x (d.knots d.naxes) then indR d.knots x else indL d.knots x

/-- value (k = 0) or k-th derivative of basis function `i` of dimension `d` at `x` -/
def Bsel (d : Dim α) (x : α) (k : Nat) (i : Nat) : α := Dind (selInd d x) d.knots x k d.order i

/-- `Σ_{i < naxes_0} f_0 i · Σ_{…} … coef[pos + Σ i_d stride_d]`; `fs` holds per dimension
`(stride, [f 0, …, f (naxes-1)])`. -/
def specSumRow (inner : α → Int → α) (s : Nat) (p : α) : List α → Int → α
  | [], _ => A.zero
  | f :: fs, pos => A.add (inner (A.mul p f) pos) (specSumRow inner s p fs (pos + s))

def specSum (coef : Int → α) : List (Nat × List α) → α → Int → α
  | [], p, pos => A.mul p (coef pos)
  | (s, fs) :: rest, p, pos => specSumRow (specSum coef rest) s p fs pos

def derivOrder : BasisMode → Nat
  | .value => 0
  | .deriv1 => 1
  | .derivK k => k

def specRows : List (Dim α) → List α → List BasisMode → List (Nat × List α)
  | d :: ds, x :: xs, m :: ms =>
    (d.stride, (List.range d.naxes).map (Bsel d x (derivOrder m))) :: specRows ds xs ms
  | _, _, _ => []

/-- The property-level meaning of an evaluation: the sum over every stored coefficient of
coefficient × Π_d (value or derivative of the Cox–de Boor basis function). -/
def specEval (T : Table α) (xs : List α) (ms : List BasisMode) : α :=
  specSum T.coef (specRows T.dims xs ms) A.one 0

end PsV
