import PsV.Model.Convolve
import PsV.Spec.BSpline
/-!
# Exact specification of C14: the convolution of the spline surface with the unit-area kernel spline

Independent of blossoming / divided differences: B-spline pieces are built as polynomials (coefficient
lists, low degree first) by the Cox–de Boor recursion *on polynomials*; the integral
`(f ⋆ M)(x) = ∫ f(x − t) M(t) dt` is split at the breakpoints (for a fixed `x`: the kernel knots `y_b` and the
reflected table knots `x − τ_a`), each part is the integral of a polynomial in `t`, taken through the
antiderivative.  Everything is exact in `Rat`.  `f` is the sum over **all** stored basis functions on the whole
real line (zero outside the knot range), `M = (n−1)/(y_{n−1} − y_0) · B_{0,n−2}(· | y)` (unit area).
-/
namespace PsV.ConvSpec

abbrev Poly := List Rat

def padd : Poly → Poly → Poly
  | [], q => q
  | p, [] => p
  | a :: p, b :: q => (a + b) :: padd p q

def pscale (c : Rat) (p : Poly) : Poly := p.map (c * ·)

/-- `(a + b·X) · p` -/
def pmulLin (a b : Rat) (p : Poly) : Poly := padd (pscale a p) (0 :: pscale b p)

def pmul : Poly → Poly → Poly
  | [], _ => []
  | a :: p, q => padd (pscale a q) (0 :: pmul p q)

/-- Horner -/
def peval (p : Poly) (x : Rat) : Rat := p.foldr (fun a acc => a + x * acc) 0

/-- `p(a + b·X)` -/
def pcompLin (p : Poly) (a b : Rat) : Poly := p.foldr (fun c acc => padd [c] (pmulLin a b acc)) []

def antiFrom : Nat → Poly → Poly
  | _, [] => []
  | i, c :: p => c / ((i : Rat) + 1) :: antiFrom (i+1) p

/-- antiderivative with constant term 0 -/
def pantideriv (p : Poly) : Poly := 0 :: antiFrom 0 p

def derivFrom : Nat → Poly → Poly
  | _, [] => []
  | i, c :: p => ((i : Rat) + 1) * c :: derivFrom (i+1) p

def pderiv : Poly → Poly
  | [] => []
  | _ :: p => derivFrom 0 p

def pintegral (p : Poly) (lo hi : Rat) : Rat :=
  let P := pantideriv p
  peval P hi - peval P lo

/-- The polynomial that `B_{i,p}(· | t)` is on the knot interval `[t j, t (j+1))`
(Cox–de Boor; `a/0 = 0` is `Rat` division). -/
def bpiece (t : Nat → Rat) (j : Nat) : Nat → Nat → Poly
  | 0, i => if i = j then [1] else []
  | p+1, i =>
    let dl := t (i+p+1) - t i
    let dr := t (i+p+2) - t (i+1)
    padd (pmulLin (-(t i) / dl) (1 / dl) (bpiece t j p i))
         (pmulLin (t (i+p+2) / dr) (-1 / dr) (bpiece t j p (i+1)))

/-- the piece of `f = Σ_{i<naxes} c i · B_{i,p}` on interval `j` -/
def fpiece (t : Nat → Rat) (p naxes : Nat) (c : Nat → Rat) (j : Nat) : Poly :=
  (List.range (p+1)).foldl (fun acc r =>
    -- i = j - p + r, when 0 ≤ i < naxes
    if j + r < p then acc else
    let i := j + r - p
    if i < naxes then padd acc (pscale (c i) (bpiece t j p i)) else acc) []

/-- piece `b` of the unit-area kernel on `n = q+1` knots -/
def kpiece (y : Nat → Rat) (q : Nat) (b : Nat) : Poly :=
  pscale ((q : Rat) / (y q - y 0)) (bpiece y b (q-1) 0)

/-- `∫ f(x − t) M(t) dt` for the 1-d spline `(t, nknots, p, c)` and kernel knots `y 0 < … < y q` -/
def conv1 (t : Nat → Rat) (nknots p naxes : Nat) (c : Nat → Rat) (y : Nat → Rat) (q : Nat) (x : Rat) : Rat :=
  (List.range (nknots - 1)).foldl (fun acc a =>
    -- f-interval a: t a ≤ x - s < t (a+1)  ⇔  x - t (a+1) < s ≤ x - t a
    let lo0 := x - t (a+1)
    let hi0 := x - t a
    if hi0 ≤ y 0 ∨ y q ≤ lo0 ∨ hi0 ≤ lo0 then acc else
    let fa := pcompLin (fpiece t p naxes c a) x (-1)
    (List.range q).foldl (fun acc b =>
      let lo := if lo0 < y b then y b else lo0
      let hi := if y (b+1) < hi0 then y (b+1) else hi0
      if lo < hi then acc + pintegral (pmul fa (kpiece y q b)) lo hi else acc) acc) 0

/-- exact integral of the kernel (must be 1) -/
def kernelArea (y : Nat → Rat) (q : Nat) : Rat :=
  (List.range q).foldl (fun acc b => acc + pintegral (kpiece y q b) (y b) (y (b+1))) 0

open PsV in
def toDim (d : CDim Rat) : Dim Rat :=
  ⟨d.order, d.nknots, d.naxes, d.stride, fun i => if i < 0 then 0 else d.knots.getD i.toNat 0⟩

/-- contraction of every dimension but `dim` with its Cox–de Boor basis values at `xs`:
`c̃ l = Σ_{i_d, d ≠ dim} coef[…] Π_{d≠dim} B_d(x_d)`; `rows` = per dimension `(stride, some values | none for dim)` -/
def contract (coef : Nat → Rat) : List (Nat × Option (List Rat)) → Nat → Nat → Rat
  | [], _, pos => coef pos
  | (s, none) :: rest, l, pos => contract coef rest l (pos + l * s)
  | (s, some vs) :: rest, l, pos =>
    (vs.zipIdx.foldl (fun acc (v, i) => if v = 0 then acc else acc + v * contract coef rest l (pos + i * s)) 0)

open PsV in
def rowsFor (dims : List (CDim Rat)) (dim : Nat) (xs : List Rat) : List (Nat × Option (List Rat)) :=
  (dims.zip xs).zipIdx.map fun ((d, x), i) =>
    if i = dim then (d.stride, none)
    else (d.stride, some ((List.range d.naxes).map (Bsel (toDim d) x 0)))

/-- **the specification**: value of the convolved surface at `xs` -/
def specConv (T : PsV.CTable Rat) (dim : Nat) (ck : List Rat) (xs : List Rat) : Rat :=
  match T.dims[dim]? with
  | none => 0
  | some d =>
    let rows := rowsFor T.dims dim xs
    let ctil := PsV.tab d.naxes fun l => contract (fun p => T.coef.getD p 0) rows l 0
    conv1 (fun i => d.knots.getD i 0) d.nknots d.order d.naxes (PsV.rd ctil) (fun i => ck.getD i 0) (ck.length - 1) (xs.getD dim 0)

/-- value of a table at `xs` through the shared Cox–de Boor specification:
`Σ over all stored coefficients: coef · Π_d B_d(x_d)` (`Bsel`: the C01 convention) -/
def evalTable (R : PsV.CTable Rat) (xs : List Rat) : Rat :=
  contract (fun p => R.coef.getD p 0)
    ((R.dims.zip xs).map fun (d, x) => (d.stride, some ((List.range d.naxes).map (PsV.Bsel (toDim d) x 0)))) 0 0

end PsV.ConvSpec
