import PsV.Spec.Grid
import PsV.Model.Glam
/-!
# Specification of the unconstrained penalised fit (C09), built from the definition

objective(c) = Σ_r w_r (z_r − Σ_i B[r,i] c_i)²  +  Σ_d λ_d · Σ (coefficients of the p_d-th partial derivative along d)²

* `B[r,i] = Π_d B_d(i_d, x_{r,d})` (`designEntry`; Cox–de Boor, right-continuous indicator, `a/0 = 0`; `i` is the row-major
  position of the coefficient, `i_d = (i / stride_d) % naxes_d`),
* `derivCoef t order p c j`: the coefficients of the p-th derivative of `Σ c_i B_{i,order}` in the basis of order
  `order − p` (de Boor's recurrence `c⁽ᵖ⁺¹⁾_j = (order − p)(c⁽ᵖ⁾_{j+1} − c⁽ᵖ⁾_j)/(t_{j+order+1} − t_{j+p+1})`),
* `penaltyTerm`: the sum of their squares over all `n_d − p` derivative coefficients of every line of the coefficient
  tensor along dimension `d`.
`specM`, `specR` are the matrix and right-hand side of the normal equations `M c = r` of this objective
(`M = BᵀWB + Σ_d λ_d K_dᵀK_d`, `r = BᵀWz`; `K_d` = `penaltyRow`), `solveSPD` is exact elimination without pivoting,
which succeeds exactly when every leading principal minor is positive.
Nothing here looks at how glam.c assembles its matrices.
-/
namespace PsV
open Arith
variable {α : Type} [A : Arith α]

/-- dense `n × m` table, row-major -/
structure Tab2 (α : Type) where
  n : Nat
  m : Nat
  arr : Array α

def Tab2.get (T : Tab2 α) (i j : Nat) : α :=
  if i < T.n ∧ j < T.m then (match T.arr[i * T.m + j]? with | some v => v | none => A.zero) else A.zero

def Tab2.ofFn (n m : Nat) (f : Nat → Nat → α) : Tab2 α :=
  ⟨n, m, Array.ofFn (n := n * m) fun k => f (k.val / m) (k.val % m)⟩

structure FitRow (α : Type) where
  idx : List Nat     -- grid index of the datum in every dimension
  z : α
  w : α

/-- a fit problem with the per-dimension smoothing / penalty order already expanded -/
structure FitProblem (α : Type) where
  dims : List (Dim α)
  coords : List (List α)
  rows : Array (FitRow α)
  smooth : List α
  porder : List Nat

def natProd : List Nat → Nat
  | [] => 1
  | x :: xs => x * natProd xs

def FitProblem.ncoef (P : FitProblem α) : Nat := natProd (P.dims.map (·.naxes))

/-- `Π_d B_d((i / stride_d) % naxes_d, x_d)` -/
def basisProd : List (Dim α) → List α → Nat → α
  | d :: ds, x :: xs, i =>
    A.mul (Bind (indR d.knots x) d.knots x d.order (((i / d.stride) % d.naxes : Nat) : Int)) (basisProd ds xs i)
  | [], [], _ => A.one
  | _, _, _ => A.zero

/-- design matrix entry: datum `r`, coefficient `i` -/
def designEntry (P : FitProblem α) (r i : Nat) : α :=
  match P.rows[r]? with
  | none => A.zero
  | some row =>
    match gridPoint P.coords row.idx with
    | none => A.zero
    | some xs => basisProd P.dims xs i

def rowW (P : FitProblem α) (r : Nat) : α := match P.rows[r]? with | some row => row.w | none => A.zero
def rowZ (P : FitProblem α) (r : Nat) : α := match P.rows[r]? with | some row => row.z | none => A.zero

/-- coefficients of the p-th derivative (relative index `j`: basis function `j+p` of order `order-p`) -/
def derivCoef (t : Int → α) (order : Nat) : (p : Nat) → (Nat → α) → Nat → α
  | 0, c, j => c j
  | p+1, c, j =>
    A.div (A.mul (A.ofNat (order - p)) (A.sub (derivCoef t order p c (j+1)) (derivCoef t order p c j)))
          (A.sub (t ((j : Int) + order + 1)) (t ((j : Int) + p + 1)))

/-- `Σ_a Σ_k Σ_b (p-th derivative coefficient k of the line (a, ·, b) of c)²` for a dimension with `n` coefficients and stride `s` -/
def penaltyTerm (t : Int → α) (order p n s outer : Nat) (c : Nat → α) : α :=
  sumTo outer fun a => sumTo (n - p) fun k => sumTo s fun b =>
    let v := derivCoef t order p (fun i => c (a * n * s + i * s + b)) k
    A.mul v v

def penaltySum : List (Dim α) → List α → List Nat → Nat → (Nat → α) → α
  | d :: ds, l :: ls, p :: ps, N, c =>
    A.add (A.mul l (penaltyTerm d.knots d.order p d.naxes d.stride (N / (d.naxes * d.stride)) c)) (penaltySum ds ls ps N c)
  | _, _, _, _, _ => A.zero

/-- the objective the property states -/
def objective (P : FitProblem α) (c : Nat → α) : α :=
  A.add
    (sumTo P.rows.size fun r =>
      let res := A.sub (rowZ P r) (sumTo P.ncoef fun i => A.mul (designEntry P r i) (c i))
      A.mul (rowW P r) (A.mul res res))
    (penaltySum P.dims P.smooth P.porder P.ncoef c)

/-- row `q = (a·(n−p) + k)·s + b` of `K_d`: derivative coefficient `k` of line `(a, ·, b)` as a linear form in `c` -/
def penaltyRow (t : Int → α) (order p n s : Nat) (q i : Nat) : α :=
  let b := q % s
  let k := (q / s) % (n - p)
  let a := q / (s * (n - p))
  derivCoef t order p (fun m => if a * n * s + m * s + b = i then A.one else A.zero) k

def penaltyTabs : List (Dim α) → List Nat → Nat → List (Tab2 α)
  | d :: ds, p :: ps, N =>
    Tab2.ofFn ((N / (d.naxes * d.stride)) * (d.naxes - p) * d.stride) N (penaltyRow d.knots d.order p d.naxes d.stride)
      :: penaltyTabs ds ps N
  | _, _, _ => []

def penaltyEntry : List (Tab2 α) → List α → Nat → Nat → α
  | K :: Ks, l :: ls, i, j => A.add (A.mul l (sumTo K.n fun q => A.mul (K.get q i) (K.get q j))) (penaltyEntry Ks ls i j)
  | _, _, _, _ => A.zero

def designTab (P : FitProblem α) : Tab2 α := Tab2.ofFn P.rows.size P.ncoef (designEntry P)

/-- `M = BᵀWB + Σ_d λ_d K_dᵀK_d` -/
def specM (P : FitProblem α) : Tab2 α :=
  let B := designTab P
  let Ks := penaltyTabs P.dims P.porder P.ncoef
  Tab2.ofFn P.ncoef P.ncoef fun i j =>
    A.add (sumTo P.rows.size fun r => A.mul (A.mul (rowW P r) (B.get r i)) (B.get r j)) (penaltyEntry Ks P.smooth i j)

/-- `r = BᵀWz` -/
def specR (P : FitProblem α) : Array α :=
  let B := designTab P
  Array.ofFn (n := P.ncoef) fun i => sumTo P.rows.size fun r => A.mul (A.mul (rowW P r) (rowZ P r)) (B.get r i.val)

/-! ## exact elimination -/

/-- one elimination step on the augmented rows `k+1 …`: `row_i -= (row_i[k]/pivot) * row_k` -/
def elimStep (k : Nat) (pivotRow : Array α) (piv : α) (rows : Array (Array α)) : Array (Array α) :=
  rows.mapIdx fun i row =>
    if i ≤ k then row else
    let f := A.div (row.getD k A.zero) piv
    if isZero f then row else
    row.mapIdx fun j v => if j < k then v else A.sub v (A.mul f (pivotRow.getD j A.zero))

/-- forward elimination without pivoting; `none` as soon as a pivot is not positive -/
def elimLoop (n : Nat) : (fuel : Nat) → (k : Nat) → Array (Array α) → Option (Array (Array α))
  | 0, _, rows => some rows
  | f+1, k, rows =>
    if k ≥ n then some rows else
    let prow := rows.getD k #[]
    let piv := prow.getD k A.zero
    if !(A.lt A.zero piv) then none else
    elimLoop n f (k+1) (elimStep k prow piv rows)

def backSub (n : Nat) (rows : Array (Array α)) : Array α :=
  (List.range n).foldr (fun i x =>
      let row := rows.getD i #[]
      let s := (List.range (n - i - 1)).foldl (fun acc d => let j := i + 1 + d; A.sub acc (A.mul (row.getD j A.zero) (x.getD j A.zero))) (row.getD n A.zero)
      x.setIfInBounds i (A.div s (row.getD i A.zero)))
    (Array.replicate n A.zero)

/-- solve `M c = r` by elimination without pivoting; `none` unless every pivot (= ratio of consecutive leading
principal minors) is positive, i.e. unless the symmetric matrix is positive definite -/
def solveSPD (M : Tab2 α) (r : Array α) : Option (Array α) :=
  let n := M.n
  let aug : Array (Array α) := Array.ofFn (n := n) fun i => Array.ofFn (n := n + 1) fun j => if j.val < n then M.get i.val j.val else r.getD i.val A.zero
  match elimLoop n n 0 aug with
  | none => none
  | some rows => some (backSub n rows)

/-- the pivots of the elimination (`d_k = minor_{k+1}/minor_k`); `none` unless all are positive -/
def spdPivots (M : Tab2 α) : Option (List α) :=
  let n := M.n
  let aug : Array (Array α) := Array.ofFn (n := n) fun i => Array.ofFn (n := n) fun j => M.get i.val j.val
  match elimLoop n n 0 aug with
  | none => none
  | some rows => some ((List.range n).map fun i => (rows.getD i #[]).getD i A.zero)

/-- the exact minimiser of the objective (when the normal matrix is positive definite) -/
def specFit (P : FitProblem α) : Option (Array α) := solveSPD (specM P) (specR P)

end PsV
