import PsV.Model.AllocBase
import PsV.Generated.C19
/-!
# C19 — what the reader and `convolve` request from the allocator, and what `estimateMemory` promises

The call sites, their order, their loops and every size expression come from `PsV.Generated.C19` (translated
from the source on every run).  Hand-written here: how a loop nest turns into an event sequence (`interp`; a call under an `if` inside a loop body
is executed when its generated condition holds),
the shape `convolve` installs (`convDims`, mirroring `convorder`, `n_rho`, `naxes[dim] = n_rho-convorder-1`),
and how `estimateMemory` combines its generated terms (`estimate`).
-/
namespace PsV.C19
open PsV.Generated.C19

/-- Apply `f` to the element at index `c` (nothing happens when `c` is out of range). -/
def adjustAt (f : Dim → Dim) : Nat → List Dim → List Dim
  | _, [] => []
  | 0, d :: ds => f d :: ds
  | c+1, d :: ds => d :: adjustAt f c ds

/-- `convolve(dim, knots, n)`: `convorder = order[dim] + n - 1`, `n_rho = nknots[dim]*n` (the double loop),
    `naxes[dim] = n_rho - convorder - 1`. -/
def convDim (n : Nat) (d : Dim) : Dim :=
  let convorder := d.order + n - 1
  let nrho := d.nknots * n
  ⟨convorder, nrho, nrho - convorder - 1⟩

def convDims (p : Params) : List Dim := adjustAt (convDim p.n) p.cdim p.dims

def topEnv (p : Params) (newDims cur : List Dim) : SiteEnv :=
  { ndim := cur.length, naux := p.aux.length, ncoeffs := prodNaxes cur, arraysize := prodNaxes newDims }

/-- Event sequence of a function whose allocator calls are `blocks`, on a table whose current shape is `cur`
    and whose shape after `.updateShape` is `newDims`. -/
def interp (p : Params) (newDims : List Dim) : List Dim → List Block → List Event
  | _, [] => []
  | cur, .one s :: bs => evalSites (topEnv p newDims cur) [s] ++ interp p newDims cur bs
  | cur, .forAux body :: bs =>
      p.aux.flatMap (fun a => evalSites { topEnv p newDims cur with keylen := a.keylen, valuelen := a.vallen, storedlen := a.storedlen } body)
        ++ interp p newDims cur bs
  | cur, .forDim body :: bs =>
      cur.flatMap (fun d => evalSites { topEnv p newDims cur with nknots := d.nknots, order := d.order } body)
        ++ interp p newDims cur bs
  | _, .updateShape :: bs => interp p newDims newDims bs

/-- What constructing the table from the file requests (`read_fits_core`). -/
def readEvents (p : Params) : List Event := interp p p.dims p.dims readBlocks

/-- What `convolve(cdim, kernel, n)` requests afterwards. -/
def convolveEvents (p : Params) : List Event := interp p (convDims p) p.dims convolveBlocks

/-- What `~splinetable` gives back to the allocator for a table of shape `cur` (`p.dims` after a plain load,
    `convDims p` after the convolution) holding the auxiliary entries of `p`. -/
def destroyEvents (p : Params) (cur : List Dim) : List Event := interp p cur cur destroyBlocks

/-- The whole life of the table in its arena: construct from the file, convolve as declared, destroy. -/
def lifeEvents (p : Params) : List Event := readEvents p ++ convolveEvents p ++ destroyEvents p (convDims p)

/-! ## an arena that hands out more than was requested -/

/-- `n` rounded up to a multiple of `A`. -/
def alignUp (A n : Nat) : Nat := (n + (A - 1)) / A * A

/-- The same sequence of requests as seen by an arena that uses `c n` bytes for a request of `n` bytes (alignment
    padding, a block header): an allocation of `n` costs `c n`, and releasing it gives `c n` back. -/
def costEvents (c : Nat → Nat) (es : List Event) : List Event :=
  es.map fun e => match e with
    | .alloc n => .alloc (c n)
    | .free n => .free (c n)

/-- every block starts at a multiple of `A` and occupies a multiple of `A` -/
def padEvents (A : Nat) (es : List Event) : List Event := costEvents (alignUp A) es

/-- every block is preceded by a header of `H` bytes and padded to a multiple of `A` -/
def arenaEvents (A H : Nat) (es : List Event) : List Event := costEvents (fun n => alignUp A n + H) es

/-! ## validation -/

/-- `read_fits_core` accepts the shape of the file: in no dimension does the (generated) condition hold under which
    the reader throws "inconsistent numbers of knots and coefficients".  Since that check exists every file that
    can be loaded at all satisfies it. -/
def loadable (p : Params) : Bool := p.dims.all fun d => !readerRejects d.nknots d.order d.naxes

/-- `convolve(cdim, kernel, n)` passes its argument checks on the table loaded from the file. -/
def convolvable (p : Params) : Bool := !convolveRejects p.cdim p.dims.length p.n

/-! ## estimateMemory -/

/-- The shape `estimateMemory` computes: `order[cdim] += …; nknots *= …; naxes[i] = …` in the convolved
    dimension, the file's values elsewhere. -/
def estDim (n : Nat) (d : Dim) : Dim :=
  let o := orderAdj d.order n
  let k := nknotsAdj d.nknots n
  ⟨o, k, naxesAdj k o⟩

def estDims (p : Params) : List Dim := adjustAt (estDim p.n) p.cdim p.dims

def sumKnotTerms : List Dim → Nat
  | [] => 0
  | d :: ds => (knotTerms d.nknots d.order).sum + sumKnotTerms ds

/-- `size` just before the rounding statement, with `naux` as given. -/
def rawSizeWith (naux : Nat) (p : Params) : Nat :=
  sizeInit p.objsize + sumKnotTerms (estDims p) + (fixedTerms p.dims.length (prodNaxes (estDims p)) naux).sum

def estimateWith (naux : Nat) (p : Params) : Nat :=
  let s := rawSizeWith naux p
  s + roundingTerm s

/-- The value `estimateMemory(file, n, cdim)` returns. -/
def estimate (p : Params) : Nat := estimateWith (nauxCounted p.aux.length p.nauxKnotsHdu) p

end PsV.C19
