/-!
# Arithmetic bundle for the numerical kernels

One model definition is instantiated at
* `Rat` (exact; the carrier the theorems are specialised to and the oracle the driver computes),
* `F64` / `F32` (IEEE double working precision with double / float storage: the same operation
  sequence as the C++ with `Float = double` / `Float = float`; used only for the bit-exact tie),
* `Term` (free term algebra, no laws at all: two routines that build the same term are
  bit-identical under any deterministic arithmetic; used for C03).

`rnd` is the rounding applied whenever the C++ stores into a `Float`-typed (template argument)
variable.  For `Float = float` every float⊗float operation is `rnd (a ⊗ b)` computed in double:
with p = 24 → 53 ≥ 2·24+2 double rounding is innocuous for + − × ÷, so this is bit-identical
to the native single-precision operation (and the tie checks it).
-/
namespace PsV

class Arith (α : Type) where
  add : α → α → α
  sub : α → α → α
  mul : α → α → α
  div : α → α → α
  neg : α → α
  lt : α → α → Bool
  le : α → α → Bool
  zero : α
  one : α
  ofNat : Nat → α
  rnd : α → α

namespace Arith
variable {α : Type} [A : Arith α]
/-- storage-precision product / sum (`Float*Float`, `Float+Float` in the C++) -/
@[inline] def smul (a b : α) : α := A.rnd (A.mul a b)
@[inline] def sadd (a b : α) : α := A.rnd (A.add a b)
end Arith

instance : Arith Rat where
  add := (· + ·)
  sub := (· - ·)
  mul := (· * ·)
  div := (· / ·)
  neg := fun a => -a
  lt := fun a b => decide (a < b)
  le := fun a b => decide (a ≤ b)
  zero := 0
  one := 1
  ofNat := fun n => (n : Rat)
  rnd := id

/-- IEEE double, storage double (`Float = double`). -/
structure F64 where
  v : Float

/-- IEEE double working precision, storage float (`Float = float`). -/
structure F32 where
  v : Float

instance : Arith F64 where
  add a b := ⟨a.v + b.v⟩
  sub a b := ⟨a.v - b.v⟩
  mul a b := ⟨a.v * b.v⟩
  div a b := ⟨a.v / b.v⟩
  neg a := ⟨-a.v⟩
  lt a b := a.v < b.v
  le a b := a.v ≤ b.v
  zero := ⟨0.0⟩
  one := ⟨1.0⟩
  ofNat n := ⟨n.toFloat⟩
  rnd := id

instance : Arith F32 where
  add a b := ⟨a.v + b.v⟩
  sub a b := ⟨a.v - b.v⟩
  mul a b := ⟨a.v * b.v⟩
  div a b := ⟨a.v / b.v⟩
  neg a := ⟨-a.v⟩
  lt a b := a.v < b.v
  le a b := a.v ≤ b.v
  zero := ⟨0.0⟩
  one := ⟨1.0⟩
  ofNat n := ⟨n.toFloat⟩
  rnd a := ⟨a.v.toFloat32.toFloat⟩

/-- Free terms: no algebraic law holds, so equality of terms is equality of computations. -/
inductive Term where
  | knot : Nat → Int → Term          -- knot (dim) (index)
  | coord : Nat → Term               -- x[dim]
  | coef : Int → Term                -- coefficients[pos]
  | lit : Nat → Term
  | add : Term → Term → Term
  | sub : Term → Term → Term
  | mul : Term → Term → Term
  | div : Term → Term → Term
  | neg : Term → Term
  | rnd : Term → Term
deriving DecidableEq, Repr, Inhabited

end PsV
