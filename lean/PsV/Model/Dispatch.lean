/-!
# Model of `splinetable::get_evaluator` (dispatch over templated evaluation cores)

The *table* of assignments is regenerated from the source on every run (`PsV.Generated.Dispatch`);
this file holds the lookup logic of the `switch` nest and the meaning of a routine choice.
-/
namespace PsV.Dispatch

inductive Routine where
  | generic                       -- ndsplineeval_core / ndsplineeval_multibasis_core
  | coreD (D : Nat)               -- …_coreD<Float, D>
  | fixedOrder (D O : Nat)        -- …_coreD_FixedOrder<Float, D, O>
  | knownOrder (orders : List Nat) -- …_core_KnownOrder<Float, Orders...>
deriving DecidableEq, Repr

/-- one `eval.eval_ptr = …; eval.v_eval_ptr = …;` pair with the `case` labels it sits under
(`none` = `default:`) -/
structure Entry where
  constOrder : Option Nat
  ndim : Option Nat
  scalar : Routine
  vector : Routine
deriving DecidableEq, Repr

/-- `if (detail::orders_are(*this, {…})) { … }` -/
structure Override where
  orders : List Nat
  scalar : Routine
  vector : Routine
deriving DecidableEq, Repr

/-- `constOrder = order[0]; for j: if (order[j] != constOrder) { constOrder = 0; break; }` -/
def constOrder : List Nat → Nat
  | [] => 0
  | o :: os => if os.all (· == o) then o else 0

/-- C++ `switch` semantics: the `case` with the matching label, otherwise `default` -/
def matchLabel (label : Option Nat) (v : Nat) (labels : List (Option Nat)) : Bool :=
  match label with
  | some k => k == v
  | none => !(labels.contains (some v))

/-- the entry selected by `switch(constOrder){ … switch(ndim){ … } }` -/
def select (tbl : List Entry) (orders : List Nat) : Option Entry :=
  let co := constOrder orders
  let outer := tbl.map (·.constOrder)
  let inTbl := tbl.filter fun e => matchLabel e.constOrder co outer
  let inner := inTbl.map (·.ndim)
  inTbl.find? fun e => matchLabel e.ndim orders.length inner

/-- `get_evaluator`: switch nest, then the first matching mixed-order override -/
def getEvaluator (tbl : List Entry) (ovr : List Override) (orders : List Nat) : Option (Routine × Routine) :=
  match ovr.find? (fun o => o.orders == orders) with
  | some o => some (o.scalar, o.vector)
  | none => (select tbl orders).map fun e => (e.scalar, e.vector)

/-- A routine may be used on a table with these per-dimension orders exactly when its template
arguments describe that table. -/
def Compat (orders : List Nat) : Routine → Prop
  | .generic => True
  | .coreD D => D = orders.length
  | .fixedOrder D O => D = orders.length ∧ ∀ o ∈ orders, o = O
  | .knownOrder os => os = orders

instance (orders : List Nat) (r : Routine) : Decidable (Compat orders r) := by
  cases r <;> unfold Compat <;> infer_instance

end PsV.Dispatch
