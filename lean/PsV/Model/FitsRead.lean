import PsV.Model.Fits
/-!
# read_fits_core on arbitrary stores (C07): scope of the abstract API model, well-formedness, repaired reader
-/
namespace PsV.Fits

/-- Keyword names whose presence changes what cfitsio itself does with the image (scaling, null values). -/
def scalingKeys : List String := ["BSCALE", "BZERO", "BLANK"]

def dupFree (l : List Str) : Bool :=
  match l with
  | [] => true
  | a :: r => !r.contains a && dupFree r

def stdKeyChar (c : Char) : Bool := c.isUpper || c.isDigit || c = '-' || c = '_'

/-- FITS header text: printable ASCII only -/
def printable (s : Str) : Bool := s.all fun c => 32 ≤ c.toNat && c.toNat ≤ 126

/-- Scope of the abstract cfitsio model: stores for which `findCard` (first match from the top), plain
    integer syntax and the injected `parseD` are claimed to agree with cfitsio.  Everything else is reported
    as `unmodelled` by the driver and covered by the sanitizer battery only. -/
def modelledHdu (E : Ext) (h : Hdu) : Bool :=
  let keys := h.cards.map (·.key)
  h.cards.all (fun c => c.key.all stdKeyChar && printable c.val && printable c.com)
  && !(keys.any fun k => scalingKeys.any (·.toList == k))
  && dupFree (keys.filter fun k => !(k == "COMMENT".toList || k == "HISTORY".toList || k == []))
  && h.cards.all (fun c =>
      if "ORDER".toList.isPrefixOf c.key then c.val == [] || (parseInt c.val).isSome
      else if "PERIOD".toList.isPrefixOf c.key then c.val == [] || (E.parseD c.val).isSome
      else if c.key == "EXTNAME".toList || c.key == "HDUNAME".toList then c.val.head? == some '\''
      else true)
  && (partialProds 1 h.axes).all (· < 9223372036854775808) && prod h.axes < 9223372036854775808

def modelledE (E : Ext) (f : Fits) : Bool := f.all (modelledHdu E)

end PsV.Fits

namespace PsV.Fits

/-! ## well-formed tables (on bit patterns) -/

/-- IEEE binary64: exponent field not all ones -/
def finiteBits (b : UInt64) : Bool := b.toNat / 4503599627370496 % 2048 != 2047

/-- order-isomorphic integer key of a non-NaN double (sign-magnitude → two's complement, ±0 ↦ 0) -/
def dkey (b : UInt64) : Int :=
  if b.toNat < 9223372036854775808 then (b.toNat : Int) else - ((b.toNat - 9223372036854775808 : Nat) : Int)

def sortedKeys : List Int → Bool
  | a :: b :: r => decide (a ≤ b) && sortedKeys (b :: r)
  | _ => true

/-- the check `!std::isfinite(k[j]) || (j > 0 && k[j] < k[j-1])` never fires -/
def knotsValid (k : List UInt64) : Bool := k.all finiteBits && sortedKeys (k.map dkey)

/-- one dimension: enough knots for the order, coefficient count matches, knots finite and non-decreasing -/
def DimWF (o na : Nat) (k : List UInt64) : Prop :=
  2 * o + 2 ≤ k.length ∧ na = k.length - o - 1 ∧ knotsValid k = true

instance (o na : Nat) (k : List UInt64) : Decidable (DimWF o na k) := by unfold DimWF; infer_instance

/-- C07's "well-formed table": counts consistent, knots finite and sorted, array sizes match. -/
def Table.WF (t : Table) : Prop :=
  1 ≤ t.ndim ∧ t.knots.length = t.ndim ∧ t.naxes.length = t.ndim ∧
  t.strides = rowMajor t.naxes ∧ t.coef.length = prod t.naxes ∧
  (∀ i, i < t.ndim → DimWF (t.order.getD i 0) (t.naxes.getD i 0) (t.knots.getD i [])) ∧
  (t.extents.map (·.length)).getD (2 * t.ndim) = 2 * t.ndim ∧
  (t.periods.map (·.length)).getD t.ndim = t.ndim

instance (t : Table) : Decidable t.WF := by unfold Table.WF; infer_instance

/-! ## read_fits_core after fixes/C07-1.diff (validation; on top of the storage guard of commit 907b348) -/

/-- the `KNOTSn` loop with the validation block: counts are checked before the knot vector is allocated,
    values after it has been read -/
def readKnotsV (E : Ext) (f : Fits) (order naxes : List Nat) : Nat → Nat → Except RErr (List (List UInt64))
  | _, 0 => .ok []
  | i, n+1 =>
    match movnamHdu f (keyN "KNOTS" i) with
    | none => .error (.knotSize i)
    | some h =>
      let nk := h.axes.headD 0      -- `long nknots_temp = 0;` stays 0 for an image without axes
      if nk = 0 then .error (.knotCount i) else
      let o := order.getD i 0
      if nk < 2 * o + 2 ∨ naxes.getD i 0 ≠ nk - o - 1 then .error (.invalid i 1) else
      match readPixD E h nk with
      | none => .error (.knotData i)
      | some k =>
        if knotsValid k then (readKnotsV E f order naxes (i+1) n).map (k :: ·)
        else .error (.invalid i 2)

def readFixed (E : Ext) (f : Fits) : Except RErr Table :=
  match f with
  | [] => .error .noHdu
  | h0 :: _ =>
    let cs := hdrCards true h0
    let ndim := h0.axes.length
    if ndim < 1 then .error .badDim else
    let aux := readAux cs
    let orders : Except RErr (List Nat) :=
      match readKeyInt cs .tint "ORDER".toList with
      | some o => .ok (List.replicate ndim o)
      | none => readOrders cs 0 ndim
    match orders with
    | .error e => .error e
    | .ok order =>
    let periods := (List.range ndim).map fun i => (readKeyDbl E cs (keyN "PERIOD" i)).getD 0
    let naxes := h0.axes.reverse
    let strides := (partialProds 1 h0.axes).reverse
    let ncoeffs := strides.headD 0 * naxes.headD 0
    match readPixF E h0 ncoeffs with
    | none => .error .readPix
    | some coef =>
    match readKnotsV E f order naxes 0 ndim with
    | .error e => .error e
    | .ok knots =>
    let ext : Except RErr (List UInt64) :=
      match movnamHdu f "EXTENTS".toList with
      | none => .ok (defaultExtents order knots)
      | some h =>
        let n := h.axes.headD 0
        if n ≠ 2 * ndim then .ok (defaultExtents order knots) else
        match readPixD E h n with
        | none => .error .extData
        | some e => .ok e
    match ext with
    | .error e => .error e
    | .ok extents =>
    .ok ⟨order, knots, naxes, strides, coef, some extents, some periods, aux⟩

/-! ## the object while a read is in progress, and its destruction

Pointer-valued members are `none` (NULL) or `some` block; `knots[i]` entries are NULL, a block, or garbage
(allocated array of pointers that was never assigned).  Block sizes are left out: what matters for safety is
which pointers the cleanup code may follow and whether every block is released exactly once. -/

inductive Ptr where
  | null | garbage | block (id : Nat)
deriving DecidableEq, Repr

structure Obj where
  ndim : Nat := 0
  order : Ptr := .null
  knots : Ptr := .null
  knotEntries : List Ptr := []     -- contents of the `knots` array when allocated
  nknots : Ptr := .null
  extents : Ptr := .null
  extents0 : Ptr := .null          -- contents of extents[0] when `extents` is allocated
  periods : Ptr := .null
  coefficients : Ptr := .null
  naxes : Ptr := .null
  strides : Ptr := .null
  aux : Ptr := .null
  live : List Nat := []            -- allocation ledger: blocks obtained and not yet released
deriving DecidableEq, Repr

def Obj.empty : Obj := {}

/-- where `read_fits_core` stops: one constructor per `throw`, in source order, or `done` -/
inductive Stop where
  | early                -- before `ndim` is assigned (HDU / dimension errors)
  | order                -- "Unable to read order": aux and order allocated
  | imgSize              -- after periods, knots, nknots, extents, extents[0]
  | readPix              -- after naxes, strides, coefficients
  | knot (i : Nat) (allocated : Bool)   -- in iteration i of the knot loop, before / after `knots[i] = allocate`
  | extData
  | done
deriving DecidableEq, Repr

/-- State of the object at a stop, `nullInit` = the two initialisations added with the storage guard (907b348)
    (`std::fill(knots, knots+ndim, nullptr)`, `extents[0] = nullptr`).  Blocks are numbered in source order:
    0 aux, 1 order, 2 periods, 3 knots, 4 nknots, 5 extents, 6 extents[0], 7 naxes, 8 strides, 9 coefficients,
    10+i knots[i]. -/
def stateAt (nullInit : Bool) (ndim : Nat) : Stop → Obj
  | .early => {}
  | .order => { ndim, aux := .block 0, order := .block 1, live := [0, 1] }
  | .imgSize => { ndim, aux := .block 0, order := .block 1, periods := .block 2, knots := .block 3,
                  knotEntries := List.replicate ndim (if nullInit then .null else .garbage), nknots := .block 4,
                  extents := .block 5, extents0 := .block 6, live := [0, 1, 2, 3, 4, 5, 6] }
  | .readPix => { ndim, aux := .block 0, order := .block 1, periods := .block 2, knots := .block 3,
                  knotEntries := List.replicate ndim (if nullInit then .null else .garbage), nknots := .block 4,
                  extents := .block 5, extents0 := .block 6, naxes := .block 7, strides := .block 8,
                  coefficients := .block 9, live := [0, 1, 2, 3, 4, 5, 6, 7, 8, 9] }
  | .knot i a =>
    let k := if a then i + 1 else i
    { ndim, aux := .block 0, order := .block 1, periods := .block 2, knots := .block 3,
      knotEntries := (List.range k).map (fun j => .block (10 + j))
                     ++ List.replicate (ndim - k) (if nullInit then .null else .garbage),
      nknots := .block 4, extents := .block 5, extents0 := .block 6, naxes := .block 7, strides := .block 8,
      coefficients := .block 9, live := [0, 1, 2, 3, 4, 5, 6, 7, 8, 9] ++ (List.range k).map (10 + ·) }
  | .extData | .done =>
    { ndim, aux := .block 0, order := .block 1, periods := .block 2, knots := .block 3,
      knotEntries := (List.range ndim).map (fun j => .block (10 + j)), nknots := .block 4, extents := .block 5,
      extents0 := .block 6, naxes := .block 7, strides := .block 8, coefficients := .block 9,
      live := [0, 1, 2, 3, 4, 5, 6, 7, 8, 9] ++ (List.range ndim).map (10 + ·) }

inductive Fault where
  | nullDeref | freeGarbage | doubleFree
deriving DecidableEq, Repr

/-- release one pointer that the code passes to `deallocate` unconditionally -/
def free (p : Ptr) (live : List Nat) : Except Fault (List Nat) :=
  match p with
  | .null => .ok live            -- `deallocate(NULL, n)` of std::allocator is harmless
  | .garbage => .error .freeGarbage
  | .block b => if live.contains b then .ok (live.erase b) else .error .doubleFree

def freeAll : List Ptr → List Nat → Except Fault (List Nat)
  | [], live => .ok live
  | p :: ps, live => (free p live).bind (freeAll ps)

/-- `~splinetable()`: everything is keyed on `ndim != 0`; `strides[0]*naxes[0]` and `knots[i]` are read
    without a test, `extents` / `periods` are tested. -/
def destroy (o : Obj) : Except Fault (List Nat) :=
  if o.ndim = 0 then .ok o.live else
  if o.strides = .null ∨ o.naxes = .null then .error .nullDeref else   -- uint64_t ncoeffs=strides[0]*naxes[0];
  if o.knots = .null then .error .nullDeref else                         -- knots[i]-order[i]
  (freeAll (o.knotEntries.take o.ndim) o.live).bind fun l =>
  (freeAll [o.knots, o.nknots, o.order] l).bind fun l =>
  (if o.extents = .null then .ok l else freeAll [o.extents0, o.extents] l).bind fun l =>
  freeAll [o.periods, o.coefficients, o.naxes, o.strides, o.aux] l

/-- `splinetable::release_storage()`, run by the `storage_guard` in `read_fits_core` when the read does not
    complete (commit 907b348): every member is tested before it is followed or released; then the object is reset. -/
def cleanup (o : Obj) : Except Fault Obj :=
  (if o.knots = .null then .ok o.live
   else (freeAll (o.knotEntries.take o.ndim) o.live).bind (freeAll [o.knots])).bind fun l =>
  (freeAll [o.nknots, o.order] l).bind fun l =>
  (if o.extents = .null then .ok l else freeAll [o.extents0, o.extents] l).bind fun l =>
  (freeAll [o.periods, o.coefficients, o.naxes, o.strides, o.aux] l).bind fun l =>
  .ok { live := l }

/-- which stop a reader verdict corresponds to -/
def stopOf : RErr → Stop
  | .noHdu | .badDim => .early
  | .order _ => .order
  | .readPix => .readPix
  | .knotSize i | .knotCount i => .knot i false
  | .invalid i w => .knot i (w != 1)
  | .knotData i => .knot i true
  | .extData => .extData

end PsV.Fits
