import PsV.Model.Fits
/-!
# read_fits_core on arbitrary stores (C07): scope of the abstract API model, well-formedness, repaired reader
-/
namespace PsV.Fits

/-- Keyword names whose presence changes what cfitsio itself does with the image (scaling, null values). -/
def scalingKeys : List String := ["BSCALE", "BZERO", "BLANK"]

def dupFree (l : List Str) : Bool :=
  match l with
  | [] => true
  | a :: r => !r.contains a && dupFree r

def stdKeyChar (c : Char) : Bool := c.isUpper || c.isDigit || c = '-' || c = '_'

/-- Scope of the abstract cfitsio model: stores for which `findCard` (first match from the top), plain
    integer syntax and the injected `parseD` are claimed to agree with cfitsio.  Everything else is reported
    as `unmodelled` by the driver and covered by the sanitizer battery only. -/
def modelledHdu (E : Ext) (h : Hdu) : Bool :=
  let keys := h.cards.map (·.key)
  h.cards.all (fun c => c.key.all stdKeyChar)
  && !(keys.any fun k => scalingKeys.any (·.toList == k))
  && dupFree (keys.filter fun k => !(k == "COMMENT".toList || k == "HISTORY".toList || k == []))
  && h.cards.all (fun c =>
      if "ORDER".toList.isPrefixOf c.key then c.val == [] || (parseInt c.val).isSome
      else if "PERIOD".toList.isPrefixOf c.key then c.val == [] || (E.parseD c.val).isSome
      else if c.key == "EXTNAME".toList || c.key == "HDUNAME".toList then c.val.head? == some '\''
      else true)
  && (partialProds 1 h.axes).all (· < 9223372036854775808) && prod h.axes < 9223372036854775808

def modelledE (E : Ext) (f : Fits) : Bool := f.all (modelledHdu E)

end PsV.Fits
