import PsV.Model.GlamIdx
import PsV.Model.FitGlam
/-!
# The index arithmetic of `flatten_ndarray_to_sparse` (glam.c) in the C types it is written in

`PsV.flattenNd` (Model/FitGlam.lean) places the entry with index tuple `idx` at row-major position
`glamRowMajor ranges idx` and splits it with natural-number `/` and `%`.  The C code is

```
struct ndsparse { size_t rows, ndim; double *x; unsigned int **i; unsigned int *ranges; };
flatten_ndarray_to_sparse(struct ndsparse *array, size_t nrow, size_t ncol, cholmod_common *c)
    long moduli[array->ndim];
    long i, j, k;
    moduli[array->ndim-1] = 1;
    for (i = array->ndim-2; i >= 0; i--) moduli[i] = moduli[i+1]*array->ranges[i+1];
    for (i = 0; i < array->rows; i++) {
        k = 0;
        for (j = 0; j < array->ndim; j++) k += array->i[j][i]*moduli[j];
        ((long *)(trip->j))[i] = k % ncol;
        ((long *)(trip->i))[i] = k / ncol;
```

* `long * unsigned`: the `unsigned` operand is converted to `long` (value preserved, LP64), the product is a `long`
  (signed overflow is undefined; modelled as two's-complement wrap `toI64`, which is what gcc/clang emit — below the
  bound of the theorems it does not happen);
* `k % ncol`, `k / ncol` with `long k`, `size_t ncol`: `k` is converted to `unsigned long` (`toU64`), the operation is
  unsigned, the result is stored into a `long`; `ncol = 0` is a division by zero (`CRes.ub`).

The element type of `moduli[]` is a parameter (`ModT`) so that the *same* definitions also describe the routine
with a narrower stride type (`unsigned moduli[]`, `int moduli[]`: each product is then computed modulo 2³²):
`ModT.long` is glam.c as it is — that instance (`flattenC`) is what `psvdriver C09` executes against the real
function — and the narrow instances are what `Props/C09c.lean` proves wrong by a concrete witness.
-/
namespace PsV

/-- conversion to `unsigned long` / `size_t` (LP64) -/
def toU64 (z : Int) : Int := z % 18446744073709551616

/-- declared element type of the stride array `moduli[]` -/
inductive ModT where
  | long      -- glam.c
  | uint      -- `unsigned moduli[]`
  | int       -- `int moduli[]`
  deriving DecidableEq, Repr

deriving instance DecidableEq for CRes

/-- `moduli[i] = moduli[i+1]*array->ranges[i+1]` (the right operand is an `unsigned int`) -/
def modStep : ModT → Int → Nat → Int
  | .long, m, r => toI64 (m * toU32 r)
  | .uint, m, r => toU32 (toU32 m * toU32 r)
  | .int,  m, r => toI32 (toU32 (toU32 m * toU32 r))

/-- the value of `moduli[i]` when `ranges[i+1 ..] = rs`: `moduli[ndim-1] = 1`, then the downward loop -/
def sufProdT (t : ModT) : List Nat → Int
  | [] => 1
  | r :: rs => modStep t (sufProdT t rs) r

/-- the array `moduli[0 .. ndim-1]` -/
def moduliT (t : ModT) : List Nat → List Int
  | [] => []
  | _ :: rs => sufProdT t rs :: moduliT t rs

/-- `array->i[j][i]*moduli[j]` as the `long` that `k +=` receives (`unsigned * long` is a `long`;
`unsigned * unsigned` and `unsigned * int` are `unsigned`, i.e. reduced modulo 2³² before the addition) -/
def termT : ModT → Nat → Int → Int
  | .long, i, m => toI64 (toU32 i * m)
  | .uint, i, m => toU32 (toU32 i * toU32 m)
  | .int,  i, m => toU32 (toU32 i * toU32 m)

/-- `for (j = 0; j < ndim; j++) k += array->i[j][i]*moduli[j];` -/
def accKT (t : ModT) : List Nat → List Int → Int → Int
  | i :: is, m :: ms, k => accKT t is ms (toI64 (k + termT t i m))
  | _, _, k => k

/-- the flattened position `k` (a `long`) of the entry with index tuple `idx` -/
def flattenKT (t : ModT) (ranges idx : List Nat) : Int := accKT t idx (moduliT t ranges) 0

/-- `(trip->i[i], trip->j[i]) = (k / ncol, k % ncol)`: row and column of the entry in the flattened matrix -/
def flattenCT (t : ModT) (ranges idx : List Nat) (ncol : Nat) : CRes (Int × Int) :=
  let k := toU64 (flattenKT t ranges idx)
  let n := toU64 ncol
  if n = 0 then .ub else .ok (toI64 (k / n), toI64 (k % n))

/-- glam.c as it is: `long moduli[]` -/
def flattenC (ranges idx : List Nat) (ncol : Nat) : CRes (Int × Int) := flattenCT .long ranges idx ncol

variable {α : Type} [A : Arith α]

/-- the loop over the listed entries: `(trip->i[i], trip->j[i], trip->x[i])` as a dense position `row·ncol + col` -/
def flatPositionsC (ranges : List Nat) (ncol : Nat) : List (List Nat × α) → CRes (List (Nat × α))
  | [] => .ok []
  | e :: es =>
    match flattenC ranges e.1 ncol, flatPositionsC ranges ncol es with
    | .ok rc, .ok l => .ok ((rc.1.toNat * ncol + rc.2.toNat, e.2) :: l)
    | _, _ => .ub

/-- `flatten_ndarray_to_sparse(array, nrow, ncol)` with the index arithmetic in the C types, followed by
`triplet_to_sparse` (repeated cells are added up): the dense `nrow × ncol` table -/
def flattenNdC (a : NdSparse α) (nrow ncol : Nat) : CRes (Tab2 α) :=
  match flatPositionsC a.ranges ncol a.entries with
  | .ok l => .ok ⟨nrow, ncol, accumulate (nrow * ncol) l⟩
  | _ => .ub

end PsV
