/-!
# Byte-level model of the FITS files `write_fits_core` produces and of `read_fits_core` reading them (C08)

Documented subset of FITS: 2880-byte blocks, 80-column cards, fixed-format integer values in columns 11–30,
`BITPIX` −32 / −64 big-endian IEEE images, the HDU sequence written by `write_fits_core`
(primary FLOAT image with reversed axes and `ORDERn` cards, one DOUBLE image extension `KNOTSn` per dimension,
an optional `EXTENTS` extension).  Numbers are carried as bit patterns (`Nat`); only the reader's validation
of the knots interprets them (finiteness and order of binary64 patterns).

* `encode` — the bytes cfitsio 4.2 produces for a table (compared byte for byte with the real file on every run);
* `readBytes` — blocks → HDUs → table, mirroring cfitsio + `read_fits_core`: a header needs complete blocks up to
  its `END` card, image data need their complete padded blocks, an HDU whose header cannot be read does not exist,
  `KNOTSn` is found by `EXTNAME`, a missing `EXTENTS` HDU is replaced by made-up extents; the table is rejected
  unless, per dimension, `nknots ≥ 2·order+2`, `naxes = nknots − order − 1` and the knots are finite and
  non-decreasing (decided on the binary64 bit patterns: `dblFinite`, `dblLt`).
* file-system model: `Op`, `applyOp`, crash states.
Mathlib-free, executable.
-/
namespace PsV.C08

abbrev Bytes := List Nat

def str (s : String) : Bytes := s.toList.map Char.toNat

def padRight (n fill : Nat) (b : Bytes) : Bytes := b ++ List.replicate (n - b.length) fill
def padLeft (n fill : Nat) (b : Bytes) : Bytes := List.replicate (n - b.length) fill ++ b

/-! ## Cards -/

/-- `k` decimal digits (ASCII) of `n`, most significant first. -/
def digitsFixed : Nat → Nat → Bytes
  | 0, _ => []
  | k+1, n => digitsFixed k (n / 10) ++ [48 + n % 10]

/-- Leading zeros become blanks; the last digit stays. -/
def blankLeading : Bytes → Bytes
  | [] => []
  | [d] => [d]
  | d :: rest => if d = 48 then 32 :: blankLeading rest else d :: rest

/-- Fixed-format integer field: right-justified in 20 columns. -/
def fmtNat20 (n : Nat) : Bytes := blankLeading (digitsFixed 20 n)

def decimal (n : Nat) : Bytes := str (toString n)

/-- keyword (≤ 8 chars), `= `, 20-column value field, ` / comment`, blank-padded to 80. -/
def cardOf (key : Bytes) (field : Bytes) (comment : String) : Bytes :=
  padRight 80 32 (padRight 8 32 key ++ str "= " ++ field ++ (if comment = "" then [] else str (" / " ++ comment)))

def cardNat (key : Bytes) (n : Nat) (comment : String) : Bytes := cardOf key (fmtNat20 n) comment
def cardRaw (s : String) : Bytes := padRight 80 32 (str s)

def keyOf (s : String) : Bytes := padRight 8 32 (str s)
def keyIdx (pfx : String) (i : Nat) : Bytes := padRight 8 32 (str pfx ++ decimal i)

def endCard : Bytes := cardRaw "END"
def fieldOf (s : String) : Bytes := padLeft 20 32 (str s)
/-- string value field: quoted, left-justified, at least 8 characters inside the quotes, padded to 20 columns -/
def strField (s : String) : Bytes := padRight 20 32 (str "'" ++ padRight 8 32 (str s) ++ str "'")

def card_key (c : Bytes) : Bytes := c.take 8
def card_field (c : Bytes) : Bytes := (c.drop 10).take 20

/-- Fixed-format integer field → value.  Blanks count as zeros (more permissive than cfitsio; identical on every
    field cfitsio writes). -/
def parseField (f : Bytes) : Option Nat :=
  if f.all (fun c => c == 32 || (48 ≤ c && c ≤ 57)) && f.any (fun c => 48 ≤ c && c ≤ 57) then
    some (f.foldl (fun a c => 10 * a + (if c == 32 then 0 else c - 48)) 0)
  else none

def findCard (cards : List Bytes) (key : Bytes) : Option Bytes := cards.find? (fun c => card_key c == key)

def intKey (cards : List Bytes) (key : Bytes) : Option Nat :=
  match findCard cards key with
  | none => none
  | some c => parseField (card_field c)

/-- bytes per pixel: only `BITPIX = -32` and `-64` are in the subset -/
def bytesPerPix (cards : List Bytes) : Option Nat :=
  match findCard cards (keyOf "BITPIX") with
  | none => none
  | some c => if card_field c == fieldOf "-32" then some 4 else if card_field c == fieldOf "-64" then some 8 else none

def optAll {α} : List (Option α) → Option (List α)
  | [] => some []
  | none :: _ => none
  | some x :: rest => match optAll rest with | none => none | some xs => some (x :: xs)

/-- `NAXIS1 … NAXISn` in FITS order. `NAXIS` above 999 is outside FITS. -/
def axes (cards : List Bytes) : Option (List Nat) :=
  match intKey cards (keyOf "NAXIS") with
  | none => none
  | some n => if n > 999 then none else optAll ((List.range n).map fun i => intKey cards (keyIdx "NAXIS" (i+1)))

def prod (l : List Nat) : Nat := l.foldl (· * ·) 1

def dataLen (cards : List Bytes) : Option Nat :=
  match bytesPerPix cards, axes cards with
  | some b, some ax => some (if ax.isEmpty then 0 else b * prod ax)
  | _, _ => none

/-! ## Blocks and HDUs -/

def takeBlock (bs : Bytes) : Option (Bytes × Bytes) :=
  if (bs.take 2880).length = 2880 then some (bs.take 2880, bs.drop 2880) else none

def cardsOf (blk : Bytes) : List Bytes := (List.range 36).map fun i => (blk.drop (80 * i)).take 80

def isEnd (c : Bytes) : Bool := card_key c == keyOf "END"

/-- cards before the first `END`, `none` if there is no `END` -/
def splitAtEnd : List Bytes → Option (List Bytes)
  | [] => none
  | c :: cs => if isEnd c then some [] else
    match splitAtEnd cs with
    | none => none
    | some r => some (c :: r)

/-- Read header blocks until one holds the `END` card. -/
def readHeader : Nat → Bytes → Option (List Bytes × Bytes)
  | 0, _ => none
  | f+1, bs =>
    match takeBlock bs with
    | none => none
    | some (blk, rest) =>
      match splitAtEnd (cardsOf blk) with
      | some cs => some (cs, rest)
      | none =>
        match readHeader f rest with
        | none => none
        | some (cs, rest') => some (cardsOf blk ++ cs, rest')

structure Hdu where
  cards : List Bytes
  /-- the image bytes (unpadded); `none` when the padded data blocks are not all there -/
  data : Option Bytes
  deriving Repr, BEq, DecidableEq

def roundUp (n : Nat) : Nat := (n + 2879) / 2880 * 2880

def readHdu (F : Nat) (bs : Bytes) : Option (Hdu × Bytes) :=
  match readHeader F bs with
  | none => none
  | some (cards, rest) =>
    match dataLen cards with
    | none => none
    | some len =>
      if (rest.take (roundUp len)).length = roundUp len then some (⟨cards, some (rest.take len)⟩, rest.drop (roundUp len))
      else if (rest.take len).length = len then
        -- all data bytes are there but not the whole padding: cfitsio reads images of three or more blocks directly
        -- and does not miss the padding (for smaller images it does; the model is the more permissive of the two)
        some (⟨cards, some (rest.take len)⟩, [])
      else some (⟨cards, none⟩, [])

/-- All HDUs up to the first one whose header cannot be read (which, as for cfitsio, is where the file ends). -/
def readHdus (F : Nat) : Nat → Bytes → List Hdu
  | 0, _ => []
  | f+1, bs =>
    match readHdu F bs with
    | none => []
    | some (h, rest) => h :: readHdus F f rest

/-! ## The table reader (`read_fits_core`) -/

def extName (cards : List Bytes) : Option Bytes :=
  match findCard cards (keyOf "EXTNAME") with
  | none => none
  | some c => some (card_field c)

/-- data of the first HDU called `name` (`fits_movnam_hdu`), provided its header passes `ok` -/
def extData (name : Bytes) (ok : List Bytes → Bool) : List Hdu → Option Bytes
  | [] => none
  | h :: t => if extName h.cards == some name then (if ok h.cards then h.data else none) else extData name ok t

/-- big-endian words of `k` bytes; a trailing fragment is dropped -/
def beWords (k : Nat) : Nat → Bytes → List Nat
  | 0, _ => []
  | f+1, bs => if (bs.take k).length < k ∨ k = 0 then [] else (bs.take k).foldl (fun a b => 256 * a + b) 0 :: beWords k f (bs.drop k)

def words (k : Nat) (bs : Bytes) : List Nat := beWords k bs.length bs

def knotHdrOk (cards : List Bytes) : Bool :=
  bytesPerPix cards == some 8 && (match axes cards with | some [n] => n > 0 | _ => false)

def knotsName (i : Nat) : Bytes := strField ("KNOTS" ++ toString i)
def extentsName : Bytes := strField "EXTENTS"

/-- what the primary header says: axes (FITS order) and spline orders (`ORDER`, else `ORDERn`) -/
def headerInfo (cards : List Bytes) : Option (List Nat × List Nat) :=
  if !(findCard cards (keyOf "SIMPLE")).isSome then none else
  match bytesPerPix cards, axes cards with
  | some 4, some ax =>
    if ax.isEmpty then none else
    match intKey cards (keyOf "ORDER") with
    | some o => some (ax, List.replicate ax.length o)
    | none =>
      match optAll ((List.range ax.length).map fun i => intKey cards (keyIdx "ORDER" i)) with
      | none => none
      | some os => some (ax, os)
  | _, _ => none

/-- The part of a table C08 speaks about. -/
structure Core where
  orders : List Nat
  naxes : List Nat
  coeffs : List Nat
  knots : List (List Nat)
  deriving Repr, BEq, DecidableEq

/-! ### Validation of what has been read (`read_fits_core` since /repo 6b9ba04)

Knots are IEEE-754 binary64 bit patterns (`Nat` below 2^64: sign, 11 exponent bits, 52 fraction bits). -/

/-- `std::isfinite`: the exponent field is not all ones -/
def dblFinite (w : Nat) : Bool := (w / 2 ^ 52) % 2048 != 2047

/-- Order-preserving key of a *finite* double: sign-magnitude to offset binary; `-0.0` and `+0.0` get the same key. -/
def dblKey (w : Nat) : Nat := if (w / 2 ^ 63) % 2 = 1 then 2 ^ 63 - w % 2 ^ 63 else 2 ^ 63 + w % 2 ^ 63

/-- `a < b` for finite doubles -/
def dblLt (a b : Nat) : Bool := decide (dblKey a < dblKey b)

/-- The loop over a knot vector: `if(!std::isfinite(k[j]) || (j>0 && k[j]<k[j-1])) throw`; `prev` = `k[j-1]`. -/
def knotsValidFrom : Option Nat → List Nat → Bool
  | _, [] => true
  | prev, k :: rest =>
    dblFinite k && (match prev with | none => true | some p => !dblLt k p) && knotsValidFrom (some k) rest

def knotsValid (ks : List Nat) : Bool := knotsValidFrom none ks

/-- `!(nknots < 2*order+2 || naxes != nknots-order-1)`: enough knots for one fully supported interval, and as many
    coefficients as the knots and the order imply -/
def countsOk (order naxis nknots : Nat) : Bool := !(decide (nknots < 2 * order + 2) || naxis != nknots - order - 1)

/-- header of `KNOTSi`: a one-dimensional DOUBLE image with a positive number of knots which fits order and axis -/
def knotHdrOkFor (order naxis : Nat) (cards : List Bytes) : Bool :=
  knotHdrOk cards && (match axes cards with | some [n] => countsOk order naxis n | _ => false)

/-- one pass of the knot loop of `read_fits_core` for dimension `i`, in the order of the code: find `KNOTSi`
    (`fits_movnam_hdu`), its size (`fits_get_img_size`, must be positive), counts consistent with `order[i]` and
    `naxes[i]`, read the data (`fits_read_pix`: fails unless all of it is there), knots finite and non-decreasing. -/
def readKnots (hs : List Hdu) (orders naxes : List Nat) (i : Nat) : Option (List Nat) :=
  match extData (knotsName i) (knotHdrOkFor (orders.getD i 0) (naxes.getD i 0)) hs with
  | none => none
  | some d => if knotsValid (words 8 d) then some (words 8 d) else none

def readCore (hs : List Hdu) : Option Core :=
  match hs with
  | [] => none
  | p :: _ =>
    match headerInfo p.cards with
    | none => none
    | some (ax, orders) =>
      match p.data with
      | none => none
      | some d =>
        match optAll ((List.range ax.length).map fun i => readKnots hs orders ax.reverse i) with
        | none => none
        | some ks => some ⟨orders, ax.reverse, words 4 d, ks⟩

def findExtHdu (name : Bytes) : List Hdu → Option Hdu
  | [] => none
  | h :: t => if extName h.cards == some name then some h else findExtHdu name t

/-- extents: `some none` = made up by the reader from the knots (no `EXTENTS` HDU, or not 2·ndim values);
    outer `none` = the HDU is announced but its data cannot be read ("Error reading extent data") -/
def readExtents (hs : List Hdu) (ndim : Nat) : Option (Option (List Nat)) :=
  match findExtHdu extentsName hs with
  | none => some none
  | some h =>
    if bytesPerPix h.cards == some 8 && axes h.cards == some [2 * ndim] then
      match h.data with
      | none => none
      | some d => some (some (words 8 d))
    else some none

structure View where
  core : Core
  extents : Option (List Nat)
  deriving Repr, BEq

def readTable (hs : List Hdu) : Option View :=
  match readCore hs with
  | none => none
  | some c =>
    match readExtents hs c.orders.length with
    | none => none
    | some e => some ⟨c, e⟩

def hdusOf (bs : Bytes) : List Hdu := readHdus (bs.length + 1) (bs.length + 1) bs
def readCoreBytes (bs : Bytes) : Option Core := readCore (hdusOf bs)
def readBytes (bs : Bytes) : Option View := readTable (hdusOf bs)

/-! ## The encoder (`write_fits_core` through cfitsio 4.2) -/

structure Table where
  orders : List Nat
  naxes : List Nat
  coeffs : List Nat          -- float bit patterns
  knots : List (List Nat)    -- double bit patterns
  extents : Option (List Nat)
  extraCards : List Bytes    -- PERIODn and aux cards exactly as cfitsio formats them (data for the model)
  deriving Repr

def Table.core (t : Table) : Core := ⟨t.orders, t.naxes, t.coeffs, t.knots⟩

/-- Well-formedness of a table handed to the writer — the tables of the modelled subset, for which the round trip
    `readCoreBytes (encode t) = some t.core` is proved (`PsV.C08.roundtrip`, `Proofs/FitsRoundTrip.lean`):
    1 ≤ ndim ≤ 999 (FITS: `NAXIS` ≤ 999; keeps `NAXISn`/`ORDERn` within 8 columns); one order (`int`, non-negative),
    one axis length and one knot vector (`long` many) per dimension; per dimension `nknots ≥ 2·order+2` and
    `naxes = nknots − order − 1` (what the reader insists on); as many coefficients (binary32 patterns) as the axes
    say; knots binary64 patterns, finite and non-decreasing; extents, if present, 2·ndim values; extra cards
    (`PERIODn`, aux keys) 80 columns wide and not called `END`, `ORDER` (the reader takes a bare `ORDER` for the order
    of every dimension) or `EXTNAME` (the reader looks `KNOTSn` up by `EXTNAME`, from the primary HDU on). -/
def Table.wf (t : Table) : Bool :=
  let nd := t.orders.length
  decide (0 < nd) && decide (nd ≤ 999) && t.naxes.length == nd && t.knots.length == nd
  && t.orders.all (fun o => decide (o < 2 ^ 31)) && t.naxes.all (fun a => decide (a < 2 ^ 63))
  && t.coeffs.length == prod t.naxes && t.coeffs.all (fun c => decide (c < 2 ^ 32))
  && (List.range nd).all (fun i => countsOk (t.orders.getD i 0) (t.naxes.getD i 0) (t.knots.getD i []).length)
  && t.knots.all (fun k => k.all (fun w => decide (w < 2 ^ 64)) && decide (k.length < 2 ^ 63) && knotsValid k)
  && (match t.extents with | none => true | some e => e.length == 2 * nd)
  && t.extraCards.all (fun c => c.length == 80 && card_key c != keyOf "END" && card_key c != keyOf "ORDER"
        && card_key c != keyOf "EXTNAME")

def beBytes (k w : Nat) : Bytes := (List.range k).map fun j => (w / 256 ^ (k - 1 - j)) % 256

def padBlock (fill : Nat) (b : Bytes) : Bytes := b ++ List.replicate ((2880 - b.length % 2880) % 2880) fill

def encHdu (cards : List Bytes) (data : Bytes) : Bytes :=
  padBlock 32 (cards ++ [endCard]).flatten ++ padBlock 0 data

def naxisCards (ax : List Nat) : List Bytes :=
  (List.range ax.length).map fun i => cardNat (keyIdx "NAXIS" (i+1)) (ax.getD i 0) ("length of data axis " ++ toString (i+1))

def primaryCards (t : Table) : List Bytes :=
  [cardOf (keyOf "SIMPLE") (fieldOf "T") "file does conform to FITS standard",
   cardOf (keyOf "BITPIX") (fieldOf "-32") "number of bits per data pixel",
   cardNat (keyOf "NAXIS") t.naxes.length "number of data axes"]
  ++ naxisCards t.naxes.reverse ++
  [cardOf (keyOf "EXTEND") (fieldOf "T") "FITS dataset may contain extensions",
   cardRaw "COMMENT   FITS (Flexible Image Transport System) format is defined in 'Astronomy",
   cardRaw "COMMENT   and Astrophysics', volume 376, page 359; bibcode: 2001A&A...376..359H",
   cardRaw "TYPE    = 'Spline Coefficient Table'"]
  ++ (List.range t.orders.length).map (fun i => cardNat (keyIdx "ORDER" i) (t.orders.getD i 0) "B-Spline Order")
  ++ t.extraCards

def extCards (name : String) (n : Nat) : List Bytes :=
  [cardOf (keyOf "XTENSION") (strField "IMAGE") "IMAGE extension",
   cardOf (keyOf "BITPIX") (fieldOf "-64") "number of bits per data pixel",
   cardNat (keyOf "NAXIS") 1 "number of data axes",
   cardNat (keyIdx "NAXIS" 1) n "length of data axis 1",
   cardNat (keyOf "PCOUNT") 0 "required keyword; must = 0",
   cardNat (keyOf "GCOUNT") 1 "required keyword; must = 1",
   cardOf (keyOf "EXTNAME") (strField name) ""]

def encode (t : Table) : Bytes :=
  encHdu (primaryCards t) (t.coeffs.flatMap (beBytes 4))
  ++ ((List.range t.knots.length).map fun i =>
        let k := t.knots.getD i []
        encHdu (extCards ("KNOTS" ++ toString i) k.length) (k.flatMap (beBytes 8))).flatten
  ++ (match t.extents with
      | none => []
      | some e => encHdu (extCards "EXTENTS" e.length) (e.flatMap (beBytes 8)))

/-! ## File-system / crash model -/

inductive Op
  | pwrite (off : Nat) (data : Bytes)
  | truncate (len : Nat)
  | flush
  | close
  deriving Repr

/-- a file is its byte string; a write beyond the end zero-fills the gap -/
def applyOp (file : Bytes) : Op → Bytes
  | .pwrite off data =>
    let f := file ++ List.replicate (off + data.length - file.length) 0
    f.take off ++ data ++ f.drop (off + data.length)
  | .truncate len => (file ++ List.replicate (len - file.length) 0).take len
  | .flush => file
  | .close => file

def applyOps (file : Bytes) (ops : List Op) : Bytes := ops.foldl applyOp file

/-- crash state: the first `k` operations complete, then the first `b` bytes of operation `k` (if it is a write) -/
def crashState (ops : List Op) (k b : Nat) : Bytes :=
  let s := applyOps [] (ops.take k)
  match ops[k]? with
  | some (.pwrite off data) => if b = 0 then s else applyOp s (.pwrite off (data.take b))
  | _ => s

/-- an operation log that writes the bytes of `file` front to back in pieces (no holes, no rewrites) -/
def sequentialOps : Nat → Bytes → List Nat → List Op
  | _, _, [] => []
  | off, bs, n :: ns => .pwrite off (bs.take n) :: sequentialOps (off + n) (bs.drop n) ns

end PsV.C08
