/-!
# Model of the C interface (`src/cinter/splinetable.cpp`) — C18

Mathlib-free and executable.  Two layers:

* **Per wrapper**: a wrapper is a record of *syntactic facts* extracted from the source on every run by
  `tools/gen_c18.py` (clang AST): its C return type class, which pointer arguments are null-guarded, and, for every
  call it makes into the C++ library, whether that call sits inside a `try` with a `catch(...)` handler and what
  happens to the call's result.  `wrapRet` turns the outcome of the underlying C++ operation
  (`ok | fail | throws`) into what the C caller sees.  Nothing about a particular wrapper is written by hand here:
  the table `PsV.Generated.C18.wrappers` is the input.
* **Per history**: handles (`NULL` / live object / dangling) and an allocation ledger (counts of live table objects,
  grid-evaluation result objects, their arrays, and malloc'ed buffers handed to the caller); `step` is driven by the
  generated `LifeFacts` (what `splinetable_init/free`, the two readers, `splinetable_grideval`, `ndsparse_destroy`
  and `writesplinefitstable_mem` do with the pointers).

What *is* written by hand (from reading the C++ headers, monitored by the twin on every run) is the behaviour class
of each underlying C++ operation: `canThrow`, `canFail`.
-/
namespace PsV.CApi

/-- The C++ operations the wrappers forward to (the translator maps callee names to these; an unknown callee makes
    the translator fail closed). -/
inductive UOp where
  | newEmpty            -- `new photospline::splinetable<>()`
  | newFromFile         -- `new photospline::splinetable<>(path)` (constructor calls `read_fits`)
  | deleteTable         -- `delete` through `photospline::splinetable<>*`
  | deleteUntyped       -- `delete` through a pointer type that is not the object's dynamic type
  | deleteNdDerived     -- `delete` through `photospline::ndsparse*`
  | readFitsMem | writeFits | writeFitsMem
  | getAuxValue | readKey | writeKey
  | getter              -- get_ndim, get_order, get_nknots, get_knots, get_knot, lower/upper_extent, get_period,
                        -- get_ncoeffs, get_stride, get_coefficients
  | searchcenters | ndsplineeval | ndsplineevalGradient | ndsplineevalDeriv
  | convolve | fit | grideval | permuteDimensions
  | wrapperFree         -- a call to `splinetable_free` from another wrapper
  | other               -- anything else that may allocate or throw (std::vector constructors, std::copy, …)
  deriving DecidableEq, Repr, Inhabited

/-- May the operation leave by an exception?  (`std::bad_alloc` counts.)  From the C++ sources:
    getters, `searchcenters`, `ndsplineeval`, `ndsplineeval_deriv`, `get_aux_value` neither allocate nor throw;
    `ndsplineeval_gradient` throws `std::runtime_error` for tables of `PHOTOSPLINE_MAXDIM` or more dimensions;
    `convolve` throws `std::runtime_error` for `dim ≥ ndim` (so for every call on an empty table) and for an empty
    kernel, and it allocates (`new[]`, `allocate`) — e.g. `std::bad_array_new_length` for an absurd `n_knots`;
    `fit` throws for a table that already holds data, `write_key` for an empty table and for reserved or over-long
    keys, `read_fits`/`read_fits_mem` for an occupied table and for anything they cannot read (leaving the table
    empty); `grideval` throws only when an allocation fails (an all-zero table yields a result with no rows). -/
def canThrow : UOp → Bool
  | .deleteTable | .deleteUntyped | .deleteNdDerived | .getAuxValue | .getter
  | .searchcenters | .ndsplineeval | .ndsplineevalDeriv | .wrapperFree => false
  | _ => true

/-- Does the operation report failure through its *result* (false / NULL)?
    `read_key`: false when the key is absent or unparsable; `get_aux_value`: NULL when absent;
    `searchcenters`: false outside the support.  `read_fits_mem`/`write_key` also return `bool`, but
    `read_fits_mem` returns `true` or throws, and `write_key` returns `false` for a *successful* update of an existing
    key (its failures are exceptions); the twin checks both facts on every run. -/
def canFail : UOp → Bool
  | .readKey | .getAuxValue | .searchcenters => true
  | _ => false

inductive Outcome where
  | ok | fail | throws
  deriving DecidableEq, Repr, Inhabited

def possible (op : UOp) : Outcome → Bool
  | .ok => true
  | .fail => canFail op
  | .throws => canThrow op

/-- C return type class of a wrapper. -/
inductive RetTy where
  | status    -- `int`: 0 = success, non-zero = failure
  | pointer   -- pointer: NULL = failure
  | value     -- the C++ value itself (uint32_t, uint64_t, double)
  | void
  deriving DecidableEq, Repr, Inhabited

/-- What the wrapper does with the result of an underlying call. -/
inductive Disp where
  | returned          -- `return call(...)`
  | returnedNegated   -- `return !call(...)` / `return call(...) ? 0 : k` (k ≠ 0)
  | checked           -- `if(!call(...)) return <failure literal>;`
  | stored            -- bound to a local, written to `*result`, `table->data`, `buffer->…`
  | discarded         -- a non-void result dropped on the floor
  | noResult          -- the callee returns void
  deriving DecidableEq, Repr, Inhabited

structure Call where
  op : UOp
  guarded : Bool      -- lexically inside a `try` block that has a `catch(...)` handler
  disp : Disp
  deriving DecidableEq, Repr, Inhabited

structure Wrapper where
  name : String
  ret : RetTy
  /-- pointer arguments (and `table->data`, `buffer->data`) that are tested before use, as written in the source -/
  nullChecked : List String
  /-- pointers that must be NULL on entry (`buffer->data` of writesplinefitstable_mem), tested by the same guard -/
  mustBeNull : List String
  /-- `table->data` is dereferenced somewhere in the body -/
  derefsData : Bool
  /-- the null guard returns the failure value (non-zero / NULL); `true` when there is no guard or the wrapper is void -/
  guardFails : Bool
  /-- every `catch` handler returns the failure value; `true` when there is no handler or the wrapper is void -/
  handlerFails : Bool
  /-- the statement reached when nothing failed returns the success value (0); `true` for void/value wrappers -/
  finalSucceeds : Bool
  calls : List Call
  deriving DecidableEq, Repr, Inhabited

/-- What the C caller observes. `success` = 0 / the non-NULL pointer produced by the C++ operation;
    `failure` = non-zero / NULL; `value` = the C++ value, unchanged; `escapes` = an exception propagates out of the
    `extern "C"` function (the process terminates). -/
inductive CRet where
  | success | failure | value | void | escapes
  deriving DecidableEq, Repr, Inhabited

/-- The statement after the call is reached and the wrapper runs to its final `return`. -/
def fallThrough (w : Wrapper) : CRet :=
  match w.ret with
  | .void => .void
  | .value => .value
  | .status | .pointer => if w.finalSucceeds then .success else .failure

/-- C-visible result of the wrapper when the underlying call `c` has outcome `o`
    (all earlier calls having succeeded). -/
def wrapRet (w : Wrapper) (c : Call) : Outcome → CRet
  | .throws =>
    if c.guarded then
      match w.ret with
      | .void => .void
      | _ => if w.handlerFails then .failure else .success
    else .escapes
  | .fail =>
    match c.disp with
    | .returned =>
      match w.ret with
      | .status => .success          -- `return <bool false>` is 0
      | .pointer => .failure         -- `return <NULL>`
      | .value => .value
      | .void => .void
    | .returnedNegated => match w.ret with | .status => .failure | .pointer => .success | .value => .value | .void => .void
    | .checked => match w.ret with | .void => .void | .value => .value | _ => .failure
    | .stored | .discarded | .noResult => fallThrough w
  | .ok =>
    match c.disp with
    | .returned =>
      match w.ret with
      | .status => .failure          -- `return <bool true>` is 1
      | .pointer => .success
      | .value => .value
      | .void => .void
    | .returnedNegated => match w.ret with | .status => .success | .pointer => .failure | .value => .value | .void => .void
    | .checked | .stored | .discarded | .noResult => fallThrough w

/-- Result when a null-guarded argument is NULL: the guard returns before anything is called. -/
def guardRet (w : Wrapper) : CRet :=
  match w.ret with
  | .void => .void
  | .value => .value
  | _ => if w.guardFails then .failure else .success

/-- What a faithful wrapper must show for outcome `o` of its underlying operation. -/
def expected (r : RetTy) : Outcome → CRet
  | .ok => match r with | .status | .pointer => .success | .value => .value | .void => .void
  | _ => match r with | .status | .pointer => .failure | .value => .value | .void => .void

/-- Decidable per-call check used to discharge the theorems on the generated table. -/
def callOk (w : Wrapper) (c : Call) : Bool :=
  [Outcome.ok, .fail, .throws].all fun o => !possible c.op o || (wrapRet w c o != .escapes && wrapRet w c o == expected w.ret o)

def wrapperOk (w : Wrapper) : Bool :=
  w.calls.all (callOk w) && w.guardFails

/-! ## Handles and the allocation ledger -/

/-- Facts about pointer handling, extracted from the bodies of the life-cycle wrappers. -/
structure LifeFacts where
  initStoresNew : Bool            -- splinetable_init: `table->data = new splinetable<>()`
  freeDeletesTyped : Bool         -- splinetable_free: `delete` through `photospline::splinetable<>*`
  freeResetsHandle : Bool         -- … then `table->data = NULL`
  readFileFreesOccupied : Bool    -- readsplinefitstable: `if(table->data) splinetable_free(table);` before `new`
  readFileStoresNew : Bool        -- … `table->data = new splinetable<>(path)`
  readMemAllocsOnlyIfNull : Bool  -- readsplinefitstable_mem: `if(!table->data) table->data = new splinetable<>()`
  gridevalReleasesResult : Bool   -- splinetable_grideval: `*result = nd.release()`
  gridevalClearsResult : Bool     -- splinetable_grideval: `*result = NULL` is its first statement (before the guard)
  destroyDeletesDerived : Bool    -- ndsparse_destroy: `delete` through `photospline::ndsparse*` (the dynamic type)
  writeMemHandsOverBuffer : Bool  -- writesplinefitstable_mem: `buffer->data = result.first`
  deriving DecidableEq, Repr, Inhabited

inductive HState where
  | null | live | dangling
  deriving DecidableEq, Repr, Inhabited

/-- Live heap resources created through the C interface. -/
structure Ledger where
  tables : Nat := 0      -- photospline::splinetable<> objects
  ndObjs : Nat := 0      -- photospline::ndsparse objects released by splinetable_grideval
  ndArrays : Nat := 0    -- the x / i / ranges arrays owned by those objects (freed by ~ndsparse only)
  buffers : Nat := 0     -- malloc'ed FITS images handed to the caller by writesplinefitstable_mem
  deriving DecidableEq, Repr, Inhabited

structure St where
  hs : List HState       -- handle i: state of `table->data`
  rs : List Bool         -- result slot i holds a grid-evaluation result
  led : Ledger
  ub : Bool              -- double delete / delete through the wrong static type / use of a dangling handle
  deriving DecidableEq, Repr, Inhabited

def St.init (nh nr : Nat) : St := ⟨List.replicate nh .null, List.replicate nr false, {}, false⟩

inductive Op where
  | init (h : Nat) (o : Outcome)
  | free (h : Nat)
  | readFile (h : Nat) (o : Outcome)
  | readMem (h : Nat) (o : Outcome)
  /-- `readsplinefitstable_mem` on a handle that owns nothing, and `new splinetable<>()` itself throws
      (`std::bad_alloc`): nothing is created, the handle stays NULL (`readMem h .throws` is the other failure: the
      object exists and `read_fits_mem` throws, leaving an empty object behind the handle) -/
  | readMemAllocFails (h : Nat)
  | use (h : Nat)                         -- any other wrapper on a handle: no effect on ownership
  | grideval (h : Nat) (slot : Nat) (o : Outcome)
  | destroy (slot : Nat)
  | writeMem (h : Nat) (o : Outcome)      -- on success the caller owns one more buffer
  | freeBuffer                            -- the caller's `free(buffer.data)`
  deriving DecidableEq, Repr, Inhabited

def hget (s : St) (h : Nat) : HState := s.hs.getD h .null
def rget (s : St) (r : Nat) : Bool := s.rs.getD r false

/-- `delete` of the object behind handle `h` as `splinetable_free` does it. -/
def freeStep (F : LifeFacts) (s : St) (h : Nat) : St :=
  match hget s h with
  | .null => s                                      -- `delete nullptr`
  | .dangling => { s with ub := true }              -- second delete of the same object
  | .live =>
    let s1 : St := if F.freeDeletesTyped then { s with led := { s.led with tables := s.led.tables - 1 } } else { s with ub := true }
    { s1 with hs := s1.hs.set h (if F.freeResetsHandle then .null else .dangling) }

def step (F : LifeFacts) (s : St) : Op → St
  | .init h o =>
    match o with
    | .ok => if F.initStoresNew then { s with hs := s.hs.set h .live, led := { s.led with tables := s.led.tables + 1 } } else s
    | _ => s
  | .free h => freeStep F s h
  | .readFile h o =>
    let s1 := if F.readFileFreesOccupied then freeStep F s h else s
    match o with
    | .ok => if F.readFileStoresNew then { s1 with hs := s1.hs.set h .live, led := { s1.led with tables := s1.led.tables + 1 } } else s1
    | _ => s1
  | .readMem h _ =>
    match hget s h with
    | .null => { s with hs := s.hs.set h .live, led := { s.led with tables := s.led.tables + 1 } }
    | .live => if F.readMemAllocsOnlyIfNull then s else { s with led := { s.led with tables := s.led.tables + 1 } }
    | .dangling => { s with ub := true }
  | .readMemAllocFails h => match hget s h with | .dangling => { s with ub := true } | _ => s
  | .use h => match hget s h with | .dangling => { s with ub := true } | _ => s
  | .grideval _ slot o =>
    -- `*result = NULL;` comes first: whatever the caller's pointer held is no longer reachable through it
    let s0 : St := if F.gridevalClearsResult && rget s slot then { s with rs := s.rs.set slot false } else s
    match o with
    | .ok => if F.gridevalReleasesResult then
        { s0 with rs := s0.rs.set slot true, led := { s0.led with ndObjs := s0.led.ndObjs + 1, ndArrays := s0.led.ndArrays + 1 } } else s0
    | _ => s0
  | .destroy slot =>
    if rget s slot then
      let led := if F.destroyDeletesDerived then { s.led with ndObjs := s.led.ndObjs - 1, ndArrays := s.led.ndArrays - 1 }
                 else { s.led with ndObjs := s.led.ndObjs - 1 }      -- the arrays are never freed
      { s with rs := s.rs.set slot false, led := led, ub := s.ub || !F.destroyDeletesDerived }
    else s
  | .writeMem _ o =>
    match o with
    | .ok => if F.writeMemHandsOverBuffer then { s with led := { s.led with buffers := s.led.buffers + 1 } } else s
    | _ => s
  | .freeBuffer => { s with led := { s.led with buffers := s.led.buffers - 1 } }

def run (F : LifeFacts) (s : St) (ops : List Op) : St := ops.foldl (step F) s

/-- The usage rule of the C interface ("valid handles"): `splinetable_init` and a grid evaluation are only applied
    to a handle / result slot that does not currently own something (they overwrite the pointer without looking),
    indices are in range, and the caller frees only buffers it owns. -/
def opValid (s : St) : Op → Bool
  | .init h _ => h < s.hs.length && hget s h == .null
  | .free h | .readFile h _ | .readMem h _ | .readMemAllocFails h | .use h | .writeMem h _ => h < s.hs.length
  | .grideval h slot _ => h < s.hs.length && slot < s.rs.length && !rget s slot
  | .destroy slot => slot < s.rs.length
  | .freeBuffer => 0 < s.led.buffers

/-- What the *code* defines, beyond the usage rule: `splinetable_init` on a handle that owns an object and a grid
    evaluation into a result pointer that still holds a result are plain pointer overwrites in C — defined, but the
    object that was there is orphaned (`orphanedBy`).  Everything else as in `opValid`. -/
def opDefined (s : St) : Op → Bool
  | .init h _ => h < s.hs.length
  | .grideval h slot _ => h < s.hs.length && slot < s.rs.length
  | op => opValid s op

def definedRun (F : LifeFacts) : St → List Op → Bool
  | _, [] => true
  | s, op :: ops => opDefined s op && definedRun F (step F s op) ops

/-- (table objects, grid results) that the call makes unreachable without releasing them -/
def orphanedBy (s : St) : Op → Nat × Nat
  | .init h .ok => (if hget s h == .live then 1 else 0, 0)
  | .grideval _ slot _ => (0, if rget s slot then 1 else 0)
  | _ => (0, 0)

/-- total over a history -/
def orphansOf (F : LifeFacts) : St → List Op → Nat × Nat
  | _, [] => (0, 0)
  | s, op :: ops => ((orphanedBy s op).1 + (orphansOf F (step F s op) ops).1, (orphanedBy s op).2 + (orphansOf F (step F s op) ops).2)

def validRun (F : LifeFacts) : St → List Op → Bool
  | _, [] => true
  | s, op :: ops => opValid s op && validRun F (step F s op) ops

/-- The caller's clean-up: `splinetable_free` on every handle, `ndsparse_destroy` on every result slot,
    `free` on every buffer it still owns. -/
def cleanupOps (nh nr nb : Nat) : List Op :=
  (List.range nh).map .free ++ (List.range nr).map .destroy ++ List.replicate nb .freeBuffer

end PsV.CApi
