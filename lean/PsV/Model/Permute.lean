/-!
# Model of `splinetable::permuteDimensions` (include/photospline/detail/permute.h)
# and of the C wrapper `splinetable_permute` (src/cinter/splinetable.cpp)

Statement by statement.  A table is the record of the C++ members; every raw array is a `List`
(`K` = a knot array as the table sees it through `knots[i]`, i.e. the pointer and what it points to,
`E` = a `double`, `C` = a coefficient).  `periods` may be the null pointer (`none`): a fitted table
has `periods == NULL`, a table read from FITS has the array.

The model is of the **repaired** routine (fixes/C15-1.diff): `periods` is permuted like every
other per-axis attribute when it is not null.  The code before the repair left `periods` alone.

Integer widths: `Nat` throughout.  The C++ uses `uint32_t` for `ndim`/loop indices/`iperm` and
`uint64_t` for positions; after validation every index is `< ndim < 2^32`, and positions are
`< ncoeffs`, the length of an array that exists in memory, so nothing wraps (assumption recorded
in the check: `ncoeffs < 2^64`).  `ndim ≥ 1` is assumed (`t_strides[0] = 1` is executed
unconditionally).
-/
namespace PsV.Permute

/-- the four `throw std::runtime_error(...)` of the validation block, in source order -/
inductive PermErr where
  | wrongNumber   -- "Wrong number of indices passed to permuteDimensions"
  | tooLarge      -- "Too large index passed to permuteDimensions"
  | duplicate     -- "Duplicate index passed to permuteDimensions"
  | missing       -- "Missing index in permutation passed to permuteDimensions"
deriving DecidableEq, Repr

structure PTable (K E C : Type) where
  ndim : Nat
  order : List Nat
  naxes : List Nat
  strides : List Nat
  nknots : List Nat
  knots : List K
  extents : List (E × E)
  periods : Option (List E)
  coef : List C
deriving DecidableEq, Repr

/-! ## validation block -/

/-- `for(i…){ j=permutation[i]; if(j>=ndim) throw; if(test[j]) throw; test[j]=true; }` -/
def validateLoop (ndim : Nat) : List Nat → List Bool → Except PermErr (List Bool)
  | [], test => .ok test
  | j :: rest, test =>
    if j ≥ ndim then .error .tooLarge
    else if test.getD j false then .error .duplicate
    else validateLoop ndim rest (test.set j true)

/-- the whole validation block; `none` = falls through -/
def validate (ndim : Nat) (perm : List Nat) : Option PermErr :=
  if perm.length ≠ ndim then some .wrongNumber
  else match validateLoop ndim perm (List.replicate perm.length false) with
    | .error e => some e
    | .ok test => if test.all id then none else some .missing

/-! ## per-axis copy -/

/-- `t_a[i] = a[permutation[i]]` for `i < ndim` (`permutation.size() == ndim` after validation);
`d` stands for whatever an out-of-range read would give — never used for a valid permutation -/
def gather {α : Type} (d : α) (a : List α) (perm : List Nat) : List α :=
  perm.map fun j => a.getD j d

/-- `iperm[permutation[i]] = i`, `i` counting from the second argument -/
def ipermLoop : List Nat → Nat → List Nat → List Nat
  | [], _, acc => acc
  | j :: rest, i, acc => ipermLoop rest (i + 1) (acc.set j i)

/-- `uint32_t iperm[ndim]` (uninitialised: modelled as zeros) filled by the loop -/
def iperm (ndim : Nat) (perm : List Nat) : List Nat :=
  ipermLoop perm 0 (List.replicate ndim 0)

/-- `std::copy(src, src+n, dst)` -/
def copyN {α : Type} (src : List α) (n : Nat) (dst : List α) : List α :=
  src.take n ++ dst.drop n

/-! ## strides -/

def prodL : List Nat → Nat
  | [] => 1
  | n :: ns => n * prodL ns

/-- `std::partial_sum(first, last, out, multiplies)`: running products -/
def partialProducts : List Nat → Nat → List Nat
  | [], _ => []
  | n :: ns, acc => (acc * n) :: partialProducts ns (acc * n)

/-- `t_strides[0]=1; partial_sum(t_naxes.rbegin(), t_naxes.rend()-1, t_strides+1, multiplies);
reverse(t_strides, t_strides+ndim)` -/
def newStrides (tnaxes : List Nat) : List Nat :=
  (1 :: partialProducts (tnaxes.drop 1).reverse 1).reverse

/-! ## coefficient relocation -/

/-- `for i<ndim: npos += (pos / strides[i] % naxes[i]) * t_strides[iperm[i]]` -/
def npos (tstrides : List Nat) : (strides naxes ip : List Nat) → Nat → Nat
  | s :: ss, n :: ns, k :: ks, pos => (pos / s % n) * tstrides.getD k 0 + npos tstrides ss ns ks pos
  | _, _, _, _ => 0

/-- `for(pos…) t_coefficients[f pos] = coefficients[pos]`, `pos` counting from the third argument -/
def scatterLoop {C : Type} (f : Nat → Nat) : List C → Nat → List C → List C
  | [], _, acc => acc
  | c :: cs, pos, acc => scatterLoop f cs (pos + 1) (acc.set (f pos) c)

/-! ## the routine -/

variable {K E C : Type}

/-- body after the validation block.  `junk` = content of the freshly `new`ed, uninitialised
`t_coefficients` (the theorems show that none of it survives). -/
def permuteBody [Inhabited K] [Inhabited E] (junk : C) (T : PTable K E C) (perm : List Nat) : PTable K E C :=
  let ip := iperm T.ndim perm
  let t_order := gather 0 T.order perm
  let t_naxes := gather 0 T.naxes perm
  let t_nknots := gather 0 T.nknots perm
  let t_knots := gather default T.knots perm
  let t_extents := gather default T.extents perm
  let t_strides := newStrides t_naxes
  let ncoeffs := t_strides.getD 0 0 * t_naxes.getD 0 0
  let t_coef := scatterLoop (npos t_strides T.strides T.naxes ip) (T.coef.take ncoeffs) 0
                  (List.replicate ncoeffs junk)
  { ndim := T.ndim
    order := copyN t_order T.ndim T.order
    naxes := copyN t_naxes T.ndim T.naxes
    strides := copyN t_strides T.ndim T.strides
    nknots := copyN t_nknots T.ndim T.nknots
    knots := copyN t_knots T.ndim T.knots
    extents := copyN t_extents T.ndim T.extents
    -- fixes/C15-1.diff: `if(periods){ t_periods[i]=periods[j]; … copy back }`
    periods := T.periods.map fun p => copyN (gather default p perm) T.ndim p
    coef := copyN t_coef ncoeffs T.coef }

/-- `permuteDimensions`: the table afterwards and the exception thrown, if any -/
def permuteDimensions [Inhabited K] [Inhabited E] (junk : C) (T : PTable K E C) (perm : List Nat) :
    PTable K E C × Option PermErr :=
  match validate T.ndim perm with
  | some e => (T, some e)
  | none => (permuteBody junk T perm, none)

/-- C wrapper `splinetable_permute(table, size_t* permutation)`: copies `ndim` entries from the
caller's memory `mem` ("the user had better have supplied the right number of entries"), calls
`permuteDimensions`, maps any exception to return code 1. -/
def splinetablePermute [Inhabited K] [Inhabited E] (junk : C) (T : PTable K E C) (mem : List Nat) :
    PTable K E C × Nat :=
  let r := permuteDimensions junk T (mem.take T.ndim)
  (r.1, if r.2.isSome then 1 else 0)

end PsV.Permute
