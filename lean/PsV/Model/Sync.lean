/-!
# `Sync` — the WAIT/RUN/TERMINATE hand-shake of `walk_descents` / `evaluate_descent`
(`src/fitter/cholesky_solve.c`) as a transition system, for an arbitrary number of workers `n`
(`get_nthreads()`, always ≥ 1) and trial steps `m` (`n_alpha`), hence `⌈m/n⌉` blocks.

One transition per pthread call, in source order.  The local code that follows a call (up to the next
pthread call of the same thread) is attributed to that call's transition.  `pthread_cond_wait` is two
transitions: `W` (atomically release the mutex and join the wait set) and `K` (woken: re-acquire the
mutex and return).  Thread ids: `0` = the thread running `walk_descents` (coordinator), `w+1` = worker `w`.

```
coordinator                                             worker w (evaluate_descent)
  create k            for k < n: pthread_create           lock1    pthread_mutex_lock
  loop i < blocks, !success:                              hold     state==WAIT → cond_wait(W) ; RUN → unlock ; TERMINATE → unlock
    lockA   lock; state[j]=RUN, alpha[j]=&alpha[i*n+j]    waiting  (in the wait set)
    bcastA  broadcast                                     woken    (K) re-acquire, re-test
    unlockA unlock                                        lock2    [compute]; lock; state=WAIT        (result now published)
    lockB   lock;   REPAIRED: test worker states first    bcast    broadcast
    condWait cond_wait (W)                                unlock2  unlock; back to lock1
    waiting / woken (K); test worker states               exit     pthread_exit
    unlockB unlock; residual_calcs += n; scan results     done
  lockT lock; state[k]=TERMINATE   bcastT  unlockT  join k   final
```
`repaired = false` is the code as it is (`while(!done){ wait; check }`), `repaired = true` the proposed fix
(`while(1){ check; if(done) break; wait }`): the only difference is the `lockB` transition.

Ghost/result part: `aidx w` = index of the α the coordinator handed to worker `w`; `val w` = index of the α
for which worker `w`'s outputs (`residual`, `x_c`, `H1`) currently hold (`none` = never computed);
`computed`: `val j = some (blk*n+j)`.  The scan after `unlockB` reads `val j` — so a premature read
would change the modelled result.  `less a b` abstracts `residual(α_a) < residual(α_b)` (false on NaN).
Mathlib-free, executable.
-/
namespace PsV.Sync

inductive WSt | wait | run | term
  deriving DecidableEq, Repr, Inhabited

inductive WPc | idle | lock1 | hold | waiting | woken | lock2 | bcast | unlock2 | exit | done
  deriving DecidableEq, Repr, Inhabited

inductive CPc
  | create (k : Nat) | lockA | bcastA | unlockA | lockB | condWait | waiting | woken | unlockB
  | lockT | bcastT | unlockT | join (k : Nat) | final
  deriving DecidableEq, Repr, Inhabited

structure Cfg where
  n : Nat                       -- worker threads (`get_nthreads()`)
  m : Nat                       -- `n_alpha`
  less : Nat → Nat → Bool       -- residual(α_a) < residual(α_b)
  repaired : Bool

/-- `n_blocks = (int)ceil(n_alpha/((double)(n_threads)))` -/
def Cfg.blocks (c : Cfg) : Nat := (c.m + c.n - 1) / c.n
/-- workers used in block `i`: the `j` with `i*n_threads + j < n_alpha` -/
def Cfg.active (c : Cfg) (i : Nat) : Nat := min c.n (c.m - i * c.n)

abbrev Acc := Option Nat × Option (Option Nat × Bool)

structure State where
  cpc : CPc
  blk : Nat
  wpc : Nat → WPc
  st : Nat → WSt
  owner : Option Nat
  aidx : Nat → Nat
  val : Nat → Option Nat
  base : Option Nat                          -- index whose residual is `res`
  chosen : Option (Option Nat × Bool)        -- (index whose x_c/H1 were copied, feasible)
  calcs : Nat                                -- *residual_calcs

def upd {α : Type} (f : Nat → α) (w : Nat) (v : α) : Nat → α := fun k => if k = w then v else f k
def wakeAll (f : Nat → WPc) : Nat → WPc := fun k => if f k = .waiting then .woken else f k
def wakeC : CPc → CPc
  | .waiting => .woken
  | p => p

/-- the `done` test of the coordinator -/
def allWait (c : Cfg) (s : State) : Bool := (List.range (c.active s.blk)).all fun j => s.st j == .wait

/-- One iteration of the result scan for trial index `k`, reading a result that belongs to index `v`. -/
def selStep (less : Nat → Nat → Bool) (m : Nat) (acc : Acc) (k : Nat) (v : Option Nat) : Acc :=
  match acc.2 with
  | some _ => acc                                   -- `break` already taken
  | none =>
    if k = 0 then (v, none)                         -- res = descent_trials[0].residual
    else
      let red := match v, acc.1 with
        | some a, some b => less a b
        | _, _ => false
      if red || k == m - 1 then (acc.1, some (v, red)) else acc

/-- the `for (j ...)` scan of block `i` -/
def scan (c : Cfg) (val : Nat → Option Nat) (i : Nat) (acc : Acc) : Acc :=
  (List.range (c.active i)).foldl (fun a j => selStep c.less c.m a (i * c.n + j) (val j)) acc

/-- The sequential specification: one trial after the other in index order (descending step length),
    first residual-reducing index, else the last one.  Does not mention workers or blocks. -/
def flat (less : Nat → Nat → Bool) (m : Nat) (K : Nat) : Acc :=
  (List.range K).foldl (fun a k => selStep less m a k (some k)) (none, none)
def selectSeq (less : Nat → Nat → Bool) (m : Nat) : Acc := flat less m m

def loopHead (c : Cfg) (i : Nat) (success : Bool) : CPc :=
  if i < c.blocks && !success then .lockA else .lockT

def init (_c : Cfg) : State :=
  { cpc := .create 0, blk := 0, wpc := fun _ => .idle, st := fun _ => .wait, owner := none,
    aidx := fun _ => 0, val := fun _ => none, base := none, chosen := none, calcs := 0 }

def stepC (c : Cfg) (s : State) : Option State :=
  match s.cpc with
  | .create k => some { s with wpc := upd s.wpc k .lock1,
                               cpc := if k + 1 < c.n then .create (k+1) else loopHead c 0 false }
  | .lockA => if s.owner = none then
      some { s with owner := some 0,
                    st := fun j => if j < c.active s.blk then .run else s.st j,
                    aidx := fun j => if j < c.active s.blk then s.blk * c.n + j else s.aidx j,
                    cpc := .bcastA } else none
  | .bcastA => some { s with wpc := wakeAll s.wpc, cpc := .unlockA }
  | .unlockA => some { s with owner := none, cpc := .lockB }
  | .lockB => if s.owner = none then
      some { s with owner := some 0,
                    cpc := if c.repaired && allWait c s then .unlockB else .condWait } else none
  | .condWait => some { s with owner := none, cpc := .waiting }
  | .waiting => none
  | .woken => if s.owner = none then
      some { s with owner := some 0, cpc := if allWait c s then .unlockB else .condWait } else none
  | .unlockB =>
      let acc := scan c s.val s.blk (s.base, s.chosen)
      some { s with owner := none, base := acc.1, chosen := acc.2, calcs := s.calcs + c.n,
                    blk := s.blk + 1, cpc := loopHead c (s.blk + 1) acc.2.isSome }
  | .lockT => if s.owner = none then
      some { s with owner := some 0, st := fun j => if j < c.n then .term else s.st j, cpc := .bcastT }
      else none
  | .bcastT => some { s with wpc := wakeAll s.wpc, cpc := .unlockT }
  | .unlockT => some { s with owner := none, cpc := .join 0 }
  | .join k => if s.wpc k = .done then
      some { s with cpc := if k + 1 < c.n then .join (k+1) else .final } else none
  | .final => none

def stepW (s : State) (w : Nat) : Option State :=
  match s.wpc w with
  | .idle => none
  | .lock1 => if s.owner = none then some { s with owner := some (w+1), wpc := upd s.wpc w .hold } else none
  | .hold =>
    match s.st w with
    | .wait => some { s with owner := none, wpc := upd s.wpc w .waiting }
    | .run => some { s with owner := none, wpc := upd s.wpc w .lock2 }
    | .term => some { s with owner := none, wpc := upd s.wpc w .exit }
  | .waiting => none
  | .woken => if s.owner = none then some { s with owner := some (w+1), wpc := upd s.wpc w .hold } else none
  | .lock2 => if s.owner = none then
      some { s with owner := some (w+1), val := upd s.val w (some (s.aidx w)), st := upd s.st w .wait,
                    wpc := upd s.wpc w .bcast } else none
  | .bcast => some { s with cpc := wakeC s.cpc, wpc := upd (wakeAll s.wpc) w .unlock2 }
  | .unlock2 => some { s with owner := none, wpc := upd s.wpc w .lock1 }
  | .exit => some { s with wpc := upd s.wpc w .done }
  | .done => none

/-- The (unique) non-spurious transition of thread `t`, if enabled. -/
def step? (c : Cfg) (s : State) (t : Nat) : Option State :=
  match t with
  | 0 => stepC c s
  | w+1 => if w < c.n then stepW s w else none

/-- Spurious wake-up of thread `t` (allowed by POSIX for `pthread_cond_wait`). -/
def spur? (c : Cfg) (s : State) (t : Nat) : Option State :=
  match t with
  | 0 => if s.cpc = .waiting then some { s with cpc := .woken } else none
  | w+1 => if w < c.n ∧ s.wpc w = .waiting then some { s with wpc := upd s.wpc w .woken } else none

def isFinal (s : State) : Bool := s.cpc == .final

/-- some non-spurious transition is enabled -/
def anyEnabled (c : Cfg) (s : State) : Bool := (List.range (c.n + 1)).any fun t => (step? c s t).isSome

/-- run a schedule: `(t, false)` = thread `t` performs its next pthread call, `(t, true)` = spurious wake-up of `t` -/
def runSched (c : Cfg) : State → List (Nat × Bool) → Option State
  | s, [] => some s
  | s, (t, sp) :: rest =>
    match (if sp then spur? c s t else step? c s t) with
    | some s' => runSched c s' rest
    | none => none

/-- pthread call about to be issued, as logged by the scheduler shim -/
def opC : CPc → Char
  | .create _ => 'C' | .lockA => 'L' | .bcastA => 'B' | .unlockA => 'U' | .lockB => 'L' | .condWait => 'W'
  | .waiting => '-' | .woken => 'K' | .unlockB => 'U' | .lockT => 'L' | .bcastT => 'B' | .unlockT => 'U'
  | .join _ => 'J' | .final => '.'
def opW (p : WPc) (st : WSt) : Char :=
  match p with
  | .idle => '.' | .lock1 => 'L' | .hold => (if st == .wait then 'W' else 'U') | .waiting => '-' | .woken => 'K'
  | .lock2 => 'L' | .bcast => 'B' | .unlock2 => 'U' | .exit => 'X' | .done => '.'
def opOf (s : State) : Nat → Char
  | 0 => opC s.cpc
  | w+1 => opW (s.wpc w) (s.st w)

/-! ### the lost-wake-up witness for the code as published (used by `C12_lost_wakeup_reachable` and emitted by the driver) -/
def lostWakeupSchedule : List (Nat × Bool) :=
  [(0,false),(0,false),(0,false),(0,false),(1,false),(1,false),(1,false),(1,false),(1,false),(1,false),(1,false),
   (0,false),(0,false)]
def lostWakeupCfg : Cfg := { n := 1, m := 2, less := fun _ _ => false, repaired := false }

/-! ### ranking function (termination): decreases on every non-spurious transition -/
def sumTo : Nat → (Nat → Nat) → Nat
  | 0, _ => 0
  | k+1, f => sumTo k f + f k
def BW (n : Nat) : Nat := 2 * n + 4
/-- number of steps worker can still take on its own, plus its budget for the wake-ups it will cause -/
def lw (n : Nat) (p : WPc) (st : WSt) : Nat :=
  match st, p with
  | _, .idle => 0 | _, .done => 0 | _, .exit => 1
  | .wait, .waiting => 0 | .wait, .hold => 1 | .wait, .lock1 => 2 | .wait, .woken => 2 | .wait, .unlock2 => 3
  | .wait, .bcast => 4 + BW n | .wait, .lock2 => 5 + BW n
  | .run, .lock2 => 5 + BW n | .run, .hold => 6 + BW n | .run, .lock1 => 7 + BW n | .run, .woken => 7 + BW n
  | .run, .waiting => 8 + BW n | .run, .unlock2 => 8 + BW n | .run, .bcast => 9 + 2 * BW n
  | .term, .hold => 2 | .term, .lock1 => 3 | .term, .woken => 3 | .term, .waiting => 4 | .term, .unlock2 => 4
  | .term, .bcast => 5 + BW n | .term, .lock2 => 5 + BW n
def G (n : Nat) : Nat := 8 + BW n
def PB (n : Nat) : Nat := 8 + 2 * n + n * G n
def CT (n : Nat) : Nat := 7 * n + 4
def rankC (c : Cfg) (p : CPc) (blk : Nat) : Nat :=
  let E := PB c.n * (c.blocks - blk - 1) + CT c.n
  match p with
  | .create k => (c.n - k) * G c.n + G c.n + 1 + PB c.n * c.blocks + CT c.n
  | .lockA => PB c.n + E | .bcastA => 7 + 2 * c.n + E | .unlockA => 6 + E | .lockB => 5 + E
  | .woken => 4 + E | .condWait => 3 + E | .waiting => 2 + E | .unlockB => 1 + E
  | .lockT => CT c.n | .bcastT => 3 * c.n + 3 | .unlockT => c.n + 2 | .join k => c.n + 1 - k | .final => 0
def rank (c : Cfg) (s : State) : Nat := rankC c s.cpc s.blk + sumTo c.n (fun w => lw c.n (s.wpc w) (s.st w))

end PsV.Sync
