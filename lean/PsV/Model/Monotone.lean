/-!
# Model of the monotonic-fit back-transform (src/fitter/glam.c, end of `glamfit_complex`)

A monotonic fit solves for non-negative *T-spline* coefficients `t` (basis `B·L`, `L` the lower-triangular
ones matrix of `cholmod_tril`) and converts them to B-spline coefficients by a cumulative sum along the
monotonic dimension, in place, in `float`:

```c
for (i = 0; i < stride1; i++)
  for (j = 1; j < naxes[monodim]; j++)
    for (k = 0; k < stride2; k++)
      out[i*stride2*naxes[monodim] + j*stride2 + k] += out[i*stride2*naxes[monodim] + (j-1)*stride2 + k];
```

`stride1 = Π_{d < monodim} naxes_d`, `stride2 = Π_{d > monodim} naxes_d` (row-major tensor of any shape
flattened to `s1 × n × s2`).  Mathlib-free and executable; `add` is a parameter (exact `+`, or the rounded
float addition).
-/
namespace PsV

/-- flat position of `(i, j, k)` in a row-major `s1 × n × s2` array -/
def idx3 (n s2 i j k : Nat) : Nat := i * s2 * n + j * s2 + k

/-- `out[p] = v` -/
def monoSetAt {α : Type} (f : Nat → α) (p : Nat) (v : α) : Nat → α := fun q => if q = p then v else f q

/-- `for (v = lo; v < lo + cnt; v++) st = body v st` -/
def forUp {σ : Type} : (cnt : Nat) → (lo : Nat) → (body : Nat → σ → σ) → σ → σ
  | 0, _, _, st => st
  | c+1, lo, body, st => forUp c (lo+1) body (body lo st)

/-- one statement of the innermost loop: `out[idx i j k] = add out[idx i j k] out[idx i (j-1) k]` -/
def cumStep {α : Type} (add : α → α → α) (n s2 i j k : Nat) (out : Nat → α) : Nat → α :=
  monoSetAt out (idx3 n s2 i j k) (add (out (idx3 n s2 i j k)) (out (idx3 n s2 i (j-1) k)))

/-- the three nested loops, literally -/
def cumsumLoop {α : Type} (add : α → α → α) (s1 n s2 : Nat) (out : Nat → α) : Nat → α :=
  forUp s1 0 (fun i st =>
    forUp (n - 1) 1 (fun j st =>
      forUp s2 0 (fun k st => cumStep add n s2 i j k st) st) st) out

/-- executable: `c` is non-decreasing along the middle index (`le` = the comparison of the carrier) -/
def monoAlongB {α : Type} (le : α → α → Bool) (s1 n s2 : Nat) (c : Nat → α) : Bool :=
  (List.range s1).all fun i => (List.range (n - 1)).all fun j => (List.range s2).all fun k =>
    le (c (idx3 n s2 i j k)) (c (idx3 n s2 i (j+1) k))

/-- the inverse change of variables (exact arithmetic): the T-spline coefficients (increments along the middle index)
of a table `c`: `t[i,0,k] = c[i,0,k]`, `t[i,j,k] = c[i,j,k] - c[i,j-1,k]` (`p / s2 % n` is the middle index of the flat
position `p`) -/
def diffAlong {α : Type} (sub : α → α → α) (n s2 : Nat) (c : Nat → α) : Nat → α :=
  fun p => if p / s2 % n = 0 then c p else sub (c p) (c (p - s2))

/-- executable: every increment of the table is `≥ 0` (`le0 a` = `0 ≤ a`) -/
def incNonnegB {α : Type} (le0 : α → Bool) (sub : α → α → α) (s1 n s2 : Nat) (c : Nat → α) : Bool :=
  (List.range (s1 * n * s2)).all fun p => le0 (diffAlong sub n s2 c p)

/-- The tail of `glamfit_complex` for a monotonic fit, statement by statement, on the solver's output `x` (double):
```c
for (i…) ((double *)(coefficients->x))[i] *= rscale;          /* scale the normalised solution back   */
for (i…) out_coefficients[i] = ((double *)(coefficients->x))[i];   /* double -> float                     */
for (i…) for (j = 1…) for (k…) out[i,j,k] += out[i,j-1,k];        /* cumulative sum, in place, in float  */
```
`mulS a = fl64(a * rscale)`, `toF` = conversion double → float, `add` = float addition. -/
def backTransform {δ φ : Type} (mulS : δ → δ) (toF : δ → φ) (add : φ → φ → φ) (s1 n s2 : Nat) (x : Nat → δ) :
    Nat → φ :=
  cumsumLoop add s1 n s2 (fun p => toF (mulS (x p)))

/-- strides of the monotonic dimension `m` for a shape `naxes` -/
def stride1 (naxes : List Nat) (m : Nat) : Nat := (naxes.take m).foldl (· * ·) 1
def stride2 (naxes : List Nat) (m : Nat) : Nat := (naxes.drop (m+1)).foldl (· * ·) 1

end PsV
