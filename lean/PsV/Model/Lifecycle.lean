/-!
# Lifecycle model of `photospline::splinetable<Alloc>` (C20)

Mathlib-free, executable.  One table object is abstracted to the facts its destructor and
every storage-replacing member depend on (dimension count, per-dimension order / knot count /
coefficient count, which groups of arrays are owned, the aux key store as block sizes) plus the
**ledger of its allocator**: the list of sizes (bytes) of the blocks obtained from the `Alloc`
template parameter and not yet returned, and a counter `bad` of releases that do not match a
live block (double free, wrong size, foreign pointer).

Every public operation is written as its allocator event sequence in source order
(`Ev.a n` = `allocate` of `n` bytes, `Ev.d n` = `deallocate` of an `n`-byte block) under an
environment which can make one allocation throw `std::bad_alloc` (`cd = some k`: `k` more
allocations succeed, the next one throws; one shot) and can make a read fail at a given stage.

`Cfg` selects, defect by defect, between the code as it is in the snapshot and the repaired code
(fixes/C20-*.diff, C16-4, and the C07 read guard).  The theorems in `Props/C20.lean` are about
`Cfg.repaired`, the witnesses of the defects about `Cfg.asIs`; the driver runs `Cfg.repaired`.

Sources: include/photospline/splinetable.h (constructors, `~splinetable`, move, `operator==`),
detail/fitsio.h (`read_fits`, `read_fits_mem`, `read_fits_core`, `write_fits*`), detail/fit.h,
detail/convolve.h, detail/permute.h, detail/aux.h.
-/
namespace PsV.Lifecycle

/-- Which repairs are in force (`true` = repaired code). -/
structure Cfg where
  readGuard : Bool        -- read_fits_core releases what it allocated when it fails (C07 / C20-11)
  readAuxExact : Bool     -- aux value blocks read from a file have the size they are released with (C20-9)
  fitRefuse : Bool        -- fit throws on a populated table (C20-2)
  fitGuard : Bool         -- failed fit leaves the table empty (C20-3)
  convGuard : Bool        -- allocation failure inside convolve leaves the table empty (C20-4)
  convCheck : Bool        -- convolve rejects dim >= ndim and an empty kernel (C20-5)
  writeKeyRefuse : Bool   -- write_key throws on an empty table (C20-1)
  removeKeyFirst : Bool   -- remove_key allocates the new array before releasing anything (C20-6)
  eqEmpty : Bool          -- operator== on two empty tables returns true (C20-7)
  permuteEmpty : Bool     -- permuteDimensions on an empty table returns (C20-8)
  moveAssignRelease : Bool -- move assignment leaves the source empty (C20-10)
  stackDelete : Bool      -- the stacking constructor deletes its two padding tables (C20-12)
  stackExtents : Bool     -- the stacking constructor gives the new table its `extents` arrays (proposed C20-13)
  stackGuard : Bool       -- an allocation failure inside the stacking constructor releases everything (proposed C20-14)
  stackCheck : Bool       -- the stacking constructor throws on unusable arguments instead of UB (proposed C20-15)
deriving Repr, DecidableEq

/-- every repair in force -/
def Cfg.repaired : Cfg := ⟨true, true, true, true, true, true, true, true, true, true, true, true, true, true, true⟩
/-- the snapshot the project started from -/
def Cfg.asIs : Cfg := ⟨false, false, false, false, false, false, false, false, false, false, false, false, false, false, false⟩
/-- the library as it is today (/repo HEAD): fixes C20-1 … C20-12 and C16-4 are in, the three
    repairs of the stacking constructor found while modelling it (C20-13 … C20-15) are only proposed.
    This is the configuration the driver runs by default. -/
def Cfg.head : Cfg := ⟨true, true, true, true, true, true, true, true, true, true, true, true, false, false, false⟩

/-- Allocator events. -/
inductive Ev where
  | a (n : Nat)
  | d (n : Nat)
deriving Repr, DecidableEq

/-- ledger × bad-release counter -/
abbrev Led := List Nat × Nat

def applyEv (s : Led) : Ev → Led
  | .a n => (n :: s.1, s.2)
  | .d n => if n ∈ s.1 then (s.1.erase n, s.2) else (s.1, s.2 + 1)

def applyEvs (s : Led) (evs : List Ev) : Led := evs.foldl applyEv s

/-- One dimension: order, number of knots, number of coefficients along it. -/
structure Dim where
  order : Nat
  nknots : Nat
  naxes : Nat
deriving Repr, DecidableEq

/-- One aux entry: key identity, bytes of the key block, bytes of the value block. -/
structure Aux where
  id : Nat
  k : Nat
  v : Nat
deriving Repr, DecidableEq

structure Tab where
  ndim : Nat := 0
  dims : List Dim := []
  core : Bool := false      -- order, knots, nknots, extents (2 blocks), naxes, strides, coefficients, knot vectors
  periods : Bool := false
  auxArr : Bool := false    -- `aux` is a block obtained from the allocator (possibly of 0 bytes)
  aux : List Aux := []
  ledger : List Nat := []
  bad : Nat := 0
  broken : Bool := false    -- only reachable with unrepaired code: half-built or dangling pointers
  noExtents : Bool := false -- `extents == NULL` although `ndim != 0`: what the stacking constructor leaves (before C20-13)
deriving Repr, DecidableEq

def Tab.empty : Tab := {}

def ncoef (dims : List Dim) : Nat := (dims.map (·.naxes)).foldr (· * ·) 1
def knotBlocks (dims : List Dim) : List Nat := dims.map fun d => 8 * (d.nknots + 2 * d.order)
/-- the fixed-size arrays, in the order `fit` obtains them -/
def fixedBlocks (n : Nat) (dims : List Dim) : List Nat :=
  [4 * n, 8 * n, 8 * n, 8 * n, 16 * n, 8 * n, 8 * n, 4 * ncoef dims]
/-- the same without the two `extents` blocks (a table made by the unrepaired stacking constructor) -/
def fixedBlocksNoExt (n : Nat) (dims : List Dim) : List Nat :=
  [4 * n, 8 * n, 8 * n, 8 * n, 8 * n, 4 * ncoef dims]
/-- the two `extents` blocks in the order the destructor / `release_storage` return them -/
def extBlocks (noExt : Bool) (n : Nat) : List Nat := if noExt then [] else [16 * n, 8 * n]
def auxEntryBlocks (aux : List Aux) : List Nat := aux.flatMap fun e => [16, e.k, e.v]
def auxBlocks (arr : Bool) (aux : List Aux) : List Nat :=
  (if arr then [8 * aux.length] else []) ++ auxEntryBlocks aux

/-- Everything the object owns, as block sizes. -/
def Tab.blocks (t : Tab) : List Nat :=
  (if t.core then (if t.noExtents then fixedBlocksNoExt t.ndim t.dims else fixedBlocks t.ndim t.dims) ++ knotBlocks t.dims else []) ++
  (if t.periods then [8 * t.ndim] else []) ++ auxBlocks t.auxArr t.aux

/-- the abstract state compared with the real object after every call -/
def Tab.shape (t : Tab) : Nat × List Dim × Bool × Bool × Bool × List Aux × Bool × Bool :=
  (t.ndim, t.dims, t.core, t.periods, t.auxArr, t.aux, t.broken, t.noExtents)

def Tab.isEmpty (t : Tab) : Bool :=
  t.ndim == 0 && !t.core && !t.periods && !t.auxArr && t.aux.isEmpty && t.dims.isEmpty && !t.broken && !t.noExtents

/-- The ownership invariant without the clause about `extents`: `ndim = 0` ⇒ nothing is owned;
    `ndim ≠ 0` ⇒ the arrays every member relies on are owned (periods are optional: `fit` never
    allocates them and the destructor tests the pointer; so does it for `extents`, which only the
    unrepaired stacking constructor leaves out). -/
structure Tab.OwnX (t : Tab) : Prop where
  empty : t.ndim = 0 → t.core = false ∧ t.periods = false ∧ t.auxArr = false ∧ t.aux = [] ∧ t.dims = [] ∧ t.noExtents = false
  full : t.ndim ≠ 0 → t.core = true ∧ t.dims.length = t.ndim
  auxArr : t.aux ≠ [] → t.auxArr = true
  sound : t.broken = false

/-- The ownership invariant: `OwnX` and the `extents` arrays are there whenever `ndim ≠ 0`
    (`convolve`, `permuteDimensions`, `lower_extent`/`upper_extent` read through them unconditionally). -/
structure Tab.Own (t : Tab) : Prop extends t.OwnX where
  extents : t.noExtents = false

/-- The ledger invariant: what the allocator has handed out and not got back is exactly what the
    object owns, and nothing was ever released that was not live. -/
structure Tab.Balanced (t : Tab) : Prop where
  ledger : t.ledger.Perm t.blocks
  bad : t.bad = 0

structure Tab.Inv (t : Tab) : Prop extends t.Own, t.Balanced
/-- what every table satisfies even after the unrepaired stacking constructor: destructible, leak-free -/
structure Tab.InvX (t : Tab) : Prop extends t.OwnX, t.Balanced

/-- executable versions (used for the decided witnesses and by the driver) -/
def Tab.ownXB (t : Tab) : Bool :=
  (if t.ndim = 0 then t.isEmpty else t.core && t.dims.length == t.ndim) && (t.aux.isEmpty || t.auxArr) && !t.broken
def Tab.ownB (t : Tab) : Bool := t.ownXB && !t.noExtents
def Tab.balancedB (t : Tab) : Bool := t.ledger.isPerm t.blocks && t.bad == 0

/-! ## Programs of allocation steps under the failure environment -/

inductive Step where
  | a (n : Nat)                 -- allocate n bytes and keep them
  | swap (raw stored : Nat)     -- allocate raw, allocate stored, release raw (C20-9); keeps `stored`
  | fail                        -- a non-allocation failure happens here (read error, GLAM failure)
deriving Repr, DecidableEq

def dec : Option Nat → Option Nat
  | some (k+1) => some k
  | c => c

/-- Run steps; `live` accumulates the blocks obtained and kept so far.
    Returns events, kept blocks, countdown, and whether the program ran to its end. -/
def runSteps : Option Nat → List Step → List Nat → List Ev × List Nat × Option Nat × Bool
  | cd, [], live => ([], live, cd, true)
  | cd, .fail :: _, live => ([], live, cd, false)
  | some 0, .a _ :: _, live => ([], live, none, false)
  | cd, .a n :: rest, live =>
    let r := runSteps (dec cd) rest (live ++ [n])
    (.a n :: r.1, r.2)
  | some 0, .swap _ _ :: _, live => ([], live, none, false)
  | some 1, .swap raw _ :: _, live => ([.a raw, .d raw], live, none, false)
  | cd, .swap raw st :: rest, live =>
    let r := runSteps (dec (dec cd)) rest (live ++ [st])
    (.a raw :: .a st :: .d raw :: r.1, r.2)

/-- Result of one call. -/
inductive Res where
  | ok          -- returned normally (void, or a value the model does not predict)
  | tt | ff     -- returned true / false
  | threw       -- threw an exception
  | crash       -- undefined behaviour in the real code (null dereference, out-of-bounds write, double free)
deriving Repr, DecidableEq

structure Out where
  tab : Tab
  cd : Option Nat
  res : Res
  evs : List Ev
deriving Repr

def Tab.apply (t : Tab) (evs : List Ev) : Tab :=
  let s := applyEvs (t.ledger, t.bad) evs
  { t with ledger := s.1, bad := s.2 }

/-! ## Reading -/

structure AuxIn where
  id : Nat
  k : Nat
  raw : Nat      -- strlen(card value)+1, what `read_fits_core` allocates first
  stored : Nat   -- strlen(stored string)+1, what every later release passes
deriving Repr, DecidableEq

/-- What the reader will find: the stage of `read_fits_core` at which the read fails (each cfitsio call
    it makes and each validation it performs belongs to exactly one stage). `kind`: 0 good file;
    1 cannot be opened / first HDU unusable / dimension count unreadable or < 1 (fails before `ndim`
    is assigned); 2 an `ORDERi` key is missing or unreadable (fails after the aux store and `order`
    are allocated); 3 the `KNOTS<arg>` extension is missing, its size unreadable or inconsistent
    (fails before knot vector `arg` is allocated); 4 the size of the coefficient image cannot be read
    (fails after `periods`, `knots`, `nknots` and the two `extents` blocks are allocated, before
    `naxes`); 5 the coefficient pixels cannot be read (fails after the coefficient array is
    allocated: e.g. a disk file cut short inside the primary data unit); 6 the data of `KNOTS<arg>`
    cannot be read or are not finite and non-decreasing (fails after knot vector `arg` is
    allocated); 7 the data of the `EXTENTS` extension cannot be read (fails when everything is
    allocated).  Any other value behaves like 0. -/
structure FileDesc where
  kind : Nat
  arg : Nat
  dims : List Dim
  hasKeys : Bool          -- `fits_get_hdrspace` reports > 0 keys (always, for a real file)
  aux : List AuxIn
deriving Repr, DecidableEq

def auxInSteps (c : Cfg) (aux : List AuxIn) : List Step :=
  aux.flatMap fun e =>
    [.a 16, .a e.k] ++ (if c.readAuxExact && e.stored != e.raw then [.swap e.raw e.stored] else [.a e.raw])

/-- a failure step, present iff `p` -/
def failIf (p : Prop) [Decidable p] : List Step := if p then [Step.fail] else []

/-- the knot vectors: `failAt = some i`: the read fails before vector `i` is allocated,
    `failAfter = some i`: after it was allocated (while its data are read / validated) -/
def knotSteps (failAt failAfter : Option Nat) (dims : List Dim) : List Step :=
  (dims.zipIdx).flatMap fun (d, i) =>
    failIf (failAt = some i) ++ [Step.a (8 * (d.nknots + 2 * d.order))] ++ failIf (failAfter = some i)

/-- `read_fits_core` after `ndim = temp_dim`, in source order. -/
def readSteps (c : Cfg) (f : FileDesc) : List Step :=
  let n := f.dims.length
  (if f.hasKeys then [Step.a (8 * f.aux.length)] ++ auxInSteps c f.aux else []) ++
  [.a (4 * n)] ++ failIf (f.kind = 2) ++
  [.a (8 * n), .a (8 * n), .a (8 * n), .a (8 * n), .a (16 * n)] ++ failIf (f.kind = 4) ++
  [.a (8 * n), .a (8 * n), .a (4 * ncoef f.dims)] ++ failIf (f.kind = 5) ++
  knotSteps (if f.kind = 3 then some f.arg else none) (if f.kind = 6 then some f.arg else none) f.dims ++
  failIf (f.kind = 7)

/-- the store keeps, per value, the size every later release will pass: `strlen(stored)+1` -/
def readAux (aux : List AuxIn) : List Aux :=
  aux.map fun e => ⟨e.id, e.k, e.stored⟩

def readTarget (f : FileDesc) (t : Tab) : Tab :=
  { t with ndim := f.dims.length, dims := f.dims, core := true, periods := true,
           auxArr := f.hasKeys, aux := if f.hasKeys then readAux f.aux else [] }

/-- Build storage from the empty state by running `steps`; on failure the guard (if in force)
    releases what was obtained, otherwise the object is left half built. -/
def build (guard : Bool) (t : Tab) (cd : Option Nat) (steps : List Step) (target : Tab) (n : Nat) : Out :=
  let r := runSteps cd steps []
  if r.2.2.2 then ⟨target.apply r.1, r.2.2.1, .ok, r.1⟩
  else if guard then
    let evs := r.1 ++ r.2.1.map .d
    ⟨t.apply evs, r.2.2.1, .threw, evs⟩
  else ⟨{ (t.apply r.1) with ndim := n, broken := true }, r.2.2.1, .threw, r.1⟩

/-- `read_fits` / `read_fits_mem` -/
def read (c : Cfg) (t : Tab) (cd : Option Nat) (f : FileDesc) : Out :=
  if t.ndim ≠ 0 then ⟨t, cd, .threw, []⟩
  else if f.kind = 1 ∨ f.dims = [] then ⟨t, cd, .threw, []⟩
  else
    let o := build c.readGuard t cd (readSteps c f) (readTarget f t) f.dims.length
    { o with res := if o.res = .ok then .tt else o.res }

/-! ## Fitting -/

/-- `valid`: the argument checks at the top of `fit` pass; `glamOk`: `glamfit_complex` returns 0. -/
structure FitArgs where
  valid : Bool
  glamOk : Bool
  dims : List Dim
deriving Repr, DecidableEq

def fitSteps (a : FitArgs) : List Step :=
  (fixedBlocks a.dims.length a.dims ++ knotBlocks a.dims).map .a ++ (if a.glamOk then [] else [.fail])

def fitTarget (a : FitArgs) (t : Tab) : Tab :=
  { t with ndim := a.dims.length, dims := a.dims, core := true }

def fit (c : Cfg) (t : Tab) (cd : Option Nat) (a : FitArgs) : Out :=
  if c.fitRefuse ∧ t.ndim ≠ 0 then ⟨t, cd, .threw, []⟩
  else if !a.valid ∨ a.dims = [] then ⟨t, cd, .threw, []⟩
  else if t.ndim ≠ 0 then
    -- unrepaired: every pointer is overwritten; the old blocks stay in the ledger, unreachable
    let r := runSteps cd (fitSteps a) []
    ⟨{ (fitTarget a t).apply r.1 with broken := !r.2.2.2 }, r.2.2.1, if r.2.2.2 then .ok else .threw, r.1⟩
  else build c.fitGuard t cd (fitSteps a) (fitTarget a t) a.dims.length

/-! ## Aux keys -/

/-- `kind`: 0 acceptable key and value; 1 rejected (reserved name, illegal character, value too long). -/
structure KeyArg where
  kind : Nat
  id : Nat
  k : Nat
  v : Nat
deriving Repr, DecidableEq

def findIdx (aux : List Aux) (id : Nat) : Option Nat :=
  let i := aux.findIdx (·.id == id)
  if i < aux.length then some i else none

def writeKey (c : Cfg) (t : Tab) (cd : Option Nat) (a : KeyArg) : Out :=
  if c.writeKeyRefuse ∧ t.ndim = 0 then ⟨t, cd, .threw, []⟩
  else if a.kind ≠ 0 then ⟨t, cd, .threw, []⟩
  else match findIdx t.aux a.id with
  | some i =>
    -- update in place: new value block, then release the old one
    let r := runSteps cd [.a a.v] []
    if r.2.2.2 then
      let old := (t.aux.getD i ⟨0, 0, 0⟩).v
      let evs := [Ev.a a.v, .d old]
      ⟨{ t with aux := t.aux.set i { (t.aux.getD i ⟨0, 0, 0⟩) with v := a.v } }.apply evs, r.2.2.1, .ff, evs⟩
    else ⟨t, r.2.2.1, .threw, []⟩
  | none =>
    let r := runSteps cd [.a (8 * (t.aux.length + 1)), .a 16, .a a.k, .a a.v] []
    if r.2.2.2 then
      let evs := r.1 ++ (if t.auxArr then [Ev.d (8 * t.aux.length)] else [])
      ⟨({ t with aux := t.aux ++ [Aux.mk a.id a.k a.v], auxArr := true } : Tab).apply evs, r.2.2.1, .tt, evs⟩
    else
      let evs := r.1 ++ r.2.1.map .d
      ⟨t.apply evs, r.2.2.1, .threw, evs⟩

def removeKey (c : Cfg) (t : Tab) (cd : Option Nat) (id : Nat) : Out :=
  match findIdx t.aux id with
  | none => ⟨t, cd, .ff, []⟩
  | some i =>
    let e := t.aux.getD i ⟨0, 0, 0⟩
    let frees := [Ev.d e.k, .d e.v, .d 16, .d (8 * t.aux.length)]
    let r := runSteps cd [.a (8 * (t.aux.length - 1))] []
    if c.removeKeyFirst then
      if r.2.2.2 then
        let evs := r.1 ++ frees
        ⟨{ t with aux := t.aux.eraseIdx i }.apply evs, r.2.2.1, .tt, evs⟩
      else ⟨t, r.2.2.1, .threw, []⟩
    else
      -- unrepaired: release first; if the allocation then fails `aux` dangles and the other entries are lost
      let evs := frees ++ r.1
      ⟨{ { t with aux := t.aux.eraseIdx i, broken := !r.2.2.2 }.apply evs with auxArr := r.2.2.2 },
        r.2.2.1, if r.2.2.2 then .tt else .threw, evs⟩

def getKey (t : Tab) (cd : Option Nat) (id : Nat) : Out :=
  ⟨t, cd, if (findIdx t.aux id).isSome then .tt else .ff, []⟩

/-! ## Convolution, permutation -/

def convDims (dims : List Dim) (dim nk : Nat) : List Dim :=
  dims.zipIdx.map fun (d, i) =>
    if i = dim then
      let o := d.order + nk - 1
      let k := d.nknots * nk
      ⟨o, k, k - o - 1⟩
    else d

/-- what `convolve` re-obtains after releasing the coefficients and all knot vectors, in source order -/
def convSteps (t : Tab) (dim nk : Nat) : List Step :=
  (4 * ncoef (convDims t.dims dim nk) :: knotBlocks (convDims t.dims dim nk)).map .a

def convolve (c : Cfg) (t : Tab) (cd : Option Nat) (dim nk : Nat) : Out :=
  if t.ndim ≤ dim ∨ nk = 0 then
    if c.convCheck then ⟨t, cd, .threw, []⟩ else ⟨t, cd, .crash, []⟩
  else if t.noExtents then ⟨t, cd, .crash, []⟩      -- `extents[dim][0]` is read before anything is released
  else
    let dims' := convDims t.dims dim nk
    let frees := (4 * ncoef t.dims :: knotBlocks t.dims).map Ev.d
    let r := runSteps cd (convSteps t dim nk) []
    let t1 : Tab := { t with dims := dims' }
    if r.2.2.2 then ⟨t1.apply (frees ++ r.1), r.2.2.1, .ok, frees ++ r.1⟩
    else if c.convGuard then
      -- release_storage: what was re-obtained, then everything else the table still holds
      let rest := [8 * t.ndim, 8 * t.ndim, 4 * t.ndim, 16 * t.ndim, 8 * t.ndim] ++
        (if t.periods then [8 * t.ndim] else []) ++ [8 * t.ndim, 8 * t.ndim] ++
        auxEntryBlocks t.aux ++ (if t.auxArr then [8 * t.aux.length] else [])
      let evs := frees ++ r.1 ++ (r.2.1 ++ rest).map .d
      ⟨({ t with ndim := 0, dims := [], core := false, periods := false, auxArr := false, aux := [] } : Tab).apply evs,
        r.2.2.1, .threw, evs⟩
    else ⟨{ (t1.apply (frees ++ r.1)) with broken := true }, r.2.2.1, .threw, frees ++ r.1⟩

def permute (c : Cfg) (t : Tab) (cd : Option Nat) (p : List Nat) : Out :=
  if !(p.isPerm (List.range t.ndim)) then ⟨t, cd, .threw, []⟩
  else if t.ndim = 0 then ⟨t, cd, if c.permuteEmpty then .ok else .crash, []⟩
  else if t.noExtents then ⟨t, cd, .crash, []⟩      -- `extents[j][0]` is read for every dimension
  else ⟨{ t with dims := p.map fun j => t.dims.getD j ⟨0, 0, 0⟩ }, cd, .ok, []⟩

/-- `write_fits` / `write_fits_mem`: no allocator traffic, the table is `const`; `ioOk = false`: cfitsio
    or the file system reports an error at some point of the write (C08 is about what is left on disk). -/
def writeFits (t : Tab) (cd : Option Nat) (ioOk : Bool) : Out :=
  ⟨t, cd, if t.ndim = 0 ∨ ioOk = false then .threw else .ok, []⟩

/-- `~splinetable`: returns the ledger the dead object leaves behind. -/
def destroy (t : Tab) : Tab × List Ev :=
  if t.broken then ({ t with bad := t.bad + 1 }, [])     -- null dereference / double free in the destructor
  else if t.ndim = 0 then (t, [])
  else
    let evs := (knotBlocks t.dims ++ [8 * t.ndim, 8 * t.ndim, 4 * t.ndim] ++ extBlocks t.noExtents t.ndim ++
      (if t.periods then [8 * t.ndim] else []) ++ [4 * ncoef t.dims, 8 * t.ndim, 8 * t.ndim] ++
      auxEntryBlocks t.aux ++ (if t.auxArr then [8 * t.aux.length] else [])).map Ev.d
    (t.apply evs, evs)

/-! ## The stacking constructor

`splinetable(std::vector<splinetable*> tables, std::vector<double> coordinates, int stackOrder, alloc)`
(splinetable.h).  Three objects obtain memory, each from its own allocator: two padding tables made by
`extrapolateSpline` (`new splinetable<Alloc>()`, default allocator) from the first and the last input,
then the new table itself.  The arguments are examined by `assert` only. -/

/-- what one padding table obtains (`extrapolateSpline`), in source order -/
def padBlocks (dims : List Dim) : List Nat :=
  [4 * dims.length, 8 * dims.length, 8 * dims.length] ++ knotBlocks dims ++
  [8 * dims.length, 8 * dims.length, 8 * dims.length, 16 * dims.length, 4 * ncoef dims]

/-- a padding table once built: no periods, no aux store; `led` is the state of its allocator -/
def padTab (dims : List Dim) (led : Led) : Tab :=
  { ndim := dims.length, dims := dims, core := true, ledger := led.1, bad := led.2 }

/-- dimensions of the result over `k` inputs: those of the inputs, then the stacking dimension with
    `k + 2` coefficients (the inputs and the two paddings) and `k + 2 + order + 1` knots -/
def stackDims (dims : List Dim) (k order : Nat) : List Dim := dims ++ [⟨order, k + 2 + order + 1, k + 2⟩]

/-- what the new table obtains, in source order; `extents` only with C20-13; C20-14 obtains `strides`
    before the coefficients (`release_storage` sizes the coefficient array by `strides[0]*naxes[0]`) -/
def stackMainBlocks (c : Cfg) (dims : List Dim) (k order : Nat) : List Nat :=
  [4 * (dims.length + 1), 8 * (dims.length + 1), 8 * (dims.length + 1)] ++ knotBlocks (stackDims dims k order) ++
  (if c.stackGuard then [8 * (dims.length + 1), 8 * (dims.length + 1), 4 * ncoef (stackDims dims k order)]
   else [8 * (dims.length + 1), 4 * ncoef (stackDims dims k order), 8 * (dims.length + 1)]) ++
  (if c.stackExtents then [8 * (dims.length + 1), 16 * (dims.length + 1)] else [])

def stackTarget (c : Cfg) (dims : List Dim) (k order : Nat) : Tab :=
  { ndim := dims.length + 1, dims := stackDims dims k order, core := true, noExtents := !c.stackExtents }

/-- The arguments the constructor can digest: at least two tables, none of them empty, all of the same
    shape (it copies `ncoeffs(first)` coefficients out of every one of them), and `extents` present in
    the first and the last (`extrapolateSpline` copies them). -/
def stackValid (ts : List Tab) : Bool :=
  match ts, ts.getLast? with
  | t0 :: _ :: _, some tl =>
    t0.ndim != 0 && !t0.noExtents && !tl.noExtents && ts.all (fun t => t.ndim == t0.ndim && t.dims == t0.dims)
  | _, _ => false

/-- ledger × bad of a fresh allocator after `evs` -/
def ledgerOf (evs : List Ev) : Led := applyEvs ([], 0) evs

/-! ## Histories over several objects -/

inductive Op where
  | construct (i : Nat)
  | constructFile (i : Nat) (f : FileDesc)
  | read (i : Nat) (f : FileDesc)          -- read_fits and read_fits_mem share read_fits_core
  | fit (i : Nat) (a : FitArgs)
  | writeKey (i : Nat) (a : KeyArg)
  | removeKey (i : Nat) (id : Nat)
  | getKey (i : Nat) (id : Nat)
  | convolve (i : Nat) (dim nk : Nat)
  | permute (i : Nat) (p : List Nat)
  | moveConstruct (i j : Nat)
  | moveAssign (i j : Nat)
  | compare (i j : Nat)
  | writeFits (i : Nat) (ioOk : Bool)      -- write_fits and write_fits_mem: no allocator traffic
  | destroy (i : Nat)
  | stack (i : Nat) (srcs : List Nat) (order : Nat)   -- splinetable(vector<splinetable*>, coordinates, stackOrder, alloc)
deriving Repr

/-- `retired`: (ledger, bad) left behind by every object whose lifetime has ended. -/
structure World where
  objs : List (Option Tab) := []
  cd : Option Nat := none
  retired : List (List Nat × Nat) := []
deriving Repr

def World.get (w : World) (i : Nat) : Option Tab := (w.objs.getD i none)
def World.put (w : World) (i : Nat) (o : Option Tab) : World :=
  { w with objs := (w.objs ++ List.replicate (i + 1 - w.objs.length) none).set i o }

structure StepOut where
  w : World
  res : Res
  evs : List Ev
  done : Bool      -- false: the op was not applicable (dead / live slot) and was skipped
deriving Repr

def skip (w : World) : StepOut := ⟨w, .ok, [], false⟩

def onTab (w : World) (i : Nat) (f : Tab → Option Nat → Out) : StepOut :=
  match w.get i with
  | none => skip w
  | some t => let o := f t w.cd; ⟨{ (w.put i (some o.tab)) with cd := o.cd }, o.res, o.evs, true⟩

/-- one of the three objects of a stacking constructor that failed part way: events and what is live -/
abbrev Part := List Ev × List Nat

/-- a stacking constructor that threw after `parts` (in construction order) had obtained memory -/
def stackFail (c : Cfg) (w : World) (cd : Option Nat) (parts : List Part) : StepOut :=
  let allocs := parts.flatMap (·.1)
  if c.stackGuard then
    -- unwinding releases the new table's arrays first, then the paddings
    ⟨{ w with cd := cd, retired := parts.map (fun p => ledgerOf (p.1 ++ p.2.map .d)) ++ w.retired }, .threw,
      allocs ++ parts.reverse.flatMap (fun p => p.2.map Ev.d), true⟩
  else
    -- nobody ever releases them: a constructor that throws has no destructor run, the paddings are raw `new`
    ⟨{ w with cd := cd, retired := parts.map (fun p => ledgerOf p.1) ++ w.retired }, .threw, allocs, true⟩

def stack (c : Cfg) (w : World) (i : Nat) (ts : List Tab) (order : Nat) : StepOut :=
  if !stackValid ts then
    if c.stackCheck then ⟨{ w with retired := ([], 0) :: w.retired }, .threw, [], true⟩ else ⟨w, .crash, [], true⟩
  else
    let dims := (ts.headD Tab.empty).dims
    let r1 := runSteps w.cd ((padBlocks dims).map .a) []
    if !r1.2.2.2 then stackFail c w r1.2.2.1 [(r1.1, r1.2.1)]
    else
      let r2 := runSteps r1.2.2.1 ((padBlocks dims).map .a) []
      if !r2.2.2.2 then stackFail c w r2.2.2.1 [(r1.1, r1.2.1), (r2.1, r2.2.1)]
      else
        let r3 := runSteps r2.2.2.1 ((stackMainBlocks c dims ts.length order).map .a) []
        if !r3.2.2.2 then stackFail c w r3.2.2.1 [(r1.1, r1.2.1), (r2.1, r2.2.1), (r3.1, r3.2.1)]
        else
          let t := (stackTarget c dims ts.length order).apply r3.1
          let p1 := padTab dims (ledgerOf r1.1)
          let p2 := padTab dims (ledgerOf r2.1)
          if c.stackDelete then
            let d1 := destroy p1
            let d2 := destroy p2
            let ret := (d1.1.ledger, d1.1.bad) :: (d2.1.ledger, d2.1.bad) :: w.retired
            ⟨{ (w.put i (some t)) with cd := r3.2.2.1, retired := ret }, .ok,
              r1.1 ++ r2.1 ++ r3.1 ++ d1.2 ++ d2.2, true⟩
          else
            -- the paddings are abandoned with everything they own
            ⟨{ (w.put i (some t)) with cd := (r3.2.2.1), retired := (p1.ledger, p1.bad) :: (p2.ledger, p2.bad) :: w.retired }, .ok,
              r1.1 ++ r2.1 ++ r3.1, true⟩

def step (c : Cfg) (w : World) : Op → StepOut
  | .construct i => match w.get i with
    | some _ => skip w
    | none => ⟨w.put i (some Tab.empty), .ok, [], true⟩
  | .constructFile i f => match w.get i with
    | some _ => skip w
    | none =>
      let o := read c Tab.empty w.cd f
      if o.res = .tt then ⟨{ (w.put i (some o.tab)) with cd := o.cd }, .ok, o.evs, true⟩
      -- the constructor threw: the object never comes to life and its destructor does not run
      else ⟨{ w with cd := o.cd, retired := (o.tab.ledger, o.tab.bad) :: w.retired }, o.res, o.evs, true⟩
  | .read i f => onTab w i fun t cd => read c t cd f
  | .fit i a => onTab w i fun t cd => fit c t cd a
  | .writeKey i a => onTab w i fun t cd => writeKey c t cd a
  | .removeKey i id => onTab w i fun t cd => removeKey c t cd id
  | .getKey i id => onTab w i fun t cd => getKey t cd id
  | .convolve i dim nk => onTab w i fun t cd => convolve c t cd dim nk
  | .permute i p => onTab w i fun t cd => permute c t cd p
  | .writeFits i ioOk => onTab w i fun t cd => writeFits t cd ioOk
  | .moveConstruct i j => match w.get i, w.get j with
    | none, some s => ⟨(w.put i (some s)).put j (some Tab.empty), .ok, [], true⟩
    | _, _ => skip w
  | .moveAssign i j => match w.get i, w.get j with
    | some t, some s =>
      if i = j then ⟨w, .ok, [], true⟩
      else if c.moveAssignRelease then
        -- `splinetable old(std::move(*this))` dies at the end of the call
        let d := destroy t
        ⟨{ ((w.put i (some s)).put j (some Tab.empty)) with retired := (d.1.ledger, d.1.bad) :: w.retired }, .ok, d.2, true⟩
      else ⟨(w.put i (some s)).put j (some t), .ok, [], true⟩
    | _, _ => skip w
  | .compare i j => match w.get i, w.get j with
    | some t, some s =>
      if t.ndim ≠ s.ndim then ⟨w, .ff, [], true⟩
      else if t.ndim = 0 then ⟨w, if c.eqEmpty then .tt else .crash, [], true⟩
      else ⟨w, .ok, [], true⟩
    | _, _ => skip w
  | .destroy i => match w.get i with
    | none => skip w
    | some t =>
      let d := destroy t
      ⟨{ (w.put i none) with retired := (d.1.ledger, d.1.bad) :: w.retired }, .ok, d.2, true⟩
  | .stack i srcs order => match w.get i, srcs.mapM w.get with
    | none, some ts => stack c w i ts order
    | _, _ => skip w

def run (c : Cfg) (w : World) (ops : List Op) : World := ops.foldl (fun w op => (step c w op).w) w

/-- destroy every object that is still alive -/
def destroyAll (c : Cfg) (w : World) : World :=
  run c w ((List.range w.objs.length).map Op.destroy)

def World.init (cd : Option Nat) : World := { cd := cd }

/-- the single object an operation acts on (none for the two-object operations and constructors) -/
def Op.target : Op → Option Nat
  | .read i _ | .fit i _ | .writeKey i _ | .removeKey i _ | .getKey i _
  | .convolve i _ _ | .permute i _ | .writeFits i _ => some i
  | _ => none

/-- executable form of the world invariant (decided witnesses, driver self-check) -/
def World.okB (w : World) : Bool :=
  w.objs.all (fun o => match o with | none => true | some t => t.ownB && t.balancedB) &&
  w.retired.all (fun r => r.1.isEmpty && r.2 == 0)

/-- the same without the clause about `extents` (the invariant `Cfg.head` keeps) -/
def World.okXB (w : World) : Bool :=
  w.objs.all (fun o => match o with | none => true | some t => t.ownXB && t.balancedB) &&
  w.retired.all (fun r => r.1.isEmpty && r.2 == 0)

end PsV.Lifecycle
