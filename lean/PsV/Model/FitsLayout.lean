import PsV.Model.Fits
/-!
# The documented layout of a photospline FITS file, as an independent specification (C06)

This file describes, *without* going through the model of cfitsio (`createImg`, `writeKeys`, `updateKey`, `s2c`,
`cardInt`, ... in `PsV/Model/Fits.lean`) and without the generic card formatter / HDU encoder of
`PsV/Model/FitsCodec.lean`, what the bytes of a file holding a table look like — the way the FITS standard and the
photospline documentation describe it:

* the file is a sequence of header-data units; a header is a sequence of 80-column records closed by an `END` record
  and filled with blanks to a multiple of 2880 bytes; the data are big-endian IEEE words filled with zero bytes to a
  multiple of 2880;
* unit 0 (primary): `BITPIX = -32` image of the coefficients with `NAXIS = ndim` and **`NAXISj = naxes[ndim-j]`**
  (FITS counts the fastest-varying axis first, the table is row-major, so the axes appear in reversed order and the
  coefficient array is stored in memory order, see `fitsIndex_reverse` in `PsV/Proofs/FitsLayout.lean`);
  keywords `TYPE = 'Spline Coefficient Table'`, `ORDERi` (i = 0..ndim-1, decimal integer, comment `B-Spline Order`),
  `PERIODi` (only when the table has periods; number text of cfitsio, a parameter), then the auxiliary keys as string
  keywords in array order;
* units 1..ndim: one `XTENSION= 'IMAGE   '` unit per dimension, `BITPIX = -64`, `NAXIS = 1`, `NAXIS1 = nknots[i]`,
  `EXTNAME = 'KNOTSi  '`, data = the knot vector;
* last unit, only when the table has extents: the same with `NAXIS1 = 2·ndim`, `EXTNAME = 'EXTENTS '`, data =
  `lower_0, upper_0, lower_1, upper_1, …`.

Fixed-format records (FITS standard 4.2): keyword left-justified in columns 1–8, `= ` in columns 9–10, integer and
logical values right-justified to column 30, a string value starts with its opening quote in column 11, holds its text
with every apostrophe doubled and blank-padded to at least 8 characters, then the closing quote; an optional comment
follows after ` / `.  Decimal numbers are `Nat.toDigits 10` of the standard library (what `toString` prints).

Mathlib-free and executable: the C06 driver compares `layoutBytes` with the bytes the real `write_fits` /
`write_fits_mem` produce, byte for byte, on every run; `PsV/Props/C06.lean` proves
`encodeFits (writeCore E t) = layoutBytes E t` for every accepted table.
-/
namespace PsV.Fits.Layout
open PsV.Fits

/-- left-justified in `n` columns -/
def ljust (n : Nat) (s : Str) : Str := s ++ List.replicate (n - s.length) ' '
/-- right-justified in `n` columns -/
def rjust (n : Nat) (s : Str) : Str := List.replicate (n - s.length) ' ' ++ s

/-- decimal text of a natural number (standard library) -/
def dec (n : Nat) : Str := Nat.toDigits 10 n

/-- a header record has 80 columns -/
def record (s : Str) : Str := ljust 80 s

/-- keyword, value indicator, value right-justified to column 30, optional comment -/
def valueCard (key value comment : Str) : Str :=
  record (ljust 8 key ++ ['=', ' '] ++ rjust 20 value ++ (if comment = [] then [] else [' ', '/', ' '] ++ comment))

/-- every apostrophe of a string value is stored twice -/
def doubled (s : Str) : Str := s.flatMap fun c => if c = '\'' then ['\'', '\''] else [c]

/-- a string value: quote, text (apostrophes doubled) blank-padded to at least 8 characters, quote -/
def quoted (text : Str) : Str := ['\''] ++ ljust 8 (doubled text) ++ ['\'']

/-- string keyword without comment -/
def stringCard (key text : Str) : Str := record (ljust 8 key ++ ['=', ' '] ++ quoted text)

/-- string keyword with a comment: the value field is padded to column 30 -/
def stringCardC (key text comment : Str) : Str :=
  record (ljust 8 key ++ ['=', ' '] ++ ljust 20 (quoted text) ++ [' ', '/', ' '] ++ comment)

def commentCard (text : Str) : Str := record ("COMMENT ".toList ++ text)

def endRecord : Str := record "END".toList

/-- `k` bytes of `n`, most significant first -/
def bigEndian (k n : Nat) : List UInt8 := (List.range k).map fun j => UInt8.ofNat (n / 256 ^ (k - 1 - j) % 256)

/-- bytes missing to the next multiple of 2880 -/
def fill (n : Nat) : Nat := (2880 - n % 2880) % 2880

/-- header unit: the records, `END`, blanks to the block boundary; one byte per character -/
def headerUnit (records : List Str) : List UInt8 :=
  let text := (records ++ [endRecord]).flatten
  (text ++ List.replicate (fill text.length) ' ').map fun c => UInt8.ofNat c.toNat

/-- data unit: the bytes, zeros to the block boundary -/
def dataUnit (bytes : List UInt8) : List UInt8 := bytes ++ List.replicate (fill bytes.length) 0

/-- the `PERIODi` records: present only when the table has periods -/
def periodRecords (E : Ext) (t : Table) : List Str :=
  match t.periods with
  | none => []
  | some p => (List.range t.ndim).map fun i => valueCard ("PERIOD".toList ++ dec i) (E.fmtD (p.getD i 0)) []

/-- the primary header of a table -/
def primaryHeader (E : Ext) (t : Table) : List Str :=
  [ valueCard "SIMPLE".toList ['T'] "file does conform to FITS standard".toList,
    valueCard "BITPIX".toList "-32".toList "number of bits per data pixel".toList,
    valueCard "NAXIS".toList (dec t.ndim) "number of data axes".toList ]
  ++ (List.range t.ndim).map (fun j =>
        valueCard ("NAXIS".toList ++ dec (j+1)) (dec (t.naxes.getD (t.ndim - 1 - j) 0))
          ("length of data axis ".toList ++ dec (j+1)))
  ++ [ valueCard "EXTEND".toList ['T'] "FITS dataset may contain extensions".toList,
       commentCard "  FITS (Flexible Image Transport System) format is defined in 'Astronomy".toList,
       commentCard "  and Astrophysics', volume 376, page 359; bibcode: 2001A&A...376..359H".toList,
       stringCard "TYPE".toList "Spline Coefficient Table".toList ]
  ++ (List.range t.ndim).map (fun i =>
        valueCard ("ORDER".toList ++ dec i) (dec (t.order.getD i 0)) "B-Spline Order".toList)
  ++ periodRecords E t
  ++ t.aux.map (fun kv => stringCard kv.1 kv.2)

/-- header of a one-dimensional `BITPIX = -64` image extension called `name` with `n` values -/
def extensionHeader (name : Str) (n : Nat) : List Str :=
  [ stringCardC "XTENSION".toList "IMAGE".toList "IMAGE extension".toList,
    valueCard "BITPIX".toList "-64".toList "number of bits per data pixel".toList,
    valueCard "NAXIS".toList ['1'] "number of data axes".toList,
    valueCard "NAXIS1".toList (dec n) "length of data axis 1".toList,
    valueCard "PCOUNT".toList ['0'] "required keyword; must = 0".toList,
    valueCard "GCOUNT".toList ['1'] "required keyword; must = 1".toList,
    stringCard "EXTNAME".toList name ]

def coefData (t : Table) : List UInt8 := t.coef.flatMap fun w => bigEndian 4 w.toNat
def f64Data (d : List UInt64) : List UInt8 := d.flatMap fun w => bigEndian 8 w.toNat

def primaryUnit (E : Ext) (t : Table) : List UInt8 := headerUnit (primaryHeader E t) ++ dataUnit (coefData t)

def knotUnit (t : Table) (i : Nat) : List UInt8 :=
  let k := t.knots.getD i []
  headerUnit (extensionHeader ("KNOTS".toList ++ dec i) k.length) ++ dataUnit (f64Data k)

def extentsUnits (t : Table) : List UInt8 :=
  match t.extents with
  | none => []
  | some e => headerUnit (extensionHeader "EXTENTS".toList (2 * t.ndim)) ++ dataUnit (f64Data e)

/-- **The documented layout**: the bytes of the file that holds table `t`. -/
def layoutBytes (E : Ext) (t : Table) : List UInt8 :=
  primaryUnit E t ++ (List.range t.ndim).flatMap (knotUnit t) ++ extentsUnits t

/-! ## pixel numbering -/

/-- zero-based position of pixel `pos` (zero-based coordinates, first axis first) in the data of a FITS image with
    axis lengths `axes`: the first axis varies fastest -/
def fitsIndex : List Nat → List Nat → Nat
  | a :: as, p :: ps => p + a * fitsIndex as ps
  | _, _ => 0

/-- offset of the coefficient with multi-index `idx` in the table's array: `Σ idx[i]·strides[i]` -/
def tableIndex : List Nat → List Nat → Nat
  | s :: ss, i :: is => i * s + tableIndex ss is
  | _, _ => 0

end PsV.Fits.Layout
