import PsV.Model.FitGlam
/-!
# Rescaled axes of a fit problem, the monotonic branch of `calc_penalty`, and `cholmod_l_drop` (C10, knot-scale stream)

* `FitProblem.knotScale hs P`: the problem on rescaled axes — in dimension `d` the knots and the abscissae are multiplied by
  `h_d`, the smoothing by `h_d^(2 p_d)` (`p_d` the penalty order).  This is what `harness/c10_knotscale.h` (`ks_rescale`)
  does to a generated problem before it calls the real `splinetable::fit` a second time.
* `finiteDiffMono`: `finitediff = finitediff · tril` of `calc_penalty` with `mono = 1` (glam.c: `cholmod_l_ssmult(old, tril, …)`,
  `tril` = the lower-triangular ones matrix of `cholmod_tril`): entry `(r, c)` is `Σ_{k ≥ c} D[r, k]`.
* `dropEntry` / `Tab2.dropTol`: `cholmod_l_drop(tol, A, c)` on a real unsymmetric matrix — an entry is kept iff `|a| > tol`.

Mathlib-free and executable.
-/
namespace PsV
open Arith
variable {α : Type} [A : Arith α]

/-- `h · t_i` -/
def scaleKnots (h : α) (t : Int → α) : Int → α := fun i => A.mul h (t i)

/-- the same dimension with its knot vector multiplied by `h` -/
def Dim.knotScale (h : α) (d : Dim α) : Dim α := { d with knots := scaleKnots h d.knots }

/-- `h^n` by repeated multiplication -/
def powN (h : α) : Nat → α
  | 0 => A.one
  | n+1 => A.mul h (powN h n)

/-- knots of dimension `d` times `h_d` (dimensions beyond the list of scales are left alone) -/
def scaleDims : List α → List (Dim α) → List (Dim α)
  | h :: hs, d :: ds => d.knotScale h :: scaleDims hs ds
  | _, ds => ds

/-- abscissae of dimension `d` times `h_d` -/
def scaleCoords : List α → List (List α) → List (List α)
  | h :: hs, c :: cs => c.map (A.mul h) :: scaleCoords hs cs
  | _, cs => cs

/-- smoothing of dimension `d` times `h_d^(2 p_d)` -/
def scaleSmooth : List α → List α → List Nat → List α
  | h :: hs, l :: ls, p :: ps => A.mul l (powN h (2 * p)) :: scaleSmooth hs ls ps
  | _, ls, _ => ls

/-- the fit problem on rescaled axes: data, weights, orders, penalty orders unchanged -/
def FitProblem.knotScale (hs : List α) (P : FitProblem α) : FitProblem α :=
  { P with dims := scaleDims hs P.dims, coords := scaleCoords hs P.coords, smooth := scaleSmooth hs P.smooth P.porder }

/-- `finitediff · tril` (`calc_penalty`, `if (mono)`): `(r, c) ↦ Σ_{k ≥ c} finitediff[r, k]` -/
def finiteDiffMono (t : Int → α) (order porder n : Nat) : Tab2 α :=
  let D := finiteDiff t order porder n          -- built once (the compiled driver runs this definition)
  Tab2.ofFn (n - porder) n fun r c =>
    sumTo n fun k => if c ≤ k then D.get r k else A.zero

/-- one entry under `cholmod_l_drop(tol, …)`: kept iff `|a| > tol` -/
def dropEntry (tol a : α) : α := if A.lt tol a || A.lt tol (A.neg a) then a else A.zero

/-- `cholmod_l_drop(tol, T, c)` -/
def Tab2.dropTol (tol : α) (T : Tab2 α) : Tab2 α := Tab2.ofFn T.n T.m fun i j => dropEntry tol (T.get i j)

end PsV
