import PsV.Model.Sync
import PsV.Model.Nnls
/-!
# C11 — the result loop of `walk_descents` over blocks of workers, and the row-by-row factor update of `modify_factor_p`

Mathlib-free, executable.  Two small models behind the theorems of `PsV/Props/C11.lean` that answer the seeded changes
C11-6 and C11-5.

## (a) the result loop (cholesky_solve.c: `walk_descents`)

```
n_blocks = ceil(n_alpha / n_threads);  success = false;
for (i = 0; i < n_blocks; i++) {
  if (success) break;
  … start workers j = 0 .. with i*n_threads + j < n_alpha on alpha[i*n_threads + j], wait for them …
  for (j = 0; j < n_threads; j++) {
    if (i*n_threads + j >= n_alpha) break;
    if (i == 0 && j == 0)  res = descent_trials[j].residual;
    else if (descent_trials[j].residual < res || i*n_threads + j == n_alpha-1) { success = true; …; break; }
  } }
```
The hand-shake with the workers is the subject of C12 (`PsV.Sync`: `Cfg.blocks`, `Cfg.active`, `selStep`, `scan`, `flat`,
`selectSeq`).  Here the loop is taken *after* the hand-shake: worker `j` of block `i` has reported the trial with index
`i*n_threads + j` (`C12_each_trial_evaluated_once`, `C12_scanned_records`).  `selStepL` is `Sync.selStep` with the index
that the last-trial test looks at (`l`) separated from the index `k` of the trial, so that the loop can be run with the
test as written (`l = i*n_threads + j`) and with a different multiplier (`l = i*mult + j`; the seeded change C11-6 has
`mult = n_blocks`).
-/
namespace PsV.Nnls
open PsV.Sync

/-- one iteration of the `for (j …)` result scan: trial index `k`, last-trial test on `l`, result belonging to index `v` -/
def selStepL (less : Nat → Nat → Bool) (m : Nat) (acc : Acc) (k l : Nat) (v : Option Nat) : Acc :=
  match acc.2 with
  | some _ => acc                                   -- `break` already taken (`success`)
  | none =>
    if k = 0 then (v, none)                         -- `(i == 0) && (j == 0)`: res = descent_trials[0].residual
    else
      let red := match v, acc.1 with
        | some a, some b => less a b
        | _, _ => false
      if red || l == m - 1 then (acc.1, some (v, red)) else acc

/-- the `for (j …)` scan of block `i`, last-trial test `i*mult + j == n_alpha-1` -/
def scanL (c : Cfg) (mult : Nat) (val : Nat → Option Nat) (i : Nat) (acc : Acc) : Acc :=
  (List.range (c.active i)).foldl (fun a j => selStepL c.less c.m a (i * c.n + j) (i * mult + j) (val j)) acc

/-- the whole result loop, every worker reporting the trial it was given (`val j = i*n_threads + j` in block `i`);
    after `success` the remaining blocks are no-ops (`if (success) break`) -/
def blockLoopL (c : Cfg) (mult : Nat) : Acc :=
  (List.range c.blocks).foldl (fun acc i => scanL c mult (fun j => some (i * c.n + j)) i acc) (none, none)

/-- the loop as written: `i*n_threads + j == n_alpha-1` -/
def blockLoop (c : Cfg) : Acc := blockLoopL c c.n

/-- the trial indices in the order in which the loop (run to the end) looks at them: block `i`, worker `j` ↦ `i*n_threads + j` -/
def trialIndices (c : Cfg) : List Nat :=
  (List.range c.blocks).flatMap fun i => (List.range (c.active i)).map fun j => i * c.n + j

/-! ### the sequential model `walkScan` of `PsV.Nnls` (what `block3Run` executes) in the vocabulary of C12 -/

/-- residual of trial index `k` of one line search: index 0 is the current point (`alpha[0] = 0`, residual `res0`), index
    `k+1` the `k`-th entry of the list of distances -/
def trialResid (E : B3Env) (inF : Nat → Bool) (x xF : Nat → Rat) (res0 : Rat) (as : List Rat) : Nat → Rat
  | 0 => res0
  | k + 1 => E.resid inF (trialVal inF x xF (as.getD k 0))

/-- `residual(trial a) < residual(trial b)`: the comparison `Cfg.less` of C12 for this line search -/
def walkLess (E : B3Env) (inF : Nat → Bool) (x xF : Nat → Rat) (res0 : Rat) (as : List Rat) (a b : Nat) : Bool :=
  decide (trialResid E inF x xF res0 as a < trialResid E inF x xF res0 as b)

/-- the line search as a configuration of C12: `n` workers, `n_alpha = |as| + 1` trials -/
def walkCfg (E : B3Env) (inF : Nat → Bool) (x xF : Nat → Rat) (res0 : Rat) (as : List Rat) (n : Nat) : Cfg :=
  { n := n, m := as.length + 1, less := walkLess E inF x xF res0 as, repaired := true }

/-! ## (b) rows added to the full-size factor (cholesky_solve.c: `modify_factor_p`, `get_column`, `cholmod_rowadd`)

```
for (i = 0, j = 0; i < nH2; i++) {
  F[nF++] = H2[i];  … remove H2[i] from G …
  if (update && update_ready) {
    col = get_column(A, H2[i], iPerm, F, nF, c);     /* column H2[i] of A, rows outside the CURRENT F zeroed */
    cholmod_l_rowadd(iPerm[H2[i]], col, L, c); } }
```
The full-size factor `L` of the solvers represents the symmetric matrix that equals `A` on `F × F` and the identity
elsewhere.  `cholmod_rowadd(k, R, L)` is specified for a factor whose row and column `k` are identity and makes them the
factorization of the given row/column (cholmod_modify.h: "The kth row and column of L must originally be equal to the kth row
and column of the identity matrix"); what it does otherwise is not specified.  For a positive-definite `L D Lᵀ` row and column
`k` of `L` are identity exactly when row and column `k` of the represented matrix are (`d_k` times) the identity, so the
abstraction here is the *represented matrix* together with that precondition: `rowAdd` returns `none` when the precondition
fails.  Nothing is said about the floating-point factor itself.
-/

/-- the matrix a full-size factor with passive set `S` represents: `A` on `S × S`, identity elsewhere -/
def repMat (A : Mat) (S : Nat → Bool) : Mat := fun i j => if S i && S j then A i j else if i = j then 1 else 0

/-- `get_column(A, k, F)`: column `k` of `A` with the rows outside `F` zeroed -/
def getColumn (A : Mat) (S : Nat → Bool) (k : Nat) : Vec := fun i => if S i then A i k else 0

/-- `cholmod_rowadd(k, col, L)` on the represented matrix `R` (size `n`): defined when row and column `k` of `R` are identity -/
def rowAdd (n k : Nat) (col : Vec) (R : Mat) : Option Mat :=
  if (R k k == 1) && ((List.range n).all fun j => j == k || (R k j == 0 && R j k == 0)) then
    some fun i j => if i = k then col j else if j = k then col i else R i j
  else none

/-- the `H2` loop as written: `F` grows by `H2[i]` before `get_column` is called for `H2[i]` -/
def addRows (n : Nat) (A : Mat) : (S : Nat → Bool) → List Nat → Mat → Option Mat
  | _, [], R => some R
  | S, k :: ks, R =>
    let S' : Nat → Bool := fun i => S i || i == k
    match rowAdd n k (getColumn A S' k) R with
    | none => none
    | some R' => addRows n A S' ks R'

/-- the seeded variant (C11-2, C11-5): all of `H2` is moved to `F` first, every `get_column` sees the final `F` -/
def addRowsSettled (n : Nat) (A : Mat) (Sfinal : Nat → Bool) : List Nat → Mat → Option Mat
  | [], R => some R
  | k :: ks, R =>
    match rowAdd n k (getColumn A Sfinal k) R with
    | none => none
    | some R' => addRowsSettled n A Sfinal ks R'

/-- membership in a list of indices as a predicate (the sets `F`, `H2` of the solvers) -/
def memB (l : List Nat) : Nat → Bool := fun i => l.contains i

end PsV.Nnls
