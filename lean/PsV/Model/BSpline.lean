import PsV.Model.Arith
/-!
# Model of include/photospline/bspline.h

`bsplvb`, `bsplvb_simple`, `bspline_deriv_nonzero`, `bspline_nonzero` and the recursive
`bspline` / `bspline_deriv` of src/core/bspline.cpp, statement by statement.

Knots are `Int → α`: indices outside `[0, nknots)` are the `order` elements of padding that every
knot array owns on both sides; theorems quantify over them (results must not depend on them).
Arrays that the C++ mutates in place are lists that are rebuilt.
-/
namespace PsV
open Arith
variable {α : Type} [A : Arith α]

/-- Inner loop of `bsplvb` at level `j` (the row `biatx[0..j]` has `j+1` entries), from position `i`
with carry `saved`:
```
term = biatx[i] / (delta_r[i] + delta_l[j-i]);
biatx[i] = saved + delta_r[i]*term;   saved = delta_l[j-i]*term;   ... biatx[j+1] = saved;
```
`delta_r[i] = knots[left+i+1] - x` and `delta_l[m] = x - knots[left-m]` are recomputed instead of
stored (same deterministic operation on the same operands). -/
def vbStep (t : Int → α) (x : α) (left : Int) (j : Nat) : Nat → α → List α → List α
  | _, saved, [] => [A.rnd saved]
  | i, saved, b :: bs =>
    let dr := A.sub (t (left + i + 1)) x
    let dl := A.sub x (t (left - (j - i : Nat)))
    let term := A.div b (A.add dr dl)
    A.rnd (A.add saved (A.mul dr term)) :: vbStep t x left j (i+1) (A.mul dl term) bs

/-- `for (j = jlow; j < jhigh-1; j++)` of `bsplvb`, on a row that already holds level `jlow`. -/
def vbLevels (t : Int → α) (x : α) (left : Int) : (count : Nat) → (j : Nat) → List α → List α
  | 0, _, row => row
  | n+1, j, row => vbLevels t x left n (j+1) (vbStep t x left j 0 A.zero row)

/-- `bsplvb(knots, x, left, 0, jhigh, biatx, …)`: the `jhigh` non-zero B-splines of degree
`jhigh-1` on the interval `left`. -/
def bsplvb (t : Int → α) (x : α) (left : Int) (jhigh : Nat) : List α :=
  vbLevels t x left (jhigh - 1) 0 [A.rnd A.one]

/-- `while (left >= 0 && x < knots[left]) left--;` -/
def shiftDown (t : Int → α) (x : α) : (fuel : Nat) → Int → Int
  | 0, left => left
  | f+1, left => if left ≥ 0 && A.lt x (t left) then shiftDown t x f (left - 1) else left

/-- `while (left < nknots-1 && x > knots[left+1]) left++;` -/
def shiftUp (t : Int → α) (nknots : Nat) (x : α) : (fuel : Nat) → Int → Int
  | 0, left => left
  | f+1, left =>
    if left < (nknots : Int) - 1 && A.lt (t (left + 1)) x then shiftUp t nknots x f (left + 1) else left

/-- The margin handling shared by `bsplvb_simple`, `bspline_nonzero`, `bspline_deriv_nonzero`
(`n` is the spline order):
```
if (left == n)            while (left >= 0 && x < knots[left]) left--;
if (left == nknots-n-2)   while (left < nknots-1 && x > knots[left+1]) left++;
```
The loops run at most `nknots+1` times (that many values of `left`), which is the fuel. -/
def marginShift (t : Int → α) (nknots : Nat) (x : α) (left : Int) (n : Nat) : Int :=
  let l1 := if left = n then shiftDown t x (nknots + 1) left else left
  if l1 = (nknots : Int) - n - 2 then shiftUp t nknots x (nknots + 1) l1 else l1

/-- "Rearrange for partially-supported points": the row has `n+1` entries.
```
if ((i = n-left) > 0)             { move valid splines down by i, zero the rest }
else if ((i = left+n+2-nknots) > 0) { move up by i, zero the first i }
``` -/
def rearrange (nknots : Nat) (left : Int) (n : Nat) (row : List α) : List α :=
  let i1 : Int := n - left
  if i1 > 0 then
    row.drop i1.toNat ++ List.replicate (min i1.toNat (n+1)) A.zero
  else
    let i2 : Int := left + n + 2 - nknots
    if i2 > 0 then
      List.replicate (min i2.toNat (n+1)) A.zero ++ row.take (n + 1 - i2.toNat)
    else row

/-- `bsplvb_simple(knots, nknots, x, left, degree = n+1, biatx)`. -/
def bsplvbSimple (t : Int → α) (nknots : Nat) (x : α) (left : Int) (n : Nat) : List α :=
  let l := marginShift t nknots x left n
  rearrange nknots l n (bsplvb t x l (n + 1))

/-- derivative combination of `bspline_deriv_nonzero` / `bspline_nonzero`, on the `n` values of
degree `n-1` (`vals`): slot 0, slots `1..n-1`, slot `n`.
```
temp = v[0];  d[0] = - n*temp / (knots[left+1] - knots[left+1-n]);
for i in 1..n-1: a = n*temp/(knots[left+i]-knots[left+i-n]); temp = v[i];
                 d[i] = a - n*temp/(knots[left+i+1] - knots[left+i+1-n]);
d[n] = n*temp/(knots[left+n] - knots[left]);
``` -/
def derivMid (t : Int → α) (left : Int) (n : Nat) : (i : Nat) → (temp : α) → List α → List α
  | i, temp, [] =>
    [A.rnd (A.div (A.mul (A.ofNat n) temp) (A.sub (t (left + i)) (t (left + i - n))))]
  | i, temp, v :: vs =>
    let a := A.div (A.mul (A.ofNat n) temp) (A.sub (t (left + i)) (t (left + i - n)))
    A.rnd (A.sub a (A.div (A.mul (A.ofNat n) v) (A.sub (t (left + i + 1)) (t (left + i + 1 - n)))))
      :: derivMid t left n (i+1) v vs

def derivCombine (t : Int → α) (left : Int) (n : Nat) (vals : List α) : List α :=
  match vals with
  | [] => []
  | v0 :: vs =>
    A.rnd (A.div (A.neg (A.mul (A.ofNat n) v0)) (A.sub (t (left + 1)) (t (left + 1 - n))))
      :: derivMid t left n 1 v0 vs

/-- `bspline_deriv_nonzero(knots, nknots, x, left, n, biatx)`; for `n = 0` the single slot is set
to zero. -/
def bsplineDerivNonzero (t : Int → α) (nknots : Nat) (x : α) (left : Int) (n : Nat) : List α :=
  if n = 0 then [A.rnd A.zero] else
  let l := marginShift t nknots x left n
  rearrange nknots l n (derivCombine t l n (bsplvb t x l n))

/-- `bspline_nonzero`: values and derivatives together (lane 0 / lane 1+d of the gradient code).
The values are level `n` continued from the level `n-1` row, i.e. the same operations as
`bsplvb(…, n+1)`. -/
def bsplineNonzero (t : Int → α) (nknots : Nat) (x : α) (left : Int) (n : Nat) : List α × List α :=
  if n = 0 then ([A.rnd A.one], [A.rnd A.zero]) else
  let l := marginShift t nknots x left n
  let low := bsplvb t x l n
  let derivs := derivCombine t l n low
  let vals := vbStep t x l (n - 1) 0 A.zero low
  (rearrange nknots l n vals, rearrange nknots l n derivs)

/-- `photospline::bspline(knots, x, i, n)` (src/core/bspline.cpp): recursive Cox–de Boor,
right-continuous indicator at order 0; operation order as written
(`(x - k[i])*B(i,n-1) / (k[i+n]-k[i])`, then `+=` the second term). -/
def bsplineRec (t : Int → α) (x : α) : (n : Nat) → (i : Int) → α
  | 0, i => if A.le (t i) x && A.lt x (t (i+1)) then A.one else A.zero
  | n+1, i =>
    let r1 := A.div (A.mul (A.sub x (t i)) (bsplineRec t x n i)) (A.sub (t (i + n + 1)) (t i))
    let r2 := A.div (A.mul (A.sub (t (i + n + 2)) x) (bsplineRec t x n (i+1)))
                (A.sub (t (i + n + 2)) (t (i + 1)))
    A.add r1 r2

/-- `photospline::bspline_deriv(knots, x, i, n, order)`. -/
def bsplineDerivRec (t : Int → α) (x : α) : (n : Nat) → (i : Int) → (order : Nat) → α
  | 0, _, _ => A.zero
  | n+1, i, order =>
    if order ≤ 1 then
      A.sub (A.div (A.mul (A.ofNat (n+1)) (bsplineRec t x n i)) (A.sub (t (i + n + 1)) (t i)))
            (A.div (A.mul (A.ofNat (n+1)) (bsplineRec t x n (i+1))) (A.sub (t (i + n + 2)) (t (i + 1))))
    else
      A.sub (A.div (A.mul (A.ofNat (n+1)) (bsplineDerivRec t x n i (order-1))) (A.sub (t (i + n + 1)) (t i)))
            (A.div (A.mul (A.ofNat (n+1)) (bsplineDerivRec t x n (i+1) (order-1))) (A.sub (t (i + n + 2)) (t (i + 1))))

end PsV
