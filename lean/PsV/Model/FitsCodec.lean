import PsV.Model.Fits
/-!
# Byte-level codec for the documented subset of FITS

80-column cards, 2880-byte blocks, big-endian IEEE data, BITPIX -32 / -64 images, primary array followed by
`XTENSION= 'IMAGE   '` extensions.  `encodeFits` produces bytes the real reader is run on; `decodeFits`
parses bytes the real writer produced (and the shipped reference files).  Card layout follows cfitsio's
`ffmkky` (fixed format: value right-justified to column 30, strings from column 11, ` / comment`); card parsing
follows `ffgknm` / `ffpsvc` for standard 8-character keywords.  Anything outside the subset decodes to `none`.
-/
namespace PsV.Fits

abbrev Bytes := List UInt8

/-! ## big-endian words -/

def be32 (x : UInt32) : Bytes :=
  let n := x.toNat
  [UInt8.ofNat (n / 16777216), UInt8.ofNat (n / 65536 % 256), UInt8.ofNat (n / 256 % 256), UInt8.ofNat (n % 256)]

def rd32 (b0 b1 b2 b3 : UInt8) : UInt32 :=
  UInt32.ofNat (b0.toNat * 16777216 + b1.toNat * 65536 + b2.toNat * 256 + b3.toNat)

def be64 (x : UInt64) : Bytes :=
  let n := x.toNat
  [UInt8.ofNat (n / 72057594037927936), UInt8.ofNat (n / 281474976710656 % 256),
   UInt8.ofNat (n / 1099511627776 % 256), UInt8.ofNat (n / 4294967296 % 256),
   UInt8.ofNat (n / 16777216 % 256), UInt8.ofNat (n / 65536 % 256), UInt8.ofNat (n / 256 % 256), UInt8.ofNat (n % 256)]

def rd64 (b0 b1 b2 b3 b4 b5 b6 b7 : UInt8) : UInt64 :=
  UInt64.ofNat (b0.toNat * 72057594037927936 + b1.toNat * 281474976710656 + b2.toNat * 1099511627776
    + b3.toNat * 4294967296 + b4.toNat * 16777216 + b5.toNat * 65536 + b6.toNat * 256 + b7.toNat)

def enc32 : List UInt32 → Bytes
  | [] => []
  | x :: xs => be32 x ++ enc32 xs

def enc64 : List UInt64 → Bytes
  | [] => []
  | x :: xs => be64 x ++ enc64 xs

/-- `n` words from the front of `b` -/
def dec32 : Nat → Bytes → Option (List UInt32)
  | 0, _ => some []
  | n+1, b0 :: b1 :: b2 :: b3 :: r => (dec32 n r).map (rd32 b0 b1 b2 b3 :: ·)
  | _+1, _ => none

def dec64 : Nat → Bytes → Option (List UInt64)
  | 0, _ => some []
  | n+1, b0 :: b1 :: b2 :: b3 :: b4 :: b5 :: b6 :: b7 :: r => (dec64 n r).map (rd64 b0 b1 b2 b3 b4 b5 b6 b7 :: ·)
  | _+1, _ => none

/-! ## cards -/

def padTo (n : Nat) (s : Str) : Str := s ++ List.replicate (n - s.length) ' '

def isCommentary (key : Str) : Bool :=
  key == "COMMENT".toList || key == "HISTORY".toList || key == []

/-- `ffmkky`, fixed format -/
def fmtCard (c : Card) : Str :=
  if isCommentary c.key then (padTo 80 (padTo 8 c.key ++ c.com)).take 80
  else
    let v := if c.val.head? = some '\'' then (if c.com = [] then c.val else padTo 20 c.val)
             else List.replicate (20 - c.val.length) ' ' ++ c.val
    let body := padTo 8 c.key ++ ['=', ' '] ++ v
    let body := if c.com = [] then body else body ++ [' ', '/', ' '] ++ c.com
    (padTo 80 body).take 80

/-- quoted string body after the opening quote: text up to and including the closing quote (`''` is kept
    as is), and what follows; `none` when the closing quote is missing (cfitsio: NO_QUOTE) -/
def scanQuoted : Str → Option (Str × Str)
  | [] => none
  | '\'' :: '\'' :: r => (scanQuoted r).map fun (q, t) => ('\'' :: '\'' :: q, t)
  | '\'' :: r => some (['\''], r)
  | c :: r => (scanQuoted r).map fun (q, t) => (c :: q, t)

/-- the comment part of `ffpsvc`: skip blanks, a slash, one blank; trailing blanks removed -/
def parseComment (t : Str) : Str :=
  let t := t.dropWhile (· = ' ')
  match t with
  | '/' :: ' ' :: r => trimRight r
  | '/' :: r => trimRight r
  | _ => trimRight t

/-- `ffgknm` + `ffpsvc` on one 80-character card with a standard keyword -/
def parseCard (s : Str) : Option Card :=
  let key := trimRight (s.take 8)
  let rest := s.drop 8
  if key = "HIERARCH".toList ∨ key = "CONTINUE".toList ∨ key.any (· = ' ') then none
  else if isCommentary key || rest.take 2 != ['=', ' '] then some ⟨key, [], trimRight rest⟩
  else
    let body := (rest.drop 2).dropWhile (· = ' ')
    match body with
    | [] => some ⟨key, [], []⟩
    | '\'' :: r =>
      match scanQuoted r with
      | none => none
      | some (q, tail) => some ⟨key, '\'' :: q, parseComment tail⟩
    | '/' :: _ => some ⟨key, [], parseComment body⟩
    | _ =>
      let v := body.takeWhile fun c => c != ' ' && c != '/'
      let tail := body.dropWhile fun c => c != ' ' && c != '/'
      some ⟨key, v, parseComment tail⟩

def chr (b : UInt8) : Char := Char.ofNat b.toNat
def byt (c : Char) : UInt8 := UInt8.ofNat c.toNat

def endCard : Str := padTo 80 "END".toList

/-! ## headers -/

/-- comments cfitsio attaches to the mandatory keywords -/
def structComment (key : Str) : Str :=
  if key = "SIMPLE".toList then "file does conform to FITS standard".toList
  else if key = "BITPIX".toList then "number of bits per data pixel".toList
  else if key = "NAXIS".toList then "number of data axes".toList
  else if key = "XTENSION".toList then "IMAGE extension".toList
  else if key = "PCOUNT".toList then "required keyword; must = 0".toList
  else if key = "GCOUNT".toList then "required keyword; must = 1".toList
  else "length of data axis ".toList ++ key.drop 5

def blockPad (n : Nat) : Nat := (2880 - n % 2880) % 2880

def encodeHeader (primary : Bool) (h : Hdu) : Bytes :=
  let cs := (structCards primary h).map (fun c => fmtCard { c with com := structComment c.key })
            ++ h.cards.map fmtCard ++ [endCard]
  let b := (cs.flatMap id).map byt
  b ++ List.replicate (blockPad b.length) (byt ' ')

def encodeData (p : Pix) : Bytes :=
  let b := match p with
    | .f32 d => enc32 d
    | .f64 d => enc64 d
  b ++ List.replicate (blockPad b.length) 0

def encodeHdu (primary : Bool) (h : Hdu) : Bytes := encodeHeader primary h ++ encodeData h.pix

def encodeAux : Bool → List Hdu → Bytes
  | _, [] => []
  | p, h :: hs => encodeHdu p h ++ encodeAux false hs

def encodeFits (f : Fits) : Bytes := encodeAux true f

/-- cards up to `END`, then skip to the block boundary.  `n` = cards consumed so far. -/
def splitHeader : Nat → Nat → Bytes → Option (List Str × Bytes)
  | 0, _, _ => none
  | fuel+1, n, b =>
    if b.length < 80 then none else
    let card := (b.take 80).map chr
    let rest := b.drop 80
    if card = endCard then
      let pad := blockPad ((n + 1) * 80)
      if rest.length < pad then none else some ([], rest.drop pad)
    else (splitHeader fuel (n+1) rest).map fun (cs, r) => (card :: cs, r)

def cardNat (c : Card) (key : Str) : Option Nat :=
  if c.key = key then parseNat c.val else none

/-- NAXIS1..NAXISn in order -/
def takeAxes : Nat → Nat → List Card → Option (List Nat × List Card)
  | _, 0, cs => some ([], cs)
  | i, n+1, c :: cs =>
    match cardNat c ("NAXIS".toList ++ natStr i) with
    | none => none
    | some a => (takeAxes (i+1) n cs).map fun (as, r) => (a :: as, r)
  | _, _+1, [] => none

/-- mandatory keywords of an image HDU in their fixed order → (bitpix, axes, remaining cards) -/
def parseStruct (primary : Bool) (cs : List Card) : Option (Int × List Nat × List Card) :=
  match cs with
  | c0 :: c1 :: c2 :: r =>
    let firstOk := if primary then c0.key = "SIMPLE".toList ∧ c0.val = ['T']
                   else c0.key = "XTENSION".toList ∧ c0.val = "'IMAGE   '".toList
    if ¬ firstOk ∨ c1.key ≠ "BITPIX".toList then none else
    match parseInt c1.val, cardNat c2 "NAXIS".toList with
    | some bp, some n =>
      match takeAxes 1 n r with
      | none => none
      | some (axes, r) =>
        if primary then some (bp, axes, r) else
        match r with
        | p :: g :: r' =>
          if p.key = "PCOUNT".toList ∧ p.val = ['0'] ∧ g.key = "GCOUNT".toList ∧ g.val = ['1'] then some (bp, axes, r')
          else none
        | _ => none
    | _, _ => none
  | _ => none

def mapM' {α β} (f : α → Option β) : List α → Option (List β)
  | [] => some []
  | a :: as => match f a with
    | none => none
    | some b => (mapM' f as).map (b :: ·)

def npix (axes : List Nat) : Nat := if axes = [] then 0 else prod axes

def decodeHdu (primary : Bool) (b : Bytes) : Option (Hdu × Bytes) :=
  match splitHeader (b.length / 80 + 1) 0 b with
  | none => none
  | some (raw, rest) =>
    match mapM' parseCard raw with
    | none => none
    | some cs =>
      match parseStruct primary cs with
      | none => none
      | some (bp, axes, cards) =>
        let n := npix axes
        if bp = -32 then
          match dec32 n rest with
          | none => none
          | some d =>
            let used := 4 * n + blockPad (4 * n)
            if rest.length < used then none else some (⟨axes, cards, .f32 d⟩, rest.drop used)
        else if bp = -64 then
          match dec64 n rest with
          | none => none
          | some d =>
            let used := 8 * n + blockPad (8 * n)
            if rest.length < used then none else some (⟨axes, cards, .f64 d⟩, rest.drop used)
        else none

def decodeAux : Nat → Bool → Bytes → Option (List Hdu)
  | 0, _, _ => none
  | fuel+1, p, b =>
    if b = [] then (if p then none else some []) else
    match decodeHdu p b with
    | none => none
    | some (h, rest) => (decodeAux fuel false rest).map (h :: ·)

def decodeFits (b : Bytes) : Option Fits := decodeAux (b.length / 2880 + 1) true b

end PsV.Fits
