import PsV.Model.BSpline
import PsV.Model.Search
/-!
# Model of the evaluation entry points (include/photospline/detail/bspline_eval.h)

`ndsplineeval`, `ndsplineeval_deriv`, `operator()` and the coefficient-block walk.
The walk is written as the nested recursion that performs *the same floating-point operations in
the same order* as the odometer loop of `ndsplineeval_core` (`basis_tree[j+1] = basis_tree[j] *
localbasis[j][pos_j]`, `result += basis_tree[ndim-1]*localbasis[ndim-1][i]*coefficients[tablepos+i]`
in lexicographic order of `pos`); `PsV.Model.Walk` models the odometer loops themselves and proves
them equal to this recursion.
-/
namespace PsV
open Arith

structure Dim (α : Type) where
  order : Nat
  nknots : Nat
  naxes : Nat
  stride : Nat
  knots : Int → α

structure Table (α : Type) where
  dims : List (Dim α)
  coef : Int → α

variable {α : Type} [A : Arith α]

instance cmpOfArith : Cmp α := ⟨A.lt, A.le⟩

def Dim.axis (d : Dim α) : Axis α := ⟨d.order, d.nknots, fun i => d.knots i⟩

/-- How one dimension's local basis row is produced. -/
inductive BasisMode where
  | value            -- bsplvb_simple
  | deriv1           -- bspline_deriv_nonzero
  | derivK (k : Nat) -- bspline_deriv, k ≥ 2 (ndsplineeval_deriv only)
deriving Repr, DecidableEq

def localRow (d : Dim α) (x : α) (c : Nat) : BasisMode → List α
  | .value => bsplvbSimple d.knots d.nknots x c d.order
  | .deriv1 => bsplineDerivNonzero d.knots d.nknots x c d.order
  | .derivK k => (List.range (d.order + 1)).map fun i =>
      A.rnd (bsplineDerivRec d.knots x d.order ((c : Int) - d.order + (i : Nat)) k)

/-- innermost loop: `for i ≤ order[last]: result += bt*row[i]*coef[tablepos+i]` -/
def walkLast (coef : Int → α) (bt : α) : List α → Int → α → α
  | [], _, acc => acc
  | b :: bs, pos, acc => walkLast coef bt bs (pos + 1) (sadd acc (smul (smul bt b) (coef pos)))

mutual
/-- block walk over the remaining dimensions `(stride, row)`; `bt` is `basis_tree[depth]` -/
def walk (coef : Int → α) : List (Nat × List α) → α → Int → α → α
  | [], _, _, acc => acc
  | [(_, row)], bt, pos, acc => walkLast coef bt row pos acc
  | (s, row) :: r :: rest, bt, pos, acc => walkRow coef s (r :: rest) bt row pos acc
/-- iterate the entries of one non-last dimension's row -/
def walkRow (coef : Int → α) (s : Nat) (rest : List (Nat × List α)) (bt : α) :
    List α → Int → α → α
  | [], _, acc => acc
  | b :: bs, pos, acc =>
    walkRow coef s rest bt bs (pos + s) (walk coef rest (smul bt b) pos acc)
end

/-- `tablepos = Σ (centers[n] - order[n]) * strides[n]` -/
def startPos : List (Dim α) → List Nat → Int
  | d :: ds, c :: cs => ((c : Int) - d.order) * d.stride + startPos ds cs
  | _, _ => 0

def rows : List (Dim α) → List α → List Nat → List BasisMode → List (Nat × List α)
  | d :: ds, x :: xs, c :: cs, m :: ms => (d.stride, localRow d x c m) :: rows ds xs cs ms
  | _, _, _, _ => []

/-- common body of `ndsplineeval` / `ndsplineeval_deriv`: local basis rows, then the block walk
(`basis_tree[0] = 1`, `result = 0`). -/
def evalModes (T : Table α) (xs : List α) (cs : List Nat) (ms : List BasisMode) : α :=
  walk T.coef (rows T.dims xs cs ms) (A.rnd A.one) (startPos T.dims cs) (A.rnd A.zero)

def maskModes (ndim : Nat) (mask : Nat) : List BasisMode :=
  (List.range ndim).map fun n => if mask.testBit n then .deriv1 else .value

/-- `ndsplineeval(x, centers, derivatives)` -/
def ndsplineeval (T : Table α) (xs : List α) (cs : List Nat) (mask : Nat) : α :=
  evalModes T xs cs (maskModes T.dims.length mask)

def derivModes (ks : List Nat) : List BasisMode :=
  ks.map fun k => if k = 0 then .value else if k = 1 then .deriv1 else .derivK k

/-- `ndsplineeval_deriv(x, centers, derivatives)` -/
def ndsplineevalDeriv (T : Table α) (xs : List α) (cs : List Nat) (ks : List Nat) : α :=
  evalModes T xs cs (derivModes ks)

/-- rows of the value-plus-gradient evaluation (bspline_multi.h): every dimension's values and
derivatives come from `bspline_nonzero`; lane 0 uses values everywhere, lane `1+n` uses the
derivative row in dimension `n`. -/
def gradRows : List (Dim α) → List α → List Nat → (lane : Nat) → (n : Nat) → List (Nat × List α)
  | d :: ds, x :: xs, c :: cs, lane, n =>
    let vd := bsplineNonzero d.knots d.nknots x c d.order
    (d.stride, if lane = n + 1 then vd.2 else vd.1) :: gradRows ds xs cs lane (n + 1)
  | _, _, _, _, _ => []

/-- SIMD width constants of detail/simd.h (`PHOTOSPLINE_MAXDIM`); regenerated and checked in
`PsV.Generated` -/
def maxDimDefault : Nat := 8

/-- `ndsplineeval_gradient`: `none` = refused by exception (`ndim+1 > PHOTOSPLINE_MAXDIM`);
otherwise value followed by the `ndim` first partial derivatives. Each lane performs the scalar
walk's operations (`result[k] += basis_tree[k]*localbasis[k]*weights`). -/
def ndsplineevalGradient (maxDim : Nat) (T : Table α) (xs : List α) (cs : List Nat) : Option (List α) :=
  if T.dims.length + 1 > maxDim then none else
  some ((List.range (T.dims.length + 1)).map fun lane =>
    walk T.coef (gradRows T.dims xs cs lane 0) (A.rnd A.one) (startPos T.dims cs) (A.rnd A.zero))

/-- `operator()(x)`: zero when the lookup fails (`none` when the lookup would not terminate). -/
def callOp (T : Table α) (xs : List α) : Option α :=
  match searchCenters (T.dims.map Dim.axis) xs with
  | .reject => some A.zero
  | .nonterm => none
  | .ok cs => some (ndsplineeval T xs cs 0)

end PsV
