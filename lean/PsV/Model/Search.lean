/-!
# Model of `splinetable::searchcenters` (include/photospline/detail/bspline_eval.h)

Mathlib-free, executable.  Comparisons go through the `Cmp` class so the same
definitions run on order-isomorphic integer keys (driver), on `Option`-extended
keys (`none` = NaN: every comparison is `false`, exactly IEEE) and on any linear
order (theorems).
-/
namespace PsV

/-- Comparison primitives exactly as the C++ uses them on doubles. -/
class Cmp (α : Type) where
  lt : α → α → Bool
  le : α → α → Bool

/-- IEEE-style extension with an unordered element (`none` = NaN). -/
instance instCmpOption {α : Type} [Cmp α] : Cmp (Option α) where
  lt a b := match a, b with
    | some a, some b => Cmp.lt a b
    | _, _ => false
  le a b := match a, b with
    | some a, some b => Cmp.le a b
    | _, _ => false

instance : Cmp Int := ⟨fun a b => decide (a < b), fun a b => decide (a ≤ b)⟩

/-- Result of a lookup: `reject` is the C++ `return false`, `nonterm` means the
    do-while loop did not stop within the fuel (a hang in the real code). -/
inductive Res (β : Type) where
  | reject : Res β
  | ok : β → Res β
  | nonterm : Res β
deriving Repr, DecidableEq

/-- The do-while binary search
```
do { c = (max+min)/2; if (x < k[c]) max = c-1; else min = c+1; }
while (x < k[c] || x >= k[c+1]);
```
`none` when the fuel runs out. -/
def bsearch {α} [Cmp α] (k : Nat → α) (x : α) : (fuel min max : Nat) → Option Nat
  | 0, _, _ => none
  | fuel+1, min, max =>
    let c := (max + min) / 2
    let min' := if Cmp.lt x (k c) then min else c + 1
    let max' := if Cmp.lt x (k c) then c - 1 else max
    if Cmp.lt x (k c) || Cmp.le (k (c+1)) x then bsearch k x fuel min' max' else some c

/-- One dimension of `searchcenters`. -/
def searchAxis {α} [Cmp α] (order nknots : Nat) (k : Nat → α) (x : α) : Res Nat :=
  let naxes := nknots - order - 1
  -- if (!(x > knots[0] && x <= knots[nknots-1])) return false;
  if !(Cmp.lt (k 0) x && Cmp.le x (k (nknots-1))) then .reject
  else if Cmp.lt x (k order) then .ok order
  else if Cmp.le (k naxes) x then .ok (naxes - 1)
  else
    match bsearch k x nknots order (nknots - 2) with
    | none => .nonterm
    | some c => if c = naxes then .ok (c-1) else .ok c

structure Axis (α : Type) where
  order : Nat
  nknots : Nat
  knots : Nat → α

/-- All dimensions, in order; the first failing dimension decides. -/
def searchCenters {α} [Cmp α] : List (Axis α) → List α → Res (List Nat)
  | [], _ => .ok []
  | _ :: _, [] => .reject
  | a :: as, x :: xs =>
    match searchAxis a.order a.nknots a.knots x with
    | .reject => .reject
    | .nonterm => .nonterm
    | .ok c =>
      match searchCenters as xs with
      | .reject => .reject
      | .nonterm => .nonterm
      | .ok cs => .ok (c :: cs)

end PsV
