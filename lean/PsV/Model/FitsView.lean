import PsV.Model.FitsRead
import PsV.Model.Eval
/-!
# What lookup and evaluation see of a table object that `read_fits_core` filled in (C07 ∘ C04/C05)

`read_fits_core` stores, per dimension, `order[i]`, `nknots[i]`, `naxes[i]`, `strides[i]` and the knot vector in
`knots[i] = allocate(nknots[i] + 2*order[i]) + order[i]` (the `nknots[i]` values of the `KNOTSi` image at indices
`0 .. nknots[i]-1`; the `order[i]` cells on either side stay uninitialised), and the coefficient image in
`coefficients[0 .. strides[0]*naxes[0])`.  The evaluation model (`PsV/Model/Eval.lean`) works on a
`PsV.Table α` whose arrays are total functions `Int → α`.  The *view* below is that table: inside the arrays
the bit patterns read from the file (interpreted by `kn` / `cf` in whatever arithmetic `α` is), outside them
an arbitrary memory content `mem` / `memC` — so a statement "for all `mem`" is a statement about every content
of the padding cells and of every byte that is not part of the arrays.

Mathlib-free, executable.
-/
namespace PsV.Fits

/-- exponent all ones, mantissa non-zero -/
def nanBits (b : UInt64) : Bool :=
  b.toNat / 4503599627370496 % 2048 == 2047 && b.toNat % 4503599627370496 != 0

/-- comparison key of a double for the lookup model (`none` = NaN: every comparison false) -/
def keyOf (b : UInt64) : Option Int := if nanBits b then none else some (dkey b)

/-- dimension `i` as `searchcenters` sees it: `knots[i][j]` for `j < nknots[i]` is the value read from the file,
    anything else is whatever the memory holds (`memK i j`) -/
def Table.lookupAxis (t : Table) (memK : Nat → Nat → Option Int) (i : Nat) : Axis (Option Int) :=
  let k := t.knots.getD i []
  ⟨t.order.getD i 0, k.length, fun j => if j < k.length then keyOf (k.getD j 0) else memK i j⟩

def Table.lookupAxes (t : Table) (memK : Nat → Nat → Option Int) : List (Axis (Option Int)) :=
  (List.range t.ndim).map (t.lookupAxis memK)

/-- dimension `i` as the evaluators see it -/
def Table.evalDim {α : Type} (t : Table) (kn : UInt64 → α) (mem : Nat → Int → α) (i : Nat) : PsV.Dim α :=
  let k := t.knots.getD i []
  ⟨t.order.getD i 0, k.length, t.naxes.getD i 0, t.strides.getD i 0,
   fun j => if 0 ≤ j ∧ j < (k.length : Int) then kn (k.getD j.toNat 0) else mem i j⟩

def Table.evalDims {α : Type} (t : Table) (kn : UInt64 → α) (mem : Nat → Int → α) : List (PsV.Dim α) :=
  (List.range t.ndim).map (t.evalDim kn mem)

/-- the table object as the evaluators see it -/
def Table.evalView {α : Type} (t : Table) (kn : UInt64 → α) (cf : UInt32 → α) (mem : Nat → Int → α)
    (memC : Int → α) : PsV.Table α :=
  ⟨t.evalDims kn mem,
   fun j => if 0 ≤ j ∧ j < (t.coef.length : Int) then cf (t.coef.getD j.toNat 0) else memC j⟩

/-- the made-up extents with every index checked against the array it goes into (`none` = out of bounds) -/
def defaultExtentsChk (order : List Nat) (knots : List (List UInt64)) : Option (List UInt64) :=
  (List.range order.length).foldr (fun i acc =>
    match order[i]?, knots[i]? with
    | some o, some k =>
      match k[o]?, k[k.length - o - 1]?, acc with
      | some a, some b, some r => some (a :: b :: r)
      | _, _, _ => none
    | _, _ => none) (some [])

end PsV.Fits
