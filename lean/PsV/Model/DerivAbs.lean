import PsV.Model.Eval
/-!
# Magnitude majorant of the derivative evaluation (for the rounding envelope of C02)

`bspline_deriv_nonzero` forms every derivative basis value as a **difference**
`n·B_{i,n-1}/(t_{i+n}-t_i) − n·B_{i+1,n-1}/(t_{i+n+1}-t_{i+1})`; the rounding error of a difference is
proportional to the magnitudes of its two terms, not to the difference.  The definitions below are the
code's definitions with exactly that one change: the subtraction of the two terms (and the negation
of the single term of slot 0) is replaced by the addition of the terms.  Knot differences stay
differences (they are non-negative for non-decreasing knots).  Everything else — margin handling,
re-indexing, the coefficient-block walk — is shared with the model of the code.

`ndsplineevalAbs ⟨dims, |coef|⟩ x centers mask` = `Σ |coef| · Π_d (B or Babs)` is the majorant of
`C02_rounding_envelope_partial`; the driver evaluates this very definition in `Rat`.
-/
namespace PsV
open Arith
variable {α : Type} [A : Arith α]

/-- `derivMid` with the subtraction of the two terms replaced by their sum -/
def derivMidAbs (t : Int → α) (left : Int) (n : Nat) : (i : Nat) → (temp : α) → List α → List α
  | i, temp, [] =>
    [A.rnd (A.div (A.mul (A.ofNat n) temp) (A.sub (t (left + i)) (t (left + i - n))))]
  | i, temp, v :: vs =>
    let a := A.div (A.mul (A.ofNat n) temp) (A.sub (t (left + i)) (t (left + i - n)))
    A.rnd (A.add a (A.div (A.mul (A.ofNat n) v) (A.sub (t (left + i + 1)) (t (left + i + 1 - n)))))
      :: derivMidAbs t left n (i+1) v vs

/-- `derivCombine` without the negation of slot 0 and with `derivMidAbs` -/
def derivCombineAbs (t : Int → α) (left : Int) (n : Nat) (vals : List α) : List α :=
  match vals with
  | [] => []
  | v0 :: vs =>
    A.rnd (A.div (A.mul (A.ofNat n) v0) (A.sub (t (left + 1)) (t (left + 1 - n))))
      :: derivMidAbs t left n 1 v0 vs

/-- `bsplineDerivNonzero` with `derivCombineAbs`: slot `i` holds
`n·(B_{i,n-1}/(t_{i+n}-t_i) + B_{i+1,n-1}/(t_{i+n+1}-t_{i+1}))` -/
def bsplineDerivNonzeroAbs (t : Int → α) (nknots : Nat) (x : α) (left : Int) (n : Nat) : List α :=
  if n = 0 then [A.rnd A.zero] else
  let l := marginShift t nknots x left n
  rearrange nknots l n (derivCombineAbs t l n (bsplvb t x l n))

/-- majorant row of one dimension: the value row itself (its entries are non-negative), the
absolute derivative row for a single derivative; the recursive arbitrary-order routine (`derivK`) is
not covered by the rounding theorem and keeps its own row -/
def localRowAbs (d : Dim α) (x : α) (c : Nat) : BasisMode → List α
  | .deriv1 => bsplineDerivNonzeroAbs d.knots d.nknots x c d.order
  | m => localRow d x c m

def rowsAbs : List (Dim α) → List α → List Nat → List BasisMode → List (Nat × List α)
  | d :: ds, x :: xs, c :: cs, m :: ms => (d.stride, localRowAbs d x c m) :: rowsAbs ds xs cs ms
  | _, _, _, _ => []

/-- the block walk of `evalModes` over the majorant rows -/
def evalModesAbs (T : Table α) (xs : List α) (cs : List Nat) (ms : List BasisMode) : α :=
  walk T.coef (rowsAbs T.dims xs cs ms) (A.rnd A.one) (startPos T.dims cs) (A.rnd A.zero)

/-- majorant of `ndsplineeval T xs cs mask` when applied to the table of coefficient magnitudes -/
def ndsplineevalAbs (T : Table α) (xs : List α) (cs : List Nat) (mask : Nat) : α :=
  evalModesAbs T xs cs (maskModes T.dims.length mask)

/-- derivative bitmask a gradient lane corresponds to: lane 0 = value, lane `1+d` = `1<<d` -/
def laneMask : Nat → Nat
  | 0 => 0
  | l+1 => 2 ^ l

end PsV
