/-!
# Control flow of `write_fits`, `write_fits_mem`, `write_fits_core` and the C wrappers (C08)

A write is a sequence of cfitsio calls ("steps").  Each step returns a status; the environment
`env : Nat → Bool` says, for the i-th call actually made, whether it succeeded.  The model returns the
reported outcome together with the trace of calls made and their statuses — exactly what the harness
observes by interposing the cfitsio entry points (`harness/c08_harness.cpp`).

Modelled: the code as repaired by `fixes/C08-1.diff` + `fixes/C08-2.diff` + `fixes/C08-3.diff` (`writeFits`,
`writeFitsMem`: explicit checked close, checked `fits_create_memfile`, header keys written before the coefficient
data), the code as found (`writeFitsOld`, `writeFitsMemOld`), where flush/close happen in a scope guard whose
status is only printed and the coefficient data are written before the header keys, and the intermediate state
without `C08-3` (`writeFitsPre3`, `writeFitsMemPre3`).
Mathlib-free, executable.
-/
namespace PsV.C08

/-- cfitsio entry points used by the writer (short cfitsio names), plus libc `remove`. -/
inductive Step
  | init | imem | crim | ppx | pky | uky | clos | delt | remove
  deriving DecidableEq, Repr, Inhabited

def Step.name : Step → String
  | .init => "init" | .imem => "imem" | .crim => "crim" | .ppx => "ppx" | .pky => "pky"
  | .uky => "uky" | .clos => "clos" | .delt => "delt" | .remove => "remove"

/-- What `write_fits_core` looks at to decide which calls to make. -/
structure Shape where
  ndim : Nat
  hasPeriods : Bool
  naux : Nat
  hasExtents : Bool
  deriving Repr

/-- `write_fits_core`, in order (as repaired by `fixes/C08-3.diff`): create the coefficient image, `TYPE`, `ORDERn`,
    `PERIODn` (if the table has periods), aux keys, write the coefficients, one image HDU per knot vector (create,
    `EXTNAME`, write), extents (if present).  All keys of the primary header are written before any pixel data, so
    the header never has to grow once data follow it. -/
def coreSteps (s : Shape) : List Step :=
  [.crim, .pky] ++ List.replicate s.ndim .pky
    ++ (if s.hasPeriods then List.replicate s.ndim .pky else [])
    ++ List.replicate s.naux .pky
    ++ [.ppx]
    ++ (List.replicate s.ndim [Step.crim, .uky, .ppx]).flatten
    ++ (if s.hasExtents then [.crim, .uky, .ppx] else [])

/-- `write_fits_core` as found: the coefficients are written right after the image is created, the keys afterwards
    (a primary header of more than 35 cards then makes cfitsio insert a block in front of data already written). -/
def coreStepsDataFirst (s : Shape) : List Step :=
  [.crim, .ppx, .pky] ++ List.replicate s.ndim .pky
    ++ (if s.hasPeriods then List.replicate s.ndim .pky else [])
    ++ List.replicate s.naux .pky
    ++ (List.replicate s.ndim [Step.crim, .uky, .ppx]).flatten
    ++ (if s.hasExtents then [.crim, .uky, .ppx] else [])

abbrev Env := Nat → Bool

inductive Outcome | success | failure
  deriving DecidableEq, Repr

structure Result where
  outcome : Outcome
  trace : List (Step × Bool)
  deriving Repr

/-- `write_fits_core`: every call's status is checked; the first failure throws.  `i` = index of the next call. -/
def runCore (env : Env) : List Step → Nat → Bool × List (Step × Bool)
  | [], _ => (true, [])
  | s :: rest, i =>
    if env i then
      let r := runCore env rest (i+1)
      (r.1, (s, true) :: r.2)
    else (false, [(s, false)])

/-- `write_fits` after the repair, around a given call sequence of `write_fits_core`: create; core; on an exception
    the guard deletes the file (status ignored — we are already failing); otherwise close explicitly, and a failing
    close removes the file and throws. -/
def writeFitsOn (steps : List Step) (env : Env) : Result :=
  if !env 0 then ⟨.failure, [(.init, false)]⟩ else
  let r := runCore env steps 1
  let n := 1 + r.2.length
  if r.1 then
    if env n then ⟨.success, (.init, true) :: r.2 ++ [(.clos, true)]⟩
    else ⟨.failure, (.init, true) :: r.2 ++ [(.clos, false), (.remove, env (n+1))]⟩
  else ⟨.failure, (.init, true) :: r.2 ++ [(.delt, env n)]⟩

def writeFits (sh : Shape) (env : Env) : Result := writeFitsOn (coreSteps sh) env

/-- with `C08-1`/`C08-2` but without `C08-3` -/
def writeFitsPre3 (sh : Shape) (env : Env) : Result := writeFitsOn (coreStepsDataFirst sh) env

/-- `write_fits` as found: the guard closes the file on every path and only prints the status. -/
def writeFitsOld (sh : Shape) (env : Env) : Result :=
  if !env 0 then ⟨.failure, [(.init, false)]⟩ else
  let r := runCore env (coreStepsDataFirst sh) 1
  let n := 1 + r.2.length
  ⟨if r.1 then .success else .failure, (.init, true) :: r.2 ++ [(.clos, env n)]⟩

/-- `write_fits_mem` after the repair (`C08-2`: the status of `fits_create_memfile` is checked). -/
def writeFitsMemOn (steps : List Step) (env : Env) : Result :=
  if !env 0 then ⟨.failure, [(.imem, false)]⟩ else
  let r := runCore env steps 1
  let n := 1 + r.2.length
  if r.1 then
    ⟨if env n then .success else .failure, (.imem, true) :: r.2 ++ [(.clos, env n)]⟩
  else ⟨.failure, (.imem, true) :: r.2 ++ [(.clos, env n)]⟩

def writeFitsMem (sh : Shape) (env : Env) : Result := writeFitsMemOn (coreSteps sh) env

def writeFitsMemPre3 (sh : Shape) (env : Env) : Result := writeFitsMemOn (coreStepsDataFirst sh) env

/-- `write_fits_mem` as found, for a successful `fits_create_memfile` (when that call fails the code as found
    passes a null handle on and crashes; the model has no outcome for a crash, so `none`). -/
def writeFitsMemOld (sh : Shape) (env : Env) : Option Result :=
  if !env 0 then none else
  let r := runCore env (coreStepsDataFirst sh) 1
  let n := 1 + r.2.length
  some ⟨if r.1 then .success else .failure, (.imem, true) :: r.2 ++ [(.clos, env n)]⟩

/-- `writesplinefitstable` / `writesplinefitstable_mem`: null arguments → 1 without any call; exception → 1. -/
def cWrapper (argsOk : Bool) (w : Result) : Nat × List (Step × Bool) :=
  if !argsOk then (1, []) else
  match w.outcome with
  | .success => (0, w.trace)
  | .failure => (1, w.trace)

/-- All calls of a complete successful write, in order. -/
def fullSteps (first : Step) (sh : Shape) : List Step := first :: coreSteps sh ++ [.clos]

end PsV.C08
