/-!
# Model of `splinetable::fit` (include/photospline/detail/fit.h) as far as C13 is concerned

* `fitChecks` — the sanity-check block in source order, each check with its error kind;
* `fitBody`   — the *index arithmetic* of everything that follows (the table set-up in `fit`, `add_penalty_term` →
  `calc_penalty` → `divided_diffs` in src/fitter/glam.c, `glamfit_complex` → `bsplinebasis` → `bspline` in
  src/fitter/splineutil.c) with **checked reads**: every array access is `rd site len idx`, which faults unless
  `idx < len`; every variable-length stack array is `vla site n`, which faults unless `0 < n` (what UBSan's
  `vla-bound` reports).  Values are not modelled (they are numerics), only which cells are touched.
* `fit`, `cGlamfit` — checks, then mutation, then the (external) numerical result; the C wrapper.

The code exists in two states, selected by `Cfg`: `asIs` (upstream) and `repaired` (with fixes/C13-1..6 applied).
Mathlib-free, executable: `psvdriver C13` runs exactly these definitions.

Integer widths: `nknots-order-1` and `nsplines-porder` are `uint64_t` subtractions and are modelled with wrap-around
(`wsub`), because the defects live there.  Products (`npts*nsplines`, …) and the `int` parameters of `bsplinebasis` /
`divided_diffs` are modelled in `Nat` (no truncation): sizes are assumed to stay below 2^31.
-/
namespace PsV.Fit

/-- Error kinds of the `std::logic_error`s thrown by the sanity block (`glam` = the `std::runtime_error("GLAM fit failed")`
    after the numerical solve). -/
inductive Err where
  | weights | noDims | noData | indexRange (d : Nat) | ncoords | coordLen (d : Nat) | norders | nknotvecs
  | unsorted (d : Nat) | fewKnots (d : Nat) | nsmooth | npenalty | penaltyOrder (d : Nat) | monodim | glam
deriving Repr, DecidableEq

/-- Which array an access goes to. -/
inductive Site where
  | maxElement   -- `*std::max_element(data.i[i], data.i[i]+data.rows)`
  | dataI | ranges | coordsVec | ordersVec | knotsVec | smoothing | penalty   -- the argument containers themselves
  | tblOrder | strides | naxes       -- the table's freshly allocated arrays (length ndim)
  | knots        -- a knot vector, valid indices `[0, nknots)`
  | coordsX      -- `x[row]` in bsplinebasis: the coordinate vector of that dimension
  | basisX       -- the dense basis matrix, `npts*nsplines` cells
  | ddA | ddB | ddOut   -- the stack arrays `a`, `b` and the `out` parameter of divided_diffs
  | divd | trip | nsplines   -- calc_penalty: `divd[porder+1]`, the triplet arrays, `nsplines[ndim]`
  | coef         -- the coefficient array in the monotone tail of glamfit_complex
deriving Repr, DecidableEq

/-- A quantity that the C code keeps in an integer type narrower than its mathematical range (used by the width-aware
    model `PsV.Fit.fitBodyW` in Model/FitEntry.lean). -/
inductive Width where
  | ndimU32      -- `ndim = data.ndim`: `size_t` → `uint32_t` (and the `uint32_t` loop counters of `fit`)
  | orderInt     -- `uint32_t order[i]` passed as `int order` to bsplinebasis / divided_diffs
  | porderInt    -- `uint32_t porder` passed as `int porder` to divided_diffs
  | rowInt       -- `long row` of calc_penalty passed as `int j` to divided_diffs
  | vlaInt       -- `order+1` evaluated in `int` for `double a[order+1], b[order+1]`
  | knotIdxInt   -- the `int` index expressions `j+order+1`, `j+porder`, `i+n+1` into a knot vector
  | basisCol | basisRow | basisK   -- the `int` loop counters `col`, `row`, `k` of bsplinebasis
  | stride1 | stride2 | strideMul  -- the `long` products `stride1`, `stride2`, `i*stride2` in the tail of glamfit_complex
deriving Repr, DecidableEq

inductive Fault where
  | oob (site : Site) (len idx : Nat)     -- access outside `[0,len)`
  | vlaBound (site : Site) (n : Nat)      -- variable-length array declared with a non-positive bound
  | width (w : Width) (v : Nat)           -- value `v` does not fit the signed type that holds it: signed overflow (UB) or
                                          -- an out-of-range conversion (implementation-defined); the model stops there
deriving Repr, DecidableEq

/-- Outcome of a block of statements: fell through, threw, or touched memory it must not touch. -/
inductive Out where
  | ok | reject (e : Err) | fault (f : Fault)
deriving Repr, DecidableEq

def Out.andThen : Out → Out → Out
  | .ok, y => y
  | x, _ => x

def Out.isFault : Out → Bool
  | .fault _ => true
  | _ => false

/-- Statements in sequence: the first one that does not fall through decides. -/
def seqAll : List Out → Out
  | [] => .ok
  | x :: xs => x.andThen (seqAll xs)

/-- `for (i = 0; i < n; i++) f(i)` -/
def forN : Nat → (Nat → Out) → Out
  | 0, _ => .ok
  | n+1, f => (forN n f).andThen (f n)

def rd (s : Site) (len i : Nat) : Out := if i < len then .ok else .fault (.oob s len i)
def vla (s : Site) (n : Nat) : Out := if 0 < n then .ok else .fault (.vlaBound s n)
def throwIf (c : Bool) (e : Err) : Out := if c then .reject e else .ok
/- `macro_inline`: the compiled driver must not evaluate a skipped block (a skipped loop may be astronomically long) -/
@[macro_inline] def Out.when (c : Bool) (x : Out) : Out := if c then x else .ok

def U64 : Nat := 2^64
def U32 : Nat := 2^32
/-- unsigned subtraction with wrap-around (operands below the modulus) -/
def wsubM (m a b : Nat) : Nat := if b ≤ a then a - b else m - (b - a)
def wsub (a b : Nat) : Nat := wsubM U64 a b
/-- `nknots - order - 1` in `uint64_t` -/
def nsplinesOf (nk o : Nat) : Nat := wsub (wsub nk o) 1

def noMonodim : Nat := 2^32 - 1

/-- `struct ndsparse`: `rows`, `ndim`, `ranges[ndim]`, `i[ndim][rows]` (the values `x` play no role here). -/
structure Data where
  rows : Nat
  ndim : Nat
  ranges : List Nat
  idx : List (List Nat)
deriving Repr, DecidableEq

/-- The C struct is what `ndsparse_allocate` makes it: array lengths agree with `rows`/`ndim`.  (Cannot be checked by
    `fit`: C arrays carry no length.) -/
structure Data.WF (d : Data) : Prop where
  ranges_len : d.ranges.length = d.ndim
  idx_len : d.idx.length = d.ndim
  col_len : ∀ c ∈ d.idx, c.length = d.rows

/-- Arguments of `fit`.  Knots are order-isomorphic integer keys of the doubles, `none` = NaN; of the coordinate
    vectors only the lengths matter, of the smoothing strengths only whether they are non-zero
    (`add_penalty_term` returns early for `scale == 0.0`). -/
structure Args where
  data : Data
  nweights : Nat
  coordLens : List Nat
  orders : List Nat
  knots : List (List (Option Int))
  smoothNZ : List Bool
  penalty : List Nat
  monodim : Nat
deriving Repr, DecidableEq

/-- Which checks / array sizes the code has. -/
structure Cfg where
  chkDims : Bool      -- fixes/C13-6: data.ndim==0
  chkRows : Bool      -- fixes/C13-5: data.rows==0
  chkCoordLen : Bool  -- fixes/C13-1
  chkKnots : Bool     -- fixes/C13-2
  chkPenalty : Bool   -- fixes/C13-3
  vlaExtra : Nat      -- fixes/C13-4: `double a[order+vlaExtra], b[order+vlaExtra]` in divided_diffs
deriving Repr, DecidableEq

def asIs : Cfg := ⟨false, false, false, false, false, 0⟩
def repaired : Cfg := ⟨true, true, true, true, true, 1⟩

namespace Args
def idxCol (a : Args) (i : Nat) : List Nat := a.data.idx.getD i []
def rangeOf (a : Args) (i : Nat) : Nat := a.data.ranges.getD i 0
def coordLen (a : Args) (i : Nat) : Nat := a.coordLens.getD i 0
def ordAt (a : Args) (i : Nat) : Nat := a.orders.getD i 0
def knotsAt (a : Args) (i : Nat) : List (Option Int) := a.knots.getD i []
def nkAt (a : Args) (i : Nat) : Nat := (a.knotsAt i).length
/-- `(penaltyOrder.size()>1 ? penaltyOrder[i] : penaltyOrder[0])` -/
def penIdx (a : Args) (i : Nat) : Nat := if 1 < a.penalty.length then i else 0
def penAt (a : Args) (i : Nat) : Nat := a.penalty.getD (a.penIdx i) 0
def smoothIdx (a : Args) (i : Nat) : Nat := if 1 < a.smoothNZ.length then i else 0
def smoothAt (a : Args) (i : Nat) : Bool := a.smoothNZ.getD (a.smoothIdx i) false
def nsplAt (a : Args) (i : Nat) : Nat := nsplinesOf (a.nkAt i) (a.ordAt i)
end Args

/-- value of `*std::max_element` on a non-empty range of unsigned ints -/
def maxIdx (l : List Nat) : Nat := l.foldl max 0

/-- IEEE `<` on keys: false as soon as a NaN is involved -/
def keyLt : Option Int → Option Int → Bool
  | some x, some y => decide (x < y)
  | _, _ => false

/-- `std::is_sorted(begin,end)`: no element is `<` its predecessor -/
def sortedB : List (Option Int) → Bool
  | x :: y :: rest => !(keyLt y x) && sortedB (y :: rest)
  | _ => true

/-- The sanity-check block of `fit`, in source order. -/
def fitChecks (c : Cfg) (a : Args) : Out :=
  let nd := a.data.ndim
  seqAll [
    throwIf (a.data.rows != a.nweights) .weights,
    Out.when c.chkDims (throwIf (nd == 0) .noDims),
    Out.when c.chkRows (throwIf (a.data.rows == 0) .noData),
    forN nd fun i => seqAll [
      rd .dataI a.data.idx.length i,
      -- for an empty range max_element returns `last`, and the `*` reads one element past a zero-length array
      rd .maxElement (a.idxCol i).length 0,
      rd .ranges a.data.ranges.length i,
      throwIf (decide (a.rangeOf i ≤ maxIdx (a.idxCol i))) (.indexRange i)],
    throwIf (a.coordLens.length != nd) .ncoords,
    Out.when c.chkCoordLen (forN nd fun i => seqAll [
      rd .coordsVec a.coordLens.length i,
      throwIf (decide (a.coordLen i < a.rangeOf i)) (.coordLen i)]),
    throwIf (a.orders.length != nd) .norders,
    throwIf (a.knots.length != nd) .nknotvecs,
    forN nd fun i => seqAll [
      rd .knotsVec a.knots.length i,
      throwIf (!(sortedB (a.knotsAt i))) (.unsorted i),
      Out.when c.chkKnots (seqAll [
        rd .ordersVec a.orders.length i,
        throwIf (decide (a.nkAt i < 2 * a.ordAt i + 2)) (.fewKnots i)])],
    throwIf (a.smoothNZ.length != nd && a.smoothNZ.length != 1) .nsmooth,
    throwIf (a.penalty.length != nd && a.penalty.length != 1) .npenalty,
    Out.when c.chkPenalty (forN nd fun i => seqAll [
      rd .penalty a.penalty.length (a.penIdx i),
      rd .ordersVec a.orders.length i,
      throwIf (decide (a.ordAt i < a.penAt i)) (.penaltyOrder i)]),
    throwIf (a.monodim != noMonodim && decide (nd ≤ a.monodim)) .monodim]

/-! ## What follows the checks -/

/-- `static double bspline(knots, x, i, n)` of splineutil.c: the knot reads of the Cox–de Boor recursion. -/
def bsplineReads (nk : Nat) : (n i : Nat) → Out
  | 0, i => seqAll [rd .knots nk i, rd .knots nk (i+1)]
  | n+1, i => seqAll [
      rd .knots nk i, bsplineReads nk n i, rd .knots nk (i+n+1), rd .knots nk i,
      rd .knots nk (i+n+2), bsplineReads nk n (i+1), rd .knots nk (i+n+2), rd .knots nk (i+1)]

/-- `bsplinebasis(knots, nknots, x, npts, order, c)`: fills `basis->x[k]`, `k = col*npts+row`, with
    `bspline(knots, x[row], col, order)`; `xlen` is the real length of the coordinate vector behind `x`. -/
def bsplineBasis (nk npts xlen order : Nat) : Out :=
  let ns := nsplinesOf nk order
  forN ns fun col => forN npts fun row => seqAll [
    rd .coordsX xlen row,
    bsplineReads nk order col,
    rd .basisX (npts * ns) (col * npts + row)]

/-- `divided_diffs(order, porder, j, knots, out)`; `vlaLen` is the declared length of `a` and `b`, `outLen` the
    length of the array `out` points to. -/
def dividedDiffs (vlaLen nk order : Nat) : (porder j outLen : Nat) → Out
  | 0, _, outLen => seqAll [vla .ddA vlaLen, vla .ddB vlaLen, rd .ddOut outLen 0]
  | p+1, j, outLen => seqAll [
      vla .ddA vlaLen, vla .ddB vlaLen,
      dividedDiffs vlaLen nk order p (j+1) vlaLen,      -- into a
      dividedDiffs vlaLen nk order p j vlaLen,          -- into b
      rd .knots nk (j+order+1), rd .knots nk (j+p+1),   -- delta
      rd .ddB vlaLen 0, rd .ddOut outLen 0,             -- out[0] = -b[0]/delta
      rd .ddA vlaLen p, rd .ddOut outLen (p+1),         -- out[porder] = a[porder-1]/delta
      forN p fun i' => seqAll [                          -- i = i'+1 = 1 .. porder-1
        rd .ddA vlaLen i', rd .ddB vlaLen (i'+1), rd .ddOut outLen (i'+1)]]

/-- `calc_penalty(nsplines, knots, ndim, dim, order, porder, mono, c)` -/
def calcPenalty (vlaExtra ndim : Nat) (nspl : List Nat) (dim nk order porder : Nat) : Out :=
  let nrows := wsub (nspl.getD dim 0) porder
  seqAll [
    vla .divd ((porder + 1) % U32),                      -- double divd[porder + 1]  (uint32 arithmetic)
    rd .nsplines nspl.length dim,
    forN nrows fun row => seqAll [
      dividedDiffs (order + vlaExtra) nk order porder row (porder + 1),
      forN (porder + 1) fun k => seqAll [               -- col = row + k
        rd .trip (nrows * (porder + 1)) (row * (porder + 1) + k),
        rd .divd (porder + 1) k]],
    forN ndim fun i => rd .nsplines nspl.length i]       -- kronecker products

/-- `Π l` as the C loops accumulate it -/
def prodL (l : List Nat) : Nat := l.foldl (· * ·) 1

/-- The tail of `glamfit_complex` for a monotone dimension `m`: cumulative sums of the coefficients along `m`,
```
for (i < stride1) for (j = 1; j < naxes[m]; j++) for (k < stride2)
  out[i*stride2*naxes[m] + j*stride2 + k] += out[i*stride2*naxes[m] + (j-1)*stride2 + k];
```
`stride1 = Π_{i<m} naxes[i]`, `stride2 = Π_{i>m} naxes[i]`; `out` has `Π naxes` cells (`coefficients` in `fit`). -/
def monoTail (naxes : List Nat) (m : Nat) : Out :=
  let s1 := prodL (naxes.take m)
  let s2 := prodL (naxes.drop (m+1))
  let nm := naxes.getD m 0
  let nc := prodL naxes
  seqAll [
    rd .naxes naxes.length m,
    forN s1 fun i => forN (nm - 1) fun j' => forN s2 fun k => seqAll [     -- j = j'+1
      rd .coef nc (i*s2*nm + (j'+1)*s2 + k), rd .coef nc (i*s2*nm + j'*s2 + k)]]

/-- `wsub` in `uint32_t` -/
def wsub32 (a b : Nat) : Nat := wsubM U32 a b

/-- Everything in `fit` after the sanity block, as index arithmetic. -/
def fitBody (c : Cfg) (a : Args) : Out :=
  let nd := a.data.ndim
  let nspl := (List.range nd).map a.nsplAt
  seqAll [
    forN a.orders.length fun j => rd .tblOrder nd j,     -- std::copy(splineOrder.begin(),splineOrder.end(),order)
    forN nd fun i => rd .knotsVec a.knots.length i,      -- nknots[i]=knots[i].size()
    forN nd fun i => rd .ordersVec a.orders.length i,    -- naxes[i]=nknots[i]-order[i]-1 reads order[i], set for i<orders.size()
    rd .strides nd (wsub32 nd 1),                        -- strides[ndim-1]=1
    forN (wsub32 nd 1) fun i' => seqAll [                -- for(i=ndim-1;i>0;i--) strides[i-1]=strides[i]*naxes[i]
      rd .strides nd i', rd .strides nd (i'+1), rd .naxes nd (i'+1)],
    rd .strides nd 0, rd .naxes nd 0,                    -- ncoeffs=strides[0]*naxes[0]
    forN nd fun i => rd .coordsVec a.coordLens.length i, -- dummy_coords[i]=coords[i].data()
    forN nd fun i => seqAll [                            -- extents
      rd .knots (a.nkAt i) (a.ordAt i),
      rd .knots (a.nkAt i) (nsplinesOf (a.nkAt i) (a.ordAt i))],
    forN nd fun i => seqAll [                            -- add_penalty_term
      rd .penalty a.penalty.length (a.penIdx i),
      rd .smoothing a.smoothNZ.length (a.smoothIdx i),
      Out.when (a.smoothAt i) (calcPenalty c.vlaExtra nd nspl i (a.nkAt i) (a.ordAt i) (a.penAt i))],
    forN nd fun i => seqAll [                            -- glamfit_complex: bases[i] = bsplinebasis(...)
      rd .ranges a.data.ranges.length i,
      bsplineBasis (a.nkAt i) (a.rangeOf i) (a.coordLen i) (a.ordAt i)],
    Out.when (a.monodim != noMonodim) (monoTail nspl a.monodim)]   -- t-spline → b-spline coefficients

/-! ## The table and the two entry points -/

/-- `strides[i] = Π_{j>i} naxes[j]` -/
def stridesOf (naxes : List Nat) : List Nat :=
  (List.range naxes.length).map fun i => (naxes.drop (i+1)).foldl (· * ·) 1

/-- The fields `fit` writes before calling the solver. -/
structure Shape where
  ndim : Nat
  orders : List Nat
  nknots : List Nat
  naxes : List Nat
  strides : List Nat
  extents : List (Option Int × Option Int)
deriving Repr, DecidableEq

def fitShape (a : Args) : Shape :=
  let nd := a.data.ndim
  let naxes := (List.range nd).map a.nsplAt
  { ndim := nd
    orders := (List.range nd).map a.ordAt
    nknots := (List.range nd).map a.nkAt
    naxes := naxes
    strides := stridesOf naxes
    extents := (List.range nd).map fun i =>
      ((a.knotsAt i).getD (a.ordAt i) none, (a.knotsAt i).getD (a.nsplAt i) none) }

/-- State of the table as far as `fit` is concerned: `none` = empty, `some s` = populated. -/
abbrev Tbl := Option Shape

/-- `splinetable::fit`: checks, then mutation, then the numerical solve (`glamOk` = `glamfit_complex` returned 0). -/
def fit (c : Cfg) (a : Args) (glamOk : Bool) (t : Tbl) : Out × Tbl :=
  match fitChecks c a with
  | .ok =>
    match fitBody c a with
    | .ok => (if glamOk then .ok else .reject .glam, some (fitShape a))
    | o => (o, some (fitShape a))
  | o => (o, t)

/-- What the C caller hands to `splinetable_glamfit`: raw arrays (no lengths except `nknots`). -/
structure CArgs where
  data : Data
  orders : List Nat
  knots : List (List (Option Int))
  smoothNZ : List Bool
  penalty : List Nat
  monodim : Nat
deriving Repr, DecidableEq

/-- The `array_view`s the wrapper builds: every length is *defined* from `data`. -/
def CArgs.view (ca : CArgs) : Args :=
  let nd := ca.data.ndim
  { data := ca.data, nweights := ca.data.rows,
    coordLens := (List.range nd).map fun i => ca.data.ranges.getD i 0,
    orders := ca.orders.take nd, knots := ca.knots.take nd, smoothNZ := ca.smoothNZ.take nd,
    penalty := ca.penalty.take nd, monodim := ca.monodim }

/-- `int splinetable_glamfit(table, data, …)` -/
def cGlamfit (c : Cfg) (tableNull dataNull : Bool) (ca : CArgs) (glamOk : Bool) (t : Tbl) : Nat × Tbl :=
  if tableNull || dataNull then (1, t)
  else match fit c ca.view glamOk t with
    | (.ok, t') => (0, t')
    | (_, t') => (1, t')

/-! ## What the code after the checks needs -/

structure Needs (a : Args) : Prop where
  ndim_pos : 1 ≤ a.data.ndim
  rows_pos : 1 ≤ a.data.rows
  nweights : a.nweights = a.data.rows
  idx_lt : ∀ i, i < a.data.ndim → ∀ v ∈ a.idxCol i, v < a.rangeOf i
  ncoords : a.coordLens.length = a.data.ndim
  coord_len : ∀ i, i < a.data.ndim → a.rangeOf i ≤ a.coordLen i
  norders : a.orders.length = a.data.ndim
  nknotvecs : a.knots.length = a.data.ndim
  sorted : ∀ i, i < a.data.ndim → sortedB (a.knotsAt i) = true
  knots_len : ∀ i, i < a.data.ndim → 2 * a.ordAt i + 2 ≤ a.nkAt i
  nsmooth : a.smoothNZ.length = a.data.ndim ∨ a.smoothNZ.length = 1
  npenalty : a.penalty.length = a.data.ndim ∨ a.penalty.length = 1
  pen_le : ∀ i, i < a.data.ndim → a.penAt i ≤ a.ordAt i
  monodim : a.monodim = noMonodim ∨ a.monodim < a.data.ndim

end PsV.Fit
