import PsV.Model.CApi
/-!
# C18 — the C interface as a state machine over C++ objects, and the C++ program it must agree with

Mathlib-free and executable (the driver runs `cstep`).  Three parts.

* **Whole wrapper bodies** (`execTrace`): a wrapper body makes several calls into the C++ library one after the other;
  `wrapRet w c o` (Model/CApi.lean) is the result "when call `c` has outcome `o`, all earlier calls having succeeded".
  `execTrace` runs a whole sequence of (call, outcome) pairs through the record: the first call at which the wrapper
  returns (a `throw`, a checked/returned failure, a returned value) decides.
* **The C machine** (`cstep`): handles are pointers (`HPtr`: NULL / pointer to a live object *with its state* /
  dangling), result slots hold grid-evaluation results, the ledger counts heap objects.  What happens to the pointers is
  driven by the generated `LifeFacts`, what the C caller sees by the generated wrapper records (`wrapRet`, `guardRet`),
  what the C++ operations do by an arbitrary semantics `Sem` (any object type, any argument type, any behaviour inside
  the classes `canThrow` / `canFail`).
* **The C++ twin** (`tstep`): the program a C++ caller writes for the same calls with `Table* W[h]` — `new`, `delete`,
  member calls — with no handles, no ledger, no return codes: the specification the C machine is proved to refine
  (Proofs/CApiRefine.lean, Props/C18.lean).
-/
namespace PsV.CApi

/-! ## Whole wrapper bodies -/

/-- does the wrapper leave at this call when the call has outcome `o`? -/
def Call.returnsOn (c : Call) : Outcome → Bool
  | .throws => true                                        -- into the handler, or out of the function
  | .fail => c.disp == .returned || c.disp == .returnedNegated || c.disp == .checked
  | .ok => c.disp == .returned || c.disp == .returnedNegated

/-- the C-visible result of a wrapper body that makes the listed calls, in order, with the listed outcomes -/
def execTrace (w : Wrapper) : List (Call × Outcome) → CRet
  | [] => fallThrough w
  | (c, o) :: rest => if c.returnsOn o then wrapRet w c o else execTrace w rest

/-- the outcome of the C++ side of such a body: that of the call at which it stops, `ok` if it runs through -/
def traceOutcome : List (Call × Outcome) → Outcome
  | [] => .ok
  | (c, o) :: rest => if c.returnsOn o || o != .ok then o else traceOutcome rest

/-- the trace ends in a `return` of the wrapper, or runs into a final statement that reports success -/
def completes (w : Wrapper) (tr : List (Call × Outcome)) : Bool :=
  tr.any (fun p => p.1.returnsOn p.2) || w.finalSucceeds || w.ret == .void || w.ret == .value

/-- a failure reported through the result of a call is never dropped: the wrapper returns there -/
def failReturns (w : Wrapper) : Bool := w.calls.all fun c => !canFail c.op || c.returnsOn .fail

/-- a wrapper whose final statement is not a success `return` ends in a call whose result it returns -/
def finalOk (w : Wrapper) : Bool :=
  w.finalSucceeds || w.ret == .void || w.ret == .value ||
  match w.calls.getLast? with
  | some c => c.returnsOn .ok && c.returnsOn .fail
  | none => false

def wrapperOk2 (w : Wrapper) : Bool := wrapperOk w && failReturns w && finalOk w

/-- the call whose outcome decides: the `sel`-th call of the wrapper's principal operation
    (the last operation that is not a helper; getters count only when nothing else is called) -/
def principal (w : Wrapper) (sel : Nat) : Option Call :=
  let cs := w.calls.filter fun c => c.op != .other && c.op != .wrapperFree
  let cs' := if cs.any (·.op != .getter) then cs.filter (·.op != .getter) else cs
  match cs'.getLast? with
  | none => none
  | some l =>
    let same := cs'.filter (·.op == l.op)
    match same[sel]? with
    | some c => some c
    | none => some l

def lookup (T : List Wrapper) (n : String) : Option Wrapper := T.find? (·.name == n)

/-- does the wrapper make a call that can throw (so: can it request heap storage at all)? -/
def Wrapper.mayThrow (w : Wrapper) : Bool := w.calls.any fun c => canThrow c.op

/-- result when an allocation of the wrapper's own (`new`, a helper container, a temporary string) fails -/
def oomRet (w : Wrapper) : CRet :=
  match w.calls.find? (fun c => canThrow c.op) with
  | some c => wrapRet w c .throws
  | none => fallThrough w

/-- result of wrapper `w` when its principal call (selected by `sel`) has outcome `o` -/
def principalRet (w : Wrapper) (sel : Nat) (o : Outcome) : CRet :=
  match principal w sel with
  | some c => wrapRet w c o
  | none => fallThrough w

/-- … looked up by name in the table (`escapes` when the table has no such wrapper) -/
def lifeRet (T : List Wrapper) (n : String) (o : Outcome) : CRet :=
  match lookup T n with
  | some w => principalRet w 0 o
  | none => .escapes

def lifeOomRet (T : List Wrapper) (n : String) : CRet :=
  match lookup T n with
  | some w => oomRet w
  | none => .escapes

def lifeGuardRet (T : List Wrapper) (n : String) : CRet :=
  match lookup T n with
  | some w => guardRet w
  | none => .escapes

/-- the wrappers that move pointers around; every other wrapper only calls a member function of the object -/
def lifeNames : List String :=
  ["splinetable_init", "splinetable_free", "readsplinefitstable", "readsplinefitstable_mem", "splinetable_grideval",
   "ndsparse_destroy", "writesplinefitstable_mem"]

/-! ## Arbitrary C++ semantics -/

/-- What the C++ library does, left open: `Obj` = state of a `photospline::splinetable<>` object, `Arg` = everything
    else a call depends on (arguments, file contents, whether an allocation inside the operation fails), `Val` = what
    it hands back. -/
structure Sem (Obj Arg Val : Type) where
  empty : Obj                                            -- `splinetable<>()`
  load : Arg → Option Obj                                -- `splinetable<>(path)`: the object, or `none` = it throws
  member : UOp → Arg → Obj → Outcome × Obj × Val         -- any member function: outcome, object afterwards, value

/-- the semantics stays inside the behaviour classes -/
def Sem.WF {Obj Arg Val : Type} (sem : Sem Obj Arg Val) : Prop :=
  ∀ op a x, possible op (sem.member op a x).1 = true

/-! ## The C machine -/

/-- `table->data` -/
inductive HPtr (Obj : Type) where
  | null | live (x : Obj) | dangling
  deriving Repr, Inhabited

def HPtr.st {Obj : Type} : HPtr Obj → HState
  | .null => .null | .live _ => .live | .dangling => .dangling

def HPtr.obj? {Obj : Type} : HPtr Obj → Option Obj
  | .live x => some x | _ => none

structure CSt (Obj Val : Type) where
  hs : List (HPtr Obj)
  rs : List (Option Val)       -- the caller's `struct ndsparse*` variables
  led : Ledger
  ub : Bool

def CSt.init {Obj Val : Type} (nh nr : Nat) : CSt Obj Val := ⟨List.replicate nh .null, List.replicate nr none, {}, false⟩

/-- forget the objects: the ownership state of Model/CApi.lean -/
def CSt.erase {Obj Val : Type} (s : CSt Obj Val) : St := ⟨s.hs.map HPtr.st, s.rs.map Option.isSome, s.led, s.ub⟩

def hptr {Obj Val : Type} (s : CSt Obj Val) (h : Nat) : HPtr Obj := s.hs.getD h .null
def rslot {Obj Val : Type} (s : CSt Obj Val) (r : Nat) : Option Val := s.rs.getD r none

/-- a call of the C interface -/
inductive CCall (Arg : Type) where
  | init (h : Nat) (oom : Bool)
  | free (h : Nat)
  | readFile (h : Nat) (a : Arg) (oom : Bool)
  | readMem (h : Nat) (a : Arg) (oom : Bool)
  /-- any wrapper that is not one of `lifeNames`, on handle `h`; `sel` picks the overload (`read_key`/`write_key`);
      `oom`: an allocation of the wrapper's own fails before the member function is reached -/
  | member (w : Wrapper) (h : Nat) (a : Arg) (sel : Nat) (oom : Bool)
  | grideval (nullTable : Bool) (h slot : Nat) (a : Arg) (oom : Bool)
  | destroy (slot : Nat)
  | writeMem (h : Nat) (a : Arg) (oom : Bool)
  | freeBuffer
  /-- wrapper `w` called with NULL for the pointer parameter `p` (or, `p = "buffer->data"` of
      `writesplinefitstable_mem`, with a buffer that is already set) -/
  | nullArg (w : Wrapper) (p : String) (h : Nat)

/-- what the C caller sees -/
structure CObs (Val : Type) where
  ret : CRet
  val : Option Val

def cfree {Obj Val : Type} (F : LifeFacts) (s : CSt Obj Val) (h : Nat) : CSt Obj Val :=
  match hptr s h with
  | .null => s
  | .dangling => { s with ub := true }
  | .live _ =>
    let s1 : CSt Obj Val := if F.freeDeletesTyped then { s with led := { s.led with tables := s.led.tables - 1 } } else { s with ub := true }
    { s1 with hs := s1.hs.set h (if F.freeResetsHandle then .null else .dangling) }

def okVal {Val : Type} (o : Outcome) (v : Val) : Option Val := if o == .ok then some v else none

def cstep {Obj Arg Val : Type} (F : LifeFacts) (T : List Wrapper) (sem : Sem Obj Arg Val) (s : CSt Obj Val) :
    CCall Arg → CSt Obj Val × CObs Val
  | .init h oom =>
    if oom then (s, ⟨lifeRet T "splinetable_init" .throws, none⟩)
    else ((if F.initStoresNew then { s with hs := s.hs.set h (.live sem.empty), led := { s.led with tables := s.led.tables + 1 } } else s),
          ⟨lifeRet T "splinetable_init" .ok, none⟩)
  | .free h => (cfree F s h, ⟨lifeRet T "splinetable_free" .ok, none⟩)
  | .readFile h a oom =>
    let s1 := if F.readFileFreesOccupied then cfree F s h else s
    match (if oom then none else sem.load a) with
    | some x => ((if F.readFileStoresNew then { s1 with hs := s1.hs.set h (.live x), led := { s1.led with tables := s1.led.tables + 1 } } else s1),
                 ⟨lifeRet T "readsplinefitstable" .ok, none⟩)
    | none => (s1, ⟨lifeRet T "readsplinefitstable" .throws, none⟩)
  | .readMem h a oom =>
    match hptr s h with
    | .null =>
      if oom then (s, ⟨lifeOomRet T "readsplinefitstable_mem", none⟩)
      else
        let r := sem.member .readFitsMem a sem.empty
        ({ s with hs := s.hs.set h (.live r.2.1), led := { s.led with tables := s.led.tables + 1 } },
         ⟨lifeRet T "readsplinefitstable_mem" r.1, none⟩)
    | .live x =>
      if F.readMemAllocsOnlyIfNull then
        let r := sem.member .readFitsMem a x
        ({ s with hs := s.hs.set h (.live r.2.1) }, ⟨lifeRet T "readsplinefitstable_mem" r.1, none⟩)
      else
        let r := sem.member .readFitsMem a sem.empty
        ({ s with hs := s.hs.set h (.live r.2.1), led := { s.led with tables := s.led.tables + 1 } },
         ⟨lifeRet T "readsplinefitstable_mem" r.1, none⟩)
    | .dangling => ({ s with ub := true }, ⟨lifeRet T "readsplinefitstable_mem" .throws, none⟩)
  | .member w h a sel oom =>
    match hptr s h with
    | .live x =>
      if oom then (s, ⟨oomRet w, none⟩)
      else
        match principal w sel with
        | some c =>
          let r := sem.member c.op a x
          ({ s with hs := s.hs.set h (.live r.2.1) }, ⟨wrapRet w c r.1, okVal r.1 r.2.2⟩)
        | none => (s, ⟨fallThrough w, none⟩)
    | .null => (s, ⟨guardRet w, none⟩)            -- defined only when the wrapper tests `table->data` (`cDefined`)
    | .dangling => ({ s with ub := true }, ⟨guardRet w, none⟩)
  | .grideval nullTable h slot a oom =>
    -- `*result = NULL;` first
    let s0 : CSt Obj Val := if F.gridevalClearsResult && (rslot s slot).isSome then { s with rs := s.rs.set slot none } else s
    if nullTable then (s0, ⟨lifeGuardRet T "splinetable_grideval", none⟩)
    else
      match hptr s0 h with
      | .null => (s0, ⟨lifeGuardRet T "splinetable_grideval", none⟩)
      | .dangling => ({ s0 with ub := true }, ⟨lifeGuardRet T "splinetable_grideval", none⟩)
      | .live x =>
        if oom then (s0, ⟨lifeOomRet T "splinetable_grideval", none⟩)
        else
          let r := sem.member .grideval a x
          match r.1 with
          | .ok =>
            ((if F.gridevalReleasesResult then
                { s0 with hs := s0.hs.set h (.live r.2.1), rs := s0.rs.set slot (some r.2.2),
                          led := { s0.led with ndObjs := s0.led.ndObjs + 1, ndArrays := s0.led.ndArrays + 1 } }
              else { s0 with hs := s0.hs.set h (.live r.2.1) }),
             ⟨lifeRet T "splinetable_grideval" .ok, some r.2.2⟩)
          | o => ({ s0 with hs := s0.hs.set h (.live r.2.1) }, ⟨lifeRet T "splinetable_grideval" o, none⟩)
  | .destroy slot =>
    match rslot s slot with
    | some _ =>
      let led := if F.destroyDeletesDerived then { s.led with ndObjs := s.led.ndObjs - 1, ndArrays := s.led.ndArrays - 1 }
                 else { s.led with ndObjs := s.led.ndObjs - 1 }
      ({ s with rs := s.rs.set slot none, led := led, ub := s.ub || !F.destroyDeletesDerived }, ⟨lifeRet T "ndsparse_destroy" .ok, none⟩)
    | none => (s, ⟨lifeRet T "ndsparse_destroy" .ok, none⟩)           -- `delete nullptr`
  | .writeMem h a oom =>
    match hptr s h with
    | .live x =>
      if oom then (s, ⟨lifeOomRet T "writesplinefitstable_mem", none⟩)
      else
        let r := sem.member .writeFitsMem a x
        match r.1 with
        | .ok => ((if F.writeMemHandsOverBuffer then { s with hs := s.hs.set h (.live r.2.1), led := { s.led with buffers := s.led.buffers + 1 } }
                   else { s with hs := s.hs.set h (.live r.2.1) }),
                  ⟨lifeRet T "writesplinefitstable_mem" .ok, some r.2.2⟩)
        | o => ({ s with hs := s.hs.set h (.live r.2.1) }, ⟨lifeRet T "writesplinefitstable_mem" o, none⟩)
    | _ => ({ s with ub := true }, ⟨.escapes, none⟩)   -- `*static_cast<…*>(NULL)`: not defined (`cDefined` excludes it)
  | .freeBuffer => ({ s with led := { s.led with buffers := s.led.buffers - 1 } }, ⟨.void, none⟩)
  | .nullArg w _ _ => (s, ⟨guardRet w, none⟩)   -- the guard returns before anything else happens (`cDefined`: `p` is tested)

/-- The scope in which the C code has defined behaviour *and* a C++ program for the same calls exists.  Beyond the
    usage rule `opValid` it contains: wrappers that test `table->data` on a handle that owns nothing, calls with a NULL
    pointer the guard tests (`nullArg`, `grideval true`), `splinetable_free` / `ndsparse_destroy` on something already
    released.  Outside (listed in Props/C18.lean): a wrapper without a `table->data` test on a handle that owns nothing,
    any wrapper on a dangling handle, `splinetable_init` on an owning handle and a grid evaluation into an occupied
    result pointer (defined in C — the old object is orphaned, `C18_orphans_exact` — but with no C++ counterpart). -/
def cDefined {Obj Arg Val : Type} (T : List Wrapper) (s : CSt Obj Val) : CCall Arg → Bool
  | .init h _ => h < s.hs.length && (hptr s h).st == .null
  | .free h => h < s.hs.length
  | .readFile h _ _ => h < s.hs.length
  | .readMem h _ oom => h < s.hs.length && (!oom || (hptr s h).st == .null)
  | .member w h _ sel oom =>
    h < s.hs.length && T.contains w && !lifeNames.contains w.name && (principal w sel).isSome &&
    (match hptr s h with
     | .live _ => !oom || w.mayThrow
     | .null => w.nullChecked.contains "table->data" && !oom
     | .dangling => false)
  | .grideval _ h slot _ _ => h < s.hs.length && slot < s.rs.length && (rslot s slot).isNone
  | .destroy slot => slot < s.rs.length
  | .writeMem h _ _ => h < s.hs.length && (hptr s h).st == .live
  | .freeBuffer => 0 < s.led.buffers
  | .nullArg w p _ => T.contains w && w.name != "splinetable_grideval" && ((p != "table->data" && w.nullChecked.contains p) || w.mustBeNull.contains p)

/-- the ownership-level operation(s) (Model/CApi.lean) a call amounts to -/
def opOf {Obj Arg Val : Type} (sem : Sem Obj Arg Val) (s : CSt Obj Val) : CCall Arg → List Op
  | .init h oom => [.init h (if oom then .throws else .ok)]
  | .free h => [.free h]
  | .readFile h a oom => [.readFile h (match (if oom then none else sem.load a) with | some _ => .ok | none => .throws)]
  | .readMem h a oom =>
    match hptr s h with
    | .null => if oom then [.readMemAllocFails h] else [.readMem h (sem.member .readFitsMem a sem.empty).1]
    | .live x => [.readMem h (sem.member .readFitsMem a x).1]
    | .dangling => [.readMem h .throws]
  | .member _ h _ _ _ => [.use h]
  | .grideval nullTable h slot a oom =>
    if nullTable then [.grideval h slot .fail]
    else match hptr s h with
      | .live x => if oom then [.grideval h slot .throws] else [.grideval h slot (sem.member .grideval a x).1]
      | _ => [.grideval h slot .fail]
  | .destroy slot => [.destroy slot]
  | .writeMem h a oom =>
    match hptr s h with
    | .live x => if oom then [.writeMem h .throws] else [.writeMem h (sem.member .writeFitsMem a x).1]
    | _ => [.use h]
  | .freeBuffer => [.freeBuffer]
  | .nullArg _ _ _ => []

def crun {Obj Arg Val : Type} (F : LifeFacts) (T : List Wrapper) (sem : Sem Obj Arg Val) :
    CSt Obj Val → List (CCall Arg) → CSt Obj Val × List (CObs Val)
  | s, [] => (s, [])
  | s, e :: es =>
    let r := cstep F T sem s e
    let rest := crun F T sem r.1 es
    (rest.1, r.2 :: rest.2)

def cDefinedRun {Obj Arg Val : Type} (F : LifeFacts) (T : List Wrapper) (sem : Sem Obj Arg Val) :
    CSt Obj Val → List (CCall Arg) → Bool
  | _, [] => true
  | s, e :: es => cDefined T s e && cDefinedRun F T sem (cstep F T sem s e).1 es

/-! ## The C++ twin -/

structure TSt (Obj Val : Type) where
  objs : List (Option Obj)     -- `Table* W[h]`
  res : List (Option Val)      -- `photospline::ndsparse* ND[s]`
  bufs : Nat                   -- malloc'ed images the caller holds

def TSt.init {Obj Val : Type} (nh nr : Nat) : TSt Obj Val := ⟨List.replicate nh none, List.replicate nr none, 0⟩

/-- what the C++ caller sees: `out = none` — the call cannot be written down (no object, NULL argument) -/
structure TObs (Val : Type) where
  out : Option Outcome
  val : Option Val

def tobj {Obj Val : Type} (t : TSt Obj Val) (h : Nat) : Option Obj := (t.objs.getD h none)

def tstep {Obj Arg Val : Type} (sem : Sem Obj Arg Val) (t : TSt Obj Val) : CCall Arg → TSt Obj Val × TObs Val
  | .init h oom =>                                           -- `W[h] = new Table();`
    if oom then (t, ⟨some .throws, none⟩) else ({ t with objs := t.objs.set h (some sem.empty) }, ⟨some .ok, none⟩)
  | .free h => ({ t with objs := t.objs.set h none }, ⟨some .ok, none⟩)       -- `delete W[h]; W[h] = nullptr;`
  | .readFile h a oom =>                                     -- `delete W[h]; W[h] = nullptr; W[h] = new Table(path);`
    match (if oom then none else sem.load a) with
    | some x => ({ t with objs := t.objs.set h (some x) }, ⟨some .ok, none⟩)
    | none => ({ t with objs := t.objs.set h none }, ⟨some .throws, none⟩)
  | .readMem h a oom =>                                      -- `if(!W[h]) W[h] = new Table(); W[h]->read_fits_mem(..);`
    match tobj t h with
    | none =>
      if oom then (t, ⟨some .throws, none⟩)
      else let r := sem.member .readFitsMem a sem.empty
           ({ t with objs := t.objs.set h (some r.2.1) }, ⟨some r.1, none⟩)
    | some x =>
      let r := sem.member .readFitsMem a x
      ({ t with objs := t.objs.set h (some r.2.1) }, ⟨some r.1, none⟩)
  | .member w h a sel oom =>                                 -- `W[h]->op(args)`
    match tobj t h with
    | none => (t, ⟨none, none⟩)
    | some x =>
      if oom then (t, ⟨some .throws, none⟩)
      else match principal w sel with
        | some c => let r := sem.member c.op a x
                    ({ t with objs := t.objs.set h (some r.2.1) }, ⟨some r.1, okVal r.1 r.2.2⟩)
        | none => (t, ⟨some .ok, none⟩)
  | .grideval nullTable h slot a oom =>                      -- `ND[s] = W[h]->grideval(coords).release();`
    if nullTable then (t, ⟨none, none⟩)
    else match tobj t h with
      | none => (t, ⟨none, none⟩)
      | some x =>
        if oom then (t, ⟨some .throws, none⟩)
        else
          let r := sem.member .grideval a x
          match r.1 with
          | .ok => ({ t with objs := t.objs.set h (some r.2.1), res := t.res.set slot (some r.2.2) }, ⟨some .ok, some r.2.2⟩)
          | o => ({ t with objs := t.objs.set h (some r.2.1) }, ⟨some o, none⟩)
  | .destroy slot => ({ t with res := t.res.set slot none }, ⟨some .ok, none⟩)       -- `delete ND[s]; ND[s] = nullptr;`
  | .writeMem h a oom =>                                     -- `auto b = W[h]->write_fits_mem();`
    match tobj t h with
    | none => (t, ⟨none, none⟩)
    | some x =>
      if oom then (t, ⟨some .throws, none⟩)
      else
        let r := sem.member .writeFitsMem a x
        match r.1 with
        | .ok => ({ t with objs := t.objs.set h (some r.2.1), bufs := t.bufs + 1 }, ⟨some .ok, some r.2.2⟩)
        | o => ({ t with objs := t.objs.set h (some r.2.1) }, ⟨some o, none⟩)
  | .freeBuffer => ({ t with bufs := t.bufs - 1 }, ⟨some .ok, none⟩)                  -- `free(b.first);`
  | .nullArg _ _ _ => (t, ⟨none, none⟩)

def trun {Obj Arg Val : Type} (sem : Sem Obj Arg Val) : TSt Obj Val → List (CCall Arg) → TSt Obj Val × List (TObs Val)
  | t, [] => (t, [])
  | t, e :: es =>
    let r := tstep sem t e
    let rest := trun sem r.1 es
    (rest.1, r.2 :: rest.2)

/-- what the C++ caller would see of a C machine state: the objects behind the handles, the results, the buffers -/
def CSt.abs {Obj Val : Type} (s : CSt Obj Val) : TSt Obj Val := ⟨s.hs.map HPtr.obj?, s.rs, s.led.buffers⟩

/-- C return type of the wrapper behind a call -/
def CCall.retTy {Arg : Type} : CCall Arg → RetTy
  | .init .. | .readFile .. | .readMem .. | .grideval .. | .writeMem .. => .status
  | .free _ | .destroy _ | .freeBuffer => .void
  | .member w .. | .nullArg w _ _ => w.ret

/-- the C caller sees what a faithful wrapper shows for the C++ outcome (a call that cannot be written down in C++
    — no object, NULL argument — must show the failure value), no exception leaves, and the same value -/
def agrees {Arg Val : Type} (e : CCall Arg) (c : CObs Val) (t : TObs Val) : Prop :=
  c.ret = expected e.retTy (t.out.getD .fail) ∧ c.ret ≠ .escapes ∧ c.val = t.val

/-- call by call -/
def agreesAll {Arg Val : Type} : List (CCall Arg) → List (CObs Val) → List (TObs Val) → Prop
  | [], [], [] => True
  | e :: es, c :: cs, t :: ts => agrees e c t ∧ agreesAll es cs ts
  | _, _, _ => False

end PsV.CApi
