import PsV.Model.FitsRead
/-!
# `read_fits_core` with the object threaded through (C07, state after a rejected read)

`readFixed` (PsV/Model/FitsRead.lean) is the reader as a pure function store → verdict/table; `stateAt` *tabulates*
which members are allocated at each `throw`.  Here the same statements are executed **in source order on the
object itself**: every `allocate` records the new block in the member and in the ledger `live`, the knot loop
assigns `knots[i]`, every `throw` leaves with the object as it is at that moment.  `readGuarded` then is
`read_fits_core` as its caller sees it: `storage_guard`'s destructor runs `release_storage` (`cleanup`) unless the
guard was dismissed; `readFits` adds the `ndim != 0` precondition test of `read_fits` / `read_fits_mem`.

`PsV/Proofs/FitsReadState.lean` proves that this step-by-step reader refines both tabulations: its verdict is
`readFixed`'s, and its object at a throw of `e` is `stateAt true ndim (stopOf e)` — so the table of throw sites the
driver executes is derived, not assumed.

Block numbers are those of `stateAt` (source order): 0 aux, 1 order, 2 periods, 3 knots, 4 nknots, 5 extents,
6 extents[0], 7 naxes, 8 strides, 9 coefficients, 10+i knots[i].  As in `stateAt`, the strings hanging off `aux`
are not tracked individually (they are released inside `release_storage` under the same `aux != nullptr` test).
Mathlib-free, executable.
-/
namespace PsV.Fits

/-- the knot loop on the object: `knots[i] = allocate<double>(nknots[i]+2*order[i]) + order[i]` happens after the
    count checks and before `fits_read_pix` -/
def readKnotsObj (E : Ext) (f : Fits) (order naxes : List Nat) :
    Nat → Nat → Obj → Obj × Except RErr (List (List UInt64))
  | _, 0, o => (o, .ok [])
  | i, n+1, o =>
    match movnamHdu f (keyN "KNOTS" i) with
    | none => (o, .error (.knotSize i))
    | some h =>
      let nk := h.axes.headD 0
      if nk = 0 then (o, .error (.knotCount i)) else
      let od := order.getD i 0
      if nk < 2 * od + 2 ∨ naxes.getD i 0 ≠ nk - od - 1 then (o, .error (.invalid i 1)) else
      let o := { o with knotEntries := o.knotEntries.set i (.block (10 + i)), live := o.live ++ [10 + i] }
      match readPixD E h nk with
      | none => (o, .error (.knotData i))
      | some k =>
        if knotsValid k then
          let r := readKnotsObj E f order naxes (i+1) n o
          (r.1, r.2.map (k :: ·))
        else (o, .error (.invalid i 2))

/-- the part of `read_fits_core` that runs under the storage guard (from `ndim = temp_dim` on), on a file whose
    primary HDU is `h0` with at least one axis -/
def readBody (E : Ext) (h0 : Hdu) (f : Fits) : Obj × Except RErr Table :=
  let cs := hdrCards true h0
  let ndim := h0.axes.length
  let o : Obj := { ndim }                                                   -- ndim = temp_dim;
  let aux := readAux cs
  let o := { o with aux := .block 0, live := o.live ++ [0] }                -- aux = allocate<char_ptr_ptr>(naux);
  let o := { o with order := .block 1, live := o.live ++ [1] }              -- order = allocate<uint32_t>(ndim);
  let orders : Except RErr (List Nat) :=
    match readKeyInt cs .tint "ORDER".toList with
    | some od => .ok (List.replicate ndim od)
    | none => readOrders cs 0 ndim
  match orders with
  | .error e => (o, .error e)
  | .ok order =>
  let o := { o with periods := .block 2, live := o.live ++ [2] }            -- periods = allocate<double>(ndim);
  let periods := (List.range ndim).map fun i => (readKeyDbl E cs (keyN "PERIOD" i)).getD 0
  let o := { o with knots := .block 3, live := o.live ++ [3] }              -- knots = allocate<double_ptr>(ndim);
  let o := { o with knotEntries := List.replicate ndim .null }              -- std::fill(knots,knots+ndim,nullptr);
  let o := { o with nknots := .block 4, live := o.live ++ [4] }             -- nknots = allocate<uint64_t>(ndim);
  let o := { o with extents := .block 5, live := o.live ++ [5] }            -- extents = allocate<double_ptr>(ndim);
  let o := { o with extents0 := .null }                                     -- extents[0] = nullptr;
  let o := { o with extents0 := .block 6, live := o.live ++ [6] }           -- extents[0] = allocate<double>(2*ndim);
  let naxes := h0.axes.reverse
  let o := { o with naxes := .block 7, live := o.live ++ [7] }              -- naxes = allocate<uint64_t>(ndim);
  let strides := (partialProds 1 h0.axes).reverse
  let o := { o with strides := .block 8, live := o.live ++ [8] }            -- strides = allocate<uint64_t>(ndim);
  let ncoeffs := strides.headD 0 * naxes.headD 0
  let o := { o with coefficients := .block 9, live := o.live ++ [9] }       -- coefficients = allocate<float>(ncoeffs);
  match readPixF E h0 ncoeffs with
  | none => (o, .error .readPix)
  | some coef =>
  match readKnotsObj E f order naxes 0 ndim o with
  | (o, .error e) => (o, .error e)
  | (o, .ok knots) =>
  let ext : Except RErr (List UInt64) :=
    match movnamHdu f "EXTENTS".toList with
    | none => .ok (defaultExtents order knots)
    | some h =>
      let n := h.axes.headD 0
      if n ≠ 2 * ndim then .ok (defaultExtents order knots) else
      match readPixD E h n with
      | none => .error .extData
      | some e => .ok e
  match ext with
  | .error e => (o, .error e)
  | .ok extents => (o, .ok ⟨order, knots, naxes, strides, coef, some extents, some periods, aux⟩)

/-- what can go wrong around a read besides the reader's own verdict -/
inductive ReadFault where
  | notEmpty               -- "splinetable already contains data, cannot read from file"
  | fault (f : Fault)      -- the cleanup followed a pointer it must not follow / released a block twice
deriving DecidableEq, Repr

/-- `read_fits_core` on an empty object, as its caller sees it: object afterwards and verdict.  The two early
    throws happen before the guard exists and before any member is written. -/
def readGuarded (E : Ext) (f : Fits) : Except Fault (Obj × Except RErr Table) :=
  match f with
  | [] => .ok (Obj.empty, .error .noHdu)
  | h0 :: _ =>
    if h0.axes.length < 1 then .ok (Obj.empty, .error .badDim) else
    match readBody E h0 f with
    | (o, .ok t) => .ok (o, .ok t)                                     -- guard.dismiss();
    | (o, .error e) => (cleanup o).map fun o' => (o', .error e)       -- ~storage_guard(): release_storage()

/-- `read_fits` / `read_fits_mem` on an arbitrary object: refuse unless `ndim == 0`, else read -/
def readFits (E : Ext) (o : Obj) (f : Fits) : Except ReadFault (Obj × Except RErr Table) :=
  if o.ndim ≠ 0 then .error .notEmpty else
  match readGuarded E f with
  | .error x => .error (.fault x)
  | .ok (o', r) => .ok ({ o' with live := o.live ++ o'.live }, r)

/-- a sequence of reads into the same object, stopping at the first fault; returns the object and the verdicts -/
def readSeq (E : Ext) : Obj → List Fits → Except ReadFault (Obj × List (Except RErr Table))
  | o, [] => .ok (o, [])
  | o, f :: fs =>
    match readFits E o f with
    | .error x => .error x
    | .ok (o', r) =>
      match readSeq E o' fs with
      | .error x => .error x
      | .ok (o'', rs) => .ok (o'', r :: rs)

end PsV.Fits
