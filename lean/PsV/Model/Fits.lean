/-!
# Model of photospline's FITS serialisation (include/photospline/detail/fitsio.h, src/core/fitsio.cpp)

Mathlib-free, executable.  cfitsio is modelled at the level of the API photospline uses, as functions on an
abstract store: a FITS file is a list of image HDUs; an HDU has its axis lengths, its non-structural header
cards (keyword, raw value text exactly as `fits_read_keyn` returns it, comment) and its pixel data as **bit
patterns** (`UInt32` for BITPIX -32, `UInt64` for BITPIX -64) — never floats.  `PsV/Model/FitsBytes.lean`
maps this store to and from real bytes, so the abstract API is validated against cfitsio on every run.

`writeCore` / `readCore` follow `write_fits_core` / `read_fits_core` statement by statement.
-/
namespace PsV.Fits

abbrev Str := List Char

/-! ## decimal text (snprintf "%d", cfitsio integer keyword values) -/

def digitChar : Nat → Char
  | 0 => '0' | 1 => '1' | 2 => '2' | 3 => '3' | 4 => '4'
  | 5 => '5' | 6 => '6' | 7 => '7' | 8 => '8' | _ => '9'

def digitVal (c : Char) : Option Nat :=
  if c = '0' then some 0 else if c = '1' then some 1 else if c = '2' then some 2 else if c = '3' then some 3
  else if c = '4' then some 4 else if c = '5' then some 5 else if c = '6' then some 6 else if c = '7' then some 7
  else if c = '8' then some 8 else if c = '9' then some 9 else none

/-- decimal digits of `n`, most significant first (`fuel` ≥ number of digits; `natStr` passes `n+1`). -/
def natStrF : Nat → Nat → Str
  | 0, _ => []
  | fuel+1, n => if n < 10 then [digitChar n] else natStrF fuel (n / 10) ++ [digitChar (n % 10)]

def natStr (n : Nat) : Str := natStrF (n+1) n

def intStr (v : Int) : Str := if v < 0 then '-' :: natStr v.natAbs else natStr v.natAbs

/-- digits → number, `none` on an empty string or a non-digit -/
def parseNat (s : Str) : Option Nat :=
  if s = [] then none else s.foldlM (fun acc c => (digitVal c).map (acc * 10 + ·)) 0

/-- plain decimal integer with optional sign (the only integer value syntax the model covers; floating-point or
    quoted numbers, which cfitsio would also convert, are flagged `unmodelled` by the driver). -/
def parseInt (s : Str) : Option Int :=
  match s with
  | '-' :: r => (parseNat r).map fun n => - (n : Int)
  | '+' :: r => (parseNat r).map fun n => (n : Int)
  | _ => (parseNat s).map fun n => (n : Int)

/-! ## the abstract store -/

structure Card where
  key : Str
  val : Str
  com : Str
deriving DecidableEq, Repr, Inhabited

inductive Pix where
  | f32 (d : List UInt32)
  | f64 (d : List UInt64)
deriving DecidableEq, Repr, Inhabited

def Pix.length : Pix → Nat
  | .f32 d => d.length
  | .f64 d => d.length

def Pix.bitpix : Pix → Int
  | .f32 _ => -32
  | .f64 _ => -64

structure Hdu where
  axes : List Nat
  cards : List Card
  pix : Pix
deriving DecidableEq, Repr, Inhabited

abbrev Fits := List Hdu

/-- Things outside the bit-pattern world that cfitsio does for photospline: number⇄text for `TDOUBLE` keys
    and float⇄double conversion when an image is read with the other data type.  Parameters of the model;
    the theorems hold for every choice, the driver plugs in the native operations. -/
structure Ext where
  fmtD : UInt64 → Str
  parseD : Str → Option UInt64
  d2f : UInt64 → UInt32
  f2d : UInt32 → UInt64

/-! ### structural (mandatory) cards, which `fits_get_hdrspace` / `fits_read_keyn` also see -/

def axisCards (axes : List Nat) : List Card :=
  (List.range axes.length).map fun i => ⟨"NAXIS".toList ++ natStr (i+1), natStr (axes.getD i 0), []⟩

def structCards (primary : Bool) (h : Hdu) : List Card :=
  (if primary then [⟨"SIMPLE".toList, ['T'], []⟩] else [⟨"XTENSION".toList, "'IMAGE   '".toList, []⟩])
  ++ [⟨"BITPIX".toList, intStr h.pix.bitpix, []⟩, ⟨"NAXIS".toList, natStr h.axes.length, []⟩]
  ++ axisCards h.axes
  ++ (if primary then [] else [⟨"PCOUNT".toList, ['0'], []⟩, ⟨"GCOUNT".toList, ['1'], []⟩])

def hdrCards (primary : Bool) (h : Hdu) : List Card := structCards primary h ++ h.cards

/-! ### writing side of the API -/

/-- `ffs2c`: the loop `for (ii=0, jj=1; ii < len && jj < 69; ii++, jj++)` that copies the (at most 68)
    characters and doubles apostrophes; returns the body and the final `jj`. -/
def s2cLoop : Str → Nat → Str × Nat
  | [], jj => ([], jj)
  | c :: cs, jj =>
    if jj < 69 then
      if c = '\'' then let (r, j) := s2cLoop cs (jj+2); (c :: '\'' :: r, j)
      else let (r, j) := s2cLoop cs (jj+1); (c :: r, j)
    else ([], jj)

/-- `ffs2c`: string → quoted FITS value, blank padded to 8 characters, closing quote unless column 70 is hit -/
def s2c (v : Str) : Str :=
  let (body, jj) := s2cLoop (v.take 68) 1
  let pad := List.replicate (9 - jj) ' '
  if jj + (9 - jj) = 70 then ('\'' :: body).take 69
  else '\'' :: (body ++ pad ++ ['\''])

/-- `fits_write_key(TSTRING)` -/
def cardStr (key val com : Str) : Card := ⟨key, s2c val, com⟩
/-- `fits_write_key(TINT)`; the C code passes `&order[i]` (a `uint32_t`) as `int*` -/
def cardInt (key : Str) (v : Nat) (com : Str) : Card :=
  ⟨key, intStr (if v % 4294967296 < 2147483648 then (v % 4294967296 : Nat) else ((v % 4294967296 : Nat) : Int) - 4294967296), com⟩
/-- `fits_write_key(TDOUBLE)` -/
def cardDbl (E : Ext) (key : Str) (bits : UInt64) : Card := ⟨key, E.fmtD bits, []⟩

/-- the two COMMENT cards and EXTEND that `fits_create_img` puts into a primary header -/
def primaryBoiler : List Card :=
  [⟨"EXTEND".toList, ['T'], "FITS dataset may contain extensions".toList⟩,
   ⟨"COMMENT".toList, [], "  FITS (Flexible Image Transport System) format is defined in 'Astronomy".toList⟩,
   ⟨"COMMENT".toList, [], "  and Astrophysics', volume 376, page 359; bibcode: 2001A&A...376..359H".toList⟩]

/-- `fits_create_img` + `fits_write_pix` of the whole image -/
def createImg (primary : Bool) (axes : List Nat) (pix : Pix) : Hdu :=
  ⟨axes, if primary then primaryBoiler else [], pix⟩

def Hdu.writeKeys (h : Hdu) (cs : List Card) : Hdu := { h with cards := h.cards ++ cs }

/-- `fits_update_key`: overwrite the value of the first card of that name, else append -/
def Hdu.updateKey (h : Hdu) (c : Card) : Hdu :=
  if h.cards.any (·.key = c.key) then
    { h with cards := h.cards.map fun d => if d.key = c.key then { d with val := c.val } else d }
  else h.writeKeys [c]

/-! ### reading side of the API -/

def findCard (cs : List Card) (name : Str) : Option Card := cs.find? (·.key = name)

inductive KeyType where
  | tint | tuint
deriving DecidableEq, Repr

/-- `fits_read_key(TINT|TUINT)` into a `uint32_t`: `none` = non-zero status (key missing, no value, not an
    integer, out of the range of the requested C type).  A `TINT` result is stored through `&order[0]`,
    i.e. a negative value wraps. -/
def readKeyInt (cs : List Card) (kt : KeyType) (name : Str) : Option Nat :=
  match findCard cs name with
  | none => none
  | some c =>
    match parseInt c.val with
    | none => none
    | some v =>
      match kt with
      | .tint => if -2147483648 ≤ v ∧ v < 2147483648 then some (v % 4294967296).toNat else none
      | .tuint => if 0 ≤ v ∧ v < 4294967296 then some v.toNat else none

def readKeyDbl (E : Ext) (cs : List Card) (name : Str) : Option UInt64 :=
  match findCard cs name with
  | none => none
  | some c => E.parseD c.val

def trimRight (s : Str) : Str := (s.reverse.dropWhile (· = ' ')).reverse

/-- `ffc2s` body: characters after the opening quote up to the closing one, `''` → `'` -/
def c2sLoop : Str → Str
  | [] => []
  | '\'' :: '\'' :: r => '\'' :: c2sLoop r
  | '\'' :: _ => []
  | c :: r => c :: c2sLoop r

/-- `ffc2s`: keyword value text → string value (`none`: undefined value).  Non-quoted text is returned as is. -/
def c2s (v : Str) : Option Str :=
  match v with
  | [] => none
  | '\'' :: r => some (trimRight (c2sLoop r))
  | _ => some v

def upper (s : Str) : Str := s.map Char.toUpper

/-- does this HDU carry the name (`EXTNAME`, else `HDUNAME`; compared ignoring case) -/
def nameMatches (primary : Bool) (h : Hdu) (name : Str) : Bool :=
  let m (k : String) : Bool :=
    match (findCard (hdrCards primary h) k.toList).bind (c2s ·.val) with
    | some s => upper s == upper name
    | none => false
  m "EXTNAME" || m "HDUNAME"

/-- `fits_movnam_hdu(IMAGE_HDU, name, 0)`: first HDU (from the primary on) that carries the name -/
def movnamAux (name : Str) : Bool → List Hdu → Option Hdu
  | _, [] => none
  | p, h :: hs => if nameMatches p h name then some h else movnamAux name false hs

def movnamHdu (f : Fits) (name : Str) : Option Hdu := movnamAux name true f

/-- `fits_read_pix(TFLOAT, fpixel = 1.., n)` without null checking -/
def readPixF (E : Ext) (h : Hdu) (n : Nat) : Option (List UInt32) :=
  if h.pix.length < n then none else
  match h.pix with
  | .f32 d => some (d.take n)
  | .f64 d => some ((d.take n).map E.d2f)

/-- `fits_read_pix(TDOUBLE, 1, n)` without null checking -/
def readPixD (E : Ext) (h : Hdu) (n : Nat) : Option (List UInt64) :=
  if h.pix.length < n then none else
  match h.pix with
  | .f64 d => some (d.take n)
  | .f32 d => some ((d.take n).map E.f2d)

/-! ## the table object -/

structure Table where
  order : List Nat                  -- uint32_t order[ndim]
  knots : List (List UInt64)        -- knots[i][0..nknots[i])  (nknots = the lengths)
  naxes : List Nat
  strides : List Nat
  coef : List UInt32
  extents : Option (List UInt64)    -- extents[0][0..2*ndim) or NULL
  periods : Option (List UInt64)    -- periods[0..ndim) or NULL
  aux : List (Str × Str)
deriving DecidableEq, Repr, Inhabited

def Table.ndim (t : Table) : Nat := t.order.length

def prod (l : List Nat) : Nat := l.foldr (· * ·) 1

/-- `reservedFitsKeyword`: `strncmp(literal, key, strlen(literal)) == 0` for one of the literals.
    The literal list is compared with the source text on every run of the check. -/
def reservedPrefixes : List String := ["BITPIX", "SIMPLE", "TYPE", "ORDER", "NAXIS", "PERIOD", "EXTEND", "COMMENT"]

def reserved (key : Str) : Bool := reservedPrefixes.any fun p => p.toList.isPrefixOf key

def keyN (base : String) (i : Nat) : Str := base.toList ++ natStr i

/-! ## write_fits_core -/

def orderCards (t : Table) : List Card :=
  (List.range t.ndim).map fun i => cardInt (keyN "ORDER" i) (t.order.getD i 0) "B-Spline Order".toList

def periodCards (E : Ext) (t : Table) : List Card :=
  match t.periods with
  | none => []
  | some p => (List.range t.ndim).map fun i => cardDbl E (keyN "PERIOD" i) (p.getD i 0)

def auxCards (t : Table) : List Card := t.aux.map fun kv => cardStr kv.1 kv.2 []

def knotHdu (t : Table) (i : Nat) : Hdu :=
  let k := t.knots.getD i []
  (createImg false [k.length] (.f64 k)).updateKey (cardStr "EXTNAME".toList (keyN "KNOTS" i) [])

def extentsHdus (t : Table) : List Hdu :=
  match t.extents with
  | none => []
  | some e => [(createImg false [2 * t.ndim] (.f64 (e.take (2 * t.ndim)))).updateKey
                 (cardStr "EXTNAME".toList "EXTENTS".toList [])]

/-- `single = false`: `write_fits_core`.  `single = true`: the older layout with one `ORDER` key for all
    dimensions (what `read_fits_core` tries first), as an independent writer would produce it. -/
def writeGen (E : Ext) (single : Bool) (t : Table) : Fits :=
  -- naxes[i] = this->naxes[ndim-i-1]; nelements *= naxes[i]
  let axes := (List.range t.ndim).map fun i => t.naxes.getD (t.ndim - i - 1) 0
  let nelements := prod axes
  -- fits_create_img(FLOAT_IMG, ndim, naxes); fits_write_pix(TFLOAT, 1.., nelements, coefficients)
  let h0 := createImg true axes (.f32 (t.coef.take nelements))
  let h0 := h0.writeKeys [cardStr "TYPE".toList "Spline Coefficient Table".toList []]
  let h0 := h0.writeKeys (if single then [cardInt "ORDER".toList (t.order.headD 0) "B-Spline Order".toList] else orderCards t)
  let h0 := h0.writeKeys (periodCards E t)
  let h0 := h0.writeKeys (auxCards t)
  h0 :: (List.range t.ndim).map (knotHdu t) ++ extentsHdus t

def writeCore (E : Ext) (t : Table) : Fits := writeGen E false t

/-! ## read_fits_core -/

/-- Throw sites of `read_fits_core`, in source order. -/
inductive RErr where
  | noHdu                 -- "Unable to move to first HDU"
  | badDim                -- "Invalid table dimension"
  | order (i : Nat)       -- "Unable to read order for dimension i"
  | readPix               -- "Error reading table coefficients"
  | knotSize (i : Nat)    -- "Error reading size of knot vector i" (extension missing)
  | knotCount (i : Nat)   -- "Invalid number of knots"
  | knotData (i : Nat)    -- "Error reading knot vector i data"
  | extData               -- "Error reading extent data"
  | invalid (i : Nat) (why : Nat)  -- validation added by fixes/C07-1.diff (unused by the code before the repair)
deriving DecidableEq, Repr

/-- the copy loop that undoes FITS quote doubling: `out += *p; if (*p=='\'' && p+1<vend && p[1]=='\'') p++;` -/
def undouble : Str → Str
  | [] => []
  | '\'' :: '\'' :: r => '\'' :: undouble r
  | c :: r => c :: undouble r

/-- the block that strips "stupid quotes mandated by FITS" from a raw value: opening quote, closing quote if it
    is the last character, and (since the C16 repair) the doubling of quotes inside -/
def stripQuotes (v : Str) : Str :=
  if v.head? = some '\'' then
    undouble (if 2 ≤ v.length ∧ v.getLast? = some '\'' then (v.drop 1).dropLast else v.drop 1)
  else v

/-- both keyword loops: every card whose name is not reserved, in header order -/
def readAux (cs : List Card) : List (Str × Str) :=
  cs.filterMap fun c => if reserved c.key then none else some (c.key, stripQuotes c.val)

/-- the per-dimension `ORDERn` loop (`TUINT`), stopping at the first failure -/
def readOrders (cs : List Card) : Nat → Nat → Except RErr (List Nat)
  | _, 0 => .ok []
  | i, n+1 =>
    match readKeyInt cs .tuint (keyN "ORDER" i) with
    | none => .error (.order i)
    | some o => (readOrders cs (i+1) n).map (o :: ·)

/-- `std::partial_sum(first, last, out, multiplies)` with `out[-1] = acc` prepended: running products -/
def partialProds : Nat → List Nat → List Nat
  | _, [] => []
  | acc, a :: as => acc :: partialProds (acc * a) as

/-- the `KNOTSn` loop -/
def readKnots (E : Ext) (f : Fits) : Nat → Nat → Except RErr (List (List UInt64))
  | _, 0 => .ok []
  | i, n+1 =>
    match movnamHdu f (keyN "KNOTS" i) with
    | none => .error (.knotSize i)
    | some h =>
      -- fits_get_img_size(fits, 1, &nknots_temp): first axis length (an image with NAXIS = 0 leaves the
      -- variable unassigned in the C code; treated as 0 here, which is what fixes/C07-1 makes of it)
      let nk := h.axes.headD 0
      if nk = 0 then .error (.knotCount i) else
      match readPixD E h nk with
      | none => .error (.knotData i)
      | some k => (readKnots E f (i+1) n).map (k :: ·)

def defaultExtents (order : List Nat) (knots : List (List UInt64)) : List UInt64 :=
  (List.range order.length).flatMap fun i =>
    let k := knots.getD i []
    let o := order.getD i 0
    [k.getD o 0, k.getD (k.length - o - 1) 0]

def readCore (E : Ext) (f : Fits) : Except RErr Table :=
  match f with
  | [] => .error .noHdu
  | h0 :: _ =>
    let cs := hdrCards true h0
    -- fits_get_img_dim
    let ndim := h0.axes.length
    if ndim < 1 then .error .badDim else
    -- auxiliary keywords
    let aux := readAux cs
    -- orders: single ORDER key (TINT), else ORDERn (TUINT)
    let orders : Except RErr (List Nat) :=
      match readKeyInt cs .tint "ORDER".toList with
      | some o => .ok (List.replicate ndim o)
      | none => readOrders cs 0 ndim
    match orders with
    | .error e => .error e
    | .ok order =>
    -- periods, 0 when the key cannot be read
    let periods := (List.range ndim).map fun i => (readKeyDbl E cs (keyN "PERIOD" i)).getD 0
    -- naxes = reverse(naxes_temp); strides
    let naxes := h0.axes.reverse
    let strides := (partialProds 1 h0.axes).reverse
    let ncoeffs := strides.headD 0 * naxes.headD 0
    match readPixF E h0 ncoeffs with
    | none => .error .readPix
    | some coef =>
    match readKnots E f 0 ndim with
    | .error e => .error e
    | .ok knots =>
    -- extents: EXTENTS extension with exactly 2*ndim values, else made up from the knots
    let ext : Except RErr (List UInt64) :=
      match movnamHdu f "EXTENTS".toList with
      | none => .ok (defaultExtents order knots)
      | some h =>
        let n := h.axes.headD 0
        if n ≠ 2 * ndim then .ok (defaultExtents order knots) else
        match readPixD E h n with
        | none => .error .extData
        | some e => .ok e
    match ext with
    | .error e => .error e
    | .ok extents =>
    .ok ⟨order, knots, naxes, strides, coef, some extents, some periods, aux⟩

/-! ## vocabulary of the property statements -/

/-- row-major strides: `strides[i] = Π_{j>i} naxes[j]` -/
def rowMajor : List Nat → List Nat
  | [] => []
  | _ :: as => prod as :: rowMajor as

/-- trailing-blank padding to 8 characters (what FITS does to short string values) -/
def pad8 (v : Str) : Str := v ++ List.replicate (8 - v.length) ' '

/-- the number of characters a string value occupies between the quotes of a FITS card: an apostrophe is stored
    doubled (`write_key` accepts a value for a standard keyword when this is at most 68) -/
def storedLen (v : Str) : Nat := v.length + v.count '\''

/-- trailing-blank padding in general: FITS pads the *stored* form to 8 characters, so a value with apostrophes gains
    `8 - (length + number of apostrophes)` blanks.  Equal to `pad8` for values without apostrophes. -/
def padFits (v : Str) : Str := v ++ List.replicate (8 - storedLen v) ' '

end PsV.Fits
