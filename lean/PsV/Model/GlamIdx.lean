import PsV.Model.Glam
/-!
# The index arithmetic of `slicemultiply` in the C types it is written in

`PsV.sliceMultiply` (Model/Glam.lean) computes flattened columns and un-flattened indices with natural
numbers.  The C code uses

```
int cols, i, j, k, stride;            unsigned int *ranges, **i;            long *section->i, *section->j
cols = 1;  for (i…) if (i != dim) cols *= a->ranges[i];
stride = 1; section->j[i] = 0;
for (k = dim+ndim-1; k > dim; k--) { section->j[i] += stride*a->i[k%ndim][i]; stride *= a->ranges[k%ndim]; }
…
stride = 1; for (k = dim+ndim-1; k > dim; k--) stride *= a->ranges[k%ndim];
j = section->j[i];
for (k = dim+1; k < dim+ndim; k++) { stride /= a->ranges[k%ndim]; a->i[k%ndim][i] = j/stride; j = j % stride; }
```

An `int` times an `unsigned int` is computed in `unsigned int` (modulo 2³²) and converted back to `int`
on assignment (two's complement, modulo 2³² for gcc/clang); `j/stride`, `j % stride` are signed
(truncating); a division by zero is undefined behaviour.  This file models exactly that on `Int` with
explicit conversions (`toU32`, `toI32`, `toI64`); `CRes.ub` marks a division by zero.
`PsV/Proofs/GlamIdx.lean` proves that below the bound `Π_{k≠dim} ranges[k] < 2³¹` every conversion is
the identity, no divisor is zero, and the C-typed routine is `sliceMultiply`.
-/
namespace PsV
open Arith

/-- conversion to `unsigned int` -/
def toU32 (z : Int) : Int := z % 4294967296
/-- conversion to `int` (two's complement) -/
def toI32 (z : Int) : Int := Int.bmod z 4294967296
/-- conversion to `long` (two's complement, LP64) -/
def toI64 (z : Int) : Int := Int.bmod z 18446744073709551616

/-- `int s; unsigned r; s *= r;` -/
def mulIU (s : Int) (r : Nat) : Int := toI32 (toU32 (toU32 s * toU32 r))

/-- outcome of a C routine: undefined behaviour (division by zero) / `return -1` / result -/
inductive CRes (β : Type) where
  | ub : CRes β
  | fail : CRes β
  | ok : β → CRes β

def CRes.ofOption {β : Type} : Option β → CRes β
  | none => .fail
  | some v => .ok v

/-- `cols = 1; for (i = 0; i < ndim; i++) if (i != dim) cols *= a->ranges[i];` -/
def colsC (ranges : List Nat) (dim : Nat) : Int :=
  (List.range ranges.length).foldl (fun c i => if i = dim then c else mulIU c (ranges.getD i 0)) 1

/-- the same product in `Nat`: the number of columns of the flattened section -/
def colsOf (ranges : List Nat) (dim : Nat) : Nat :=
  (List.range ranges.length).foldl (fun c i => if i = dim then c else c * ranges.getD i 0) 1

/-- `section->j[i] += stride*a->i[k%ndim][i]; stride *= a->ranges[k%ndim];` (`long += unsigned`, `int *= unsigned`) -/
def flatLoopC (ranges idx : List Nat) : List Nat → Int → Int → Int
  | [], _, col => col
  | k :: ks, stride, col =>
    flatLoopC ranges idx ks (mulIU stride (ranges.getD k 0))
      (toI64 (col + toU32 (toU32 stride * toU32 (idx.getD k 0))))

/-- flattened column number of an entry, as the C code computes it (a `long`) -/
def flattenColC (ranges idx : List Nat) (dim : Nat) : Int :=
  flatLoopC ranges idx (loopDims ranges.length dim) 1 0

/-- `stride /= ranges[k%ndim]; i[k%ndim] = j/stride; j = j % stride;`
(`int /= unsigned` is an unsigned division, the other two are signed; the quotient is stored in an
`unsigned int`) -/
def unflatLoopC (ranges : List Nat) : List Nat → Int → Int → List Nat → CRes (List Nat)
  | [], _, _, idx => .ok idx
  | k :: ks, stride, j, idx =>
    if toU32 (ranges.getD k 0) = 0 then .ub else
    let s := toI32 (toU32 stride / toU32 (ranges.getD k 0))
    if s = 0 then .ub else
    unflatLoopC ranges ks s (Int.tmod j s) (idx.set k (toU32 (Int.tdiv j s)).toNat)

/-- index tuple of the result entry in flattened row `row`, flattened column `col` (both `long`) -/
def unflattenIdxC (ranges : List Nat) (dim : Nat) (row col : Int) : CRes (List Nat) :=
  let ks := loopDims ranges.length dim
  let stride := ks.foldl (fun s k => mulIU s (ranges.getD k 0)) 1
  unflatLoopC ranges ks.reverse stride (toI32 col) ((List.replicate ranges.length 0).set dim (toU32 row).toNat)

variable {α : Type} [A : Arith α]

/-- the result entries contributed by one section entry `(j, col, v)` -/
def rowEntriesC (ranges' : List Nat) (b : Mat α) (dim j : Nat) (col : Int) (v : α) :
    List Nat → CRes (List (List Nat × α))
  | [] => .ok []
  | g :: gs =>
    if isZero (b.val j g) then rowEntriesC ranges' b dim j col v gs else
    match unflattenIdxC ranges' dim g col, rowEntriesC ranges' b dim j col v gs with
    | .ok i, .ok l => .ok ((i, A.mul (b.val j g) v) :: l)
    | _, _ => .ub

def sliceEntriesC (ranges ranges' : List Nat) (b : Mat α) (dim : Nat) :
    List (List Nat × α) → CRes (List (List Nat × α))
  | [] => .ok []
  | e :: es =>
    match rowEntriesC ranges' b dim (e.1.getD dim 0) (flattenColC ranges e.1 dim) e.2 (List.range b.ncol),
          sliceEntriesC ranges ranges' b dim es with
    | .ok l₁, .ok l₂ => .ok (l₁ ++ l₂)
    | _, _ => .ub

/-- `slicemultiply(a, b, dim)` with the index arithmetic in the C types (`a->ranges[dim] = b->ncol` is a
`size_t → unsigned int` conversion). -/
def sliceMultiplyC (a : NdSparse α) (b : Mat α) (dim : Nat) : CRes (NdSparse α) :=
  if b.nrow ≠ a.ranges.getD dim 0 then .fail else
  let ranges' := a.ranges.set dim (toU32 b.ncol).toNat
  match sliceEntriesC a.ranges ranges' b dim a.entries with
  | .ok es => .ok ⟨ranges', es⟩
  | _ => .ub

/-- the loop of `grideval` over the dimensions, with `sliceMultiplyC` -/
def gridLoopC : List (Dim α) → List (List α) → Nat → NdSparse α → CRes (NdSparse α)
  | [], [], _, nd => .ok nd
  | d :: ds, xs :: xss, i, nd =>
    match sliceMultiplyC nd (bsplineBasis d.knots d.nknots d.order xs).transpose i with
    | .ok nd' => gridLoopC ds xss (i+1) nd'
    | .fail => .fail
    | .ub => .ub
  | _, _, _, _ => .fail

/-- `splinetable::grideval` with the C-typed index arithmetic in every `slicemultiply` -/
def gridEvalC (dims : List (Dim α)) (coef : Int → α) (coords : List (List α)) : CRes (NdSparse α) :=
  if coords.length ≠ dims.length then .fail else
  gridLoopC dims coords 0 (coefTensor dims coef)

/-- **the decidable predicate the check evaluates on every generated case**: at every step of the
loop of `grideval` the flattened section has fewer than 2³¹ columns and the new range fits an
`unsigned int`.  (`ranges` = the index ranges of the tensor before step `i`.) -/
def gridIdxSafe : List Nat → Nat → List Nat → Bool
  | _, _, [] => true
  | ranges, i, n :: ns =>
    decide (colsOf ranges i < 2147483648) && decide (n < 4294967296) && gridIdxSafe (ranges.set i n) (i+1) ns

/-- the predicate for one `slicemultiply` call -/
def sliceIdxSafe (ranges : List Nat) (dim ncol : Nat) : Bool :=
  decide (colsOf ranges dim < 2147483648) && decide (ncol < 4294967296)

/-- `Π_d max(1, naxes_d, npts_d)`: a closed-form bound for every section `grideval` flattens -/
def sizeBound : List Nat → List Nat → Nat
  | a :: ns, l :: ls => max 1 (max a l) * sizeBound ns ls
  | _, _ => 1

end PsV
