import PsV.Model.Sync
/-!
# `SyncData` — the data that flows through the hand-shake of `walk_descents` / `evaluate_descent`

`PsV.Sync` abstracts the residuals by a comparison on trial *indices*.  This file puts the data back: the shared
solution vector `x` (read by every worker during its computation, overwritten by the coordinator's copy loop), the
per-worker records `descent_trials[w].{x_c, H1, nH1, residual}`, the coordinator's `res`, and what it finally copies
out.  Control decisions (`success`) are taken from the **data**, as in the C code, not from the index-level ghost
fields of `Sync.State`.

The three pieces of straight-line, single-threaded floating-point code are parameters (`Num`):
* `trial x k`   – body of `evaluate_descent` between its `unlock` and its second `lock`: from the contents of `x` it
                  reads (and the fixed `x_F`, `F`, `AtA_F`, `Atb_F`, `alpha[k]`) to the record `(x_c, H1, nH1, residual)`:
                  the loop `x_c[i] = (1-α)·x[F[i]] + α·x_F[i]`, projection, then `calc_residual`;
* `lt a b`      – `a.residual < b.residual`;
* `put x r`     – the copy loop `x[F[k]] = r.x_c[k]`.
Whatever sequence of floating-point operations these perform, it is a function of their arguments; the theorems in
`Props/C12.lean` show that the arguments — hence the operation sequences applied to every output — do not depend on
the schedule or on the number of workers.

A worker's computation is not atomic: its reads are taken at the transition that opens the compute region
(`hold` with state RUN → `lock2`: snapshot `rdx w` of `x`, `rda w` of the α index), its outputs are written at the
transition that closes it (`lock2` → `bcast`).  That the snapshot is still current when the region closes is a theorem
(`C12_compute_inputs_stable`), not an assumption.  `cnt k` counts evaluations of trial index `k`.
Mathlib-free, executable (the driver instantiates `D`, `R` with symbolic terms).
-/
namespace PsV.Sync

structure Num (D R : Type) where
  trial : D → Nat → R
  lt : R → R → Bool
  put : D → R → D

/-- a line-search problem: numerical semantics, the solution vector on entry, worker count, `n_alpha`, code variant -/
structure DProb (D R : Type) where
  num : Num D R
  x0 : D
  n : Nat
  m : Nat
  repaired : Bool

/-- the index-level configuration induced by the data: `less a b` = residual of trial `a` (computed from the entry
    value of `x`) is below that of trial `b` -/
def DProb.cfg {D R : Type} (P : DProb D R) : Cfg :=
  { n := P.n, m := P.m, repaired := P.repaired,
    less := fun a b => P.num.lt (P.num.trial P.x0 a) (P.num.trial P.x0 b) }

abbrev AccD (R : Type) := Option R × Option (Option R × Bool)

structure DState (D R : Type) where
  ctl : State
  x : D                                   -- contents of `x` (shared)
  rdx : Nat → D                           -- what worker w read from `x` in its current/last computation
  rda : Nat → Nat                         -- which α index worker w read in its current/last computation
  out : Nat → Option R                    -- descent_trials[w].{x_c,H1,nH1,residual}; none = never written (x_c NULL)
  res : Option R                          -- record whose residual is `res`
  pick : Option (Option R × Bool)         -- (record copied into x/H1, feasible)
  cnt : Nat → Nat                         -- evaluations of trial index k so far

/-- `selStep` on records instead of indices: the body of the `for (j ...)` result scan -/
def selStepD {R : Type} (lt : R → R → Bool) (m : Nat) (acc : AccD R) (k : Nat) (v : Option R) : AccD R :=
  match acc.2 with
  | some _ => acc
  | none =>
    if k = 0 then (v, none)
    else
      let red := match v, acc.1 with
        | some a, some b => lt a b
        | _, _ => false
      if red || k == m - 1 then (acc.1, some (v, red)) else acc

def scanD {D R : Type} (P : DProb D R) (out : Nat → Option R) (i : Nat) (acc : AccD R) : AccD R :=
  (List.range (P.cfg.active i)).foldl (fun a j => selStepD P.num.lt P.m a (i * P.n + j) (out j)) acc

/-- effect of the copy loop, executed at the moment `success` is set -/
def copyOut {D R : Type} (P : DProb D R) (x : D) (before after : Option (Option R × Bool)) : D :=
  match before, after with
  | none, some (some r, _) => P.num.put x r
  | _, _ => x

def initD {D R : Type} (P : DProb D R) : DState D R :=
  { ctl := init P.cfg, x := P.x0, rdx := fun _ => P.x0, rda := fun _ => 0, out := fun _ => none,
    res := none, pick := none, cnt := fun _ => 0 }

def stepCD {D R : Type} (P : DProb D R) (d : DState D R) : Option (DState D R) :=
  match stepC P.cfg d.ctl with
  | none => none
  | some s' =>
    match d.ctl.cpc with
    | .unlockB =>
      let acc := scanD P d.out d.ctl.blk (d.res, d.pick)
      some { d with ctl := { s' with cpc := loopHead P.cfg (d.ctl.blk + 1) acc.2.isSome },   -- `success` from the data
                    x := copyOut P d.x d.pick acc.2, res := acc.1, pick := acc.2 }
    | _ => some { d with ctl := s' }

def stepWD {D R : Type} (P : DProb D R) (d : DState D R) (w : Nat) : Option (DState D R) :=
  match stepW d.ctl w with
  | none => none
  | some s' =>
    match d.ctl.wpc w, d.ctl.st w with
    | .hold, .run =>      -- unlock after seeing RUN: the compute region opens, inputs are read from here on
      some { d with ctl := s', rdx := upd d.rdx w d.x, rda := upd d.rda w (d.ctl.aidx w) }
    | .lock2, _ =>        -- the compute region closes: outputs written, then lock + state = WAIT
      some { d with ctl := s', out := upd d.out w (some (P.num.trial (d.rdx w) (d.rda w))),
                    cnt := upd d.cnt (d.rda w) (d.cnt (d.rda w) + 1) }
    | _, _ => some { d with ctl := s' }

def stepD? {D R : Type} (P : DProb D R) (d : DState D R) (t : Nat) : Option (DState D R) :=
  match t with
  | 0 => stepCD P d
  | w+1 => if w < P.n then stepWD P d w else none

def spurD? {D R : Type} (P : DProb D R) (d : DState D R) (t : Nat) : Option (DState D R) :=
  (spur? P.cfg d.ctl t).map fun s' => { d with ctl := s' }

def runSchedD {D R : Type} (P : DProb D R) : DState D R → List (Nat × Bool) → Option (DState D R)
  | d, [] => some d
  | d, (t, sp) :: rest =>
    match (if sp then spurD? P d t else stepD? P d t) with
    | some d' => runSchedD P d' rest
    | none => none

/-- The single-threaded specification: evaluate the trials one after the other from the entry value of `x`, in index
    order, and select.  No threads, no blocks, no worker count. -/
def flatD {D R : Type} (P : DProb D R) (K : Nat) : AccD R :=
  (List.range K).foldl (fun a k => selStepD P.num.lt P.m a k (some (P.num.trial P.x0 k))) (none, none)

/-- outputs of the single-threaded specification: final `x`, the base record, (record copied out, feasible) -/
def seqD {D R : Type} (P : DProb D R) : D × AccD R :=
  let acc := flatD P P.m
  (copyOut P P.x0 none acc.2, acc)

/-- outputs of a run -/
def DState.outputs {D R : Type} (d : DState D R) : D × AccD R := (d.x, (d.res, d.pick))

/-! ### outside the hand-shake: the update-vs-refactor decision of `modify_factor` (cholesky_solve.c)

```
update = false;
if (L == NULL || nF == 0) update = false;
else if (c->fl > 0 && c->modfl > 0) update = fl / (9.0 * n_threads * (nH1 + nH2) * modfl) > 1.0;
if (nH1 + nH2 == 1) update = true;
```
in exact arithmetic (the quotient test is `9·n_threads·(nH1+nH2)·modfl < fl`).  `threads` is `get_nthreads()` in the tree
as published and the constant 16 after fixes/C12-2.diff.  The two outcomes (row updates of the factor / a fresh
factorisation) produce differently rounded factors. -/
def factorUpdate (threads : Nat) (haveL : Bool) (nF fl modfl nH : Nat) : Bool :=
  let upd := if !haveL || nF == 0 then false
             else if decide (0 < fl) && decide (0 < modfl) then decide (9 * threads * nH * modfl < fl) else false
  if nH == 1 then true else upd

end PsV.Sync
