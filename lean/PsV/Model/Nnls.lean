/-!
# C11 — non-negative least squares: verified checker, reference solver, BLOCK3 state machine

Everything here is exact (`Rat`), Mathlib-free and executable; the driver (`PsV/Driver/C11.lean`) runs exactly
these definitions and `PsV/Props/C11.lean` proves theorems about exactly these definitions.

* `kktCheck n A b x tol` — decides the tolerance-KKT conditions of `min ½xᵀAx − bᵀx, x ≥ 0`
  (`x ≥ 0`; gradient `g = Ax − b ≥ −tol_i`; `g_i ≤ tol_i` where `x_i > 0`), `tol` a per-component tolerance.
* `refNnls n A b` — reference solver: enumerate the 2ⁿ candidate supports, solve the square subsystem by exact
  Gauss–Jordan elimination, accept the first candidate that passes `kktCheck` with tolerance 0.
* `spdCert` — all pivots of the elimination without row exchanges are positive (⇔ all leading minors > 0) and the
  matrix is symmetric.  Used by the generator as the exact positive-definiteness certificate; proved equivalent to
  `vᵀAv > 0 for v ≠ 0` (`spdCert_iff` in `PsV/Props/C11.lean`, through the `LDLᵀ` steps of the elimination).
* `block3Run` — state-machine model of `nnls_normal_block3` (src/fitter/nnls.c) together with `walk_descents`
  (src/fitter/cholesky_solve.c).  The linear solve on the passive set (`modify_factor` + `cholmod_l_solve`), the
  residual evaluation of a trial point (`calc_residual`) and the dual update (`cholmod_l_sdmult`) are *parameters*
  (`B3Env`): the non-negativity invariant is proved for arbitrary ones.  The index arrays `F, G, H1, H2, Fprime,
  Gprime` (kept sorted and duplicate-free by the C code) are modelled as membership predicates; `G` is the
  complement of `F`, `Gprime` the complement of `F \ H1`.
-/
namespace PsV.Nnls

abbrev Vec := Nat → Rat
abbrev Mat := Nat → Nat → Rat

def sumTo (n : Nat) (f : Nat → Rat) : Rat := (List.range n).foldl (fun acc i => acc + f i) 0

def mulVec (n : Nat) (A : Mat) (x : Vec) : Vec := fun i => sumTo n fun j => A i j * x j

/-- gradient of `½xᵀAx − bᵀx` -/
def grad (n : Nat) (A : Mat) (b x : Vec) : Vec := fun i => mulVec n A x i - b i

/-- The verified checker: tolerance-KKT with per-component tolerance `tol`. -/
def kktCheck (n : Nat) (A : Mat) (b x tol : Vec) : Bool :=
  (List.range n).all fun i =>
    decide (0 ≤ x i) && decide (-(tol i) ≤ grad n A b x i) &&
      (decide (x i ≤ 0) || decide (grad n A b x i ≤ tol i))

/-- `Σ_i tol_i (x_i + z_i)`: the bound of `kkt_tol_gap` -/
def gapBound (n : Nat) (tol x z : Vec) : Rat := sumTo n fun i => tol i * (x i + z i)

/-- `½ dᵀAd` -/
def halfQuad (n : Nat) (A : Mat) (d : Vec) : Rat := (sumTo n fun i => d i * mulVec n A d i) / 2

/-- the distance test of the correspondence: `½ (x−z)ᵀA(x−z) ≤ Σ tol_i (x_i + z_i)` -/
def distCheck (n : Nat) (A : Mat) (tol x z : Vec) : Bool :=
  decide (halfQuad n A (fun i => x i - z i) ≤ gapBound n tol x z)

/-- tabulate on `[0,n)`; the state of the machine is kept in arrays so that the executable model does no
    recomputation -/
def tab {α : Type} (n : Nat) (f : Nat → α) : Array α := ((List.range n).map f).toArray

/-- `a[i]`, 0 beyond the end -/
def at0 (a : Array Rat) (i : Nat) : Rat := a.getD i 0
/-- `a[i]`, false beyond the end -/
def atF (a : Array Bool) (i : Nat) : Bool := a.getD i false

/-! ## exact elimination -/

/-- Gauss–Jordan on an augmented `k × (k+1)` system without row exchanges; `none` at a zero pivot.
Returns the reduced rows and the pivots met. -/
def gaussJordan (k : Nat) (M : Array (Array Rat)) : Option (Array (Array Rat) × List Rat) :=
  (List.range k).foldlM (fun (st : Array (Array Rat) × List Rat) c =>
    let rowc := st.1.getD c #[]
    let p := rowc.getD c 0
    if p = 0 then none else
    let rowc' := rowc.map (· / p)
    some (st.1.mapIdx (fun r row =>
        if r = c then rowc' else
          let f := row.getD c 0
          if f = 0 then row else Array.zipWith (fun a b => a - f * b) row rowc'), st.2 ++ [p])) (M, [])

def isSymm (n : Nat) (A : Mat) : Bool :=
  (List.range n).all fun i => (List.range n).all fun j => A i j == A j i

/-- exact positive-definiteness certificate: symmetric and every elimination pivot positive -/
def spdCert (n : Nat) (A : Mat) : Bool :=
  isSymm n A &&
  match gaussJordan n (((List.range n).map fun r => (((List.range n).map fun c => A r c) ++ [0]).toArray).toArray) with
  | none => false
  | some (_, ps) => ps.all fun p => decide (0 < p)

def maskSet (n mask : Nat) : List Nat := (List.range n).filter fun i => mask.testBit i

/-- scatter the subsystem solution back: zero outside the support -/
def scatter (n : Nat) (S : List Nat) (xs : Array Rat) : Array Rat :=
  (S.zip xs.toList).foldl (fun a (p : Nat × Rat) => a.setIfInBounds p.1 p.2) (Array.replicate n 0)

/-- exact solution of `A_SS x_S = b_S`, extended by zero (as an array of length `n`) -/
def solveOn (n : Nat) (A : Mat) (b : Vec) (S : List Nat) : Option (Array Rat) :=
  let k := S.length
  let M := (S.map fun r => ((S.map fun c => A r c) ++ [b r]).toArray).toArray
  match gaussJordan k M with
  | none => none
  | some (R, _) => some (scatter n S (R.map fun row => row.getD k 0))

def tryMask (n : Nat) (A : Mat) (b : Vec) (mask : Nat) : Option (Array Rat) :=
  match solveOn n A b (maskSet n mask) with
  | none => none
  | some x => if x.all (fun v => decide (0 ≤ v)) && kktCheck n A b (at0 x) (fun _ => 0) then some x else none

def refSearch (n : Nat) (A : Mat) (b : Vec) : (fuel : Nat) → (mask : Nat) → Option (Array Rat)
  | 0, _ => none
  | f+1, mask =>
    match tryMask n A b mask with
    | some x => some x
    | none => refSearch n A b f (mask+1)

/-- Reference NNLS solver (n ≤ 12 in the check): first support whose exact subsystem solution is a KKT point. -/
def refNnls (n : Nat) (A : Mat) (b : Vec) : Option (Array Rat) := refSearch n A b (2^n) 0

/-! ## BLOCK3 (`nnls_normal_block3` + `walk_descents`) as a state machine -/

/-- The environment of the solver: everything CHOLMOD computes.  Arbitrary in `block3_nonneg_invariant`. -/
structure B3Env where
  n : Nat
  /-- `kkt_tolerance = nvar * DBL_EPSILON * 1e5` -/
  tol : Rat
  /-- `modify_factor` + `cholmod_l_solve`: the solution on the passive set `F`, indexed by coordinate
      (only the entries on `F` are used) -/
  solve : (Nat → Bool) → Array Rat
  /-- `calc_residual` of a trial point on `F` -/
  resid : (Nat → Bool) → (Nat → Rat) → Rat
  /-- `y[G_] = AtA[G_,F_] x[F_] − Atb[G_]` -/
  dual : (Nat → Bool) → (Nat → Rat) → Nat → Rat
  /-- `max_iter = 120` -/
  maxIter : Nat
  /-- model-only bound on the `while (!feasible)` loop (the C loop has none) -/
  innerFuel : Nat

structure B3State where
  x : Array Rat
  y : Array Rat
  inF : Array Bool
  h1 : Array Bool
  /-- `optimal_on_F`: `x[F]` is the accepted solution of the subproblem on `F` -/
  optF : Bool
  /-- branch trace for the correspondence: (#accepted full steps, #boundary bindings, #projected walks) -/
  nFull : Nat
  nBoundary : Nat
  nWalk : Nat
  /-- … of which: walks in which NO trial step reduced the residual, so that the last (smallest) step was taken by the
      forced-step rule `i*n_threads + j == n_alpha-1` of `walk_descents` (`feasible = false`) -/
  nForced : Nat

inductive B3Exit where
  | converged   -- `if (nH2 == 0 && optimal_on_F) break;`  — the only exit that certifies KKT (with exact solves)
  | iterCap     -- `iter == max_iter`: "VARNING! Failed to converge"; no optimality claim
  | innerFuel   -- model only: the `while (!feasible)` loop exceeded `innerFuel` (the C code would still be looping)
deriving Repr, DecidableEq

/-- insertion into a list sorted in descending order (`qsort` with `double_rcmp`) -/
def insDesc (a : Rat) : List Rat → List Rat
  | [] => [a]
  | b :: bs => if b < a then a :: b :: bs else b :: insDesc a bs

def sortDesc (l : List Rat) : List Rat := l.foldr insDesc []

/-- one coordinate of the trial point of `evaluate_descent`: interpolate on `F`, project -/
def trialVal (inF : Nat → Bool) (x xF : Nat → Rat) (alpha : Rat) (i : Nat) : Rat :=
  if inF i then (if (1 - alpha) * x i + alpha * xF i < 0 then 0 else (1 - alpha) * x i + alpha * xF i) else x i

/-- … and whether it was clamped (goes to `H1`) -/
def trialClamp (inF : Nat → Bool) (x xF : Nat → Rat) (alpha : Rat) (i : Nat) : Bool :=
  inF i && decide ((1 - alpha) * x i + alpha * xF i < 0)

/-- the distances tried by `walk_descents` after `alpha[0] = 0`: `1`, then the constraint crossings in (0,1), descending -/
def walkAlphas (n : Nat) (inF : Nat → Bool) (x xF : Nat → Rat) : List Rat :=
  1 :: sortDesc (((List.range n).filter fun i => inF i && decide (xF i < 0)).filterMap fun i =>
      let a := x i / (x i - xF i)
      if a < 1 ∧ 0 < a then some a else none)

/-- scan the trials in order; accept the first one that reduces the residual, or the last one.
    Returns the accepted distance and `feasible`. -/
def walkScan (E : B3Env) (inF : Nat → Bool) (x xF : Nat → Rat) (res0 : Rat) : List Rat → Rat × Bool
  | [] => (0, false)          -- unreachable: the list starts with 1
  | [a] => (a, decide (E.resid inF (trialVal inF x xF a) < res0))
  | a :: b :: rest =>
    if E.resid inF (trialVal inF x xF a) < res0 then (a, true) else walkScan E inF x xF res0 (b :: rest)

/-- `walk_descents`: the accepted distance along the descent vector and `feasible` -/
def walkDescents (E : B3Env) (inF : Nat → Bool) (x xF : Nat → Rat) : Rat × Bool :=
  walkScan E inF x xF (E.resid inF (trialVal inF x xF 0)) (walkAlphas E.n inF x xF)

def countB (n : Nat) (p : Nat → Bool) : Nat := ((List.range n).filter p).length

/-- the `while (!feasible)` loop; `h2` are the pending additions (non-empty only on entry) -/
def innerLoop (E : B3Env) : (fuel : Nat) → B3State → (h2 : Array Bool) → Option B3State
  | 0, _, _ => none
  | fuel+1, s, h2 =>
    -- modify_factor: F := (F \ H1) ∪ H2, H1 = H2 = ∅
    let inF := tab E.n fun i => (atF s.inF i && !atF s.h1 i) || atF h2 i
    let xF := E.solve (atF inF)
    let nInf := countB E.n fun i => atF inF i && decide (at0 xF i < 0)
    let nBnd := countB E.n fun i => atF inF i && decide (at0 xF i < 0) && decide (at0 s.x i < E.tol)
    if nInf = 0 then
      -- "Solution entirely feasible": accept it
      some { s with x := tab E.n fun i => if atF inF i then at0 xF i else at0 s.x i, inF := inF, h1 := #[],
                    optF := true, nFull := s.nFull + 1 }
    else if nInf = nBnd then
      -- "descent at boundary": bind the negative coefficients and try again
      let h1 := tab E.n fun i => atF inF i && decide (at0 xF i < 0)
      innerLoop E fuel { s with x := tab E.n fun i => if atF h1 i then 0 else at0 s.x i, inF := inF, h1 := h1,
                                nBoundary := s.nBoundary + 1 } #[]
    else
      let w := walkDescents E (atF inF) (at0 s.x) (at0 xF)
      let s' : B3State := { s with x := tab E.n (trialVal (atF inF) (at0 s.x) (at0 xF) w.1), inF := inF,
                                   h1 := tab E.n (trialClamp (atF inF) (at0 s.x) (at0 xF) w.1), optF := false,
                                   nWalk := s.nWalk + 1, nForced := s.nForced + (if w.2 then 0 else 1) }
      if w.2 then some s' else innerLoop E fuel s' #[]

/-- the `for (iter …)` loop of the repaired code -/
def outerLoop (E : B3Env) : (fuel : Nat) → B3State → B3State × B3Exit
  | 0, s => (s, .iterCap)
  | fuel+1, s =>
    -- H2: large negative multipliers on G_ (complement of F \ H1)
    let h2raw : Nat → Bool := fun i => !(atF s.inF i && !atF s.h1 i) && decide (at0 s.y i < -E.tol)
    -- make H1 and H2 disjoint
    let h1 := tab E.n fun i => atF s.h1 i && !h2raw i
    let h2 := tab E.n fun i => h2raw i && !atF s.h1 i
    if countB E.n (atF h2) = 0 && s.optF then (s, .converged) else
    match innerLoop E E.innerFuel { s with h1 := h1 } h2 with
    | none => (s, .innerFuel)
    | some s1 =>
      -- F_ = F \ H1; update y on G_, zero x on G_ and y on F_
      let inF_ := tab E.n fun i => atF s1.inF i && !atF s1.h1 i
      let s2 : B3State := { s1 with y := tab E.n fun i => if atF inF_ i then 0 else E.dual (atF inF_) (at0 s1.x) i,
                                    x := tab E.n fun i => if atF inF_ i then at0 s1.x i else 0 }
      outerLoop E fuel s2

/-- initial state: `x = 0`, `y = −Atb` (given as `y0`), everything constrained -/
def b3Init (n : Nat) (y0 : Nat → Rat) : B3State :=
  { x := #[], y := tab n y0, inF := #[], h1 := #[], optF := true, nFull := 0, nBoundary := 0, nWalk := 0, nForced := 0 }

def block3Run (E : B3Env) (y0 : Nat → Rat) : B3State × B3Exit := outerLoop E E.maxIter (b3Init E.n y0)

/-- the exact environment for a system `(A, b)`: exact solves, exact residual `xᵀ(Ax − 2b)` on `F`, exact duals -/
def exactEnv (n : Nat) (A : Mat) (b : Vec) (tol : Rat) (maxIter innerFuel : Nat) : B3Env :=
  { n := n, tol := tol,
    solve := fun inF => match solveOn n A b ((List.range n).filter inF) with
      | some x => x
      | none => #[],
    resid := fun inF xc => sumTo n fun i => if inF i then xc i * ((sumTo n fun j => if inF j then A i j * xc j else 0) - 2 * b i) else 0,
    dual := fun inF_ x i => (sumTo n fun j => if inF_ j then A i j * x j else 0) - b i,
    maxIter := maxIter, innerFuel := innerFuel }

end PsV.Nnls
