import PsV.Model.Eval
/-!
# The odometer loops of `ndsplineeval_core` and its templated clones, as written

```
tablepos = Σ (centers[n]-order[n])*strides[n];  decomposedposition[*] = 0;
basis_tree[0] = 1;  basis_tree[n+1] = basis_tree[n]*localbasis[n][0];
n = 0;
while (true) {
  for (i ≤ order[ndim-1]) result += basis_tree[ndim-1]*localbasis[ndim-1][i]*coefficients[tablepos+i];
  if (++n == nchunks) break;
  tablepos += strides[ndim-2];  decomposedposition[ndim-2]++;
  for (i = ndim-2; decomposedposition[i] > order[i]; i--) {          // carry
    decomposedposition[i-1]++;  tablepos += strides[i-1] - decomposedposition[i]*strides[i];  decomposedposition[i] = 0; }
  for (j = i; j < ndim-1; j++) basis_tree[j+1] = basis_tree[j]*localbasis[j][decomposedposition[j]];
}
```
The templated cores (`_coreD`, `_coreD_FixedOrder`, `_core_KnownOrder`) have the shape
`for (n < nchunks-1) { chunk; advance; }  chunk;` with the loop bounds taken from template arguments.

Outer dimensions (all but the last) are kept **least significant first** (`ODim` list reversed), which is
the order in which the carry loop visits them.  `PsV.Proofs.Odometer` proves these loops equal to the
nested recursion `PsV.walk` that the evaluation theorems are about.
-/
namespace PsV
open Arith
variable {α : Type} [A : Arith α]

/-- one outer dimension: `order[j]`, `strides[j]`, `localbasis[j][·]` -/
structure ODim (α : Type) where
  order : Nat
  stride : Nat
  row : List α

def ODim.at (d : ODim α) (a : Nat) : α := d.row.getD a A.zero

/-- the carry loop, entered with the digit `p` of the current dimension already incremented -/
def carry : List (ODim α) → List Nat → Int → List Nat × Int × Nat
  | d :: rest, p :: ps, tp =>
    if p > d.order then
      match rest, ps with
      | e :: _, q :: qs =>
        -- decomposedposition[i-1]++; tablepos += strides[i-1] - decomposedposition[i]*strides[i]; decomposedposition[i] = 0
        let r := carry rest ((q + 1) :: qs) (tp + e.stride - p * d.stride)
        (0 :: r.1, r.2.1, r.2.2 + 1)
      | _, _ => (0 :: ps, tp - p * d.stride, 1)   -- never reached: the loop stops before the top digit overflows
    else (p :: ps, tp, 0)
  | _, ps, tp => (ps, tp, 0)

/-- `tablepos += strides[ndim-2]; decomposedposition[ndim-2]++;` followed by the carry loop;
returns the new digits, the new `tablepos` and the number of carries -/
def advance : List (ODim α) → List Nat → Int → List Nat × Int × Nat
  | d :: rest, p :: ps, tp => carry (d :: rest) ((p + 1) :: ps) (tp + d.stride)
  | _, ps, tp => (ps, tp, 0)

/-- `basis_tree` for given digits, top level (= `basis_tree[ndim-1]`) first:
`basis_tree[j+1] = basis_tree[j]*localbasis[j][decomposedposition[j]]` -/
def treeOf : List (ODim α) → List Nat → List α
  | d :: rest, a :: ps =>
    let t := treeOf rest ps
    smul (t.headD A.zero) (d.at a) :: t
  | _, _ => [A.rnd A.one]

/-- the update loop `for (j = i; j < ndim-1; j++) basis_tree[j+1] = …` after `k` carries: the `k+1`
lowest levels are recomputed from the old entry above them -/
def rebuild : Nat → List (ODim α) → List Nat → List α → List α
  | m + 1, d :: rest, a :: ps, _ :: bt =>
    let t := rebuild m rest ps bt
    smul (t.headD A.zero) (d.at a) :: t
  | _, _, _, bt => bt

structure OdoState (α : Type) where
  pos : List Nat      -- decomposedposition, least significant outer dimension first
  tablepos : Int
  tree : List α       -- basis_tree[ndim-1], …, basis_tree[0]
  result : α

/-- the chunk: `for (i ≤ order[ndim-1]) result += basis_tree[ndim-1]*localbasis[ndim-1][i]*coefficients[tablepos+i]` -/
def chunk (coef : Int → α) (last : List α) (s : OdoState α) : OdoState α :=
  { s with result := walkLast coef (s.tree.headD A.zero) last s.tablepos s.result }

/-- advance + basis-tree update -/
def tick (ds : List (ODim α)) (s : OdoState α) : OdoState α :=
  let r := advance ds s.pos s.tablepos
  { s with pos := r.1, tablepos := r.2.1, tree := rebuild (r.2.2 + 1) ds r.1 s.tree }

/-- `while (true) { chunk; if (++n == nchunks) break; advance; }` (generic core); fuel = `nchunks` -/
def loopGeneric (coef : Int → α) (ds : List (ODim α)) (last : List α) (nchunks : Nat) :
    (fuel : Nat) → (n : Nat) → OdoState α → α
  | 0, _, s => s.result
  | f + 1, n, s =>
    let s1 := chunk coef last s
    if n + 1 = nchunks then s1.result else loopGeneric coef ds last nchunks f (n + 1) (tick ds s1)

/-- `for (n = 0; n < nchunks-1; n++) { chunk; advance; }  chunk;` (templated cores) -/
def loopTemplated (coef : Int → α) (ds : List (ODim α)) (last : List α) : (iters : Nat) → OdoState α → α
  | 0, s => (chunk coef last s).result
  | k + 1, s => loopTemplated coef ds last k (tick ds (chunk coef last s))

/-- `nchunks = Π (order[n]+1)` over the outer dimensions -/
def nchunksOf : List (ODim α) → Nat
  | [] => 1
  | d :: rest => (d.order + 1) * nchunksOf rest

def initState (ds : List (ODim α)) (start : Int) : OdoState α :=
  ⟨ds.map fun _ => 0, start, treeOf ds (ds.map fun _ => 0), A.rnd A.zero⟩

/-- the generic core `ndsplineeval_core` on outer dimensions `ds` (least significant first) and last row -/
def coreGeneric (coef : Int → α) (ds : List (ODim α)) (last : List α) (start : Int) : α :=
  loopGeneric coef ds last (nchunksOf ds) (nchunksOf ds) 0 (initState ds start)

/-- the templated cores: loop bounds `bounds` (template arguments `O` / `Orders...`, or the table's
orders for `_coreD`) decide the number of chunks; everything else uses the table's data -/
def coreTemplated (coef : Int → α) (ds : List (ODim α)) (last : List α) (start : Int) (nchunks : Nat) : α :=
  loopTemplated coef ds last (nchunks - 1) (initState ds start)

/-- the outer rows in `walk`'s (most significant first) format, followed by the last dimension -/
def rowsOf (ds : List (ODim α)) (last : List α) : List (Nat × List α) :=
  (ds.reverse.map fun d => (d.stride, (List.range (d.order + 1)).map d.at)) ++ [(1, last)]

end PsV
