/-!
# C19 — allocation events, peak, and the vocabulary the generated call-site tables are written in

Hand-written, Mathlib-free.  `PsV/Generated/C19.lean` (regenerated from the source on every run) imports this
file and lists the `allocate<T>(n)` / `deallocate(p, n)` calls of `read_fits_core` and `convolve` as `Block`s.
-/
namespace PsV.C19

/-- One request to the table's allocator (bytes = count · sizeof(T)). -/
inductive Event where
  | alloc (bytes : Nat)
  | free (bytes : Nat)
  deriving Repr, DecidableEq

/-- Bytes live after an event. A `free` larger than what is live would be a modelling error; `balanced`
    below says it never happens, so the truncated subtraction is never exercised. -/
def step (live : Nat) : Event → Nat
  | .alloc n => live + n
  | .free n => live - n

/-- Largest number of live bytes at any moment (before, between and after the events), starting from `live`. -/
def peakFrom (live : Nat) : List Event → Nat
  | [] => live
  | e :: es => max live (peakFrom (step live e) es)

def liveAfter (live : Nat) : List Event → Nat
  | [] => live
  | e :: es => liveAfter (step live e) es

/-- No `free` releases more than is live. -/
def balanced (live : Nat) : List Event → Bool
  | [] => true
  | .alloc n :: es => balanced (live + n) es
  | .free n :: es => decide (n ≤ live) && balanced (live - n) es

def peak (es : List Event) : Nat := peakFrom 0 es

/-- One dimension of the table as stored in the file: spline order, length of the knot vector, size of the
    coefficient image along this axis. -/
structure Dim where
  order : Nat
  nknots : Nat
  naxes : Nat
  deriving Repr, DecidableEq

/-- One auxiliary card as `read_fits_core` sees it: `keylen = strlen(key)+1`, `vallen = strlen(value)+1` of the raw
    card value cfitsio returns (a string value still carries its enclosing quotes, embedded quotes doubled), and
    `storedlen = strlen(stored)+1` of the string the table keeps (enclosing quotes removed, doubled quotes
    un-doubled; equal to `vallen` exactly when the raw value does not start with a quote). -/
structure AuxEntry where
  keylen : Nat
  vallen : Nat
  storedlen : Nat
  deriving Repr, DecidableEq

/-- A table file together with the convolution declared to `estimateMemory`. -/
structure Params where
  /-- `sizeof(splinetable<Alloc>)` for the allocator in use -/
  objsize : Nat
  dims : List Dim
  aux : List AuxEntry
  /-- number of non-reserved cards in the header of the last `KNOTSn` extension -/
  nauxKnotsHdu : Nat
  /-- number of kernel knots (`1` = no convolution) -/
  n : Nat
  /-- convolved dimension -/
  cdim : Nat
  deriving Repr

/-- Values of the C variables that occur in the count argument of an allocator call. -/
structure SiteEnv where
  ndim : Nat := 0
  naux : Nat := 0
  keylen : Nat := 0
  valuelen : Nat := 0
  /-- the local `storedlen` of `read_fits_core` -/
  storedlen : Nat := 0
  /-- `strides[0]*naxes[0]` of the table as it is *before* the shape update -/
  ncoeffs : Nat := 0
  /-- the local `arraysize` of `convolve` (coefficient count of the convolved table) -/
  arraysize : Nat := 0
  nknots : Nat := 0
  order : Nat := 0

inductive SiteKind where
  | alloc
  | free

/-- An `allocate<T>(count)` or `deallocate(p, count)` call: element size, count expression, and the condition
    (`if (…)` around the call inside its loop body; `fun _ => true` for an unconditional call) under which it is
    executed on the path that does not throw. -/
structure Site where
  kind : SiteKind
  elemSize : Nat
  count : SiteEnv → Nat
  cond : SiteEnv → Bool

/-- Source-order structure of the allocator calls of a function. -/
inductive Block where
  /-- a call at the top level of the function -/
  | one (s : Site)
  /-- calls in the body of the loop that runs once per auxiliary card -/
  | forAux (body : List Site)
  /-- calls in the body of a `for (i = 0; i < ndim; i++)` loop -/
  | forDim (body : List Site)
  /-- the statements that install the post-convolution `nknots[dim]`, `order[dim]`, `naxes[dim]` -/
  | updateShape

def evalSite (env : SiteEnv) (s : Site) : Event :=
  match s.kind with
  | .alloc => .alloc (s.count env * s.elemSize)
  | .free => .free (s.count env * s.elemSize)

/-- The calls of a straight-line body that are executed in environment `env`, in source order. -/
def evalSites (env : SiteEnv) (body : List Site) : List Event :=
  (body.filter (fun s => s.cond env)).map (evalSite env)

def prodNaxes : List Dim → Nat
  | [] => 1
  | d :: ds => d.naxes * prodNaxes ds

end PsV.C19
