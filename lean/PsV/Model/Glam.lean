import PsV.Model.Eval
/-!
# Model of src/fitter/splineutil.c (array arithmetic shared by grideval and glamfit) and of
include/photospline/detail/grideval.h

* `NdSparse`  – `struct ndsparse`: index ranges + a list of (index tuple, value).  Its meaning is
  `NdSparse.get` (the sum of the listed values at an index; nothing listed = 0), which is also what
  CHOLMOD's `triplet_to_sparse` makes of duplicate entries.
* `Mat`       – a CHOLMOD sparse/dense matrix, by its dimensions and entry function
  (`tabulate2` memoises the entries for the compiled driver and is proved to be the identity).
* `bsplineBasis` – `bsplinebasis()`: rows = abscissae, columns = basis functions, values from the
  recursive right-continuous `bsplineG` (model of the static `bspline` of splineutil.c),
  so a point left of the first knot, at or right of the last knot gives an all-zero row.
* `flattenCol` / `unflattenIdx` / `sliceMultiply` – `slicemultiply()`: rotate so that `dim` is in
  front, flatten the other indices (mixed radix, the dimension after `dim` most significant, wrapping
  round), multiply by `bᵀ`, undo.  CHOLMOD's product is modelled entry-wise: every
  (section entry (j, col, v), result row g with `b[j,g]` stored, i.e. non-zero) contributes
  `b[j,g]·v` at `(g, col)`; CHOLMOD adds contributions to the same place up, here they stay separate
  list entries and `get` adds them.
* `gridEval`  – `splinetable::grideval`.
-/
namespace PsV
open Arith
variable {α : Type} [A : Arith α]

/-- `f 0 + … + f (n-1)` -/
def sumTo : Nat → (Nat → α) → α
  | 0, _ => A.zero
  | n+1, f => A.add (sumTo n f) (f n)

/-- `x == 0` for a non-NaN value (neither below nor above zero) -/
def isZero (a : α) : Bool := !(A.lt a A.zero || A.lt A.zero a)

/-- lookup in a table of values of `f`, falling back to `f` outside the table -/
def tabGet (arr : Array (Array α)) (f : Nat → Nat → α) (i j : Nat) : α :=
  match arr[i]? with
  | some row => (match row[j]? with | some v => v | none => f i j)
  | none => f i j

/-- the table of values of `f` on `[0,n) × [0,m)` -/
def tabOf (n m : Nat) (f : Nat → Nat → α) : Array (Array α) :=
  Array.ofFn (n := n) fun i => Array.ofFn (n := m) fun j => f i.val j.val

/-- memoised `f`; equal to `f` everywhere (`tabulate2_eq`).  (The compiler eta-expands this definition, so callers
that want the table built once bind `tabOf n m f` themselves and keep `tabGet table f`.) -/
def tabulate2 (n m : Nat) (f : Nat → Nat → α) : Nat → Nat → α :=
  tabGet (tabOf n m f) f

structure NdSparse (α : Type) where
  ranges : List Nat
  entries : List (List Nat × α)

/-- value of the tensor at an index tuple -/
def NdSparse.get (s : NdSparse α) (idx : List Nat) : α :=
  s.entries.foldr (fun e acc => if e.1 = idx then A.add e.2 acc else acc) A.zero

/-- number of list entries at an index tuple: the number of terms `get` adds up there -/
def NdSparse.nlisted (s : NdSparse α) (idx : List Nat) : Nat :=
  s.entries.foldr (fun e n => if e.1 = idx then n + 1 else n) 0

structure Mat (α : Type) where
  nrow : Nat
  ncol : Nat
  val : Nat → Nat → α

def Mat.transpose (m : Mat α) : Mat α := ⟨m.ncol, m.nrow, fun i j => m.val j i⟩

/-- the static `bspline(knots, x, i, n)` of splineutil.c (with repair C17-1: a term whose knot span
vanishes is skipped — without the guard a repeated knot makes the term `0/0 = NaN` for every `x`):
```
if (n == 0) return (x >= knots[i] && x < knots[i+1]) ? 1.0 : 0.0;
d1 = knots[i+n] - knots[i];  d2 = knots[i+n+1] - knots[i+1];  result = 0.0;
if (d1 != 0) result  = (x - knots[i])*bspline(knots, x, i, n-1)/d1;
if (d2 != 0) result += (knots[i+n+1] - x)*bspline(knots, x, i+1, n-1)/d2;
``` -/
def bsplineG (t : Int → α) (x : α) : (n : Nat) → (i : Int) → α
  | 0, i => if A.le (t i) x && A.lt x (t (i+1)) then A.one else A.zero
  | n+1, i =>
    let d1 := A.sub (t (i + n + 1)) (t i)
    let d2 := A.sub (t (i + n + 2)) (t (i + 1))
    let r1 := if isZero d1 then A.zero else A.div (A.mul (A.sub x (t i)) (bsplineG t x n i)) d1
    if isZero d2 then r1 else A.add r1 (A.div (A.mul (A.sub (t (i + n + 2)) x) (bsplineG t x n (i+1))) d2)

/-- `bsplinebasis(knots, nknots, x, npts, order)`: `npts × (nknots-order-1)` -/
def bsplineBasis (t : Int → α) (nknots order : Nat) (xs : List α) : Mat α :=
  let f : Nat → Nat → α := fun row col =>
    match xs[row]? with
    | some x => bsplineG t x order (col : Int)
    | none => A.zero
  let table := tabOf xs.length (nknots - order - 1) f      -- computed once, here
  ⟨xs.length, nknots - order - 1, tabGet table f⟩

/-- `k % ndim` for `k = dim+ndim-1, dim+ndim-2, …, dim+1`: the order in which the flattening loop of
`slicemultiply` visits the other dimensions (fastest running first) -/
def loopDims (ndim dim : Nat) : List Nat :=
  (List.range (ndim - 1)).map fun m => (dim + ndim - 1 - m) % ndim

/-- `for (k …) { col += stride*a->i[k % ndim][i]; stride *= a->ranges[k % ndim]; }` -/
def flatLoop (ranges idx : List Nat) : List Nat → Nat → Nat → Nat
  | [], _, col => col
  | k :: ks, stride, col =>
    flatLoop ranges idx ks (stride * ranges.getD k 0) (col + stride * idx.getD k 0)

/-- flattened column number of an entry -/
def flattenCol (ranges idx : List Nat) (dim : Nat) : Nat :=
  flatLoop ranges idx (loopDims ranges.length dim) 1 0

/-- `for (k = dim+1; k < dim+ndim; k++) { stride /= ranges[k%ndim]; i[k%ndim] = j/stride; j = j % stride; }` -/
def unflatLoop (ranges : List Nat) : List Nat → Nat → Nat → List Nat → List Nat
  | [], _, _, idx => idx
  | k :: ks, stride, j, idx =>
    let s := stride / ranges.getD k 0
    unflatLoop ranges ks s (j % s) (idx.set k (j / s))

/-- index tuple of the result entry in flattened row `row`, flattened column `col` -/
def unflattenIdx (ranges : List Nat) (dim row col : Nat) : List Nat :=
  let ks := loopDims ranges.length dim
  let stride := ks.foldl (fun s k => s * ranges.getD k 0) 1
  unflatLoop ranges ks.reverse stride col ((List.replicate ranges.length 0).set dim row)

/-- `slicemultiply(a, b, dim)`: `none` = the dimension check fails (`return -1`).
Result index range along `dim` is `b.ncol`; entry `(…g…)` is `Σ_j b[j,g]·a(…j…)`. -/
def sliceMultiply (a : NdSparse α) (b : Mat α) (dim : Nat) : Option (NdSparse α) :=
  if b.nrow ≠ a.ranges.getD dim 0 then none else
  let ranges' := a.ranges.set dim b.ncol
  some ⟨ranges',
    a.entries.flatMap fun e =>
      let j := e.1.getD dim 0
      let col := flattenCol a.ranges e.1 dim
      (List.range b.ncol).filterMap fun g =>
        if isZero (b.val j g) then none
        else some (unflattenIdx ranges' dim g col, A.mul (b.val j g) e.2)⟩

/-- `indices[dim] = coord / strides[dim]; coord = coord % strides[dim];` -/
def decodeStrides : List Nat → Nat → List Nat
  | [], _ => []
  | s :: ss, coord => coord / s :: decodeStrides ss (coord % s)

/-- the non-zero coefficients as an n-tuple list, ranges set to `naxes` by hand -/
def coefTensor (dims : List (Dim α)) (coef : Int → α) : NdSparse α :=
  let size := match dims with
    | [] => 0
    | d :: _ => d.naxes * d.stride
  ⟨dims.map (·.naxes),
   (List.range size).filterMap fun (i : Nat) =>
     if isZero (coef (Int.ofNat i)) then none
     else some (decodeStrides (dims.map (·.stride)) i, coef (Int.ofNat i))⟩

/-- `for (i < ndim) slicemultiply(nd, transpose(bsplinebasis(knots[i], …, coords[i], …)), i)` -/
def gridLoop : List (Dim α) → List (List α) → Nat → NdSparse α → Option (NdSparse α)
  | [], [], _, nd => some nd
  | d :: ds, xs :: xss, i, nd =>
    match sliceMultiply nd (bsplineBasis d.knots d.nknots d.order xs).transpose i with
    | none => none
    | some nd' => gridLoop ds xss (i+1) nd'
  | _, _, _, _ => none

/-- number of roundings every term `coef · Π_d B_d` of a grid value has gone through when the chain of
slice multiplications is done: per dimension `5·order` in the recursive `bspline()` (each level: one
subtraction from / of `x`, one product, one knot difference, one quotient, one sum) and one for the
product with the basis value (`grideval_rounding` in Proofs/GlamRound.lean) -/
def gridRoundCount : List (Dim α) → Nat
  | [] => 0
  | d :: ds => 5 * d.order + 1 + gridRoundCount ds

/-- `splinetable::grideval(coords)` (with repair C17-2: an all-zero table yields an empty result instead
of the exception "Tried to allocate an ndsparse with 0 entries"); `none` = an exception: wrong number of
coordinate vectors. -/
def gridEval (dims : List (Dim α)) (coef : Int → α) (coords : List (List α)) : Option (NdSparse α) :=
  if coords.length ≠ dims.length then none else
  gridLoop dims coords 0 (coefTensor dims coef)

end PsV
