import PsV.Model.Fit
/-!
# `splinetable::fit` as a whole: integer widths, the occupied-table check, the failure paths

`PsV.Fit.fit` (Model/Fit.lean) is the sanity block followed by the index arithmetic in `Nat`.  This file adds what was
an *assumption* there:

* `fitBodyW` — the same index arithmetic with the C integer types: every quantity that the code keeps in an `int`
  or a `long` (`Width`) is checked to fit (`inInt`, `inLong`; signed overflow is undefined behaviour, an out-of-range
  conversion implementation-defined — the model stops with `Fault.width`), every unsigned quantity wraps
  (`% U32`, `% U64`, `wsub`).  The checks are placed where the C code computes the value.  They are *conservative*
  in two places (stated there); the counters of `bsplinebasis` are exact.
* `NoWrapB` — a decidable predicate on the arguments; `Props/C13.lean` proves that it (with `Needs`) makes `fitBodyW`
  fall through, that it implies the old assumption `SizesFit`, that the sanity block does **not** imply it, and that
  its `bsplinebasis` clause is necessary.
* `fitEntry` — the whole member function as it is at /repo HEAD: the occupied-table check (C20, commit b57286a) in front
  of the sanity block, and the `storage_guard` (commit 09c2ac1) that empties the table when anything fails after the
  sanity block.  `Ext` is what the arguments do not determine (an allocation throws, `glamfit_complex` returns non-zero).
* `cGlamfitEntry` — the C wrapper on top of it.

Mathlib-free, executable: `psvdriver C13` runs `fitEntry` / `cGlamfitEntry`.
-/
namespace PsV.Fit

def I32 : Nat := 2^31
def I64 : Nat := 2^63

/-- the value is held in a (non-negative) C `int` -/
def inInt (w : Width) (v : Nat) : Out := if v < I32 then .ok else .fault (.width w v)
/-- the value is held in a (non-negative) C `long` -/
def inLong (w : Width) (v : Nat) : Out := if v < I64 then .ok else .fault (.width w v)
/-- the value is held in a `uint32_t` whose wrap-around the code does not expect -/
def inU32 (w : Width) (v : Nat) : Out := if v < U32 then .ok else .fault (.width w v)

/-- `bsplinebasis(knots, size_t nknots, x, size_t npts, int order, c)` with its `int row, col, k`:
```
k = 0;
for (col = 0; col < nsplines; col++)
  for (row = 0; row < npts; row++, k++)
    basis->x[k] = bspline(knots, x[row], col, order);
```
`k = col*npts + row` on entry of the body; `k++`, `row++`, `col++` are signed increments.  `bspline(knots,x,int i,int n)`
forms `i+n+1` in `int`. -/
def bsplineBasisW (nk npts xlen order : Nat) : Out :=
  let ns := nsplinesOf nk order
  seqAll [
    inInt .orderInt order,
    forN ns fun col => seqAll [
      forN npts fun row => seqAll [
        rd .coordsX xlen row,
        inInt .knotIdxInt (col + order + 1),
        bsplineReads nk order col,
        rd .basisX (npts * ns) (col * npts + row),
        inInt .basisRow (row + 1),                  -- row++
        inInt .basisK (col * npts + row + 1)],      -- k++
      inInt .basisCol (col + 1)]]                   -- col++

/-- `bsplinebasis` with fixes/C13-7.diff (proposed): `size_t row, col, k`.  The counters can no longer overflow before the
    loop bounds (`npts`, `nsplines`, and `npts*nsplines`, all `size_t`) do; `col` is still passed to `bspline` as an `int`. -/
def bsplineBasisW64 (nk npts xlen order : Nat) : Out :=
  let ns := nsplinesOf nk order
  seqAll [
    inInt .orderInt order,
    forN ns fun col => forN npts fun row => seqAll [
      rd .coordsX xlen row,
      inInt .basisCol col,                          -- `col` → `int i` of bspline
      inInt .knotIdxInt (col + order + 1),
      bsplineReads nk order col,
      rd .basisX ((npts * ns) % U64) (col * npts + row)]]

/-- `calc_penalty` with `uint32_t order, porder`, `long row`, and the call `divided_diffs(int order, int porder, int j, …)`.
    Inside `divided_diffs` every index is an `int` expression; the largest one over the whole recursion is
    `j + porder + order` (`knots[j'+order+1]` with `j' = j + porder - 1`), checked once per row (conservative by at most
    one when `porder = 0`, where no knot is read).  `divd` has `(porder+1) mod 2^32` cells, the triplet arrays
    `(nrows * (porder+1)) mod 2^64`. -/
def calcPenaltyW (vlaExtra ndim : Nat) (nspl : List Nat) (dim nk order porder : Nat) : Out :=
  let nrows := wsub (nspl.getD dim 0) porder
  let p1 := (porder + 1) % U32
  seqAll [
    vla .divd p1,
    rd .nsplines nspl.length dim,
    forN nrows fun row => seqAll [
      inInt .orderInt order, inInt .porderInt porder, inInt .rowInt row,
      inInt .vlaInt (order + vlaExtra),
      inInt .knotIdxInt (row + porder + order),
      dividedDiffs (order + vlaExtra) nk order porder row p1,
      forN p1 fun k => seqAll [
        rd .trip ((nrows * p1) % U64) (row * p1 + k),
        rd .divd p1 k]],
    forN ndim fun i => rd .nsplines nspl.length i]

/-- The tail of `glamfit_complex` with `long i, j, k, stride1, stride2` and the `uint64_t` index expression
    (`naxes[monodim]` is `uint64_t`, so `i*stride2*naxes[monodim] + j*stride2 + k` is evaluated modulo 2^64 once
    `i*stride2` has been formed in `long`); `out` has `ncoeffs = strides[0]*naxes[0] mod 2^64` cells.
    Conservative: `stride1`, `stride2` are checked as final products (the partial products are not larger when no
    factor is 0, and a factor 0 makes the loops empty). -/
def monoTailW (naxes : List Nat) (m : Nat) : Out :=
  let s1 := prodL (naxes.take m)
  let s2 := prodL (naxes.drop (m+1))
  let nm := naxes.getD m 0
  let nc := prodL naxes % U64
  seqAll [
    rd .naxes naxes.length m,
    inLong .stride1 s1, inLong .stride2 s2,
    forN s1 fun i => forN (nm - 1) fun j' => forN s2 fun k => seqAll [
      inLong .strideMul (i * s2),
      rd .coef nc ((i*s2*nm + (j'+1)*s2 + k) % U64), rd .coef nc ((i*s2*nm + j'*s2 + k) % U64)]]

/-- Everything in `fit` after the sanity block, with the integer types of the C/C++ code. -/
def fitBodyW (c : Cfg) (a : Args) : Out :=
  let nd := a.data.ndim
  let nspl := (List.range nd).map a.nsplAt
  seqAll [
    inU32 .ndimU32 nd,                                   -- ndim=data.ndim  (uint32_t ← size_t)
    forN a.orders.length fun j => rd .tblOrder nd j,
    forN nd fun i => rd .knotsVec a.knots.length i,
    forN nd fun i => rd .ordersVec a.orders.length i,
    rd .strides nd (wsub32 nd 1),
    forN (wsub32 nd 1) fun i' => seqAll [                -- strides[i-1]=strides[i]*naxes[i]: uint64_t, wraps silently
      rd .strides nd i', rd .strides nd (i'+1), rd .naxes nd (i'+1)],
    rd .strides nd 0, rd .naxes nd 0,
    forN nd fun i => rd .coordsVec a.coordLens.length i,
    forN nd fun i => seqAll [
      rd .knots (a.nkAt i) (a.ordAt i),
      rd .knots (a.nkAt i) (nsplinesOf (a.nkAt i) (a.ordAt i))],
    forN nd fun i => seqAll [
      rd .penalty a.penalty.length (a.penIdx i),
      rd .smoothing a.smoothNZ.length (a.smoothIdx i),
      Out.when (a.smoothAt i) (calcPenaltyW c.vlaExtra nd nspl i (a.nkAt i) (a.ordAt i) (a.penAt i))],
    forN nd fun i => seqAll [
      rd .ranges a.data.ranges.length i,
      bsplineBasisW (a.nkAt i) (a.rangeOf i) (a.coordLen i) (a.ordAt i)],
    Out.when (a.monodim != noMonodim) (monoTailW nspl a.monodim)]

/-- `strides` as the table really holds them: `uint64_t` products -/
def stridesOfW (naxes : List Nat) : List Nat := (stridesOf naxes).map (· % U64)

/-- the number of coefficients the table's `naxes` describe -/
def ncoeffs (a : Args) : Nat := prodL ((List.range a.data.ndim).map a.nsplAt)
/-- … and the number of cells of the coefficient array `fit` allocates: `strides[0]*naxes[0]` in `uint64_t` -/
def ncoeffsW (a : Args) : Nat := ncoeffs a % U64

def fitShapeW (a : Args) : Shape := { fitShape a with strides := stridesOfW (fitShape a).naxes }

/-- **The decidable size condition.**  No dimension count beyond `uint32_t`; every knot vector shorter than 2^31
    (`int` indices); in every dimension the dense basis matrix `ranges[i] × nsplines[i]` has fewer than 2^31 cells
    (`int k` of bsplinebasis); fewer than 2^63 coefficients (`long` strides, `uint64_t` `ncoeffs`). -/
def NoWrapB (a : Args) : Bool :=
  decide (a.data.ndim < U32) &&
  (List.range a.data.ndim).all (fun i => decide (a.nkAt i < I32) && decide (a.rangeOf i * a.nsplAt i < I32)) &&
  decide (ncoeffs a < I64)

/-! ## The whole member function -/

/-- What the arguments do not determine: everything goes well; an `allocate<>`/`new` after the sanity block throws
    `std::bad_alloc`; `glamfit_complex` returns non-zero ("GLAM fit failed"). -/
inductive Ext where
  | done | badAlloc | glamFailed
deriving Repr, DecidableEq

/-- The two C20 repairs inside fit.h. -/
structure Head where
  refuse : Bool   -- `if(ndim!=0) throw std::runtime_error("splinetable already contains data, cannot fit")`
  guard : Bool    -- `storage_guard guard(this); … guard.dismiss();`
deriving Repr, DecidableEq

def upstream : Head := ⟨false, false⟩
def head : Head := ⟨true, true⟩

inductive Verdict where
  | ok
  | occupied            -- std::runtime_error: the table already contains data
  | arg (e : Err)       -- std::logic_error of the sanity block
  | badAlloc            -- std::bad_alloc
  | glam                -- std::runtime_error("GLAM fit failed")
  | fault (f : Fault)
deriving Repr, DecidableEq

def Verdict.isFault : Verdict → Bool
  | .fault _ => true
  | _ => false

/-- `splinetable::fit` from its first statement to its last.  Without the guard a failure after the sanity block leaves
    "a table that is no longer the one it was" — written `some (fitShapeW a)`; what exactly is half-built is C20's
    subject (Model/Lifecycle.lean). -/
def fitEntry (c : Cfg) (h : Head) (a : Args) (x : Ext) (t : Tbl) : Verdict × Tbl :=
  if h.refuse && t.isSome then (.occupied, t)
  else match fitChecks c a with
    | .reject e => (.arg e, t)
    | .fault f => (.fault f, t)
    | .ok =>
      match fitBodyW c a with
      | .ok =>
        match x with
        | .done => (.ok, some (fitShapeW a))
        | .badAlloc => (.badAlloc, if h.guard then none else some (fitShapeW a))
        | .glamFailed => (.glam, if h.guard then none else some (fitShapeW a))
      | .reject e => (.arg e, some (fitShapeW a))     -- unreachable: nothing after the sanity block throws logic_error
      | .fault f => (.fault f, some (fitShapeW a))

/-- `int splinetable_glamfit(table, data, …)` on top of `fitEntry` -/
def cGlamfitEntry (c : Cfg) (h : Head) (tableNull dataNull : Bool) (ca : CArgs) (x : Ext) (t : Tbl) : Nat × Tbl :=
  if tableNull || dataNull then (1, t)
  else match fitEntry c h ca.view x t with
    | (.ok, t') => (0, t')
    | (_, t') => (1, t')

/-! ## Which accepted arguments cannot be well-posed -/

/-- No smoothing in any dimension and fewer data points than coefficients: the normal matrix `BᵀWB` (an
    `ncoeffs × ncoeffs` matrix of rank at most `rows`) is singular whatever the numbers are
    (`PsV.Fit.underdetermined_singular` in Proofs/FitEntry.lean). -/
def UnderdeterminedB (a : Args) : Bool :=
  (List.range a.data.ndim).all (fun i => !a.smoothAt i) && decide (a.data.rows < ncoeffs a)

end PsV.Fit
