import PsV.Model.FitsWrite
import PsV.Model.FitsBytes
/-!
# What a write leaves on disk (C08): control flow × file-system model

`FitsWrite.lean` says which cfitsio calls `write_fits` makes and what it reports, given the status of every call.
`FitsBytes.lean` says what a file is (a byte string changed by `pwrite`/`truncate` operations) and what the reader makes
of a byte string.  This file joins the two: every call made issues libc operations (which ones is cfitsio's business —
its buffering — and therefore a parameter: *all* operation logs are allowed), every libc operation may fail or write
short, and the calls `fits_create_file("!path")`, `fits_delete_file` and `remove` create and delete the file.
The result is the state of the file name after the writer has returned, `diskAfter`, and — for crashes — the state
after any prefix of the operation log, `crashState` (in `FitsBytes.lean`).
Mathlib-free, executable.
-/
namespace PsV.C08

/-- One libc operation as it went: the operation, whether libc reported success, and — for a failing write — how many
    of its bytes reached the file nevertheless (short write). -/
structure IoOp where
  op : Op
  ok : Bool
  done : Nat
  deriving Repr

/-- the bytes of a partially executed write: nothing for `b = 0`, else the first `b` bytes at the write's offset -/
def crashStep (s : Bytes) (o : Option Op) (b : Nat) : Bytes :=
  match o with
  | some (.pwrite off data) => if b = 0 then s else applyOp s (.pwrite off (data.take b))
  | _ => s

def IoOp.apply (file : Bytes) (o : IoOp) : Bytes :=
  if o.ok then applyOp file o.op else crashStep file (some o.op) o.done

/-- a failing operation whose failure loses data: a write or the close (a failing `fflush` loses nothing: the data stay
    in the stdio buffer and are written by `fclose`) -/
def IoOp.bad (o : IoOp) : Bool :=
  !o.ok && (match o.op with | .pwrite _ _ => true | .close => true | _ => false)

/-- The environment of one run of the writer. -/
structure World where
  /-- status of the `j`-th call made (`true` = success) -/
  env : Env
  /-- libc operations issued inside the `j`-th call made -/
  io : Nat → List IoOp
  /-- when creating the file fails: had the file of that name already been removed (`"!path"` = clobber)? -/
  clobbered : Bool
  /-- when the clean-up call (`fits_delete_file`, `remove`) reports an error: is the file gone nevertheless?
      (`fits_delete_file` on a file without any HDU reports an error and has deleted the file.) -/
  removedAnyway : Bool

/-- The file name after one more call.  `disk = none`: no file of that name.  `j` = index of the call.
    * `fits_create_file("!path")`: on success the old file is gone and a new, empty one exists (plus whatever the call
      wrote); on failure the old file is still there or already removed;
    * `fits_delete_file` / `remove`: on success no file; when they report an error the file stays as it is or is gone
      all the same (`removedAnyway`);
    * every other call: its operations are applied to the file, whether the call reports success or not. -/
def stepDisk (w : World) (prev : Option Bytes) (disk : Option Bytes) (j : Nat) : Step × Bool → Option Bytes
  | (.init, true) => some ((w.io j).foldl IoOp.apply [])
  | (.init, false) => if w.clobbered then none else prev
  | (.delt, ok) => if ok || w.removedAnyway then none else disk
  | (.remove, ok) => if ok || w.removedAnyway then none else disk
  | (_, _) => disk.map fun f => (w.io j).foldl IoOp.apply f

/-- the file name after the calls of a trace, starting with call number `j` -/
def diskOfTrace (w : World) (prev : Option Bytes) : List (Step × Bool) → Nat → Option Bytes → Option Bytes
  | [], _, disk => disk
  | c :: rest, j, disk => diskOfTrace w prev rest (j+1) (stepDisk w prev disk j c)

/-- **State of the file name after `write_fits` has returned** (`prev` = what was there before). -/
def diskAfter (steps : List Step) (w : World) (prev : Option Bytes) : Option Bytes :=
  diskOfTrace w prev (writeFitsOn steps w.env).trace 0 prev

/-- what a reader makes of a file name -/
def readDisk : Option Bytes → Option View
  | none => none
  | some bs => readBytes bs

/-- number of calls in a trace which reported an error -/
def failures (tr : List (Step × Bool)) : Nat := (tr.filter fun c => !c.2).length

/-- Contract of cfitsio assumed (and observed on every fault-injection run): a failing write or close inside a call
    makes that call or a later one of the same run report an error — no write error is dropped.
    (False for cfitsio's `ffiblk`, which is why the writer must never make cfitsio move written data: `C08_keys_before_data`.) -/
def Surfaces (w : World) (tr : List (Step × Bool)) : Prop :=
  ∀ j, j < tr.length → (∃ o ∈ w.io j, o.bad = true) → ∃ j', j ≤ j' ∧ ∃ s, tr[j']? = some (s, false)

/-! ## Operation logs that write a file front to back -/

/-- every write starts at the current end of the file, every truncate keeps the length: no holes, no rewrites -/
def appendOnly : Nat → List Op → Bool
  | _, [] => true
  | len, .pwrite off data :: rest => off == len && appendOnly (len + data.length) rest
  | len, .truncate l :: rest => l == len && appendOnly len rest
  | len, _ :: rest => appendOnly len rest

end PsV.C08
