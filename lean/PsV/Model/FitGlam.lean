import PsV.Spec.Fit
/-!
# Model of the unconstrained path of src/fitter/glam.c and include/photospline/detail/fit.h

`box`, the F / R convolution by `slicemultiply`, the reshape of `F` (double the dimensions, even axes first),
`flatten_ndarray_to_sparse`, `divided_diffs`, `calc_penalty` (finite-difference matrix, `DᵀD`, Kronecker
extension), `add_penalty_term` and the sum `Fmat + penalty`.  The sparse Cholesky solve is not modelled: it
is the exact solve of the assembled system (the correspondence check measures how well CHOLMOD does that).
(`PsV.Spec.Fit` is imported only for `Tab2` / `sumTo`; nothing of the specification is used here.)
-/
namespace PsV
open Arith
variable {α : Type} [A : Arith α]

/-- `box(a, b)`: row-wise Kronecker product, `[r, ja*ncol_b + jb] = a[r,ja]*b[r,jb]` -/
def box (a b : Mat α) : Mat α :=
  ⟨a.nrow, a.ncol * b.ncol, fun r j => A.mul (a.val r (j / b.ncol)) (b.val r (j % b.ncol))⟩

/-- `kronecker_product(a, b)`: `[ia*nrow_b + ib, ja*ncol_b + jb] = a[ia,ja]*b[ib,jb]` -/
def kron (a b : Mat α) : Mat α :=
  ⟨a.nrow * b.nrow, a.ncol * b.ncol,
   fun i j => A.mul (a.val (i / b.nrow) (j / b.ncol)) (b.val (i % b.nrow) (j % b.ncol))⟩

def Mat.ofTab (T : Tab2 α) : Mat α := ⟨T.n, T.m, T.get⟩

def eye (n : Nat) : Mat α := ⟨n, n, fun i j => if i = j then A.one else A.zero⟩

/-- `divided_diffs(order, porder, j, knots, out)`: the `porder+1` weights of derivative coefficient `j`
```
if (porder == 0) { out[0] = 1; return; }
a = divided_diffs(porder-1, j+1);  b = divided_diffs(porder-1, j);
delta = (knots[j+order+1] - knots[j+porder]) / (double)(order - (porder-1));
out[0] = -b[0]/delta;  out[porder] = a[porder-1]/delta;  out[i] = (a[i-1] - b[i])/delta  (0 < i < porder)
``` -/
def dividedDiffs (t : Int → α) (order : Nat) : (porder : Nat) → (j : Nat) → List α
  | 0, _ => [A.one]
  | p+1, j =>
    let a := dividedDiffs t order p (j+1)
    let b := dividedDiffs t order p j
    let delta := A.div (A.sub (t ((j : Int) + order + 1)) (t ((j : Int) + p + 1))) (A.ofNat (order - p))
    A.div (A.neg (b.getD 0 A.zero)) delta
      :: ((List.range p).map fun i0 => A.div (A.sub (a.getD i0 A.zero) (b.getD (i0+1) A.zero)) delta)
      ++ [A.div (a.getD p A.zero) delta]

/-- the `(n - porder) × n` finite-difference matrix of `calc_penalty`: row `r` holds `divided_diffs(…, r, …)` in columns `r … r+porder` -/
def finiteDiff (t : Int → α) (order porder n : Nat) : Tab2 α :=
  Tab2.ofFn (n - porder) n fun r c =>
    if r ≤ c ∧ c ≤ r + porder then (dividedDiffs t order porder r).getD (c - r) A.zero else A.zero

/-- `DtD = finitediffᵀ · finitediff` -/
def dtd (D : Tab2 α) : Tab2 α :=
  Tab2.ofFn D.m D.m fun i j => sumTo D.n fun q => A.mul (D.get q i) (D.get q j)

/-- the Kronecker chain `I ⊗ … ⊗ DtD ⊗ … ⊗ I` of `calc_penalty` (left-associated, as the loop builds it) -/
def kronChain (nsplines : List Nat) (dim : Nat) (core : Mat α) : Mat α :=
  let mats := nsplines.mapIdx fun i n => if i = dim then core else eye n
  match mats with
  | [] => core
  | m :: ms => ms.foldl kron m

/-- `calc_penalty(nsplines, knots, ndim, dim, order, porder, mono = 0)` -/
def calcPenalty (nsplines : List Nat) (t : Int → α) (dim order porder : Nat) : Mat α :=
  kronChain nsplines dim (Mat.ofTab (dtd (finiteDiff t order porder (nsplines.getD dim 0))))

/-- `smoothing.size()>1 ? smoothing[i] : smoothing[0]` -/
def pick {β : Type} (l : List β) (i : Nat) (dflt : β) : β :=
  if l.length > 1 then l.getD i dflt else l.getD 0 dflt

/-- the penalty matrix of fit.h: `spzeros`, then `add_penalty_term` per dimension (skipped when the scale is `0.0`) -/
def penaltyMat (dims : List (Dim α)) (smoothing : List α) (porders : List Nat) : Tab2 α :=
  let ns := dims.map (·.naxes)
  let N := natProd ns
  let terms : List (α × Mat α) := (dims.mapIdx fun i d =>
    let scale := pick smoothing i A.zero
    if isZero scale then none else some (scale, calcPenalty ns d.knots i d.order (pick porders i 0))).filterMap id
  Tab2.ofFn N N fun i j => terms.foldl (fun acc sm => A.add acc (A.mul sm.1 (sm.2.val i j))) A.zero

/-- "double the dimensionality of F": index `q` of the boxed axis `d` becomes `(q / n_d, q % n_d)` -/
def doubleDims (ns : List Nat) (idx : List Nat) : List Nat :=
  (idx.zip ns).flatMap fun qn => [qn.1 / qn.2, qn.1 % qn.2]

/-- "reorder dimensions of F so that the even-numbered axes come first" -/
def evensFirst {β : Type} (l : List β) : List β :=
  let il := l.zipIdx
  (il.filter fun p => p.2 % 2 == 0).map (·.1) ++ (il.filter fun p => p.2 % 2 == 1).map (·.1)

/-- add up a list of (position, value) into a dense array (what `triplet_to_sparse` + `sparse_to_dense` do) -/
def accumulate (size : Nat) (es : List (Nat × α)) : Array α :=
  es.foldl (fun arr e => if h : e.1 < arr.size then arr.set e.1 (A.add arr[e.1] e.2) else arr) (Array.replicate size A.zero)

/-- row-major position `Σ i_j · moduli_j`, `moduli_j = Π_{k>j} ranges_k` -/
def glamRowMajor : List Nat → List Nat → Nat
  | _ :: rs, i :: is => i * natProd rs + glamRowMajor rs is
  | _, _ => 0

/-- `flatten_ndarray_to_sparse(array, nrow, ncol)`: entry at row-major position `k` goes to `(k / ncol, k % ncol)` -/
def flattenNd (a : NdSparse α) (nrow ncol : Nat) : Tab2 α :=
  ⟨nrow, ncol, accumulate (nrow * ncol) (a.entries.map fun e =>
      let k := glamRowMajor a.ranges e.1
      ((k / ncol) * ncol + k % ncol, e.2))⟩

/-- the convolution loop of `glamfit_complex`: `slicemultiply(F, boxedbases[i], i)`, `slicemultiply(R, bases[i], i)` -/
def glamConvolve : List (Mat α) → Nat → NdSparse α → NdSparse α → Option (NdSparse α × NdSparse α)
  | [], _, F, R => some (F, R)
  | b :: bs, i, F, R =>
    match sliceMultiply F (box b b) i, sliceMultiply R b i with
    | some F', some R' => glamConvolve bs (i+1) F' R'
    | _, _ => none

structure GlamSystem (α : Type) where
  fitmat : Tab2 α     -- Fmat + penalty
  rhs : Array α       -- Rdens

/-- `splinetable::fit` (unconstrained) up to the linear solve: the system handed to `cholesky_solve`.
`data` = the sparse data (grid index tuple, z), `weights` parallel to it, `dataRanges` = `data.ranges`. -/
def glamSystem (dims : List (Dim α)) (coords : List (List α)) (dataRanges : List Nat)
    (data : List (List Nat × α)) (weights : List α) (smoothing : List α) (porders : List Nat) : Option (GlamSystem α) :=
  let ns := dims.map (·.naxes)
  let N := natProd ns
  -- bases[i] = bsplinebasis(knots[i], nknots[i], coords[i], data->ranges[i], order[i])
  let bases := (dims.zip (coords.zip dataRanges)).map fun (d, xs, n) => bsplineBasis d.knots d.nknots d.order (xs.take n)
  let F0 : NdSparse α := ⟨dataRanges, (data.zip weights).map fun (e, w) => (e.1, w)⟩
  let R0 : NdSparse α := ⟨dataRanges, (data.zip weights).map fun (e, w) => (e.1, A.mul w e.2)⟩
  match glamConvolve bases 0 F0 R0 with
  | none => none
  | some (F, R) =>
    let Rmat := flattenNd R N 1
    let F2 : NdSparse α := ⟨evensFirst (ns.flatMap fun n => [n, n]), F.entries.map fun e => (evensFirst (doubleDims ns e.1), e.2)⟩
    let Fmat := flattenNd F2 N N
    let pen := penaltyMat dims smoothing porders
    some ⟨Tab2.ofFn N N fun i j => A.add (Fmat.get i j) (pen.get i j), Array.ofFn (n := N) fun i => Rmat.get i.val 0⟩

end PsV
