import PsV.Generated.C16
/-!
# Model of the auxiliary key store (C16)

`include/photospline/detail/aux.h` (`get_aux_value`, `remove_key`, `read_key`, `write_key`),
`reservedFitsKeyword` (`src/core/fitsio.cpp`; prefixes and lengths come from `PsV.Gen.C16`, regenerated
from the source on every run), and the auxiliary part of `write_fits_core` / `read_fits_core`
(`detail/fitsio.h`) together with the cfitsio routines they go through for a string card
(`ffs2c`, `ffmkky`, `ffprec`, `ffgrec`, `ffgknm`, `ffpsvc`).

C strings are `List Char` (printable ASCII; the terminating NUL is added where `strncmp` needs it).
The store is the array `aux[0..naux)` of (key, value) pairs in array order.
Mathlib-free, executable; the driver `PsV.Driver.C16` runs exactly these definitions.

The model is of the *repaired* code (fixes/C16-1..3.diff and C16-5.diff): the reader un-doubles quotes when it
strips the enclosing ones, `write_key` counts a quote twice in its length test, rejects a long key that
leaves no room for a value (when `Gen.C16.longKeyGuard` is present; without it the `size_t`
subtraction wraps, which is modelled as well), and refuses the names and characters a FITS header cannot
hold as they are (empty key, edge blanks, `HIERARCH ` prefix, END/HISTORY/CONTINUE, anything but printable
ASCII in a long key or in the value; each test only when the generated constants say the source has it).
-/
namespace PsV.Aux
open PsV.Gen

abbrev Str := List Char
abbrev Store := List (Str × Str)

/-! ## `reservedFitsKeyword` -/

/-- `strncmp(a, b, n) == 0` on NUL-terminated strings (`a`, `b` given with their terminator). -/
def strncmpEq : Nat → List Char → List Char → Bool
  | 0, _, _ => true
  | n+1, a :: as, b :: bs => if a ≠ b then false else if a = '\x00' then true else strncmpEq n as bs
  | _+1, _, _ => true

def cstr (s : Str) : List Char := s ++ ['\x00']

def reserved (key : Str) : Bool :=
  C16.reservedPrefixes.any fun (lit, n) => strncmpEq n (cstr lit) (cstr key)

/-! ## `write_key` -/

/-- the exceptions of `write_key` -/
inductive WErr where
  | reserved | shortChar | hasEq | hasLower | keyTooLong | valueTooLong
  | edgeBlank | keyNonPrintable | valueNonPrintable
  deriving DecidableEq, Repr

inductive WOut where
  | appended      -- returned true: new entry appended
  | updated       -- returned false: value of an existing entry replaced in place
  | threw (e : WErr)   -- exception, store untouched
  deriving DecidableEq, Repr

def WOut.accepted : WOut → Bool
  | .appended | .updated => true
  | .threw _ => false

/-- the test applied to every character of a short key:
    `!(isupper(c) || isdigit(c)) || c=='-' || c=='_'` (so `-` and `_` are refused, whatever the message says) -/
def badShortChar (c : Char) : Bool := !(c.isUpper || c.isDigit) || c == '-' || c == '_'

/-- `c<LO || c>HI` on a `char` holding the byte `c`: bytes >= 0x80 are out of range whatever the signedness -/
def outOfRange (r : Option (Nat × Nat)) (c : Char) : Bool :=
  match r with
  | some (lo, hi) => decide (c.toNat < lo) || decide (c.toNat > hi)
  | none => false

/-- the loop over a long key: first offending character decides which exception is thrown -/
def longKeyScan : Str → Option WErr
  | [] => none
  | c :: cs =>
    if outOfRange C16.keyCharRange c then some .keyNonPrintable else
    if c == '=' then some .hasEq else if c.isLower then some .hasLower else longKeyScan cs

/-- `keylen==1 || key[0]==' ' || key[keylen-2]==' '` -/
def edgeBlank (key : Str) : Bool := key.isEmpty || key.head? == some ' ' || key.getLast? == some ' '

/-- the second name test of `write_key`: `strncmp(lit,key,n)==0 || ... || strcmp(lit,key)==0 || ...` -/
def writeReserved (key : Str) : Bool :=
  (C16.writeReservedPrefixes.any fun (lit, n) => strncmpEq n (cstr lit) (cstr key)) ||
  C16.writeReservedExact.any fun lit => lit == key

def sizeMod : Nat := 2 ^ 64

/-- `maxdatalen` for a long key: `A-(B+keylen-1)` in `size_t` arithmetic -/
def longMaxData (keylen : Nat) : Nat :=
  (C16.cardLen + sizeMod - (C16.hierOverhead + keylen - 1) % sizeMod) % sizeMod

def countQuotes (v : Str) : Nat := v.count '\''

/-- key syntax and length validation of `write_key`; `none` = accepted -/
def validate (key val : Str) : Option WErr :=
  if reserved key then some .reserved else
  let keylen := key.length + 1
  if C16.edgeBlankCheck && edgeBlank key then some .edgeBlank else
  if writeReserved key then some .reserved else
  let r : Sum WErr Nat :=
    if keylen ≤ C16.shortKeylenMax then
      if key.any badShortChar then .inl .shortChar else .inr C16.shortMaxData
    else
      match longKeyScan key with
      | some e => .inl e
      | none =>
        match C16.longKeyGuard with
        | some (b, a) => if b + keylen - 1 ≥ a then .inl .keyTooLong else .inr (longMaxData keylen)
        | none => .inr (longMaxData keylen)
  match r with
  | .inl e => some e
  | .inr maxdatalen =>
    if val.any (outOfRange C16.valueCharRange) then some .valueNonPrintable else
    if val.length + countQuotes val > maxdatalen then some .valueTooLong else none

def hasKey (st : Store) (key : Str) : Bool := st.any (·.1 == key)

/-- replace the value of the first entry whose key matches -/
def setFirst : Store → Str → Str → Store
  | [], _, _ => []
  | (k, v) :: r, key, val => if k == key then (k, val) :: r else (k, v) :: setFirst r key val

/-- `write_key(key, value)` where `val` is what `operator<<` produced for the value -/
def writeKey (st : Store) (key val : Str) : WOut × Store :=
  match validate key val with
  | some e => (.threw e, st)
  | none => if hasKey st key then (.updated, setFirst st key val) else (.appended, st ++ [(key, val)])

/-! ## `get_aux_value`, `remove_key`, `read_key` -/

def getAux : Store → Str → Option Str
  | [], _ => none
  | (k, v) :: r, key => if k == key then some v else getAux r key

def eraseFirst : Store → Str → Store
  | [], _ => []
  | (k, v) :: r, key => if k == key then r else (k, v) :: eraseFirst r key

/-- `remove_key`: (return value, new store) -/
def removeKey (st : Store) (key : Str) : Bool × Store :=
  if hasKey st key then (true, eraseFirst st key) else (false, st)

/-! ### decimal codec of `int` (`operator<<` / `operator>>` with default flags, C locale) -/

def digitChar (d : Nat) : Char := Char.ofNat (48 + d)
def digitVal (c : Char) : Nat := c.toNat - 48

def natDigits : Nat → Nat → List Char → List Char
  | 0, _, acc => acc
  | f+1, n, acc =>
    let acc' := digitChar (n % 10) :: acc
    if n / 10 = 0 then acc' else natDigits f (n / 10) acc'

def showNat (n : Nat) : Str := natDigits (n + 1) n []

/-- `ostringstream << int` -/
def showInt (n : Int) : Str := if n < 0 then '-' :: showNat n.natAbs else showNat n.toNat

def intMax : Int := 2147483647
def intMin : Int := -2147483648

def isCSpace (c : Char) : Bool := c == ' ' || c == '\t' || c == '\n' || c == '\x0b' || c == '\x0c' || c == '\r'

def digitsVal (ds : List Char) : Nat := ds.foldl (fun a c => a * 10 + digitVal c) 0

/-- `istringstream >> int`: (`!fail()`, value stored in the result; `none` = result left untouched).
    Leading white space is skipped; if nothing is left the sentry fails and the result is not touched.
    Otherwise optional sign and the longest run of digits; no digit: fail and 0; out of range: fail and
    the clamped value. -/
def splitSign : Str → Bool × Str
  | '-' :: r => (true, r)
  | '+' :: r => (false, r)
  | s => (false, s)

def parseBody (neg : Bool) (s : Str) : Bool × Option Int :=
  let ds := s.takeWhile Char.isDigit
  if ds.isEmpty then (false, some 0) else
  let m : Int := digitsVal ds
  let v := if neg then -m else m
  if v > intMax then (false, some intMax) else if v < intMin then (false, some intMin) else (true, some v)

def parseInt (s : Str) : Bool × Option Int :=
  let s := s.dropWhile isCSpace
  if s.isEmpty then (false, none) else
  parseBody (splitSign s).1 (splitSign s).2

inductive ROut (α : Type) where
  | absent                     -- key not present: returns false, result untouched
  | parsed (ok : Bool) (v : Option α) -- key present: `!ss.fail()` and what was stored into the result (`none`: untouched)
  deriving DecidableEq, Repr

def readKeyInt (st : Store) (key : Str) : ROut Int :=
  match getAux st key with
  | none => .absent
  | some v => let (ok, n) := parseInt v; .parsed ok n

def readKeyStr (st : Store) (key : Str) : ROut Str :=
  match getAux st key with
  | none => .absent
  | some v => .parsed true (some v)

/-! ## FITS round trip of the auxiliary entries (string cards) -/

def blanks (n : Nat) : List Char := List.replicate n ' '

/-- `ffs2c` main loop: copy, doubling quotes, while the output index `jj < 69` -/
def s2cBody : List Char → Nat → List Char
  | [], _ => []
  | c :: cs, jj =>
    if jj ≥ 69 then [] else
    if c == '\'' then c :: c :: s2cBody cs (jj + 2) else c :: s2cBody cs (jj + 1)

/-- `ffs2c`: quoted string value (at most 68 input characters, padded to 8, closing quote) -/
def ffs2c (v : Str) : List Char :=
  let b := s2cBody (v.take 68) 1
  let jj := 1 + b.length
  let b := b ++ blanks (9 - jj)
  let jj := max jj 9
  if jj == 70 then '\'' :: b.take 68 else '\'' :: b ++ ['\'']

def rstrip (s : List Char) : List Char := (s.reverse.dropWhile (· == ' ')).reverse
def lstrip (s : List Char) : List Char := s.dropWhile (· == ' ')

/-- characters `fftkey` accepts in a standard keyword name -/
def stdKeyChar (c : Char) : Bool := c.isUpper || c.isDigit || c == '-' || c == '_'

def hierPrefix : List Char := ['H', 'I', 'E', 'R', 'A', 'R', 'C', 'H', ' ']

/-- `ffmkky(keyname, ffs2c value, NULL)`: the card text, `none` when cfitsio refuses (BAD_KEYCHAR) -/
def mkCard (key qv : List Char) : Option (List Char) :=
  let name := rstrip ((lstrip key).take (C16.flenKeyword - 1))
  if name.contains '=' then none else
  let len := qv.length
  let head : Option (List Char × Nat) :=
    if name.length ≤ 8 && name.all stdKeyChar then
      some (name ++ blanks (8 - name.length) ++ ['=', ' '], 10)
    else
      let full : Option (List Char) :=
        if hierPrefix.isPrefixOf name then some name
        else if name.length + 11 > C16.flenCard - 1 then none
        else some (hierPrefix ++ name)
      full.map fun f =>
        if f.length + 3 + len > 80 then (f ++ ['=', ' '], f.length + 2) else (f ++ [' ', '=', ' '], f.length + 3)
  match head with
  | none => none
  | some (h, namelen) =>
    if namelen > 77 then none else
    let c := h ++ qv.take (80 - namelen)
    some (if namelen + len ≥ 80 then c.take 79 ++ ['\''] else c)

/-- `ffgknm`: keyword name of a card (trailing blanks of the card already stripped by `ffgrec`) -/
def ffgknm (card : List Char) : List Char :=
  if hierPrefix.isPrefixOf card then
    if card.contains '=' then
      rstrip (lstrip ((card.drop 9).takeWhile (· != '=')))
    else ['H', 'I', 'E', 'R', 'A', 'R', 'C', 'H']
  else
    (card.takeWhile fun c => c != ' ' && c != '=').take (C16.flenKeyword - 1)

/-- the quoted-string loop of `ffpsvc`; `jj` = index into `value` (limit FLEN_VALUE-1).
    Returns the characters after the opening quote (including the closing one). -/
def psvcQ : Nat → List Char → Nat → List Char
  | 0, _, _ => ['\'']
  | _+1, [], _ => ['\'']                         -- ran off the card: closed by force
  | f+1, c :: rest, jj =>
    if jj ≥ C16.flenValue - 1 then ['\''] else
    if c == '\'' then
      match rest with
      | '\'' :: rest' =>
        if jj + 1 < C16.flenValue - 1 then c :: c :: psvcQ f rest' (jj + 2) else [c, '\'']
      | _ => [c]
    else c :: psvcQ f rest (jj + 1)

def endHead : List Char := ['E', 'N', 'D', ' ', ' ', ' ', ' ', ' ']

def commentaryHeads : List (List Char) :=
  [['C', 'O', 'M', 'M', 'E', 'N', 'T', ' '], ['H', 'I', 'S', 'T', 'O', 'R', 'Y', ' '], endHead,
   ['C', 'O', 'N', 'T', 'I', 'N', 'U', 'E'], [' ', ' ', ' ', ' ', ' ', ' ', ' ', ' ']]

/-- `ffpsvc`: the raw value string of a card (quotes included); only what a card produced by `mkCard` needs -/
def ffpsvc (card : List Char) : List Char :=
  let valpos : Option Nat :=
    if hierPrefix.isPrefixOf card then
      if card.contains '=' then some ((card.takeWhile (· != '=')).length + 1) else none
    else if card.length < 9 || commentaryHeads.any (·.isPrefixOf card) then none
    else if (card.drop 8).take 2 == ['=', ' '] then some 10
    else if card.contains '=' then some ((card.takeWhile (· != '=')).length + 1) else none
  match valpos with
  | none => []
  | some p =>
    match lstrip (card.drop p) with
    | [] => []
    | '\'' :: rest => '\'' :: psvcQ (rest.length + 1) rest 1
    | '/' :: _ => []
    | other => other.takeWhile fun c => c != ' ' && c != '/'

/-- un-double the quotes of a string card value (added by fixes/C16-1.diff) -/
def undouble : List Char → List Char
  | '\'' :: '\'' :: r => '\'' :: undouble r
  | c :: r => c :: undouble r
  | [] => []

/-- the quote stripping of `read_fits_core` (repaired: also un-doubles) -/
def stripValue (value : List Char) : List Char :=
  match value with
  | '\'' :: r =>
    let inner := if value.length ≥ 2 && value.getLast? == some '\'' then r.dropLast else r
    undouble inner
  | _ => value

/-- `ffprec` replaces every character outside the printable ASCII range by a blank -/
def sanitize (c : Char) : Char := if c.toNat < 32 || c.toNat > 126 then ' ' else c

/-- the header card `write_fits_core` produces for one entry: `fits_write_key(TSTRING, key, value)`
    = `ffs2c`, `ffmkky`, `ffprec` (pads to 80 columns) -/
def cardOf (e : Str × Str) : Option (List Char) :=
  (mkCard e.1 (ffs2c e.2)).map fun c => (c ++ blanks (80 - c.length)).map sanitize

/-- what `read_fits_core` makes of a card (`fits_read_keyn` = `ffgrec`, `ffgknm`, `ffpsvc`);
    `none` when the card is skipped as reserved -/
def entryOfCard (card : List Char) : Option (Str × Str) :=
  let c := rstrip card
  let name := ffgknm c
  if reserved name then none else some (name, stripValue (ffpsvc c))

/-- an `END` card terminates the header: cards from the first one starting with `END` + blanks on are lost -/
def isEndCard (card : List Char) : Bool := card.take 8 == endHead

def untilEnd : List (List Char) → List (List Char)
  | [] => []
  | c :: r => if isEndCard c then [] else c :: untilEnd r

/-- `write_fits_mem` followed by `read_fits_mem` into an empty table, auxiliary entries only.
    `none`: writing failed (`Failed to write aux entry`), nothing is read. -/
def fitsTrip (st : Store) : Option Store :=
  (st.mapM cardOf).map fun cards => (untilEnd cards).filterMap entryOfCard

/-! ## operations of the differential run -/

inductive Op where
  | writeStr (k v : Str) | writeInt (k : Str) (n : Int) | writeText (k v : Str)
  | remove (k : Str) | get (k : Str) | readInt (k : Str) | readStr (k : Str) | readText (k : Str)
  | fits

inductive Out where
  | w (o : WOut) | rm (b : Bool) | got (v : Option Str) | int (r : ROut Int) | str (r : ROut Str)
  | fitsOk | fitsWriteFailed
  deriving DecidableEq

def step (st : Store) : Op → Out × Store
  | .writeStr k v | .writeText k v => let (o, s) := writeKey st k v; (.w o, s)
  | .writeInt k n => let (o, s) := writeKey st k (showInt n); (.w o, s)
  | .remove k => let (b, s) := removeKey st k; (.rm b, s)
  | .get k | .readText k => (.got (getAux st k), st)
  | .readInt k => (.int (readKeyInt st k), st)
  | .readStr k => (.str (readKeyStr st k), st)
  | .fits => match fitsTrip st with
    | none => (.fitsWriteFailed, st)
    | some s => (.fitsOk, s)

end PsV.Aux
