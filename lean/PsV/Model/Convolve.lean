import PsV.Model.Arith
/-!
# Model of `splinetable::convolve` (include/photospline/detail/convolve.h) and of
# `factorial` / `divdiff` / `convoluted_blossom` (src/core/convolve.cpp)

Statement by statement; one definition for every carrier:
* `Rat`  – exact (theorems, exact transfer matrix),
* `F32`  – IEEE double working precision with `float` storage of the coefficients: the same operation
  sequence as the C++ (`double` knots / blossoms / `trafo`, `float += double*float` accumulation);
  used only for the bit-level tie.

`factorial` is modelled **as repaired** by `fixes/C14-1.diff`
(`unsigned acc = 1; for (i = n; i > 1; i--) acc *= i;`), with the `unsigned` wrap at 2^32 kept, and the
normalisation **as repaired** by `fixes/C14-2.diff` (no sign flip for odd `k`: the flip negates the whole
convolved table for every even spline order).
-/
namespace PsV
open Arith

/-- `for (i = 0; i < n; i++) s = body i s` -/
def loopN {σ : Type} : Nat → (Nat → σ → σ) → σ → σ
  | 0, _, s => s
  | n+1, body, s => body n (loopN n body s)

/-! ## factorial (repaired) -/

/-- `for (unsigned i = n; i > 1; i--) acc *= i;` on `unsigned int` (arithmetic mod 2^32) -/
def factLoop : Nat → Nat → Nat
  | 0, acc => acc
  | 1, acc => acc
  | i+2, acc => factLoop (i+1) ((acc * (i+2)) % 2^32)

/-- `unsigned int factorial(unsigned int n)` after `fixes/C14-1.diff` -/
def factorialC (n : Nat) : Nat := factLoop n 1

/-- the code before the repair: `int acc = n; for (unsigned i = n-1; i > 1; i--) acc *= i;`
with `n-1` wrapping for `n = 0`; the loop runs `i = 2^32-1 … 2` (recorded for the finding only;
`fuel` = number of iterations to model). -/
def factorialOldLoop : Nat → Nat → Nat → Nat
  | 0, _, acc => acc
  | f+1, i, acc => if i > 1 then factorialOldLoop f (i-1) ((acc * i) % 2^32) else acc
def factorialOld (n : Nat) (fuel : Nat) : Nat :=
  factorialOldLoop fuel ((n + 2^32 - 1) % 2^32) n

variable {α : Type} [A : Arith α]

/-! ## divdiff -/

/-- `divdiff(x+o, y+o, n)`: `n == 1 → y[0]`, else
`(divdiff(x+1,y+1,n-1) - divdiff(x,y,n-1)) / (x[n-1]-x[0])`.
`n = 0` does not occur (`nx = k+1 ≥ 2`, `ny = n_conv_knots ≥ 1`; in C it would not terminate). -/
def divdiff (x y : Nat → α) : Nat → Nat → α
  | 0, _ => A.zero
  | 1, o => y o
  | n+2, o => A.div (A.sub (divdiff x y (n+1) (o+1)) (divdiff x y (n+1) o)) (A.sub (x (o+n+1)) (x o))

/-- an array filled once (`std::vector<double> fun_x(nx), fun_y(ny)`: entry `i` is `f i`) … -/
def tab (n : Nat) (f : Nat → α) : Array α := (Array.range n).map f
/-- … and then read -/
def rd (a : Array α) (i : Nat) : α := a.getD i A.zero

/-! ## convoluted_blossom -/

/-- `det = 1; for k < nbags: det *= (x[i] + y[j] - bags[k])` -/
def detLoop (s : α) (bags : Nat → α) (nbags : Nat) : α :=
  loopN nbags (fun k det => A.mul det (A.sub s (bags k))) A.one

/-- `fun_y[j]`: the truncated power `(x_i + y_j - z)_+^0 · Π_k (x_i + y_j - bags_k)` -/
def blossomEntry (xi : α) (y : Nat → α) (z : α) (bags : Nat → α) (nbags : Nat) (j : Nat) : α :=
  let s := A.add xi (y j)
  if A.lt A.zero (A.sub s z) then detLoop s bags nbags else A.zero

/-- the early exit `(x[0] + y[0] > z) || (x[nx-1] + y[ny-1] < bags[nbags-1])` -/
def blossomDisjoint (x : Nat → α) (nx : Nat) (y : Nat → α) (ny : Nat) (z : α) (bags : Nat → α) (nbags : Nat) : Bool :=
  A.lt z (A.add (x 0) (y 0)) || A.lt (A.add (x (nx-1)) (y (ny-1))) (bags (nbags-1))

/-- `convoluted_blossom(x, nx, y, ny, z, bags, nbags)` -/
def convolutedBlossom (x : Nat → α) (nx : Nat) (y : Nat → α) (ny : Nat) (z : α)
    (bags : Nat → α) (nbags : Nat) : α :=
  if blossomDisjoint x nx y ny z bags nbags then A.zero else
  let scale := A.sub (x (nx-1)) (x 0)
  let funX := tab nx fun i =>
    let funY := tab ny (blossomEntry (x i) y z bags nbags)
    divdiff y (rd funY) ny 0
  A.mul scale (divdiff x (rd funX) nx 0)

/-! ## convolve -/

structure CDim (α : Type) where
  order : Nat
  nknots : Nat
  naxes : Nat
  stride : Nat
  knots : List α        -- knots[0 .. nknots)
  extLo : α
  extHi : α

structure CTable (α : Type) where
  dims : List (CDim α)
  coef : Array α

/-- `for i < nknots: for j < n: rho[n_rho++] = knots[i] + conv_knots[j]` -/
def pairSums (ks cks : List α) : List α := ks.flatMap fun a => cks.map fun b => A.add a b

/-- `std::sort(rho, rho+n_rho)` -/
def sortKnots (l : List α) : List α := l.mergeSort fun a b => A.le a b

/-- `strides[ndim-1] = 1; for i = ndim-1 … 0: arraysize *= naxes[i]; if (i>0) strides[i-1] = arraysize`
as a recursion from the last dimension: returns (strides, arraysize). -/
def rowMajor : List Nat → List Nat × Nat
  | [] => ([], 1)
  | n :: ns => let r := rowMajor ns; (r.2 :: r.1, r.2 * n)

def prodL (l : List Nat) : Nat := l.foldl (· * ·) 1

/-- `double norm = ((double)(factorial(q)*factorial(k-1)))/((double)factorial(k+q-1));`
(after `fixes/C14-2.diff`, which removes `if (k % 2 != 0) norm *= -1;`) -/
def convNorm (k q : Nat) : α :=
  A.div (A.ofNat ((factorialC q * factorialC (k-1)) % 2^32)) (A.ofNat (factorialC (k+q-1)))

/-- the code before `fixes/C14-2.diff`: `… ; if (k % 2 != 0) norm *= -1;` (recorded for the finding only) -/
def convNormOld (k q : Nat) : α :=
  let r : α := convNorm k q
  if k % 2 != 0 then A.mul r (A.neg A.one) else r

def getK (l : List α) (i : Nat) : α := l.getD i A.zero

/-- `trafo[i*nOld + j] = norm*convoluted_blossom(&knots[dim][j], k+1, conv_knots, n, rho[i], &rho[i+1], k+q-1)` -/
def trafoEntry (knots : List α) (ck : List α) (rho : List α) (k q : Nat) (norm : α) (i j : Nat) : α :=
  A.mul norm (convolutedBlossom (fun a => getK knots (j + a)) (k+1) (getK ck) ck.length
    (getK rho i) (fun a => getK rho (i + 1 + a)) (k+q-1))

def trafoMatrix (knots ck rho : List α) (k q : Nat) (norm : α) (nNew nOld : Nat) : Array α :=
  loopN nNew (fun i t => loopN nOld (fun j t => t.push (trafoEntry knots ck rho k q norm i j)) t) (Array.emptyWithCapacity (nNew*nOld))

/-- the four nested loops
```
for i < stride1: for j < nNew: for l < nOld: for k < stride2:
  coefficients[i*stride2*nNew + j*stride2 + k] += trafo[j*nOld + l] * old[i*stride2*nOld + l*stride2 + k];
```
(`float += double*float`: product and sum in double, one rounding to float on the store), innermost first. -/
def cellStep (trafo old : Nat → α) (stride2 nOld i j l k : Nat) (acc : α) : α :=
  A.rnd (A.add acc (A.mul (trafo (j*nOld + l)) (old (i*stride2*nOld + l*stride2 + k))))

def kLoop (trafo old : Nat → α) (stride2 nNew nOld i j l : Nat) (c : Array α) : Array α :=
  loopN stride2 (fun k c => c.modify (i*stride2*nNew + j*stride2 + k) (cellStep trafo old stride2 nOld i j l k)) c

def lLoop (trafo old : Nat → α) (stride2 nNew nOld i j : Nat) (c : Array α) : Array α :=
  loopN nOld (fun l c => kLoop trafo old stride2 nNew nOld i j l c) c

def jLoop (trafo old : Nat → α) (stride2 nNew nOld i : Nat) (c : Array α) : Array α :=
  loopN nNew (fun j c => lLoop trafo old stride2 nNew nOld i j c) c

def coefLoops (trafo : Nat → α) (old : Nat → α) (stride1 stride2 nNew nOld : Nat) (init : Array α) : Array α :=
  loopN stride1 (fun i c => jLoop trafo old stride2 nNew nOld i c) init

def setAt {β : Type} (l : List β) (i : Nat) (v : β) : List β := l.set i v

/-- `std::copy(strides, strides+ndim, this->strides)` -/
def restride (l : List (CDim α)) (strides : List Nat) : List (CDim α) :=
  l.zipIdx.map fun (e, i) => { e with stride := strides.getD i 0 }

/-- `splinetable::convolve(dim, conv_knots, n_conv_knots)`; `none` when `dim ≥ ndim` (undefined in C). -/
def convolve (T : CTable α) (dim : Nat) (ck : List α) : Option (CTable α) :=
  match T.dims[dim]? with
  | none => none
  | some d =>
    let n := ck.length
    let convorder := d.order + n - 1
    let rho := sortKnots (pairSums (d.knots.take d.nknots) ck)
    let nRho := rho.length
    let naxes := setAt (T.dims.map (·.naxes)) dim (nRho - convorder - 1)
    let nNew := nRho - convorder - 1
    let (strides, arraysize) := rowMajor naxes
    let k := d.order + 1
    let q := n - 1
    let norm : α := convNorm k q
    let stride1 := prodL (naxes.take dim)
    let stride2 := prodL (naxes.drop (dim+1))
    let trafo := trafoMatrix d.knots ck rho k q norm nNew d.naxes
    let coef := coefLoops (fun p => trafo.getD p A.zero) (fun p => T.coef.getD p A.zero)
                  stride1 stride2 nNew d.naxes (Array.replicate arraysize (A.rnd A.zero))
    let extLo := if A.lt d.extLo (getK d.knots d.order) then getK rho 0 else getK rho convorder
    let extHi := A.add d.extHi (getK ck 0)
    let d' : CDim α := { order := convorder, nknots := nRho, naxes := nNew, stride := 0, knots := rho, extLo := extLo, extHi := extHi }
    some ⟨restride (setAt T.dims dim d') strides, coef⟩

end PsV
