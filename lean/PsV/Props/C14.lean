import PsV.Proofs.ConvSpec
import PsV.Proofs.ConvEval
import PsV.Proofs.ConvDriver
import PsV.Proofs.ConvNd
import PsV.Proofs.ConvDriverNd
/-!
# C14 — convolution produces the true convolution with the unit-area kernel spline

Property theorems only; they are about `PsV.convolve`, `PsV.coefLoops`, `PsV.factorialC`, `PsV.convNorm`,
`PsV.divdiff` — the definitions the driver executes (at `F32` for the bit-level tie, at `Rat` for the exact part) —
and about the exact specification `PsV.ConvSpec`.

**Strøm's identity** (blossom transfer matrix = true convolution), i.e.

```
theorem blossom_is_convolution (T : CTable Rat) (dim) (ck : List Rat) (xs : List Rat)
    (hT : T well-formed, knots of dimension dim strictly increasing) (hk : ck strictly increasing, 2 ≤ ck.length)
    (R) (h : convolve T dim ck = some R) :
    (Σ over all stored coefficients of R: coef · Π_d B_d(x_d))  =  ConvSpec.specConv T dim ck xs
```
**is now proved in full** (`blossom_is_convolution` below: any number of dimensions, every order, every kernel with
`n ≥ 2` knots, coinciding pairwise sums included, every point whose coordinate `dim` lies in the new knot range; the only
arithmetic side condition is `order + n − 1 ≤ 12`, the range in which the `unsigned` factorials of the code are exact).
The route: divided differences (Leibniz for a linear factor, annihilation of low-degree products) → `convoluted_blossom`
in closed form incl. both early exits → Marsden's identity truncated at a knot (`blossom_sum`) → the transfer matrix
against the new basis is a double divided difference of truncated powers; on the other side the specification's
piecewise integral is brought to the same form (pieces as divided differences of truncated powers, any antiderivative,
tile telescoping, Beta integral by parts); the two meet in `strom_identity_1d`; `transfer_is_mode_product` and a
flattening of `ConvSpec.contract` lift it to tables (`blossom_is_convolution_slices`, `blossom_is_convolution`).
The unit area of the kernel is proved for every `n ≥ 2` (`unit_area`).  The check still evaluates both sides exactly
in `Rat` on every generated case (`driver_exact_check_holds` shows that this comparison can never fail in exact
arithmetic under the stated hypotheses; it remains as a run-time validation of the hypotheses and of the driver).
What is *not* proved: anything about floating-point round-off of the divided differences (see the known finding).
-/
namespace PsV
open Arith

/-! ## factorial -/

/-- `factorial` (after `fixes/C14-1.diff`) is `n!` in `unsigned` arithmetic, for every `n`. -/
theorem factorial_spec (n : Nat) : factorialC n = n.factorial % 2^32 := by
  unfold factorialC
  rw [factLoop_eq n 1 (by norm_num), Nat.one_mul]

/-- … and the true factorial as long as it fits (`12! < 2^32 < 13!`). -/
theorem factorial_spec_small (n : Nat) (h : n ≤ 12) : factorialC n = n.factorial := by
  rw [factorial_spec]
  apply Nat.mod_eq_of_lt
  calc n.factorial ≤ (12).factorial := Nat.factorial_le h
    _ < 2^32 := by decide

example : factorialC 0 = 1 ∧ factorialC 5 = 120 := by decide

/-- The finding behind `fixes/C14-1.diff`: the unrepaired loop starts from `acc = n = 0`, so whatever number of
its 2^32 - 2 iterations is run, `factorial(0)` is 0 (and the normalisation of an order-0 dimension is 0). -/
theorem factorial_old_zero_wrong (fuel : Nat) : factorialOld 0 fuel = 0 := by
  unfold factorialOld
  generalize (0 + 2^32 - 1) % 2^32 = i
  induction fuel generalizing i with
  | zero => rfl
  | succ f ih =>
    unfold factorialOldLoop
    split
    · simpa using ih (i - 1)
    · rfl

example : factorialOld 0 1000 = 0 := factorial_old_zero_wrong 1000

/-! ## normalisation -/

/-- `norm = q! (k-1)! / (k+q-1)!` (de Boor-normalised spline of order `k` against a unit-area kernel on `q+1` knots),
as long as the factorials fit in `unsigned`. -/
theorem norm_spec (k q : Nat) (hk : 1 ≤ k) (h : k + q - 1 ≤ 12) :
    (convNorm k q : Rat) = ((q.factorial * (k-1).factorial : Nat) : Rat) / (((k+q-1).factorial : Nat) : Rat) := by
  unfold convNorm
  rw [factorial_spec_small q (by omega), factorial_spec_small (k-1) (by omega), factorial_spec_small (k+q-1) h]
  have hdvd : q.factorial * (k-1).factorial ∣ (k+q-1).factorial := by
    have := Nat.factorial_mul_factorial_dvd_factorial_add q (k-1)
    have e : q + (k - 1) = k + q - 1 := by omega
    rwa [e] at this
  have hle : q.factorial * (k-1).factorial ≤ (12).factorial :=
    le_trans (Nat.le_of_dvd (Nat.factorial_pos _) hdvd) (Nat.factorial_le h)
  have hlt : q.factorial * (k-1).factorial < 2^32 := lt_of_le_of_lt hle (by decide)
  rw [Nat.mod_eq_of_lt hlt]
  rfl

example : (convNorm 3 2 : Rat) = 1/6 := by
  rw [norm_spec 3 2 (by omega) (by omega)]; norm_num [Nat.factorial]

/-- The finding behind `fixes/C14-2.diff`: for odd `k` (even spline order) the unrepaired code negates the
normalisation, hence every entry of the transfer matrix and every convolved coefficient. -/
theorem norm_old_negated (k q : Nat) (hk : k % 2 = 1) : (convNormOld k q : Rat) = - convNorm k q := by
  unfold convNormOld
  have : (k % 2 != 0) = true := by simp [hk]
  simp only [this, if_true]
  show convNorm k q * (-1) = _
  ring

example : (convNormOld 1 1 : Rat) = -1 ∧ (convNorm 1 1 : Rat) = 1 := by
  constructor
  · rw [norm_old_negated 1 1 rfl, norm_spec 1 1 (by omega) (by omega)]; norm_num [Nat.factorial]
  · rw [norm_spec 1 1 (by omega) (by omega)]; norm_num [Nat.factorial]

/-! ## divided differences -/

/-- `divdiff` is linear in the function values. -/
theorem divdiff_linear (x f g : Nat → Rat) (a : Rat) (n o : Nat) :
    divdiff x (fun i => a * f i + g i) n o = a * divdiff x f n o + divdiff x g n o := by
  induction n using Nat.strong_induction_on generalizing o with
  | _ n ih =>
    match n with
    | 0 => show (0:Rat) = a * 0 + 0; ring
    | 1 => rfl
    | n+2 =>
      unfold divdiff
      rw [ih (n+1) (by omega) (o+1), ih (n+1) (by omega) o]
      show (_ - _) / _ = a * ((_ - _) / _) + (_ - _) / _
      ring

/-- the divided difference over two or more points annihilates constants -/
theorem divdiff_const (x : Nat → Rat) (c : Rat) (n o : Nat) : divdiff x (fun _ => c) (n+2) o = 0 := by
  induction n generalizing o with
  | zero => show (c - c) / _ = 0; simp
  | succ n ih =>
    unfold divdiff
    rw [ih (o+1), ih o]
    show (0 - 0) / _ = (0:Rat); simp

example : divdiff (fun i => (i : Rat)) (fun i => ((i : Rat))^2) 3 0 = 1 := by
  simp [divdiff, Arith.div, Arith.sub]; norm_num

/-! ## the coefficient loops are the mode product with `trafo` -/

/-- **Any carrier (also float), any number of dimensions, any shape**: after the four nested loops, cell
`(i, j, k)` of the new array (`i < stride1` the combined index of the dimensions before `dim`, `j < nNew`,
`k < stride2` the combined index of those after) holds the fold over `l` of
`acc ↦ rnd (acc + trafo[j*nOld+l] * old[i*stride2*nOld + l*stride2 + k])` applied to its initial content. -/
theorem transfer_cells {α : Type} [Arith α] (trafo old : Nat → α) (stride1 stride2 nNew nOld : Nat) (init : Array α)
    (i j k : Nat) (hi : i < stride1) (hj : j < nNew) (hk : k < stride2) :
    (coefLoops trafo old stride1 stride2 nNew nOld init)[i*stride2*nNew + j*stride2 + k]? =
      (init[i*stride2*nNew + j*stride2 + k]?).map (cellFold trafo old stride2 nOld i j k) :=
  coefLoops_cell trafo old stride1 stride2 nNew nOld init i j k hi hj hk

/-- Exact arithmetic: the loops compute the mode product `new[i,j,k] = Σ_l trafo[j,l] · old[i,l,k]`
of the coefficient tensor with the transfer matrix along `dim`. -/
theorem transfer_is_mode_product (trafo old : Nat → Rat) (stride1 stride2 nNew nOld N : Nat)
    (i j k : Nat) (hi : i < stride1) (hj : j < nNew) (hk : k < stride2)
    (hN : i*stride2*nNew + j*stride2 + k < N) :
    (coefLoops trafo old stride1 stride2 nNew nOld (Array.replicate N (Arith.rnd Arith.zero)))[i*stride2*nNew + j*stride2 + k]? =
      some (∑ l ∈ Finset.range nOld, trafo (j*nOld + l) * old (i*stride2*nOld + l*stride2 + k)) := by
  rw [transfer_cells trafo old stride1 stride2 nNew nOld _ i j k hi hj hk]
  simp only [Array.getElem?_replicate, hN, if_true, Option.map_some]
  congr 1
  exact cellFold_rat trafo old stride2 nOld i j k

example : (coefLoops (fun p => ((p : Nat) : Rat) + 1) (fun p => ((p : Nat) : Rat)) 2 2 3 2
    (Array.replicate 12 (Arith.rnd Arith.zero)))[1*2*3 + 2*2 + 1]? = some ((5:Rat) * 5 + 6 * 7) := by
  rw [transfer_is_mode_product _ _ 2 2 3 2 12 1 2 1 (by omega) (by omega) (by omega) (by omega)]
  simp [Finset.sum_range_succ]
  norm_num

/-- the index space of the loops is the whole new array: `arraysize = stride1 · nNew · stride2` -/
theorem arraysize_split (naxes : List Nat) (dim nNew : Nat) (h : dim < naxes.length) :
    (rowMajor (setAt naxes dim nNew)).2 =
      prodL ((setAt naxes dim nNew).take dim) * nNew * prodL ((setAt naxes dim nNew).drop (dim+1)) :=
  rowMajor_split naxes dim nNew h

/-! ## shape of the result -/

/-- **conv_shape**: the order of dimension `dim` rises by `n-1`; its knot vector is the sorted list of the pairwise
sums (a permutation of them that is ascending), of length `nknots·n`; `naxes = nknots' - order' - 1`; every other
dimension keeps order, knots, counts and extents; strides are row-major for the new `naxes`; the coefficient array
has `Π naxes` entries. -/
theorem conv_shape (T : CTable Rat) (dim : Nat) (ck : List Rat) (d : CDim Rat)
    (hd : T.dims[dim]? = some d) (hk : d.knots.length = d.nknots) :
    ∃ R, convolve T dim ck = some R ∧ R.dims.length = T.dims.length ∧
      (∃ d', R.dims[dim]? = some d' ∧
         d'.order = d.order + ck.length - 1 ∧
         d'.nknots = d.nknots * ck.length ∧ d'.knots.length = d'.nknots ∧
         d'.knots.Perm (pairSums d.knots ck) ∧ d'.knots.Pairwise (· ≤ ·) ∧
         d'.naxes = d'.nknots - d'.order - 1) ∧
      (∀ j e, j ≠ dim → T.dims[j]? = some e → ∃ e', R.dims[j]? = some e' ∧ e'.order = e.order ∧
         e'.nknots = e.nknots ∧ e'.naxes = e.naxes ∧ e'.knots = e.knots ∧ e'.extLo = e.extLo ∧ e'.extHi = e.extHi) ∧
      (∀ j e', R.dims[j]? = some e' → e'.stride = ((R.dims.map (·.naxes)).drop (j+1)).prod) ∧
      R.coef.size = (R.dims.map (·.naxes)).prod :=
  convolve_shape T dim ck d hd hk

/-- the hypotheses are satisfiable: order 0 on knots 0,1,2 convolved with the box on [0,1] -/
example : ∃ R, convolve (⟨[⟨0, 3, 2, 1, [0, 1, 2], 0, 2⟩], #[1, 1]⟩ : CTable Rat) 0 [0, 1] = some R ∧
    R.dims.length = 1 :=
  let ⟨R, h, hl, _⟩ := conv_shape (⟨[⟨0, 3, 2, 1, [0, 1, 2], 0, 2⟩], #[1, 1]⟩ : CTable Rat) 0 [0, 1]
    ⟨0, 3, 2, 1, [0, 1, 2], 0, 2⟩ rfl rfl
  ⟨R, h, hl⟩

/-! ## the specification's calculus -/

open ConvSpec in
/-- the antiderivative used by the exact specification differentiates back to the polynomial -/
theorem antideriv_derivative (p : Poly) : pderiv (pantideriv p) = p := by
  unfold pantideriv pderiv
  exact derivFrom_antiFrom 0 p

open ConvSpec in
/-- **unit area, kernel on two knots** (`n = 2`, the box): `∫ M = 1`. -/
theorem unit_area_box (y : Nat → Rat) (h : y 0 ≠ y 1) : kernelArea y 1 = 1 :=
  kernelArea_box y h

example : ConvSpec.kernelArea (fun i => if i = 0 then (-1 : Rat) else 2) 1 = 1 :=
  unit_area_box _ (by norm_num)

open ConvSpec in
/-- the integrand the specification integrates on one piece is `f(x - t) · M(t)` -/
theorem spec_integrand_sound (f m : Poly) (x t : Rat) :
    peval (pmul (pcompLin f x (-1)) m) t = peval f (x - t) * peval m t := by
  rw [peval_pmul, peval_pcompLin]
  congr 2
  ring

example : ConvSpec.peval (ConvSpec.pmul (ConvSpec.pcompLin [0, 0, 1] 3 (-1)) [2]) 1 = (3 - 1)^2 * 2 := by
  rw [spec_integrand_sound]; simp [ConvSpec.peval]; norm_num

open ConvSpec in
/-- the polynomial pieces from which the specification builds `f` and the kernel are the shared Cox–de Boor
specification `PsV.Bind` restricted to knot interval `j` (same recursion, same `a/0 = 0` convention) -/
theorem spec_pieces_are_cox_de_boor (t : Int → Rat) (j p i : Nat) (x : Rat) :
    peval (bpiece (fun n => t (n : Nat)) j p i) x = Bind (fun k => decide (k = (j : Int))) t x p (i : Int) :=
  bpiece_eval t j x p i

example : ConvSpec.peval (ConvSpec.bpiece (fun n => ((n : Nat) : Rat)) 0 1 0) (1/2) = 1/2 := by
  simp [ConvSpec.bpiece, ConvSpec.peval, ConvSpec.padd, ConvSpec.pmulLin, ConvSpec.pscale]

/-! ## unit area of the kernel, every `n ≥ 2` -/

open ConvSpec in
/-- **unit area, any kernel**: the normalised kernel `M = q/(y_q − y_0) · B_{0,q−1}(· | y)` that the specification
integrates against has `∫ M = 1`, for every `q ≥ 1` (`n = q+1 ≥ 2` kernel knots) and strictly increasing knots.
(Supersedes `unit_area_box`, which is the case `q = 1`.) -/
theorem unit_area (y : Nat → Rat) (q : Nat) (hq : 1 ≤ q) (hy : ∀ a b, a < b → b ≤ q → y a < y b) :
    kernelArea y q = 1 :=
  kernelArea_one y q hq hy

example : ConvSpec.kernelArea (fun i => ((i : Nat) : Rat)^2) 4 = 1 :=
  unit_area _ 4 (by omega) (by
    intro a b hab _
    exact_mod_cast Nat.pow_lt_pow_left hab (by norm_num))

open ConvSpec in
/-- the normalised kernel is the Cox–de Boor M-spline: piece `b` of the specification's kernel is `q/(y_q − y_0)` times
the shared Cox–de Boor recursion `PsV.Bind` of degree `q−1` with the indicator of interval `b` -/
theorem kernel_is_cox_de_boor (t : Int → Rat) (q b : Nat) (x : Rat) :
    peval (kpiece (fun n => t (n : Nat)) q b) x =
      (q : Rat) / (t (q : Nat) - t (0 : Nat)) * Bind (fun k => decide (k = (b : Int))) t x (q-1) ((0 : Nat) : Int) :=
  kpiece_eval_Bind t q b x

example : ConvSpec.peval (ConvSpec.kpiece (fun n => ((n : Nat) : Rat)) 1 0) (1/2) = 1 := by
  simp [ConvSpec.kpiece, ConvSpec.bpiece, ConvSpec.pscale, ConvSpec.peval]

/-! ## divided differences: Leibniz, annihilation -/

/-- Leibniz' rule for a linear factor (the recurrence behind both the Cox–de Boor recursion of the truncated-power
representation and the degree count of the early exits) -/
theorem divdiff_leibniz_linear (x f : Nat → Rat) (a : Rat) (n o : Nat)
    (hd : ∀ i j, o ≤ i → i < j → j < o + (n+1) → x i ≠ x j) :
    divdiff x (fun i => (x i - a) * f i) (n+1) o = (x (o+n) - a) * divdiff x f (n+1) o + divdiff x f n o :=
  dd_leibniz_lin x f a n o hd

example : divdiff (fun i => (i : Rat)) (fun i => ((i : Rat) - 5) * (i : Rat)) 3 0 = 1 := by
  rw [divdiff_leibniz_linear (fun i => (i : Rat)) (fun i => (i : Rat)) 5 2 0
    (by intro i j _ hij _; exact_mod_cast (Nat.ne_of_lt hij))]
  simp [divdiff, Arith.div, Arith.sub]; norm_num

/-! ## `convoluted_blossom` in closed form -/

/-- **closed form of `convoluted_blossom`** (exact arithmetic): including both early exits, the routine returns
`(x_{nx-1} − x_0) · [x_0..x_{nx-1}]_a [y_0..y_{ny-1}]_b g(x_a + y_b)` with `g(s) = (s − z)_+^0 · Π_m (s − bags_m)`,
whenever the nodes are strictly increasing, there are fewer bags than the two differences can see
(`nbags + 3 ≤ nx + ny`; `convolve` calls it with equality) and every node sum strictly between `z` and the last bag
is one of the bags (true for consecutive knots `z = ρ_i`, `bags = ρ_{i+1..}` of the sorted pairwise sums). -/
theorem blossom_closed_form (x : Nat → Rat) (nx : Nat) (y : Nat → Rat) (ny : Nat) (z : Rat) (bags : Nat → Rat) (nbags : Nat)
    (hnx : 1 ≤ nx) (hny : 1 ≤ ny) (hdeg : nbags + 3 ≤ nx + ny)
    (hx : ∀ a b, a < b → b < nx → x a < x b) (hy : ∀ a b, a < b → b < ny → y a < y b)
    (hmem : ∀ a b, a < nx → b < ny → z < x a + y b → x a + y b < bags (nbags-1) → ∃ m, m < nbags ∧ x a + y b = bags m) :
    convolutedBlossom x nx y ny z bags nbags =
      (x (nx-1) - x 0) * dd2 x y (fun a b => blossomG z bags nbags (x a + y b)) nx 0 ny 0 :=
  convolutedBlossom_eq x nx y ny z bags nbags hnx hny hdeg hx hy hmem

/-- order 0 against the box: old knots 0,1; kernel 0,1; new knots 0,1,1,2; `z = ρ_0 = 0`, one bag `ρ_1 = 1` -/
example : convolutedBlossom (fun a => ((a : Nat) : Rat)) 2 (fun b => ((b : Nat) : Rat)) 2 0 (fun _ => 1) 1 =
    (1 - 0) * dd2 (fun a => ((a : Nat) : Rat)) (fun b => ((b : Nat) : Rat))
      (fun a b => blossomG 0 (fun _ => 1) 1 (((a : Nat) : Rat) + ((b : Nat) : Rat))) 2 0 2 0 := by
  have := blossom_closed_form (fun a => ((a : Nat) : Rat)) 2 (fun b => ((b : Nat) : Rat)) 2 0 (fun _ => 1) 1
    (by omega) (by omega) (by omega)
    (by intro a b hab _; exact_mod_cast hab) (by intro a b hab _; exact_mod_cast hab)
    (by intro a b _ _ h1 h2
        exfalso
        have h3 : (0 : Rat) < ((a + b : Nat) : Rat) := by push_cast; exact h1
        have h4 : ((a + b : Nat) : Rat) < 1 := by push_cast; exact h2
        have h5 : 0 < a + b := by exact_mod_cast h3
        have h6 : a + b < 1 := by exact_mod_cast h4
        omega)
  simpa using this

/-! ## the specification's integral in closed form -/

/-- **the specification's convolution integral in closed form**: for every order `p`, every kernel on `q'+2 ≥ 2`
strictly increasing knots, strictly increasing table knots and `x ≥ τ_0 + y_0`,
`∫ f(x−t) M(t) dt = Σ_j c_j (τ_{j+p+1} − τ_j) · (q'+1)! p!/(p+q'+1)! · [τ_j..τ_{j+p+1}] [y_0..y_{q'+1}] (τ_m + y_r − x)_+^{p+q'+1}`. -/
theorem spec_conv_closed_form (τ : Nat → Rat) (nknots p naxes : Nat) (c : Nat → Rat) (y : Nat → Rat) (q' : Nat) (x : Rat)
    (hn : naxes + p + 1 = nknots)
    (hτ : ∀ a b, a < b → b < nknots → τ a < τ b)
    (hy : ∀ a b, a < b → b ≤ q' + 1 → y a < y b)
    (hx : τ 0 + y 0 ≤ x) :
    ConvSpec.conv1 τ nknots p naxes c y (q'+1) x =
      ∑ j ∈ Finset.range naxes, c j * ((τ (j+p+1) - τ j) *
        (((q':Rat) + 1) * ((p.factorial : Rat) * q'.factorial / (p + q' + 1).factorial)) *
        dd2 τ y (fun m r => pospow (τ m + y r - x) (p + q' + 1)) (p+2) j (q'+2) 0) :=
  conv1_closed τ nknots p naxes c y q' x hn hτ hy hx

example : ∃ v : Rat, ConvSpec.conv1 (fun i => ((i : Nat) : Rat)) 3 0 2 (fun _ => 1) (fun i => ((i : Nat) : Rat)) 1 (3/2) = v :=
  ⟨_, spec_conv_closed_form (fun i => ((i : Nat) : Rat)) 3 0 2 (fun _ => 1) (fun i => ((i : Nat) : Rat)) 0 (3/2) rfl
    (by intro a b hab _; exact_mod_cast hab) (by intro a b hab _; exact_mod_cast hab) (by norm_num)⟩

/-! ## Strøm's identity -/

/-- **Strøm's identity in one dimension, every order, every kernel** (coinciding pairwise sums allowed: `rho` is only
required to be sorted, to contain every pairwise sum and to start at `τ_0 + y_0`): for every old coefficient vector `c`,
the coefficients `Σ_j trafo[i,j]·c_j` that `convolve` stores, taken against the polynomial piece `left` of the new basis
(degree `p+q`), equal the specification's convolution integral at every `x ∈ [ρ_left, ρ_{left+1}]`. -/
theorem strom_identity_1d (knots ck rho : List Rat) (p q' naxes : Nat) (c : Nat → Rat) (left : Nat) (t : Int → Rat) (x norm : Rat)
    (hck : ck.length = q' + 2) (hn : naxes + p + 1 = knots.length)
    (hτ : ∀ a b, a < b → b < knots.length → getK knots a < getK knots b)
    (hy : ∀ a b, a < b → b < ck.length → getK ck a < getK ck b)
    (hsorted : rho.Pairwise (· ≤ ·))
    (hmem : ∀ a b, a < knots.length → b < ck.length → getK knots a + getK ck b ∈ rho)
    (hlow : getK knots 0 + getK ck 0 ≤ getK rho 0)
    (hleft : left + 1 < rho.length) (hne : getK rho left < getK rho (left+1))
    (hx1 : getK rho left ≤ x) (hx2 : x ≤ getK rho (left+1))
    (ht : ∀ i : Nat, i < rho.length → t (i : Int) = getK rho i)
    (hnorm : norm = (((q'+1).factorial * p.factorial : Nat) : Rat) / (((p + 1 + (q'+1) - 1).factorial : Nat) : Rat)) :
    ∑ i ∈ Finset.range (rho.length - (p + (q'+1)) - 1),
        (∑ j ∈ Finset.range naxes, trafoEntry knots ck rho (p+1) (q'+1) norm i j * c j) * Bp t x (left : Int) (p + (q'+1)) (i : Int)
      = ConvSpec.conv1 (getK knots) knots.length p naxes c (getK ck) (q'+1) x :=
  strom_core knots ck rho p q' naxes c left t x norm hck hn hτ hy hsorted hmem hlow hleft hne hx1 hx2 ht hnorm

/-- **Strøm's identity for the table returned by `convolve`, slice by slice, any number of dimensions**: with `i`, `k`
the combined indices of the dimensions before / after `dim`, the stored coefficients `R.coef[i, ·, k]` against the
shared Cox–de Boor specification `Bsel` of the new dimension (order `order+n−1`, knots = sorted pairwise sums, C01
convention) are the specification's convolution integral of the old slice `T.coef[i, ·, k]`, at every point of the
new knot range.  Hypotheses: knots of `dim` and of the kernel strictly increasing, `n ≥ 2`, factorials fit
(`order + n − 1 ≤ 12`), at least one coefficient. -/
theorem blossom_is_convolution_slices (T : CTable Rat) (dim : Nat) (ck : List Rat) (d : CDim Rat)
    (hd : T.dims[dim]? = some d) (hk : d.knots.length = d.nknots) (hnax : d.naxes + d.order + 1 = d.nknots)
    (hn1 : 1 ≤ d.naxes)
    (hτ : d.knots.Pairwise (· < ·)) (hy : ck.Pairwise (· < ·)) (hq : 2 ≤ ck.length)
    (h12 : d.order + ck.length - 1 ≤ 12) :
    ∃ R d', convolve T dim ck = some R ∧ R.dims[dim]? = some d' ∧
      d'.knots = sortKnots (pairSums d.knots ck) ∧ d'.order = d.order + ck.length - 1 ∧
      d'.nknots = d'.knots.length ∧ d'.naxes + d'.order + 1 = d'.nknots ∧ 1 ≤ d'.naxes ∧
      ∀ i k, i < prodL ((T.dims.map (·.naxes)).take dim) → k < prodL ((T.dims.map (·.naxes)).drop (dim+1)) →
      ∀ (x : Rat), getK d'.knots 0 ≤ x → x ≤ getK d'.knots (d'.nknots - 1) →
        ∑ l ∈ Finset.range d'.naxes,
            R.coef.getD (i * prodL ((T.dims.map (·.naxes)).drop (dim+1)) * d'.naxes
              + l * prodL ((T.dims.map (·.naxes)).drop (dim+1)) + k) 0 * Bsel (ConvSpec.toDim d') x 0 l
          = ConvSpec.conv1 (getK d.knots) d.nknots d.order d.naxes
              (fun j => T.coef.getD (i * prodL ((T.dims.map (·.naxes)).drop (dim+1)) * d.naxes
                + j * prodL ((T.dims.map (·.naxes)).drop (dim+1)) + k) 0)
              (getK ck) (ck.length - 1) x :=
  convolve_slices_spec T dim ck d hd hk hnax hn1 hτ hy hq h12

/-- the hypotheses are satisfiable: order 1 on knots 0,1,2,4 (two coefficients) convolved with the kernel on 0,1,3 -/
example : ∃ R d', convolve (⟨[⟨1, 4, 2, 1, [0, 1, 2, 4], 0, 4⟩], #[1, 2]⟩ : CTable Rat) 0 [0, 1, 3] = some R ∧
    R.dims[0]? = some d' ∧ d'.order = 3 :=
  let ⟨R, d', h, hd', _, ho, _⟩ := blossom_is_convolution_slices (⟨[⟨1, 4, 2, 1, [0, 1, 2, 4], 0, 4⟩], #[1, 2]⟩ : CTable Rat) 0
    [0, 1, 3] ⟨1, 4, 2, 1, [0, 1, 2, 4], 0, 4⟩ rfl rfl rfl (by decide) (by decide) (by decide) (by decide) (by decide)
  ⟨R, d', h, hd', ho⟩

/-- **Strøm's identity for the table (the full statement of the header)**: for a table of any number of dimensions
with row-major strides, any dimension `dim` whose knots are strictly increasing, any kernel on `n ≥ 2` strictly
increasing knots (`order + n − 1 ≤ 12` so that the `unsigned` factorials are exact): the table returned by
`PsV.convolve`, evaluated through the shared Cox–de Boor specification as the sum over **all** stored coefficients
`Σ coef · Π_d B_d(x_d)` (`ConvSpec.evalTable`), equals the specification's convolution integral
`ConvSpec.specConv` of the original table, at every point whose coordinate `dim` lies in the new knot range
`[ρ_0, ρ_last]`, `ρ` = the sorted pairwise sums (coinciding sums included). -/
theorem blossom_is_convolution (T : CTable Rat) (dim : Nat) (ck : List Rat) (d : CDim Rat) (xs : List Rat)
    (hd : T.dims[dim]? = some d)
    (hstr : ∀ j e, T.dims[j]? = some e → e.stride = ((T.dims.map (·.naxes)).drop (j+1)).prod)
    (hxs : xs.length = T.dims.length)
    (hk : d.knots.length = d.nknots) (hnax : d.naxes + d.order + 1 = d.nknots) (hn1 : 1 ≤ d.naxes)
    (hτ : d.knots.Pairwise (· < ·)) (hy : ck.Pairwise (· < ·)) (hq : 2 ≤ ck.length)
    (h12 : d.order + ck.length - 1 ≤ 12) :
    ∃ R d', convolve T dim ck = some R ∧ R.dims[dim]? = some d' ∧
      d'.knots = sortKnots (pairSums d.knots ck) ∧ d'.nknots = d'.knots.length ∧
      (getK d'.knots 0 ≤ xs.getD dim 0 → xs.getD dim 0 ≤ getK d'.knots (d'.nknots - 1) →
        ConvSpec.evalTable R xs = ConvSpec.specConv T dim ck xs) := by
  obtain ⟨R, d', hR, hd', h⟩ := convolve_is_convolution T dim ck d xs hd hstr hxs hk hnax hn1 hτ hy hq h12
  obtain ⟨R2, d2, hR2, hd2, hkn, _, hnk, _⟩ := convolve_slices_spec T dim ck d hd hk hnax hn1 hτ hy hq h12
  have hRR : R2 = R := Option.some.inj (hR2.symm.trans hR)
  subst hRR
  have hdd : d2 = d' := Option.some.inj (hd2.symm.trans hd')
  subst hdd
  exact ⟨R2, d2, hR, hd', hkn, hnk, h⟩

/-- the hypotheses are satisfiable: a two-dimensional table (orders 1 and 0), convolved along dimension 0 with the
kernel on 0, 1, 3, at a point inside the new knot range -/
example : ∃ R d', convolve (⟨[⟨1, 4, 2, 2, [0, 1, 2, 4], 0, 4⟩, ⟨0, 3, 2, 1, [0, 1, 2], 0, 2⟩], #[1, 2, 3, 4]⟩ : CTable Rat) 0
      [0, 1, 3] = some R ∧ R.dims[0]? = some d' ∧ d'.nknots = d'.knots.length :=
  let ⟨R, d', h, hd', _, hn, _⟩ := blossom_is_convolution
    (⟨[⟨1, 4, 2, 2, [0, 1, 2, 4], 0, 4⟩, ⟨0, 3, 2, 1, [0, 1, 2], 0, 2⟩], #[1, 2, 3, 4]⟩ : CTable Rat) 0 [0, 1, 3]
    ⟨1, 4, 2, 2, [0, 1, 2, 4], 0, 4⟩ [5/2, 1/2] rfl
    (by intro j e h
        rcases j with _ | _ | j
        · simp at h; subst h; rfl
        · simp at h; subst h; rfl
        · simp at h)
    rfl rfl rfl (by decide) (by decide) (by decide) (by decide) (by decide)
  ⟨R, d', h, hd', hn⟩

/-! ## the new knot vector is *the* sorted arrangement of the pairwise sums -/

/-- whatever (stable or unstable) sort is used: any ascending permutation of the pairwise sums is the knot vector the
model produces (`std::sort` in the C++, merge sort in the model) -/
theorem conv_knots_canonical (ks ck l : List Rat) (hp : l.Perm (pairSums ks ck)) (hs : l.Pairwise (· ≤ ·)) :
    sortKnots (pairSums ks ck) = l :=
  List.Perm.eq_of_pairwise (fun _ _ _ _ h1 h2 => le_antisymm h1 h2) (sortKnots_sorted _) hs
    ((sortKnots_perm _).trans hp.symm)

example : sortKnots (pairSums ([0, 1] : List Rat) [0, 1]) = [0, 1, 1, 2] :=
  conv_knots_canonical [0, 1] [0, 1] [0, 1, 1, 2]
    (by simp [pairSums, Arith.add]; norm_num) (by decide)

/-! ## what the driver prints as "exact value of the model's table" -/

/-- the exact value the C14 driver computes for the table produced by the exact model (`evalExact`, a memoised
Cox–de Boor table) is `ConvSpec.evalTable`: the sum over all stored coefficients against the shared specification -/
theorem driver_eval_is_table_value (R : CTable Rat) (xs : List Rat)
    (hn : ∀ d ∈ R.dims, d.naxes = d.nknots - d.order - 1) :
    Driver.C14.evalExact R xs = ConvSpec.evalTable R xs :=
  evalExact_eq_evalTable R xs hn

example : Driver.C14.evalExact (⟨[⟨1, 4, 2, 1, [0, 1, 2, 4], 0, 4⟩], #[1, 2]⟩ : CTable Rat) [3/2] =
    ConvSpec.evalTable ⟨[⟨1, 4, 2, 1, [0, 1, 2, 4], 0, 4⟩], #[1, 2]⟩ [3/2] :=
  driver_eval_is_table_value _ _ (by intro d hd; simp at hd; subst hd; rfl)

/-- **the exact comparison of the check holds for all inputs**: what the driver prints as exact value of the table
produced by the exact model equals what it prints as specification value, whenever the table is well-formed
(row-major strides, `naxes = nknots − order − 1`), the knots of `dim` and of the kernel strictly increase, `n ≥ 2`,
`order + n − 1 ≤ 12`, and the point lies in the new knot range. -/
theorem driver_exact_check_holds (T : CTable Rat) (dim : Nat) (ck : List Rat) (d : CDim Rat) (xs : List Rat)
    (hd : T.dims[dim]? = some d)
    (hstr : ∀ j e, T.dims[j]? = some e → e.stride = ((T.dims.map (·.naxes)).drop (j+1)).prod)
    (hwf : ∀ e ∈ T.dims, e.naxes = e.nknots - e.order - 1)
    (hxs : xs.length = T.dims.length)
    (hk : d.knots.length = d.nknots) (hnax : d.naxes + d.order + 1 = d.nknots) (hn1 : 1 ≤ d.naxes)
    (hτ : d.knots.Pairwise (· < ·)) (hy : ck.Pairwise (· < ·)) (hq : 2 ≤ ck.length)
    (h12 : d.order + ck.length - 1 ≤ 12) :
    ∃ R d', convolve T dim ck = some R ∧ R.dims[dim]? = some d' ∧
      (getK d'.knots 0 ≤ xs.getD dim 0 → xs.getD dim 0 ≤ getK d'.knots (d'.nknots - 1) →
        Driver.C14.evalExact R xs = ConvSpec.specConv T dim ck xs) :=
  evalExact_convolve T dim ck d xs hd hstr hwf hxs hk hnax hn1 hτ hy hq h12

example : ∃ R d', convolve (⟨[⟨1, 4, 2, 1, [0, 1, 2, 4], 0, 4⟩], #[1, 2]⟩ : CTable Rat) 0 [0, 1, 3] = some R ∧
    R.dims[0]? = some d' :=
  let ⟨R, d', h, hd', _⟩ := driver_exact_check_holds (⟨[⟨1, 4, 2, 1, [0, 1, 2, 4], 0, 4⟩], #[1, 2]⟩ : CTable Rat) 0 [0, 1, 3]
    ⟨1, 4, 2, 1, [0, 1, 2, 4], 0, 4⟩ [5/2] rfl
    (by intro j e h
        rcases j with _ | j
        · simp at h; subst h; rfl
        · simp at h)
    (by intro e he; simp at he; subst he; rfl)
    rfl rfl rfl (by decide) (by decide) (by decide) (by decide) (by decide)
  ⟨R, d', h, hd'⟩

end PsV
