import PsV.Proofs.ConvSpec
/-!
# C14 — convolution produces the true convolution with the unit-area kernel spline

Property theorems only; they are about `PsV.convolve`, `PsV.coefLoops`, `PsV.factorialC`, `PsV.convNorm`,
`PsV.divdiff` — the definitions the driver executes (at `F32` for the bit-level tie, at `Rat` for the exact part) —
and about the exact specification `PsV.ConvSpec`.

**Not proved in Lean (carried by the correspondence on every run):** Strøm's identity, i.e.

```
theorem blossom_is_convolution (T : CTable Rat) (dim) (ck : List Rat) (xs : List Rat)
    (hT : T well-formed, knots of dimension dim strictly increasing) (hk : ck strictly increasing, 2 ≤ ck.length)
    (R) (h : convolve T dim ck = some R) :
    (Σ over all stored coefficients of R: coef · Π_d B_d(x_d))  =  ConvSpec.specConv T dim ck xs
```
The check evaluates both sides exactly in `Rat` on every generated case and demands equality (no tolerance).
What *is* proved: the shape of the result, that the four loops are the mode product with the matrix `trafo`,
that `factorial` (repaired) is the factorial, the value of the normalisation, linearity of `divdiff`, and that the
antiderivative used by the specification is one.
-/
namespace PsV
open Arith

/-! ## factorial -/

/-- `factorial` (after `fixes/C14-1.diff`) is `n!` in `unsigned` arithmetic, for every `n`. -/
theorem factorial_spec (n : Nat) : factorialC n = n.factorial % 2^32 := by
  unfold factorialC
  rw [factLoop_eq n 1 (by norm_num), Nat.one_mul]

/-- … and the true factorial as long as it fits (`12! < 2^32 < 13!`). -/
theorem factorial_spec_small (n : Nat) (h : n ≤ 12) : factorialC n = n.factorial := by
  rw [factorial_spec]
  apply Nat.mod_eq_of_lt
  calc n.factorial ≤ (12).factorial := Nat.factorial_le h
    _ < 2^32 := by decide

example : factorialC 0 = 1 ∧ factorialC 5 = 120 := by decide

/-- The finding behind `fixes/C14-1.diff`: the unrepaired loop starts from `acc = n = 0`, so whatever number of
its 2^32 - 2 iterations is run, `factorial(0)` is 0 (and the normalisation of an order-0 dimension is 0). -/
theorem factorial_old_zero_wrong (fuel : Nat) : factorialOld 0 fuel = 0 := by
  unfold factorialOld
  generalize (0 + 2^32 - 1) % 2^32 = i
  induction fuel generalizing i with
  | zero => rfl
  | succ f ih =>
    unfold factorialOldLoop
    split
    · simpa using ih (i - 1)
    · rfl

example : factorialOld 0 1000 = 0 := factorial_old_zero_wrong 1000

/-! ## normalisation -/

/-- `norm = q! (k-1)! / (k+q-1)!` (de Boor-normalised spline of order `k` against a unit-area kernel on `q+1` knots),
as long as the factorials fit in `unsigned`. -/
theorem norm_spec (k q : Nat) (hk : 1 ≤ k) (h : k + q - 1 ≤ 12) :
    (convNorm k q : Rat) = ((q.factorial * (k-1).factorial : Nat) : Rat) / (((k+q-1).factorial : Nat) : Rat) := by
  unfold convNorm
  rw [factorial_spec_small q (by omega), factorial_spec_small (k-1) (by omega), factorial_spec_small (k+q-1) h]
  have hdvd : q.factorial * (k-1).factorial ∣ (k+q-1).factorial := by
    have := Nat.factorial_mul_factorial_dvd_factorial_add q (k-1)
    have e : q + (k - 1) = k + q - 1 := by omega
    rwa [e] at this
  have hle : q.factorial * (k-1).factorial ≤ (12).factorial :=
    le_trans (Nat.le_of_dvd (Nat.factorial_pos _) hdvd) (Nat.factorial_le h)
  have hlt : q.factorial * (k-1).factorial < 2^32 := lt_of_le_of_lt hle (by decide)
  rw [Nat.mod_eq_of_lt hlt]
  rfl

example : (convNorm 3 2 : Rat) = 1/6 := by
  rw [norm_spec 3 2 (by omega) (by omega)]; norm_num [Nat.factorial]

/-- The finding behind `fixes/C14-2.diff`: for odd `k` (even spline order) the unrepaired code negates the
normalisation, hence every entry of the transfer matrix and every convolved coefficient. -/
theorem norm_old_negated (k q : Nat) (hk : k % 2 = 1) : (convNormOld k q : Rat) = - convNorm k q := by
  unfold convNormOld
  have : (k % 2 != 0) = true := by simp [hk]
  simp only [this, if_true]
  show convNorm k q * (-1) = _
  ring

example : (convNormOld 1 1 : Rat) = -1 ∧ (convNorm 1 1 : Rat) = 1 := by
  constructor
  · rw [norm_old_negated 1 1 rfl, norm_spec 1 1 (by omega) (by omega)]; norm_num [Nat.factorial]
  · rw [norm_spec 1 1 (by omega) (by omega)]; norm_num [Nat.factorial]

/-! ## divided differences -/

/-- `divdiff` is linear in the function values. -/
theorem divdiff_linear (x f g : Nat → Rat) (a : Rat) (n o : Nat) :
    divdiff x (fun i => a * f i + g i) n o = a * divdiff x f n o + divdiff x g n o := by
  induction n using Nat.strong_induction_on generalizing o with
  | _ n ih =>
    match n with
    | 0 => show (0:Rat) = a * 0 + 0; ring
    | 1 => rfl
    | n+2 =>
      unfold divdiff
      rw [ih (n+1) (by omega) (o+1), ih (n+1) (by omega) o]
      show (_ - _) / _ = a * ((_ - _) / _) + (_ - _) / _
      ring

/-- the divided difference over two or more points annihilates constants -/
theorem divdiff_const (x : Nat → Rat) (c : Rat) (n o : Nat) : divdiff x (fun _ => c) (n+2) o = 0 := by
  induction n generalizing o with
  | zero => show (c - c) / _ = 0; simp
  | succ n ih =>
    unfold divdiff
    rw [ih (o+1), ih o]
    show (0 - 0) / _ = (0:Rat); simp

example : divdiff (fun i => (i : Rat)) (fun i => ((i : Rat))^2) 3 0 = 1 := by
  simp [divdiff, Arith.div, Arith.sub]; norm_num

/-! ## the coefficient loops are the mode product with `trafo` -/

/-- **Any carrier (also float), any number of dimensions, any shape**: after the four nested loops, cell
`(i, j, k)` of the new array (`i < stride1` the combined index of the dimensions before `dim`, `j < nNew`,
`k < stride2` the combined index of those after) holds the fold over `l` of
`acc ↦ rnd (acc + trafo[j*nOld+l] * old[i*stride2*nOld + l*stride2 + k])` applied to its initial content. -/
theorem transfer_cells {α : Type} [Arith α] (trafo old : Nat → α) (stride1 stride2 nNew nOld : Nat) (init : Array α)
    (i j k : Nat) (hi : i < stride1) (hj : j < nNew) (hk : k < stride2) :
    (coefLoops trafo old stride1 stride2 nNew nOld init)[i*stride2*nNew + j*stride2 + k]? =
      (init[i*stride2*nNew + j*stride2 + k]?).map (cellFold trafo old stride2 nOld i j k) :=
  coefLoops_cell trafo old stride1 stride2 nNew nOld init i j k hi hj hk

/-- Exact arithmetic: the loops compute the mode product `new[i,j,k] = Σ_l trafo[j,l] · old[i,l,k]`
of the coefficient tensor with the transfer matrix along `dim`. -/
theorem transfer_is_mode_product (trafo old : Nat → Rat) (stride1 stride2 nNew nOld N : Nat)
    (i j k : Nat) (hi : i < stride1) (hj : j < nNew) (hk : k < stride2)
    (hN : i*stride2*nNew + j*stride2 + k < N) :
    (coefLoops trafo old stride1 stride2 nNew nOld (Array.replicate N (Arith.rnd Arith.zero)))[i*stride2*nNew + j*stride2 + k]? =
      some (∑ l ∈ Finset.range nOld, trafo (j*nOld + l) * old (i*stride2*nOld + l*stride2 + k)) := by
  rw [transfer_cells trafo old stride1 stride2 nNew nOld _ i j k hi hj hk]
  simp only [Array.getElem?_replicate, hN, if_true, Option.map_some]
  congr 1
  exact cellFold_rat trafo old stride2 nOld i j k

example : (coefLoops (fun p => ((p : Nat) : Rat) + 1) (fun p => ((p : Nat) : Rat)) 2 2 3 2
    (Array.replicate 12 (Arith.rnd Arith.zero)))[1*2*3 + 2*2 + 1]? = some ((5:Rat) * 5 + 6 * 7) := by
  rw [transfer_is_mode_product _ _ 2 2 3 2 12 1 2 1 (by omega) (by omega) (by omega) (by omega)]
  simp [Finset.sum_range_succ]
  norm_num

/-- the index space of the loops is the whole new array: `arraysize = stride1 · nNew · stride2` -/
theorem arraysize_split (naxes : List Nat) (dim nNew : Nat) (h : dim < naxes.length) :
    (rowMajor (setAt naxes dim nNew)).2 =
      prodL ((setAt naxes dim nNew).take dim) * nNew * prodL ((setAt naxes dim nNew).drop (dim+1)) :=
  rowMajor_split naxes dim nNew h

/-! ## shape of the result -/

/-- **conv_shape**: the order of dimension `dim` rises by `n-1`; its knot vector is the sorted list of the pairwise
sums (a permutation of them that is ascending), of length `nknots·n`; `naxes = nknots' - order' - 1`; every other
dimension keeps order, knots, counts and extents; strides are row-major for the new `naxes`; the coefficient array
has `Π naxes` entries. -/
theorem conv_shape (T : CTable Rat) (dim : Nat) (ck : List Rat) (d : CDim Rat)
    (hd : T.dims[dim]? = some d) (hk : d.knots.length = d.nknots) :
    ∃ R, convolve T dim ck = some R ∧ R.dims.length = T.dims.length ∧
      (∃ d', R.dims[dim]? = some d' ∧
         d'.order = d.order + ck.length - 1 ∧
         d'.nknots = d.nknots * ck.length ∧ d'.knots.length = d'.nknots ∧
         d'.knots.Perm (pairSums d.knots ck) ∧ d'.knots.Pairwise (· ≤ ·) ∧
         d'.naxes = d'.nknots - d'.order - 1) ∧
      (∀ j e, j ≠ dim → T.dims[j]? = some e → ∃ e', R.dims[j]? = some e' ∧ e'.order = e.order ∧
         e'.nknots = e.nknots ∧ e'.naxes = e.naxes ∧ e'.knots = e.knots ∧ e'.extLo = e.extLo ∧ e'.extHi = e.extHi) ∧
      (∀ j e', R.dims[j]? = some e' → e'.stride = ((R.dims.map (·.naxes)).drop (j+1)).prod) ∧
      R.coef.size = (R.dims.map (·.naxes)).prod :=
  convolve_shape T dim ck d hd hk

/-- the hypotheses are satisfiable: order 0 on knots 0,1,2 convolved with the box on [0,1] -/
example : ∃ R, convolve (⟨[⟨0, 3, 2, 1, [0, 1, 2], 0, 2⟩], #[1, 1]⟩ : CTable Rat) 0 [0, 1] = some R ∧
    R.dims.length = 1 :=
  let ⟨R, h, hl, _⟩ := conv_shape (⟨[⟨0, 3, 2, 1, [0, 1, 2], 0, 2⟩], #[1, 1]⟩ : CTable Rat) 0 [0, 1]
    ⟨0, 3, 2, 1, [0, 1, 2], 0, 2⟩ rfl rfl
  ⟨R, h, hl⟩

/-! ## the specification's calculus -/

open ConvSpec in
/-- the antiderivative used by the exact specification differentiates back to the polynomial -/
theorem antideriv_derivative (p : Poly) : pderiv (pantideriv p) = p := by
  unfold pantideriv pderiv
  exact derivFrom_antiFrom 0 p

open ConvSpec in
/-- **unit area, kernel on two knots** (`n = 2`, the box): `∫ M = 1`. -/
theorem unit_area_box (y : Nat → Rat) (h : y 0 ≠ y 1) : kernelArea y 1 = 1 :=
  kernelArea_box y h

example : ConvSpec.kernelArea (fun i => if i = 0 then (-1 : Rat) else 2) 1 = 1 :=
  unit_area_box _ (by norm_num)

open ConvSpec in
/-- the integrand the specification integrates on one piece is `f(x - t) · M(t)` -/
theorem spec_integrand_sound (f m : Poly) (x t : Rat) :
    peval (pmul (pcompLin f x (-1)) m) t = peval f (x - t) * peval m t := by
  rw [peval_pmul, peval_pcompLin]
  congr 2
  ring

example : ConvSpec.peval (ConvSpec.pmul (ConvSpec.pcompLin [0, 0, 1] 3 (-1)) [2]) 1 = (3 - 1)^2 * 2 := by
  rw [spec_integrand_sound]; simp [ConvSpec.peval]; norm_num

open ConvSpec in
/-- the polynomial pieces from which the specification builds `f` and the kernel are the shared Cox–de Boor
specification `PsV.Bind` restricted to knot interval `j` (same recursion, same `a/0 = 0` convention) -/
theorem spec_pieces_are_cox_de_boor (t : Int → Rat) (j p i : Nat) (x : Rat) :
    peval (bpiece (fun n => t (n : Nat)) j p i) x = Bind (fun k => decide (k = (j : Int))) t x p (i : Int) :=
  bpiece_eval t j x p i

example : ConvSpec.peval (ConvSpec.bpiece (fun n => ((n : Nat) : Rat)) 0 1 0) (1/2) = 1/2 := by
  simp [ConvSpec.bpiece, ConvSpec.peval, ConvSpec.padd, ConvSpec.pmulLin, ConvSpec.pscale]

end PsV
