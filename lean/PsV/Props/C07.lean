import PsV.Model.FitsRead
namespace PsV
open PsV.Fits
theorem C07_placeholder : Obj.empty.ndim = 0 := rfl
end PsV
