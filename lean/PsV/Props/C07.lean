import PsV.Proofs.FitsRead
import PsV.Proofs.FitsReadState
import PsV.Proofs.FitsEvalBridge
import PsV.Proofs.FitsDecode
import PsV.Proofs.DoubleValue
import PsV.Props.C04
import PsV.Props.C05
/-!
# C07 — reading any bytes either fails cleanly or yields a safe, well-formed table

Property theorems only.  `readFixed` is `read_fits_core` with the validation block of fixes/C07-1.diff, `cleanup` the
storage guard of commit 907b348 (`storage_guard` / `release_storage`), `stateAt nullInit ndim stop` the object at each throw site of the source (which
members are allocated, which pointer slots are NULL or garbage), `destroy` the destructor `~splinetable`.  `readCore`
and `stateAt false` describe the code before the repair.  These are the definitions the driver
(`PsV/Driver/C06.lean`, command `R`) runs against the real readers on mutated files.

Second part (sections "the object, step by step", "every accepted table is safe to use", "bytes"):
* `readGuarded` / `readFits` / `readSeq` (`PsV/Model/FitsReadState.lean`) execute the statements of `read_fits_core` on
  the object in source order; `C07_guarded_refines` links them to `readFixed` and to the driver's
  `cleanup (stateAt …)`, `C07_rejected_leaves_empty`, `C07_accepted_object`, `C07_read_total_state`, `C07_reuse` are
  the statements about the object after a read.
* `Table.lookupAxes` / `Table.evalView` (`PsV/Model/FitsView.lean`) are the table object as `searchcenters` and the
  evaluators see it, with arbitrary memory contents outside the arrays the reader filled;
  `C07_accepted_lookup_safe`, `C07_accepted_eval_reads_owned`, `C07_accepted_gradient_reads_owned`,
  `C07_read_then_use_safe` compose the reader with C04 and C05 for **every** accepted table;
  `C07_accepted_eval_wf` gives the `Table.WF` / `Dim.WF` of `Proofs/Bridge.lean` / `EvalSpec.lean`.
* `C07_bytes_framed`, `C07_bytes_total`: every byte string the decoder accepts is tiled by the HDUs it yields.
-/
namespace PsV
open PsV.Fits

/-- the object state in which `read_fits_core` leaves the table when it throws `e` on a file whose primary image has
    `ndim` axes (the storage guard has run) -/
def afterFailure (ndim : Nat) (e : RErr) : Except Fault Obj := cleanup (stateAt true ndim (stopOf e))

/-- C07: for every store, the repaired reader either returns a well-formed table, or fails and leaves the object
    empty with the allocation ledger balanced (every block obtained before the throw has been released, no pointer
    followed that was not set). -/
theorem C07_read_total (E : Ext) (f : Fits) :
    (∃ t, readFixed E f = .ok t ∧ t.WF) ∨
    (∃ e, readFixed E f = .error e ∧ afterFailure (f.headD default).axes.length e = .ok Obj.empty) := by
  cases hr : readFixed E f with
  | ok t => exact .inl ⟨t, rfl, readFixed_wf E f t hr⟩
  | error e => exact .inr ⟨e, rfl, cleanup_after_readFixed E f e hr⟩

/-- non-vacuous on both sides: a minimal valid file (order 0, three knots, two coefficients) is accepted, the same
    file with `ORDER0 = 5` is rejected by the validation block -/
example : (∃ t, readFixed exExt exValid = .ok t) ∧ readFixed exExt exCounts = .error (.invalid 0 1) := by
  constructor
  · exact ⟨_, exValid_read⟩
  · exact exCounts_fixed

/-- The repair only rejects: a table it returns is the table the unrepaired reader returns. -/
theorem readFixed_sound (E : Ext) (f : Fits) (t : Fits.Table) (h : readFixed E f = .ok t) : readCore E f = .ok t :=
  ((readFixed_ok_iff E f t).mp h).1

example : ∃ t, readFixed exExt exValid = .ok t := ⟨_, exValid_read⟩

/-- … and it rejects exactly the tables that fail the per-dimension checks. -/
theorem readFixed_complete (E : Ext) (f : Fits) (t : Fits.Table) (h : readCore E f = .ok t) (hw : DimsWF t) :
    readFixed E f = .ok t :=
  (readFixed_ok_iff E f t).mpr ⟨h, hw⟩

example : ∃ t, readCore exExt exValid = .ok t ∧ DimsWF t :=
  ⟨_, readFixed_sound _ _ _ exValid_read, ((readFixed_ok_iff _ _ _).mp exValid_read).2⟩

/-- dimension `i` of a table as the lookup model of C04 sees it: knots through their order-isomorphic integer keys -/
def axisOf (t : Fits.Table) (i : Nat) : Axis Int :=
  ⟨t.order.getD i 0, (t.knots.getD i []).length, fun j => ((t.knots.getD i []).map dkey).getD j 0⟩

/-- Well-formedness is what C04 (and through it C05's memory-safety argument) assumes of every dimension:
    `nknots ≥ 2·order+2` and non-decreasing knots. -/
theorem WF_implies_C04 (t : Fits.Table) (h : t.WF) (i : Nat) (hi : i < t.ndim) : (axisOf t i).WF := by
  obtain ⟨_, _, _, _, _, hd, _, _⟩ := h
  obtain ⟨hlen, _, hv⟩ := hd i hi
  refine ⟨hlen, ?_⟩
  intro a b hab hb
  have hs : sortedKeys ((t.knots.getD i []).map dkey) = true := by
    unfold knotsValid at hv
    simp only [Bool.and_eq_true] at hv
    exact hv.2
  exact sortedKeys_mono _ hs a b hab (by simpa [axisOf] using hb)

example : ∃ t : Fits.Table, t.WF ∧ 0 < t.ndim := ⟨exValidTable, readFixed_wf _ _ _ exValid_read, by decide⟩

/-! ## the code before the repair -/

/-- Defect 1 (no cross-checks): `ORDER0 = 5` with a `KNOTS0` extension of 3 knots and 2 coefficients is accepted by
    the unrepaired reader although the table is not well-formed. -/
theorem C07_counterexample_counts : ∃ t, readCore exExt exCounts = .ok t ∧ ¬ t.WF :=
  ⟨_, exCounts_core, exCounts_not_wf⟩

/-- Defect 1b (no check of the knot values): NaN / unsorted knots are accepted. -/
theorem C07_counterexample_knots : ∃ t, readCore exExt exNaNKnots = .ok t ∧ ¬ t.WF :=
  ⟨_, exNaNKnots_core, exNaNKnots_not_wf⟩

/-- Defect 2 (half-built object): when `KNOTS1` is missing the unrepaired reader throws with `ndim = 2`, `knots[0]`
    allocated and `knots[1]` never assigned — the destructor then frees a garbage pointer; when an `ORDERn` key is
    missing it throws with `strides == NULL`, which the destructor dereferences. -/
theorem C07_counterexample_halfbuilt :
    readCore exExt exMissingKnots = .error (.knotSize 1) ∧
    destroy (stateAt false 2 (stopOf (.knotSize 1))) = .error .freeGarbage ∧
    readCore exExt exMissingOrder = .error (.order 0) ∧
    destroy (stateAt false 1 (stopOf (.order 0))) = .error .nullDeref :=
  ⟨exMissingKnots_core, by decide, exMissingOrder_core, by decide⟩

/-- With the storage guard (commit 907b348) the same two failures leave an empty object. -/
theorem C07_repaired_halfbuilt :
    afterFailure 2 (.knotSize 1) = .ok Obj.empty ∧ afterFailure 1 (.order 0) = .ok Obj.empty := by
  constructor <;> decide

/-- A completely read table is destroyed without fault and with an empty ledger (any number of dimensions). -/
theorem destroy_complete (ndim : Nat) (h : 0 < ndim) : destroy (stateAt true ndim .done) = .ok [] :=
  destroy_done ndim h

example : destroy (stateAt true 3 .done) = .ok [] := destroy_done 3 (by decide)

/-! ## the object, step by step -/

/-- The step-by-step reader (every `allocate` and every assignment of `read_fits_core` executed on the object, the
    storage guard run at scope exit) is linked to the two definitions the driver executes: its verdict is
    `readFixed`'s, and when that is an error its object is what the driver computes as
    `cleanup (stateAt true ndim (stopOf e))`. -/
theorem C07_guarded_refines (E : Ext) (f : Fits) :
    (∀ e, readFixed E f = .error e →
      ∃ o, afterFailure (f.headD default).axes.length e = .ok o ∧ readGuarded E f = .ok (o, .error e)) ∧
    (∀ t, readFixed E f = .ok t → ∃ o, readGuarded E f = .ok (o, .ok t)) :=
  ⟨fun e h => ⟨Obj.empty, cleanup_after_readFixed E f e h, readGuarded_error E f e h⟩,
   fun t h => ⟨_, (readGuarded_ok E f t h).1⟩⟩

example : readGuarded exExt exCounts = .ok (Obj.empty, .error (.invalid 0 1)) :=
  readGuarded_error _ _ _ exCounts_fixed

/-- **C07 (3): a rejected read leaves no partially constructed table observable.**  For every store and every
    failure point of the reader: after `read_fits_core` has returned to its caller, the object *is* the empty table
    (`ndim = 0`, every pointer member NULL) and every block allocated on the way has been released exactly once. -/
theorem C07_rejected_leaves_empty (E : Ext) (f : Fits) (e : RErr) (h : readFixed E f = .error e) :
    readGuarded E f = .ok (Obj.empty, .error e) :=
  readGuarded_error E f e h

/-- non-vacuous at a late failure point: two dimensions, `KNOTS1` missing — the read stops inside the knot loop with
    eleven blocks allocated (`knots[0]` among them) and still leaves the empty object -/
example : readFixed exExt exMissingKnots = .error (.knotSize 1) ∧
    (stateAt true 2 (stopOf (.knotSize 1))).live.length = 11 ∧
    readGuarded exExt exMissingKnots = .ok (Obj.empty, .error (.knotSize 1)) := by
  have h : readFixed exExt exMissingKnots = .error (.knotSize 1) := by decide
  exact ⟨h, by decide, readGuarded_error _ _ _ h⟩

/-- An accepted read leaves the completely populated object (all `ndim` knot vectors assigned, nothing else
    outstanding); the destructor releases it without following an unset pointer and with an empty ledger. -/
theorem C07_accepted_object (E : Ext) (f : Fits) (t : Fits.Table) (h : readFixed E f = .ok t) :
    readGuarded E f = .ok (stateAt true t.ndim .done, .ok t) ∧ destroy (stateAt true t.ndim .done) = .ok [] :=
  readGuarded_ok E f t h

example : ∃ t, readFixed exExt exValid = .ok t := ⟨_, exValid_read⟩

/-- `C07_read_total` on the object itself: for every store the guarded read ends in one of two states — a
    well-formed table in a completely populated, safely destructible object, or an error and the empty object.
    It never faults. -/
theorem C07_read_total_state (E : Ext) (f : Fits) :
    (∃ t, readGuarded E f = .ok (stateAt true t.ndim .done, .ok t) ∧ t.WF ∧
      destroy (stateAt true t.ndim .done) = .ok []) ∨
    (∃ e, readGuarded E f = .ok (Obj.empty, .error e)) := by
  cases hr : readFixed E f with
  | ok t => exact .inl ⟨t, (readGuarded_ok E f t hr).1, readFixed_wf E f t hr, (readGuarded_ok E f t hr).2⟩
  | error e => exact .inr ⟨e, readGuarded_error E f e hr⟩

example : (∃ t, readFixed exExt exValid = .ok t) ∧ readFixed exExt exCounts = .error (.invalid 0 1) :=
  ⟨⟨_, exValid_read⟩, exCounts_fixed⟩

/-- **Reusable**: after any sequence of rejected files the object is exactly a fresh one (so the `ndim != 0` test of
    `read_fits` lets through the next read), each rejected file got its verdict, and reading one more file `f` into the
    same object gives what reading `f` into a fresh object gives. -/
theorem C07_reuse (E : Ext) (fs : List Fits) (f : Fits) (hrej : ∀ g ∈ fs, ∃ e, readFixed E g = .error e) :
    readSeq E Obj.empty fs = .ok (Obj.empty, fs.map (readFixed E)) ∧
    readSeq E Obj.empty (fs ++ [f]) =
      (match readFits E Obj.empty f with
       | .error x => .error x
       | .ok (o, r) => .ok (o, fs.map (readFixed E) ++ [r])) := by
  constructor
  · obtain ⟨rs, h1, h2⟩ := readSeq_rejected E fs hrej
    rw [h1, h2]
  · induction fs with
    | nil =>
      simp only [List.nil_append, readSeq, List.map_nil]
      cases readFits E Obj.empty f with
      | error x => rfl
      | ok p => rfl
    | cons g gs ih =>
      obtain ⟨e, he⟩ := hrej g (by simp)
      have ih' := ih (fun k hk => hrej k (by simp [hk]))
      simp only [List.cons_append, readSeq, readFits_empty_error E g e he, ih', List.map_cons, he]
      cases readFits E Obj.empty f with
      | error x => rfl
      | ok p => rfl

example : ∀ g ∈ [exCounts, exMissingKnots], ∃ e, readFixed exExt g = .error e := by
  intro g hg
  simp only [List.mem_cons, List.not_mem_nil, or_false] at hg
  rcases hg with rfl | rfl
  · exact ⟨_, exCounts_fixed⟩
  · exact ⟨.knotSize 1, by decide⟩

/-- which stops exist for a table of `nd` dimensions -/
def Fits.Stop.valid (nd : Nat) : Stop → Prop
  | .knot i _ => i < nd
  | _ => True

/-- The storage guard empties the object at **every** throw site of the source, reachable in the reader model or
    not (`imgSize` stands for the two throws after `fits_get_img_size` — cfitsio error, negative axis — which the
    abstract store cannot produce), for every number of dimensions. -/
theorem C07_cleanup_every_stop (nd : Nat) (s : Stop) (h : s.valid nd) :
    cleanup (stateAt true nd s) = .ok Obj.empty := by
  cases s with
  | early => exact cleanup_early nd
  | order => exact cleanup_order nd
  | imgSize => exact cleanup_imgSize nd
  | readPix => exact cleanup_readPix nd
  | knot i a => exact cleanup_knot nd i a h
  | extData => exact cleanup_extData nd
  | done => exact cleanup_extData nd

example : (Stop.knot 1 true).valid 3 ∧ (stateAt true 3 (.knot 1 true)).live.length = 12 :=
  ⟨show 1 < 3 by decide, by decide⟩

/-! ## every accepted table is safe to use: composition with C04 (lookup) and C05 (evaluation) -/

/-- **Lookup on an accepted table**, for every coordinate vector (`none` = NaN) and whatever the memory beyond the
    knot arrays holds: `searchcenters` terminates, its outcome does not depend on anything outside
    `knots[i][0 .. nknots[i])` (it reads nothing else), and every centre vector it returns lies in the range for which
    C05 proves the evaluators memory-safe (`CentersInRange` of the evaluators' view of the same table). -/
theorem C07_accepted_lookup_safe (E : Ext) (f : Fits) (t : Fits.Table) (h : readFixed E f = .ok t)
    (memK : Nat → Nat → Option Int) (xs : List (Option Int)) :
    searchCenters (t.lookupAxes memK) xs ≠ .nonterm ∧
    (∀ memK', searchCenters (t.lookupAxes memK') xs = searchCenters (t.lookupAxes memK) xs) ∧
    (∀ cs, searchCenters (t.lookupAxes memK) xs = .ok cs →
      ∀ {α : Type} (kn : UInt64 → α) (mem : Nat → Int → α), CentersInRange (t.evalDims kn mem) cs) := by
  have hwf := readFixed_wf E f t h
  obtain ⟨_, _, _, _, _, hd, _⟩ := hwf
  have hd' : ∀ i, 0 ≤ i → i < 0 + t.ndim →
      DimWF (t.order.getD i 0) (t.naxes.getD i 0) (t.knots.getD i []) := fun i _ hi => hd i (by omega)
  unfold Table.lookupAxes
  rw [List.range_eq_range']
  refine ⟨(search_range' (α := Unit) t memK (fun _ => ()) (fun _ _ => ()) t.ndim 0 xs hd').1, ?_, ?_⟩
  · intro memK'
    exact search_mem_indep_range' t memK' memK t.ndim 0 xs hd'
  · intro cs hcs α kn mem
    unfold Table.evalDims
    rw [List.range_eq_range']
    exact (search_range' t memK kn mem t.ndim 0 xs hd').2 cs hcs

/-- non-vacuous: on the table read from `exValid` the coordinate 1.0 is inside the knot range and gets centre 1 -/
example : readFixed exExt exValid = .ok exValidTable ∧
    searchCenters (exValidTable.lookupAxes fun _ _ => none) [some 4607182418800017408] = .ok [1] :=
  ⟨exValid_read, by decide⟩

variable {α : Type} [A : Arith α]

/-- **Evaluation of an accepted table touches only storage the reader allocated** — C05 applies to every table the
    reader returns.  `mem` / `mem'` are two contents of everything that is not one of the `nknots[i]` knot values
    read from the file, `memC` / `memC'` two contents of everything that is not one of the `ncoeffs` coefficients read
    from the file.  If `mem` and `mem'` agree on the `order[i]` padding cells on either side of each knot vector
    (allocated by the reader, never written), then for every arithmetic, every coordinate vector, every mode list
    (`ndsplineeval`, `ndsplineeval_deriv`) and every centre vector in range the result is the same: no cell outside
    `knots[i][-order[i] .. nknots[i]+order[i])` and `coefficients[0 .. ncoeffs)` is read. -/
theorem C07_accepted_eval_reads_owned (E : Ext) (f : Fits) (t : Fits.Table) (h : readFixed E f = .ok t)
    (kn : UInt64 → α) (cf : UInt32 → α) (mem mem' : Nat → Int → α) (memC memC' : Int → α)
    (hpad : PadAgree t mem mem') (xs : List α) (cs : List Nat) (ms : List BasisMode)
    (hc : CentersInRange (t.evalDims kn mem) cs) (hx : t.ndim = xs.length) (hm : t.ndim = ms.length) :
    evalModes (t.evalView kn cf mem memC) xs cs ms = evalModes (t.evalView kn cf mem' memC') xs cs ms := by
  have hwf := readFixed_wf E f t h
  apply C05_eval_reads_owned
  · exact evalDims_ne_nil t hwf kn mem
  · show SameShape (t.evalDims kn mem) (t.evalDims kn mem')
    unfold Table.evalDims
    rw [List.range_eq_range']
    exact sameShape_range' t kn mem mem' hpad _ _
  · exact evalDims_rowMajor t hwf kn mem
  · exact hc
  · show (t.evalDims kn mem).length = xs.length
    rw [evalDims_length]; exact hx
  · show (t.evalDims kn mem).length = ms.length
    rw [evalDims_length]; exact hm
  · apply evalView_coef_agree
    show ((ncoef (t.evalDims kn mem) : Nat) : Int) ≤ _
    rw [evalDims_ncoef t hwf kn mem]

/-- the same for every lane of `ndsplineeval_gradient` -/
theorem C07_accepted_gradient_reads_owned (maxDim : Nat) (E : Ext) (f : Fits) (t : Fits.Table)
    (h : readFixed E f = .ok t)
    (kn : UInt64 → α) (cf : UInt32 → α) (mem mem' : Nat → Int → α) (memC memC' : Int → α)
    (hpad : PadAgree t mem mem') (xs : List α) (cs : List Nat)
    (hc : CentersInRange (t.evalDims kn mem) cs) (hx : t.ndim = xs.length) :
    ndsplineevalGradient maxDim (t.evalView kn cf mem memC) xs cs
      = ndsplineevalGradient maxDim (t.evalView kn cf mem' memC') xs cs := by
  have hwf := readFixed_wf E f t h
  apply C05_gradient_reads_owned
  · exact evalDims_ne_nil t hwf kn mem
  · show SameShape (t.evalDims kn mem) (t.evalDims kn mem')
    unfold Table.evalDims
    rw [List.range_eq_range']
    exact sameShape_range' t kn mem mem' hpad _ _
  · exact evalDims_rowMajor t hwf kn mem
  · exact hc
  · show (t.evalDims kn mem).length = xs.length
    rw [evalDims_length]; exact hx
  · apply evalView_coef_agree
    show ((ncoef (t.evalDims kn mem) : Nat) : Int) ≤ _
    rw [evalDims_ncoef t hwf kn mem]

/-- hypotheses satisfiable: the table read from `exValid`, exact arithmetic, centre 1, two memory contents that
    differ everywhere outside the (here empty, order 0) padding -/
example : readFixed exExt exValid = .ok exValidTable ∧
    PadAgree exValidTable (fun _ _ => (0 : Rat)) (fun _ j => if j < 0 ∨ 3 ≤ j then 7 else 0) ∧
    CentersInRange (exValidTable.evalDims (fun b => ((dkey b : Int) : Rat)) (fun _ _ => (0 : Rat))) [1] := by
  refine ⟨exValid_read, ?_, ⟨by decide, by decide, by decide⟩, trivial⟩
  intro i j h1 h2
  have hi : exValidTable.order.getD i 0 = 0 := by
    cases i with
    | zero => rfl
    | succ i => rfl
  have hk : (exValidTable.knots.getD i []).length ≤ 3 := by
    cases i with
    | zero => decide
    | succ i => exact Nat.zero_le _
  rw [hi] at h1 h2
  have : ¬ (j < 0 ∨ 3 ≤ j) := by omega
  simp [this]

/-- **C07 ∘ C04 ∘ C05: reading, then looking up, then evaluating is safe for every input.**  For every store the
    reader accepts, every coordinate vector (as comparison keys, `none` = NaN) and every memory content outside the
    arrays: the lookup terminates and reads only the knot arrays; if it returns centres, then every evaluator, in
    every arithmetic and for every coordinate values `xs` and modes `ms`, reads only cells the reader allocated
    (result independent of everything else). -/
theorem C07_read_then_use_safe (E : Ext) (f : Fits) (t : Fits.Table) (h : readFixed E f = .ok t)
    (memK : Nat → Nat → Option Int) (keys : List (Option Int)) :
    searchCenters (t.lookupAxes memK) keys ≠ .nonterm ∧
    ∀ cs, searchCenters (t.lookupAxes memK) keys = .ok cs →
      ∀ (kn : UInt64 → α) (cf : UInt32 → α) (mem mem' : Nat → Int → α) (memC memC' : Int → α),
        PadAgree t mem mem' → ∀ (xs : List α), t.ndim = xs.length →
          (∀ ms : List BasisMode, t.ndim = ms.length →
            evalModes (t.evalView kn cf mem memC) xs cs ms = evalModes (t.evalView kn cf mem' memC') xs cs ms) ∧
          (∀ maxDim, ndsplineevalGradient maxDim (t.evalView kn cf mem memC) xs cs
            = ndsplineevalGradient maxDim (t.evalView kn cf mem' memC') xs cs) := by
  obtain ⟨h1, _, h3⟩ := C07_accepted_lookup_safe E f t h memK keys
  refine ⟨h1, ?_⟩
  intro cs hcs kn cf mem mem' memC memC' hpad xs hx
  have hc := h3 cs hcs kn mem
  exact ⟨fun ms hm => C07_accepted_eval_reads_owned E f t h kn cf mem mem' memC memC' hpad xs cs ms hc hx hm,
         fun maxDim => C07_accepted_gradient_reads_owned maxDim E f t h kn cf mem mem' memC memC' hpad xs cs hc hx⟩

example : ∃ t, readFixed exExt exValid = .ok t ∧
    searchCenters (t.lookupAxes fun _ _ => none) [some 4607182418800017408] = .ok [1] :=
  ⟨_, exValid_read, by decide⟩

/-- Every array of an accepted table has the size the header-derived counts say, so every index the reader, the
    lookup, the evaluators and the writer form from `ndim`, `nknots`, `naxes`, `strides` is inside its array:
    all per-dimension arrays have `ndim` entries, the coefficient array has `strides[0]*naxes[0] = Π naxes` entries
    (what `write_fits_core` writes and what the evaluators index), extents `2·ndim`, periods `ndim`, and the two
    indices `order[i]`, `nknots[i]-order[i]-1` of the made-up extents are inside `knots[i]` (`defaultExtentsChk`
    checks every index and agrees). -/
theorem C07_accepted_sizes (E : Ext) (f : Fits) (t : Fits.Table) (h : readFixed E f = .ok t) :
    t.knots.length = t.ndim ∧ t.naxes.length = t.ndim ∧ t.strides.length = t.ndim ∧
    t.coef.length = t.strides.headD 0 * t.naxes.headD 0 ∧ t.coef.length = prod t.naxes ∧
    (∃ e p, t.extents = some e ∧ e.length = 2 * t.ndim ∧ t.periods = some p ∧ p.length = t.ndim) ∧
    defaultExtentsChk t.order t.knots = some (defaultExtents t.order t.knots) := by
  have hwf := readFixed_wf E f t h
  obtain ⟨hpos, hk, hnx, hst, hco, hd, hex, hpe⟩ := hwf
  have hne : t.naxes ≠ [] := by intro h'; rw [h'] at hnx; simp at hnx; omega
  refine ⟨hk, hnx, ?_, ?_, hco, ?_, ?_⟩
  · rw [hst]
    have : ∀ l : List Nat, (rowMajor l).length = l.length := by
      intro l; induction l with
      | nil => rfl
      | cons a as ih => simp [rowMajor, ih]
    rw [this, hnx]
  · rw [hco, hst, headD_rowMajor_mul _ hne]
  · obtain ⟨e, p, he, hp⟩ := readFixed_some_arrays E f t h
    rw [he] at hex; rw [hp] at hpe
    exact ⟨e, p, he, by simpa using hex, hp, by simpa using hpe⟩
  · exact defaultExtentsChk_eq _ _ hk (fun i hi => (hd i hi).1)

example : ∃ t, readFixed exExt exValid = .ok t := ⟨_, exValid_read⟩

/-- **Re-serialising an accepted table reads every array exactly to its end.**  `write_fits_core` writes
    `Π naxes[ndim-1-i]` coefficients, `2·ndim` extents, `ndim` periods and orders and each knot vector whole; in the
    model the buffers are cut with `take` / indexed with `getD`.  On an accepted table none of these cuts or defaults
    is ever effective: the counts the writer forms are the lengths of the arrays the reader allocated. -/
theorem C07_accepted_rewrite_in_bounds (E : Ext) (f : Fits) (t : Fits.Table) (h : readFixed E f = .ok t) :
    t.coef.take (prod (wAxes t)) = t.coef ∧ prod (wAxes t) = t.coef.length ∧
    (∀ e, t.extents = some e → e.take (2 * t.ndim) = e) ∧
    (∀ p, t.periods = some p → p.length = t.ndim) ∧
    (∀ i, i < t.ndim → i < t.order.length ∧ i < t.knots.length ∧ t.ndim - i - 1 < t.naxes.length) := by
  obtain ⟨hk, hnx, _, _, hco, ⟨e, p, he, hel, hp, hpl⟩, _⟩ := C07_accepted_sizes E f t h
  have hw : prod (wAxes t) = t.coef.length := by rw [wAxes_eq t hnx, prod_reverse, hco]
  refine ⟨by rw [hw, List.take_length], hw, ?_, ?_, ?_⟩
  · intro e' he'
    rw [he] at he'; cases he'
    rw [← hel, List.take_length]
  · intro p' hp'
    rw [hp] at hp'; cases hp'
    exact hpl
  · intro i hi
    exact ⟨hi, by omega, by omega⟩

example : ∃ t, readFixed exExt exValid = .ok t := ⟨_, exValid_read⟩

section field
variable {β : Type} [Field β] [LinearOrder β]
attribute [local instance] Arith.ofField

/-- Every accepted table satisfies the full well-formedness the evaluation-correctness theorems assume
    (`Table.WF` of `Proofs/Bridge.lean`: `Dim.WF` — `nknots ≥ 2·order+2`, `naxes = nknots-order-1`, knots
    non-decreasing on `[0, nknots)` — for every dimension, last stride 1), for every interpretation of the knot bit
    patterns that respects the order of finite doubles. -/
theorem C07_accepted_eval_wf (E : Ext) (f : Fits) (t : Fits.Table) (h : readFixed E f = .ok t)
    (kn : UInt64 → β) (hk : KeyMono kn) (cf : UInt32 → β) (mem : Nat → Int → β) (memC : Int → β) :
    (t.evalView kn cf mem memC).WF :=
  evalView_WF t (readFixed_wf E f t h) kn hk cf mem memC

end field

/-- `KeyMono` is satisfiable: the integer key itself, as a rational -/
example : KeyMono (fun b => ((dkey b : Int) : Rat)) := by
  intro a b _ _ hab
  show ((dkey a : Int) : Rat) ≤ ((dkey b : Int) : Rat)
  exact_mod_cast hab

/-- … in particular with the knots read as the real numbers the doubles denote (`valQ`), in exact arithmetic: the
    hypothesis `hwf : T.WF` of the evaluation-correctness theorems (C01, C02) holds for every accepted table. -/
theorem C07_accepted_eval_wf_real (E : Ext) (f : Fits) (t : Fits.Table) (h : readFixed E f = .ok t)
    (cf : UInt32 → Rat) (mem : Nat → Int → Rat) (memC : Int → Rat) :
    _root_.PsV.Table.WF (α := Rat) (t.evalView valQ cf mem memC) :=
  C07_accepted_eval_wf E f t h valQ valQ_keyMono cf mem memC

example : ∃ t, readFixed exExt exValid = .ok t := ⟨_, exValid_read⟩

/-! ## bytes -/

/-- **The decoder stays inside the buffer.**  For every byte string `b`: if the decoder accepts it as the store `f`,
    then `b` is tiled, without remainder, by the HDUs of `f` — each a header of at least one 2880-byte block and data
    blocks that contain the `width · Π axes` pixel bytes the header cards declare; each pixel array has exactly the
    declared number of elements and *is* the sequence of big-endian words at its offset in `b` (`Framed`, `HduSpan`).
    In particular the declared sizes are covered by bytes that are present. -/
theorem C07_bytes_framed (b : Bytes) (f : Fits) (h : decodeFits b = some f) :
    Framed b f ∧ f ≠ [] ∧ (∀ g ∈ f, g.pix.length = npix g.axes) ∧
    (f.map fun g => 2880 + g.pix.width * npix g.axes).sum ≤ b.length :=
  ⟨decodeFits_framed b f h, decodeFits_ne_nil b f h, framed_count b f (decodeFits_framed b f h),
   framed_size b f (decodeFits_framed b f h)⟩

/-- non-vacuous: the bytes of a three-HDU file are accepted by the decoder -/
example : decodeFits (encodeFits Codec.exampleFits) = some Codec.exampleFits :=
  Codec.decode_encode Codec.exampleFits (by decide) Codec.exampleFits_ok

/-- **Reading any bytes** (within the decoder's subset): for every byte string the decoder accepts, the guarded read
    of the decoded store ends either with a well-formed table in a complete, safely destructible object, or with an
    error and the empty object — what the driver's command `R` computes (`decodeFits`, then `readFixed`, then
    `cleanup (stateAt …)`), for all inputs. -/
theorem C07_bytes_total (E : Ext) (b : Bytes) (f : Fits) (h : decodeFits b = some f) :
    Framed b f ∧
    ((∃ t, readFixed E f = .ok t ∧ readGuarded E f = .ok (stateAt true t.ndim .done, .ok t) ∧ t.WF ∧
        destroy (stateAt true t.ndim .done) = .ok []) ∨
     (∃ e, readFixed E f = .error e ∧ readGuarded E f = .ok (Obj.empty, .error e) ∧
        afterFailure (f.headD default).axes.length e = .ok Obj.empty)) := by
  refine ⟨decodeFits_framed b f h, ?_⟩
  cases hr : readFixed E f with
  | ok t => exact .inl ⟨t, rfl, (readGuarded_ok E f t hr).1, readFixed_wf E f t hr, (readGuarded_ok E f t hr).2⟩
  | error e => exact .inr ⟨e, rfl, readGuarded_error E f e hr, cleanup_after_readFixed E f e hr⟩

example : ∃ f, decodeFits (encodeFits Codec.exampleFits) = some f :=
  ⟨_, Codec.decode_encode Codec.exampleFits (by decide) Codec.exampleFits_ok⟩

end PsV
