import PsV.Proofs.FitsRead
import PsV.Props.C04
/-!
# C07 — reading any bytes either fails cleanly or yields a safe, well-formed table

Property theorems only.  `readFixed` is `read_fits_core` with the validation block of fixes/C07-1.diff, `cleanup` the
storage guard of commit 907b348 (`storage_guard` / `release_storage`), `stateAt nullInit ndim stop` the object at each throw site of the source (which
members are allocated, which pointer slots are NULL or garbage), `destroy` the destructor `~splinetable`.  `readCore`
and `stateAt false` describe the code before the repair.  These are the definitions the driver
(`PsV/Driver/C06.lean`, command `R`) runs against the real readers on mutated files.
-/
namespace PsV
open PsV.Fits

/-- the object state in which `read_fits_core` leaves the table when it throws `e` on a file whose primary image has
    `ndim` axes (the storage guard has run) -/
def afterFailure (ndim : Nat) (e : RErr) : Except Fault Obj := cleanup (stateAt true ndim (stopOf e))

/-- C07: for every store, the repaired reader either returns a well-formed table, or fails and leaves the object
    empty with the allocation ledger balanced (every block obtained before the throw has been released, no pointer
    followed that was not set). -/
theorem C07_read_total (E : Ext) (f : Fits) :
    (∃ t, readFixed E f = .ok t ∧ t.WF) ∨
    (∃ e, readFixed E f = .error e ∧ afterFailure (f.headD default).axes.length e = .ok Obj.empty) := by
  cases hr : readFixed E f with
  | ok t => exact .inl ⟨t, rfl, readFixed_wf E f t hr⟩
  | error e => exact .inr ⟨e, rfl, cleanup_after_readFixed E f e hr⟩

/-- non-vacuous on both sides: a minimal valid file (order 0, three knots, two coefficients) is accepted, the same
    file with `ORDER0 = 5` is rejected by the validation block -/
example : (∃ t, readFixed exExt exValid = .ok t) ∧ readFixed exExt exCounts = .error (.invalid 0 1) := by
  constructor
  · exact ⟨_, exValid_read⟩
  · exact exCounts_fixed

/-- The repair only rejects: a table it returns is the table the unrepaired reader returns. -/
theorem readFixed_sound (E : Ext) (f : Fits) (t : Table) (h : readFixed E f = .ok t) : readCore E f = .ok t :=
  ((readFixed_ok_iff E f t).mp h).1

example : ∃ t, readFixed exExt exValid = .ok t := ⟨_, exValid_read⟩

/-- … and it rejects exactly the tables that fail the per-dimension checks. -/
theorem readFixed_complete (E : Ext) (f : Fits) (t : Table) (h : readCore E f = .ok t) (hw : DimsWF t) :
    readFixed E f = .ok t :=
  (readFixed_ok_iff E f t).mpr ⟨h, hw⟩

example : ∃ t, readCore exExt exValid = .ok t ∧ DimsWF t :=
  ⟨_, readFixed_sound _ _ _ exValid_read, ((readFixed_ok_iff _ _ _).mp exValid_read).2⟩

/-- dimension `i` of a table as the lookup model of C04 sees it: knots through their order-isomorphic integer keys -/
def axisOf (t : Table) (i : Nat) : Axis Int :=
  ⟨t.order.getD i 0, (t.knots.getD i []).length, fun j => ((t.knots.getD i []).map dkey).getD j 0⟩

/-- Well-formedness is what C04 (and through it C05's memory-safety argument) assumes of every dimension:
    `nknots ≥ 2·order+2` and non-decreasing knots. -/
theorem WF_implies_C04 (t : Table) (h : t.WF) (i : Nat) (hi : i < t.ndim) : (axisOf t i).WF := by
  obtain ⟨_, _, _, _, _, hd, _, _⟩ := h
  obtain ⟨hlen, _, hv⟩ := hd i hi
  refine ⟨hlen, ?_⟩
  intro a b hab hb
  have hs : sortedKeys ((t.knots.getD i []).map dkey) = true := by
    unfold knotsValid at hv
    simp only [Bool.and_eq_true] at hv
    exact hv.2
  exact sortedKeys_mono _ hs a b hab (by simpa [axisOf] using hb)

example : ∃ t : Table, t.WF ∧ 0 < t.ndim := ⟨exValidTable, readFixed_wf _ _ _ exValid_read, by decide⟩

/-! ## the code before the repair -/

/-- Defect 1 (no cross-checks): `ORDER0 = 5` with a `KNOTS0` extension of 3 knots and 2 coefficients is accepted by
    the unrepaired reader although the table is not well-formed. -/
theorem C07_counterexample_counts : ∃ t, readCore exExt exCounts = .ok t ∧ ¬ t.WF :=
  ⟨_, exCounts_core, exCounts_not_wf⟩

/-- Defect 1b (no check of the knot values): NaN / unsorted knots are accepted. -/
theorem C07_counterexample_knots : ∃ t, readCore exExt exNaNKnots = .ok t ∧ ¬ t.WF :=
  ⟨_, exNaNKnots_core, exNaNKnots_not_wf⟩

/-- Defect 2 (half-built object): when `KNOTS1` is missing the unrepaired reader throws with `ndim = 2`, `knots[0]`
    allocated and `knots[1]` never assigned — the destructor then frees a garbage pointer; when an `ORDERn` key is
    missing it throws with `strides == NULL`, which the destructor dereferences. -/
theorem C07_counterexample_halfbuilt :
    readCore exExt exMissingKnots = .error (.knotSize 1) ∧
    destroy (stateAt false 2 (stopOf (.knotSize 1))) = .error .freeGarbage ∧
    readCore exExt exMissingOrder = .error (.order 0) ∧
    destroy (stateAt false 1 (stopOf (.order 0))) = .error .nullDeref :=
  ⟨exMissingKnots_core, by decide, exMissingOrder_core, by decide⟩

/-- With the storage guard (commit 907b348) the same two failures leave an empty object. -/
theorem C07_repaired_halfbuilt :
    afterFailure 2 (.knotSize 1) = .ok Obj.empty ∧ afterFailure 1 (.order 0) = .ok Obj.empty := by
  constructor <;> decide

/-- A completely read table is destroyed without fault and with an empty ledger (any number of dimensions). -/
theorem destroy_complete (ndim : Nat) (h : 0 < ndim) : destroy (stateAt true ndim .done) = .ok [] :=
  destroy_done ndim h

example : destroy (stateAt true 3 .done) = .ok [] := destroy_done 3 (by decide)

end PsV
