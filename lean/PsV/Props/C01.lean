import PsV.Proofs.Bridge
import PsV.Proofs.Unity
import PsV.Proofs.RoundingEval
import PsV.Proofs.RoundingAll
/-!
# C01 — evaluation equals the tensor-product B-spline sum it represents

`ndsplineeval` (model of the C++ routine: margin loops, de Boor recurrence, re-indexing, block walk)
equals `specEval` (sum over **all** stored coefficients of coefficient × Π Cox–de Boor basis
functions with the knot convention of the property), for every number of dimensions, every order,
every admissible knot vector (minimum length included, repeated knots included, arbitrary padding
values) and every point the lookup accepts — over any linearly ordered field (`Rat` is what the
driver runs).

**Rounding** (`C01_rounding_envelope_partial`, `C01_rounded_eval_near_spec_partial`): the same model run with every
operation and every store rounded (any roundings of relative error ≤ ε: the standard model of IEEE
arithmetic without underflow/overflow, `C01_standard_model`) differs from the exact value by at most
`((1+ε)^K − 1)·Σ|coef|·ΠB`, `K = 3 + ndim(7·maxorder+3) + 2·Π(order_d+1)`, at every point inside a non-empty
knot interval of the fully supported range, and `C01_rounding_envelope_all_partial` extends this to every point the
lookup accepts (margins, knots) under the hypotheses of the exact theorem; `C01_envelope_linear`: `(1+ε)^K − 1 ≤ 2Kε` when `2Kε ≤ 1`, which
is below the envelope `4(N+4·ndim·(maxorder+1))·u·S` the correspondence check allows.  Partial: derivatives and underflow/overflow are not covered by the theorem
and stay with the measured envelope; the degenerate upper end is excluded as in the exact theorem.
-/
namespace PsV
variable {α : Type} [Field α] [LinearOrder α]
attribute [local instance] Arith.ofField

/-- **C01.**  For a well-formed table and a point at which the centre lookup succeeds, the evaluated
value is the sum over all coefficients of coefficient × product of Cox–de Boor basis functions.
Hypothesis `AllNonDegenerate` excludes exactly one configuration: `x` equal to the upper end
`knots[naxes]` of the fully supported range *and* `knots[naxes-1] = knots[naxes]` (an empty last
interval); there the code divides 0/0 (known finding, see `C01_degenerate_upper_end`). -/
theorem C01_eval_eq_spec_partial (T : Table α) (xs : List α) (cs : List Nat) (hwf : T.WF)
    (hlen : T.dims.length = xs.length) (hnd : AllNonDegenerate T.dims xs)
    (hs : @searchCenters α (cmpLO α) (T.dims.map Dim.axis) xs = .ok cs) :
    ndsplineeval T xs cs 0 = specEval T xs (List.replicate T.dims.length .value) :=
  ndsplineeval_eq_specEval T xs cs (allOK_of_search T.dims xs cs hwf.dims hlen hnd hs) hwf.stride

/-- **Partition of unity.**  A table whose coefficients are all one evaluates to one at every
accepted point of the fully supported region `knots[order] ≤ x ≤ knots[naxes]` (every dimension). -/
theorem C01_ones (T : Table α) (xs : List α) (cs : List Nat) (hwf : T.WF)
    (hlen : T.dims.length = xs.length) (hnd : AllNonDegenerate T.dims xs)
    (hs : @searchCenters α (cmpLO α) (T.dims.map Dim.axis) xs = .ok cs)
    (hones : ∀ i, T.coef i = 1) (hfull : AllFull T.dims xs) :
    ndsplineeval T xs cs 0 = 1 :=
  ndsplineeval_ones T xs cs (allOK_of_search T.dims xs cs hwf.dims hlen hnd hs) hwf.stride hones hfull

/-- The call operator returns zero when the lookup fails and the evaluated value otherwise; on a
well-formed table it always returns (the lookup terminates). -/
theorem C01_callOp (T : Table α) (xs : List α) (hwf : T.WF) :
    (∀ cs, @searchCenters α (cmpLO α) (T.dims.map Dim.axis) xs = .ok cs →
        callOp T xs = some (ndsplineeval T xs cs 0)) ∧
    (@searchCenters α (cmpLO α) (T.dims.map Dim.axis) xs = .reject → callOp T xs = some 0) ∧
    callOp T xs ≠ none := by
  have key := C04_searchCenters (T.dims.map Dim.axis) xs
    (by intro a ha; simp only [List.mem_map] at ha; obtain ⟨d, hd, rfl⟩ := ha; exact Dim.axis_WF d (hwf.dims d hd))
  refine ⟨?_, ?_, ?_⟩
  · intro cs h
    show (match @searchCenters α (cmpLO α) (T.dims.map Dim.axis) xs with
      | .reject => some Arith.zero | .nonterm => none | .ok cs => some (ndsplineeval T xs cs 0)) = _
    rw [h]
  · intro h
    show (match @searchCenters α (cmpLO α) (T.dims.map Dim.axis) xs with
      | .reject => some Arith.zero | .nonterm => none | .ok cs => some (ndsplineeval T xs cs 0)) = _
    rw [h]; rfl
  · show (match @searchCenters α (cmpLO α) (T.dims.map Dim.axis) xs with
      | .reject => some Arith.zero | .nonterm => none | .ok cs => some (ndsplineeval T xs cs 0)) ≠ none
    by_cases hr : AllInRange (T.dims.map Dim.axis) xs
    · obtain ⟨cs, h, _⟩ := key.2 hr; rw [h]; simp
    · rw [key.1 hr]; simp

end PsV

namespace PsV
attribute [local instance] Arith.ofField

/-- the instance the driver executes for the exact part is the field instance the theorems use -/
theorem C01_driver_instance : (inferInstance : Arith Rat) = Arith.ofField Rat := instArithRat_eq

/-- order 1, knots 0,1,2,2,3 (naxes = 3, `knots[2] = knots[3]`): the configuration excluded above -/
def degTable : Table Rat :=
  ⟨[⟨1, 5, 3, 1, fun i => if i ≤ 0 then 0 else if i = 1 then 1 else if i = 2 then 2 else if i = 3 then 2 else 3⟩],
   fun i => if i = 1 then 5 else if i = 2 then 7 else 1⟩

/-- **Known finding (code as it is).**  At `x = knots[naxes]` with `knots[naxes-1] = knots[naxes]` the
routine evaluates on the empty interval: the exact model yields `0` (IEEE yields NaN) while the
specification (piece to the left of the knot) yields `5`. -/
theorem C01_degenerate_upper_end :
    @searchCenters Rat (cmpLO Rat) (degTable.dims.map Dim.axis) [2] = .ok [2] ∧
    ndsplineeval degTable [2] [2] 0 = 0 ∧ specEval degTable [2] [.value] = 5 := by
  refine ⟨?_, ?_, ?_⟩
  · simp [searchCenters, searchAxis, degTable, Dim.axis, Cmp.lt, Cmp.le]
    norm_num
  · simp [ndsplineeval, evalModes, degTable, maskModes, rows, localRow, bsplvbSimple, marginShift, shiftUp,
      bsplvb, vbLevels, vbStep, rearrange, walk, walkLast, startPos, List.range, List.range.loop]
  · simp [specEval, specRows, specSum, specSumRow, degTable, Bsel, Dind, PsV.Bind, selInd, indL, derivOrder,
      List.range, List.range.loop]
    norm_num

/-- Non-vacuity: a concrete well-formed 1-d table (order 2, knots 0..6, stride 1) with an accepted,
non-degenerate point. -/
example : (⟨[⟨2, 7, 4, 1, fun i => (i : Rat)⟩], fun _ => 1⟩ : Table Rat).WF ∧
    AllNonDegenerate [(⟨2, 7, 4, 1, fun i => (i : Rat)⟩ : Dim Rat)] [(7/2 : Rat)] ∧
    @searchCenters Rat (cmpLO Rat) [Dim.axis (⟨2, 7, 4, 1, fun i => (i : Rat)⟩ : Dim Rat)] [(7/2 : Rat)] = .ok [3] := by
  refine ⟨⟨?_, rfl⟩, ?_, ?_⟩
  · intro d hd
    simp only [List.mem_singleton] at hd
    subst hd
    exact ⟨by decide, rfl, fun i j _ hij _ => by show ((i:Int):Rat) ≤ ((j:Int):Rat); exact_mod_cast hij⟩
  · exact ⟨Or.inl (by norm_num), trivial⟩
  · simp [searchCenters, searchAxis, Dim.axis, bsearch, Cmp.lt, Cmp.le]
    norm_num

end PsV

namespace PsV
section rounding
variable {F : Type} [Field F] [LinearOrder F] [IsStrictOrderedRing F] {ε : F} {fl st : F → F}

/-- the standard model `fl(a) = a(1+δ)`, `|δ| ≤ u < 1`, is a rounding of relative error `ε = u/(1-u)` -/
theorem C01_standard_model (u a δ : F) (hu0 : 0 ≤ u) (hu1 : u < 1) (hδ : |δ| ≤ u) :
    RelErr (u / (1 - u)) 1 a (a * (1 + δ)) := by
  have h1 : 0 < 1 - u := by linarith
  have e : 1 + u / (1 - u) = 1 / (1 - u) := by field_simp; ring
  refine ⟨1 + δ, rfl, ?_, ?_⟩
  · rw [pow_one, e, one_div, inv_inv]; linarith [(abs_le.1 hδ).1]
  · rw [pow_one, e, le_div_iff₀ h1]
    nlinarith [(abs_le.1 hδ).2, (abs_le.1 hδ).1]

/-- **Forward error bound for the evaluation routine** (model at rounded arithmetic vs the same model exact). -/
theorem C01_rounding_envelope_partial (hε : 0 ≤ ε) (hfl : ∀ a, RelErr ε 1 a (fl a)) (hst : ∀ a, RelErr ε 1 a (st a))
    (T : Table F) (xs : List F) (cs : List Nat) (n : Nat)
    (hint : AllInterior T.dims xs cs) (hn : ∀ d ∈ T.dims, d.order ≤ n) :
    |@ndsplineeval F (Arith.rounded fl st) T xs cs 0 - @ndsplineeval F (Arith.ofField F) T xs cs 0| ≤
      gfac ε (3 + T.dims.length * (7 * n + 3) + 2 * blockSize T.dims) *
        @ndsplineeval F (Arith.ofField F) ⟨T.dims, fun i => |T.coef i|⟩ xs cs 0 :=
  ndsplineeval_rounding hε hfl hst T xs cs n hint hn

/-- … and therefore against the specification: rounded evaluation is within the envelope of the
tensor-product sum, the envelope being the sum of the magnitudes of its terms. -/
theorem C01_rounded_eval_near_spec_partial (hε : 0 ≤ ε) (hfl : ∀ a, RelErr ε 1 a (fl a)) (hst : ∀ a, RelErr ε 1 a (st a))
    (T : Table F) (xs : List F) (cs : List Nat) (n : Nat) (hwf : T.WF)
    (hlen : T.dims.length = xs.length) (hnd : AllNonDegenerate T.dims xs)
    (hs : @searchCenters F (cmpLO F) (T.dims.map Dim.axis) xs = .ok cs)
    (hint : AllInterior T.dims xs cs) (hn : ∀ d ∈ T.dims, d.order ≤ n) :
    |@ndsplineeval F (Arith.rounded fl st) T xs cs 0
        - @specEval F (Arith.ofField F) T xs (List.replicate T.dims.length .value)| ≤
      gfac ε (3 + T.dims.length * (7 * n + 3) + 2 * blockSize T.dims) *
        @specEval F (Arith.ofField F) ⟨T.dims, fun i => |T.coef i|⟩ xs (List.replicate T.dims.length .value) := by
  have h := C01_rounding_envelope_partial hε hfl hst T xs cs n hint hn
  rw [C01_eval_eq_spec_partial T xs cs hwf hlen hnd hs] at h
  have habs := C01_eval_eq_spec_partial (⟨T.dims, fun i => |T.coef i|⟩ : Table F) xs cs ⟨hwf.dims, hwf.stride⟩ hlen hnd hs
  rw [habs] at h
  exact h

/-- **Forward error bound at every accepted point** — interior, both partially supported margins, exactly
on knots: the hypotheses are those of `C01_eval_eq_spec_partial`.  (In the margins the recurrences also
produce entries of absent basis functions from the padding around the knot array; they carry no bound, are
discarded by the re-indexing, and the kept entries never depend on them — `bsplvbSimple_relerr_all`.) -/
theorem C01_rounding_envelope_all_partial (hε : 0 ≤ ε) (hfl : ∀ a, RelErr ε 1 a (fl a)) (hst : ∀ a, RelErr ε 1 a (st a))
    (T : Table F) (xs : List F) (cs : List Nat) (n : Nat) (hwf : T.WF)
    (hlen : T.dims.length = xs.length) (hnd : AllNonDegenerate T.dims xs)
    (hs : @searchCenters F (cmpLO F) (T.dims.map Dim.axis) xs = .ok cs) (hn : ∀ d ∈ T.dims, d.order ≤ n) :
    |@ndsplineeval F (Arith.rounded fl st) T xs cs 0
        - @specEval F (Arith.ofField F) T xs (List.replicate T.dims.length .value)| ≤
      gfac ε (3 + T.dims.length * (7 * n + 3) + 2 * blockSize T.dims) *
        @specEval F (Arith.ofField F) ⟨T.dims, fun i => |T.coef i|⟩ xs (List.replicate T.dims.length .value) := by
  have hok := allOK_of_search T.dims xs cs hwf.dims hlen hnd hs
  have h := ndsplineeval_rounding_all hε hfl hst T xs cs n hok hn
  rw [C01_eval_eq_spec_partial T xs cs hwf hlen hnd hs] at h
  have habs := C01_eval_eq_spec_partial (⟨T.dims, fun i => |T.coef i|⟩ : Table F) xs cs ⟨hwf.dims, hwf.stride⟩ hlen hnd hs
  rw [habs] at h
  exact h

/-- the factor is at most `2Kε` as long as `2Kε ≤ 1` -/
theorem C01_envelope_linear (hε : 0 ≤ ε) (K : Nat) (hK : 2 * (K : F) * ε ≤ 1) : gfac ε K ≤ 2 * K * ε := by
  unfold gfac
  suffices h : ∀ k : Nat, k ≤ K → (1 + ε) ^ k ≤ 1 + 2 * k * ε by linarith [h K (le_refl _)]
  intro k
  induction k with
  | zero => intro _; simp
  | succ k ih =>
    intro hk
    have ih' := ih (by omega)
    have hkK : (k : F) ≤ K := by exact_mod_cast (by omega : k ≤ K)
    have h2 : 2 * (k : F) * ε ≤ 1 := le_trans (by nlinarith) hK
    have h1e : 0 ≤ 1 + ε := by linarith
    calc (1 + ε) ^ (k + 1) = (1 + ε) ^ k * (1 + ε) := pow_succ _ _
      _ ≤ (1 + 2 * k * ε) * (1 + ε) := mul_le_mul_of_nonneg_right ih' h1e
      _ ≤ 1 + 2 * ((k + 1 : Nat) : F) * ε := by push_cast; nlinarith [mul_nonneg hε hε]

end rounding

/-- Non-vacuity of the rounding theorems: rounding hypotheses (`fl = st = id`, `ε = 1/8`; any `ε ≥ 0` works) and an
interior point of a concrete 1-d table (order 2, knots 0..6, `x = 7/2`, centre 3). -/
example : (∀ a : Rat, RelErr (1/8 : Rat) 1 a (id a)) ∧
    AllInterior [(⟨2, 7, 4, 1, fun i => (i : Rat)⟩ : Dim Rat)] [(7/2 : Rat)] [3] := by
  refine ⟨fun a => (RelErr.refl (by norm_num) a).mono (by norm_num) (by omega), ⟨?_, trivial⟩⟩
  exact ⟨by decide, by decide, by norm_num, by norm_num, by norm_num,
    fun a b _ hab _ => by show ((a:Int):Rat) ≤ ((b:Int):Rat); exact_mod_cast hab⟩

end PsV
