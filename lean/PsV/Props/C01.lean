import PsV.Proofs.EvalSpec
import PsV.Props.C04
/-!
# C01 — evaluation equals the tensor-product B-spline sum it represents

`ndsplineeval` (model of the C++ routine: margin loops, de Boor recurrence, re-indexing, block walk)
equals `specEval` (sum over **all** stored coefficients of coefficient × Π Cox–de Boor basis
functions with the knot convention of the property), for every number of dimensions, every order,
every admissible knot vector (minimum length included, repeated knots included, arbitrary padding
values) and every point the lookup accepts — over any linearly ordered field (`Rat` is what the
driver runs; IEEE rounding is outside the theorem and is covered by the envelope check).
-/
namespace PsV
variable {α : Type} [Field α] [LinearOrder α]
attribute [local instance] Arith.ofField

/-- Well-formed table, as far as evaluation is concerned. -/
structure Table.WF (T : Table α) : Prop where
  dims : ∀ d ∈ T.dims, d.WF
  stride : lastStrideOne T.dims

def AllNonDegenerate : List (Dim α) → List α → Prop
  | d :: ds, x :: xs => NonDegenerate d x ∧ AllNonDegenerate ds xs
  | _, _ => True

theorem Dim.axis_WF (d : Dim α) (h : d.WF) : (Dim.axis d).WF := by
  refine ⟨h.len, ?_⟩
  intro i j hij hj
  exact h.mono i j (by omega) (by exact_mod_cast hij) (by exact_mod_cast hj)

theorem centerOK_of_spec (d : Dim α) (h : d.WF) (x : α) (c : Nat)
    (hr : InRange (Dim.axis d) x) (hc : CenterSpec (Dim.axis d) x c) :
    CenterOK d.knots d.nknots d.order x c := by
  obtain ⟨h1, h2, h3, h4, h5⟩ := hc
  obtain ⟨r1, r2⟩ := hr
  have hlen := h.len
  simp only [Dim.axis] at h1 h2 h3 h4 h5 r1 r2
  have e1 : ((d.nknots - 1 : Nat) : Int) = (d.nknots : Int) - 1 := by omega
  have e2 : ((d.nknots - d.order - 1 : Nat) : Int) = (d.nknots : Int) - d.order - 1 := by omega
  have e3 : ((c + 1 : Nat) : Int) = (c : Int) + 1 := by omega
  rw [e1] at r2
  rw [e2] at h4 h5
  rw [e3] at h5
  exact ⟨hlen, h1, by omega, by simpa using r1, r2, h3, fun hx => by have := h4 hx; omega, h5, h.mono⟩

theorem allOK_of_search : ∀ (ds : List (Dim α)) (xs : List α) (cs : List Nat),
    (∀ d ∈ ds, d.WF) → ds.length = xs.length → AllNonDegenerate ds xs →
    @searchCenters α (cmpLO α) (ds.map Dim.axis) xs = .ok cs → AllOK ds xs cs := by
  intro ds
  induction ds with
  | nil =>
    intro xs cs _ hl _ hs
    cases xs with
    | nil => simp [searchCenters] at hs; subst hs; trivial
    | cons x xs => simp at hl
  | cons d ds ih =>
    intro xs cs hwf hl hnd hs
    cases xs with
    | nil => simp at hl
    | cons x xs =>
      have hd : d.WF := hwf d (by simp)
      have hax := C04_searchAxis (Dim.axis d) x (Dim.axis_WF d hd)
      simp only [List.map_cons, searchCenters] at hs
      by_cases hr : InRange (Dim.axis d) x
      · obtain ⟨c, hc1, hc2⟩ := hax.2 hr
        rw [hc1] at hs
        simp only at hs
        cases hrest : @searchCenters α (cmpLO α) (List.map Dim.axis ds) xs with
        | reject => rw [hrest] at hs; simp at hs
        | nonterm => rw [hrest] at hs; simp at hs
        | ok cs' =>
          rw [hrest] at hs
          simp only [Res.ok.injEq] at hs
          subst hs
          exact ⟨⟨hd, centerOK_of_spec d hd x c hr hc2, hnd.1⟩,
            ih xs cs' (fun e he => hwf e (by simp [he])) (by simpa using hl) hnd.2 hrest⟩
      · rw [hax.1 hr] at hs; simp at hs

/-- **C01.**  For a well-formed table and a point at which the centre lookup succeeds, the evaluated
value is the sum over all coefficients of coefficient × product of Cox–de Boor basis functions.
Hypothesis `AllNonDegenerate` excludes exactly one configuration: `x` equal to the upper end
`knots[naxes]` of the fully supported range *and* `knots[naxes-1] = knots[naxes]` (an empty last
interval); there the code divides 0/0 (known finding, see `C01_degenerate_upper_end`). -/
theorem C01_eval_eq_spec_partial (T : Table α) (xs : List α) (cs : List Nat) (hwf : T.WF)
    (hlen : T.dims.length = xs.length) (hnd : AllNonDegenerate T.dims xs)
    (hs : @searchCenters α (cmpLO α) (T.dims.map Dim.axis) xs = .ok cs) :
    ndsplineeval T xs cs 0 = specEval T xs (List.replicate T.dims.length .value) :=
  ndsplineeval_eq_specEval T xs cs (allOK_of_search T.dims xs cs hwf.dims hlen hnd hs) hwf.stride

/-- The call operator returns zero when the lookup fails and the evaluated value otherwise; on a
well-formed table it always returns (the lookup terminates). -/
theorem C01_callOp (T : Table α) (xs : List α) (hwf : T.WF) :
    (∀ cs, @searchCenters α (cmpLO α) (T.dims.map Dim.axis) xs = .ok cs →
        callOp T xs = some (ndsplineeval T xs cs 0)) ∧
    (@searchCenters α (cmpLO α) (T.dims.map Dim.axis) xs = .reject → callOp T xs = some 0) ∧
    callOp T xs ≠ none := by
  have key := C04_searchCenters (T.dims.map Dim.axis) xs
    (by intro a ha; simp only [List.mem_map] at ha; obtain ⟨d, hd, rfl⟩ := ha; exact Dim.axis_WF d (hwf.dims d hd))
  refine ⟨?_, ?_, ?_⟩
  · intro cs h
    show (match @searchCenters α (cmpLO α) (T.dims.map Dim.axis) xs with
      | .reject => some Arith.zero | .nonterm => none | .ok cs => some (ndsplineeval T xs cs 0)) = _
    rw [h]
  · intro h
    show (match @searchCenters α (cmpLO α) (T.dims.map Dim.axis) xs with
      | .reject => some Arith.zero | .nonterm => none | .ok cs => some (ndsplineeval T xs cs 0)) = _
    rw [h]; rfl
  · show (match @searchCenters α (cmpLO α) (T.dims.map Dim.axis) xs with
      | .reject => some Arith.zero | .nonterm => none | .ok cs => some (ndsplineeval T xs cs 0)) ≠ none
    by_cases hr : AllInRange (T.dims.map Dim.axis) xs
    · obtain ⟨cs, h, _⟩ := key.2 hr; rw [h]; simp
    · rw [key.1 hr]; simp

end PsV

namespace PsV
attribute [local instance] Arith.ofField

/-- the instance the driver executes for the exact part is the field instance the theorems use -/
theorem C01_driver_instance : (inferInstance : Arith Rat) = Arith.ofField Rat := instArithRat_eq

/-- order 1, knots 0,1,2,2,3 (naxes = 3, `knots[2] = knots[3]`): the configuration excluded above -/
def degTable : Table Rat :=
  ⟨[⟨1, 5, 3, 1, fun i => if i ≤ 0 then 0 else if i = 1 then 1 else if i = 2 then 2 else if i = 3 then 2 else 3⟩],
   fun i => if i = 1 then 5 else if i = 2 then 7 else 1⟩

/-- **Known finding (code as it is).**  At `x = knots[naxes]` with `knots[naxes-1] = knots[naxes]` the
routine evaluates on the empty interval: the exact model yields `0` (IEEE yields NaN) while the
specification (piece to the left of the knot) yields `5`. -/
theorem C01_degenerate_upper_end :
    @searchCenters Rat (cmpLO Rat) (degTable.dims.map Dim.axis) [2] = .ok [2] ∧
    ndsplineeval degTable [2] [2] 0 = 0 ∧ specEval degTable [2] [.value] = 5 := by
  refine ⟨?_, ?_, ?_⟩
  · simp [searchCenters, searchAxis, degTable, Dim.axis, Cmp.lt, Cmp.le]
    norm_num
  · simp [ndsplineeval, evalModes, degTable, maskModes, rows, localRow, bsplvbSimple, marginShift, shiftUp,
      bsplvb, vbLevels, vbStep, rearrange, walk, walkLast, startPos, List.range, List.range.loop]
  · simp [specEval, specRows, specSum, specSumRow, degTable, Bsel, Dind, PsV.Bind, selInd, indL, derivOrder,
      List.range, List.range.loop]
    norm_num

/-- Non-vacuity: a concrete well-formed 1-d table (order 2, knots 0..6, stride 1) with an accepted,
non-degenerate point. -/
example : (⟨[⟨2, 7, 4, 1, fun i => (i : Rat)⟩], fun _ => 1⟩ : Table Rat).WF ∧
    AllNonDegenerate [(⟨2, 7, 4, 1, fun i => (i : Rat)⟩ : Dim Rat)] [(7/2 : Rat)] ∧
    @searchCenters Rat (cmpLO Rat) [Dim.axis (⟨2, 7, 4, 1, fun i => (i : Rat)⟩ : Dim Rat)] [(7/2 : Rat)] = .ok [3] := by
  refine ⟨⟨?_, rfl⟩, ?_, ?_⟩
  · intro d hd
    simp only [List.mem_singleton] at hd
    subst hd
    exact ⟨by decide, rfl, fun i j _ hij _ => by show ((i:Int):Rat) ≤ ((j:Int):Rat); exact_mod_cast hij⟩
  · exact ⟨Or.inl (by norm_num), trivial⟩
  · simp [searchCenters, searchAxis, Dim.axis, bsearch, Cmp.lt, Cmp.le]
    norm_num

end PsV
