import PsV.Proofs.Fits
import PsV.Proofs.FitsCodec
import PsV.Proofs.FitsRead
import PsV.Proofs.FitsBridge
import PsV.Proofs.FitsLayout
import PsV.Proofs.FitsBits
import PsV.Proofs.FitsAccepted
import PsV.Proofs.FitsWriteKey
/-!
# C06 — FITS serialisation round-trips every table exactly, in the documented layout

Property theorems only.  They are about `PsV.Fits.writeCore` / `readFixed` / `readCore` / `encodeFits` / `decodeFits`,
the definitions the correspondence driver (`PsV/Driver/C06.lean`) executes against the real library.  `readFixed` is
`read_fits_core` as repaired by fixes/C07-1.diff (validation of counts and knots); `readCore` is the reader without
that block (it also reads tables that are storable but not well-formed).  `E : Ext` (number text for `TDOUBLE` keys,
float⇄double conversion) is arbitrary.  Data are bit patterns.
-/
namespace PsV
open PsV.Fits PsV.Fits.Codec

/- `rowMajor` (row-major strides, `strides[i] = Π_{j>i} naxes[j]`), `storedLen` (characters a value occupies inside a
   card: apostrophes are stored doubled), `padFits` (the trailing blanks FITS adds: the stored form is padded to 8
   characters) and `pad8` (`padFits` for values without apostrophes) are defined at the end of `PsV/Model/Fits.lean`
   (namespace `PsV.Fits`):

     def rowMajor : List Nat → List Nat
       | [] => []
       | _ :: as => prod as :: rowMajor as
     def pad8 (v : Str) : Str := v ++ List.replicate (8 - v.length) ' '
     def storedLen (v : Str) : Nat := v.length + v.count '\''
     def padFits (v : Str) : Str := v ++ List.replicate (8 - storedLen v) ' '
-/

/-- What `write_fits_core` needs of a table to be able to store it (weaker than full well-formedness: no
    relation between knot counts, orders and axis lengths is needed for the round trip). -/
structure Storable (t : Table) : Prop where
  ndim_pos : 1 ≤ t.ndim
  ndim_le : t.ndim ≤ 999            -- FITS: NAXIS ≤ 999
  knots_len : t.knots.length = t.ndim
  naxes_len : t.naxes.length = t.ndim
  knots_ne : ∀ k ∈ t.knots, k ≠ []
  strides_rm : t.strides = rowMajor t.naxes
  coef_len : t.coef.length = prod t.naxes
  order_lt : ∀ o ∈ t.order, o < 2147483648
  extents_len : ∀ e, t.extents = some e → e.length = 2 * t.ndim
  periods_len : ∀ p, t.periods = some p → p.length = t.ndim
  aux_ok : ∀ kv ∈ t.aux, reserved kv.1 = false ∧ kv.1 ≠ "EXTNAME".toList ∧ kv.1 ≠ "HDUNAME".toList
            ∧ storedLen kv.2 ≤ 68     -- the bound `write_key` enforces: length + number of apostrophes ≤ 68

/-- The table `read_fits_core` must return for what `write_fits_core` wrote. -/
def Reread (E : Ext) (t t' : Table) : Prop :=
  t'.order = t.order ∧ t'.knots = t.knots ∧ t'.naxes = t.naxes ∧ t'.strides = t.strides ∧ t'.coef = t.coef ∧
  t'.extents = some (t.extents.getD (defaultExtents t.order t.knots)) ∧
  t'.aux = t.aux.map (fun kv => (kv.1, padFits kv.2)) ∧
  (∀ p, t.periods = some p → (∀ x ∈ p, E.parseD (E.fmtD x) = some x) → t'.periods = some p) ∧
  (t.periods = none → t'.periods = some (List.replicate t.ndim 0))

/-- The reader without the validation block reads back every storable table (well-formed or not). -/
theorem C06_roundtrip_core (E : Ext) (t : Table) (h : Storable t) :
    ∃ t', readCore E (writeCore E t) = .ok t' ∧ Reread E t t' := by
  refine ⟨rereadTable E t, readCore_writeGen E t false h.ndim_pos h.ndim_le h.knots_len h.naxes_len h.knots_ne
    h.strides_rm h.coef_len h.order_lt h.extents_len h.aux_ok (fun hs => Bool.noConfusion hs), ?_⟩
  refine ⟨rfl, rfl, rfl, rfl, rfl, rfl, rfl, ?_, ?_⟩
  · intro p hp hx
    show some (rdPeriods E t) = some p
    rw [rdPeriods_exact E t p hp (h.periods_len p hp) hx]
  · intro hp
    show some (rdPeriods E t) = _
    unfold rdPeriods
    rw [hp]

/-- the hypothesis of `C06_roundtrip_core` is satisfiable: a 2 × 3 table with extents, periods and three aux keys, one of
    them `it's ''` (a single apostrophe and a run of two) -/
example : Storable exTable := by
  constructor <;> decide

/-- Auxiliary values survive with apostrophes anywhere (single, leading, trailing, adjacent runs, nothing but
    apostrophes, stored form filling the card): the value read is the value written followed by blanks only — at most
    up to 8 characters in all, none once the value has 8 — and for a value without apostrophes exactly `pad8`. -/
theorem aux_values_gain_blanks_only (E : Ext) (t t' : Table) (h : Reread E t t') :
    t'.aux.map (·.1) = t.aux.map (·.1) ∧
    ∀ i (hi : i < t.aux.length), ∃ k, (t'.aux.getD i default).2 = t.aux[i].2 ++ List.replicate k ' '
      ∧ k ≤ 8 - t.aux[i].2.length ∧ ('\'' ∉ t.aux[i].2 → (t'.aux.getD i default).2 = pad8 t.aux[i].2) := by
  obtain ⟨_, _, _, _, _, _, ha, _⟩ := h
  refine ⟨by rw [ha, List.map_map]; rfl, ?_⟩
  intro i hi
  have hg : t'.aux.getD i default = (t.aux[i].1, padFits t.aux[i].2) := by
    rw [ha, List.getD_eq_getElem?_getD, List.getElem?_map, List.getElem?_eq_getElem hi]; rfl
  refine ⟨8 - storedLen t.aux[i].2, by rw [hg]; rfl, ?_, ?_⟩
  · have := length_le_storedLen t.aux[i].2; omega
  · intro hq; rw [hg]; exact padFits_plain _ hq

/-- not vacuous: the table read back for `exTable`; `it's ''` (stored as 10 characters) gains no blank, the empty value
    gains 8, and the reader's copy loop really halves the run of four stored apostrophes -/
example (E : Ext) : ∃ t', readCore E (writeCore E exTable) = .ok t' ∧ Reread E exTable t' ∧
    t'.aux.map (·.2) = ["J. Doe  ".toList, "        ".toList, "it's ''".toList] ∧
    s2c "it's ''".toList = "'it''s '''''".toList ∧ stripQuotes "'it''s '''''".toList = "it's ''".toList := by
  obtain ⟨t', h1, h2⟩ := C06_roundtrip_core E exTable (by constructor <;> decide)
  refine ⟨t', h1, h2, ?_, by decide, by decide⟩
  rw [h2.2.2.2.2.2.2.1]; decide

/-- C06: for every well-formed table (any number of dimensions, axis lengths, orders, knots, coefficient bit patterns,
    extents or none, periods or none, aux values with or without apostrophes as `write_key` accepts them) write → read
    succeeds and reproduces every field bit for bit; aux values gain trailing blanks only (`aux_values_gain_blanks_only`).  `DimsWF t`: per dimension `nknots ≥ 2·order+2`,
    `naxes = nknots-order-1`, knots finite and non-decreasing — what the repaired reader insists on. -/
theorem C06_roundtrip (E : Ext) (t : Table) (h : Storable t) (hw : DimsWF t) :
    ∃ t', readFixed E (writeCore E t) = .ok t' ∧ Reread E t t' := by
  obtain ⟨t', hr, hre⟩ := C06_roundtrip_core E t h
  refine ⟨t', readFixed_complete' E _ t' hr ?_, hre⟩
  obtain ⟨ho, hk, hn, _⟩ := hre
  intro i hi
  have hi' : i < t.ndim := by simpa [Table.ndim, ho] using hi
  rw [ho, hk, hn]; exact hw i hi'

/-- satisfiable: the 1 × order-0 table `exValidTable` (three knots 0,1,2, two coefficients) is storable and passes the
    reader's checks -/
example : Storable exValidTable ∧ DimsWF exValidTable := by
  refine ⟨by constructor <;> decide, ?_⟩
  intro i hi
  have : i = 0 := by simp [Table.ndim, exValidTable] at hi; omega
  subst this; decide

/-- The older layout with a single `ORDER` key is read as the same table (reader without the validation block). -/
theorem legacy_order_key_core (E : Ext) (t : Table) (h : Storable t) (o : Nat) (ho : ∀ x ∈ t.order, x = o) :
    readCore E (writeGen E true t) = readCore E (writeGen E false t) := by
  have hs : ∀ x ∈ t.order, x = t.order.headD 0 := by
    intro x hx
    have h1 := h.ndim_pos
    unfold Table.ndim at h1
    cases ht : t.order with
    | nil => rw [ht] at h1; exact absurd h1 (by decide)
    | cons a r => rw [ht] at hx ho; rw [ho x hx, List.headD_cons, ho a (by simp)]
  rw [readCore_writeGen E t true h.ndim_pos h.ndim_le h.knots_len h.naxes_len h.knots_ne
      h.strides_rm h.coef_len h.order_lt h.extents_len h.aux_ok (fun _ => hs),
    readCore_writeGen E t false h.ndim_pos h.ndim_le h.knots_len h.naxes_len h.knots_ne
      h.strides_rm h.coef_len h.order_lt h.extents_len h.aux_ok (fun hs => Bool.noConfusion hs)]

/-- the hypotheses of `legacy_order_key_core` are satisfiable (2 × 3 table, both orders 2) -/
example : Storable exTableLegacy ∧ ∀ x ∈ exTableLegacy.order, x = 2 := by
  refine ⟨?_, by decide⟩
  constructor <;> decide

/-- A file in the older layout (one `ORDER` key for all dimensions), as an independent writer produces it, is read
    as the table it describes — the same table as from the current layout. -/
theorem legacy_order_key (E : Ext) (t : Table) (h : Storable t) (hw : DimsWF t) (o : Nat) (ho : ∀ x ∈ t.order, x = o) :
    ∃ t', readFixed E (writeGen E true t) = .ok t' ∧ readFixed E (writeGen E false t) = .ok t' ∧ Reread E t t' := by
  obtain ⟨t', hr, hre⟩ := C06_roundtrip E t h hw
  have hc := legacy_order_key_core E t h o ho
  have hr' : readFixed E (writeGen E false t) = .ok t' := hr
  obtain ⟨hcore, hd⟩ := (readFixed_ok_iff E _ t').mp hr'
  exact ⟨t', (readFixed_ok_iff E _ t').mpr ⟨hc ▸ hcore, hd⟩, hr', hre⟩

example : Storable exValidTable ∧ DimsWF exValidTable ∧ ∀ x ∈ exValidTable.order, x = 0 := by
  refine ⟨by constructor <;> decide, ?_, by decide⟩
  intro i hi
  have : i = 0 := by simp [Table.ndim, exValidTable] at hi; omega
  subst this; decide

/-- A file without the EXTENTS extension gets the extents made up from the knots,
    `[knots[i][order[i]], knots[i][nknots[i]-order[i]-1]]`. -/
theorem missing_extents_defaults (E : Ext) (t : Table) (h : Storable t) (hw : DimsWF t) :
    ∃ t', readFixed E (writeCore E { t with extents := none }) = .ok t' ∧
      t'.extents = some (defaultExtents t.order t.knots) ∧ t'.knots = t.knots ∧ t'.coef = t.coef := by
  refine ⟨rereadTable E { t with extents := none }, ?_, rfl, rfl, rfl⟩
  refine readFixed_complete' E _ _ ?_ hw
  exact readCore_writeGen E { t with extents := none } false h.ndim_pos h.ndim_le h.knots_len h.naxes_len
    h.knots_ne h.strides_rm h.coef_len h.order_lt (fun e he => nomatch he) h.aux_ok
    (fun hs => Bool.noConfusion hs)

/-- non-vacuous: for the example table (which has an EXTENTS extension when written as is) the made-up extents
    are `[knots[0][2], knots[0][5-2-1], knots[1][3], knots[1][7-3-1]]` -/
example : Storable exTable ∧ defaultExtents exTable.order exTable.knots = [2, 2, 13, 13] := by
  refine ⟨?_, by decide⟩
  constructor <;> decide

/-- Whatever is read (from any store), the strides are the row-major strides of the reversed image axes. -/
theorem strides_reconstructed (E : Ext) (f : Fits) (h0 : Hdu) (rest : List Hdu) (t : Table)
    (hf : f = h0 :: rest) (h : readFixed E f = .ok t ∨ readCore E f = .ok t) :
    t.naxes = h0.axes.reverse ∧ t.strides = rowMajor t.naxes := by
  subst hf
  have hc : readCore E (h0 :: rest) = .ok t := h.elim (fun h => ((readFixed_ok_iff E _ t).mp h).1) id
  have := readCore_strides E h0 rest t hc
  exact ⟨this.1, by rw [this.1]; exact this.2⟩

/-- the hypotheses of `strides_reconstructed` are satisfiable: the file written for the example table is read -/
example (E : Ext) : ∃ h0 rest t, writeCore E exTable = h0 :: rest ∧ readCore E (writeCore E exTable) = .ok t := by
  have hS : Storable exTable := by constructor <;> decide
  obtain ⟨t', ht', _⟩ := C06_roundtrip_core E exTable hS
  exact ⟨_, _, t', rfl, ht'⟩

/-! ## the byte level -/

/-- big-endian words: decoding the encoded bytes returns the bit pattern, for every 32- and 64-bit word -/
theorem be_bits_roundtrip :
    (∀ x : UInt32, ∃ a b c d, be32 x = [a, b, c, d] ∧ rd32 a b c d = x) ∧
    (∀ x : UInt64, ∃ a b c d e f g h, be64 x = [a, b, c, d, e, f, g, h] ∧ rd64 a b c d e f g h = x) ∧
    (∀ (l : List UInt32) (rest : Bytes), dec32 l.length (enc32 l ++ rest) = some l) ∧
    (∀ (l : List UInt64) (rest : Bytes), dec64 l.length (enc64 l ++ rest) = some l) :=
  ⟨rd32_be32, rd64_be64, dec32_enc32, dec64_enc64⟩

/-- The codec for the documented subset is faithful: 80-column cards, END, 2880-byte blocks, mandatory keywords in
    order, big-endian data.  `HduOK`: pixel count = product of the axes, at most 999 axes each below 10^20, and every
    user card survives the 80-column text form (`CardRT`, proved for the card classes the library writes by
    `cardRT_int`, `cardRT_string`, `cardRT_commentary` in `PsV/Proofs/FitsBytes.lean`). -/
theorem decode_encode (f : Fits) (hne : f ≠ []) (h : ∀ hdu ∈ f, HduOK hdu) :
    decodeFits (encodeFits f) = some f :=
  Codec.decode_encode f hne h

/-- satisfiable: a two-HDU file with boiler-plate, TYPE, ORDERn (one negative), PERIOD0 and a string card with an
    embedded apostrophe -/
example : exampleFits ≠ [] ∧ ∀ hdu ∈ exampleFits, HduOK hdu := ⟨by decide, exampleFits_ok⟩

/-- What `write_fits_core` writes is inside the codec's domain: its 80-column / 2880-byte form decodes to the very
    store (`Encodable`: standard 8-character keywords — at most 999 dimensions, at most 100 when PERIODn keys are
    written —, sizes below 10^20, Latin-1 aux values whose stored form — apostrophes doubled — has at most 68
    characters, TDOUBLE text that is a blank-free token). -/
theorem written_bytes_decode (E : Ext) (t : Table) (h : Encodable E t) :
    decodeFits (encodeFits (writeCore E t)) = some (writeCore E t) :=
  writeCore_decode_encode E t h

example : Encodable exExt0 exT := exT_encodable

/-- C06 end to end at the byte level: table → store → bytes → store → table. -/
theorem C06_bytes_roundtrip (E : Ext) (t : Table) (h : Storable t) (hw : DimsWF t) (he : Encodable E t) :
    ∃ f t', decodeFits (encodeFits (writeCore E t)) = some f ∧ readFixed E f = .ok t' ∧ Reread E t t' := by
  obtain ⟨t', hr, hre⟩ := C06_roundtrip E t h hw
  exact ⟨writeCore E t, t', written_bytes_decode E t he, hr, hre⟩

/-- all three hypotheses hold together for a concrete table (order 0, three knots, two coefficients) and any `E` -/
example (E : Ext) : Storable exValidTable ∧ DimsWF exValidTable ∧ Encodable E { exValidTable with periods := none } := by
  refine ⟨by constructor <;> decide, ?_, ?_⟩
  · intro i hi
    have : i = 0 := by simp [Table.ndim, exValidTable] at hi; omega
    subst this; decide
  · constructor <;> first | decide | (intro p hp; cases hp) | (intro h; exact absurd rfl h)

/-! ## the documented layout, as an independent specification (`PsV/Model/FitsLayout.lean`)

`Layout.layoutBytes E t` lists the bytes of the file for table `t` directly from the FITS standard and the photospline
documentation (80-column fixed-format records, `END`, 2880-byte blocks, primary `BITPIX = -32` image with
`NAXISj = naxes[ndim-j]`, `TYPE`, `ORDERi`, `PERIODi`, aux string keywords, one `BITPIX = -64` `KNOTSi` image extension per
dimension, an `EXTENTS` extension when there are extents) — without the cfitsio model, `fmtCard` or `encodeFits`.  The
driver compares it with the real writer's bytes on every run. -/

/-- **The encoder meets the documented layout**, for all tables: what the model of `write_fits_core` (over the model of
    cfitsio and the generic card / block encoder) produces is, byte for byte, the file the specification describes. -/
theorem encoder_meets_layout (E : Ext) (t : Table) (h : Storable t) (he : Encodable E t) :
    encodeFits (writeCore E t) = Layout.layoutBytes E t :=
  Layout.encode_writeCore_eq_layout E t he h.order_lt h.coef_len h.extents_len

/-- satisfiable: the 2 × 3 table with extents, periods and aux values with apostrophes -/
example : Storable exT ∧ Encodable exExt0 exT := ⟨by constructor <;> decide, exT_encodable⟩

/-- **A file in the documented layout, produced by an independent writer, is read as the table it describes.** -/
theorem layout_file_is_read (E : Ext) (t : Table) (h : Storable t) (hw : DimsWF t) (he : Encodable E t) :
    ∃ f t', decodeFits (Layout.layoutBytes E t) = some f ∧ readFixed E f = .ok t' ∧ Reread E t t' := by
  rw [← encoder_meets_layout E t h he]
  exact C06_bytes_roundtrip E t h hw he

example (E : Ext) : Storable exValidTable ∧ DimsWF exValidTable ∧ Encodable E { exValidTable with periods := none } := by
  refine ⟨by constructor <;> decide, ?_, ?_⟩
  · intro i hi
    have : i = 0 := by simp [Table.ndim, exValidTable] at hi; omega
    subst this; decide
  · constructor <;> first | decide | (intro p hp; cases hp) | (intro h; exact absurd rfl h)

/-- the name an independent reader sees for an extension: the string value of its `EXTNAME` keyword -/
def extName (h : Hdu) : Option Str := (findCard h.cards "EXTNAME".toList).bind (c2s ·.val)

/-- **An independent FITS reader recovers the same arrays** from a file in the documented layout: the generic decoder
    (which knows nothing of photospline) finds a primary `float` image with the reversed axes holding exactly the
    coefficient words, then one `double` image per dimension with `EXTNAME = KNOTSi` holding exactly the knot vector, then
    — when the table has extents — a `double` image of `2·ndim` values with `EXTNAME = EXTENTS` holding the extents. -/
theorem independent_reader_arrays (E : Ext) (t : Table) (h : Storable t) (he : Encodable E t) :
    ∃ prim, decodeFits (Layout.layoutBytes E t)
        = some (prim :: ((List.range t.ndim).map (knotHdu t) ++ extentsHdus t)) ∧
      prim.axes = t.naxes.reverse ∧ prim.pix = .f32 t.coef ∧
      (∀ i, i < t.ndim → (knotHdu t i).axes = [(t.knots.getD i []).length] ∧
          (knotHdu t i).pix = .f64 (t.knots.getD i []) ∧
          extName (knotHdu t i) = some ("KNOTS".toList ++ Layout.dec i)) ∧
      (∀ e, t.extents = some e → ∃ x, extentsHdus t = [x] ∧ x.axes = [2 * t.ndim] ∧ x.pix = .f64 e ∧
          extName x = some "EXTENTS".toList) := by
  have hname : ∀ (axes : List Nat) (pix : Pix) (nm : Str), extName (extHdu axes pix nm) = c2s (s2c nm) := by
    intro axes pix nm
    show (findCard [cardStr "EXTNAME".toList nm []] "EXTNAME".toList).bind (c2s ·.val) = _
    rw [findCard_single_hit (cardStr "EXTNAME".toList nm []) "EXTNAME".toList rfl]
    rfl
  refine ⟨primHdu E false t, ?_, wAxes_eq t h.naxes_len, ?_, ?_, ?_⟩
  · rw [← encoder_meets_layout E t h he, written_bytes_decode E t he]
    rfl
  · show Pix.f32 (t.coef.take (prod (wAxes t))) = _
    rw [wAxes_eq t h.naxes_len, prod_reverse, List.take_of_length_le (by rw [h.coef_len]; exact Nat.le_refl _)]
  · intro i hi
    refine ⟨rfl, rfl, ?_⟩
    rw [knotHdu_eq, hname, keyN_knots_ok i (by have := h.ndim_le; omega), Layout.keyN_eq]
  · intro e he'
    refine ⟨extHdu [2 * t.ndim] (.f64 e) "EXTENTS".toList, ?_, rfl, rfl, ?_⟩
    · unfold extentsHdus
      rw [he']
      simp only
      rw [updateKey_createImg, List.take_of_length_le (by rw [h.extents_len e he']; exact Nat.le_refl _)]
    · rw [hname, extents_name_ok]

example : Storable exT ∧ Encodable exExt0 exT ∧ exT.extents = some [2, 2, 13, 13] :=
  ⟨by constructor <;> decide, exT_encodable, rfl⟩

/-- **Reversed axis order is the right one**: in a FITS image the first axis varies fastest; with the axes written in
    reversed order (`NAXISj = naxes[ndim-j]`, part of `Layout.primaryHeader`) the pixel with the reversed coordinates of
    a multi-index is element `Σ idx[i]·strides[i]` of the row-major coefficient array — so the array is stored in
    memory order and coefficient `idx` is pixel `(idx[n-1]+1, …, idx[0]+1)`. -/
theorem reversed_axes_are_row_major (naxes idx : List Nat) (h : naxes.length = idx.length) :
    Layout.fitsIndex naxes.reverse idx.reverse = Layout.tableIndex (rowMajor naxes) idx :=
  Layout.fitsIndex_reverse naxes idx h

/-- a 2 × 3 × 4 table: coefficient (1,2,3) is element 1·12 + 2·4 + 3 = 23, which is pixel (3,2,1) of the 4 × 3 × 2
    image; the reversal matters: coefficient (1,0,0) is element 12, whereas pixel (1,0,0) of an image whose axes were
    not reversed would be element 1 -/
example : Layout.fitsIndex [4, 3, 2] [3, 2, 1] = 23 ∧ Layout.tableIndex (rowMajor [2, 3, 4]) [1, 2, 3] = 23 ∧
    Layout.tableIndex (rowMajor [2, 3, 4]) [1, 0, 0] = 12 ∧ Layout.fitsIndex [2, 3, 4] [1, 0, 0] = 1 := by decide

/-! ## coefficients are copied bit for bit, both ways (NaN payloads, infinities, denormals, -0 included) -/

/-- **Writing**: the primary data start at a block boundary and the four bytes at offset `4·j` are the big-endian bit
    pattern of `coef[j]` — no case distinction on the pattern anywhere. -/
theorem coefficient_bits_written (E : Ext) (t : Table) (h : Storable t) (he : Encodable E t) (j : Nat)
    (hj : j < t.coef.length) :
    ∃ hdr rest, encodeFits (writeCore E t) = hdr ++ rest ∧ hdr.length % 2880 = 0 ∧
      (rest.drop (4 * j)).take 4 = be32 t.coef[j] := by
  obtain ⟨hdr, rest, h1, _, h3, h4⟩ := Layout.layout_coef_bytes E t j hj
  exact ⟨hdr, rest, by rw [encoder_meets_layout E t h he, h1], h3, by rw [h4, Layout.be32_eq]⟩

/-- satisfiable with NaN patterns: `exAccepted` holds a negative quiet NaN with payload and a signalling NaN -/
example (E : Ext) : Encodable E exAccepted ∧ exAccepted.coef.map isNaN32 = [true, true] :=
  ⟨(exAccepted_ok E).encodable, by decide⟩

/-- **Reading**, for any byte string the decoder accepts and the reader reads: the table's coefficient words,
    re-encoded big-endian, are exactly the bytes of the file from a block boundary on.  (Only a `BITPIX = -32` primary
    image is copied; a `BITPIX = -64` one goes through `E.d2f`, see `read_coef_verbatim`.) -/
theorem coefficient_bits_read (E : Ext) (b : Bytes) (h0 : Hdu) (rest : List Hdu) (d : List UInt32) (t : Table)
    (hd : decodeFits b = some (h0 :: rest)) (hp : h0.pix = .f32 d)
    (hr : readFixed E (h0 :: rest) = .ok t ∨ readCore E (h0 :: rest) = .ok t) :
    ∃ off, off % 2880 = 0 ∧ enc32 t.coef = (b.drop off).take (4 * t.coef.length) := by
  obtain ⟨off, h1, h2, h3⟩ := decodeFits_f32_bits b h0 rest d hd hp
  obtain ⟨_, h5⟩ := read_coef_verbatim E h0 rest t hr
  rw [hp] at h5
  simp only at h5
  have hcd : t.coef = d := by
    rw [h5]
    apply List.take_of_length_le
    rw [h2, npix]
    split
    · exact Nat.zero_le _
    · exact Nat.le_refl _
  rw [hcd]
  exact ⟨off, h1, h3⟩

/-- satisfiable: the bytes written for `exAccepted` decode, and are read -/
example (E : Ext) : ∃ b h0 rest d t, decodeFits b = some (h0 :: rest) ∧ h0.pix = .f32 d ∧
    readFixed E (h0 :: rest) = .ok t := by
  have hA := exAccepted_ok E
  have hS : Storable exAccepted := ⟨hA.ndim_pos, hA.ndim_le, hA.knots_len, hA.naxes_len, hA.knots_ne, hA.strides_rm,
    hA.coef_len, hA.order_lt, hA.extents_len, hA.periods_len, hA.aux_storable⟩
  obtain ⟨t', ht', _⟩ := C06_roundtrip E exAccepted hS hA.dims
  exact ⟨_, _, _, _, t', written_bytes_decode E exAccepted hA.encodable, rfl, ht'⟩

/-- **NaN coefficients** survive the round trip with sign, quiet bit and payload: a corollary of `Reread` stated on the
    bit patterns (`operator==` is IEEE comparison and cannot see this; the check compares bits). -/
theorem nan_bits_preserved (E : Ext) (t t' : Table) (h : Reread E t t') :
    t'.coef.map isNaN32 = t.coef.map isNaN32 ∧
    ∀ j, isNaN32 (t.coef.getD j 0) = true → t'.coef.getD j 0 = t.coef.getD j 0 := by
  obtain ⟨_, _, _, _, hc, _⟩ := h
  rw [hc]
  exact ⟨rfl, fun _ _ => rfl⟩

/-- not vacuous: the table read back for `exAccepted` has the two NaN patterns at their places -/
example (E : Ext) : ∃ t', readFixed E (writeCore E exAccepted) = .ok t' ∧ Reread E exAccepted t' ∧
    t'.coef = [0xffc00001, 0x7fa00000] ∧ t'.coef.map isNaN32 = [true, true] := by
  have hA := exAccepted_ok E
  have hS : Storable exAccepted := ⟨hA.ndim_pos, hA.ndim_le, hA.knots_len, hA.naxes_len, hA.knots_ne, hA.strides_rm,
    hA.coef_len, hA.order_lt, hA.extents_len, hA.periods_len, hA.aux_storable⟩
  obtain ⟨t', ht', hre⟩ := C06_roundtrip E exAccepted hS hA.dims
  have hc : t'.coef = exAccepted.coef := hre.2.2.2.2.1
  exact ⟨t', ht', hre, hc, by rw [hc]; decide⟩

/-! ## number text and float⇄double conversion (the parameters `E`) -/

/-- **`PERIODn` for every formatter and parser**: each period `x` comes back as `parseD (fmtD x)` (`0` when the text
    cannot be read back).  Hence the periods survive exactly iff the parser inverts the formatter on the values that
    occur — the residual assumption about cfitsio's `%.15G` text, which does not hold for every double (C06 leaves
    period values out of the property; the generator draws multiples of 0.25). -/
theorem period_text_roundtrip (E : Ext) (t : Table) (h : Storable t) :
    ∃ t', readCore E (writeCore E t) = .ok t' ∧ Reread E t t' ∧
      ∀ p, t.periods = some p →
        t'.periods = some (p.map fun x => (E.parseD (E.fmtD x)).getD 0) ∧
        (t'.periods = some p ↔ ∀ x ∈ p, (E.parseD (E.fmtD x)).getD 0 = x) := by
  obtain ⟨t', ht', hre⟩ := C06_roundtrip_core E t h
  have hrt : readCore E (writeCore E t) = .ok (rereadTable E t) :=
    readCore_writeGen E t false h.ndim_pos h.ndim_le h.knots_len h.naxes_len h.knots_ne
      h.strides_rm h.coef_len h.order_lt h.extents_len h.aux_ok (fun hs => Bool.noConfusion hs)
  have hEq : t' = rereadTable E t := Except.ok.inj (ht'.symm.trans hrt)
  refine ⟨t', ht', hre, ?_⟩
  intro p hp
  have hper : t'.periods = some (p.map fun x => (E.parseD (E.fmtD x)).getD 0) := by
    rw [hEq]
    show some (rdPeriods E t) = _
    rw [rdPeriods_map E t p hp (h.periods_len p hp)]
  refine ⟨hper, ?_⟩
  rw [hper, Option.some.injEq]
  exact map_eq_self_iff _ p

/-- satisfiable with periods present -/
example : Storable exTable ∧ exTable.periods = some [0, 7] := ⟨by constructor <;> decide, rfl⟩

/-- **The float⇄double conversions are never applied** when a written file is read back (coefficients are written and
    read as `float`, knots and extents as `double`): the result depends on `E` through `parseD ∘ fmtD` only. -/
theorem conversions_not_used (E E' : Ext) (t : Table) (h : Storable t)
    (hn : ∀ x, E.parseD (E.fmtD x) = E'.parseD (E'.fmtD x)) :
    readCore E (writeCore E t) = readCore E' (writeCore E' t) := by
  have hrt : ∀ E : Ext, readCore E (writeCore E t) = .ok (rereadTable E t) := fun E =>
    readCore_writeGen E t false h.ndim_pos h.ndim_le h.knots_len h.naxes_len h.knots_ne
      h.strides_rm h.coef_len h.order_lt h.extents_len h.aux_ok (fun hs => Bool.noConfusion hs)
  rw [hrt E, hrt E']
  unfold rereadTable
  rw [rdPeriods_congr E E' t hn]

/-- two different pairs of conversions, same number text -/
example : ∀ x, exExt0.parseD (exExt0.fmtD x) = ({ exExt0 with d2f := fun _ => 1, f2d := fun _ => 2 } : Ext).parseD
    (({ exExt0 with d2f := fun _ => 1, f2d := fun _ => 2 } : Ext).fmtD x) := fun _ => rfl

/-! ## every table the library can hold and write: one hypothesis -/

/-- `Accepted` (shape invariants of the object, `DimsWF`, machine sizes, `write_key`'s tests for the aux entries,
    see `PsV/Proofs/FitsAccepted.lean`) implies all the technical hypotheses used above. -/
theorem accepted_storable (E : Ext) (t : Table) (h : Accepted E t) : Storable t ∧ DimsWF t ∧ Encodable E t :=
  ⟨⟨h.ndim_pos, h.ndim_le, h.knots_len, h.naxes_len, h.knots_ne, h.strides_rm, h.coef_len, h.order_lt,
    h.extents_len, h.periods_len, h.aux_storable⟩, h.dims, h.encodable⟩

example (E : Ext) : Accepted E exAccepted := exAccepted_ok E

/-- The aux hypothesis of `Accepted` is what `splinetable::write_key` lets through: every standard-keyword entry the
    model of `write_key` accepts (`PsV.Aux.validate`, the definition the C16 driver runs against the real `write_key`,
    constants regenerated from the source) satisfies `WriteKeyOK`.  So an aux store built through the public API is
    covered as soon as it holds no `EXTNAME` / `HDUNAME` / `HIERARCH` key (and no long, HIERARCH-convention key: C16). -/
theorem write_key_entries_accepted (key val : Str) (hv : Aux.validate key val = none) (h8 : key.length ≤ 8) :
    WriteKeyOK key val :=
  writeKeyOK_of_validate key val hv h8

example : Aux.validate "REMARK".toList "it's ''".toList = none ∧ "REMARK".toList.length ≤ 8 := by decide

/-- **C06 for every accepted table, end to end**: the bytes in the documented layout are what the encoder writes;
    they decode to the store `write_fits_core` built; the repaired reader reads that store as a table with every field
    equal bit for bit (aux values followed by the blanks of the FITS padding rule; periods as `parseD ∘ fmtD` makes
    them). -/
theorem C06_accepted_roundtrip (E : Ext) (t : Table) (h : Accepted E t) :
    encodeFits (writeCore E t) = Layout.layoutBytes E t ∧
    ∃ t', (decodeFits (Layout.layoutBytes E t)).map (readFixed E) = some (.ok t') ∧ Reread E t t' ∧
      ∀ p, t.periods = some p → t'.periods = some (p.map fun x => (E.parseD (E.fmtD x)).getD 0) := by
  obtain ⟨hS, hW, hE⟩ := accepted_storable E t h
  have hlay := encoder_meets_layout E t hS hE
  obtain ⟨t', ht', hre, hper⟩ := period_text_roundtrip E t hS
  have hfix : readFixed E (writeCore E t) = .ok t' := by
    refine readFixed_complete' E _ t' ht' ?_
    obtain ⟨ho, hk, hn, _⟩ := hre
    intro i hi
    have hi' : i < t.ndim := by simpa [Table.ndim, ho] using hi
    rw [ho, hk, hn]; exact hW i hi'
  refine ⟨hlay, t', ?_, hre, fun p hp => (hper p hp).1⟩
  rw [← hlay, written_bytes_decode E t hE]
  exact congrArg some hfix

example (E : Ext) : Accepted E exAccepted := exAccepted_ok E

/-! ## the remaining hypotheses are needed (concrete witnesses; the first one is a finding about the library) -/

/-- `exAccepted` with the aux entry `EXTNAME = KNOTS0` — which `write_key` accepts -/
def exExtname : Table := { exAccepted with aux := [("EXTNAME".toList, "KNOTS0".toList)] }

/-- **An auxiliary key `EXTNAME` breaks the round trip** (confirmed on the real library: `write_key("EXTNAME","KNOTS0")`
    succeeds, `write_fits_mem` succeeds, `read_fits_mem` throws "inconsistent numbers of knots (13) and coefficients").
    The card lands in the primary header, `fits_movnam_hdu("KNOTS0")` starts at the primary HDU and takes it for the
    knot extension: the repaired reader rejects the file; the reader before the validation returned the coefficients,
    converted to double, as the knot vector. -/
theorem aux_extname_breaks_roundtrip (E : Ext) :
    readFixed E (writeCore E exExtname) = .error (.invalid 0 1) ∧
    (∃ t', readCore E (writeCore E exExtname) = .ok t' ∧ t'.knots = [exExtname.coef.map E.f2d]) ∧
    [exExtname.coef.map E.f2d] ≠ exExtname.knots := by
  refine ⟨rfl, ⟨_, rfl, rfl⟩, fun h => ?_⟩
  have := congrArg (fun l => l.map List.length) h
  simp [exExtname, exAccepted] at this

/-- An order of 2^31 or more is written through `int*` as a negative number, which `fits_read_key(TUINT)` refuses. -/
theorem order_2p31_not_read (E : Ext) :
    readCore E (writeCore E { exAccepted with order := [2147483648] }) = .error (.order 0) := rfl

end PsV
