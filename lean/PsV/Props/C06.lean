import PsV.Proofs.Fits
import PsV.Proofs.FitsBytes
/-!
# C06 — FITS serialisation round-trips every table exactly, in the documented layout

Property theorems only.  They are about `PsV.Fits.writeCore` / `readCore` / `encodeFits` / `decodeFits`, the
definitions the correspondence driver (`PsV/Driver/C06.lean`) executes against the real library.  `E : Ext` (number
text for `TDOUBLE` keys, float⇄double conversion) is arbitrary.  Data are bit patterns.
-/
namespace PsV
open PsV.Fits

/- `rowMajor` (row-major strides, `strides[i] = Π_{j>i} naxes[j]`) and `pad8` (trailing-blank padding to 8 characters)
   are defined at the top of `PsV/Proofs/Fits.lean` (namespace `PsV.Fits`), because the helper lemmas use them:

     def rowMajor : List Nat → List Nat
       | [] => []
       | _ :: as => prod as :: rowMajor as
     def pad8 (v : Str) : Str := v ++ List.replicate (8 - v.length) ' '
-/

/-- What `write_fits_core` needs of a table to be able to store it (weaker than full well-formedness: no
    relation between knot counts, orders and axis lengths is needed for the round trip). -/
structure Storable (t : Table) : Prop where
  ndim_pos : 1 ≤ t.ndim
  ndim_le : t.ndim ≤ 999            -- FITS: NAXIS ≤ 999
  knots_len : t.knots.length = t.ndim
  naxes_len : t.naxes.length = t.ndim
  knots_ne : ∀ k ∈ t.knots, k ≠ []
  strides_rm : t.strides = rowMajor t.naxes
  coef_len : t.coef.length = prod t.naxes
  order_lt : ∀ o ∈ t.order, o < 2147483648
  extents_len : ∀ e, t.extents = some e → e.length = 2 * t.ndim
  periods_len : ∀ p, t.periods = some p → p.length = t.ndim
  aux_ok : ∀ kv ∈ t.aux, reserved kv.1 = false ∧ kv.1 ≠ "EXTNAME".toList ∧ kv.1 ≠ "HDUNAME".toList
            ∧ '\'' ∉ kv.2 ∧ kv.2.length ≤ 68

/-- The table `read_fits_core` must return for what `write_fits_core` wrote. -/
def Reread (E : Ext) (t t' : Table) : Prop :=
  t'.order = t.order ∧ t'.knots = t.knots ∧ t'.naxes = t.naxes ∧ t'.strides = t.strides ∧ t'.coef = t.coef ∧
  t'.extents = some (t.extents.getD (defaultExtents t.order t.knots)) ∧
  t'.aux = t.aux.map (fun kv => (kv.1, pad8 kv.2)) ∧
  (∀ p, t.periods = some p → (∀ x ∈ p, E.parseD (E.fmtD x) = some x) → t'.periods = some p) ∧
  (t.periods = none → t'.periods = some (List.replicate t.ndim 0))

/-- C06: write → read reproduces every field bit for bit; aux values gain trailing blanks only. -/
theorem C06_roundtrip (E : Ext) (t : Table) (h : Storable t) :
    ∃ t', readCore E (writeCore E t) = .ok t' ∧ Reread E t t' := by
  refine ⟨rereadTable E t, readCore_writeGen E t false h.ndim_pos h.ndim_le h.knots_len h.naxes_len h.knots_ne
    h.strides_rm h.coef_len h.order_lt h.extents_len h.aux_ok (fun hs => Bool.noConfusion hs), ?_⟩
  refine ⟨rfl, rfl, rfl, rfl, rfl, rfl, rfl, ?_, ?_⟩
  · intro p hp hx
    show some (rdPeriods E t) = some p
    rw [rdPeriods_exact E t p hp (h.periods_len p hp) hx]
  · intro hp
    show some (rdPeriods E t) = _
    unfold rdPeriods
    rw [hp]

/-- the hypothesis of `C06_roundtrip` is satisfiable: a 2 × 3 table with extents, periods and two aux keys -/
example : Storable exTable := by
  constructor <;> decide

/-- The older layout with a single `ORDER` key is read as the same table. -/
theorem legacy_order_key (E : Ext) (t : Table) (h : Storable t) (o : Nat) (ho : ∀ x ∈ t.order, x = o) :
    readCore E (writeGen E true t) = readCore E (writeGen E false t) := by
  have hs : ∀ x ∈ t.order, x = t.order.headD 0 := by
    intro x hx
    have h1 := h.ndim_pos
    unfold Table.ndim at h1
    cases ht : t.order with
    | nil => rw [ht] at h1; exact absurd h1 (by decide)
    | cons a r => rw [ht] at hx ho; rw [ho x hx, List.headD_cons, ho a (by simp)]
  rw [readCore_writeGen E t true h.ndim_pos h.ndim_le h.knots_len h.naxes_len h.knots_ne
      h.strides_rm h.coef_len h.order_lt h.extents_len h.aux_ok (fun _ => hs),
    readCore_writeGen E t false h.ndim_pos h.ndim_le h.knots_len h.naxes_len h.knots_ne
      h.strides_rm h.coef_len h.order_lt h.extents_len h.aux_ok (fun hs => Bool.noConfusion hs)]

/-- the hypotheses of `legacy_order_key` are satisfiable (2 × 3 table, both orders 2) -/
example : Storable exTableLegacy ∧ ∀ x ∈ exTableLegacy.order, x = 2 := by
  refine ⟨?_, by decide⟩
  constructor <;> decide

/-- A file without the EXTENTS extension gets the extents made up from the knots,
    `[knots[i][order[i]], knots[i][nknots[i]-order[i]-1]]`. -/
theorem missing_extents_defaults (E : Ext) (t : Table) (h : Storable t) :
    ∃ t', readCore E (writeCore E { t with extents := none }) = .ok t' ∧
      t'.extents = some (defaultExtents t.order t.knots) ∧ t'.knots = t.knots ∧ t'.coef = t.coef := by
  refine ⟨rereadTable E { t with extents := none }, ?_, rfl, rfl, rfl⟩
  exact readCore_writeGen E { t with extents := none } false h.ndim_pos h.ndim_le h.knots_len h.naxes_len
    h.knots_ne h.strides_rm h.coef_len h.order_lt (fun e he => nomatch he) h.aux_ok
    (fun hs => Bool.noConfusion hs)

/-- non-vacuous: for the example table (which has an EXTENTS extension when written as is) the made-up extents
    are `[knots[0][2], knots[0][5-2-1], knots[1][3], knots[1][7-3-1]]` -/
example : Storable exTable ∧ defaultExtents exTable.order exTable.knots = [2, 2, 13, 13] := by
  refine ⟨?_, by decide⟩
  constructor <;> decide

/-- Whatever is read (from any store), the strides are the row-major strides of the reversed image axes. -/
theorem strides_reconstructed (E : Ext) (f : Fits) (h0 : Hdu) (rest : List Hdu) (t : Table)
    (hf : f = h0 :: rest) (h : readCore E f = .ok t) :
    t.naxes = h0.axes.reverse ∧ t.strides = rowMajor t.naxes := by
  subst hf
  have := readCore_strides E h0 rest t h
  exact ⟨this.1, by rw [this.1]; exact this.2⟩

/-- the hypotheses of `strides_reconstructed` are satisfiable: the file written for the example table is read -/
example (E : Ext) : ∃ h0 rest t, writeCore E exTable = h0 :: rest ∧ readCore E (writeCore E exTable) = .ok t := by
  have hS : Storable exTable := by constructor <;> decide
  obtain ⟨t', ht', _⟩ := C06_roundtrip E exTable hS
  exact ⟨_, _, t', rfl, ht'⟩

end PsV
