import PsV.Model.Fits
import PsV.Model.FitsBytes
/-! # C06 (work in progress) -/
namespace PsV
open PsV.Fits

theorem be32_roundtrip (x : UInt32) : (match be32 x with | [a,b,c,d] => rd32 a b c d | _ => 0) = x := by
  simp only [be32, rd32]
  have h := x.toNat_lt
  apply UInt32.toNat_inj.mp
  simp only [UInt8.toNat_ofNat', UInt32.toNat_ofNat']
  omega

end PsV
