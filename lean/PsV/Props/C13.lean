import PsV.Proofs.Fit
/-!
# C13 — fit rejects inconsistent arguments instead of corrupting memory

Property theorems only.  They are about `PsV.Fit.fitChecks`, `fitBody`, `fit`, `cGlamfit` — the definitions
`psvdriver C13` executes against the real `splinetable::fit` / `splinetable_glamfit`.

`repaired` = the code with fixes/C13-1..6 applied; `asIs` = upstream.  For `repaired` the safety statement holds for
all arguments and all sizes; for `asIs` each missing check has a decided witness.

Standing assumptions (not checkable by `fit`): `Data.WF` — the `ndsparse` struct is what `ndsparse_allocate` makes it;
`SizesFit` — knot vectors have fewer than 2^32 entries (so `porder+1` in `uint32_t` and the `int` parameters of the
fitter do not wrap).
-/
namespace PsV.Fit

/-- every knot vector has fewer than 2^32 entries -/
def SizesFit (a : Args) : Prop := ∀ i, i < a.data.ndim → a.nkAt i < U32

/-- **checks_imply_needs.**  If every check of the repaired sanity block falls through, all the preconditions of the
    code behind it hold. -/
theorem checks_imply_needs (a : Args) (h : fitChecks repaired a = .ok) : Needs a := by
  obtain ⟨h1, h2, h3, h4, h5, h6, h7, h8, h9, h10, h11, h12, h13⟩ := (fitChecks_ok_iff a).mp h
  exact {
    ndim_pos := by omega
    rows_pos := by omega
    nweights := h1.symm
    idx_lt := fun i hi v hv => Nat.lt_of_le_of_lt (mem_le_maxIdx hv) (h4 i hi).2.2.2
    ncoords := h5
    coord_len := fun i hi => (h6 i hi).2
    norders := h7
    nknotvecs := h8
    sorted := fun i hi => (h9 i hi).2.1
    knots_len := fun i hi => (h9 i hi).2.2.2
    nsmooth := h10
    npenalty := h11
    pen_le := fun i hi => (h12 i hi).2.2
    monodim := h13 }

/-- Conversely the repaired block rejects *only* inconsistent arguments: consistent ones pass. -/
theorem needs_imply_checks (a : Args) (hwf : a.data.WF) (hn : Needs a) : fitChecks repaired a = .ok := by
  obtain ⟨n1, n2, n3, n4, n5, n6, n7, n8, n9, n10, n11, n12, n13, n14⟩ := hn
  refine (fitChecks_ok_iff a).mpr ⟨n3.symm, by omega, by omega, ?_, n5, ?_, n7, n8, ?_, n11, n12, ?_, n14⟩
  · intro i hi
    have hlen := idxCol_len hwf hi
    refine ⟨by rw [hwf.idx_len]; exact hi, by omega, by rw [hwf.ranges_len]; exact hi, ?_⟩
    -- the maximum of a non-empty column is one of its elements
    have hmax : ∀ (l : List Nat) (b : Nat), (∀ v ∈ l, v < b) → 0 < l.length → maxIdx l < b := by
      intro l b hb hl
      have aux : ∀ (l : List Nat) (acc : Nat), acc < b → (∀ v ∈ l, v < b) → l.foldl max acc < b := by
        intro l
        induction l with
        | nil => intro acc ha _; simpa using ha
        | cons x xs ih =>
          intro acc ha hv
          simp only [List.foldl_cons]
          exact ih (max acc x) (Nat.max_lt.mpr ⟨ha, hv x (by simp)⟩) (fun v hv' => hv v (by simp [hv']))
      cases l with
      | nil => simp at hl
      | cons x xs => exact aux (x :: xs) 0 (Nat.lt_of_le_of_lt (Nat.zero_le x) (hb x (by simp))) hb
    exact hmax _ _ (n4 i hi) (by omega)
  · intro i hi; exact ⟨by omega, n6 i hi⟩
  · intro i hi; exact ⟨by omega, n9 i hi, by omega, n10 i hi⟩
  · intro i hi; exact ⟨penIdx_lt n12 hi, by omega, n13 i hi⟩

/-- **needs_imply_safe.**  Under `Needs`, every array access and every stack-array declaration of the modelled
    routines (`fit` set-up, `add_penalty_term`/`calc_penalty`/`divided_diffs`, `bsplinebasis`/`bspline`, the monotone
    tail of `glamfit_complex`) is in
    bounds — for all dimensions, orders, knot counts and grid sizes. -/
theorem needs_imply_safe (a : Args) (hwf : a.data.WF) (hsz : SizesFit a) (hn : Needs a) :
    fitBody repaired a = .ok := by
  obtain ⟨n1, n2, n3, n4, n5, n6, n7, n8, n9, n10, n11, n12, n13, n14⟩ := hn
  have hw1 : wsub32 a.data.ndim 1 = a.data.ndim - 1 := wsub32_of_le n1
  have hns : ∀ i, i < a.data.ndim → nsplinesOf (a.nkAt i) (a.ordAt i) = a.nkAt i - a.ordAt i - 1 :=
    fun i hi => nsplinesOf_eq (by have := n10 i hi; omega)
  simp only [fitBody, repaired, seqAll_cons_ok, seqAll_nil, forN_ok_iff, rd_ok_iff, when_ok_iff, and_true, hw1]
  refine ⟨fun j hj => by omega, fun i hi => by omega, fun i hi => by omega, by omega,
    fun i hi => ⟨by omega, by omega, by omega⟩, by omega, by omega, fun i hi => by omega, ?_, ?_, ?_, ?_⟩
  · intro i hi
    have := n10 i hi
    rw [hns i hi]; exact ⟨by omega, by omega⟩
  · intro i hi
    refine ⟨penIdx_lt n12 hi, smoothIdx_lt n11 hi, fun _ => ?_⟩
    have := n10 i hi
    exact calcPenalty_ok (by simp) hi (by rw [range_map_getD _ hi]; exact hns i hi) this (n13 i hi)
      (Nat.le_refl 1) (hsz i hi)
  · intro i hi
    have := n10 i hi
    exact ⟨by rw [hwf.ranges_len]; exact hi, bsplineBasis_ok (by omega) (n6 i hi)⟩
  · intro hm
    have hne : a.monodim ≠ noMonodim := by simpa using hm
    exact monoTail_ok _ _ (by simp only [List.length_map, List.length_range]; omega)

/-- The sanity block itself never reads out of bounds (this is where the `rows == 0` check is needed). -/
theorem checks_never_fault (a : Args) (hwf : a.data.WF) : (fitChecks repaired a).isFault = false := by
  unfold fitChecks
  simp only [repaired]
  refine seqAll_cons_noFault (throwIf_noFault _ _) fun _ => ?_
  refine seqAll_cons_noFault (when_noFault fun _ => throwIf_noFault _ _) fun _ => ?_
  refine seqAll_cons_noFault (when_noFault fun _ => throwIf_noFault _ _) fun h3 => ?_
  have hrows : a.data.rows ≠ 0 := by simpa using h3
  refine seqAll_cons_noFault (forN_noFault fun i hi _ => ?_) fun _ => ?_
  · have hlen := idxCol_len hwf hi
    refine seqAll_cons_noFault (rd_noFault (by rw [hwf.idx_len]; exact hi)) fun _ => ?_
    refine seqAll_cons_noFault (rd_noFault (by omega)) fun _ => ?_
    refine seqAll_cons_noFault (rd_noFault (by rw [hwf.ranges_len]; exact hi)) fun _ => ?_
    exact seqAll_cons_noFault (throwIf_noFault _ _) fun _ => seqAll_nil_noFault
  refine seqAll_cons_noFault (throwIf_noFault _ _) fun h5 => ?_
  have hc : a.coordLens.length = a.data.ndim := by simpa using h5
  refine seqAll_cons_noFault (when_noFault fun _ => forN_noFault fun i hi _ => ?_) fun _ => ?_
  · refine seqAll_cons_noFault (rd_noFault (by omega)) fun _ => ?_
    exact seqAll_cons_noFault (throwIf_noFault _ _) fun _ => seqAll_nil_noFault
  refine seqAll_cons_noFault (throwIf_noFault _ _) fun h7 => ?_
  have ho : a.orders.length = a.data.ndim := by simpa using h7
  refine seqAll_cons_noFault (throwIf_noFault _ _) fun h8 => ?_
  have hk : a.knots.length = a.data.ndim := by simpa using h8
  refine seqAll_cons_noFault (forN_noFault fun i hi _ => ?_) fun _ => ?_
  · refine seqAll_cons_noFault (rd_noFault (by omega)) fun _ => ?_
    refine seqAll_cons_noFault (throwIf_noFault _ _) fun _ => ?_
    refine seqAll_cons_noFault (when_noFault fun _ => ?_) fun _ => seqAll_nil_noFault
    refine seqAll_cons_noFault (rd_noFault (by omega)) fun _ => ?_
    exact seqAll_cons_noFault (throwIf_noFault _ _) fun _ => seqAll_nil_noFault
  refine seqAll_cons_noFault (throwIf_noFault _ _) fun _ => ?_
  refine seqAll_cons_noFault (throwIf_noFault _ _) fun h11 => ?_
  have hp : a.penalty.length = a.data.ndim ∨ a.penalty.length = 1 := by
    simp only [throwIf_ok_iff, Bool.and_eq_false_iff, bne_eq_false_iff_eq] at h11; exact h11
  refine seqAll_cons_noFault (when_noFault fun _ => forN_noFault fun i hi _ => ?_) fun _ => ?_
  · refine seqAll_cons_noFault (rd_noFault (penIdx_lt hp hi)) fun _ => ?_
    refine seqAll_cons_noFault (rd_noFault (by omega)) fun _ => ?_
    exact seqAll_cons_noFault (throwIf_noFault _ _) fun _ => seqAll_nil_noFault
  exact seqAll_cons_noFault (throwIf_noFault _ _) fun _ => seqAll_nil_noFault

/-- **C13, memory safety of the repaired code**: for every argument tuple, `fit` completes, or throws — it never
    touches memory out of bounds (in the modelled index arithmetic). -/
theorem fit_never_faults (a : Args) (hwf : a.data.WF) (hsz : SizesFit a) (glamOk : Bool) (t : Tbl) :
    (fit repaired a glamOk t).1.isFault = false := by
  unfold fit
  cases hc : fitChecks repaired a with
  | ok =>
    simp only
    rw [needs_imply_safe a hwf hsz (checks_imply_needs a hc)]
    cases glamOk <;> rfl
  | reject e => rfl
  | fault f => have := checks_never_fault a hwf; rw [hc] at this; exact this

/-- **reject_leaves_unchanged.**  All checks precede any mutation: whatever the sanity block rejects (in either
    state of the code) leaves the table exactly as it was, and is what `fit` reports. -/
theorem reject_leaves_unchanged (c : Cfg) (a : Args) (glamOk : Bool) (t : Tbl) (e : Err)
    (h : fitChecks c a = .reject e) : fit c a glamOk t = (.reject e, t) := by
  simp [fit, h]

/-- If the table changed, every check had passed. -/
theorem changed_only_after_checks (c : Cfg) (a : Args) (glamOk : Bool) (t : Tbl)
    (h : (fit c a glamOk t).2 ≠ t) : fitChecks c a = .ok := by
  unfold fit at h
  cases hc : fitChecks c a with
  | ok => rfl
  | reject e => simp [hc] at h
  | fault f => simp [hc] at h

/-- On the repaired code an inconsistent argument tuple (`¬ Needs`) is always answered by an argument error with the
    table untouched. -/
theorem inconsistent_rejected (a : Args) (hwf : a.data.WF) (glamOk : Bool) (t : Tbl) (h : ¬ Needs a) :
    ∃ e, e ≠ Err.glam ∧ fit repaired a glamOk t = (.reject e, t) := by
  cases hc : fitChecks repaired a with
  | ok => exact absurd (checks_imply_needs a hc) h
  | fault f => have := checks_never_fault a hwf; rw [hc] at this; simp [Out.isFault] at this
  | reject e =>
    refine ⟨e, ?_, reject_leaves_unchanged _ a glamOk t e hc⟩
    intro he; subst he
    -- the sanity block never produces `glam`
    have key : ∀ (l : List Out), (∀ x ∈ l, x ≠ .reject .glam) → seqAll l ≠ .reject .glam := by
      intro l
      induction l with
      | nil => intro _ h; simp [seqAll] at h
      | cons x xs ih =>
        intro hx
        simp only [seqAll]
        cases hx' : x with
        | ok => simpa [Out.andThen] using ih fun y hy => hx y (by simp [hy])
        | reject e => simp only [Out.andThen]; rw [← hx']; exact hx x (by simp)
        | fault f => simp [Out.andThen]
    have keyN : ∀ (n : Nat) (f : Nat → Out), (∀ i, f i ≠ .reject .glam) → forN n f ≠ .reject .glam := by
      intro n f hf
      induction n with
      | zero => simp [forN]
      | succ n ih =>
        simp only [forN]
        cases h' : forN n f with
        | ok => simpa [Out.andThen] using hf n
        | reject e => simp only [Out.andThen]; rw [← h']; exact ih
        | fault f => simp [Out.andThen]
    have t1 : ∀ (b : Bool) (e : Err), e ≠ .glam → throwIf b e ≠ .reject .glam := by
      intro b e he; unfold throwIf; cases b <;> simp [he]
    have r1 : ∀ s l i, rd s l i ≠ .reject .glam := by intro s l i; unfold rd; split <;> simp
    have w1 : ∀ (b : Bool) (x : Out), x ≠ .reject .glam → Out.when b x ≠ .reject .glam := by
      intro b x hx; unfold Out.when; cases b <;> simp [hx]
    refine absurd hc (key _ ?_)
    simp only [List.mem_cons, List.not_mem_nil, or_false, forall_eq_or_imp, forall_eq]
    refine ⟨t1 _ _ (by simp), w1 _ _ (t1 _ _ (by simp)), w1 _ _ (t1 _ _ (by simp)), keyN _ _ fun i => key _ ?_,
      t1 _ _ (by simp), w1 _ _ (keyN _ _ fun i => key _ ?_), t1 _ _ (by simp), t1 _ _ (by simp),
      keyN _ _ fun i => key _ ?_, t1 _ _ (by simp), t1 _ _ (by simp), w1 _ _ (keyN _ _ fun i => key _ ?_),
      t1 _ _ (by simp)⟩
    · simp only [List.mem_cons, List.not_mem_nil, or_false, forall_eq_or_imp, forall_eq]
      exact ⟨r1 _ _ _, r1 _ _ _, r1 _ _ _, t1 _ _ (by simp)⟩
    · simp only [List.mem_cons, List.not_mem_nil, or_false, forall_eq_or_imp, forall_eq]
      exact ⟨r1 _ _ _, t1 _ _ (by simp)⟩
    · simp only [List.mem_cons, List.not_mem_nil, or_false, forall_eq_or_imp, forall_eq]
      refine ⟨r1 _ _ _, t1 _ _ (by simp), w1 _ _ (key _ ?_)⟩
      simp only [List.mem_cons, List.not_mem_nil, or_false, forall_eq_or_imp, forall_eq]
      exact ⟨r1 _ _ _, t1 _ _ (by simp)⟩
    · simp only [List.mem_cons, List.not_mem_nil, or_false, forall_eq_or_imp, forall_eq]
      exact ⟨r1 _ _ _, r1 _ _ _, t1 _ _ (by simp)⟩

/-- **cwrapper_nonzero_iff_reject.**  `splinetable_glamfit` returns non-zero exactly when a handle is null or the
    C++ call does not complete normally. -/
theorem cwrapper_nonzero_iff_reject (c : Cfg) (tableNull dataNull : Bool) (ca : CArgs) (glamOk : Bool) (t : Tbl) :
    (cGlamfit c tableNull dataNull ca glamOk t).1 ≠ 0 ↔
      (tableNull = true ∨ dataNull = true ∨ (fit c ca.view glamOk t).1 ≠ .ok) := by
  unfold cGlamfit
  cases tableNull <;> cases dataNull <;> simp
  cases h : fit c ca.view glamOk t with
  | mk o t' => cases o <;> simp

/-- … and a non-zero return caused by the sanity block leaves the table behind the handle unchanged. -/
theorem cwrapper_reject_unchanged (c : Cfg) (ca : CArgs) (glamOk : Bool) (t : Tbl) (e : Err)
    (h : fitChecks c ca.view = .reject e) : cGlamfit c false false ca glamOk t = (1, t) := by
  simp [cGlamfit, reject_leaves_unchanged c ca.view glamOk t e h]

/-! ## The code as it is: decided witnesses of the missing checks -/

def kn (l : List Int) : List (Option Int) := l.map some

/-- 1-d, one data point with index 0, index range 3, but only one coordinate: `bsplinebasis` reads `x[1]`, `x[2]`. -/
def wShortCoords : Args := ⟨⟨1, 1, [3], [[0]]⟩, 1, [1], [1], [kn [0, 1, 2, 3]], [false], [0], noMonodim⟩
/-- order 2 with 3 knots: zero basis functions (`naxes = 0`), an unusable table is built without complaint -/
def wThreeKnots : Args := ⟨⟨1, 1, [1], [[0]]⟩, 1, [1], [2], [kn [0, 1, 2]], [false], [0], noMonodim⟩
/-- order 2 with 2 knots: `naxes = nknots-order-1` wraps to 2^64-1 -/
def wTwoKnots : Args := ⟨⟨1, 1, [1], [[0]]⟩, 1, [1], [2], [kn [0, 1]], [false], [0], noMonodim⟩
/-- order 1, penalty order 3 = order+2, 8 knots -/
def wPenalty : Args := ⟨⟨1, 1, [1], [[0]]⟩, 1, [1], [1], [kn [0, 1, 2, 3, 4, 5, 6, 7]], [true], [3], noMonodim⟩
/-- order 0 with a penalty term -/
def wOrderZero : Args := ⟨⟨1, 1, [1], [[0]]⟩, 1, [1], [0], [kn [0, 1]], [true], [0], noMonodim⟩
/-- no data points -/
def wNoRows : Args := ⟨⟨0, 1, [3], [[]]⟩, 0, [3], [1], [kn [0, 1, 2, 3]], [false], [0], noMonodim⟩
/-- no dimensions -/
def wNoDims : Args := ⟨⟨1, 0, [], []⟩, 1, [], [], [], [true], [0], noMonodim⟩

/-- coordinate vector shorter than the index range: accepted, then read past its end -/
theorem asIs_short_coords :
    fitChecks asIs wShortCoords = .ok ∧ fitBody asIs wShortCoords = .fault (.oob .coordsX 1 1) ∧
    fitChecks repaired wShortCoords = .reject (.coordLen 0) := by decide

/-- too few knots: accepted; `naxes` is 0 resp. wraps, and the knot vector is read past its end -/
theorem asIs_too_few_knots :
    fitChecks asIs wThreeKnots = .ok ∧ (fitShape wThreeKnots).naxes = [0] ∧
    fitChecks asIs wTwoKnots = .ok ∧ (fitShape wTwoKnots).naxes = [2^64 - 1] ∧
    fitBody asIs wTwoKnots = .fault (.oob .knots 2 2) ∧
    fitChecks repaired wThreeKnots = .reject (.fewKnots 0) ∧ fitChecks repaired wTwoKnots = .reject (.fewKnots 0) := by
  decide

/-- penalty order = order+2: the recursion writes `out[1]` into the caller's one-element stack array `a` -/
theorem asIs_penalty_order_overruns_stack :
    fitChecks asIs wPenalty = .ok ∧ fitBody asIs wPenalty = .fault (.oob .ddOut 1 1) ∧
    fitChecks repaired wPenalty = .reject (.penaltyOrder 0) := by decide

/-- order 0: `double a[0], b[0]` — UBSan `vla-bound`; the arguments are consistent, so the repair is in glam.c -/
theorem asIs_order_zero_vla :
    fitChecks asIs wOrderZero = .ok ∧ fitBody asIs wOrderZero = .fault (.vlaBound .ddA 0) ∧
    fitChecks repaired wOrderZero = .ok ∧ fitBody repaired wOrderZero = .ok := by decide

/-- empty data: `*std::max_element` of an empty range inside the sanity block itself -/
theorem asIs_empty_data :
    fitChecks asIs wNoRows = .fault (.oob .maxElement 0 0) ∧ fitChecks repaired wNoRows = .reject .noData := by decide

/-- zero dimensions: `strides[ndim-1]` with `ndim-1 = 2^32-1` -/
theorem asIs_zero_dims :
    fitChecks asIs wNoDims = .ok ∧ fitBody asIs wNoDims = .fault (.oob .strides 0 (2^32 - 1)) ∧
    fitChecks repaired wNoDims = .reject .noDims := by decide

/-! ## Non-vacuity -/

/-- a consistent 2-d problem (orders 2 and 0, penalty orders 2 and 0, monotone in dimension 1) -/
def good : Args :=
  ⟨⟨3, 2, [7, 2], [[0, 3, 6], [1, 0, 1]]⟩, 3, [7, 3], [2, 0],
   [kn [0, 1, 2, 3, 4, 5, 6], kn [0, 5]], [true], [0], 1⟩

example : good.data.WF ∧ SizesFit good ∧ fitChecks repaired good = .ok ∧ Needs good ∧ fitBody repaired good = .ok := by
  have hwf : good.data.WF := ⟨rfl, rfl, by decide⟩
  have hsz : SizesFit good := by
    intro i hi
    have : i = 0 ∨ i = 1 := by simp [good] at hi; omega
    rcases this with rfl | rfl <;> decide
  have hc : fitChecks repaired good = .ok := by decide
  exact ⟨hwf, hsz, hc, checks_imply_needs _ hc, needs_imply_safe _ hwf hsz (checks_imply_needs _ hc)⟩

/-- an inconsistent tuple exists and is rejected with the table (here a populated one) untouched -/
example : ¬ Needs wPenalty ∧ fit repaired wPenalty true (some (fitShape good)) = (.reject (.penaltyOrder 0), some (fitShape good)) := by
  refine ⟨fun h => ?_, reject_leaves_unchanged _ _ _ _ _ (by decide)⟩
  have := h.pen_le 0 (by decide)
  revert this; decide

/-- `changed_only_after_checks`: a call that changes the table exists -/
example : (fit repaired good true none).2 ≠ none := by decide

/-- `cwrapper_reject_unchanged`: a C call whose views are rejected by the sanity block -/
example : fitChecks repaired (CArgs.view ⟨good.data, [2, 0], good.knots, [true, true], [0, 3], 1⟩)
    = .reject (.penaltyOrder 1) := by decide

/-- the wrapper: zero on a good fit, non-zero on a null handle and on a rejected call -/
example : (cGlamfit repaired false false ⟨good.data, [2, 0], good.knots, [true, true], [0, 0], 1⟩ true none).1 = 0 ∧
    (cGlamfit repaired true false ⟨good.data, [2, 0], good.knots, [true, true], [0, 0], 1⟩ true none).1 = 1 ∧
    (cGlamfit repaired false false ⟨good.data, [2, 0], good.knots, [true, true], [0, 3], 1⟩ true none).1 = 1 := by decide

end PsV.Fit
