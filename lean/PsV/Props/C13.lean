import PsV.Proofs.Fit
import PsV.Proofs.FitEntry
import PsV.Proofs.FitUnderdet
/-!
# C13 — fit rejects inconsistent arguments instead of corrupting memory

Property theorems only.  They are about `PsV.Fit.fitChecks`, `fitBody`, `fit`, `cGlamfit` — the definitions
`psvdriver C13` executes against the real `splinetable::fit` / `splinetable_glamfit`.

`repaired` = the code with fixes/C13-1..6 applied; `asIs` = upstream.  For `repaired` the safety statement holds for
all arguments and all sizes; for `asIs` each missing check has a decided witness.

Standing assumptions (not checkable by `fit`): `Data.WF` — the `ndsparse` struct is what `ndsparse_allocate` makes it;
`SizesFit` — knot vectors have fewer than 2^32 entries (so `porder+1` in `uint32_t` and the `int` parameters of the
fitter do not wrap).
-/
namespace PsV.Fit

/-- every knot vector has fewer than 2^32 entries -/
def SizesFit (a : Args) : Prop := ∀ i, i < a.data.ndim → a.nkAt i < U32

/-- **checks_imply_needs.**  If every check of the repaired sanity block falls through, all the preconditions of the
    code behind it hold. -/
theorem checks_imply_needs (a : Args) (h : fitChecks repaired a = .ok) : Needs a := by
  obtain ⟨h1, h2, h3, h4, h5, h6, h7, h8, h9, h10, h11, h12, h13⟩ := (fitChecks_ok_iff a).mp h
  exact {
    ndim_pos := by omega
    rows_pos := by omega
    nweights := h1.symm
    idx_lt := fun i hi v hv => Nat.lt_of_le_of_lt (mem_le_maxIdx hv) (h4 i hi).2.2.2
    ncoords := h5
    coord_len := fun i hi => (h6 i hi).2
    norders := h7
    nknotvecs := h8
    sorted := fun i hi => (h9 i hi).2.1
    knots_len := fun i hi => (h9 i hi).2.2.2
    nsmooth := h10
    npenalty := h11
    pen_le := fun i hi => (h12 i hi).2.2
    monodim := h13 }

/-- Conversely the repaired block rejects *only* inconsistent arguments: consistent ones pass. -/
theorem needs_imply_checks (a : Args) (hwf : a.data.WF) (hn : Needs a) : fitChecks repaired a = .ok := by
  obtain ⟨n1, n2, n3, n4, n5, n6, n7, n8, n9, n10, n11, n12, n13, n14⟩ := hn
  refine (fitChecks_ok_iff a).mpr ⟨n3.symm, by omega, by omega, ?_, n5, ?_, n7, n8, ?_, n11, n12, ?_, n14⟩
  · intro i hi
    have hlen := idxCol_len hwf hi
    refine ⟨by rw [hwf.idx_len]; exact hi, by omega, by rw [hwf.ranges_len]; exact hi, ?_⟩
    -- the maximum of a non-empty column is one of its elements
    have hmax : ∀ (l : List Nat) (b : Nat), (∀ v ∈ l, v < b) → 0 < l.length → maxIdx l < b := by
      intro l b hb hl
      have aux : ∀ (l : List Nat) (acc : Nat), acc < b → (∀ v ∈ l, v < b) → l.foldl max acc < b := by
        intro l
        induction l with
        | nil => intro acc ha _; simpa using ha
        | cons x xs ih =>
          intro acc ha hv
          simp only [List.foldl_cons]
          exact ih (max acc x) (Nat.max_lt.mpr ⟨ha, hv x (by simp)⟩) (fun v hv' => hv v (by simp [hv']))
      cases l with
      | nil => simp at hl
      | cons x xs => exact aux (x :: xs) 0 (Nat.lt_of_le_of_lt (Nat.zero_le x) (hb x (by simp))) hb
    exact hmax _ _ (n4 i hi) (by omega)
  · intro i hi; exact ⟨by omega, n6 i hi⟩
  · intro i hi; exact ⟨by omega, n9 i hi, by omega, n10 i hi⟩
  · intro i hi; exact ⟨penIdx_lt n12 hi, by omega, n13 i hi⟩

/-- **needs_imply_safe.**  Under `Needs`, every array access and every stack-array declaration of the modelled
    routines (`fit` set-up, `add_penalty_term`/`calc_penalty`/`divided_diffs`, `bsplinebasis`/`bspline`, the monotone
    tail of `glamfit_complex`) is in
    bounds — for all dimensions, orders, knot counts and grid sizes. -/
theorem needs_imply_safe (a : Args) (hwf : a.data.WF) (hsz : SizesFit a) (hn : Needs a) :
    fitBody repaired a = .ok := by
  obtain ⟨n1, n2, n3, n4, n5, n6, n7, n8, n9, n10, n11, n12, n13, n14⟩ := hn
  have hw1 : wsub32 a.data.ndim 1 = a.data.ndim - 1 := wsub32_of_le n1
  have hns : ∀ i, i < a.data.ndim → nsplinesOf (a.nkAt i) (a.ordAt i) = a.nkAt i - a.ordAt i - 1 :=
    fun i hi => nsplinesOf_eq (by have := n10 i hi; omega)
  simp only [fitBody, repaired, seqAll_cons_ok, seqAll_nil, forN_ok_iff, rd_ok_iff, when_ok_iff, and_true, hw1]
  refine ⟨fun j hj => by omega, fun i hi => by omega, fun i hi => by omega, by omega,
    fun i hi => ⟨by omega, by omega, by omega⟩, by omega, by omega, fun i hi => by omega, ?_, ?_, ?_, ?_⟩
  · intro i hi
    have := n10 i hi
    rw [hns i hi]; exact ⟨by omega, by omega⟩
  · intro i hi
    refine ⟨penIdx_lt n12 hi, smoothIdx_lt n11 hi, fun _ => ?_⟩
    have := n10 i hi
    exact calcPenalty_ok (by simp) hi (by rw [range_map_getD _ hi]; exact hns i hi) this (n13 i hi)
      (Nat.le_refl 1) (hsz i hi)
  · intro i hi
    have := n10 i hi
    exact ⟨by rw [hwf.ranges_len]; exact hi, bsplineBasis_ok (by omega) (n6 i hi)⟩
  · intro hm
    have hne : a.monodim ≠ noMonodim := by simpa using hm
    exact monoTail_ok _ _ (by simp only [List.length_map, List.length_range]; omega)

/-- The sanity block itself never reads out of bounds (this is where the `rows == 0` check is needed). -/
theorem checks_never_fault (a : Args) (hwf : a.data.WF) : (fitChecks repaired a).isFault = false := by
  unfold fitChecks
  simp only [repaired]
  refine seqAll_cons_noFault (throwIf_noFault _ _) fun _ => ?_
  refine seqAll_cons_noFault (when_noFault fun _ => throwIf_noFault _ _) fun _ => ?_
  refine seqAll_cons_noFault (when_noFault fun _ => throwIf_noFault _ _) fun h3 => ?_
  have hrows : a.data.rows ≠ 0 := by simpa using h3
  refine seqAll_cons_noFault (forN_noFault fun i hi _ => ?_) fun _ => ?_
  · have hlen := idxCol_len hwf hi
    refine seqAll_cons_noFault (rd_noFault (by rw [hwf.idx_len]; exact hi)) fun _ => ?_
    refine seqAll_cons_noFault (rd_noFault (by omega)) fun _ => ?_
    refine seqAll_cons_noFault (rd_noFault (by rw [hwf.ranges_len]; exact hi)) fun _ => ?_
    exact seqAll_cons_noFault (throwIf_noFault _ _) fun _ => seqAll_nil_noFault
  refine seqAll_cons_noFault (throwIf_noFault _ _) fun h5 => ?_
  have hc : a.coordLens.length = a.data.ndim := by simpa using h5
  refine seqAll_cons_noFault (when_noFault fun _ => forN_noFault fun i hi _ => ?_) fun _ => ?_
  · refine seqAll_cons_noFault (rd_noFault (by omega)) fun _ => ?_
    exact seqAll_cons_noFault (throwIf_noFault _ _) fun _ => seqAll_nil_noFault
  refine seqAll_cons_noFault (throwIf_noFault _ _) fun h7 => ?_
  have ho : a.orders.length = a.data.ndim := by simpa using h7
  refine seqAll_cons_noFault (throwIf_noFault _ _) fun h8 => ?_
  have hk : a.knots.length = a.data.ndim := by simpa using h8
  refine seqAll_cons_noFault (forN_noFault fun i hi _ => ?_) fun _ => ?_
  · refine seqAll_cons_noFault (rd_noFault (by omega)) fun _ => ?_
    refine seqAll_cons_noFault (throwIf_noFault _ _) fun _ => ?_
    refine seqAll_cons_noFault (when_noFault fun _ => ?_) fun _ => seqAll_nil_noFault
    refine seqAll_cons_noFault (rd_noFault (by omega)) fun _ => ?_
    exact seqAll_cons_noFault (throwIf_noFault _ _) fun _ => seqAll_nil_noFault
  refine seqAll_cons_noFault (throwIf_noFault _ _) fun _ => ?_
  refine seqAll_cons_noFault (throwIf_noFault _ _) fun h11 => ?_
  have hp : a.penalty.length = a.data.ndim ∨ a.penalty.length = 1 := by
    simp only [throwIf_ok_iff, Bool.and_eq_false_iff, bne_eq_false_iff_eq] at h11; exact h11
  refine seqAll_cons_noFault (when_noFault fun _ => forN_noFault fun i hi _ => ?_) fun _ => ?_
  · refine seqAll_cons_noFault (rd_noFault (penIdx_lt hp hi)) fun _ => ?_
    refine seqAll_cons_noFault (rd_noFault (by omega)) fun _ => ?_
    exact seqAll_cons_noFault (throwIf_noFault _ _) fun _ => seqAll_nil_noFault
  exact seqAll_cons_noFault (throwIf_noFault _ _) fun _ => seqAll_nil_noFault

/-- **C13, memory safety of the repaired code**: for every argument tuple, `fit` completes, or throws — it never
    touches memory out of bounds (in the modelled index arithmetic). -/
theorem fit_never_faults (a : Args) (hwf : a.data.WF) (hsz : SizesFit a) (glamOk : Bool) (t : Tbl) :
    (fit repaired a glamOk t).1.isFault = false := by
  unfold fit
  cases hc : fitChecks repaired a with
  | ok =>
    simp only
    rw [needs_imply_safe a hwf hsz (checks_imply_needs a hc)]
    cases glamOk <;> rfl
  | reject e => rfl
  | fault f => have := checks_never_fault a hwf; rw [hc] at this; exact this

/-- **reject_leaves_unchanged.**  All checks precede any mutation: whatever the sanity block rejects (in either
    state of the code) leaves the table exactly as it was, and is what `fit` reports. -/
theorem reject_leaves_unchanged (c : Cfg) (a : Args) (glamOk : Bool) (t : Tbl) (e : Err)
    (h : fitChecks c a = .reject e) : fit c a glamOk t = (.reject e, t) := by
  simp [fit, h]

/-- If the table changed, every check had passed. -/
theorem changed_only_after_checks (c : Cfg) (a : Args) (glamOk : Bool) (t : Tbl)
    (h : (fit c a glamOk t).2 ≠ t) : fitChecks c a = .ok := by
  unfold fit at h
  cases hc : fitChecks c a with
  | ok => rfl
  | reject e => simp [hc] at h
  | fault f => simp [hc] at h

/-- On the repaired code an inconsistent argument tuple (`¬ Needs`) is always answered by an argument error with the
    table untouched. -/
theorem inconsistent_rejected (a : Args) (hwf : a.data.WF) (glamOk : Bool) (t : Tbl) (h : ¬ Needs a) :
    ∃ e, e ≠ Err.glam ∧ fit repaired a glamOk t = (.reject e, t) := by
  cases hc : fitChecks repaired a with
  | ok => exact absurd (checks_imply_needs a hc) h
  | fault f => have := checks_never_fault a hwf; rw [hc] at this; simp [Out.isFault] at this
  | reject e =>
    refine ⟨e, ?_, reject_leaves_unchanged _ a glamOk t e hc⟩
    intro he; subst he
    -- the sanity block never produces `glam`
    have key : ∀ (l : List Out), (∀ x ∈ l, x ≠ .reject .glam) → seqAll l ≠ .reject .glam := by
      intro l
      induction l with
      | nil => intro _ h; simp [seqAll] at h
      | cons x xs ih =>
        intro hx
        simp only [seqAll]
        cases hx' : x with
        | ok => simpa [Out.andThen] using ih fun y hy => hx y (by simp [hy])
        | reject e => simp only [Out.andThen]; rw [← hx']; exact hx x (by simp)
        | fault f => simp [Out.andThen]
    have keyN : ∀ (n : Nat) (f : Nat → Out), (∀ i, f i ≠ .reject .glam) → forN n f ≠ .reject .glam := by
      intro n f hf
      induction n with
      | zero => simp [forN]
      | succ n ih =>
        simp only [forN]
        cases h' : forN n f with
        | ok => simpa [Out.andThen] using hf n
        | reject e => simp only [Out.andThen]; rw [← h']; exact ih
        | fault f => simp [Out.andThen]
    have t1 : ∀ (b : Bool) (e : Err), e ≠ .glam → throwIf b e ≠ .reject .glam := by
      intro b e he; unfold throwIf; cases b <;> simp [he]
    have r1 : ∀ s l i, rd s l i ≠ .reject .glam := by intro s l i; unfold rd; split <;> simp
    have w1 : ∀ (b : Bool) (x : Out), x ≠ .reject .glam → Out.when b x ≠ .reject .glam := by
      intro b x hx; unfold Out.when; cases b <;> simp [hx]
    refine absurd hc (key _ ?_)
    simp only [List.mem_cons, List.not_mem_nil, or_false, forall_eq_or_imp, forall_eq]
    refine ⟨t1 _ _ (by simp), w1 _ _ (t1 _ _ (by simp)), w1 _ _ (t1 _ _ (by simp)), keyN _ _ fun i => key _ ?_,
      t1 _ _ (by simp), w1 _ _ (keyN _ _ fun i => key _ ?_), t1 _ _ (by simp), t1 _ _ (by simp),
      keyN _ _ fun i => key _ ?_, t1 _ _ (by simp), t1 _ _ (by simp), w1 _ _ (keyN _ _ fun i => key _ ?_),
      t1 _ _ (by simp)⟩
    · simp only [List.mem_cons, List.not_mem_nil, or_false, forall_eq_or_imp, forall_eq]
      exact ⟨r1 _ _ _, r1 _ _ _, r1 _ _ _, t1 _ _ (by simp)⟩
    · simp only [List.mem_cons, List.not_mem_nil, or_false, forall_eq_or_imp, forall_eq]
      exact ⟨r1 _ _ _, t1 _ _ (by simp)⟩
    · simp only [List.mem_cons, List.not_mem_nil, or_false, forall_eq_or_imp, forall_eq]
      refine ⟨r1 _ _ _, t1 _ _ (by simp), w1 _ _ (key _ ?_)⟩
      simp only [List.mem_cons, List.not_mem_nil, or_false, forall_eq_or_imp, forall_eq]
      exact ⟨r1 _ _ _, t1 _ _ (by simp)⟩
    · simp only [List.mem_cons, List.not_mem_nil, or_false, forall_eq_or_imp, forall_eq]
      exact ⟨r1 _ _ _, r1 _ _ _, t1 _ _ (by simp)⟩

/-- **cwrapper_nonzero_iff_reject.**  `splinetable_glamfit` returns non-zero exactly when a handle is null or the
    C++ call does not complete normally. -/
theorem cwrapper_nonzero_iff_reject (c : Cfg) (tableNull dataNull : Bool) (ca : CArgs) (glamOk : Bool) (t : Tbl) :
    (cGlamfit c tableNull dataNull ca glamOk t).1 ≠ 0 ↔
      (tableNull = true ∨ dataNull = true ∨ (fit c ca.view glamOk t).1 ≠ .ok) := by
  unfold cGlamfit
  cases tableNull <;> cases dataNull <;> simp
  cases h : fit c ca.view glamOk t with
  | mk o t' => cases o <;> simp

/-- … and a non-zero return caused by the sanity block leaves the table behind the handle unchanged. -/
theorem cwrapper_reject_unchanged (c : Cfg) (ca : CArgs) (glamOk : Bool) (t : Tbl) (e : Err)
    (h : fitChecks c ca.view = .reject e) : cGlamfit c false false ca glamOk t = (1, t) := by
  simp [cGlamfit, reject_leaves_unchanged c ca.view glamOk t e h]

/-! ## The code as it is: decided witnesses of the missing checks -/

def kn (l : List Int) : List (Option Int) := l.map some

/-- 1-d, one data point with index 0, index range 3, but only one coordinate: `bsplinebasis` reads `x[1]`, `x[2]`. -/
def wShortCoords : Args := ⟨⟨1, 1, [3], [[0]]⟩, 1, [1], [1], [kn [0, 1, 2, 3]], [false], [0], noMonodim⟩
/-- order 2 with 3 knots: zero basis functions (`naxes = 0`), an unusable table is built without complaint -/
def wThreeKnots : Args := ⟨⟨1, 1, [1], [[0]]⟩, 1, [1], [2], [kn [0, 1, 2]], [false], [0], noMonodim⟩
/-- order 2 with 2 knots: `naxes = nknots-order-1` wraps to 2^64-1 -/
def wTwoKnots : Args := ⟨⟨1, 1, [1], [[0]]⟩, 1, [1], [2], [kn [0, 1]], [false], [0], noMonodim⟩
/-- order 1, penalty order 3 = order+2, 8 knots -/
def wPenalty : Args := ⟨⟨1, 1, [1], [[0]]⟩, 1, [1], [1], [kn [0, 1, 2, 3, 4, 5, 6, 7]], [true], [3], noMonodim⟩
/-- order 0 with a penalty term -/
def wOrderZero : Args := ⟨⟨1, 1, [1], [[0]]⟩, 1, [1], [0], [kn [0, 1]], [true], [0], noMonodim⟩
/-- no data points -/
def wNoRows : Args := ⟨⟨0, 1, [3], [[]]⟩, 0, [3], [1], [kn [0, 1, 2, 3]], [false], [0], noMonodim⟩
/-- no dimensions -/
def wNoDims : Args := ⟨⟨1, 0, [], []⟩, 1, [], [], [], [true], [0], noMonodim⟩

/-- coordinate vector shorter than the index range: accepted, then read past its end -/
theorem asIs_short_coords :
    fitChecks asIs wShortCoords = .ok ∧ fitBody asIs wShortCoords = .fault (.oob .coordsX 1 1) ∧
    fitChecks repaired wShortCoords = .reject (.coordLen 0) := by decide

/-- too few knots: accepted; `naxes` is 0 resp. wraps, and the knot vector is read past its end -/
theorem asIs_too_few_knots :
    fitChecks asIs wThreeKnots = .ok ∧ (fitShape wThreeKnots).naxes = [0] ∧
    fitChecks asIs wTwoKnots = .ok ∧ (fitShape wTwoKnots).naxes = [2^64 - 1] ∧
    fitBody asIs wTwoKnots = .fault (.oob .knots 2 2) ∧
    fitChecks repaired wThreeKnots = .reject (.fewKnots 0) ∧ fitChecks repaired wTwoKnots = .reject (.fewKnots 0) := by
  decide

/-- penalty order = order+2: the recursion writes `out[1]` into the caller's one-element stack array `a` -/
theorem asIs_penalty_order_overruns_stack :
    fitChecks asIs wPenalty = .ok ∧ fitBody asIs wPenalty = .fault (.oob .ddOut 1 1) ∧
    fitChecks repaired wPenalty = .reject (.penaltyOrder 0) := by decide

/-- order 0: `double a[0], b[0]` — UBSan `vla-bound`; the arguments are consistent, so the repair is in glam.c -/
theorem asIs_order_zero_vla :
    fitChecks asIs wOrderZero = .ok ∧ fitBody asIs wOrderZero = .fault (.vlaBound .ddA 0) ∧
    fitChecks repaired wOrderZero = .ok ∧ fitBody repaired wOrderZero = .ok := by decide

/-- empty data: `*std::max_element` of an empty range inside the sanity block itself -/
theorem asIs_empty_data :
    fitChecks asIs wNoRows = .fault (.oob .maxElement 0 0) ∧ fitChecks repaired wNoRows = .reject .noData := by decide

/-- zero dimensions: `strides[ndim-1]` with `ndim-1 = 2^32-1` -/
theorem asIs_zero_dims :
    fitChecks asIs wNoDims = .ok ∧ fitBody asIs wNoDims = .fault (.oob .strides 0 (2^32 - 1)) ∧
    fitChecks repaired wNoDims = .reject .noDims := by decide

/-! ## Non-vacuity -/

/-- a consistent 2-d problem (orders 2 and 0, penalty orders 2 and 0, monotone in dimension 1) -/
def good : Args :=
  ⟨⟨3, 2, [7, 2], [[0, 3, 6], [1, 0, 1]]⟩, 3, [7, 3], [2, 0],
   [kn [0, 1, 2, 3, 4, 5, 6], kn [0, 5]], [true], [0], 1⟩

example : good.data.WF ∧ SizesFit good ∧ fitChecks repaired good = .ok ∧ Needs good ∧ fitBody repaired good = .ok := by
  have hwf : good.data.WF := ⟨rfl, rfl, by decide⟩
  have hsz : SizesFit good := by
    intro i hi
    have : i = 0 ∨ i = 1 := by simp [good] at hi; omega
    rcases this with rfl | rfl <;> decide
  have hc : fitChecks repaired good = .ok := by decide
  exact ⟨hwf, hsz, hc, checks_imply_needs _ hc, needs_imply_safe _ hwf hsz (checks_imply_needs _ hc)⟩

/-- an inconsistent tuple exists and is rejected with the table (here a populated one) untouched -/
example : ¬ Needs wPenalty ∧ fit repaired wPenalty true (some (fitShape good)) = (.reject (.penaltyOrder 0), some (fitShape good)) := by
  refine ⟨fun h => ?_, reject_leaves_unchanged _ _ _ _ _ (by decide)⟩
  have := h.pen_le 0 (by decide)
  revert this; decide

/-- `changed_only_after_checks`: a call that changes the table exists -/
example : (fit repaired good true none).2 ≠ none := by decide

/-- `cwrapper_reject_unchanged`: a C call whose views are rejected by the sanity block -/
example : fitChecks repaired (CArgs.view ⟨good.data, [2, 0], good.knots, [true, true], [0, 3], 1⟩)
    = .reject (.penaltyOrder 1) := by decide

/-- the wrapper: zero on a good fit, non-zero on a null handle and on a rejected call -/
example : (cGlamfit repaired false false ⟨good.data, [2, 0], good.knots, [true, true], [0, 0], 1⟩ true none).1 = 0 ∧
    (cGlamfit repaired true false ⟨good.data, [2, 0], good.knots, [true, true], [0, 0], 1⟩ true none).1 = 1 ∧
    (cGlamfit repaired false false ⟨good.data, [2, 0], good.knots, [true, true], [0, 3], 1⟩ true none).1 = 1 := by decide


/-! ## The validator against each modelled consumer

What the repaired sanity block accepts satisfies the precondition of every consumer behind it, for all argument
shapes (any number of dimensions, any list lengths — the hypotheses are only "the block fell through" and the
well-formedness of the C struct that no code can check).  One theorem per consumer, stated on the consumer's own
definition, plus the exactness of the penalty-order bound for the stack arrays. -/

/-- weights ↔ data, and the broadcast rules: `smoothing` and `penaltyOrder` have one entry or one per dimension, and
    the entry `fit` picks for dimension `i` exists. -/
theorem accepted_shapes (a : Args) (hc : fitChecks repaired a = .ok) :
    a.nweights = a.data.rows ∧ a.coordLens.length = a.data.ndim ∧ a.orders.length = a.data.ndim ∧
    a.knots.length = a.data.ndim ∧
    (∀ i, i < a.data.ndim → a.smoothIdx i < a.smoothNZ.length ∧ a.penIdx i < a.penalty.length) ∧
    (a.monodim = noMonodim ∨ a.monodim < a.data.ndim) := by
  have hn := checks_imply_needs a hc
  exact ⟨hn.nweights, hn.ncoords, hn.norders, hn.nknotvecs,
    fun i hi => ⟨smoothIdx_lt hn.nsmooth hi, penIdx_lt hn.npenalty hi⟩, hn.monodim⟩

/-- `bsplinebasis` (and `bspline` under it) for dimension `i`: reads `coords[i][0 .. ranges[i])`, the knots
    `[col .. col+order+1]` and writes the `ranges[i] × nsplines` cells — all in bounds. -/
theorem accepted_bsplinebasis_safe (a : Args) (hc : fitChecks repaired a = .ok) (i : Nat) (hi : i < a.data.ndim) :
    a.rangeOf i ≤ a.coordLen i ∧ sortedB (a.knotsAt i) = true ∧ 2 * a.ordAt i + 2 ≤ a.nkAt i ∧
    bsplineBasis (a.nkAt i) (a.rangeOf i) (a.coordLen i) (a.ordAt i) = .ok := by
  have hn := checks_imply_needs a hc
  have := hn.knots_len i hi
  exact ⟨hn.coord_len i hi, hn.sorted i hi, this, bsplineBasis_ok (by omega) (hn.coord_len i hi)⟩

/-- `divided_diffs` as `calc_penalty` calls it for dimension `i` and any row of the difference matrix: the penalty
    order is at most the spline order (hence at most the `order+1` cells of `a`, `b`), and the recursion stays inside
    `a`, `b`, `divd` and the knot vector. -/
theorem accepted_divided_diffs_safe (a : Args) (hc : fitChecks repaired a = .ok) (i : Nat) (hi : i < a.data.ndim)
    (row : Nat) (hrow : row < a.nsplAt i - a.penAt i) :
    a.penAt i ≤ a.ordAt i ∧
    dividedDiffs (a.ordAt i + 1) (a.nkAt i) (a.ordAt i) (a.penAt i) row (a.penAt i + 1) = .ok := by
  have hn := checks_imply_needs a hc
  have hk := hn.knots_len i hi
  have hp := hn.pen_le i hi
  have hs : a.nsplAt i = a.nkAt i - a.ordAt i - 1 := nsplinesOf_eq (by omega)
  rw [hs] at hrow
  exact ⟨hp, dividedDiffs_ok (by omega) _ _ _ (by omega) (by omega) (by omega) (fun _ => by omega)⟩

/-- **The bound of the stack arrays is exact**: with `a[L], b[L]`, a penalty order above `L` always overruns them
    (the read `a[porder-1]`), whatever knots and output array — so `porder ≤ order+1` is what memory safety needs
    (fixes/C13-4 made `L = order+1`), and the sanity block's `porder ≤ order` is the stricter, numerically meaningful
    bound (`porder = order+1` divides by `order-(porder-1) = 0`). -/
theorem divided_diffs_bound_exact (L nk order p j outLen : Nat) (h : L ≤ p) :
    dividedDiffs L nk order (p+1) j outLen ≠ .ok := by
  intro hok
  simp only [dividedDiffs, seqAll_cons_ok, seqAll_nil, rd_ok_iff] at hok
  have := hok.2.2.2.2.2.2.2.2.1
  omega

/-- … while `porder = order+1` still fits them (for the repaired `order+1` cells). -/
theorem divided_diffs_order_plus_one_fits (nk order j : Nat) (h : j + 2 * order + 1 < nk) :
    dividedDiffs (order + 1) nk order (order + 1) j (order + 2) = .ok :=
  dividedDiffs_ok (by omega) _ _ _ (by omega) (by omega) (by omega) (fun _ => by omega)

/-- the monotone tail of `glamfit_complex`: the requested dimension exists, the cumulative sums stay inside the
    coefficient array -/
theorem accepted_monotone_tail_safe (a : Args) (hc : fitChecks repaired a = .ok) (hm : a.monodim ≠ noMonodim) :
    a.monodim < a.data.ndim ∧ monoTail ((List.range a.data.ndim).map a.nsplAt) a.monodim = .ok := by
  have hn := checks_imply_needs a hc
  have hlt : a.monodim < a.data.ndim := by rcases hn.monodim with h | h; exact absurd h hm; exact h
  exact ⟨hlt, monoTail_ok _ _ (by simpa using hlt)⟩

example : fitChecks repaired good = .ok ∧ (1 : Nat) < good.data.ndim ∧ (0 : Nat) < good.nsplAt 0 - good.penAt 0 ∧
    good.monodim ≠ noMonodim ∧ (0 : Nat) + 2 * 1 + 1 < 5 := by decide

/-! ## Integer widths: from the assumption `SizesFit` to the decidable predicate `NoWrapB`

`fitBodyW` (Model/FitEntry.lean) is `fitBody` with the C integer types.  `NoWrapB a` is a decidable condition on the
arguments alone.  Proved: it implies the former assumption; together with what the sanity block establishes it makes
`fitBodyW` fall through; nothing after the sanity block throws an argument error; the sanity block does **not** imply
it (`head_basis_counter_overflows`, confirmed on the real code: UBSan `signed integer overflow` in bsplinebasis,
SIGSEGV in the as-shipped build); and its `bsplinebasis` clause cannot be dropped (`basis_clause_necessary`). -/

/-- the former standing assumption follows from the decidable predicate -/
theorem noWrap_imply_sizesFit (a : Args) (hw : NoWrapB a = true) : SizesFit a := by
  obtain ⟨_, h, _⟩ := (noWrapB_iff a).mp hw
  intro i hi
  have := (h i hi).1
  have hI : I32 < U32 := by simp [I32, U32]
  omega

/-- every spline count is positive once the sanity block has passed -/
theorem needs_nspl_pos (a : Args) (hn : Needs a) : ∀ x ∈ (List.range a.data.ndim).map a.nsplAt, 0 < x := by
  intro x hx
  obtain ⟨i, hi, rfl⟩ := List.mem_map.mp hx
  have hi' : i < a.data.ndim := List.mem_range.mp hi
  have := hn.knots_len i hi'
  show 0 < nsplinesOf (a.nkAt i) (a.ordAt i)
  rw [nsplinesOf_eq (by omega)]; omega

/-- **needs_noWrap_imply_safeW.**  Under `Needs` and the size condition, every array access, every stack-array bound
    *and every `int`/`long` computation* of the modelled routines is in range, and no unsigned quantity wraps — for
    all dimensions, orders, knot counts and grid sizes that satisfy the (decidable) condition. -/
theorem needs_noWrap_imply_safeW (a : Args) (hwf : a.data.WF) (hn : Needs a) (hw : NoWrapB a = true) :
    fitBodyW repaired a = .ok := by
  have hpos := needs_nspl_pos a hn
  obtain ⟨n1, n2, n3, n4, n5, n6, n7, n8, n9, n10, n11, n12, n13, n14⟩ := hn
  obtain ⟨w1, w2, w3⟩ := (noWrapB_iff a).mp hw
  have hw1 : wsub32 a.data.ndim 1 = a.data.ndim - 1 := wsub32_of_le n1
  have hns : ∀ i, i < a.data.ndim → nsplinesOf (a.nkAt i) (a.ordAt i) = a.nkAt i - a.ordAt i - 1 :=
    fun i hi => nsplinesOf_eq (by have := n10 i hi; omega)
  simp only [fitBodyW, repaired, seqAll_cons_ok, seqAll_nil, forN_ok_iff, rd_ok_iff, when_ok_iff, inU32_ok_iff,
    and_true, hw1]
  refine ⟨w1, fun j hj => by omega, fun i hi => by omega, fun i hi => by omega, by omega,
    fun i hi => ⟨by omega, by omega, by omega⟩, by omega, by omega, fun i hi => by omega, ?_, ?_, ?_, ?_⟩
  · intro i hi
    have := n10 i hi
    rw [hns i hi]; exact ⟨by omega, by omega⟩
  · intro i hi
    refine ⟨penIdx_lt n12 hi, smoothIdx_lt n11 hi, fun _ => ?_⟩
    have := n10 i hi
    exact calcPenaltyW_ok (by simp) hi (by rw [range_map_getD _ hi]; exact hns i hi) this (n13 i hi) rfl (w2 i hi).1
  · intro i hi
    have := n10 i hi
    exact ⟨by rw [hwf.ranges_len]; exact hi, bsplineBasisW_ok (by omega) (n6 i hi) (w2 i hi).1 (w2 i hi).2⟩
  · intro hm
    have hne : a.monodim ≠ noMonodim := by simpa using hm
    exact monoTailW_ok _ _ (by simp only [List.length_map, List.length_range]; omega) hpos w3

/-- … in terms of the validator: whatever the repaired sanity block accepts and satisfies the size condition is safe. -/
theorem accepted_noWrap_imply_safeW (a : Args) (hwf : a.data.WF) (hc : fitChecks repaired a = .ok)
    (hw : NoWrapB a = true) : fitBodyW repaired a = .ok :=
  needs_noWrap_imply_safeW a hwf (checks_imply_needs a hc) hw

/-- Nothing behind the sanity block throws an argument error (all `std::logic_error`s come first). -/
theorem body_never_rejects (c : Cfg) (a : Args) (e : Err) : fitBodyW c a ≠ .reject e := noRej_fitBodyW c a e

/-- Under the size condition the table holds the strides the `Nat` model says (no `uint64_t` product wrapped). -/
theorem noWrap_shape_eq (a : Args) (hn : Needs a) (hw : NoWrapB a = true) : fitShapeW a = fitShape a := by
  obtain ⟨_, _, w3⟩ := (noWrapB_iff a).mp hw
  have hIU : I64 < U64 := by simp [I64, U64]
  unfold fitShapeW
  have : stridesOfW (fitShape a).naxes = (fitShape a).strides :=
    stridesOfW_eq (by show ncoeffs a < U64; omega) (needs_nspl_pos a hn)
  rw [this]

/-- **basis_clause_necessary.**  The `bsplinebasis` clause of `NoWrapB` cannot be dropped: if in some dimension the
    dense basis matrix has 2^31 or more cells, the `int` counter `k` of bsplinebasis overflows (or an earlier
    statement already went wrong) although the sanity block accepted the arguments. -/
theorem basis_clause_necessary (a : Args) (i : Nat) (hi : i < a.data.ndim)
    (hbig : I32 ≤ a.rangeOf i * a.nsplAt i) : ∃ f, fitBodyW repaired a = .fault f := by
  refine fault_of_not_ok (fun hok => ?_) (noRej_fitBodyW _ _)
  simp only [fitBodyW, seqAll_cons_ok, seqAll_nil, forN_ok_iff] at hok
  have := (hok.2.2.2.2.2.2.2.2.2.2.2.1 i hi).2.1
  exact bsplineBasisW_not_ok hbig this

/-- 1-d, order 0, 32770 knots `0..32769` (32769 basis functions), 65536 abscissae, one data point, no smoothing:
    a consistent argument tuple whose dense basis matrix has 2^31 + 65536 cells (16 GiB). -/
def wBigBasis : Args := uniArgs 1 32770 0 65536 noMonodim

/-- **The sanity block does not imply the size condition** (finding, fixes/C13-7.diff): `wBigBasis` is accepted and
    consistent, violates only the `bsplinebasis` clause, and the counter overflows.  On the real code: UBSan
    `signed integer overflow: 2147483647 + 1 cannot be represented in type 'int'` at splineutil.c:125; the as-shipped
    build dies with SIGSEGV (`basis->x[k]` with `k = -2^31`). -/
theorem head_basis_counter_overflows :
    wBigBasis.data.WF ∧ fitChecks repaired wBigBasis = .ok ∧ Needs wBigBasis ∧ NoWrapB wBigBasis = false ∧
    fitBody repaired wBigBasis = .ok ∧ ∃ f, fitBodyW repaired wBigBasis = .fault f := by
  have hc : fitChecks repaired wBigBasis = .ok := uni_checks (by omega) (by omega) (by omega) (Or.inl rfl)
  have hn := checks_imply_needs _ hc
  have h0 : (0 : Nat) < wBigBasis.data.ndim := by decide
  have hr : wBigBasis.rangeOf 0 = 65536 := uni_rangeOf (by omega)
  have hs : wBigBasis.nsplAt 0 = 32769 := uni_nsplAt (by omega) (by omega)
  have hk : wBigBasis.nkAt 0 = 32770 := uni_nkAt (by omega)
  have hbig : I32 ≤ wBigBasis.rangeOf 0 * wBigBasis.nsplAt 0 := by rw [hr, hs]; decide
  refine ⟨uni_wf, hc, hn, ?_, ?_, basis_clause_necessary _ 0 h0 hbig⟩
  · cases h : NoWrapB wBigBasis with
    | false => rfl
    | true =>
      have := ((noWrapB_iff _).mp h).2.1 0 h0
      omega
  · refine needs_imply_safe _ uni_wf ?_ hn
    intro i hi
    have : i = 0 := by have : i < 1 := hi; omega
    subst this; rw [hk]; decide

/-- **With the proposed repair** (fixes/C13-7.diff: `size_t row, col, k`) the clause weakens from "fewer than 2^31 cells"
    to "the cell count fits `size_t`": `bsplinebasis` is then safe for every accepted dimension whose knot vector is
    shorter than 2^31 — in particular for `wBigBasis` (confirmed on the real code: the repaired build completes the
    call under ASan+UBSan without a report). -/
theorem proposed_basis_counter_safe (a : Args) (hc : fitChecks repaired a = .ok) (i : Nat) (hi : i < a.data.ndim)
    (hnk : a.nkAt i < I32) (hcells : a.rangeOf i * a.nsplAt i < U64) :
    bsplineBasisW64 (a.nkAt i) (a.rangeOf i) (a.coordLen i) (a.ordAt i) = .ok := by
  have hn := checks_imply_needs a hc
  have := hn.knots_len i hi
  exact bsplineBasisW64_ok (by omega) (hn.coord_len i hi) hnk hcells

theorem proposed_basis_counter_safe_witness :
    bsplineBasisW64 (wBigBasis.nkAt 0) (wBigBasis.rangeOf 0) (wBigBasis.coordLen 0) (wBigBasis.ordAt 0) = .ok := by
  have hk : wBigBasis.nkAt 0 = 32770 := uni_nkAt (by omega)
  have hr : wBigBasis.rangeOf 0 = 65536 := uni_rangeOf (by omega)
  have hs : wBigBasis.nsplAt 0 = 32769 := uni_nsplAt (by omega) (by omega)
  exact proposed_basis_counter_safe _ head_basis_counter_overflows.2.1 0 (by decide) (by rw [hk]; decide)
    (by rw [hr, hs]; decide)

/-- 8 dimensions with 256 basis functions each: consistent, accepted, and `ncoeffs = strides[0]*naxes[0]` wraps to 0 —
    the table would describe 2^64 coefficients and own none.  (On the real code this call ends in "GLAM fit failed"
    and an empty table, without a sanitizer report: the product clause of `NoWrapB` is sufficient, not necessary.) -/
def wWrap : Args := uniArgs 8 257 0 1 noMonodim

theorem head_ncoeffs_wraps :
    fitChecks repaired wWrap = .ok ∧ ncoeffs wWrap = 2^64 ∧ ncoeffsW wWrap = 0 ∧ NoWrapB wWrap = false := by
  have hc : fitChecks repaired wWrap = .ok := uni_checks (by omega) (by omega) (by omega) (Or.inl rfl)
  have hn : ncoeffs wWrap = 2^64 := by
    have : ncoeffs wWrap = (257 - 0 - 1) ^ 8 := uni_ncoeffs (by omega)
    exact this.trans (by decide)
  refine ⟨hc, hn, ?_, ?_⟩
  · unfold ncoeffsW
    rw [hn]; exact Nat.mod_self _
  · cases h : NoWrapB wWrap with
    | false => rfl
    | true =>
      have := ((noWrapB_iff _).mp h).2.2
      rw [hn] at this
      simp [I64] at this

/-- `NoWrapB` holds for the consistent example of this file; the safety theorem applies to it -/
example : NoWrapB good = true ∧ fitBodyW repaired good = .ok := by
  have hwf : good.data.WF := ⟨rfl, rfl, by decide⟩
  have hc : fitChecks repaired good = .ok := by decide
  have hw : NoWrapB good = true := by decide
  exact ⟨hw, accepted_noWrap_imply_safeW _ hwf hc hw⟩

/-! ## The whole member function: occupied table, failure after the sanity block

`fitEntry c h a x t` is `splinetable::fit` from its first to its last statement (Model/FitEntry.lean); `head` = the code
in /repo (refuses a populated table, `storage_guard`), `upstream` = without the two C20 repairs. -/

/-- **entry_occupied_refused** (C20's "fit refuses an occupied table", for every argument tuple, valid or not). -/
theorem entry_occupied_refused (c : Cfg) (a : Args) (x : Ext) (s : Shape) :
    fitEntry c head a x (some s) = (.occupied, some s) := by
  simp [fitEntry, head]

/-- **entry_failure_leaves_unchanged.**  At HEAD *every* call that does not succeed — occupied table, argument error,
    allocation failure, GLAM failure — leaves the table exactly as it was (model state equality), whatever the code
    of the sanity block (`c`) is. -/
theorem entry_failure_leaves_unchanged (c : Cfg) (a : Args) (x : Ext) (t : Tbl)
    (hne : (fitEntry c head a x t).1 ≠ .ok) (hnf : (fitEntry c head a x t).1.isFault = false) :
    (fitEntry c head a x t).2 = t := by
  cases t with
  | some s => rw [entry_occupied_refused]
  | none =>
    unfold fitEntry at hne hnf ⊢
    simp only [head, Option.isSome_none, Bool.and_false, Bool.false_eq_true, if_false] at hne hnf ⊢
    cases hc : fitChecks c a with
    | reject e => rfl
    | fault f => rfl
    | ok =>
      simp only [hc] at hne hnf ⊢
      cases hb : fitBodyW c a with
      | reject e => exact absurd hb (noRej_fitBodyW c a e)
      | fault f => simp [hb, Verdict.isFault] at hnf
      | ok =>
        simp only [hb] at hne ⊢
        cases x with
        | done => simp at hne
        | badAlloc => rfl
        | glamFailed => rfl

/-- **entry_never_faults** — `fit_never_faults` for the whole member function and with the integer widths, under the
    decidable size condition instead of `SizesFit`. -/
theorem entry_never_faults (h : Head) (a : Args) (hwf : a.data.WF) (hw : NoWrapB a = true) (x : Ext) (t : Tbl) :
    (fitEntry repaired h a x t).1.isFault = false := by
  unfold fitEntry
  split
  · rfl
  · cases hc : fitChecks repaired a with
    | reject e => rfl
    | fault f => have := checks_never_fault a hwf; rw [hc] at this; simp [Out.isFault] at this
    | ok =>
      simp only
      rw [accepted_noWrap_imply_safeW a hwf hc hw]
      cases x <;> rfl

/-- **entry_ok_iff.**  The call succeeds exactly when the table is empty, the arguments are consistent and nothing
    external fails; the table is then the one `fitShape` describes. -/
theorem entry_ok_iff (a : Args) (hwf : a.data.WF) (hw : NoWrapB a = true) (x : Ext) (t : Tbl) :
    (fitEntry repaired head a x t).1 = .ok ↔ (t = none ∧ Needs a ∧ x = .done) := by
  constructor
  · intro hok
    cases t with
    | some s => rw [entry_occupied_refused] at hok; cases hok
    | none =>
      unfold fitEntry at hok
      simp only [head, Option.isSome_none, Bool.and_false, Bool.false_eq_true, if_false] at hok
      cases hc : fitChecks repaired a with
      | reject e => simp [hc] at hok
      | fault f => simp [hc] at hok
      | ok =>
        refine ⟨rfl, checks_imply_needs a hc, ?_⟩
        simp only [hc, accepted_noWrap_imply_safeW a hwf hc hw] at hok
        cases x <;> simp_all
  · rintro ⟨rfl, hn, rfl⟩
    have hc := needs_imply_checks a hwf hn
    simp [fitEntry, head, hc, needs_noWrap_imply_safeW a hwf hn hw]

theorem entry_ok_table (a : Args) (hwf : a.data.WF) (hw : NoWrapB a = true) (hn : Needs a) :
    fitEntry repaired head a .done none = (.ok, some (fitShape a)) := by
  have hc := needs_imply_checks a hwf hn
  simp [fitEntry, head, hc, needs_noWrap_imply_safeW a hwf hn hw, noWrap_shape_eq a hn hw]

/-- **entry_solver_failure_leaves_empty** (the failure paths behind the sanity block).  Consistent arguments on an
    empty table, and an allocation or `glamfit_complex` fails: the caller gets `bad_alloc` resp. "GLAM fit failed",
    and the table is empty again — no half-built table is ever observable at HEAD. -/
theorem entry_solver_failure_leaves_empty (a : Args) (hwf : a.data.WF) (hw : NoWrapB a = true) (hn : Needs a) :
    fitEntry repaired head a .badAlloc none = (.badAlloc, none) ∧
    fitEntry repaired head a .glamFailed none = (.glam, none) := by
  have hc := needs_imply_checks a hwf hn
  constructor <;> simp [fitEntry, head, hc, needs_noWrap_imply_safeW a hwf hn hw]

/-- **entry_inconsistent_rejected.**  Inconsistent arguments on an empty table: a `std::logic_error` of the sanity
    block, whatever would have happened later, and the table stays empty. -/
theorem entry_inconsistent_rejected (h : Head) (a : Args) (hwf : a.data.WF) (x : Ext) (hn : ¬ Needs a) :
    ∃ e, e ≠ Err.glam ∧ fitEntry repaired h a x none = (.arg e, none) := by
  obtain ⟨e, he, hf⟩ := inconsistent_rejected a hwf true none hn
  refine ⟨e, he, ?_⟩
  unfold fit at hf
  cases hc : fitChecks repaired a with
  | ok => rw [hc] at hf; simp only at hf; split at hf <;> simp_all
  | fault f => rw [hc] at hf; simp at hf
  | reject e' =>
    rw [hc] at hf
    have : e' = e := by simpa using hf
    subst this
    simp [fitEntry, hc]

/-- Link to the definitions of the first part: on an empty table, under the size condition, `fitEntry` without the two
    C20 repairs is `fit` (verdicts renamed), so every theorem about `fit repaired` speaks about the entry point. -/
theorem entry_upstream_eq_fit (a : Args) (hwf : a.data.WF) (hw : NoWrapB a = true) (x : Ext) (t : Tbl) :
    fitEntry repaired upstream a x t =
      (match (fit repaired a (decide (x = .done)) t).1 with
        | .ok => .ok
        | .reject .glam => (if x = .badAlloc then .badAlloc else .glam)
        | .reject e => .arg e
        | .fault f => .fault f,
       (fit repaired a (decide (x = .done)) t).2) := by
  unfold fitEntry fit
  simp only [upstream, Bool.false_and, Bool.false_eq_true, if_false]
  cases hc : fitChecks repaired a with
  | reject e =>
    simp only
    have : e ≠ .glam := by
      intro he; subst he
      by_cases hn : Needs a
      · rw [needs_imply_checks a hwf hn] at hc; cases hc
      · obtain ⟨e', he', hf⟩ := inconsistent_rejected a hwf true none hn
        simp [fit, hc] at hf; exact he' hf.symm
    cases e <;> simp_all
  | fault f => rfl
  | ok =>
    have hn := checks_imply_needs a hc
    simp only [needs_noWrap_imply_safeW a hwf hn hw, needs_imply_safe a hwf (noWrap_imply_sizesFit a hw) hn,
      noWrap_shape_eq a hn hw]
    cases x <;> simp

/-- The C wrapper on top of the entry point: non-zero exactly when a handle is null or the call did not succeed … -/
theorem cwrapperEntry_nonzero_iff (c : Cfg) (h : Head) (tableNull dataNull : Bool) (ca : CArgs) (x : Ext) (t : Tbl) :
    (cGlamfitEntry c h tableNull dataNull ca x t).1 ≠ 0 ↔
      (tableNull = true ∨ dataNull = true ∨ (fitEntry c h ca.view x t).1 ≠ .ok) := by
  unfold cGlamfitEntry
  cases tableNull <;> cases dataNull <;> simp
  cases hf : fitEntry c h ca.view x t with
  | mk o t' => cases o <;> simp

/-- … and at HEAD a non-zero return (that is not a memory fault) leaves the table behind the handle unchanged, for
    every reason of failure. -/
theorem cwrapperEntry_failure_unchanged (c : Cfg) (tableNull dataNull : Bool) (ca : CArgs) (x : Ext) (t : Tbl)
    (hnz : (cGlamfitEntry c head tableNull dataNull ca x t).1 ≠ 0)
    (hnf : (fitEntry c head ca.view x t).1.isFault = false) :
    (cGlamfitEntry c head tableNull dataNull ca x t).2 = t := by
  have hiff := (cwrapperEntry_nonzero_iff c head tableNull dataNull ca x t).mp hnz
  unfold cGlamfitEntry at hnz ⊢
  by_cases hnull : (tableNull || dataNull) = true
  · simp [hnull]
  · have hn' : tableNull = false ∧ dataNull = false := by
      cases tableNull <;> cases dataNull <;> simp_all
    have hne : (fitEntry c head ca.view x t).1 ≠ .ok := by
      rcases hiff with h | h | h
      · simp [hn'.1] at h
      · simp [hn'.2] at h
      · exact h
    have := entry_failure_leaves_unchanged c ca.view x t hne hnf
    simp only [hn'.1, hn'.2, Bool.or_self, Bool.false_eq_true, if_false]
    cases hf : fitEntry c head ca.view x t with
    | mk o t' =>
      rw [hf] at this
      cases o <;> simpa using this

/-- Without the two C20 repairs: a populated table is overwritten (its storage leaks, C20), and a GLAM failure leaves
    the new, unusable table behind. -/
theorem upstream_entry_witnesses :
    fitEntry repaired upstream good .done (some (fitShape wOrderZero)) = (.ok, some (fitShape good)) ∧
    fitEntry repaired upstream good .glamFailed none = (.glam, some (fitShape good)) ∧
    fitEntry repaired head good .glamFailed none = (.glam, none) ∧
    fitEntry repaired head good .done (some (fitShape wOrderZero)) = (.occupied, some (fitShape wOrderZero)) := by
  decide

/-- non-vacuity of the entry-point theorems: `good` satisfies their hypotheses, `wPenalty` is inconsistent -/
example : good.data.WF ∧ NoWrapB good = true ∧ Needs good ∧ ¬ Needs wPenalty ∧
    (fitEntry repaired head wPenalty .done (some (fitShape good))).1 ≠ .ok ∧
    (fitEntry repaired head wPenalty .done (some (fitShape good))).1.isFault = false ∧
    (cGlamfitEntry repaired head false false ⟨good.data, [2, 0], good.knots, [true, true], [0, 3], 1⟩ .done none).1 ≠ 0 := by
  refine ⟨⟨rfl, rfl, by decide⟩, by decide, checks_imply_needs _ (by decide), fun h => ?_, by decide, by decide,
    by decide⟩
  have := h.pen_le 0 (by decide)
  revert this; decide


/-! ## Agreement with C20's life-cycle model

`PsV.Lifecycle.fit` (Model/Lifecycle.lean, property C20) abstracts the arguments of `fit` to a flag `valid`.  The
theorem gives that flag its meaning (`toLifecycle`: `valid` = the repaired sanity block accepts = `Needs`) and shows that
the two hand-written models of `splinetable::fit` agree where they overlap: same success/exception verdict, and the
table is non-empty afterwards in the one exactly when it is in the other.  (Allocation failures are a countdown in
C20's model and `Ext.badAlloc` here; the theorem is about the runs without one.) -/

theorem entry_agrees_with_lifecycle (a : Args) (hwf : a.data.WF) (hw : NoWrapB a = true) (x : Ext)
    (hx : x ≠ .badAlloc) (t : PsV.Lifecycle.Tab) (tb : Tbl) (hrel : tb.isSome = true ↔ t.ndim ≠ 0) :
    ((PsV.Lifecycle.fit PsV.Lifecycle.Cfg.head t none (toLifecycle a x)).res = .ok ↔
        (fitEntry repaired head a x tb).1 = .ok) ∧
    ((PsV.Lifecycle.fit PsV.Lifecycle.Cfg.head t none (toLifecycle a x)).res = .threw ↔
        (fitEntry repaired head a x tb).1 ≠ .ok) ∧
    ((PsV.Lifecycle.fit PsV.Lifecycle.Cfg.head t none (toLifecycle a x)).tab.ndim ≠ 0 ↔
        (fitEntry repaired head a x tb).2.isSome = true) := by
  by_cases ht : t.ndim = 0
  · -- empty table on both sides
    have htb : tb = none := by
      cases tb with
      | none => rfl
      | some s => exact absurd ht (hrel.mp rfl)
    subst htb
    by_cases hn : Needs a
    · have hc := needs_imply_checks a hwf hn
      have hb := needs_noWrap_imply_safeW a hwf hn hw
      have hlen := toLifecycle_dims_length a x
      have hnd := hn.ndim_pos
      have hd : (toLifecycle a x).dims ≠ [] := by
        intro h; rw [h] at hlen; simp at hlen; omega
      have hv : (toLifecycle a x).valid = true := by simp [toLifecycle, hc]
      rw [lifecycle_fit_empty_valid t _ ht hv hd]
      cases x with
      | badAlloc => exact absurd rfl hx
      | done =>
        obtain ⟨h1, h2⟩ := build_ok_of_complete true t (PsV.Lifecycle.fitSteps (toLifecycle a .done))
          (PsV.Lifecycle.fitTarget (toLifecycle a .done) t) (toLifecycle a .done).dims.length
          (fitSteps_complete _ (by simp [toLifecycle]))
        rw [h1, h2]
        have he : fitEntry repaired head a .done none = (.ok, some (fitShapeW a)) := by
          simp [fitEntry, head, hc, hb]
        rw [he]
        simp only [PsV.Lifecycle.fitTarget, hlen]
        refine ⟨by simp, by simp, by simp; omega⟩
      | glamFailed =>
        obtain ⟨h1, h2⟩ := build_guard_of_failed t (PsV.Lifecycle.fitSteps (toLifecycle a .glamFailed))
          (PsV.Lifecycle.fitTarget (toLifecycle a .glamFailed) t) (toLifecycle a .glamFailed).dims.length
          (fitSteps_failed _ (by simp [toLifecycle]))
        rw [h1, h2, (entry_solver_failure_leaves_empty a hwf hw hn).2]
        simp [ht]
    · have hv : (toLifecycle a x).valid = false := by
        simp only [toLifecycle, decide_eq_false_iff_not]
        exact fun hc => hn (checks_imply_needs a hc)
      obtain ⟨e, _, he⟩ := entry_inconsistent_rejected head a hwf x hn
      rw [he, lifecycle_fit_empty_invalid t _ ht hv]
      simp [ht]
  · -- populated table: refused by both
    have htb : tb.isSome = true := hrel.mpr ht
    obtain ⟨s, rfl⟩ := Option.isSome_iff_exists.mp htb
    rw [entry_occupied_refused, lifecycle_fit_occupied t _ ht]
    simp [ht]

/-- non-vacuity: an empty and a fitted life-cycle table, related to `none` / `some _` -/
example : good.data.WF ∧ NoWrapB good = true ∧ Ext.glamFailed ≠ Ext.badAlloc ∧
    ((none : Tbl).isSome = true ↔ PsV.Lifecycle.Tab.empty.ndim ≠ 0) ∧
    ((some (fitShape good) : Tbl).isSome = true ↔ ({ ndim := 2 } : PsV.Lifecycle.Tab).ndim ≠ 0) ∧
    (PsV.Lifecycle.fit PsV.Lifecycle.Cfg.head PsV.Lifecycle.Tab.empty none (toLifecycle good .done)).res = .ok := by
  refine ⟨⟨rfl, rfl, by decide⟩, by decide, by decide, by decide, by decide, by decide⟩


/-! ## Accepted, but the solver's precondition cannot hold (link to C09 / C10)

The sanity block checks shapes, not well-posedness.  `UnderdeterminedB a` (no smoothing in any dimension, fewer data
points than coefficients) is a decidable class of argument tuples that the sanity block accepts although the normal
matrix `BᵀWB` of *every* numerical fit problem of that shape is singular — the precondition "positive definite" of
C09's `C09_fit_is_minimiser` / of `cholesky_solve` fails whatever the knots, abscissae, weights and data are.  What
the code then does is not an argument error (observed: `cholesky_solve` returns non-finite or arbitrary coefficients
with status 0; `fit` reports success) and belongs to C09/C10; if the solver does report failure, the table is empty
again (`entry_solver_failure_leaves_empty`). -/

section wellposed
open PsV PsV.NormalEq PsV.Arith
variable {α : Type} [Field α] [LinearOrder α] [IsStrictOrderedRing α] [A : Arith α] [L : LawfulArith α]

/-- a numerical fit problem (C09's `FitProblem`: knots, abscissae, data rows, expanded smoothing) of the shape of `a` -/
structure InstanceOf (P : FitProblem α) (a : Args) : Prop where
  rows : P.rows.size = a.data.rows
  ncoef : P.ncoef = ncoeffs a
  smooth : (∀ i, i < a.data.ndim → a.smoothAt i = false) → ∀ l ∈ P.smooth, l = 0

/-- **underdetermined_not_wellposed.**  For every numerical instance of an `UnderdeterminedB` argument tuple the
    normal matrix is not positive definite. -/
theorem underdetermined_not_wellposed (a : Args) (hu : UnderdeterminedB a = true) (P : FitProblem α)
    (hP : InstanceOf P a) (hw : ∀ r < P.rows.size, 0 ≤ rowW P r) : ¬ PosDef P.ncoef (Mf P) := by
  simp only [UnderdeterminedB, Bool.and_eq_true, List.all_eq_true, List.mem_range, Bool.not_eq_true',
    decide_eq_true_eq] at hu
  exact underdetermined_not_posDef P hw (hP.smooth hu.1) (by rw [hP.rows, hP.ncoef]; exact hu.2)

end wellposed

/-- 1-d, order 1, knots 0..3 (two coefficients), three abscissae, ONE data point, no smoothing -/
def wUnder : Args := ⟨⟨1, 1, [3], [[0]]⟩, 1, [3], [1], [kn [0, 1, 2, 3]], [false], [1], noMonodim⟩

/-- … is consistent, within the size condition, accepted, and `fit` builds the table when the solver reports success. -/
theorem accepted_underdetermined_exists :
    fitChecks repaired wUnder = .ok ∧ NoWrapB wUnder = true ∧ UnderdeterminedB wUnder = true ∧
    fitEntry repaired head wUnder .done none = (.ok, some (fitShape wUnder)) := by decide

/-- non-vacuity: C09's example problem without smoothing, cut down to its first data row, is an instance of `wUnder` -/
example : InstanceOf ({ PsV.exP0 with rows := #[⟨[0], 1, 1⟩] } : PsV.FitProblem Rat) wUnder ∧
    (∀ r < ({ PsV.exP0 with rows := #[⟨[0], 1, 1⟩] } : PsV.FitProblem Rat).rows.size,
      0 ≤ PsV.rowW ({ PsV.exP0 with rows := #[⟨[0], 1, 1⟩] } : PsV.FitProblem Rat) r) := by
  refine ⟨⟨rfl, by decide, fun _ l hl => ?_⟩, fun r hr => ?_⟩
  · simp [PsV.exP0, PsV.exP] at hl; exact hl
  · have : r = 0 := by simp at hr; omega
    subst this; decide +kernel

end PsV.Fit
