import PsV.Proofs.Search
/-!
# C04 — centre lookup accepts exactly the knot range and brackets the point

Property theorems only.  `α` is any linear order (non-NaN doubles are one); the statements
are about `PsV.searchAxis` / `PsV.searchCenters`, the definitions the driver executes.
-/
namespace PsV
section
variable {α : Type} [LinearOrder α]
attribute [local instance] cmpLO

/-- Well-formed axis, as far as lookup is concerned. -/
structure Axis.WF (a : Axis α) : Prop where
  len : 2 * a.order + 2 ≤ a.nknots
  mono : ∀ i j, i ≤ j → j < a.nknots → a.knots i ≤ a.knots j

/-- What C04 demands of a returned centre. -/
def CenterSpec (a : Axis α) (x : α) (c : Nat) : Prop :=
  a.order ≤ c ∧ c ≤ a.nknots - a.order - 2 ∧
  (x < a.knots a.order → c = a.order) ∧
  (a.knots (a.nknots - a.order - 1) ≤ x → c = a.nknots - a.order - 2) ∧
  (a.knots a.order ≤ x → x < a.knots (a.nknots - a.order - 1) → a.knots c ≤ x ∧ x < a.knots (c+1))

def InRange (a : Axis α) (x : α) : Prop := a.knots 0 < x ∧ x ≤ a.knots (a.nknots - 1)

/-- C04, one axis: rejects exactly outside `(first, last]`; otherwise terminates with a centre
    meeting `CenterSpec`.  Knots beyond index `nknots-1` (the padding) are unconstrained. -/
theorem C04_searchAxis (a : Axis α) (x : α) (h : a.WF) :
    (¬ InRange a x → searchAxis a.order a.nknots a.knots x = .reject) ∧
    (InRange a x → ∃ c, searchAxis a.order a.nknots a.knots x = .ok c ∧ CenterSpec a x c) := by
  obtain ⟨order, nknots, k⟩ := a
  obtain ⟨hn, hmono⟩ := h
  simp only at hn hmono
  simp only [InRange, CenterSpec]
  constructor
  · intro h
    unfold searchAxis
    simp only [Cmp.lt, Cmp.le, Bool.and_eq_true, decide_eq_true_eq, Bool.not_eq_true']
    simp [h]
  · intro ⟨h0, h1⟩
    unfold searchAxis
    simp only [Cmp.lt, Cmp.le, Bool.and_eq_true, decide_eq_true_eq, Bool.not_eq_true']
    simp only [h0, h1, decide_true, Bool.and_self, Bool.not_true, Bool.false_eq_true, if_false]
    by_cases ha : x < k order
    · simp only [ha, if_true]
      refine ⟨order, rfl, Nat.le_refl _, by omega, fun _ => rfl, ?_, ?_⟩
      · intro hb
        have : k order ≤ k (nknots-order-1) := hmono _ _ (by omega) (by omega)
        exact absurd (lt_of_lt_of_le ha (le_trans this hb)) (lt_irrefl _)
      · intro hb; exact absurd ha (not_lt.mpr hb)
    · simp only [ha, if_false]
      by_cases hb : k (nknots-order-1) ≤ x
      · simp only [hb, if_true]
        refine ⟨nknots-order-1-1, rfl, by omega, by omega, fun h => h.elim, fun _ => by omega, ?_⟩
        intro _ hc; exact absurd hb (not_le.mpr hc)
      · simp only [hb, if_false]
        have hx1 : k order ≤ x := not_lt.mp ha
        have hx2 : x < k (nknots-order-1) := not_le.mp hb
        have hx3 : x < k (nknots-2+1) :=
          lt_of_lt_of_le hx2 (hmono _ _ (by omega) (by omega))
        obtain ⟨c, hc1, hc2, hc3, hc4, hc5⟩ :=
          bsearch_spec k x nknots order (nknots-2) (by omega) (by omega) hx1 hx3
        have hcn : c < nknots-order-1 := by
          rcases Nat.lt_or_ge c (nknots-order-1) with h | h
          · exact h
          · exact absurd (lt_of_lt_of_le hx2 (le_trans (hmono _ _ h (by omega)) hc4)) (lt_irrefl _)
        simp only [hc1]
        have hne : c ≠ nknots-order-1 := by omega
        simp only [hne, if_false]
        exact ⟨c, rfl, hc2, by omega, fun h => h.elim, fun h => h.elim, fun _ _ => ⟨hc4, hc5⟩⟩


/-- All coordinates inside their `(first, last]`. -/
def AllInRange : List (Axis α) → List α → Prop
  | [], _ => True
  | _ :: _, [] => False
  | a :: as, x :: xs => InRange a x ∧ AllInRange as xs

def CentersSpec : List (Axis α) → List α → List Nat → Prop
  | [], _, [] => True
  | a :: as, x :: xs, c :: cs => CenterSpec a x c ∧ CentersSpec as xs cs
  | _, _, _ => False

/-- C04, all dimensions: the lookup never diverges; it rejects iff some coordinate is outside its
    range, and otherwise returns one centre per dimension, each meeting `CenterSpec`. -/
theorem C04_searchCenters (axes : List (Axis α)) (xs : List α)
    (hwf : ∀ a ∈ axes, a.WF) :
    (¬ AllInRange axes xs → searchCenters axes xs = .reject) ∧
    (AllInRange axes xs → ∃ cs, searchCenters axes xs = .ok cs ∧ CentersSpec axes xs cs) := by
  induction axes generalizing xs with
  | nil => simp [AllInRange, searchCenters, CentersSpec]
  | cons a as ih =>
    cases xs with
    | nil => simp [AllInRange, searchCenters]
    | cons x xs =>
      have ha := C04_searchAxis a x (hwf a (by simp))
      have ih' := ih xs (fun b hb => hwf b (by simp [hb]))
      by_cases hx : InRange a x
      · obtain ⟨c, hc, hcs⟩ := ha.2 hx
        constructor
        · intro hnot
          have : ¬ AllInRange as xs := fun h => hnot ⟨hx, h⟩
          simp [searchCenters, hc, ih'.1 this]
        · intro ⟨_, hrest⟩
          obtain ⟨cs, hcs1, hcs2⟩ := ih'.2 hrest
          exact ⟨c :: cs, by simp [searchCenters, hc, hcs1], hcs, hcs2⟩
      · constructor
        · intro _; simp [searchCenters, ha.1 hx]
        · intro ⟨h, _⟩; exact absurd h hx

end

/-- The instance the correspondence driver executes (`Option Int`: integer keys order-isomorphic to
    the doubles, `none` = NaN) computes the same function as the linear-order instance above, and
    rejects NaN. -/
theorem C04_driver_instance (order nknots : Nat) (k : Nat → Int) (x : Int) :
    searchAxis order nknots (fun i => some (k i)) (some x)
      = @searchAxis Int (cmpLO Int) order nknots k x := by
  rw [searchAxis_some]

theorem C04_nan_rejected (order nknots : Nat) (k : Nat → Option Int) :
    searchAxis order nknots k none = .reject := searchAxis_nan order nknots k

/-- Non-vacuity: a concrete well-formed axis (order 2, knots 0..6) and an in-range point. -/
example : (⟨2, 7, fun i => (i : Int)⟩ : Axis Int).WF ∧ InRange (⟨2, 7, fun i => (i : Int)⟩ : Axis Int) 3 := by
  refine ⟨⟨by decide, ?_⟩, by simp [InRange]⟩
  intro i j h _; exact Int.ofNat_le.mpr h

end PsV
