import PsV.Props.C04
import PsV.Proofs.ReadsEval
import PsV.Proofs.ReadsGrad
/-!
# C05 — lookup and evaluation are memory-safe for every coordinate vector

* `C05_nan_lookup_rejected`: a NaN coordinate (every comparison false) is rejected before any search;
  with `C04_searchCenters` (non-NaN coordinates: terminates, centres in `[order, nknots-order-2]`)
  the lookup terminates for *every* coordinate and returned centres are in range.
* `C05_eval_reads_owned`: for **every** arithmetic — arbitrary comparison outcomes, so NaN, ±inf,
  denormals, anything — and centres in range, the result of `ndsplineeval` / `ndsplineeval_deriv`
  (bitmask derivatives, arbitrary-order derivatives: `evalModes` with any mode list) is unchanged when
  the knot arrays are altered outside `[-order, nknots+order)` and the coefficient array outside
  `[0, ncoef)`: every index passed to `knots[·]` / `coefficients[·]` is inside owned storage
  (`allocate(nknots+2*order)+order`, `ncoef = strides[0]*naxes[0]`).  All loops of the model are
  structural recursions or fuel-bounded (margin loops: `nknots+1` steps), so they terminate.
* `C05_gradient_reads_owned`: the same for every lane of the value-plus-gradient evaluation
  (`ndsplineeval_gradient`); `C05_gradient_rows_read_owned` is its per-dimension ingredient;
  `C05_gradient_refused`: more than `maxDim-1` dimensions are refused before any lane is touched.
-/
namespace PsV

/-- NaN in any dimension ⇒ the n-dimensional lookup rejects, it never returns centres. -/
theorem C05_nan_lookup_rejected {α : Type} [Cmp α] :
    ∀ (axes : List (Axis (Option α))) (xs : List (Option α)), axes.length = xs.length → none ∈ xs →
      (∀ a ∈ axes, ∀ x, searchAxis a.order a.nknots a.knots x ≠ .nonterm) →
      searchCenters axes xs = .reject := by
  intro axes
  induction axes with
  | nil => intro xs hl hm; cases xs with
    | nil => simp at hm
    | cons _ _ => simp at hl
  | cons a as ih =>
    intro xs hl hm hnt
    cases xs with
    | nil => simp at hl
    | cons x xs =>
      simp only [searchCenters]
      cases x with
      | none => rw [searchAxis_nan]
      | some v =>
        have hm' : none ∈ xs := by simpa using hm
        have hrest := ih xs (by simpa using hl) hm' (fun b hb => hnt b (by simp [hb]))
        rw [hrest]
        cases h : searchAxis a.order a.nknots a.knots (some v) with
        | reject => rfl
        | ok c => rfl
        | nonterm => exact absurd h (hnt a (by simp) _)

variable {α : Type} [A : Arith α]

/-- **Evaluation touches only owned memory**, for every coordinate vector and every arithmetic. -/
theorem C05_eval_reads_owned (T T' : Table α) (xs : List α) (cs : List Nat) (ms : List BasisMode)
    (hne : T.dims ≠ []) (hshape : SameShape T.dims T'.dims) (hrm : RowMajor T.dims)
    (hc : CentersInRange T.dims cs) (hx : T.dims.length = xs.length) (hm : T.dims.length = ms.length)
    (hcoef : AgreeOn T.coef T'.coef 0 ((ncoef T.dims : Int) - 1)) :
    evalModes T xs cs ms = evalModes T' xs cs ms :=
  evalModes_congr T T' xs cs ms hne hshape hrm hc hx hm hcoef

/-- the basis rows of the gradient code read only owned knot storage -/
theorem C05_gradient_rows_read_owned (t t' : Int → α) (nknots : Nat) (x : α) (c n : Nat)
    (hc1 : n ≤ c) (hc2 : c + n + 2 ≤ nknots)
    (h : AgreeOn t t' (-(n : Int)) ((nknots : Int) + n - 1)) :
    bsplineNonzero t nknots x c n = bsplineNonzero t' nknots x c n :=
  bsplineNonzero_congr t t' nknots x c n hc1 hc2 h

/-- **The value-plus-gradient evaluation touches only owned memory**, every lane, every arithmetic. -/
theorem C05_gradient_reads_owned (maxDim : Nat) (T T' : Table α) (xs : List α) (cs : List Nat)
    (hne : T.dims ≠ []) (hshape : SameShape T.dims T'.dims) (hrm : RowMajor T.dims)
    (hc : CentersInRange T.dims cs) (hx : T.dims.length = xs.length)
    (hcoef : AgreeOn T.coef T'.coef 0 ((ncoef T.dims : Int) - 1)) :
    ndsplineevalGradient maxDim T xs cs = ndsplineevalGradient maxDim T' xs cs :=
  ndsplineevalGradient_congr maxDim T T' xs cs hne hshape hrm hc hx (sameShape_length _ _ hshape) hcoef

/-- requests the SIMD layout cannot serve are refused (model of the `throw`) -/
theorem C05_gradient_refused (maxDim : Nat) (T : Table α) (xs : List α) (cs : List Nat)
    (h : T.dims.length + 1 > maxDim) : ndsplineevalGradient maxDim T xs cs = none := by
  simp [ndsplineevalGradient, h]

/-- Non-vacuity of `C05_eval_reads_owned`: a 2-d table (orders 1 and 2) with row-major strides and
centres in range. -/
example : RowMajor ([⟨1, 5, 3, 4, fun _ => A.zero⟩, ⟨2, 7, 4, 1, fun _ => A.zero⟩] : List (Dim α)) ∧
    CentersInRange ([⟨1, 5, 3, 4, fun _ => A.zero⟩, ⟨2, 7, 4, 1, fun _ => A.zero⟩] : List (Dim α)) [2, 3] := by
  refine ⟨⟨rfl, rfl⟩, ⟨by simp, by simp, rfl⟩, ⟨by simp, by simp, rfl⟩, trivial⟩

end PsV
