import PsV.Props.C04
/-!
# C05 — lookup and evaluation are memory-safe for every coordinate vector (first part)

`C05_nan_lookup_rejected`: a NaN coordinate (every comparison false) never reaches the search.
Together with `C04_searchCenters` (every non-NaN coordinate: terminates, centre in
`[order, nknots-order-2]`) this gives: for *every* coordinate the lookup terminates and a returned
centre is in range. The index-range theorems for the evaluation routines are in `PsV.Props.C05b`.
-/
namespace PsV

/-- NaN in any dimension ⇒ the n-dimensional lookup rejects (or has rejected earlier), it never
returns centres and never loops. -/
theorem C05_nan_lookup_rejected {α : Type} [Cmp α] :
    ∀ (axes : List (Axis (Option α))) (xs : List (Option α)), axes.length = xs.length → none ∈ xs →
      (∀ a ∈ axes, ∀ x, searchAxis a.order a.nknots a.knots x ≠ .nonterm) →
      searchCenters axes xs = .reject := by
  intro axes
  induction axes with
  | nil => intro xs hl hm; cases xs with
    | nil => simp at hm
    | cons _ _ => simp at hl
  | cons a as ih =>
    intro xs hl hm hnt
    cases xs with
    | nil => simp at hl
    | cons x xs =>
      simp only [searchCenters]
      cases x with
      | none => rw [searchAxis_nan]
      | some v =>
        have hm' : none ∈ xs := by simpa using hm
        have hrest := ih xs (by simpa using hl) hm' (fun b hb => hnt b (by simp [hb]))
        rw [hrest]
        cases h : searchAxis a.order a.nknots a.knots (some v) with
        | reject => rfl
        | ok c => rfl
        | nonterm => exact absurd h (hnt a (by simp) _)

end PsV
