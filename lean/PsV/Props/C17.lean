import PsV.Proofs.Glam
/-!
# C17 — grid evaluation is the tensor-product B-spline sum, computed by mode products

Property theorems only (helper lemmas and the predicates `IdxIn`, `NdSparse.WF`, `GridTableWF`
live in `PsV/Proofs/Glam.lean`).  The carrier is any ordered field whose `Arith` bundle is lawful;
`Rat` with the instance the compiled driver executes is one.
-/
namespace PsV
open Arith
set_option linter.unusedSectionVars false
section
variable {α : Type} [Field α] [LinearOrder α] [IsStrictOrderedRing α] [A : Arith α] [L : LawfulArith α]

/-! ## 1. the rotated mixed-radix flattening of `slicemultiply` is inverted by its un-flattening -/

/-- For a valid index tuple the un-flattening loop (run with the result's ranges, where entry `dim`
has been replaced) recovers every index other than `dim`; index `dim` becomes the result row. -/
theorem unflatten_flatten (ranges idx : List Nat) (dim g n' : Nat) (hv : IdxIn idx ranges)
    (hd : dim < ranges.length) :
    unflattenIdx (ranges.set dim n') dim g (flattenCol ranges idx dim) = idx.set dim g :=
  unflatten_flatten' ranges idx dim g n' hv hd

/-- The flattened column number is injective on valid index tuples up to the entry `dim`. -/
theorem flattenCol_injective (ranges idx idx' : List Nat) (dim : Nat) (hv : IdxIn idx ranges)
    (hv' : IdxIn idx' ranges) (hd : dim < ranges.length)
    (h : flattenCol ranges idx dim = flattenCol ranges idx' dim) : idx.set dim 0 = idx'.set dim 0 :=
  flattenCol_inj ranges idx idx' dim hv hv' hd h

/-- Non-vacuity: ranges `[2,3,2]`, index `[1,2,0]`, `dim = 1`. -/
example : IdxIn [1,2,0] [2,3,2] ∧ 1 < [2,3,2].length ∧
    unflattenIdx ([2,3,2].set 1 5) 1 4 (flattenCol [2,3,2] [1,2,0] 1) = [1,4,0] := by
  refine ⟨⟨rfl, ?_⟩, by decide, by decide⟩
  decide

/-! ## 2. `slicemultiply` is the mode product with `bᵀ` along `dim` -/

/-- An index tuple nobody lists has value zero. -/
theorem get_of_not_listed (s : NdSparse α) (idx : List Nat) (h : ∀ e ∈ s.entries, e.1 ≠ idx) :
    s.get idx = 0 := by
  rw [get_eq_entSum]; exact entSum_eq_zero _ _ h

/-- `slicemultiply(a, b, dim)` succeeds when `b` has as many rows as `a` has indices along `dim`;
the result has range `b.ncol` along `dim`, lists valid indices only, and its value at a valid index
is `Σ_j b[j, idx_dim] · a(idx with entry dim := j)`. -/
theorem slice_is_mode_product (a : NdSparse α) (b : Mat α) (dim : Nat) (ha : a.WF)
    (hd : dim < a.ranges.length) (hb : b.nrow = a.ranges.getD dim 0) :
    ∃ a', sliceMultiply a b dim = some a' ∧ a'.ranges = a.ranges.set dim b.ncol ∧ a'.WF ∧
      ∀ idx, IdxIn idx a'.ranges →
        a'.get idx = ∑ j ∈ Finset.range b.nrow, b.val j (idx.getD dim 0) * a.get (idx.set dim j) :=
  sliceMultiply_spec a b dim ha hd hb

/-- The dimension check of `slicemultiply` (`return -1`). -/
theorem slice_dim_mismatch (a : NdSparse α) (b : Mat α) (dim : Nat)
    (hb : b.nrow ≠ a.ranges.getD dim 0) : sliceMultiply a b dim = none := by
  unfold sliceMultiply; rw [if_pos hb]

/-! ## 3. `grideval` is the tensor-product sum at every grid point -/

/-- The basis matrix entries of `bsplinebasis` (guarded recursion of splineutil.c) are the
Cox–de Boor functions with the right-continuous order-0 indicator and `a/0 = 0`. -/
theorem bsplineG_is_coxDeBoor (t : Int → α) (x : α) (n : Nat) (i : Int) :
    bsplineG t x n i = Bind (indR t x) t x n i :=
  bsplineG_eq_Bind t x n i

/-- For a well-formed dimension list (`GridTableWF`: non-empty, `naxes = nknots - order - 1`,
row-major strides) and one coordinate vector per dimension, `grideval` succeeds, the result has one
index per coordinate along every dimension, lists valid indices only, and its value at the grid
index `g` is the sum over all stored coefficients of coefficient × Π_d B_d(x_d) at the point
`x_d = coords_d[g_d]` (right-continuous basis in every dimension). -/
theorem grideval_eq_spec (dims : List (Dim α)) (coef : Int → α) (coords : List (List α))
    (hwf : GridTableWF dims) (hlen : coords.length = dims.length) :
    ∃ nd, gridEval dims coef coords = some nd ∧ nd.ranges = coords.map List.length ∧ nd.WF ∧
      ∀ g xs, gridPoint coords g = some xs → nd.get g = gridSpec dims coef xs :=
  gridEval_spec dims coef coords hwf hlen

/-- Wrong number of coordinate vectors: the exception of `grideval`. -/
theorem grideval_wrong_arity (dims : List (Dim α)) (coef : Int → α) (coords : List (List α))
    (h : coords.length ≠ dims.length) : gridEval dims coef coords = none := by
  unfold gridEval; rw [if_pos h]

/-! ## 4. grid convention vs. pointwise convention -/

/-- The grid sum is the pointwise specification `specEval` (value mode in every dimension) whenever
every coordinate is below `knots[naxes]` of its dimension or is not a knot value at all
(`RightContAt`).  The exceptional set — `x ≥ knots[naxes]` *and* `x` equal to some knot — is where
the pointwise convention (C01) switches to the left-continuous piece while `grideval` keeps the
right-continuous one; there the two may differ (at `x = knots[naxes]` itself, typically the upper end
of the fully supported range, `grideval` gives the value of the piece to the right, which is zero
when no basis function extends beyond). -/
theorem grideval_eq_pointwise_partial (dims : List (Dim α)) (coef : Int → α) (xs : List α)
    (h : List.Forall₂ RightContAt dims xs) :
    gridSpec dims coef xs
      = specEval ⟨dims, coef⟩ xs (List.replicate dims.length BasisMode.value) := by
  unfold gridSpec specEval
  rw [gridRows_eq_specRows dims xs h]

/-- 3 and 4 combined: the value `grideval` stores at a grid index equals the pointwise specification
at that grid point, outside the exceptional set. -/
theorem grideval_get_eq_pointwise_partial (dims : List (Dim α)) (coef : Int → α)
    (coords : List (List α)) (hwf : GridTableWF dims) (hlen : coords.length = dims.length) :
    ∃ nd, gridEval dims coef coords = some nd ∧
      ∀ g xs, gridPoint coords g = some xs → List.Forall₂ RightContAt dims xs →
        nd.get g = specEval ⟨dims, coef⟩ xs (List.replicate dims.length BasisMode.value) := by
  obtain ⟨nd, h1, _, _, h4⟩ := grideval_eq_spec dims coef coords hwf hlen
  exact ⟨nd, h1, fun g xs hg hx => by rw [h4 g xs hg, grideval_eq_pointwise_partial dims coef xs hx]⟩

end

/-- Non-vacuity: a 2×3×2 tensor over `Rat` with two entries, a 3×4 matrix, `dim = 1`. -/
example :
    let a : NdSparse Rat := ⟨[2,3,2], [([1,2,0], 5), ([0,1,1], -2)]⟩
    let b : Mat Rat := ⟨3, 4, fun i j => (i : Rat) - j⟩
    a.WF ∧ 1 < a.ranges.length ∧ b.nrow = a.ranges.getD 1 0 := by
  refine ⟨?_, by decide, rfl⟩
  intro e he
  simp only [List.mem_cons, List.not_mem_nil, or_false] at he
  rcases he with rfl | rfl
  · exact ⟨rfl, by decide⟩
  · exact ⟨rfl, by decide⟩

/-- Non-vacuity of 3 and 4: a 2-d table over `Rat` (order 2 with 7 knots → 4 functions, stride 2;
order 1 with 4 knots → 2 functions, stride 1; knots `0,1,2,…`), a 3×1 grid, a grid point, and a
point where one coordinate is below `knots[naxes]` and the other is not a knot. -/
example :
    let dims : List (Dim Rat) := [⟨2, 7, 4, 2, fun i => (i : Rat)⟩, ⟨1, 4, 2, 1, fun i => (i : Rat)⟩]
    let coords : List (List Rat) := [[1/2, 5/2, 3], [5/2]]
    GridTableWF dims ∧ coords.length = dims.length ∧
      gridPoint coords [1, 0] = some [5/2, 5/2] ∧ List.Forall₂ RightContAt dims [5/2, 5/2] := by
  refine ⟨⟨by simp, ?_, ⟨rfl, rfl⟩⟩, rfl, rfl, ?_⟩
  · intro d hd
    simp only [List.mem_cons, List.not_mem_nil, or_false] at hd
    rcases hd with rfl | rfl <;> rfl
  · refine List.Forall₂.cons (Or.inl ?_) (List.Forall₂.cons (Or.inr ?_) List.Forall₂.nil)
    · norm_num
    · intro i h
      have h2 : ((5 : Int) : Rat) = ((2 * i : Int) : Rat) := by
        push_cast
        simp only at h
        linarith
      have := Int.cast_injective h2
      omega

end PsV
