import PsV.Proofs.Glam
import PsV.Proofs.GlamCont
import PsV.Proofs.GlamIdx
import PsV.Proofs.GlamListed
import PsV.Proofs.GlamRound
import PsV.Props.C01
/-!
# C17 — grid evaluation is the tensor-product B-spline sum, computed by mode products

Property theorems only (helper lemmas and the predicates `IdxIn`, `NdSparse.WF`, `GridTableWF`
live in `PsV/Proofs/Glam.lean`; continuity at knots / `AgreeAt` in `Proofs/GlamCont.lean`; the C-typed index
arithmetic in `Model/GlamIdx.lean` + `Proofs/GlamIdx.lean`; flat sum and listed pattern in `Proofs/GlamFlat.lean`,
`Proofs/GlamListed.lean`).  The carrier is any ordered field whose `Arith` bundle is lawful;
`Rat` with the instance the compiled driver executes is one.

Sections: 1 index bijection · 2 mode product · 3 grideval = tensor-product sum · 4/5 link to the pointwise
convention (partial / full with the precise side condition, necessity, witnesses, link to C01's finding) ·
6 no overflow of the `int` index arithmetic below 2³¹ columns · 7 flat n-d sum and the listed pattern ·
8 agreement with the pointwise evaluation routine `ndsplineeval` at model level ·
9 rounding: forward error of the basis recursion, of one slice multiplication and of the whole chain against
the majorant `Σ|coef|·Π basis`, and grid vs pointwise evaluation both under rounding (`Proofs/GlamRound.lean`).
-/
namespace PsV
open Arith
set_option linter.unusedSectionVars false
section
variable {α : Type} [Field α] [LinearOrder α] [IsStrictOrderedRing α] [A : Arith α] [L : LawfulArith α]

/-! ## 1. the rotated mixed-radix flattening of `slicemultiply` is inverted by its un-flattening -/

/-- For a valid index tuple the un-flattening loop (run with the result's ranges, where entry `dim`
has been replaced) recovers every index other than `dim`; index `dim` becomes the result row. -/
theorem unflatten_flatten (ranges idx : List Nat) (dim g n' : Nat) (hv : IdxIn idx ranges)
    (hd : dim < ranges.length) :
    unflattenIdx (ranges.set dim n') dim g (flattenCol ranges idx dim) = idx.set dim g :=
  unflatten_flatten' ranges idx dim g n' hv hd

/-- The flattened column number is injective on valid index tuples up to the entry `dim`. -/
theorem flattenCol_injective (ranges idx idx' : List Nat) (dim : Nat) (hv : IdxIn idx ranges)
    (hv' : IdxIn idx' ranges) (hd : dim < ranges.length)
    (h : flattenCol ranges idx dim = flattenCol ranges idx' dim) : idx.set dim 0 = idx'.set dim 0 :=
  flattenCol_inj ranges idx idx' dim hv hv' hd h

/-- Non-vacuity: ranges `[2,3,2]`, index `[1,2,0]`, `dim = 1`. -/
example : IdxIn [1,2,0] [2,3,2] ∧ 1 < [2,3,2].length ∧
    unflattenIdx ([2,3,2].set 1 5) 1 4 (flattenCol [2,3,2] [1,2,0] 1) = [1,4,0] := by
  refine ⟨⟨rfl, ?_⟩, by decide, by decide⟩
  decide

/-! ## 2. `slicemultiply` is the mode product with `bᵀ` along `dim` -/

/-- An index tuple nobody lists has value zero. -/
theorem get_of_not_listed (s : NdSparse α) (idx : List Nat) (h : ∀ e ∈ s.entries, e.1 ≠ idx) :
    s.get idx = 0 := by
  rw [get_eq_entSum]; exact entSum_eq_zero _ _ h

/-- `slicemultiply(a, b, dim)` succeeds when `b` has as many rows as `a` has indices along `dim`;
the result has range `b.ncol` along `dim`, lists valid indices only, and its value at a valid index
is `Σ_j b[j, idx_dim] · a(idx with entry dim := j)`. -/
theorem slice_is_mode_product (a : NdSparse α) (b : Mat α) (dim : Nat) (ha : a.WF)
    (hd : dim < a.ranges.length) (hb : b.nrow = a.ranges.getD dim 0) :
    ∃ a', sliceMultiply a b dim = some a' ∧ a'.ranges = a.ranges.set dim b.ncol ∧ a'.WF ∧
      ∀ idx, IdxIn idx a'.ranges →
        a'.get idx = ∑ j ∈ Finset.range b.nrow, b.val j (idx.getD dim 0) * a.get (idx.set dim j) :=
  sliceMultiply_spec a b dim ha hd hb

/-- The dimension check of `slicemultiply` (`return -1`). -/
theorem slice_dim_mismatch (a : NdSparse α) (b : Mat α) (dim : Nat)
    (hb : b.nrow ≠ a.ranges.getD dim 0) : sliceMultiply a b dim = none := by
  unfold sliceMultiply; rw [if_pos hb]

/-! ## 3. `grideval` is the tensor-product sum at every grid point -/

/-- The basis matrix entries of `bsplinebasis` (guarded recursion of splineutil.c) are the
Cox–de Boor functions with the right-continuous order-0 indicator and `a/0 = 0`. -/
theorem bsplineG_is_coxDeBoor (t : Int → α) (x : α) (n : Nat) (i : Int) :
    bsplineG t x n i = Bind (indR t x) t x n i :=
  bsplineG_eq_Bind t x n i

/-- For a well-formed dimension list (`GridTableWF`: non-empty, `naxes = nknots - order - 1`,
row-major strides) and one coordinate vector per dimension, `grideval` succeeds, the result has one
index per coordinate along every dimension, lists valid indices only, and its value at the grid
index `g` is the sum over all stored coefficients of coefficient × Π_d B_d(x_d) at the point
`x_d = coords_d[g_d]` (right-continuous basis in every dimension). -/
theorem grideval_eq_spec (dims : List (Dim α)) (coef : Int → α) (coords : List (List α))
    (hwf : GridTableWF dims) (hlen : coords.length = dims.length) :
    ∃ nd, gridEval dims coef coords = some nd ∧ nd.ranges = coords.map List.length ∧ nd.WF ∧
      ∀ g xs, gridPoint coords g = some xs → nd.get g = gridSpec dims coef xs :=
  gridEval_spec dims coef coords hwf hlen

/-- Wrong number of coordinate vectors: the exception of `grideval`. -/
theorem grideval_wrong_arity (dims : List (Dim α)) (coef : Int → α) (coords : List (List α))
    (h : coords.length ≠ dims.length) : gridEval dims coef coords = none := by
  unfold gridEval; rw [if_pos h]

/-! ## 4. grid convention vs. pointwise convention (first, partial version — kept; superseded by section 5,
where `grideval_eq_pointwise` / `grideval_get_eq_pointwise` prove the statement under the precise side
condition `AgreeAt`, of which `RightContAt` is a special case: `rightContAt_agreeAt`) -/

/-- The grid sum is the pointwise specification `specEval` (value mode in every dimension) whenever
every coordinate is below `knots[naxes]` of its dimension or is not a knot value at all
(`RightContAt`).  The exceptional set — `x ≥ knots[naxes]` *and* `x` equal to some knot — is where
the pointwise convention (C01) switches to the left-continuous piece while `grideval` keeps the
right-continuous one; there the two may differ (at `x = knots[naxes]` itself, typically the upper end
of the fully supported range, `grideval` gives the value of the piece to the right, which is zero
when no basis function extends beyond). -/
theorem grideval_eq_pointwise_partial (dims : List (Dim α)) (coef : Int → α) (xs : List α)
    (h : List.Forall₂ RightContAt dims xs) :
    gridSpec dims coef xs
      = specEval ⟨dims, coef⟩ xs (List.replicate dims.length BasisMode.value) := by
  unfold gridSpec specEval
  rw [gridRows_eq_specRows dims xs h]

/-- 3 and 4 combined: the value `grideval` stores at a grid index equals the pointwise specification
at that grid point, outside the exceptional set. -/
theorem grideval_get_eq_pointwise_partial (dims : List (Dim α)) (coef : Int → α)
    (coords : List (List α)) (hwf : GridTableWF dims) (hlen : coords.length = dims.length) :
    ∃ nd, gridEval dims coef coords = some nd ∧
      ∀ g xs, gridPoint coords g = some xs → List.Forall₂ RightContAt dims xs →
        nd.get g = specEval ⟨dims, coef⟩ xs (List.replicate dims.length BasisMode.value) := by
  obtain ⟨nd, h1, _, _, h4⟩ := grideval_eq_spec dims coef coords hwf hlen
  exact ⟨nd, h1, fun g xs hg hx => by rw [h4 g xs hg, grideval_eq_pointwise_partial dims coef xs hx]⟩

/-! ## 5. the full link to pointwise evaluation, with the precise side condition

What made `grideval_eq_pointwise_partial` partial is its hypothesis `RightContAt`: from `knots[naxes]`
upwards it excludes *every* coordinate that equals a knot, although the right-continuous basis of
`grideval` and the left-continuous one of the pointwise convention differ only where a basis function
jumps, i.e. at a knot whose multiplicity exceeds the order.  `AgreeAt d x` is the precise condition
(`x < knots[naxes]`, or `x` occurs at most `order` times among the knots); for non-decreasing knots it
is sufficient (`grideval_eq_pointwise`) and — up to the position of the knot — necessary
(`basis_jump_at_full_knot`, `grideval_ne_pointwise_1d`, the witnesses below). -/

/-- **Continuity at a knot of multiplicity ≤ order**: on a non-decreasing knot window the right- and
left-continuous Cox–de Boor functions `B_{i,n}` agree at `x` unless `x` fills `n+1` of its `n+2` knots. -/
theorem coxDeBoor_indR_eq_indL (t : Int → α) (x : α) (n : Nat) (i : Int) (hm : MonoOn t i (i + n + 1))
    (hA : ¬ (t i = x ∧ t (i + n) = x)) (hB : ¬ (t (i + 1) = x ∧ t (i + n + 1) = x)) :
    Bind (indR t x) t x n i = Bind (indL t x) t x n i :=
  Bind_indR_eq_indL t x n i hm hA hB

/-- **Full statement** (supersedes `grideval_eq_pointwise_partial`, which is the case `RightContAt`):
for tables with non-decreasing knots the grid sum is the pointwise specification `specEval` at every
point whose coordinates satisfy `AgreeAt` — below `knots[naxes]`, or not a knot of multiplicity above
the order.  In particular every point of a table with simple knots and orders ≥ 1, and every
coordinate equal to a simple knot ≥ `knots[naxes]`, is covered. -/
theorem grideval_eq_pointwise (dims : List (Dim α)) (coef : Int → α) (xs : List α)
    (hk : ∀ d ∈ dims, d.KnotsMono ∧ d.naxes = d.nknots - d.order - 1)
    (h : List.Forall₂ AgreeAt dims xs) :
    gridSpec dims coef xs
      = specEval ⟨dims, coef⟩ xs (List.replicate dims.length BasisMode.value) := by
  unfold gridSpec specEval
  rw [gridRows_eq_specRows_of_agree dims xs hk h]

/-- the old hypothesis implies the new one (so the partial theorem is the special case) -/
theorem rightContAt_agreeAt (d : Dim α) (x : α) (h : RightContAt d x) : AgreeAt d x := h.agreeAt

/-- 3 and 5 combined: the value `grideval` stores at a grid index is the pointwise specification at
that grid point, for every grid point satisfying the side condition. -/
theorem grideval_get_eq_pointwise (dims : List (Dim α)) (coef : Int → α)
    (coords : List (List α)) (hwf : GridTableWF dims) (hmono : ∀ d ∈ dims, d.KnotsMono)
    (hlen : coords.length = dims.length) :
    ∃ nd, gridEval dims coef coords = some nd ∧ nd.ranges = coords.map List.length ∧
      ∀ g xs, gridPoint coords g = some xs → List.Forall₂ AgreeAt dims xs →
        nd.get g = specEval ⟨dims, coef⟩ xs (List.replicate dims.length BasisMode.value) := by
  obtain ⟨nd, h1, h2, _, h4⟩ := grideval_eq_spec dims coef coords hwf hlen
  exact ⟨nd, h1, h2, fun g xs hg hx => by
    rw [h4 g xs hg, grideval_eq_pointwise dims coef xs (fun d hd => ⟨hmono d hd, hwf.naxes_eq d hd⟩) hx]⟩

/-- **The property as stated, modulo C01's known finding.**  For every grid point below the last knot
in every dimension (in particular: strictly inside the knot range) that is not in the configuration of
C01's known finding `degenerate-upper-end` (`NonDegenerate`: not both `x = knots[naxes]` and
`knots[naxes-1] = knots[naxes]`), the stored grid value is the pointwise specification.  So below the
last knot the only exceptional inputs of C17 are the exceptional inputs of C01. -/
theorem grideval_get_eq_pointwise_inside (dims : List (Dim α)) (coef : Int → α)
    (coords : List (List α)) (hwf : GridTableWF dims) (hmono : ∀ d ∈ dims, d.KnotsMono)
    (hlen : coords.length = dims.length) :
    ∃ nd, gridEval dims coef coords = some nd ∧ nd.ranges = coords.map List.length ∧
      ∀ g xs, gridPoint coords g = some xs →
        List.Forall₂ (fun d x => x < d.knots ((d.nknots : Int) - 1) ∧ NonDegenerate d x) dims xs →
        nd.get g = specEval ⟨dims, coef⟩ xs (List.replicate dims.length BasisMode.value) := by
  obtain ⟨nd, h1, h2, h3⟩ := grideval_get_eq_pointwise dims coef coords hwf hmono hlen
  refine ⟨nd, h1, h2, fun g xs hg hx => h3 g xs hg ?_⟩
  have hk : ∀ d ∈ dims, d.KnotsMono ∧ d.naxes = d.nknots - d.order - 1 :=
    fun d hd => ⟨hmono d hd, hwf.naxes_eq d hd⟩
  clear h3 hg h1 h2 hwf hmono hlen
  induction hx with
  | nil => exact List.Forall₂.nil
  | @cons d x ds xs' hd _ ih =>
    exact List.Forall₂.cons
      (agreeAt_of_nonDegenerate d x (hk d (by simp)).1 (hk d (by simp)).2 hd.1 hd.2)
      (ih (fun d' hd' => hk d' (by simp [hd'])))

/-- **Necessity, basis level.**  At a knot `x ≥ knots[naxes]` of multiplicity `order+1`
(`knots[a] = … = knots[a+order] = x`) followed by a larger knot, basis function `a` is `1` in the matrix
`grideval` builds and `0` under the pointwise convention. -/
theorem basis_jump_at_full_knot (d : Dim α) (x : α) (hm : d.KnotsMono) (a : Nat)
    (ha : a + d.order + 1 < d.nknots) (h1 : d.knots a = x) (h2 : d.knots ((a : Int) + d.order) = x)
    (h3 : x < d.knots ((a : Int) + d.order + 1)) (hge : d.knots d.naxes ≤ x) :
    Bind (indR d.knots x) d.knots x d.order a = 1 ∧ Bsel d x 0 a = 0 :=
  basis_differs_at_full_knot d x hm a ha h1 h2 h3 hge

/-- **Necessity, table level (one dimension).**  Under the same hypotheses the 1-d table with this
dimension (stride 1) and the unit coefficient vector `e_a` has grid value `1` and pointwise
specification `0` at `x`: without the multiplicity condition the statement is false. -/
theorem grideval_ne_pointwise_1d (d : Dim α) (x : α) (hm : d.KnotsMono)
    (hn : d.naxes = d.nknots - d.order - 1) (hs : d.stride = 1) (a : Nat)
    (ha : a + d.order + 1 < d.nknots) (h1 : d.knots a = x) (h2 : d.knots ((a : Int) + d.order) = x)
    (h3 : x < d.knots ((a : Int) + d.order + 1)) (hge : d.knots d.naxes ≤ x) :
    gridSpec [d] (fun p : Int => if p = (a : Int) * d.stride then (A.one : α) else A.zero) [x] = 1 ∧
    specEval ⟨[d], fun p : Int => if p = (a : Int) * d.stride then (A.one : α) else A.zero⟩ [x]
      [BasisMode.value] = 0 := by
  obtain ⟨r, l⟩ := basis_differs_at_full_knot d x hm a ha h1 h2 h3 hge
  have han : a < d.naxes := by omega
  constructor
  · unfold gridSpec
    simp only [gridRows]
    rw [specSum_1d_unit _ _ a (by simpa using han) (by omega)]
    simp [List.getD_eq_getElem?_getD, han, r]
  · unfold specEval
    simp only [specRows]
    rw [specSum_1d_unit _ _ a (by simpa using han) (by omega)]
    simp [List.getD_eq_getElem?_getD, han, derivOrder, l]

/-! ## 6. the `int` index arithmetic of `slicemultiply` cannot overflow below 2³¹ columns

`PsV/Model/GlamIdx.lean` restates the index expressions of `slicemultiply` in the C types they are written
in (`int cols, j, stride`, `unsigned int` ranges and indices, `long` triplet indices): products are taken
modulo 2³² and converted to `int`, `j/stride` and `j % stride` are signed, a zero divisor is undefined
behaviour (`CRes.ub`).  The theorems below say that with fewer than 2³¹ columns in the flattened section
none of this can be observed: the C-typed routines *are* the natural-number definitions of sections 1–3
(the ones the driver executes).  The bound is decidable (`sliceIdxSafe`, `gridIdxSafe`) and the check
evaluates it on every generated case. -/

/-- `cols` (an `int` product of `unsigned int` ranges) is the exact number of columns. -/
theorem slicemultiply_cols_exact (ranges : List Nat) (dim : Nat)
    (hpos : ∀ i, i < ranges.length → i ≠ dim → 0 < ranges.getD i 0)
    (hb : colsOf ranges dim < 2147483648) : colsC ranges dim = colsOf ranges dim :=
  colsC_eq ranges dim hpos hb

/-- The flattened column the C code accumulates in a `long` (`stride*index` in `unsigned int`, `stride`
in `int`) is the exact mixed-radix number `flattenCol`, and it is below the number of columns. -/
theorem slicemultiply_flatten_exact (ranges idx : List Nat) (dim : Nat) (hv : IdxIn idx ranges)
    (hd : dim < ranges.length) (hb : colsOf ranges dim < 2147483648) :
    flattenColC ranges idx dim = ((flattenCol ranges idx dim : Nat) : Int) ∧
      flattenCol ranges idx dim < colsOf ranges dim :=
  flattenColC_eq ranges idx dim hv hd hb

/-- The un-flattening loop in `int` arithmetic (`stride /= range`, `j/stride`, `j % stride`) divides by
no zero and produces the exact index tuple `unflattenIdx`. -/
theorem slicemultiply_unflatten_exact (ranges : List Nat) (dim row col : Nat) (hd : dim < ranges.length)
    (hpos : ∀ k, k < ranges.length → k ≠ dim → 0 < ranges.getD k 0)
    (hb : colsOf ranges dim < 2147483648) (hrow : row < 4294967296) (hcol : col < colsOf ranges dim) :
    unflattenIdxC ranges dim row col = .ok (unflattenIdx ranges dim row col) :=
  unflattenIdxC_eq ranges dim row col
    (fun k hk => hpos k ((mem_loopDims hd).mp hk).1 ((mem_loopDims hd).mp hk).2)
    (by rw [← colsOf_eq_mrProd ranges dim hd]; exact hb) hrow (by omega)

/-- **No overflow in `slicemultiply`.**  For a tensor that lists valid indices only, if the other index
ranges multiply to less than 2³¹ and `b` has fewer than 2³² columns (`sliceIdxSafe`), `slicemultiply` with
its index arithmetic in C types meets no undefined behaviour and returns exactly `sliceMultiply a b dim`
(`.fail` = the dimension check, as before). -/
theorem slicemultiply_int_arith_exact (a : NdSparse α) (b : Mat α) (dim : Nat) (ha : a.WF)
    (hd : dim < a.ranges.length) (hsafe : sliceIdxSafe a.ranges dim b.ncol = true) :
    sliceMultiplyC a b dim = CRes.ofOption (sliceMultiply a b dim) :=
  sliceMultiplyC_eq a b dim ha hd hsafe

/-- **No overflow in `grideval`.**  If at every step of the loop over the dimensions the section has
fewer than 2³¹ columns (`gridIdxSafe` on the table's `naxes` and the grid lengths — the predicate the
check evaluates on each case), `grideval` with C-typed index arithmetic in every `slicemultiply` is
`gridEval`. -/
theorem grideval_int_arith_exact (dims : List (Dim α)) (coef : Int → α) (coords : List (List α))
    (hwf : GridTableWF dims)
    (hsafe : gridIdxSafe (dims.map (·.naxes)) 0 (coords.map List.length) = true) :
    gridEvalC dims coef coords = CRes.ofOption (gridEval dims coef coords) := by
  unfold gridEvalC gridEval
  by_cases h : coords.length ≠ dims.length
  · rw [if_pos h, if_pos h]; rfl
  · rw [if_neg h, if_neg h]
    apply gridLoopC_eq dims coords 0 _ (coefTensor_wf dims coef hwf.strides hwf.ne)
    · rw [coefTensor_eq]; simp
    · rw [coefTensor_eq]; exact hsafe

/-- **The bound in terms of the table and grid sizes.**  If `Π_d max(1, naxes_d, npts_d) < 2³¹`
(`sizeBound`: per dimension the larger of the number of basis functions and the number of grid
abscissae), no `slicemultiply` call of `grideval` can overflow: the C-typed routine is `gridEval`. -/
theorem grideval_int_arith_exact_of_sizes (dims : List (Dim α)) (coef : Int → α) (coords : List (List α))
    (hwf : GridTableWF dims) (hlen : coords.length = dims.length)
    (h : sizeBound (dims.map (·.naxes)) (coords.map List.length) < 2147483648) :
    gridEvalC dims coef coords = CRes.ofOption (gridEval dims coef coords) :=
  grideval_int_arith_exact dims coef coords hwf
    (gridIdxSafe_of_sizeBound _ _ (by simp [hlen]) h)

/-- **Entry counter.**  A tensor that lists valid indices only (every intermediate tensor of `grideval`
does: `slice_is_mode_product`, `grideval_eq_spec`) lists at most `Π ranges` *distinct* index tuples — the
number of rows of the n-tuple once CHOLMOD has merged duplicates.  So the `int` entry counter of
`slicemultiply` (`for (i = 0; i < a->rows; i++)`) stays below 2³¹ whenever the dense size does. -/
theorem listed_entries_le_dense (s : NdSparse α) (hs : s.WF) :
    (s.entries.map (·.1)).dedup.length ≤ PsV.Permute.prodL s.ranges :=
  listed_count_le s hs

/-! ## 7. the `slicemultiply` chain as one flat sum, and the set of listed grid points

CHOLMOD's `triplet_to_sparse` / `ssmult` / `sparse_to_triplet` are modelled by their meaning (section 2).
Section 3 identifies the chain of mode products with the nested sum `specSum`; here it is the flat
n-dimensional tensor-product sum over every stored coefficient, and the *pattern* of the result (which
grid indices are listed at all — what the tie compares exactly with the code) is characterised too. -/

/-- **The chain of `slicemultiply` calls is the tensor-product evaluation sum**, any number of
dimensions: the value stored at grid index `g` is `Σ_q coef[q] · Π_d B_d(digit_d(q), x_d)` over all
`Π naxes` stored coefficients (`digits` = the row-major index tuple of position `q`). -/
theorem grideval_get_eq_flat_sum (dims : List (Dim α)) (coef : Int → α) (coords : List (List α))
    (hwf : GridTableWF dims) (hlen : coords.length = dims.length) :
    ∃ nd, gridEval dims coef coords = some nd ∧
      ∀ g xs, gridPoint coords g = some xs →
        nd.get g = ∑ q ∈ Finset.range (PsV.Permute.prodL (dims.map (·.naxes))),
          coef (q : Int) * gridBasisProd dims xs (PsV.Permute.digits (dims.map (·.naxes)) q) := by
  obtain ⟨nd, h1, h2, _, h4⟩ := grideval_eq_spec dims coef coords hwf hlen
  refine ⟨nd, h1, fun g xs hg => ?_⟩
  have hx : xs.length = dims.length := by rw [gridPoint_length_grid coords g xs hg, hlen]
  rw [h4 g xs hg, gridSpec_flat dims coef xs hwf.ne hwf.strides hx]

/-- **Pattern of `slicemultiply`** (the symbolic product of `ssmult`): the result lists `idx` iff some
listed entry `e` of `a` agrees with `idx` off `dim` and `b[e_dim, idx_dim]` is non-zero (stored). -/
theorem slice_lists_iff (a : NdSparse α) (b : Mat α) (dim : Nat) (ha : a.WF) (hd : dim < a.ranges.length)
    (a' : NdSparse α) (h : sliceMultiply a b dim = some a') (idx : List Nat) :
    a'.Lists idx ↔ ∃ e, a.Lists e ∧ ∃ g, g < b.ncol ∧ b.val (e.getD dim 0) g ≠ 0 ∧ idx = e.set dim g :=
  slice_lists_iff' a b dim ha hd a' h idx

/-- **Which grid points `grideval` lists**: exactly those where the tensor-product sum has a non-zero
term — some stored coefficient `coef[pos c] ≠ 0` whose basis product `Π_d B_d(c_d, x_d)` is non-zero.
(With `get_of_not_listed`: every other grid point has value zero, and is not listed.) -/
theorem grideval_lists_iff (dims : List (Dim α)) (coef : Int → α) (coords : List (List α))
    (hwf : GridTableWF dims) (hlen : coords.length = dims.length) :
    ∃ nd, gridEval dims coef coords = some nd ∧
      ∀ g xs, gridPoint coords g = some xs →
        (nd.Lists g ↔ ∃ c, IdxIn c (dims.map (·.naxes)) ∧
          coef (posL dims c : Nat) * gridBasisProd dims xs c ≠ 0) :=
  gridEval_lists dims coef coords hwf hlen

end

/-! ## 8. grid evaluation agrees with the pointwise evaluation *routine* (model level, exact arithmetic) -/
section
variable {α : Type} [Field α] [LinearOrder α] [IsStrictOrderedRing α]
attribute [local instance] Arith.ofField

/-- **C17 at model level.**  For a well-formed table (C01's `Table.WF`, row-major strides) and any grid,
the value `grideval` stores at a grid index equals what the pointwise routine `ndsplineeval` (C01's model
of the evaluation code: margin loops, de Boor recurrence, block walk) returns at that grid point, for
every grid point the lookup accepts that lies below the last knot in every dimension and is not in the
configuration of C01's known finding (`NonDegenerate`).  Composition of `grideval_get_eq_pointwise_inside`
with `C01_eval_eq_spec_partial`; exact arithmetic on both sides (rounding is the envelope of the check). -/
theorem grideval_get_eq_ndsplineeval (T : Table α) (coords : List (List α)) (hT : T.WF)
    (hs : StridesRowMajor T.dims) (hlen : coords.length = T.dims.length) :
    ∃ nd, gridEval T.dims T.coef coords = some nd ∧ nd.ranges = coords.map List.length ∧
      ∀ g xs cs, gridPoint coords g = some xs →
        @searchCenters α (cmpLO α) (T.dims.map Dim.axis) xs = .ok cs →
        List.Forall₂ (fun d x => x < d.knots ((d.nknots : Int) - 1) ∧ NonDegenerate d x) T.dims xs →
        nd.get g = ndsplineeval T xs cs 0 := by
  have hne : T.dims ≠ [] := by
    intro h; have := hT.stride; rw [h] at this; exact this
  have hg : GridTableWF T.dims := ⟨hne, fun d hd => (hT.dims d hd).naxes_eq, hs⟩
  obtain ⟨nd, h1, h2, h3⟩ := grideval_get_eq_pointwise_inside T.dims T.coef coords hg
    (fun d hd => (hT.dims d hd).mono) hlen
  refine ⟨nd, h1, h2, fun g xs cs hgp hsc hx => ?_⟩
  have hxl : T.dims.length = xs.length := by rw [gridPoint_length_grid coords g xs hgp, hlen]
  have hnd : ∀ (ds : List (Dim α)) (ys : List α),
      List.Forall₂ (fun d x => x < d.knots ((d.nknots : Int) - 1) ∧ NonDegenerate d x) ds ys →
      AllNonDegenerate ds ys := by
    intro ds ys h
    induction h with
    | nil => trivial
    | cons hd _ ih => exact ⟨hd.2, ih⟩
  rw [h3 g xs hgp hx, C01_eval_eq_spec_partial T xs cs hT hxl (hnd _ _ hx) hsc]

end

/-- Non-vacuity: a 2×3×2 tensor over `Rat` with two entries, a 3×4 matrix, `dim = 1`. -/
example :
    let a : NdSparse Rat := ⟨[2,3,2], [([1,2,0], 5), ([0,1,1], -2)]⟩
    let b : Mat Rat := ⟨3, 4, fun i j => (i : Rat) - j⟩
    a.WF ∧ 1 < a.ranges.length ∧ b.nrow = a.ranges.getD 1 0 := by
  refine ⟨?_, by decide, rfl⟩
  intro e he
  simp only [List.mem_cons, List.not_mem_nil, or_false] at he
  rcases he with rfl | rfl
  · exact ⟨rfl, by decide⟩
  · exact ⟨rfl, by decide⟩

/-- Non-vacuity of 3 and 4: a 2-d table over `Rat` (order 2 with 7 knots → 4 functions, stride 2;
order 1 with 4 knots → 2 functions, stride 1; knots `0,1,2,…`), a 3×1 grid, a grid point, and a
point where one coordinate is below `knots[naxes]` and the other is not a knot. -/
example :
    let dims : List (Dim Rat) := [⟨2, 7, 4, 2, fun i => (i : Rat)⟩, ⟨1, 4, 2, 1, fun i => (i : Rat)⟩]
    let coords : List (List Rat) := [[1/2, 5/2, 3], [5/2]]
    GridTableWF dims ∧ coords.length = dims.length ∧
      gridPoint coords [1, 0] = some [5/2, 5/2] ∧ List.Forall₂ RightContAt dims [5/2, 5/2] := by
  refine ⟨⟨by simp, ?_, ⟨rfl, rfl⟩⟩, rfl, rfl, ?_⟩
  · intro d hd
    simp only [List.mem_cons, List.not_mem_nil, or_false] at hd
    rcases hd with rfl | rfl <;> rfl
  · refine List.Forall₂.cons (Or.inl ?_) (List.Forall₂.cons (Or.inr ?_) List.Forall₂.nil)
    · norm_num
    · intro i h
      have h2 : ((5 : Int) : Rat) = ((2 * i : Int) : Rat) := by
        push_cast
        simp only at h
        linarith
      have := Int.cast_injective h2
      omega

/-! ## witnesses for section 5 (all at `Rat`, the carrier the driver executes) -/

/-- order 1, knots 0,1,2,3,3 (naxes = 3): the last knot is double, `knots[naxes-1] < knots[naxes]` -/
def lastKnotTable : Table Rat :=
  ⟨[⟨1, 5, 3, 1, fun i => if i ≤ 0 then 0 else if i = 1 then 1 else if i = 2 then 2 else 3⟩],
   fun i => if i = 2 then 7 else 1⟩

theorem degTable_gridWF : GridTableWF degTable.dims := by
  refine ⟨by simp [degTable], ?_, rfl⟩
  intro d hd
  simp only [degTable, List.mem_singleton] at hd
  subst hd; rfl

theorem degTable_knotsMono : ∀ d ∈ degTable.dims, d.KnotsMono := by
  intro d hd
  simp only [degTable, List.mem_singleton] at hd
  subst hd
  intro i j hi hij hj
  simp only at hj ⊢
  split_ifs <;> first | (exfalso; omega) | norm_num

/-- **Witness that the side condition is necessary — the input class of C01's known finding.**
`degTable` (order 1, knots 0,1,2,2,3, coefficients 1,5,7) on the one-point grid `x = 2 = knots[naxes]`,
a double knot with `knots[naxes-1] = knots[naxes]`: `grideval` stores `7` (the piece to the right of the
knot), the pointwise specification is `5` (the piece to its left; `C01_degenerate_upper_end`), and the
pointwise *code* model yields `0` (NaN in IEEE arithmetic) — three different answers.  The point
violates `AgreeAt` and C01's `NonDegenerate`, and lies strictly inside the knot range. -/
theorem grideval_ne_pointwise_at_degenerate_upper_end :
    (∃ nd, gridEval degTable.dims degTable.coef [[2]] = some nd ∧ nd.get [0] = 7) ∧
    specEval degTable [2] [BasisMode.value] = 5 ∧
    ndsplineeval degTable [2] [2] 0 = 0 ∧
    (∀ d ∈ degTable.dims, ¬ AgreeAt d 2 ∧ ¬ NonDegenerate d 2 ∧
      d.knots 0 < 2 ∧ (2 : Rat) < d.knots ((d.nknots : Int) - 1)) := by
  refine ⟨?_, C01_degenerate_upper_end.2.2, C01_degenerate_upper_end.2.1, ?_⟩
  · obtain ⟨nd, h1, _, _, h4⟩ := grideval_eq_spec degTable.dims degTable.coef [[2]] degTable_gridWF rfl
    refine ⟨nd, h1, ?_⟩
    rw [h4 [0] [2] rfl]
    simp [gridSpec, gridRows, specSum, specSumRow, degTable, PsV.Bind, indR, List.range, List.range.loop]
    norm_num
  · intro d hd
    simp only [degTable, List.mem_singleton] at hd
    subst hd
    refine ⟨?_, ?_, by norm_num, by norm_num⟩
    · rintro (h | h)
      · norm_num at h
      · exact h 2 (by norm_num) (by norm_num) (by norm_num)
    · rintro (h | h)
      · norm_num at h
      · norm_num at h

/-- **Witness that "below the last knot" is needed in `grideval_get_eq_pointwise_inside`** (and that the
exceptional class is larger than C01's at the last knot): order 1, knots 0,1,2,3,3, `x = 3`.  C01's
`NonDegenerate` holds, but `x` is a double knot: `grideval` stores `0` (nothing extends to the right),
the pointwise specification is `7`. -/
theorem grideval_ne_pointwise_at_last_knot :
    (∃ nd, gridEval lastKnotTable.dims lastKnotTable.coef [[3]] = some nd ∧ nd.get [0] = 0) ∧
    specEval lastKnotTable [3] [BasisMode.value] = 7 ∧
    (∀ d ∈ lastKnotTable.dims, d.KnotsMono ∧ NonDegenerate d 3 ∧ ¬ AgreeAt d 3) := by
  have hwf : GridTableWF lastKnotTable.dims := by
    refine ⟨by simp [lastKnotTable], ?_, rfl⟩
    intro d hd
    simp only [lastKnotTable, List.mem_singleton] at hd
    subst hd; rfl
  refine ⟨?_, ?_, ?_⟩
  · obtain ⟨nd, h1, _, _, h4⟩ := grideval_eq_spec lastKnotTable.dims lastKnotTable.coef [[3]] hwf rfl
    refine ⟨nd, h1, ?_⟩
    rw [h4 [0] [3] rfl]
    simp [gridSpec, gridRows, specSum, specSumRow, lastKnotTable, PsV.Bind, indR, List.range, List.range.loop]
    norm_num
  · simp [specEval, specRows, specSum, specSumRow, lastKnotTable, Bsel, Dind, PsV.Bind, selInd, indL, derivOrder,
      List.range, List.range.loop]
    norm_num
  · intro d hd
    simp only [lastKnotTable, List.mem_singleton] at hd
    subst hd
    refine ⟨?_, Or.inl (by norm_num), ?_⟩
    · intro i j hi hij hj
      simp only at hj ⊢
      split_ifs <;> first | (exfalso; omega) | norm_num
    · rintro (h | h)
      · norm_num at h
      · exact h 3 (by norm_num) (by norm_num) (by norm_num)

/-- Non-vacuity of `coxDeBoor_indR_eq_indL`: knots `0,1,2,…`, the quadratic `B_{0,2}` at its simple knot 2. -/
example : MonoOn (fun i : Int => (i : Rat)) 0 (0 + (2 : Nat) + 1) ∧
    ¬ (((0 : Int) : Rat) = 2 ∧ (((0 : Int) + (2 : Nat) : Int) : Rat) = 2) ∧
    ¬ ((((0 : Int) + 1 : Int) : Rat) = 2 ∧ (((0 : Int) + (2 : Nat) + 1 : Int) : Rat) = 2) := by
  refine ⟨fun a b _ hab _ => by show ((a : Int) : Rat) ≤ ((b : Int) : Rat); exact_mod_cast hab, by norm_num, by norm_num⟩

/-- Non-vacuity of `grideval_eq_pointwise`, `grideval_get_eq_pointwise` and
`grideval_get_eq_pointwise_inside`: the 2-d table of the example above with the grid point `(5, 5/2)`;
`5` is a (simple) knot above `knots[naxes] = 4` of the first dimension — a point the partial theorem
excludes (`RightContAt` fails) and the full one covers. -/
example :
    let dims : List (Dim Rat) := [⟨2, 7, 4, 2, fun i => (i : Rat)⟩, ⟨1, 4, 2, 1, fun i => (i : Rat)⟩]
    let coords : List (List Rat) := [[1/2, 5, 3], [5/2]]
    GridTableWF dims ∧ (∀ d ∈ dims, d.KnotsMono) ∧ coords.length = dims.length ∧
      gridPoint coords [1, 0] = some [5, 5/2] ∧ List.Forall₂ AgreeAt dims [5, 5/2] ∧
      List.Forall₂ (fun d x => x < d.knots ((d.nknots : Int) - 1) ∧ NonDegenerate d x) dims [5, 5/2] ∧
      ¬ RightContAt (⟨2, 7, 4, 2, fun i => (i : Rat)⟩ : Dim Rat) 5 := by
  refine ⟨⟨by simp, ?_, ⟨rfl, rfl⟩⟩, ?_, rfl, rfl, ?_, ?_, ?_⟩
  · intro d hd
    simp only [List.mem_cons, List.not_mem_nil, or_false] at hd
    rcases hd with rfl | rfl <;> rfl
  · intro d hd
    simp only [List.mem_cons, List.not_mem_nil, or_false] at hd
    rcases hd with rfl | rfl <;> exact fun i j _ hij _ => by show ((i : Int) : Rat) ≤ ((j : Int) : Rat); exact_mod_cast hij
  · refine List.Forall₂.cons (Or.inr ?_) (List.Forall₂.cons (Or.inr ?_) List.Forall₂.nil)
    · intro a _ _ ⟨h1, h2⟩
      simp only at h1 h2
      have e1 : a = 5 := by exact_mod_cast h1
      have e2 : a + 2 = 5 := by exact_mod_cast h2
      omega
    · intro a _ _ ⟨h1, _⟩
      simp only at h1
      have h2 : ((2 * a : Int) : Rat) = ((5 : Int) : Rat) := by push_cast; linarith
      have := Int.cast_injective h2
      omega
  · refine List.Forall₂.cons ⟨by norm_num, Or.inl (by norm_num)⟩
      (List.Forall₂.cons ⟨by norm_num, Or.inl (by norm_num)⟩ List.Forall₂.nil)
  · rintro (h | h)
    · norm_num at h
    · exact h 5 (by norm_num)

/-- Non-vacuity of `basis_jump_at_full_knot` / `grideval_ne_pointwise_1d`: the dimension of `degTable`,
`a = 2`, `x = 2`. -/
example :
    let d : Dim Rat := ⟨1, 5, 3, 1, fun i => if i ≤ 0 then 0 else if i = 1 then 1 else if i = 2 then 2 else if i = 3 then 2 else 3⟩
    d.KnotsMono ∧ d.naxes = d.nknots - d.order - 1 ∧ d.stride = 1 ∧ 2 + d.order + 1 < d.nknots ∧
      d.knots (2 : Nat) = 2 ∧ d.knots (((2 : Nat) : Int) + d.order) = 2 ∧
      (2 : Rat) < d.knots (((2 : Nat) : Int) + d.order + 1) ∧ d.knots d.naxes ≤ 2 := by
  refine ⟨degTable_knotsMono _ (by simp [degTable]), rfl, rfl, by decide, by norm_num, by norm_num, by norm_num,
    by norm_num⟩

/-- **The bound is sharp.**  Index ranges `65536 × 32768 × 1`, `dim = 2`: the section has exactly 2³¹
columns and the `int` product `cols` is `-2147483648`; with `65536 × 65536 × 1` it is `0`. -/
theorem slicemultiply_cols_overflow_witness :
    colsOf [65536, 32768, 1] 2 = 2147483648 ∧ colsC [65536, 32768, 1] 2 = -2147483648 ∧
    colsOf [65536, 65536, 1] 2 = 4294967296 ∧ colsC [65536, 65536, 1] 2 = 0 := by
  decide

/-- Non-vacuity of section 6: a 3×4×2 tensor, `dim = 1`, an entry, its flattened column; and the grid
predicate on a 2-d table with `naxes = (4, 2)` and a `3 × 1` grid. -/
example :
    IdxIn [2,3,1] [3,4,2] ∧ colsOf [3,4,2] 1 = 6 ∧ flattenColC [3,4,2] [2,3,1] 1 = 5 ∧
    unflattenIdxC [3,7,2] 1 6 5 = .ok [2,6,1] ∧ sliceIdxSafe [3,4,2] 1 7 = true ∧
    gridIdxSafe [4,2] 0 [3,1] = true ∧ sizeBound [4,2] [3,1] = 8 := by
  refine ⟨⟨rfl, by decide⟩, by decide, by decide, by rfl, by decide, by decide, by decide⟩

/-- Non-vacuity of section 7 (`grideval_get_eq_flat_sum`, `grideval_lists_iff`; `slice_lists_iff` shares
the hypotheses of `slice_is_mode_product`, see the first example): `degTable` on the one-point grid
`x = 2`; the grid index `[0]` is listed because coefficient `c = [2]` (value 7) has basis value 1 there. -/
example :
    GridTableWF degTable.dims ∧ ([[2]] : List (List Rat)).length = degTable.dims.length ∧
    gridPoint ([[2]] : List (List Rat)) [0] = some [2] ∧
    ∃ c, IdxIn c (degTable.dims.map (·.naxes)) ∧
      degTable.coef (posL degTable.dims c : Nat) * gridBasisProd degTable.dims [2] c ≠ 0 := by
  refine ⟨degTable_gridWF, rfl, rfl, [2], ⟨rfl, by decide⟩, ?_⟩
  simp [gridBasisProd, posL, degTable, PsV.Bind, indR]
  norm_num

/-- Non-vacuity of `grideval_get_eq_ndsplineeval`: C01's example table (order 2, knots 0..6, stride 1),
the one-point grid `x = 7/2`, accepted by the lookup with centre 3, below the last knot, non-degenerate. -/
example : (⟨[⟨2, 7, 4, 1, fun i => (i : Rat)⟩], fun _ => 1⟩ : Table Rat).WF ∧
    StridesRowMajor [(⟨2, 7, 4, 1, fun i => (i : Rat)⟩ : Dim Rat)] ∧
    gridPoint ([[7/2]] : List (List Rat)) [0] = some [7/2] ∧
    @searchCenters Rat (cmpLO Rat) [Dim.axis (⟨2, 7, 4, 1, fun i => (i : Rat)⟩ : Dim Rat)] [(7/2 : Rat)] = .ok [3] ∧
    List.Forall₂ (fun (d : Dim Rat) x => x < d.knots ((d.nknots : Int) - 1) ∧ NonDegenerate d x)
      [(⟨2, 7, 4, 1, fun i => (i : Rat)⟩ : Dim Rat)] [(7/2 : Rat)] := by
  refine ⟨⟨?_, rfl⟩, rfl, rfl, ?_, ?_⟩
  · intro d hd
    simp only [List.mem_singleton] at hd
    subst hd
    exact ⟨by decide, rfl, fun i j _ hij _ => by show ((i:Int):Rat) ≤ ((j:Int):Rat); exact_mod_cast hij⟩
  · simp [searchCenters, searchAxis, Dim.axis, bsearch, Cmp.lt, Cmp.le]
    norm_num
  · exact List.Forall₂.cons ⟨by norm_num, Or.inl (by norm_num)⟩ List.Forall₂.nil

/-! ## 9. rounding

The same model definitions run at `Arith.rounded fl st` (every `+ − × ÷` followed by a rounding `fl` of relative
error `ε`: `RelErr ε 1 a (fl a)`, the standard model without underflow/overflow; IEEE double is `ε = u/(1-u)`,
`u = 2^-53`, `C01_standard_model`) against the run at exact arithmetic.  Inputs (knots, abscissae, coefficients)
are exactly represented.  `TRel ε k E R M`: the exact, the rounded and the majorant tensor (exact arithmetic on
the magnitudes) list the same index tuples entry by entry, and every rounded entry is within `gfac ε k · m` of the
exact one, `m` the majorant entry. -/
section rounding
variable {F : Type} [Field F] [LinearOrder F] [IsStrictOrderedRing F] {ε : F} {fl st : F → F}
attribute [local instance] Arith.ofField

/-- **The recursive basis value `bspline(knots, x, i, n)` under rounding.**  On a non-decreasing knot window
`t_i ≤ … ≤ t_{i+n+1}` the rounded value carries at most `5n` roundings (per level and term: one subtraction
`x − t_i` / `t_{i+n+1} − x` of exactly represented inputs, one product, one knot difference, one quotient; one sum),
all terms are non-negative (no cancellation), so the relative error is `gfac ε (5n)`; the value vanishes outside
`[t_i, t_{i+n+1})`. -/
theorem C17_basis_rounding (hε : 0 ≤ ε) (hfl : ∀ a, RelErr ε 1 a (fl a)) (t : Int → F) (x : F) (n : Nat) (i : Int)
    (hm : MonoOn t i (i + n + 1)) :
    RelErr ε (5 * n) (bsplineG t x n i) (bsplineG (A := Arith.rounded fl st) t x n i) ∧
      0 ≤ bsplineG t x n i ∧
      |bsplineG (A := Arith.rounded fl st) t x n i - bsplineG t x n i| ≤ gfac ε (5 * n) * bsplineG t x n i ∧
      (bsplineG t x n i ≠ 0 → t i ≤ x ∧ x < t (i + n + 1)) := by
  obtain ⟨h1, h2, h3⟩ := bsplineG_relerr (st := st) hε hfl t x n i hm
  refine ⟨h1, h2, ?_, h3⟩
  have := h1.abs_sub hε
  rwa [abs_of_nonneg h2] at this

/-- **One slice multiplication under rounding** (`slicemultiply(a, b, dim)`, per output cell a dot product).
Basis matrix non-negative and known up to `kb` roundings, input entries within `gfac ε k` of the majorant:
the three runs succeed together, every *entry* of the result carries `k + kb + 1` roundings, and every *cell*
(the `N = nlisted` entries listed at the index are added up) satisfies
`|rounded − exact| ≤ gfac ε (k + kb + 1 + N) · majorant`, where exact cell and majorant cell are the dot products
`Σ_j b[j, idx_dim] · a(idx with entry dim := j)` of the exact resp. majorant input. -/
theorem C17_slicemultiply_rounding (hε : 0 ≤ ε) (hfl : ∀ a, RelErr ε 1 a (fl a)) {k kb : Nat}
    {aE aR aM : NdSparse F} (h : TRel ε k aE aR aM) (bE bR : Mat F) (dim : Nat)
    (hnr : bR.nrow = bE.nrow) (hnc : bR.ncol = bE.ncol)
    (hb : ∀ j g, j < bE.nrow → g < bE.ncol → RelErr ε kb (bE.val j g) (bR.val j g) ∧ 0 ≤ bE.val j g)
    (hwf : aE.WF) (hd : dim < aE.ranges.length) (hdim : bE.nrow = aE.ranges.getD dim 0) :
    ∃ cE cR cM, sliceMultiply aE bE dim = some cE ∧
      sliceMultiply (A := Arith.rounded fl st) aR bR dim = some cR ∧
      sliceMultiply aM bE dim = some cM ∧ TRel ε (k + kb + 1) cE cR cM ∧
      ∀ idx, |cR.get (A := Arith.rounded fl st) idx - cE.get idx|
            ≤ gfac ε (k + kb + 1 + cE.nlisted idx) * cM.get idx ∧
        (IdxIn idx cE.ranges →
          cE.get idx = ∑ j ∈ Finset.range bE.nrow, bE.val j (idx.getD dim 0) * aE.get (idx.set dim j) ∧
          cM.get idx = ∑ j ∈ Finset.range bE.nrow, bE.val j (idx.getD dim 0) * aM.get (idx.set dim j)) := by
  obtain ⟨cE, cR, cM, s1, s2, s3, s4⟩ := sliceMultiply_rel (st := st) hε hfl h bE bR dim hnr hnc hb hwf hd hdim
  refine ⟨cE, cR, cM, s1, s2, s3, s4, fun idx => ⟨(s4.get hε hfl idx).1, fun hidx => ?_⟩⟩
  obtain ⟨cE', t1, t2, _, t4⟩ := slice_is_mode_product aE bE dim hwf hd hdim
  obtain ⟨cM', u1, u2, _, u4⟩ := slice_is_mode_product aM bE dim (h.wfM hwf) (by rw [h.rM]; exact hd)
    (by rw [h.rM]; exact hdim)
  have e1 : cE' = cE := Option.some.inj (t1.symm.trans s1)
  have e2 : cM' = cM := Option.some.inj (u1.symm.trans s3)
  subst e1; subst e2
  exact ⟨t4 idx hidx, u4 idx (by rw [s4.rM]; exact hidx)⟩

/-- **Forward error of grid evaluation** (model at rounded arithmetic vs the same model exact).  For a
well-formed dimension list with non-decreasing knots and any grid, the rounded run, the exact run and the exact
run on the magnitudes of the coefficients succeed together, and at **every** index tuple `g`
`|rounded(g) − exact(g)| ≤ gfac ε K · majorant(g)`, `K = Σ_d (5·order_d + 1) + N(g)` (`gridRoundCount dims`: the
roundings of the basis recursion and of the product with the basis value, per dimension; `N(g) = nlisted`: the
number of non-zero terms of the cell, each addition one rounding); at a grid point the exact value is the
tensor-product sum `Σ coef·Π_d B_d(x_d)` and the majorant is `Σ |coef|·Π_d B_d(x_d)`.

`_partial` because of two things, neither a hypothesis on the input: (1) the rounding model — `RelErr ε 1 a (fl a)`
for every operation, i.e. no underflow and no overflow; (2) the order of the additions: the model keeps the
products of a cell as separate list entries and adds them up when the cell is read (`NdSparse.get`), whereas
CHOLMOD's `ssmult` adds them up slice by slice (and in an order of its own).  Any order of recursive summation of
`N` terms puts at most `N` additions on a term, and summing slice by slice at most `Σ_d n_d ≤ N + ndim − 1`
(`n_d` the length of the dot product in dimension `d` on the way to the cell: every further summand of a dot
product accounts for at least one further term of the cell), so the envelope that the check applies to the real
code is this theorem's with `ndim` added to `K` (`C17_grideval_rounding_envelope_tie_partial`). -/
theorem C17_grideval_rounding_envelope_partial (hε : 0 ≤ ε) (hfl : ∀ a, RelErr ε 1 a (fl a))
    (dims : List (Dim F)) (coef : Int → F) (coords : List (List F)) (hwf : GridTableWF dims)
    (hmono : ∀ d ∈ dims, d.KnotsMono) (hlen : coords.length = dims.length) :
    ∃ rE rR rM, gridEval dims coef coords = some rE ∧
      gridEval (A := Arith.rounded fl st) dims coef coords = some rR ∧
      gridEval dims (fun i => |coef i|) coords = some rM ∧
      (∀ g, |rR.get (A := Arith.rounded fl st) g - rE.get g|
          ≤ gfac ε (gridRoundCount dims + rE.nlisted g) * rM.get g) ∧
      ∀ g xs, gridPoint coords g = some xs →
        rE.get g = gridSpec dims coef xs ∧ rM.get g = gridSpec dims (fun i => |coef i|) xs := by
  obtain ⟨rE, rR, rM, g1, g2, g3, g4⟩ := gridEval_rel (st := st) hε hfl dims coef coords hwf hmono hlen
  refine ⟨rE, rR, rM, g1, g2, g3, fun g => (g4.get hε hfl g).1, fun g xs hg => ?_⟩
  obtain ⟨nd, t1, _, _, t4⟩ := grideval_eq_spec dims coef coords hwf hlen
  obtain ⟨nd', u1, _, _, u4⟩ := grideval_eq_spec dims (fun i => |coef i|) coords hwf hlen
  have e1 : nd = rE := Option.some.inj (t1.symm.trans g1)
  have e2 : nd' = rM := Option.some.inj (u1.symm.trans g3)
  subst e1; subst e2
  exact ⟨t4 g xs hg, u4 g xs hg⟩

/-- the envelope the check applies to the real code: `K = Σ_d (5·order_d + 1) + ndim + N(g)` (a weakening of
`C17_grideval_rounding_envelope_partial` by `ndim`, which covers summation slice by slice, see there) -/
theorem C17_grideval_rounding_envelope_tie_partial (hε : 0 ≤ ε) (hfl : ∀ a, RelErr ε 1 a (fl a))
    (dims : List (Dim F)) (coef : Int → F) (coords : List (List F)) (hwf : GridTableWF dims)
    (hmono : ∀ d ∈ dims, d.KnotsMono) (hlen : coords.length = dims.length) :
    ∃ rE rR rM, gridEval dims coef coords = some rE ∧
      gridEval (A := Arith.rounded fl st) dims coef coords = some rR ∧
      gridEval dims (fun i => |coef i|) coords = some rM ∧
      ∀ g, |rR.get (A := Arith.rounded fl st) g - rE.get g|
          ≤ gfac ε (gridRoundCount dims + dims.length + rE.nlisted g) * rM.get g := by
  obtain ⟨rE, rR, rM, g1, g2, g3, g4⟩ := gridEval_rel (st := st) hε hfl dims coef coords hwf hmono hlen
  refine ⟨rE, rR, rM, g1, g2, g3, fun g => ?_⟩
  have h := g4.get (st := st) hε hfl g
  exact le_trans h.1 (mul_le_mul_of_nonneg_right (gfac_mono hε (by omega)) (le_trans (abs_nonneg _) h.2))

/-- **Grid evaluation and pointwise evaluation, both under rounding.**  For a well-formed table (C01's `Table.WF`,
row-major strides) and any grid: at every grid point the lookup accepts that lies below the last knot in every
dimension and is not in the configuration of C01's known finding, the rounded grid value and the rounded value of
the pointwise routine `ndsplineeval` differ by at most the sum of the two envelopes,
`(gfac ε K₁₇ + gfac ε K₀₁) · Σ|coef|·Π basis`, `K₁₇ = Σ_d (5·order_d + 1) + N(g)`,
`K₀₁ = 3 + ndim·(7n + 3) + 2·Π_d (order_d + 1)` (`n` = largest order).  Composition of
`C17_grideval_rounding_envelope_partial`, `grideval_get_eq_pointwise_inside` and `C01_rounding_envelope_all_partial`
(both sides at the same `fl`, `st`; the code evaluates pointwise in single precision, which is the instance
`fl` = round to double, `st` = round to float, `ε` the larger of the two). -/
theorem C17_grideval_near_pointwise (hε : 0 ≤ ε) (hfl : ∀ a, RelErr ε 1 a (fl a)) (hst : ∀ a, RelErr ε 1 a (st a))
    (T : Table F) (coords : List (List F)) (n : Nat) (hT : T.WF) (hs : StridesRowMajor T.dims)
    (hlen : coords.length = T.dims.length) (hn : ∀ d ∈ T.dims, d.order ≤ n) :
    ∃ rE rR, gridEval T.dims T.coef coords = some rE ∧
      gridEval (A := Arith.rounded fl st) T.dims T.coef coords = some rR ∧
      ∀ g xs cs, gridPoint coords g = some xs →
        @searchCenters F (cmpLO F) (T.dims.map Dim.axis) xs = .ok cs →
        List.Forall₂ (fun d x => x < d.knots ((d.nknots : Int) - 1) ∧ NonDegenerate d x) T.dims xs →
        |rR.get (A := Arith.rounded fl st) g - ndsplineeval (A := Arith.rounded fl st) T xs cs 0| ≤
          (gfac ε (gridRoundCount T.dims + rE.nlisted g)
            + gfac ε (3 + T.dims.length * (7 * n + 3) + 2 * blockSize T.dims)) *
          specEval ⟨T.dims, fun i => |T.coef i|⟩ xs (List.replicate T.dims.length .value) := by
  have hne : T.dims ≠ [] := by
    intro h; have := hT.stride; rw [h] at this; exact this
  have hg : GridTableWF T.dims := ⟨hne, fun d hd => (hT.dims d hd).naxes_eq, hs⟩
  have hmono : ∀ d ∈ T.dims, d.KnotsMono := fun d hd => (hT.dims d hd).mono
  obtain ⟨rE, rR, rM, g1, g2, g3, g4⟩ := gridEval_rel (st := st) hε hfl T.dims T.coef coords hg hmono hlen
  obtain ⟨nd, t1, _, t3⟩ := grideval_get_eq_pointwise_inside T.dims T.coef coords hg hmono hlen
  obtain ⟨nd', u1, _, u3⟩ := grideval_get_eq_pointwise_inside T.dims (fun i => |T.coef i|) coords hg hmono hlen
  have e1 : nd = rE := Option.some.inj (t1.symm.trans g1)
  have e2 : nd' = rM := Option.some.inj (u1.symm.trans g3)
  subst e1; subst e2
  refine ⟨nd, rR, g1, g2, fun g xs cs hgp hsc hx => ?_⟩
  have hxl : T.dims.length = xs.length := by rw [gridPoint_length_grid coords g xs hgp, hlen]
  have hnd : ∀ (ds : List (Dim F)) (ys : List F),
      List.Forall₂ (fun d x => x < d.knots ((d.nknots : Int) - 1) ∧ NonDegenerate d x) ds ys →
      AllNonDegenerate ds ys := by
    intro ds ys h
    induction h with
    | nil => trivial
    | cons hd _ ih => exact ⟨hd.2, ih⟩
  have hA := (g4.get (st := st) hε hfl g).1
  rw [t3 g xs hgp hx, u3 g xs hgp hx] at hA
  have hB := C01_rounding_envelope_all_partial hε hfl hst T xs cs n hT hxl (hnd _ _ hx) hsc hn
  have key : nd'.get g = specEval ⟨T.dims, fun i => |T.coef i|⟩ xs (List.replicate T.dims.length .value) :=
    u3 g xs hgp hx
  calc |rR.get (A := Arith.rounded fl st) g - ndsplineeval (A := Arith.rounded fl st) T xs cs 0|
      = |(rR.get (A := Arith.rounded fl st) g - specEval ⟨T.dims, T.coef⟩ xs (List.replicate T.dims.length .value))
          - (ndsplineeval (A := Arith.rounded fl st) T xs cs 0
              - specEval ⟨T.dims, T.coef⟩ xs (List.replicate T.dims.length .value))| := by ring_nf
    _ ≤ |rR.get (A := Arith.rounded fl st) g - specEval ⟨T.dims, T.coef⟩ xs (List.replicate T.dims.length .value)|
          + |ndsplineeval (A := Arith.rounded fl st) T xs cs 0
              - specEval ⟨T.dims, T.coef⟩ xs (List.replicate T.dims.length .value)| := abs_sub _ _
    _ ≤ _ := by rw [add_mul]; exact add_le_add hA hB

end rounding

/-! ### non-vacuity of section 9 (all at `Rat`) -/

/-- `C17_basis_rounding`: a rounding that is not the identity (`fl a = 17/16·a`, within `ε = 1/8`) and a
non-decreasing knot window for `B_{0,2}` on the knots `0,1,2,3`. -/
example : (0 : Rat) ≤ 1/8 ∧ (∀ a : Rat, RelErr (1/8 : Rat) 1 a (a * (17/16))) ∧
    MonoOn (fun i : Int => (i : Rat)) 0 (0 + (2 : Nat) + 1) := by
  refine ⟨by norm_num, fun a => ⟨17/16, rfl, by norm_num, by norm_num⟩, ?_⟩
  intro a b _ hab _
  show ((a : Int) : Rat) ≤ ((b : Int) : Rat)
  exact_mod_cast hab

/-- `C17_slicemultiply_rounding`: the 2×3×2 tensor of section 2 as an exactly known input (`TRel.ofExact`: rounded
run from the same values, majorant from the magnitudes, `k = 0`), a non-negative 3×4 matrix known exactly
(`kb = 0`), `dim = 1`. -/
example :
    let a : NdSparse Rat := ⟨[2,3,2], [([1,2,0], 5), ([0,1,1], -2)]⟩
    let b : Mat Rat := ⟨3, 4, fun i j => if i ≤ j then (i : Rat) + 1 else 0⟩
    TRel (1/8 : Rat) 0 a a ⟨a.ranges, a.entries.map fun e => (e.1, |e.2|)⟩ ∧
    (∀ j g, j < b.nrow → g < b.ncol → RelErr (1/8 : Rat) 0 (b.val j g) (b.val j g) ∧ 0 ≤ b.val j g) ∧
    a.WF ∧ 1 < a.ranges.length ∧ b.nrow = a.ranges.getD 1 0 := by
  refine ⟨TRel.ofExact _, fun j g _ _ => ⟨RelErr.refl (by norm_num) _, ?_⟩, ?_, by decide, rfl⟩
  · simp only
    split
    · positivity
    · exact le_refl _
  · intro e he
    simp only [List.mem_cons, List.not_mem_nil, or_false] at he
    rcases he with rfl | rfl
    · exact ⟨rfl, by decide⟩
    · exact ⟨rfl, by decide⟩

/-- `C17_grideval_rounding_envelope_partial`: the 2-d table of section 3 (orders 2 and 1, knots `0,1,2,…`),
a 3×1 grid, non-decreasing knots, the non-identity rounding. -/
example :
    let dims : List (Dim Rat) := [⟨2, 7, 4, 2, fun i => (i : Rat)⟩, ⟨1, 4, 2, 1, fun i => (i : Rat)⟩]
    let coords : List (List Rat) := [[1/2, 5/2, 3], [5/2]]
    GridTableWF dims ∧ (∀ d ∈ dims, d.KnotsMono) ∧ coords.length = dims.length ∧
      (∀ a : Rat, RelErr (1/8 : Rat) 1 a (a * (17/16))) := by
  refine ⟨⟨by simp, ?_, ⟨rfl, rfl⟩⟩, ?_, rfl, fun a => ⟨17/16, rfl, by norm_num, by norm_num⟩⟩
  · intro d hd
    simp only [List.mem_cons, List.not_mem_nil, or_false] at hd
    rcases hd with rfl | rfl <;> rfl
  · intro d hd
    simp only [List.mem_cons, List.not_mem_nil, or_false] at hd
    rcases hd with rfl | rfl <;>
    · intro i j _ hij _
      show ((i : Int) : Rat) ≤ ((j : Int) : Rat)
      exact_mod_cast hij

/-- `C17_grideval_near_pointwise`: C01's example table (order 2, knots 0..6, stride 1), the one-point grid
`x = 7/2` accepted with centre 3, below the last knot, non-degenerate, orders ≤ 2, roundings `fl a = 17/16·a`
and `st a = 15/16·a` within `ε = 1/8`. -/
example : (⟨[⟨2, 7, 4, 1, fun i => (i : Rat)⟩], fun _ => 1⟩ : Table Rat).WF ∧
    StridesRowMajor [(⟨2, 7, 4, 1, fun i => (i : Rat)⟩ : Dim Rat)] ∧
    (∀ d ∈ [(⟨2, 7, 4, 1, fun i => (i : Rat)⟩ : Dim Rat)], d.order ≤ 2) ∧
    (∀ a : Rat, RelErr (1/8 : Rat) 1 a (a * (17/16))) ∧ (∀ a : Rat, RelErr (1/8 : Rat) 1 a (a * (15/16))) ∧
    gridPoint ([[7/2]] : List (List Rat)) [0] = some [7/2] ∧
    @searchCenters Rat (cmpLO Rat) [Dim.axis (⟨2, 7, 4, 1, fun i => (i : Rat)⟩ : Dim Rat)] [(7/2 : Rat)] = .ok [3] ∧
    List.Forall₂ (fun (d : Dim Rat) x => x < d.knots ((d.nknots : Int) - 1) ∧ NonDegenerate d x)
      [(⟨2, 7, 4, 1, fun i => (i : Rat)⟩ : Dim Rat)] [(7/2 : Rat)] := by
  refine ⟨⟨?_, rfl⟩, rfl, ?_, fun a => ⟨17/16, rfl, by norm_num, by norm_num⟩,
    fun a => ⟨15/16, rfl, by norm_num, by norm_num⟩, rfl, ?_, ?_⟩
  · intro d hd
    simp only [List.mem_singleton] at hd
    subst hd
    exact ⟨by decide, rfl, fun i j _ hij _ => by show ((i:Int):Rat) ≤ ((j:Int):Rat); exact_mod_cast hij⟩
  · intro d hd
    simp only [List.mem_singleton] at hd
    subst hd
    exact le_refl _
  · simp [searchCenters, searchAxis, Dim.axis, bsearch, Cmp.lt, Cmp.le]
    norm_num
  · exact List.Forall₂.cons ⟨by norm_num, Or.inl (by norm_num)⟩ List.Forall₂.nil

end PsV
