import PsV.Proofs.Lifecycle
/-!
# C20 — a table object stays valid and leak-free across any history, even failed calls

Property theorems only.  They are about `PsV.Lifecycle.step` / `run`, the definitions the driver
executes, at `Cfg.repaired` (the code with fixes/C20-1 … C20-11 and C16-4 applied; C20-11 stands in for
the C07 read guard).  Histories are arbitrary `List Op` (unbounded length, any number of object slots,
operations on dead slots are skipped), the environment `cd` is an arbitrary position of one injected
`std::bad_alloc`, and read / fit failures are arbitrary arguments of the operations.

The code as it is in the snapshot (`Cfg.asIs`) violates every one of the four statements; the
`asIs_*` theorems are the decided witnesses, each keyed by the minimal failing history.
-/
namespace PsV
open Lifecycle

/-- Every world reachable from nothing by any history under any single allocation failure. -/
def C20.reach (cd : Option Nat) (ops : List Op) : World := run Cfg.repaired (World.init cd) ops

/-- **ownership_inv**: in every reachable world every live table satisfies `ndim = 0 ⇒ nothing owned`,
    `ndim ≠ 0 ⇒ all arrays owned` (and is not half-built) — after every operation, failed or not. -/
theorem C20_ownership_inv (cd : Option Nat) (ops : List Op) (t : Tab)
    (h : some t ∈ (C20.reach cd ops).objs) : t.Own :=
  ((run_inv (World.init_inv cd) ops).live t h).toOwn

/-- Companion of `ownership_inv` on the allocator side: what the allocator has handed out to a live
    table and not got back is exactly the blocks the table owns; nothing was released twice. -/
theorem C20_ledger_balanced (cd : Option Nat) (ops : List Op) (t : Tab)
    (h : some t ∈ (C20.reach cd ops).objs) : t.ledger.Perm t.blocks ∧ t.bad = 0 :=
  ⟨((run_inv (World.init_inv cd) ops).live t h).ledger, ((run_inv (World.init_inv cd) ops).live t h).bad⟩

/-- **ledger_empty_after_destroy**: every object whose lifetime has ended (destructor, failed
    constructor, the temporary inside move assignment) left an empty ledger with no bad release, and
    destroying any object that is still alive leaves an empty ledger too: all memory obtained from
    the allocator is returned exactly once. -/
theorem C20_ledger_empty_after_destroy (cd : Option Nat) (ops : List Op) :
    (∀ r ∈ (C20.reach cd ops).retired, r = ([], 0)) ∧
    (∀ t, some t ∈ (C20.reach cd ops).objs → (destroy t).1.ledger = [] ∧ (destroy t).1.bad = 0) ∧
    (∀ r ∈ (destroyAll Cfg.repaired (C20.reach cd ops)).retired, r = ([], 0)) :=
  ⟨(run_inv (World.init_inv cd) ops).dead,
   fun t h => destroy_spec t ((run_inv (World.init_inv cd) ops).live t h),
   (run_inv (run_inv (World.init_inv cd) ops) _).dead⟩

theorem onTab_get {w : World} {i : Nat} {t : Tab} (f : Tab → Option Nat → Out) (h : w.get i = some t) :
    (onTab w i f).w.get i = some (f t w.cd).tab ∧ (onTab w i f).res = (f t w.cd).res := by
  unfold onTab
  rw [h]
  exact ⟨World.get_put_same w i _, rfl⟩

/-- **failed_op_unchanged_or_empty**: in a reachable world, an operation on a table that throws
    (invalid argument, I/O failure, allocation failure, failed fit) leaves that table with its abstract
    state unchanged, or empty; and no operation has undefined behaviour. -/
theorem C20_failed_op_unchanged_or_empty (cd : Option Nat) (ops : List Op) (op : Op) (i : Nat) (t : Tab)
    (hop : op.target = some i) (hget : (C20.reach cd ops).get i = some t)
    (hthrew : (step Cfg.repaired (C20.reach cd ops) op).res = .threw) :
    ∃ t', (step Cfg.repaired (C20.reach cd ops) op).w.get i = some t' ∧
      (t'.shape = t.shape ∨ t'.isEmpty = true) := by
  have hinv : t.Inv := (run_inv (World.init_inv cd) ops).live t (World.get_mem hget)
  have key : ∀ f : Tab → Option Nat → Out, Spec t (f t (C20.reach cd ops).cd) →
      (onTab (C20.reach cd ops) i f).res = .threw →
      ∃ t', (onTab (C20.reach cd ops) i f).w.get i = some t' ∧ (t'.shape = t.shape ∨ t'.isEmpty = true) := by
    intro f hs hr
    obtain ⟨h1, h2⟩ := onTab_get f hget
    exact ⟨_, h1, hs.2.1 (h2 ▸ hr)⟩
  cases op <;> simp only [Op.target, Option.some.injEq, reduceCtorEq] at hop <;> subst hop <;> simp only [step] at hthrew ⊢
  · exact key _ (read_spec t _ _ hinv) hthrew
  · exact key _ (fit_spec t _ _ hinv) hthrew
  · exact key _ (writeKey_spec t _ _ hinv) hthrew
  · exact key _ (removeKey_spec t _ _ hinv) hthrew
  · exact key _ ⟨hinv, fun _ => Or.inl rfl, by simp [getKey]; split <;> simp⟩ hthrew
  · exact key _ (convolve_spec t _ _ _ hinv) hthrew
  · exact key _ (permute_spec t _ _ hinv) hthrew
  · exact key _ ⟨hinv, fun _ => Or.inl rfl, by simp [writeFits]; split <;> simp⟩ hthrew

/-- **moved_from_empty**: after move construction or move assignment from a different object the
    source is the empty table (`ndim = 0`, nothing owned, empty ledger). -/
theorem C20_moved_from_empty (w : World) (i j : Nat) (hij : i ≠ j) :
    ((step Cfg.repaired w (.moveConstruct i j)).done = true →
      (step Cfg.repaired w (.moveConstruct i j)).w.get j = some Tab.empty) ∧
    ((step Cfg.repaired w (.moveAssign i j)).done = true →
      (step Cfg.repaired w (.moveAssign i j)).w.get j = some Tab.empty) := by
  constructor
  · simp only [step]
    cases w.get i <;> cases w.get j <;> simp [skip, World.get_put_same]
  · simp only [step]
    cases hi : w.get i <;> cases hj : w.get j <;> simp [skip, hij, Cfg.repaired]
    have := World.get_put_same (w.put i (some ‹Tab›)) j (some Tab.empty)
    simpa [World.get, World.put] using this


/-! ## Non-vacuity: concrete histories exercising the hypotheses -/

namespace C20
def d1 : List Dim := [⟨2, 8, 5⟩]
def d2 : List Dim := [⟨2, 8, 5⟩, ⟨1, 6, 4⟩]
def fit1 : FitArgs := ⟨true, true, d1⟩
def file2 : FileDesc := ⟨0, 0, d2, true, [⟨7, 4, 11, 9⟩]⟩
def badFile : FileDesc := ⟨3, 1, d2, true, [⟨7, 4, 11, 9⟩]⟩
def key1 : KeyArg := ⟨0, 1, 4, 4⟩
/-- read, edit keys, convolve, permute, move, compare, destroy — with the 30th allocation failing (inside convolve) -/
def hist : List Op :=
  [.construct 0, .read 0 file2, .writeKey 0 key1, .writeKey 0 ⟨0, 1, 4, 9⟩, .removeKey 0 7, .construct 1,
   .fit 1 fit1, .read 1 file2, .permute 0 [1, 0], .convolve 0 1 2, .moveAssign 1 0, .moveConstruct 2 1,
   .compare 0 1, .read 0 badFile, .writeFits 2, .destroy 2]
end C20

example : (C20.reach none C20.hist).okB = true := by decide
example : (C20.reach (some 29) C20.hist).okB = true := by decide
example : ((C20.reach none C20.hist).objs.map (Option.map Tab.ndim)) = [some 0, some 0, none] := by decide
example : (C20.reach none C20.hist).retired.length = 2 := by decide
/-- a throwing call that leaves the table unchanged (read into a populated table) and one that empties it
    (allocation failure inside convolve) -/
example : (step Cfg.repaired (C20.reach none [.construct 0, .read 0 C20.file2]) (.read 0 C20.file2)).res = .threw := by decide
example : (step Cfg.repaired (C20.reach (some 16) [.construct 0, .read 0 C20.file2]) (.convolve 0 0 2)).res = .threw ∧
    ((step Cfg.repaired (C20.reach (some 16) [.construct 0, .read 0 C20.file2]) (.convolve 0 0 2)).w.get 0).map Tab.isEmpty = some true := by decide
example : (step Cfg.repaired (C20.reach none [.construct 0, .read 0 C20.file2]) (.moveConstruct 1 0)).done = true := by decide

/-! ## The code as it is: decided witnesses (`Cfg.asIs`), one per defect, keyed by the minimal history

The full statements above are FALSE for the snapshot; what holds for it is `C20_asIs_partial` below. -/

def C20.asIs (cd : Option Nat) (ops : List Op) : World := run Cfg.asIs (World.init cd) ops

/-- `write_key` on an empty table allocates aux storage the destructor never releases (fix C20-1) -/
theorem C20_asIs_write_key_on_empty :
    (C20.asIs none [.construct 0, .writeKey 0 C20.key1]).okB = false ∧
    (C20.asIs none [.construct 0, .writeKey 0 C20.key1, .destroy 0]).retired = [([4, 4, 16, 8], 0)] := by decide

/-- `fit` on a populated table overwrites every pointer: the old arrays are never released (fix C20-2) -/
theorem C20_asIs_fit_on_populated :
    (C20.asIs none [.construct 0, .fit 0 C20.fit1, .fit 0 C20.fit1, .destroy 0]).retired ≠ [([], 0)] := by decide

/-- an allocation failure inside `fit` leaves `ndim ≠ 0` with null arrays: the destructor crashes (fix C20-3) -/
theorem C20_asIs_fit_alloc_failure :
    ((C20.asIs (some 3) [.construct 0, .fit 0 C20.fit1]).get 0).map Tab.broken = some true := by decide

/-- a GLAM failure leaves a populated table behind a throwing call (fix C20-3) -/
theorem C20_asIs_fit_glam_failure :
    ((C20.asIs none [.construct 0, .fit 0 ⟨true, false, C20.d1⟩]).get 0).map Tab.ndim = some 1 := by decide

/-- an allocation failure inside `convolve` (after the old arrays are released) leaves dangling pointers (fix C20-4) -/
theorem C20_asIs_convolve_alloc_failure :
    ((C20.asIs (some 15) [.construct 0, .read 0 C20.file2, .convolve 0 0 2]).get 0).map Tab.broken = some true := by decide

/-- `convolve` on an empty table dereferences null (fix C20-5) -/
theorem C20_asIs_convolve_on_empty :
    (step Cfg.asIs (C20.asIs none [.construct 0]) (.convolve 0 0 2)).res = .crash := by decide

/-- an allocation failure inside `remove_key` leaves `aux` dangling and the other entries unreachable (fix C20-6) -/
theorem C20_asIs_remove_key_alloc_failure :
    ((C20.asIs (some 13) [.construct 0, .fit 0 C20.fit1, .writeKey 0 C20.key1, .removeKey 0 1]).get 0).map Tab.broken = some true := by decide

/-- `operator==` on two empty tables reads through null (fix C20-7) -/
theorem C20_asIs_compare_empty :
    (step Cfg.asIs (C20.asIs none [.construct 0, .construct 1]) (.compare 0 1)).res = .crash := by decide

/-- `permuteDimensions({})` on an empty table writes into zero-length arrays (fix C20-8) -/
theorem C20_asIs_permute_empty :
    (step Cfg.asIs (C20.asIs none [.construct 0]) (.permute 0 [])).res = .crash := by decide

/-- an aux value read from a file is released with a size different from the one it was allocated with (fix C20-9) -/
theorem C20_asIs_read_aux_size :
    (C20.asIs none [.construct 0, .read 0 C20.file2, .destroy 0]).retired = [([11], 1)] := by decide

/-- move assignment swaps: the moved-from table holds the target's old contents (fix C20-10) -/
theorem C20_asIs_move_assign_not_empty :
    ((step Cfg.asIs (C20.asIs none [.construct 0, .fit 0 C20.fit1, .construct 1, .fit 1 C20.fit1]) (.moveAssign 0 1)).w.get 1).map Tab.ndim = some 1 := by decide

/-- a failed read after `ndim` is assigned leaves a half-built table (C07 guard / C20-11) -/
theorem C20_asIs_read_failure :
    ((C20.asIs none [.construct 0, .read 0 C20.badFile]).get 0).map Tab.broken = some true := by decide

/-- What does hold for the snapshot (`_partial`): histories made only of default construction, move
    construction, reading keys, writing files and destruction keep every invariant — every other
    operation has a falsifying history above. -/
def C20.harmless : Op → Bool
  | .construct _ | .moveConstruct _ _ | .getKey _ _ | .writeFits _ | .destroy _ => true
  | _ => false

theorem C20_asIs_partial (w : World) (h : w.Inv) (op : Op) (hop : C20.harmless op = true) :
    (step Cfg.asIs w op).w.Inv := by
  cases op <;> simp only [C20.harmless, Bool.false_eq_true] at hop
  · simp only [step]
    cases hg : w.get _ with
    | some _ => exact h
    | none => exact h.put _ (fun t e => by cases e; exact Tab.empty_inv)
  · exact onTab_inv h fun t ht => ht
  · rename_i i j
    simp only [step]
    cases hi : w.get i with
    | some _ => cases w.get j <;> exact h
    | none =>
      cases hj : w.get j with
      | none => exact h
      | some s =>
        have hs := h.live s (World.get_mem hj)
        exact (h.put i (o := some s) (fun t e => by cases e; exact hs)).put j (fun t e => by cases e; exact Tab.empty_inv)
  · exact onTab_inv h fun t ht => ht
  · rename_i i
    simp only [step]
    cases hi : w.get i with
    | none => exact h
    | some t =>
      have ht := h.live t (World.get_mem hi)
      have h2 := h.put i (o := none) (fun t e => by cases e)
      refine ⟨h2.live, fun r hr => ?_⟩
      rcases List.mem_cons.mp hr with e | e
      · subst e; obtain ⟨a, b⟩ := destroy_spec t ht; rw [a, b]
      · exact h.dead r e

example : (run Cfg.asIs (World.init none) [.construct 0, .moveConstruct 1 0, .getKey 1 3, .destroy 1]).okB = true := by decide

end PsV
