import PsV.Proofs.LifecycleWorld
/-!
# C20 — a table object stays valid and leak-free across any history, even failed calls

Property theorems only.  They are about `PsV.Lifecycle.step` / `run`, the definitions the driver
executes.  Histories are arbitrary `List Op` (unbounded length, any number of object slots, operations
on dead slots are skipped) over the whole modelled API — default / file / stacking construction, read,
fit, key edits, convolve, permute, move construction / assignment, comparison, write, destruction —;
the environment `cd` is an arbitrary position of one injected `std::bad_alloc`, and read, GLAM and output
failures are arbitrary arguments of the operations.

Three layers:
* `Cfg.repaired` (every fix in force, C20-1 … C20-15, C16-4): the full property for all histories
  (`C20_ownership_inv` … `C20_no_undefined_behaviour`).
* any `Cfg` (`C20_anyCfg_*`): the invariant, absence of undefined behaviour and "failed ⇒ unchanged or empty"
  hold for every call issued in the circumstances `SafeCall c w op` — for each repair, either it is in
  force or the call does not run into the defect it repairs.  This covers every operation for the
  snapshot `Cfg.asIs` (superseding `C20_asIs_partial`) and for `Cfg.head`.
* `Cfg.head` (/repo today, what the driver runs by default: C20-1 … C20-12 in force, the three repairs of
  the stacking constructor C20-13 … C20-15 only proposed): equal to `Cfg.repaired` on every history
  without a stacking constructor (`C20_head_eq_repaired`), and with it everything but the `extents` clause
  as long as its arguments are usable and no allocation fails inside it (`C20_head_*`).

The `asIs_*` / `head_*` witness theorems are decided counterexamples, one per defect, keyed by the
minimal failing history.
-/
namespace PsV
open Lifecycle

/-- Every world reachable from nothing by any history under any single allocation failure. -/
def C20.reach (cd : Option Nat) (ops : List Op) : World := run Cfg.repaired (World.init cd) ops

/-- **ownership_inv**: in every reachable world every live table satisfies `ndim = 0 ⇒ nothing owned`,
    `ndim ≠ 0 ⇒ all arrays owned` (and is not half-built) — after every operation, failed or not. -/
theorem C20_ownership_inv (cd : Option Nat) (ops : List Op) (t : Tab)
    (h : some t ∈ (C20.reach cd ops).objs) : t.Own :=
  ((run_inv (World.init_inv cd) ops).live t h).toOwn

/-- Companion of `ownership_inv` on the allocator side: what the allocator has handed out to a live
    table and not got back is exactly the blocks the table owns; nothing was released twice. -/
theorem C20_ledger_balanced (cd : Option Nat) (ops : List Op) (t : Tab)
    (h : some t ∈ (C20.reach cd ops).objs) : t.ledger.Perm t.blocks ∧ t.bad = 0 :=
  ⟨((run_inv (World.init_inv cd) ops).live t h).ledger, ((run_inv (World.init_inv cd) ops).live t h).bad⟩

/-- **ledger_empty_after_destroy**: every object whose lifetime has ended (destructor, failed
    constructor, the temporary inside move assignment) left an empty ledger with no bad release, and
    destroying any object that is still alive leaves an empty ledger too: all memory obtained from
    the allocator is returned exactly once. -/
theorem C20_ledger_empty_after_destroy (cd : Option Nat) (ops : List Op) :
    (∀ r ∈ (C20.reach cd ops).retired, r = ([], 0)) ∧
    (∀ t, some t ∈ (C20.reach cd ops).objs → (destroy t).1.ledger = [] ∧ (destroy t).1.bad = 0) ∧
    (∀ r ∈ (destroyAll Cfg.repaired (C20.reach cd ops)).retired, r = ([], 0)) :=
  ⟨(run_inv (World.init_inv cd) ops).dead,
   fun t h => destroy_spec t ((run_inv (World.init_inv cd) ops).live t h).toInvX,
   (run_inv (run_inv (World.init_inv cd) ops) _).dead⟩

theorem onTab_get {w : World} {i : Nat} {t : Tab} (f : Tab → Option Nat → Out) (h : w.get i = some t) :
    (onTab w i f).w.get i = some (f t w.cd).tab ∧ (onTab w i f).res = (f t w.cd).res := by
  unfold onTab
  rw [h]
  exact ⟨World.get_put_same w i _, rfl⟩

/-! ## Every operation, every configuration -/

/-- **anyCfg_step**: whatever the configuration, a call issued in the circumstances `SafeCall c w op` keeps
    every table destructible and leak-free (`InvX`: ownership without the `extents` clause, balanced ledger,
    dead objects returned everything), has no undefined behaviour, and keeps the full invariant `Inv` unless it is
    the stacking constructor without C20-13. -/
theorem C20_anyCfg_step (c : Cfg) (w : World) (op : Op) (h : w.InvX) (hs : SafeCall c w op) :
    (step c w op).w.InvX ∧ (step c w op).res ≠ .crash ∧
    (w.Inv → c.stackExtents = true ∨ op.isStack = false → (step c w op).w.Inv) :=
  ⟨(step_ok c h op hs).inv, (step_ok c h op hs).nocrash,
   fun hi he => (step_ok c h op hs).inv.toInv ((step_ok c h op hs).ext hi.allExt he)⟩

/-- **anyCfg_history**: the same along a whole history all of whose calls are safe where they are issued. -/
theorem C20_anyCfg_history (c : Cfg) (w : World) (ops : List Op) (h : w.InvX) (hs : SafeHist c w ops) :
    (run c w ops).InvX ∧
    (∀ pre op post, ops = pre ++ op :: post → (step c (run c w pre) op).res ≠ .crash) ∧
    (w.Inv → (c.stackExtents = true ∨ ∀ op ∈ ops, op.isStack = false) → (run c w ops).Inv) :=
  ⟨run_invX c ops h hs, fun pre op post e => run_nocrash c ops pre op post h hs e, fun hi he => run_inv_of c ops hi hs he⟩

/-- **anyCfg_failed_op_unchanged_or_empty**: whatever the configuration, a safe call on a table that throws
    leaves that table unchanged or empty. -/
theorem C20_anyCfg_failed_op_unchanged_or_empty (c : Cfg) {w : World} (h : w.InvX) (op : Op) (i : Nat) (t : Tab)
    (hop : op.target = some i) (hget : w.get i = some t) (hs : SafeCall c w op)
    (hthrew : (step c w op).res = .threw) :
    ∃ t', (step c w op).w.get i = some t' ∧ (t'.shape = t.shape ∨ t'.isEmpty = true) := by
  have hinv : t.InvX := h.live t (World.get_mem hget)
  have key : ∀ f : Tab → Option Nat → Out, Spec t (f t w.cd) → (onTab w i f).res = .threw →
      ∃ t', (onTab w i f).w.get i = some t' ∧ (t'.shape = t.shape ∨ t'.isEmpty = true) := by
    intro f hsp hr
    obtain ⟨h1, h2⟩ := onTab_get f hget
    exact ⟨_, h1, hsp.threw (h2 ▸ hr)⟩
  cases op <;> simp only [Op.target, Option.some.injEq, reduceCtorEq] at hop <;> subst hop <;>
    simp only [step] at hthrew ⊢ <;> simp only [SafeCall] at hs
  · exact key _ (read_spec c t _ _ hinv (hs t hget)) hthrew
  · exact key _ (fit_spec c t _ _ hinv (hs t hget)) hthrew
  · exact key _ (writeKey_spec c t _ _ hinv (hs t hget)) hthrew
  · exact key _ (removeKey_spec c t _ _ hinv (hs t hget)) hthrew
  · exact key _ (getKey_spec t _ _ hinv) hthrew
  · exact key _ (convolve_spec c t _ _ _ hinv (hs t hget)) hthrew
  · exact key _ (permute_spec c t _ _ hinv (hs t hget)) hthrew
  · exact key _ (writeFits_spec t _ _ hinv) hthrew

/-- hypotheses of the three `anyCfg` theorems, for the snapshot: a fitted table; `read` into it is safe (it is refused)
    and throws; `fit` on it is not safe (C20-2) -/
example : (run Cfg.asIs (World.init none) [.construct 0, .fit 0 ⟨true, true, [⟨2, 8, 5⟩]⟩]).InvX :=
  (C20_anyCfg_history Cfg.asIs _ _ (World.init_inv none).toInvX (safeHistB_sound (by decide))).1
example : SafeCall Cfg.asIs (run Cfg.asIs (World.init none) [.construct 0, .fit 0 ⟨true, true, [⟨2, 8, 5⟩]⟩])
    (.read 0 ⟨0, 0, [⟨2, 8, 5⟩], true, []⟩) := safeCallB_sound (by decide)
example : (step Cfg.asIs (run Cfg.asIs (World.init none) [.construct 0, .fit 0 ⟨true, true, [⟨2, 8, 5⟩]⟩])
    (.read 0 ⟨0, 0, [⟨2, 8, 5⟩], true, []⟩)).res = .threw := by decide
example : safeCallB Cfg.asIs (run Cfg.asIs (World.init none) [.construct 0, .fit 0 ⟨true, true, [⟨2, 8, 5⟩]⟩])
    (.fit 0 ⟨true, true, [⟨2, 8, 5⟩]⟩) = false := by decide

/-- **safeCall_repaired**: with every repair in force no circumstance is excluded: in a world whose tables satisfy
    the invariant every call is safe.  (So the `anyCfg` theorems specialise to the `Cfg.repaired` theorems.) -/
theorem C20_safeCall_repaired (w : World) (h : w.Inv) (op : Op) : SafeCall Cfg.repaired w op :=
  safeCall_repaired h.allExt op

example : (World.init (some 3)).Inv := World.init_inv _

/-- **stack_sources_untouched**: whatever the configuration and however it ends, the stacking constructor changes
    no object other than the one it constructs. -/
theorem C20_stack_sources_untouched (c : Cfg) (w : World) (i : Nat) (srcs : List Nat) (order : Nat) (j : Nat) (hj : i ≠ j) :
    (step c w (.stack i srcs order)).w.get j = w.get j := by
  simp only [step]
  cases w.get i with
  | some _ => rfl
  | none =>
    cases srcs.mapM w.get with
    | none => rfl
    | some ts =>
      simp only [stack, stackFail]
      repeat' split
      all_goals first | rfl | exact World.get_put_ne w _ hj

/-! ## The repaired code, continued -/

/-- **failed_op_unchanged_or_empty**: in a reachable world, an operation on a table that throws
    (invalid argument, I/O failure, allocation failure, failed fit) leaves that table with its abstract
    state unchanged, or empty; and no operation has undefined behaviour (`C20_no_undefined_behaviour`). -/
theorem C20_failed_op_unchanged_or_empty (cd : Option Nat) (ops : List Op) (op : Op) (i : Nat) (t : Tab)
    (hop : op.target = some i) (hget : (C20.reach cd ops).get i = some t)
    (hthrew : (step Cfg.repaired (C20.reach cd ops) op).res = .threw) :
    ∃ t', (step Cfg.repaired (C20.reach cd ops) op).w.get i = some t' ∧
      (t'.shape = t.shape ∨ t'.isEmpty = true) :=
  C20_anyCfg_failed_op_unchanged_or_empty Cfg.repaired (run_inv (World.init_inv cd) ops).toInvX op i t hop hget
    (safeCall_repaired (run_inv (World.init_inv cd) ops).allExt op) hthrew

/-- **no_undefined_behaviour**: no call of any history has undefined behaviour (null dereference, out-of-bounds
    write, double free — `Res.crash` in the model), whatever its arguments and whichever allocation fails. -/
theorem C20_no_undefined_behaviour (cd : Option Nat) (ops : List Op) (op : Op) :
    (step Cfg.repaired (C20.reach cd ops) op).res ≠ .crash :=
  step_nocrash (run_inv (World.init_inv cd) ops) op

/-- **moved_from_empty**: after move construction or move assignment from a different object the
    source is the empty table (`ndim = 0`, nothing owned, empty ledger). -/
theorem C20_moved_from_empty (w : World) (i j : Nat) (hij : i ≠ j) :
    ((step Cfg.repaired w (.moveConstruct i j)).done = true →
      (step Cfg.repaired w (.moveConstruct i j)).w.get j = some Tab.empty) ∧
    ((step Cfg.repaired w (.moveAssign i j)).done = true →
      (step Cfg.repaired w (.moveAssign i j)).w.get j = some Tab.empty) := by
  constructor
  · simp only [step]
    cases w.get i <;> cases w.get j <;> simp [skip, World.get_put_same]
  · simp only [step]
    cases hi : w.get i <;> cases hj : w.get j <;> simp [skip, hij, Cfg.repaired]
    have := World.get_put_same (w.put i (some ‹Tab›)) j (some Tab.empty)
    simpa [World.get, World.put] using this


/-- **failing_read_any_stage**: with the read guard in force (C07 / C20-11; `Cfg.repaired` and `Cfg.head` have it), a read
    into an empty table which fails at ANY stage of `read_fits_core` — before `ndim` is assigned (`kind = 1`: open, first
    HDU, dimension count), at the `ORDERi` keys (2), at the size of the coefficient image (4), at the coefficient pixels
    (5: e.g. a file cut short inside the primary data), at the header / size (3) or the data (6) of any knot vector, at
    the extents data (7) — and under any position of an injected allocation failure: throws, leaves the abstract state
    of the table as it was (empty), and has returned every block it obtained exactly once (`InvX`: ledger = blocks
    owned = nothing, no bad release).  The failure stages of the model are failures indeed (not silently successful). -/
theorem C20_failing_read_any_stage (c : Cfg) (hg : c.readGuard = true) (t : Tab) (cd : Option Nat) (f : FileDesc)
    (h : t.InvX) (h0 : t.ndim = 0) (hs : c.readAuxExact = true ∨ ∀ e ∈ f.aux, e.stored = e.raw)
    (hf : f.kind = 1 ∨ f.failsLate) :
    (Lifecycle.read c t cd f).res = .threw ∧ (Lifecycle.read c t cd f).tab.shape = t.shape ∧ (Lifecycle.read c t cd f).tab.InvX ∧
      (Lifecycle.read c t cd f).tab.ledger = [] := by
  have hspec := read_spec c t cd f h (Or.inr ⟨Or.inl hg, hs⟩)
  have key : (Lifecycle.read c t cd f).res = .threw ∧ (Lifecycle.read c t cd f).tab.shape = t.shape := by
    unfold Lifecycle.read
    rw [if_neg (by simp [h0])]
    split
    · exact ⟨rfl, rfl⟩
    · rename_i hk
      have hl : f.failsLate := hf.resolve_left fun e => hk (Or.inl e)
      have hno := runSteps_fail (readSteps c f) cd [] (fail_mem_readSteps c f hl)
      simp [build, hno, hg, Tab.apply, Tab.shape]
  refine ⟨key.1, key.2, hspec.inv, ?_⟩
  have hn : (Lifecycle.read c t cd f).tab.ndim = 0 := by
    have := key.2; simp only [Tab.shape, Prod.mk.injEq] at this; rw [this.1]; exact h0
  exact hspec.inv.ledger_nil hn

/-- the hypotheses are satisfiable: a two-dimensional file with a key whose value changes size, every failing stage
    (for the per-knot-vector stages: both dimensions), the empty table, an allocation failure before the stage -/
example : ∀ f ∈ ([(1, 0), (2, 0), (3, 0), (3, 1), (4, 0), (5, 0), (6, 0), (6, 1), (7, 0)].map fun ka =>
    (⟨ka.1, ka.2, [⟨2, 8, 5⟩, ⟨1, 6, 4⟩], true, [⟨7, 4, 11, 9⟩]⟩ : FileDesc)), f.kind = 1 ∨ f.failsLate := by decide
example : Tab.empty.InvX ∧ Tab.empty.ndim = 0 := ⟨Tab.empty_invX, rfl⟩
/-- what the stages look like on that file, no allocation failure: the coefficient stage (5) obtains 14 blocks (aux store 4 and
    the raw value block exchanged for the exact one, order, periods, knots, nknots, extents 2, naxes, strides, coefficients:
    15 events) and returns the 13 it still holds; stage 6 of dimension 1
    has also obtained both knot vectors -/
example : ((read Cfg.repaired Tab.empty none ⟨5, 0, [⟨2, 8, 5⟩, ⟨1, 6, 4⟩], true, [⟨7, 4, 11, 9⟩]⟩).evs.length,
           (read Cfg.repaired Tab.empty none ⟨6, 1, [⟨2, 8, 5⟩, ⟨1, 6, 4⟩], true, [⟨7, 4, 11, 9⟩]⟩).evs.length,
           (read Cfg.repaired Tab.empty none ⟨4, 0, [⟨2, 8, 5⟩, ⟨1, 6, 4⟩], true, [⟨7, 4, 11, 9⟩]⟩).evs.length,
           (read Cfg.repaired Tab.empty (some 9) ⟨5, 0, [⟨2, 8, 5⟩, ⟨1, 6, 4⟩], true, [⟨7, 4, 11, 9⟩]⟩).res) =
          (28, 32, 22, Res.threw) := by decide


/-! ## Non-vacuity: concrete histories exercising the hypotheses -/

namespace C20
def d1 : List Dim := [⟨2, 8, 5⟩]
def d2 : List Dim := [⟨2, 8, 5⟩, ⟨1, 6, 4⟩]
def fit1 : FitArgs := ⟨true, true, d1⟩
def file2 : FileDesc := ⟨0, 0, d2, true, [⟨7, 4, 11, 9⟩]⟩
def badFile : FileDesc := ⟨3, 1, d2, true, [⟨7, 4, 11, 9⟩]⟩
def key1 : KeyArg := ⟨0, 1, 4, 4⟩
/-- read, edit keys, convolve, permute, move, compare, write (one hitting an I/O error), stack, a fit whose GLAM
    step fails, destroy — with the 30th allocation failing (inside convolve) -/
def hist : List Op :=
  [.construct 0, .read 0 file2, .writeKey 0 key1, .writeKey 0 ⟨0, 1, 4, 9⟩, .removeKey 0 7, .construct 1,
   .fit 1 fit1, .read 1 file2, .permute 0 [1, 0], .convolve 0 1 2, .moveAssign 1 0, .moveConstruct 2 1,
   .compare 0 1, .read 0 badFile, .writeFits 2 true, .writeFits 2 false, .stack 3 [2, 2, 2] 2,
   .fit 0 ⟨true, false, d1⟩, .destroy 2]
/-- three fitted tables stacked, the result used and destroyed -/
def stackHist : List Op :=
  [.construct 0, .fit 0 fit1, .construct 1, .fit 1 fit1, .stack 2 [0, 1, 0] 2, .writeFits 2 true, .destroy 0, .destroy 1]
end C20

example : (C20.reach none C20.hist).okB = true := by decide
example : (C20.reach (some 29) C20.hist).okB = true := by decide
example : ((C20.reach none C20.hist).objs.map (Option.map Tab.ndim)) = [some 0, some 0, none, some 3] := by decide
example : (C20.reach none C20.hist).retired.length = 4 := by decide
/-- a throwing call that leaves the table unchanged (read into a populated table) and one that empties it
    (allocation failure inside convolve) -/
example : (step Cfg.repaired (C20.reach none [.construct 0, .read 0 C20.file2]) (.read 0 C20.file2)).res = .threw := by decide
example : (step Cfg.repaired (C20.reach (some 16) [.construct 0, .read 0 C20.file2]) (.convolve 0 0 2)).res = .threw ∧
    ((step Cfg.repaired (C20.reach (some 16) [.construct 0, .read 0 C20.file2]) (.convolve 0 0 2)).w.get 0).map Tab.isEmpty = some true := by decide
example : (step Cfg.repaired (C20.reach none [.construct 0, .read 0 C20.file2]) (.moveConstruct 1 0)).done = true := by decide
/-- a fit whose GLAM step fails and a write hitting an I/O error throw and leave the table as it was -/
example : (step Cfg.repaired (C20.reach none [.construct 0]) (.fit 0 ⟨true, false, C20.d1⟩)).res = .threw ∧
    ((step Cfg.repaired (C20.reach none [.construct 0]) (.fit 0 ⟨true, false, C20.d1⟩)).w.get 0).map Tab.isEmpty = some true := by decide
example : (step Cfg.repaired (C20.reach none [.construct 0, .read 0 C20.file2]) (.writeFits 0 false)).res = .threw := by decide
/-- the stacking constructor: completing; with each of its 26 allocations failing in turn; with unusable arguments -/
example : (C20.reach none C20.stackHist).okB = true ∧
    ((C20.reach none C20.stackHist).objs.map (Option.map Tab.ndim)) = [none, none, some 2] := by decide
example : ∀ k ∈ List.range 26, (run Cfg.repaired (C20.reach none (C20.stackHist.take 4)) [.stack 2 [0, 1, 0] 2]).okB = true ∧
    (step Cfg.repaired { C20.reach none (C20.stackHist.take 4) with cd := some k } (.stack 2 [0, 1, 0] 2)).res = .threw := by decide
example : (step Cfg.repaired (C20.reach none [.construct 0]) (.convolve 0 0 2)).res = .threw := by decide
example : (step Cfg.repaired (C20.reach none [.construct 0, .read 0 C20.file2]) (.stack 1 [0] 2)).res = .threw := by decide
/-- `SafeHist` is satisfiable for the snapshot by a history which uses every operation excluded from `C20.harmless`
    (and is then kept by `C20_anyCfg_history`) -/
example : SafeHist Cfg.asIs (World.init none)
    [.construct 0, .fit 0 C20.fit1, .writeKey 0 C20.key1, .removeKey 0 1, .convolve 0 0 2, .permute 0 [0], .construct 1,
     .read 1 ⟨0, 0, C20.d2, true, [⟨7, 4, 9, 9⟩]⟩, .compare 0 1, .moveAssign 0 1, .constructFile 2 ⟨0, 0, C20.d1, true, []⟩,
     .destroy 0] := safeHistB_sound (by decide)

/-! ## The code as it is: decided witnesses (`Cfg.asIs`), one per defect, keyed by the minimal history

The full statements above are FALSE for the snapshot; what holds for it is `C20_anyCfg_step` with `SafeCall Cfg.asIs`
(and its corollary `C20_asIs_partial`) below. -/

def C20.asIs (cd : Option Nat) (ops : List Op) : World := run Cfg.asIs (World.init cd) ops

/-- `write_key` on an empty table allocates aux storage the destructor never releases (fix C20-1) -/
theorem C20_asIs_write_key_on_empty :
    (C20.asIs none [.construct 0, .writeKey 0 C20.key1]).okB = false ∧
    (C20.asIs none [.construct 0, .writeKey 0 C20.key1, .destroy 0]).retired = [([4, 4, 16, 8], 0)] := by decide

/-- `fit` on a populated table overwrites every pointer: the old arrays are never released (fix C20-2) -/
theorem C20_asIs_fit_on_populated :
    (C20.asIs none [.construct 0, .fit 0 C20.fit1, .fit 0 C20.fit1, .destroy 0]).retired ≠ [([], 0)] := by decide

/-- an allocation failure inside `fit` leaves `ndim ≠ 0` with null arrays: the destructor crashes (fix C20-3) -/
theorem C20_asIs_fit_alloc_failure :
    ((C20.asIs (some 3) [.construct 0, .fit 0 C20.fit1]).get 0).map Tab.broken = some true := by decide

/-- a GLAM failure leaves a populated table behind a throwing call (fix C20-3) -/
theorem C20_asIs_fit_glam_failure :
    ((C20.asIs none [.construct 0, .fit 0 ⟨true, false, C20.d1⟩]).get 0).map Tab.ndim = some 1 := by decide

/-- an allocation failure inside `convolve` (after the old arrays are released) leaves dangling pointers (fix C20-4) -/
theorem C20_asIs_convolve_alloc_failure :
    ((C20.asIs (some 15) [.construct 0, .read 0 C20.file2, .convolve 0 0 2]).get 0).map Tab.broken = some true := by decide

/-- `convolve` on an empty table dereferences null (fix C20-5) -/
theorem C20_asIs_convolve_on_empty :
    (step Cfg.asIs (C20.asIs none [.construct 0]) (.convolve 0 0 2)).res = .crash := by decide

/-- an allocation failure inside `remove_key` leaves `aux` dangling and the other entries unreachable (fix C20-6) -/
theorem C20_asIs_remove_key_alloc_failure :
    ((C20.asIs (some 13) [.construct 0, .fit 0 C20.fit1, .writeKey 0 C20.key1, .removeKey 0 1]).get 0).map Tab.broken = some true := by decide

/-- `operator==` on two empty tables reads through null (fix C20-7) -/
theorem C20_asIs_compare_empty :
    (step Cfg.asIs (C20.asIs none [.construct 0, .construct 1]) (.compare 0 1)).res = .crash := by decide

/-- `permuteDimensions({})` on an empty table writes into zero-length arrays (fix C20-8) -/
theorem C20_asIs_permute_empty :
    (step Cfg.asIs (C20.asIs none [.construct 0]) (.permute 0 [])).res = .crash := by decide

/-- an aux value read from a file is released with a size different from the one it was allocated with (fix C20-9) -/
theorem C20_asIs_read_aux_size :
    (C20.asIs none [.construct 0, .read 0 C20.file2, .destroy 0]).retired = [([11], 1)] := by decide

/-- move assignment swaps: the moved-from table holds the target's old contents (fix C20-10) -/
theorem C20_asIs_move_assign_not_empty :
    ((step Cfg.asIs (C20.asIs none [.construct 0, .fit 0 C20.fit1, .construct 1, .fit 1 C20.fit1]) (.moveAssign 0 1)).w.get 1).map Tab.ndim = some 1 := by decide

/-- a failed read after `ndim` is assigned leaves a half-built table (C07 guard / C20-11) -/
theorem C20_asIs_read_failure :
    ((C20.asIs none [.construct 0, .read 0 C20.badFile]).get 0).map Tab.broken = some true := by decide


/-- the stacking constructor never deletes the two padding tables it makes: 2 × 9 blocks stay allocated (fix C20-12) -/
theorem C20_asIs_stack_leaks_paddings :
    (C20.asIs none C20.stackHist).retired.map (fun r => r.1.length) = [0, 0, 9, 9] := by decide

/-- What does hold for the snapshot without looking at the circumstances (`_partial`): histories made only of
    default construction, move construction, reading keys, writing files and destruction keep every invariant.

    **Excluded** from `harmless`, each because of the defect named (the decided witnesses above), and what
    `SafeCall Cfg.asIs` demands of a call instead (`C20_asIs_safeCall`):
    * `constructFile`, `read` — a failed read leaves a half-built table / leaks (C20-11); aux values are released
      with another size than allocated (C20-9).  Safe when the read runs to its end and no aux value changes size.
    * `fit` — on a populated table leaks it (C20-2); failure leaves a half-built table (C20-3).  Safe on an empty
      table when no allocation and not GLAM fails (or the arguments are refused).
    * `writeKey` — on an empty table leaks (C20-1).  Safe on a populated table (or when the key is refused).
    * `removeKey` — allocation failure leaves `aux` dangling (C20-6).  Safe when the allocation succeeds or the key is absent.
    * `convolve` — bad dimension / empty kernel dereferences null (C20-5), allocation failure leaves dangling
      pointers (C20-4).  Safe with arguments in range and no allocation failure.
    * `permute` — `permuteDimensions({})` on an empty table overflows (C20-8).  Safe on a populated table or with a refused permutation.
    * `compare` — two empty tables: null dereference (C20-7).  Safe when one of them is populated.
    * `moveAssign` — keeps the invariant (always safe); what fails is `moved_from_empty` (C20-10).
    * `stack` — always leaks its paddings when it completes (C20-12), leaks on allocation failure (C20-14), undefined
      behaviour on unusable arguments (C20-15): safe only when an allocation failure hits it **and** … never, for
      usable arguments (`C20_asIs_stack_never_safe`). -/
def C20.harmless : Op → Bool
  | .construct _ | .moveConstruct _ _ | .getKey _ _ | .writeFits _ _ | .destroy _ => true
  | _ => false

theorem C20_asIs_partial (w : World) (h : w.Inv) (op : Op) (hop : C20.harmless op = true) :
    (step Cfg.asIs w op).w.Inv := by
  refine (C20_anyCfg_step Cfg.asIs w op h.toInvX ?_).2.2 h (Or.inr ?_)
  · cases op <;> simp only [C20.harmless, Bool.false_eq_true] at hop <;> trivial
  · cases op <;> simp only [C20.harmless, Bool.false_eq_true] at hop <;> rfl

example : (run Cfg.asIs (World.init none) [.construct 0, .moveConstruct 1 0, .getKey 1 3, .writeFits 1 false, .destroy 1]).okB = true := by decide

/-- **asIs_safeCall**: what `SafeCall` demands of the operations excluded from `harmless` in the snapshot, spelled
    out (sufficient conditions in terms of the arguments and of `Completes`, the program running to its end). -/
theorem C20_asIs_safeCall (w : World) :
    (∀ i j, SafeCall Cfg.asIs w (.moveAssign i j)) ∧
    (∀ i f, Completes w.cd (readSteps Cfg.asIs f) → (∀ e ∈ f.aux, e.stored = e.raw) →
      SafeCall Cfg.asIs w (.read i f) ∧ SafeCall Cfg.asIs w (.constructFile i f)) ∧
    (∀ i a, (∀ t, w.get i = some t → t.ndim = 0) → Completes w.cd (fitSteps a) → SafeCall Cfg.asIs w (.fit i a)) ∧
    (∀ i a, (∀ t, w.get i = some t → t.ndim ≠ 0) → SafeCall Cfg.asIs w (.writeKey i a)) ∧
    (∀ i id, (∀ t, w.get i = some t → Completes w.cd [.a (8 * (t.aux.length - 1))]) → SafeCall Cfg.asIs w (.removeKey i id)) ∧
    (∀ i dim nk, (∀ t, w.get i = some t → dim < t.ndim ∧ nk ≠ 0 ∧ t.noExtents = false ∧ Completes w.cd (convSteps t dim nk)) →
      SafeCall Cfg.asIs w (.convolve i dim nk)) ∧
    (∀ i p, (∀ t, w.get i = some t → t.ndim ≠ 0 ∧ t.noExtents = false) → SafeCall Cfg.asIs w (.permute i p)) ∧
    (∀ i j, (∀ t, w.get i = some t → t.ndim ≠ 0) → SafeCall Cfg.asIs w (.compare i j)) := by
  refine ⟨fun _ _ => trivial, fun i f hc he => ⟨fun t _ => Or.inr ⟨Or.inr hc, Or.inr he⟩, fun _ => ⟨Or.inr hc, Or.inr he⟩⟩,
    fun i a h0 hc t ht => ⟨Or.inr (Or.inl (h0 t ht)), Or.inr hc⟩, fun i a h0 t ht => Or.inr (Or.inl (h0 t ht)),
    fun i id hc t ht => Or.inr (Or.inr (hc t ht)), fun i dim nk hc t ht => ?_, fun i p hc t ht => ?_,
    fun i j h0 t s ht _ => Or.inr (Or.inl (h0 t ht))⟩
  · obtain ⟨h1, h2, h3, h4⟩ := hc t ht
    exact ⟨Or.inr ⟨h1, h2⟩, Or.inl h3, Or.inr h4⟩
  · obtain ⟨h1, h2⟩ := hc t ht
    exact ⟨Or.inr (Or.inl h1), Or.inl h2⟩

/-- in the snapshot the stacking constructor is never safe for usable arguments: it leaks its paddings when it
    completes and whatever it had obtained when an allocation fails -/
theorem C20_asIs_stack_never_safe (cd : Option Nat) (ts : List Tab) (order : Nat) (hv : stackValid ts = true) :
    ¬ StackSafe Cfg.asIs cd ts order := by
  intro ⟨_, h⟩
  obtain ⟨h1, h2⟩ := h hv
  have hc := h1.resolve_left (by decide)
  exact (h2.resolve_left (by decide)) hc

example : stackValid [{ ndim := 1, dims := [⟨2, 8, 5⟩], core := true }, { ndim := 1, dims := [⟨2, 8, 5⟩], core := true }] = true := by decide

/-! ## The library as it is today (`Cfg.head`): what the driver runs

C20-1 … C20-12 are in /repo; modelling the stacking constructor showed three more defects, for which repairs are
proposed (fixes/C20-13 … C20-15) but not in /repo.  Witnesses first, then what holds. -/

def C20.head (cd : Option Nat) (ops : List Op) : World := run Cfg.head (World.init cd) ops

/-- the table made by the stacking constructor has no `extents` arrays (`extents == NULL`, `ndim ≠ 0`): the ownership
    invariant fails (proposed fix C20-13) … -/
theorem C20_head_stack_no_extents :
    ((C20.head none C20.stackHist).get 2).map Tab.noExtents = some true ∧ (C20.head none C20.stackHist).okB = false ∧
    (C20.head none C20.stackHist).okXB = true := by decide

/-- … and `permuteDimensions` / `convolve` on it read through the null pointer -/
theorem C20_head_stack_then_permute_or_convolve :
    (step Cfg.head (C20.head none C20.stackHist) (.permute 2 [1, 0])).res = .crash ∧
    (step Cfg.head (C20.head none C20.stackHist) (.convolve 2 0 3)).res = .crash := by decide

/-- an allocation failure inside the stacking constructor (here: the 20th of its 26 allocations) leaks what the three
    objects had obtained: 9 + 9 + 1 blocks (proposed fix C20-14) -/
theorem C20_head_stack_alloc_failure :
    (step Cfg.head { C20.head none (C20.stackHist.take 4) with cd := some 19 } (.stack 2 [0, 1, 0] 2)).res = .threw ∧
    ((step Cfg.head { C20.head none (C20.stackHist.take 4) with cd := some 19 } (.stack 2 [0, 1, 0] 2)).w.retired.map
      (fun r => r.1.length)) = [9, 9, 1] := by decide

/-- a single table, an empty table among the inputs, tables of different shapes: undefined behaviour (the arguments are
    examined by `assert` only, and not all of these by any; proposed fix C20-15) -/
theorem C20_head_stack_unusable_arguments :
    (step Cfg.head (C20.head none (C20.stackHist.take 4)) (.stack 2 [0] 2)).res = .crash ∧
    (step Cfg.head (C20.head none (C20.stackHist.take 4 ++ [.construct 3])) (.stack 2 [0, 3, 1] 2)).res = .crash ∧
    (step Cfg.head (C20.head none (C20.stackHist.take 4 ++ [.convolve 1 0 2])) (.stack 2 [0, 1, 0] 2)).res = .crash := by decide

/-- **head_eq_repaired**: on every operation but the stacking constructor `Cfg.head` is `Cfg.repaired` … -/
theorem C20_head_eq_repaired (w : World) (op : Op) (h : op.isStack = false) : step Cfg.head w op = step Cfg.repaired w op := by
  cases op <;> first | rfl | (simp [Op.isStack] at h)

/-- … so a history without it reaches the same world, and all theorems about `C20.reach` apply to what the driver runs -/
theorem C20_head_reach_eq (cd : Option Nat) (ops : List Op) (h : ∀ op ∈ ops, op.isStack = false) :
    C20.head cd ops = C20.reach cd ops := by
  unfold C20.head C20.reach
  generalize World.init cd = w
  induction ops generalizing w with
  | nil => rfl
  | cons op ops ih =>
    simp only [run, List.foldl_cons]
    rw [C20_head_eq_repaired w op (h op List.mem_cons_self)]
    exact ih (fun o ho => h o (List.mem_cons_of_mem _ ho)) _

example : ∀ op ∈ (C20.hist.take 16), op.isStack = false := by decide

/-- **head_safeCall**: in the library as it is, a call is safe unless it is `convolve` / `permuteDimensions` on a table
    without `extents` (and not refused anyway), or a stacking constructor with unusable arguments or hit by the
    injected allocation failure. -/
theorem C20_head_safeCall (w : World) (op : Op)
    (hconv : ∀ i dim nk, op = .convolve i dim nk → ∀ t, w.get i = some t → t.noExtents = false ∨ t.ndim ≤ dim ∨ nk = 0)
    (hperm : ∀ i p, op = .permute i p → ∀ t, w.get i = some t → t.noExtents = false ∨ p.isPerm (List.range t.ndim) = false)
    (hstack : ∀ i srcs order, op = .stack i srcs order → ∀ ts, srcs.mapM w.get = some ts →
      stackValid ts = true ∧ StackCompletes Cfg.head w.cd (ts.headD Tab.empty).dims ts.length order) :
    SafeCall Cfg.head w op := by
  cases op <;> simp only [SafeCall]
  · intro _; exact ⟨Or.inl rfl, Or.inl rfl⟩
  · intro t _; exact Or.inr ⟨Or.inl rfl, Or.inl rfl⟩
  · intro t _; exact ⟨Or.inl rfl, Or.inl rfl⟩
  · intro t _; exact Or.inl rfl
  · intro t _; exact Or.inl rfl
  · intro t ht; exact ⟨Or.inl rfl, hconv _ _ _ rfl t ht, Or.inl rfl⟩
  · intro t ht; exact ⟨Or.inl rfl, hperm _ _ rfl t ht⟩
  · intro t s _ _; exact Or.inl rfl
  · intro _ ts hm
    obtain ⟨hv, hc⟩ := hstack _ _ _ rfl ts hm
    exact ⟨Or.inr hv, fun _ => ⟨Or.inr hc, Or.inl rfl⟩⟩

/-- **head_invX** (`_partial`: the `extents` clause of the ownership invariant and the unsafe calls are what is
    missing, see the witnesses): along every history of safe calls, under any allocation-failure position, the library as
    it is keeps every table destructible and leak-free, every dead object has returned all memory exactly once —
    including the padding tables of the stacking constructor —, no call has undefined behaviour, and destroying
    everything that is still alive leaves nothing behind. -/
theorem C20_head_invX_partial (cd : Option Nat) (ops : List Op) (hs : SafeHist Cfg.head (World.init cd) ops) :
    (∀ t, some t ∈ (C20.head cd ops).objs → t.OwnX ∧ t.ledger.Perm t.blocks ∧ t.bad = 0) ∧
    (∀ r ∈ (C20.head cd ops).retired, r = ([], 0)) ∧
    (∀ pre op post, ops = pre ++ op :: post → (step Cfg.head (C20.head cd pre) op).res ≠ .crash) ∧
    (∀ r ∈ (destroyAll Cfg.head (C20.head cd ops)).retired, r = ([], 0)) := by
  have h := C20_anyCfg_history Cfg.head (World.init cd) ops (World.init_inv cd).toInvX hs
  refine ⟨fun t ht => ⟨(h.1.live t ht).toOwnX, (h.1.live t ht).ledger, (h.1.live t ht).bad⟩, h.1.dead, h.2.1, ?_⟩
  exact (run_invX Cfg.head _ h.1 (safeHist_destroys Cfg.head _ _)).dead

/-- the stacked table is used, moved and destroyed; the failing stacking constructor of the witness above is not safe -/
example : SafeHist Cfg.head (World.init none) (C20.stackHist ++ [.writeKey 2 C20.key1, .moveConstruct 0 2, .permute 0 [0], .destroy 0]) :=
  safeHistB_sound (by decide)
example : safeCallB Cfg.head { C20.head none (C20.stackHist.take 4) with cd := some 19 } (.stack 2 [0, 1, 0] 2) = false := by decide

end PsV
