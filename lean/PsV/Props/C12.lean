import PsV.Proofs.Sync
/-!
# C12 — the parallel line search of the monotonic fit terminates with the same result under every
thread schedule and for every worker count

Property theorems only.  They are about `PsV.Sync.step?` / `spur?` / `runSched` / `selectSeq`, the definitions
the driver `psvdriver C12` executes when it replays the pthread-call traces of the real `walk_descents`.
`Reach c s`: `s` is reachable from `init c` by pthread-call transitions **and spurious wake-ups**.
`c.repaired = true` is the protocol after `fixes/C12-1.diff` (worker states are tested before the first
`pthread_cond_wait`); `c.repaired = false` is the code as published.  Everything is parametric in the number of
workers `c.n ≥ 1` (what `get_nthreads` returns) and the number of trial steps `c.m`, hence in the number of blocks.
Safety theorems (invariant, results-ready, data-race freedom, result) hold for both variants; deadlock freedom and
termination need the repair, and `C12_lost_wakeup_reachable` shows that they fail without it.
-/
namespace PsV
open PsV.Sync

/-- a non-trivial configuration used in the satisfiability examples: 2 workers, 3 trial steps (2 blocks) -/
def c12ex (rep : Bool) : Cfg := { n := 2, m := 3, less := fun a b => a == 2 && b == 0, repaired := rep }

/-- Invariant preservation: every reachable state satisfies `Inv` (all 20 clauses, see `PsV.Sync.Inv`). -/
theorem C12_inv_preserved (c : Cfg) (hn : 0 < c.n) (s : State) (h : Reach c s) : Inv c s :=
  reach_inv c hn h

/-- The three clauses named in the design, spelled out: mutex discipline (the owner is exactly the thread whose pc is
    inside a critical section, hence at most one such thread); a worker in the wait set has state WAIT unless the
    coordinator is between setting the states and its broadcast; a waiting coordinator (repaired protocol) has an
    active worker in state RUN or a worker about to broadcast. -/
theorem C12_invariants (c : Cfg) (hn : 0 < c.n) (s : State) (h : Reach c s) :
    (s.owner = some 0 ↔ cHolds s.cpc = true) ∧ (∀ w, s.owner = some (w+1) ↔ wHolds (s.wpc w) = true) ∧
    (∀ w, s.wpc w = .waiting → s.st w = .wait ∨ isBcast s.cpc = true) ∧
    (c.repaired = true → s.cpc = .waiting →
      (∃ j, j < c.active s.blk ∧ s.st j = .run) ∨ (∃ w, s.wpc w = .bcast)) :=
  have i := reach_inv c hn h
  ⟨i.own0, i.ownW, i.waitSt, i.waitRun⟩

/-- **No deadlock / no lost wake-up** (repaired protocol): every reachable non-final state has an enabled
    non-spurious transition. -/
theorem C12_no_deadlock (c : Cfg) (hn : 0 < c.n) (hr : c.repaired = true) (s : State) (h : Reach c s)
    (hf : isFinal s = false) : anyEnabled c s = true :=
  (anyEnabled_iff c s).mpr (enabled_of_inv c s (reach_inv c hn h) hr (by simpa [isFinal] using hf))

/-- **Results are ready when read** (both variants): when the coordinator is about to leave the wait loop and scan
    the results of block `blk`, every active worker `j` holds the result for trial index `blk*n+j`. -/
theorem C12_results_ready_when_read (c : Cfg) (hn : 0 < c.n) (s : State) (h : Reach c s)
    (hp : s.cpc = .unlockB) (j : Nat) (hj : j < c.active s.blk) : s.val j = some (s.blk * c.n + j) := by
  have i := reach_inv c hn h
  have h1 := (i.blockVals (by simp [hp, inBlock]) j hj).2
  have h2 := i.unlockBAll hp j hj
  rcases h1 with h1 | h1
  · rw [h2] at h1; cases h1
  · exact h1

/-- **No data race on the trial records** (both variants): whenever the coordinator is about to write a worker's
    `alpha`/`state` (`lockA`, `lockT`) or to read its outputs and overwrite `x` (`unlockB`), no worker is between its
    `unlock` after seeing RUN and the `lock` that publishes its result (the only region where a worker touches them). -/
theorem C12_no_data_race (c : Cfg) (hn : 0 < c.n) (s : State) (h : Reach c s)
    (hp : s.cpc = .lockA ∨ s.cpc = .unlockB ∨ s.cpc = .lockT) (w : Nat) : s.wpc w ≠ .lock2 := by
  have i := reach_inv c hn h
  intro hw
  have hrun := i.lock2Run w hw
  have hb := i.runBlock w hrun
  rcases hp with hp | hp | hp
  · simp [hp, inBlock] at hb
  · have := i.unlockBAll hp w hb.2; rw [this] at hrun; cases hrun
  · simp [hp, inBlock] at hb

/-- **Ranking function**: every non-spurious transition out of a reachable state decreases `rank`. -/
theorem C12_rank_decreases (c : Cfg) (hn : 0 < c.n) (s s' : State) (t : Nat) (h : Reach c s)
    (hs : step? c s t = some s') : rank c s' < rank c s :=
  rank_step c s s' t (reach_inv c hn h) hs

/-- **Termination** (repaired protocol): a run without spurious wake-ups has at most `rank c (init c)` steps, and
    when nothing is enabled any more the routine has returned. -/
theorem C12_terminates (c : Cfg) (hn : 0 < c.n) (hr : c.repaired = true) (sched : List Nat) (s : State)
    (hs : runSched c (init c) (sched.map fun t => (t, false)) = some s) :
    sched.length + rank c s ≤ rank c (init c) ∧ (anyEnabled c s = false → isFinal s = true) := by
  constructor
  · have key : ∀ (sched : List Nat) (s0 s : State), Reach c s0 →
        runSched c s0 (sched.map fun t => (t, false)) = some s → sched.length + rank c s ≤ rank c s0 := by
      intro sched
      induction sched with
      | nil => intro s0 s _ h; simp [runSched] at h; subst h; simp
      | cons t rest ih =>
        intro s0 s h0 h
        simp only [List.map_cons, runSched, Bool.false_eq_true, if_false] at h
        cases h1 : step? c s0 t with
        | none => simp [h1] at h
        | some s1 =>
          simp only [h1] at h
          have := ih s1 s (Reach.step t h0 h1) h
          have := C12_rank_decreases c hn s0 s1 t h0 h1
          simp only [List.length_cons]; omega
    exact key sched (init c) s Reach.init hs
  · intro hne
    have hreach := reach_runSched c _ _ _ Reach.init hs
    cases hf : isFinal s with
    | true => rfl
    | false => rw [C12_no_deadlock c hn hr s hreach hf] at hne; cases hne

/-- **The result is the sequential one** (both variants): in every reachable final state the coordinator has chosen
    what the one-trial-at-a-time loop `selectSeq` chooses (first residual-reducing index in descending step order, else
    the last index; `feasible` = whether it reduces the residual). -/
theorem C12_result_is_sequential (c : Cfg) (hn : 0 < c.n) (s : State) (h : Reach c s) (hf : isFinal s = true) :
    (s.base, s.chosen) = selectSeq c.less c.m :=
  (reach_inv c hn h).accDone (Or.inr (by
    have : s.cpc = .final := by simpa [isFinal] using hf
    simp [this, termPhase]))

/-- **What is chosen**: `selectSeq` (hence, by `C12_result_is_sequential`, every run with any number of workers under
    any schedule) picks the first trial index `k ≥ 1` — i.e. the longest step — whose residual is below the residual of
    the current solution (index 0), else the last index; `feasible` tells which. (`n_alpha ≥ 2` always.) -/
theorem C12_select_spec (less : Nat → Nat → Bool) (m : Nat) (hm : 2 ≤ m) :
    ∃ k, 1 ≤ k ∧ k < m ∧ selectSeq less m = (some 0, some (some k, less k 0)) ∧
      (less k 0 = true ∨ k = m - 1) ∧ ∀ j, 1 ≤ j → j < k → less j 0 = false ∧ j ≠ m - 1 :=
  selectSeq_spec less m hm

/-- **Schedule independence**: two runs of the same configuration (any interleaving, any spurious wake-ups) that
    return, return the same choice. -/
theorem C12_result_schedule_independent (c : Cfg) (hn : 0 < c.n) (s1 s2 : State) (h1 : Reach c s1) (h2 : Reach c s2)
    (hf1 : isFinal s1 = true) (hf2 : isFinal s2 = true) : (s1.base, s1.chosen) = (s2.base, s2.chosen) := by
  rw [C12_result_is_sequential c hn s1 h1 hf1, C12_result_is_sequential c hn s2 h2 hf2]

/-- **Worker-count independence**: configurations that differ only in the number of workers (hence in the block
    size and the number of blocks) return the same choice. -/
theorem C12_result_worker_count_independent (c1 c2 : Cfg) (hn1 : 0 < c1.n) (hn2 : 0 < c2.n) (hm : c1.m = c2.m)
    (hl : c1.less = c2.less) (s1 s2 : State) (h1 : Reach c1 s1) (h2 : Reach c2 s2)
    (hf1 : isFinal s1 = true) (hf2 : isFinal s2 = true) : (s1.base, s1.chosen) = (s2.base, s2.chosen) := by
  rw [C12_result_is_sequential c1 hn1 s1 h1 hf1, C12_result_is_sequential c2 hn2 s2 h2 hf2, hm, hl]

/-- The code **as it is**: 1 worker, first block.  The coordinator creates the worker, sets RUN, broadcasts, unlocks; the
    worker runs to completion (lock, unlock, compute, lock, set WAIT, broadcast — nobody is waiting —, unlock, lock,
    wait); the coordinator locks and waits without looking at the state.  Nobody will ever wake anybody. -/
def lostWakeupSchedule : List (Nat × Bool) :=
  [(0,false),(0,false),(0,false),(0,false),(1,false),(1,false),(1,false),(1,false),(1,false),(1,false),(1,false),
   (0,false),(0,false)]
def lostWakeupCfg : Cfg := { n := 1, m := 2, less := fun _ _ => false, repaired := false }

/-- **Lost wake-up in the published code**: an explicit finite trace from the initial state to a non-final state in
    which no transition is enabled (both threads sit in the wait set). -/
theorem C12_lost_wakeup_reachable :
    ∃ s, runSched lostWakeupCfg (init lostWakeupCfg) lostWakeupSchedule = some s ∧ isFinal s = false ∧
      anyEnabled lostWakeupCfg s = false ∧ s.cpc = .waiting ∧ s.wpc 0 = .waiting := by
  decide

/-- …and this state is `Reach`able, so `C12_no_deadlock` is false for `repaired = false`. -/
theorem C12_unrepaired_deadlocks :
    ∃ s, Reach lostWakeupCfg s ∧ isFinal s = false ∧ anyEnabled lostWakeupCfg s = false := by
  obtain ⟨s, h1, h2, h3, _⟩ := C12_lost_wakeup_reachable
  exact ⟨s, reach_runSched _ _ _ _ Reach.init h1, h2, h3⟩

/-! ### satisfiability of the hypotheses (non-trivial instances) -/
/-- a complete run of the repaired protocol, 2 workers × 2 blocks (round-robin schedule) -/
def exSchedule : List Nat :=
  [0, 1, 0, 1, 2, 2, 0, 0, 0, 1, 1, 2, 2, 0, 0, 1, 1, 1, 2, 2, 2, 0, 0, 1, 1, 2, 2, 0, 0, 0, 1, 1, 2, 2, 0, 0, 1, 1, 1,
   2, 2, 0, 0, 1, 1, 0, 0, 0, 1, 1, 2, 1, 2, 0, 2, 0]

example : ∃ s, runSched (c12ex true) (init (c12ex true)) (exSchedule.map fun t => (t, false)) = some s ∧
    isFinal s = true ∧ s.chosen = some (some 2, true) ∧ s.calcs = 4 := by decide
-- a reachable non-final state (after 20 steps) with an enabled transition
example : ∃ s, runSched (c12ex true) (init (c12ex true)) ((exSchedule.take 20).map fun t => (t, false)) = some s ∧
    isFinal s = false ∧ anyEnabled (c12ex true) s = true := by decide
-- the witness schedule on the repaired protocol does not get stuck: the coordinator's test sees WAIT and goes on
example : ∃ s, runSched { lostWakeupCfg with repaired := true } (init lostWakeupCfg)
    (lostWakeupSchedule.take 12 ++ [(0,false)]) = some s ∧ s.cpc = .lockA ∧ s.blk = 1 := by decide
example : selectSeq (c12ex true).less 3 = (some 0, some (some 2, true)) := by decide
example : selectSeq (fun _ _ => false) 4 = (some 0, some (some 3, false)) := by decide
example : 0 < (c12ex true).n ∧ (c12ex true).blocks = 2 := by decide

end PsV
