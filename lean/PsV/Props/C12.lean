import PsV.Proofs.Sync
import PsV.Proofs.SyncLive
import PsV.Proofs.SyncFair
import PsV.Proofs.SyncData
/-!
# C12 — the parallel line search of the monotonic fit terminates with the same result under every
thread schedule and for every worker count

Property theorems only.  They are about `PsV.Sync.step?` / `spur?` / `runSched` / `selectSeq`, the definitions
the driver `psvdriver C12` executes when it replays the pthread-call traces of the real `walk_descents`.
`Reach c s`: `s` is reachable from `init c` by pthread-call transitions **and spurious wake-ups**.
`c.repaired = true` is the protocol after `fixes/C12-1.diff` (worker states are tested before the first
`pthread_cond_wait`); `c.repaired = false` is the code as published.  Everything is parametric in the number of
workers `c.n ≥ 1` (what `get_nthreads` returns) and the number of trial steps `c.m`, hence in the number of blocks.
Safety theorems (invariant, results-ready, data-race freedom, result) hold for both variants; deadlock freedom and
termination need the repair, and `C12_lost_wakeup_reachable` shows that they fail without it.
-/
namespace PsV
open PsV.Sync

/-- a non-trivial configuration used in the satisfiability examples: 2 workers, 3 trial steps (2 blocks) -/
def c12ex (rep : Bool) : Cfg := { n := 2, m := 3, less := fun a b => a == 2 && b == 0, repaired := rep }

/-- Invariant preservation: every reachable state satisfies `Inv` (all 20 clauses, see `PsV.Sync.Inv`). -/
theorem C12_inv_preserved (c : Cfg) (hn : 0 < c.n) (s : State) (h : Reach c s) : Inv c s :=
  reach_inv c hn h

/-- The three clauses named in the design, spelled out: mutex discipline (the owner is exactly the thread whose pc is
    inside a critical section, hence at most one such thread); a worker in the wait set has state WAIT unless the
    coordinator is between setting the states and its broadcast; a waiting coordinator (repaired protocol) has an
    active worker in state RUN or a worker about to broadcast. -/
theorem C12_invariants (c : Cfg) (hn : 0 < c.n) (s : State) (h : Reach c s) :
    (s.owner = some 0 ↔ cHolds s.cpc = true) ∧ (∀ w, s.owner = some (w+1) ↔ wHolds (s.wpc w) = true) ∧
    (∀ w, s.wpc w = .waiting → s.st w = .wait ∨ isBcast s.cpc = true) ∧
    (c.repaired = true → s.cpc = .waiting →
      (∃ j, j < c.active s.blk ∧ s.st j = .run) ∨ (∃ w, s.wpc w = .bcast)) :=
  have i := reach_inv c hn h
  ⟨i.own0, i.ownW, i.waitSt, i.waitRun⟩

/-- **No deadlock / no lost wake-up** (repaired protocol): every reachable non-final state has an enabled
    non-spurious transition. -/
theorem C12_no_deadlock (c : Cfg) (hn : 0 < c.n) (hr : c.repaired = true) (s : State) (h : Reach c s)
    (hf : isFinal s = false) : anyEnabled c s = true :=
  (anyEnabled_iff c s).mpr (enabled_of_inv c s (reach_inv c hn h) hr (by simpa [isFinal] using hf))

/-- **Results are ready when read** (both variants): when the coordinator is about to leave the wait loop and scan
    the results of block `blk`, every active worker `j` holds the result for trial index `blk*n+j`. -/
theorem C12_results_ready_when_read (c : Cfg) (hn : 0 < c.n) (s : State) (h : Reach c s)
    (hp : s.cpc = .unlockB) (j : Nat) (hj : j < c.active s.blk) : s.val j = some (s.blk * c.n + j) := by
  have i := reach_inv c hn h
  have h1 := (i.blockVals (by simp [hp, inBlock]) j hj).2
  have h2 := i.unlockBAll hp j hj
  rcases h1 with h1 | h1
  · rw [h2] at h1; cases h1
  · exact h1

/-- **No data race on the trial records** (both variants): whenever the coordinator is about to write a worker's
    `alpha`/`state` (`lockA`, `lockT`) or to read its outputs and overwrite `x` (`unlockB`), no worker is between its
    `unlock` after seeing RUN and the `lock` that publishes its result (the only region where a worker touches them). -/
theorem C12_no_data_race (c : Cfg) (hn : 0 < c.n) (s : State) (h : Reach c s)
    (hp : s.cpc = .lockA ∨ s.cpc = .unlockB ∨ s.cpc = .lockT) (w : Nat) : s.wpc w ≠ .lock2 := by
  have i := reach_inv c hn h
  intro hw
  have hrun := i.lock2Run w hw
  have hb := i.runBlock w hrun
  rcases hp with hp | hp | hp
  · simp [hp, inBlock] at hb
  · have := i.unlockBAll hp w hb.2; rw [this] at hrun; cases hrun
  · simp [hp, inBlock] at hb

/-- **Ranking function**: every non-spurious transition out of a reachable state decreases `rank`. -/
theorem C12_rank_decreases (c : Cfg) (hn : 0 < c.n) (s s' : State) (t : Nat) (h : Reach c s)
    (hs : step? c s t = some s') : rank c s' < rank c s :=
  rank_step c s s' t (reach_inv c hn h) hs

/-- **Termination** (repaired protocol): a run without spurious wake-ups has at most `rank c (init c)` steps, and
    when nothing is enabled any more the routine has returned. -/
theorem C12_terminates (c : Cfg) (hn : 0 < c.n) (hr : c.repaired = true) (sched : List Nat) (s : State)
    (hs : runSched c (init c) (sched.map fun t => (t, false)) = some s) :
    sched.length + rank c s ≤ rank c (init c) ∧ (anyEnabled c s = false → isFinal s = true) := by
  constructor
  · have key : ∀ (sched : List Nat) (s0 s : State), Reach c s0 →
        runSched c s0 (sched.map fun t => (t, false)) = some s → sched.length + rank c s ≤ rank c s0 := by
      intro sched
      induction sched with
      | nil => intro s0 s _ h; simp [runSched] at h; subst h; simp
      | cons t rest ih =>
        intro s0 s h0 h
        simp only [List.map_cons, runSched, Bool.false_eq_true, if_false] at h
        cases h1 : step? c s0 t with
        | none => simp [h1] at h
        | some s1 =>
          simp only [h1] at h
          have := ih s1 s (Reach.step t h0 h1) h
          have := C12_rank_decreases c hn s0 s1 t h0 h1
          simp only [List.length_cons]; omega
    exact key sched (init c) s Reach.init hs
  · intro hne
    have hreach := reach_runSched c _ _ _ Reach.init hs
    cases hf : isFinal s with
    | true => rfl
    | false => rw [C12_no_deadlock c hn hr s hreach hf] at hne; cases hne

/-- **The result is the sequential one** (both variants): in every reachable final state the coordinator has chosen
    what the one-trial-at-a-time loop `selectSeq` chooses (first residual-reducing index in descending step order, else
    the last index; `feasible` = whether it reduces the residual). -/
theorem C12_result_is_sequential (c : Cfg) (hn : 0 < c.n) (s : State) (h : Reach c s) (hf : isFinal s = true) :
    (s.base, s.chosen) = selectSeq c.less c.m :=
  (reach_inv c hn h).accDone (Or.inr (by
    have : s.cpc = .final := by simpa [isFinal] using hf
    simp [this, termPhase]))

/-- **What is chosen**: `selectSeq` (hence, by `C12_result_is_sequential`, every run with any number of workers under
    any schedule) picks the first trial index `k ≥ 1` — i.e. the longest step — whose residual is below the residual of
    the current solution (index 0), else the last index; `feasible` tells which. (`n_alpha ≥ 2` always.) -/
theorem C12_select_spec (less : Nat → Nat → Bool) (m : Nat) (hm : 2 ≤ m) :
    ∃ k, 1 ≤ k ∧ k < m ∧ selectSeq less m = (some 0, some (some k, less k 0)) ∧
      (less k 0 = true ∨ k = m - 1) ∧ ∀ j, 1 ≤ j → j < k → less j 0 = false ∧ j ≠ m - 1 :=
  selectSeq_spec less m hm

/-- **Schedule independence**: two runs of the same configuration (any interleaving, any spurious wake-ups) that
    return, return the same choice. -/
theorem C12_result_schedule_independent (c : Cfg) (hn : 0 < c.n) (s1 s2 : State) (h1 : Reach c s1) (h2 : Reach c s2)
    (hf1 : isFinal s1 = true) (hf2 : isFinal s2 = true) : (s1.base, s1.chosen) = (s2.base, s2.chosen) := by
  rw [C12_result_is_sequential c hn s1 h1 hf1, C12_result_is_sequential c hn s2 h2 hf2]

/-- **Worker-count independence**: configurations that differ only in the number of workers (hence in the block
    size and the number of blocks) return the same choice. -/
theorem C12_result_worker_count_independent (c1 c2 : Cfg) (hn1 : 0 < c1.n) (hn2 : 0 < c2.n) (hm : c1.m = c2.m)
    (hl : c1.less = c2.less) (s1 s2 : State) (h1 : Reach c1 s1) (h2 : Reach c2 s2)
    (hf1 : isFinal s1 = true) (hf2 : isFinal s2 = true) : (s1.base, s1.chosen) = (s2.base, s2.chosen) := by
  rw [C12_result_is_sequential c1 hn1 s1 h1 hf1, C12_result_is_sequential c2 hn2 s2 h2 hf2, hm, hl]

/- The code **as it is**: 1 worker, first block.  The coordinator creates the worker, sets RUN, broadcasts, unlocks; the
    worker runs to completion (lock, unlock, compute, lock, set WAIT, broadcast — nobody is waiting —, unlock, lock,
    wait); the coordinator locks and waits without looking at the state.  Nobody will ever wake anybody.
   `lostWakeupSchedule`, `lostWakeupCfg` are defined in `PsV.Sync` (Model/Sync.lean) so that the driver can emit them: the
   check forces exactly this schedule through the published code (HEAD with fixes/C12-1.diff reverse-applied) on every run. -/

/-- **Lost wake-up in the published code**: an explicit finite trace from the initial state to a non-final state in
    which no transition is enabled (both threads sit in the wait set). -/
theorem C12_lost_wakeup_reachable :
    ∃ s, runSched lostWakeupCfg (init lostWakeupCfg) lostWakeupSchedule = some s ∧ isFinal s = false ∧
      anyEnabled lostWakeupCfg s = false ∧ s.cpc = .waiting ∧ s.wpc 0 = .waiting := by
  decide

/-- …and this state is `Reach`able, so `C12_no_deadlock` is false for `repaired = false`. -/
theorem C12_unrepaired_deadlocks :
    ∃ s, Reach lostWakeupCfg s ∧ isFinal s = false ∧ anyEnabled lostWakeupCfg s = false := by
  obtain ⟨s, h1, h2, h3, _⟩ := C12_lost_wakeup_reachable
  exact ⟨s, reach_runSched _ _ _ _ Reach.init h1, h2, h3⟩

/-! ## Deepening (1): every synchronisation construct of `walk_descents` / `evaluate_descent` is in the model

`pthread_create` (`create k`), `pthread_mutex_lock/unlock`, `pthread_cond_wait` (W + K, spurious wake-ups),
`pthread_cond_broadcast`, the TERMINATE flag (`lockT`/`bcastT`/`unlockT`, worker `hold` with state `term`),
`pthread_exit` (`exit`), `pthread_join` (`join k`) are transitions.  `pthread_mutex_init`/`cond_init` precede the first
`create`, `pthread_cond_destroy`/`pthread_mutex_destroy`/`free(descent_trials)` follow the last `join`: they have no
transition of their own, their safety conditions are the two theorems below.  No other routine under `src/fitter`
creates threads or uses a mutex/condition variable. -/

/-- **A worker does nothing before its `pthread_create`**: while the coordinator is about to create worker `k`, the
    workers `k, k+1, …` have no enabled transition, are not in the wait set and cannot be woken spuriously. -/
theorem C12_no_step_before_create (c : Cfg) (hn : 0 < c.n) (s : State) (h : Reach c s) (k : Nat)
    (hp : s.cpc = .create k) (w : Nat) (hw : k ≤ w) :
    s.wpc w = .idle ∧ step? c s (w+1) = none ∧ spur? c s (w+1) = none := by
  have hidle := ((reach_inv c hn h).created k hp).2.2 w hw
  refine ⟨hidle, ?_, ?_⟩
  · simp only [step?]; split
    · simp [stepW, hidle]
    · rfl
  · simp [spur?, hidle]

/-- **`pthread_join` really waits, and teardown is safe**: the coordinator passes `join k` only after worker `k` has
    executed `pthread_exit`; when `walk_descents` reaches the code behind the last join (`pthread_cond_destroy`,
    `pthread_mutex_destroy`, freeing the trial records and `alpha`), every worker has exited, nobody owns the mutex,
    the wait set is empty, and no thread can take any further step — not even by a spurious wake-up. -/
theorem C12_teardown_safe (c : Cfg) (hn : 0 < c.n) (s : State) (h : Reach c s) :
    (∀ k, s.cpc = .join k → ∀ w, w < k → s.wpc w = .done) ∧
    (s.cpc = .final → (∀ w, w < c.n → s.wpc w = .done) ∧ s.owner = none ∧ (∀ w, s.wpc w ≠ .waiting) ∧
      ∀ t, step? c s t = none ∧ spur? c s t = none) := by
  have i := reach_inv c hn h
  have j := reach_joinInv c h
  refine ⟨j.joined, fun hf => ?_⟩
  have hdone := j.finalAll hf
  have hpc : ∀ w, s.wpc w = .done ∨ s.wpc w = .idle := fun w => by
    rcases Nat.lt_or_ge w c.n with hw | hw
    · exact Or.inl (hdone w hw)
    · exact Or.inr (i.idleOut w hw)
  have hown : s.owner = none := by
    cases ho : s.owner with
    | none => rfl
    | some t =>
      cases t with
      | zero => have := i.own0.mp ho; simp [hf, cHolds] at this
      | succ w => have := (i.ownW w).mp ho; rcases hpc w with h1 | h1 <;> simp [h1, wHolds] at this
  refine ⟨hdone, hown, fun w hw => by rcases hpc w with h1 | h1 <;> simp [h1] at hw, fun t => ?_⟩
  cases t with
  | zero => simp [step?, stepC, spur?, hf]
  | succ w =>
    constructor
    · simp only [step?]; split
      · rcases hpc w with h1 | h1 <;> simp [stepW, h1]
      · rfl
    · rcases hpc w with h1 | h1 <;> simp [spur?, h1]

/-! ## Deepening (2): liveness for all executions, spurious wake-ups included -/

/-- **Step bound for every schedule, spurious wake-ups included** (both variants of the code): a schedule the protocol
    can execute from the initial state has at most `rank (init) + 3·(number of spurious wake-ups in it)` entries.
    `C12_terminates` is the case without spurious wake-ups. -/
theorem C12_step_bound (c : Cfg) (hn : 0 < c.n) (sched : List (Nat × Bool)) (s : State)
    (hs : runSched c (init c) sched = some s) :
    sched.length + rank c s ≤ rank c (init c) + 3 * nspur sched :=
  run_bound c hn sched (init c) s Reach.init hs

/-- **No infinite execution** (both variants): every infinite sequence of transitions from the initial state
    contains infinitely many spurious wake-ups.  Hence *without any fairness assumption* the protocol — lock, unlock,
    wait, broadcast, create, exit, join steps under an arbitrary, even adversarial scheduler — cannot run forever; only
    an environment that keeps injecting spurious wake-ups can keep it going. -/
theorem C12_no_infinite_execution (c : Cfg) (hn : 0 < c.n) (e : Exec c) (N : Nat) :
    ∃ i, N ≤ i ∧ (e.lab i).2 = true :=
  e.inf_spurious hn N

/-- **Every maximal run completes** (repaired protocol): whatever schedule was executed (spurious wake-ups
    included), if no pthread call is enabled any more then `walk_descents` has returned, all workers have exited and
    been joined, the mutex is free, and the choice is the sequential one. -/
theorem C12_maximal_run_completes (c : Cfg) (hn : 0 < c.n) (hr : c.repaired = true) (sched : List (Nat × Bool))
    (s : State) (hs : runSched c (init c) sched = some s) (hmax : anyEnabled c s = false) :
    isFinal s = true ∧ (∀ w, w < c.n → s.wpc w = .done) ∧ s.owner = none ∧
      (s.base, s.chosen) = selectSeq c.less c.m := by
  have hreach := reach_runSched c _ _ _ Reach.init hs
  have hfin : isFinal s = true := by
    cases hf : isFinal s with
    | true => rfl
    | false => rw [C12_no_deadlock c hn hr s hreach hf] at hmax; cases hmax
  have hpc : s.cpc = .final := by simpa [isFinal] using hfin
  have ht := (C12_teardown_safe c hn s hreach).2 hpc
  exact ⟨hfin, ht.1, ht.2.1, C12_result_is_sequential c hn s hreach hfin⟩

/-- a cycle through `s` along `cyc` in which every thread `t ≤ n` either performs a pthread call or is not enabled in
    some state of the cycle: repeating it forever is a *weakly fair* infinite execution -/
def WeakFairCycle (c : Cfg) (s : State) (cyc : List (Nat × Bool)) : Prop :=
  cyc ≠ [] ∧ runSched c s cyc = some s ∧
  ∀ t, t ≤ c.n → (t, false) ∈ cyc ∨ ∃ pre s', pre <+: cyc ∧ runSched c s pre = some s' ∧ step? c s' t = none

/-- **Weak fairness alone is not enough when spurious wake-ups are unbounded** (a statement about POSIX, shown on the
    model of the repaired code): in *every* reachable state in which the mutex is free and some worker sits in
    `pthread_cond_wait` with state WAIT, that worker can be woken spuriously, re-acquire the mutex, see WAIT and wait
    again — a cycle back to the same state, during which every other thread that needs the mutex is disabled at the
    moment the cycling worker holds it.  Repeated forever this starves a coordinator blocked in `pthread_mutex_lock`
    although it is enabled infinitely often.  (With finitely many spurious wake-ups there is no such execution:
    `C12_no_infinite_execution`.) -/
theorem C12_spurious_cycle (c : Cfg) (s : State) (w : Nat) (hw : w < c.n) (hp : s.wpc w = .waiting)
    (hst : s.st w = .wait) (ho : s.owner = none) :
    runSched c s (futileCycle w) = some s ∧
    ∃ s2, runSched c s ((futileCycle w).take 2) = some s2 ∧ s2.owner = some (w+1) := by
  obtain ⟨s1, s2, h1, h2, h3, h4, _, _⟩ := futileCycle_runs c s w hw hp hst ho
  refine ⟨?_, s2, ?_, h4⟩
  · simp [futileCycle, runSched, h1, h2, h3]
  · simp [futileCycle, runSched, h1, h2]

/-- the smallest instance: 1 worker, the coordinator is about to start the first block (`pthread_mutex_lock`), the
    worker waits for instructions -/
def fairCfg : Cfg := { n := 1, m := 2, less := fun _ _ => false, repaired := true }

theorem C12_weak_fairness_not_enough :
    ∃ s, Reach fairCfg s ∧ isFinal s = false ∧ s.cpc = .lockA ∧ WeakFairCycle fairCfg s (futileCycle 0) := by
  have hpre : ∃ s, runSched fairCfg (init fairCfg) [(0,false),(1,false),(1,false)] = some s ∧ isFinal s = false ∧
      s.cpc = .lockA ∧ s.wpc 0 = .waiting ∧ s.st 0 = .wait ∧ s.owner = none := by decide
  obtain ⟨s, hrun, hnf, hpc, hp, hst, ho⟩ := hpre
  have hreach := reach_runSched fairCfg _ _ _ Reach.init hrun
  obtain ⟨hcyc, s2, hs2, hown⟩ := C12_spurious_cycle fairCfg s 0 (by decide) hp hst ho
  refine ⟨s, hreach, hnf, hpc, by simp [futileCycle], hcyc, fun t ht => ?_⟩
  have ht' : t = 0 ∨ t = 1 := by have : t ≤ 1 := ht; omega
  rcases ht' with rfl | rfl
  · -- the coordinator needs the mutex, which the cycling worker holds after its re-acquisition
    refine Or.inr ⟨(futileCycle 0).take 2, s2, List.take_prefix _ _, hs2, ?_⟩
    have hc2 : s2.cpc = .lockA := by
      obtain ⟨s1, s2', h1, h2, _, _, _, e2⟩ := futileCycle_runs fairCfg s 0 (by decide) hp hst ho
      have : s2 = s2' := by
        have := hs2; simp [futileCycle, runSched, h1, h2] at this; exact this.symm
      subst this
      rw [e2, hpc]
    simp [step?, stepC, hc2, hown]
  · exact Or.inl (by simp [futileCycle])

/-- **A weakly fair execution of the repaired protocol that never terminates** (only possible with infinitely many
    spurious wake-ups, by `C12_no_infinite_execution`): an infinite execution in which no state is final, every
    thread is treated weakly fairly, yet the coordinator — blocked in the `pthread_mutex_lock` that starts the first
    block, enabled infinitely often — never runs again: it is not treated *strongly* fairly.  So "terminates under
    weak fairness" is false for any condition-variable protocol on a POSIX mutex once spurious wake-ups are
    unbounded; the termination theorems above are therefore stated by counting spurious wake-ups
    (`C12_step_bound`, `C12_no_infinite_execution`). -/
theorem C12_weakly_fair_infinite_execution :
    ∃ e : Exec fairCfg, (∀ i, isFinal (e.st i) = false) ∧ (∀ t, t ≤ fairCfg.n → e.WeakFair t) ∧ ¬ e.StrongFair 0 := by
  let S0 := init fairCfg
  let S1 := (step? fairCfg S0 0).getD S0
  let S2 := (step? fairCfg S1 1).getD S0
  let S3 := (step? fairCfg S2 1).getD S0
  have h01 : step? fairCfg S0 0 = some S1 := rfl
  have h12 : step? fairCfg S1 1 = some S2 := rfl
  have h23 : step? fairCfg S2 1 = some S3 := rfl
  have hp : S3.wpc 0 = .waiting := rfl
  have hst : S3.st 0 = .wait := rfl
  have ho : S3.owner = none := rfl
  have hpc : S3.cpc = .lockA := rfl
  obtain ⟨c1, c2, g1, g2, g3, hown, e1, e2⟩ := futileCycle_runs fairCfg S3 0 (by decide) hp hst ho
  let S : Nat → State := fun k => match k with
    | 0 => S0 | 1 => S1 | 2 => S2 | 3 => S3 | 4 => c1 | _ => c2
  let L : Nat → Nat × Bool := fun k => match k with
    | 0 => (0, false) | 3 => (1, true) | _ => (1, false)
  have hstep : ∀ k, k < 5 → stepL fairCfg (S k) (L k) = some (S (k+1)) := by
    intro k hk
    have : k = 0 ∨ k = 1 ∨ k = 2 ∨ k = 3 ∨ k = 4 := by omega
    rcases this with rfl | rfl | rfl | rfl | rfl
    · exact h01
    · exact h12
    · exact h23
    · exact g1
    · exact g2
  have hback : stepL fairCfg (S 5) (L 5) = some (S 3) := g3
  refine ⟨lassoExec fairCfg S L rfl hstep hback, ?_, ?_, ?_⟩
  · intro i
    show isFinal (S (lassoPh i)) = false
    have hle := lassoPh_le i
    have hall : ∀ k, k ≤ 5 → isFinal (S k) = false := by
      intro k hk
      have : k = 0 ∨ k = 1 ∨ k = 2 ∨ k = 3 ∨ k = 4 ∨ k = 5 := by omega
      rcases this with rfl | rfl | rfl | rfl | rfl | rfl
      · rfl
      · rfl
      · rfl
      · rfl
      · show (c1.cpc == CPc.final) = false; rw [e1, hpc]; rfl
      · show (c2.cpc == CPc.final) = false; rw [e2, hpc]; rfl
    exact hall _ hle
  · intro t ht N
    obtain ⟨i, hi, h5⟩ := lassoPh_hits5 N
    have ht' : t = 0 ∨ t = 1 := by have : t ≤ 1 := ht; omega
    rcases ht' with rfl | rfl
    · -- phase 5: the cycling worker owns the mutex, the coordinator's lock is disabled
      refine Or.inr ⟨i, hi, ?_⟩
      show step? fairCfg (S (lassoPh i)) 0 = none
      rw [h5]
      show stepC fairCfg c2 = none
      simp [stepC, e2, hpc, hown]
    · refine Or.inl ⟨i, hi, ?_⟩
      show L (lassoPh i) = (1, false)
      rw [h5]
      rfl
  · intro hsf
    -- the coordinator is enabled at every visit of phase 3 …
    have hen : ∀ N, ∃ i, N ≤ i ∧ (step? fairCfg ((lassoExec fairCfg S L rfl hstep hback).st i) 0).isSome = true := by
      intro N
      obtain ⟨i, hi, h5⟩ := lassoPh_hits5 N
      refine ⟨i+1, by omega, ?_⟩
      show (step? fairCfg (S (lassoPh (i+1))) 0).isSome = true
      have : lassoPh (i+1) = 3 := by simp [lassoPh, h5]
      rw [this]
      rfl
    -- … but never takes a step after the first one
    obtain ⟨i, hi, hl⟩ := hsf hen 1
    have hl' : L (lassoPh i) = (0, false) := hl
    have hpos : ∀ j, 1 ≤ j → 1 ≤ lassoPh j := by
      intro j hj
      cases j with
      | zero => omega
      | succ j => simp only [lassoPh]; split <;> omega
    have h1 := hpos i hi
    have hle := lassoPh_le i
    have : lassoPh i = 1 ∨ lassoPh i = 2 ∨ lassoPh i = 3 ∨ lassoPh i = 4 ∨ lassoPh i = 5 := by omega
    rcases this with h | h | h | h | h <;> rw [h] at hl' <;> simp [L] at hl'

/-- **Progress measure that survives spurious wake-ups**: `prog = 3·rank + corr` never increases — neither on a pthread
    call nor on a spurious wake-up — and strictly decreases on every pthread call except the *futile* ones: a thread
    that was woken although its predicate is still false re-acquires the mutex (`K`) and waits again (`W`).  A spurious
    wake-up of a worker whose state is not WAIT also decreases it. -/
theorem C12_progress_measure (c : Cfg) (hn : 0 < c.n) (s s' : State) (h : Reach c s) (t : Nat) :
    (step? c s t = some s' → prog c s' ≤ prog c s ∧ (futile c s t = false → prog c s' < prog c s)) ∧
    (spur? c s t = some s' → prog c s' ≤ prog c s ∧ ∀ w, t = w+1 → s.st w ≠ .wait → prog c s' < prog c s) :=
  ⟨fun hs => prog_step c s s' t (reach_inv c hn h) hs, fun hs => prog_spur c s s' t hs⟩

/-- **Termination under strong fairness, with unboundedly many spurious wake-ups** (repaired protocol): there is no
    infinite execution in which every thread that is enabled infinitely often also performs infinitely many pthread
    calls.  Equivalently: every strongly fair execution is finite, and by `C12_maximal_run_completes` it ends with
    `walk_descents` returned, all workers joined and the sequential result.  (Strong fairness is needed only for the
    mutex: `C12_weakly_fair_infinite_execution` shows that weak fairness is not enough; without spurious wake-ups no
    fairness is needed at all: `C12_no_infinite_execution`.) -/
theorem C12_strongly_fair_terminates (c : Cfg) (hn : 0 < c.n) (hr : c.repaired = true) (e : Exec c) :
    ∃ t, t ≤ c.n ∧ ¬ e.StrongFair t := by
  apply Classical.byContradiction
  intro hno
  exact e.not_strongly_fair hn hr (fun t ht => Classical.byContradiction fun hnf => hno ⟨t, ht, hnf⟩)

/-- **Which blocks are processed**: when `walk_descents` has returned, the coordinator has started exactly the blocks
    `0 … blk-1`, where block `blk-1` is the one that contains the chosen trial index `k` (`(blk-1)·n ≤ k < blk·n`): no
    block after the successful one is started (`if (success) break`), none before it is skipped.  Together with
    `C12_each_trial_evaluated_once`: the trial indices `0 … min(m, blk·n) - 1` are evaluated exactly once each, all
    others never. -/
theorem C12_blocks_started (c : Cfg) (hn : 0 < c.n) (hm : 2 ≤ c.m) (s : State) (h : Reach c s)
    (hf : isFinal s = true) :
    ∃ k, s.chosen = some (some k, c.less k 0) ∧ 0 < s.blk ∧ s.blk ≤ c.blocks ∧
      (s.blk - 1) * c.n ≤ k ∧ k < s.blk * c.n := by
  have hpc : s.cpc = .final := by simpa [isFinal] using hf
  have hseq := C12_result_is_sequential c hn s h hf
  obtain ⟨k, hk1, hkm, hsel, hor, _⟩ := C12_select_spec c.less c.m hm
  obtain ⟨hle, hpos, hsome⟩ := (reach_blkInv c hn h).done (Or.inr (by simp [hpc, termPhase]))
  have hch : s.chosen = some (some k, c.less k 0) := by
    have := congrArg Prod.snd (hseq.trans hsel); simpa using this
  have hblocks : 0 < c.blocks := (lt_blocks_iff c hn 0).mpr (by omega)
  have hb0 : 0 < s.blk := by
    rcases Nat.eq_zero_or_pos s.blk with h0 | h0
    · have := hsome (by omega); rw [h0] at this; simp [flat_zero] at this
    · exact h0
  refine ⟨k, hch, hb0, hle, ?_, ?_⟩
  · exact chosen_ge_of_flat_none c.less c.m _ k (hpos hb0).1 hk1 hor
  · rcases Nat.lt_or_ge s.blk c.blocks with hlt | hge
    · have hKm : s.blk * c.n ≤ c.m := Nat.le_of_lt ((lt_blocks_iff c hn s.blk).mp hlt)
      exact chosen_lt_of_flat_some c.less c.m _ k _ hKm (hsome hlt) hsel
    · have : ¬ c.blocks * c.n < c.m := fun hx => Nat.lt_irrefl _ ((lt_blocks_iff c hn c.blocks).mpr hx)
      have hbe : s.blk = c.blocks := by omega
      rw [hbe]; omega

/-! ## Deepening (3): the numerical result is a fixed function of the inputs

`PsV.Sync.DState` (Model/SyncData.lean) carries the data: the shared `x`, the per-worker records, what each worker
read.  Control decisions are taken from the data.  `Num.trial / lt / put` stand for the three pieces of straight-line
floating-point code; the theorems show that *which* values they are applied to, and in which order their results are
combined, is the same for every schedule and every worker count — so the outputs are bit-identical whatever the
floating-point semantics of those pieces are (as long as each is a function of its arguments). -/
section Data
variable {D R : Type}

/-- **Refinement**: the control part of every reachable data state is a reachable state of the hand-shake model for
    the induced comparison `less a b := residual(trial x₀ a) < residual(trial x₀ b)`, and each data transition is
    exactly a `step?` / `spur?` transition on the control part.  All `Reach` theorems above therefore hold of the
    data model (invariant, deadlock freedom, data-race freedom, rank, termination). -/
theorem C12_data_refines_control (P : DProb D R) (hn : 0 < P.n) (d : DState D R) (h : DReach P d) :
    Reach P.cfg d.ctl ∧
    (∀ t d', stepD? P d t = some d' → step? P.cfg d.ctl t = some d'.ctl) ∧
    (∀ t d', spurD? P d t = some d' → spur? P.cfg d.ctl t = some d'.ctl) := by
  obtain ⟨hr, hd⟩ := dreach_inv P hn h
  exact ⟨hr, fun t d' hs => (dinv_stepD P hn d d' t (reach_inv P.cfg hn hr) hd hs).1,
    fun t d' hs => (dinv_spurD P d d' t hd hs).1⟩

/-- **The inputs of a computation are stable and schedule-independent**: whenever worker `w` is inside its compute
    region (between the `unlock` after seeing RUN and the `lock` that publishes the result) — in particular at the
    moment the region closes — what it read from `x` at the start is still what `x` holds, it is the value of `x`
    on entry to `walk_descents`, and the α index it read is still its assigned one, namely `blk·n + w`.
    (No write of `x` or `alpha` overlaps a computation: data-race freedom on the *values*.) -/
theorem C12_compute_inputs_stable (P : DProb D R) (hn : 0 < P.n) (d : DState D R) (h : DReach P d) (w : Nat)
    (hp : d.ctl.wpc w = .lock2) :
    d.rdx w = d.x ∧ d.x = P.x0 ∧ d.rda w = d.ctl.aidx w ∧ d.ctl.aidx w = d.ctl.blk * P.n + w := by
  obtain ⟨hr, hd⟩ := dreach_inv P hn h
  have i := reach_inv P.cfg hn hr
  have hrun := i.lock2Run w hp
  obtain ⟨hblk, hact⟩ := i.runBlock w hrun
  have hch := (i.accLoop (Or.inr hblk)).2.1
  obtain ⟨_, hx0⟩ := pick_none_of P d hd hch
  obtain ⟨h1, h2⟩ := hd.rdRel w hp
  exact ⟨by rw [h1, hx0], hx0, h2, (i.blockVals hblk w hact).1⟩

/-- **What a record holds**: every published record is `trial x₀ k` for the index `k` the hand-shake model says it
    belongs to; with `C12_results_ready_when_read`: when the coordinator scans block `blk`, the record of active worker
    `j` is `trial x₀ (blk·n + j)` — computed from the entry value of `x`, by one uninterrupted computation. -/
theorem C12_scanned_records (P : DProb D R) (hn : 0 < P.n) (d : DState D R) (h : DReach P d) :
    (∀ w, d.out w = (d.ctl.val w).map (P.num.trial P.x0)) ∧
    (d.ctl.cpc = .unlockB → ∀ j, j < P.cfg.active d.ctl.blk →
      d.out j = some (P.num.trial P.x0 (d.ctl.blk * P.n + j))) := by
  obtain ⟨hr, hd⟩ := dreach_inv P hn h
  refine ⟨hd.outRel, fun hp j hj => ?_⟩
  rw [hd.outRel j, C12_results_ready_when_read P.cfg hn d.ctl hr hp j hj]; rfl

/-- **The outputs are those of the single-threaded program**: in every final state of the data model (any schedule,
    any spurious wake-ups, any worker count) the contents of `x`, the base record and the record copied out with its
    `feasible` flag are exactly `seqD P`: evaluate `trial x₀ 0, trial x₀ 1, …` in index order, take the first whose
    residual is below that of index 0 (else the last), copy it into `x₀`. -/
theorem C12_data_result_is_sequential (P : DProb D R) (hn : 0 < P.n) (d : DState D R) (h : DReach P d)
    (hf : isFinal d.ctl = true) : d.outputs = seqD P := by
  obtain ⟨hr, hd⟩ := dreach_inv P hn h
  have hseq := C12_result_is_sequential P.cfg hn d.ctl hr hf
  have hacc : (d.res, d.pick) = flatD P P.m := by
    rw [hd.accRel, hseq, flatD_map]; rfl
  have hpick : d.pick = (flatD P P.m).2 := congrArg Prod.snd hacc
  simp only [DState.outputs, seqD]
  rw [hd.xRel, hpick, ← hacc, hpick]

/-- **Bit-identical results for every schedule and every worker count**: two runs on the same data (same numerical
    pieces, same entry `x`, same number of trial steps) — with any numbers of workers, either variant of the wait
    loop, any interleavings and spurious wake-ups — that return, return the same `x`, the same base record and the
    same copied record/flag. -/
theorem C12_data_schedule_and_worker_count_independent (P1 P2 : DProb D R) (hn1 : 0 < P1.n) (hn2 : 0 < P2.n)
    (hnum : P1.num = P2.num) (hx : P1.x0 = P2.x0) (hm : P1.m = P2.m)
    (d1 d2 : DState D R) (h1 : DReach P1 d1) (h2 : DReach P2 d2)
    (hf1 : isFinal d1.ctl = true) (hf2 : isFinal d2.ctl = true) : d1.outputs = d2.outputs := by
  rw [C12_data_result_is_sequential P1 hn1 d1 h1 hf1, C12_data_result_is_sequential P2 hn2 d2 h2 hf2]
  simp only [seqD, flatD, copyOut, hnum, hx, hm]

/-- **Every trial of a processed block is evaluated exactly once**: in every reachable state trial index `k` has been
    evaluated once if it is *done* (it belongs to a finished block, or to the current block and its worker has
    reported back) and never otherwise; in a final state the evaluated indices are exactly those of the first `blk`
    blocks (`blk` = number of blocks the coordinator started; by the `break` on `success` the later ones are never
    started). -/
theorem C12_each_trial_evaluated_once (P : DProb D R) (hn : 0 < P.n) (d : DState D R) (h : DReach P d) :
    (∀ k, d.cnt k ≤ 1) ∧
    (∀ k, (doneIdx P.cfg d.ctl k → d.cnt k = 1) ∧ (¬ doneIdx P.cfg d.ctl k → d.cnt k = 0)) ∧
    (isFinal d.ctl = true → ∀ k, d.cnt k = if k < P.m ∧ k < d.ctl.blk * P.n then 1 else 0) := by
  have hc := dreach_cnt P hn h
  refine ⟨fun k => ?_, hc, fun hf k => ?_⟩
  · by_cases hk : doneIdx P.cfg d.ctl k
    · rw [(hc k).1 hk]; exact Nat.le_refl 1
    · rw [(hc k).2 hk]; exact Nat.zero_le 1
  · have hpc : d.ctl.cpc = .final := by simpa [isFinal] using hf
    have hiff : doneIdx P.cfg d.ctl k ↔ (k < P.m ∧ k < d.ctl.blk * P.n) := by
      simp only [doneIdx, hpc, inBlock]
      constructor
      · rintro ⟨a, b | ⟨b, _⟩⟩
        · exact ⟨a, b⟩
        · cases b
      · rintro ⟨a, b⟩; exact ⟨a, Or.inl b⟩
    by_cases hk : k < P.m ∧ k < d.ctl.blk * P.n
    · rw [if_pos hk]; exact (hc k).1 (hiff.mpr hk)
    · rw [if_neg hk]; exact (hc k).2 (fun hd => hk (hiff.mp hd))

end Data

/-! ## Finding: outside the hand-shake the result does depend on the worker count (tree as published)

`C12_data_*` cover `walk_descents`.  The solver around it, `nnls_normal_block3`, calls `modify_factor`, whose choice
between updating and recomputing the Cholesky factor compares `fl / (9 · get_nthreads() · (nH1+nH2) · modfl)` with 1. -/

/-- **The update-vs-refactor decision depends on the worker count** (code as published; values logged by the real
    solver on the check's regression instance, generator seed 2 / problem 2, at `F[10] G[18] H1[3]`: factor work 385,
    modification work 12): with one worker the factor is updated row by row, with two it is recomputed.  The
    differently rounded factors change the residual by 6·10⁻¹³ relative and, on that ill-conditioned problem, the final
    coefficients by 0.51 (largest coefficient 0.58).  So "same coefficients for every worker count" is **false** of the
    published tree.  After fixes/C12-2.diff the threshold uses the constant 16 and `modify_factor` no longer reads the
    worker count.  The check extracts these numbers from the solver's own log on every run and evaluates `factorUpdate` on them. -/
theorem C12_factor_update_depends_on_worker_count :
    factorUpdate 1 true 10 385 12 3 = true ∧ factorUpdate 2 true 10 385 12 3 = false := by
  decide

/-! ### satisfiability of the hypotheses (non-trivial instances) -/
/-- a complete run of the repaired protocol, 2 workers × 2 blocks (round-robin schedule) -/
def exSchedule : List Nat :=
  [0, 1, 0, 1, 2, 2, 0, 0, 0, 1, 1, 2, 2, 0, 0, 1, 1, 1, 2, 2, 2, 0, 0, 1, 1, 2, 2, 0, 0, 0, 1, 1, 2, 2, 0, 0, 1, 1, 1,
   2, 2, 0, 0, 1, 1, 0, 0, 0, 1, 1, 2, 1, 2, 0, 2, 0]

example : ∃ s, runSched (c12ex true) (init (c12ex true)) (exSchedule.map fun t => (t, false)) = some s ∧
    isFinal s = true ∧ s.chosen = some (some 2, true) ∧ s.calcs = 4 := by decide
-- a reachable non-final state (after 20 steps) with an enabled transition
example : ∃ s, runSched (c12ex true) (init (c12ex true)) ((exSchedule.take 20).map fun t => (t, false)) = some s ∧
    isFinal s = false ∧ anyEnabled (c12ex true) s = true := by decide
-- the witness schedule on the repaired protocol does not get stuck: the coordinator's test sees WAIT and goes on
example : ∃ s, runSched { lostWakeupCfg with repaired := true } (init lostWakeupCfg)
    (lostWakeupSchedule.take 12 ++ [(0,false)]) = some s ∧ s.cpc = .lockA ∧ s.blk = 1 := by decide
example : selectSeq (c12ex true).less 3 = (some 0, some (some 2, true)) := by decide
example : selectSeq (fun _ _ => false) 4 = (some 0, some (some 3, false)) := by decide
example : 0 < (c12ex true).n ∧ (c12ex true).blocks = 2 := by decide


/-! ### satisfiability of the hypotheses of the deepened theorems -/
-- (1) `C12_no_step_before_create`: the initial state is about to create worker 0; `C12_teardown_safe`: the final state above
example : Reach (c12ex true) (init (c12ex true)) ∧ (init (c12ex true)).cpc = .create 0 := ⟨Reach.init, rfl⟩
example : ∃ s, runSched (c12ex true) (init (c12ex true)) ((exSchedule.take 54).map fun t => (t, false)) = some s ∧
    s.cpc = .join 1 ∧ s.wpc 0 = .done := by decide
-- (2) `C12_step_bound`: a schedule with two spurious wake-ups that the protocol executes
def spurSchedule : List (Nat × Bool) := [(0,false),(1,false),(1,false),(1,true),(1,false),(1,false),(1,true),(0,false)]
example : (runSched fairCfg (init fairCfg) spurSchedule).isSome = true ∧ nspur spurSchedule = 2 := by decide
-- `C12_no_infinite_execution`: infinite executions exist (with infinitely many spurious wake-ups)
example : Nonempty (Exec fairCfg) := let ⟨e, _⟩ := C12_weakly_fair_infinite_execution; ⟨e⟩
-- `C12_strongly_fair_terminates`: `fairCfg` is repaired and has an infinite execution (the one above, unfair to thread 0)
example : fairCfg.repaired = true ∧ 0 < fairCfg.n ∧ Nonempty (Exec fairCfg) :=
  ⟨rfl, by decide, let ⟨e, _⟩ := C12_weakly_fair_infinite_execution; ⟨e⟩⟩
-- `C12_progress_measure`: a futile position (worker 0 woken spuriously with state WAIT) and a non-futile one
example : ∃ s, runSched fairCfg (init fairCfg) [(0,false),(1,false),(1,false),(1,true)] = some s ∧
    futile fairCfg s 1 = true ∧ futile fairCfg s 0 = false := by decide
-- `C12_blocks_started`: 2 workers, 3 trial steps: both blocks are needed (the chosen index 2 lies in block 1)
example : 0 < (c12ex true).n ∧ 2 ≤ (c12ex true).m := by decide
-- `C12_maximal_run_completes`: the complete run above ends in a state without enabled transition
example : ∃ s, runSched (c12ex true) (init (c12ex true)) (exSchedule.map fun t => (t, false)) = some s ∧
    anyEnabled (c12ex true) s = false := by decide
-- `C12_spurious_cycle`: its hypotheses hold in the state used by `C12_weak_fairness_not_enough`
example : ∃ s, runSched fairCfg (init fairCfg) [(0,false),(1,false),(1,false)] = some s ∧ s.wpc 0 = .waiting ∧
    s.st 0 = .wait ∧ s.owner = none := by decide

-- (3) a data instance: `x` is a number, a record is (trial index, value of x it was computed from), the copy loop adds
-- 100 + index; trial 2 is the first that reduces the residual
def c12data (n : Nat) : DProb Nat (Nat × Nat) :=
  { num := { trial := fun x k => (k, x), lt := fun a b => a.1 == 2 && b.1 == 0, put := fun x r => x + 100 + r.1 },
    x0 := 7, n := n, m := 3, repaired := true }
/-- a complete run with one worker (three blocks) -/
def exSchedule1 : List Nat :=
  [0,1,1,0,0,0,1,1,1,1,1,1,1,0,0,0,0,0,1,1,1,1,1,1,1,0,0,0,0,0,1,1,1,1,1,1,1,0,0,0,0,0,1,1,1,0]
-- two workers, two blocks: final outputs, counters
example : ∃ d, runSchedD (c12data 2) (initD (c12data 2)) (exSchedule.map fun t => (t, false)) = some d ∧
    isFinal d.ctl = true ∧ d.x = 109 ∧ d.res = some (0, 7) ∧ d.pick = some (some (2, 7), true) ∧
    d.cnt 0 = 1 ∧ d.cnt 1 = 1 ∧ d.cnt 2 = 1 ∧ d.cnt 3 = 0 ∧ d.ctl.blk = 2 := by decide
-- one worker, three blocks: the same outputs
example : ∃ d, runSchedD (c12data 1) (initD (c12data 1)) (exSchedule1.map fun t => (t, false)) = some d ∧
    isFinal d.ctl = true ∧ d.x = 109 ∧ d.res = some (0, 7) ∧ d.pick = some (some (2, 7), true) ∧ d.ctl.blk = 3 := by decide
example : seqD (c12data 2) = (109, (some (0, 7), some (some (2, 7), true))) := by decide
-- `C12_data_schedule_and_worker_count_independent`: the two instances differ only in the number of workers
example : (c12data 1).num = (c12data 2).num ∧ (c12data 1).x0 = (c12data 2).x0 ∧ (c12data 1).m = (c12data 2).m ∧
    (c12data 1).n ≠ (c12data 2).n := ⟨rfl, rfl, rfl, by decide⟩
-- `C12_compute_inputs_stable`: after 13 steps both workers are inside their compute regions
example : ∃ d, runSchedD (c12data 2) (initD (c12data 2)) ((exSchedule.take 13).map fun t => (t, false)) = some d ∧
    d.ctl.wpc 0 = .lock2 ∧ d.ctl.wpc 1 = .lock2 ∧ d.rdx 1 = 7 ∧ d.rda 1 = 1 := by decide
-- `C12_scanned_records`: after 22 steps the coordinator is about to scan block 0
example : ∃ d, runSchedD (c12data 2) (initD (c12data 2)) ((exSchedule.take 22).map fun t => (t, false)) = some d ∧
    d.ctl.cpc = .unlockB ∧ d.out 1 = some (1, 7) := by decide
example (d : DState Nat (Nat × Nat))
    (h : runSchedD (c12data 2) (initD (c12data 2)) (exSchedule.map fun t => (t, false)) = some d) :
    DReach (c12data 2) d := dreach_runSchedD _ _ _ _ DReach.init h

end PsV
