import PsV.Props.C09
import PsV.Proofs.GlamFlatten
import PsV.Proofs.FitScale
/-!
# C09 (continued) — the C-typed index arithmetic of `flatten_ndarray_to_sparse`, and scale equivariance

Audited together with `Props/C09.lean` and `Props/C09b.lean`.

**Part 1.**  `glam_eq_kron_C09` (Props/C09b.lean) is about `flattenNd`, whose positions are natural numbers.  The C
routine computes them with `long moduli[]`, `unsigned` ranges and indices, and `k % ncol`, `k / ncol` against a `size_t`
(`flattenC`, Model/GlamFlatten.lean — the definition `psvdriver C09` runs against the real function on every check).
Here: for every number of axes, as long as `Π ranges < 2⁶³` (a normal matrix with fewer than 2⁶³ cells, i.e. fewer than
about 3·10⁹ coefficients) the C-typed routine *is* the natural-number model — in particular beyond 2³² cells (more than
65536 coefficients), where a 32-bit stride type is wrong (`flatten_unsigned_moduli_collides`, `flatten_int_moduli_wrong`:
concrete witnesses for the 257 × 257 case).

**Part 2.**  Multiplying all weights and all smoothing strengths by a common `s > 0` multiplies the objective by `s`, so
it has the same minimiser; no absolute threshold on a smoothing strength (other than `= 0`) is compatible with this.
-/
namespace PsV
open Arith NormalEq
set_option linter.unusedSectionVars false

/-! ## 1. `flatten_ndarray_to_sparse` in its C types -/

/-- **(a) no conversion changes anything below 2⁶³ cells.**  Ranges that fit their type `unsigned int`, an index tuple
inside the ranges, `Π ranges < 2⁶³`, `0 < ncol < 2⁶⁴` (a `size_t`): the row and column that the C-typed routine
(`long moduli[]`, `k += i[j]*moduli[j]`, `(unsigned long)k / ncol`, `(unsigned long)k % ncol`, results stored as `long`)
computes are quotient and remainder of the mathematical mixed-radix number `Σ_j idx_j · Π_{k>j} ranges_k`. -/
theorem flatten_ctypes_exact (ranges idx : List Nat) (ncol : Nat) (hv : IdxIn idx ranges)
    (h32 : ∀ r ∈ ranges, r < 4294967296) (hb : natProd ranges < 9223372036854775808)
    (hn0 : 0 < ncol) (hn : ncol < 18446744073709551616) :
    flattenC ranges idx ncol
      = .ok (((glamRowMajor ranges idx / ncol : Nat) : Int), ((glamRowMajor ranges idx % ncol : Nat) : Int)) :=
  flattenC_eq_nat ranges idx ncol hv h32 hb hn0 hn

/-- non-vacuity: the last row block of the 257 × 257 normal matrix (flattened position 254·257³ = 4 311 546 622 > 2³²) -/
example : IdxIn [254, 0, 0, 0] [257, 257, 257, 257] ∧ (∀ r ∈ [257, 257, 257, 257], r < 4294967296)
    ∧ natProd [257, 257, 257, 257] < 9223372036854775808
    ∧ flattenC [257, 257, 257, 257] [254, 0, 0, 0] 66049 = .ok (65278, 0) := by
  refine ⟨by simp [idxIn_cons, idxIn_nil_right], by decide, by decide, by decide⟩

/-- **(b) row and column are the flat indices of the two halves of the index tuple.**  `ranges = A ++ B`,
`idx = ia ++ ib`, `ncol = Π B` — the way glam.c calls the routine: for `F`, `A = B = (n₁,…,n_d)` and
`nrow = ncol = sidelen`; for `R`, `A = (n₁,…,n_d)`, `B = ()`, `ncol = 1`.  Then `row = glamRowMajor A ia` and
`col = glamRowMajor B ib`. -/
theorem flatten_row_col_halves (A B ia ib : List Nat) (ha : IdxIn ia A) (hb : IdxIn ib B)
    (h32 : ∀ r ∈ A ++ B, r < 4294967296) (hprod : natProd (A ++ B) < 9223372036854775808) :
    flattenC (A ++ B) (ia ++ ib) (natProd B) = .ok ((glamRowMajor A ia : Int), (glamRowMajor B ib : Int)) := by
  have hB := natProd_pos_of_idxIn B ib hb
  have hA := natProd_pos_of_idxIn A ia ha
  have hlt := glamRowMajor_lt B ib hb
  have hBle : natProd B ≤ natProd (A ++ B) := by
    rw [ndFlat_natProd_append]; exact Nat.le_mul_of_pos_left _ hA
  rw [flatten_ctypes_exact (A ++ B) (ia ++ ib) (natProd B) (idxIn_append ia ib A B ha hb) h32 hprod hB (by omega),
    glamRowMajor_append A B ia ib ha.1, Nat.add_comm, Nat.add_mul_div_right _ _ hB, Nat.add_mul_mod_self_right,
    Nat.div_eq_of_lt hlt, Nat.mod_eq_of_lt hlt, Nat.zero_add]

/-- the call for `F`: axes `n₁,…,n_d,n₁,…,n_d`, `ncol = sidelen = Π n` -/
theorem flatten_F_row_col (ns ia ib : List Nat) (ha : IdxIn ia ns) (hb : IdxIn ib ns)
    (h32 : ∀ r ∈ ns, r < 4294967296) (hprod : natProd ns * natProd ns < 9223372036854775808) :
    flattenC (ns ++ ns) (ia ++ ib) (natProd ns) = .ok ((glamRowMajor ns ia : Int), (glamRowMajor ns ib : Int)) :=
  flatten_row_col_halves ns ns ia ib ha hb (fun r hr => h32 r (by simpa using hr))
    (by rw [ndFlat_natProd_append]; exact hprod)

/-- the call for `R`: axes `n₁,…,n_d`, `ncol = 1` -/
theorem flatten_R_row (ns ia : List Nat) (ha : IdxIn ia ns) (h32 : ∀ r ∈ ns, r < 4294967296)
    (hprod : natProd ns < 9223372036854775808) :
    flattenC ns ia 1 = .ok ((glamRowMajor ns ia : Int), 0) := by
  have h := flatten_row_col_halves ns [] ia [] ha ((idxIn_nil_right []).2 rfl) (by simpa using h32) (by simpa using hprod)
  simpa [natProd, glamRowMajor] using h

/-- non-vacuity: a 3-dimensional 70 × 50 × 40 coefficient grid (140 000 coefficients, 1.96·10¹⁰ cells): the cell of
`F` with row tuple (69, 49, 39) and column tuple (1, 2, 3) lands in row 139 999, column 2 083; and the `R` call. -/
example : IdxIn [69, 49, 39] [70, 50, 40] ∧ IdxIn [1, 2, 3] [70, 50, 40] ∧ (∀ r ∈ [70, 50, 40], r < 4294967296)
    ∧ natProd [70, 50, 40] * natProd [70, 50, 40] < 9223372036854775808
    ∧ flattenC ([70, 50, 40] ++ [70, 50, 40]) ([69, 49, 39] ++ [1, 2, 3]) (natProd [70, 50, 40]) = .ok (139999, 2083)
    ∧ flattenC [70, 50, 40] [69, 49, 39] 1 = .ok (139999, 0) := by
  refine ⟨by simp [idxIn_cons, idxIn_nil_right], by simp [idxIn_cons, idxIn_nil_right], by decide, by decide,
    by decide, by decide⟩

/-- **(c) distinct cells of the tensor go to distinct cells of the matrix** (so `triplet_to_sparse` adds up exactly the
entries that the listing repeats, nothing else). -/
theorem flatten_injective (ranges idx idx' : List Nat) (ncol : Nat) (hv : IdxIn idx ranges) (hv' : IdxIn idx' ranges)
    (h32 : ∀ r ∈ ranges, r < 4294967296) (hb : natProd ranges < 9223372036854775808)
    (hn0 : 0 < ncol) (hn : ncol < 18446744073709551616)
    (he : flattenC ranges idx ncol = flattenC ranges idx' ncol) : idx = idx' := by
  rw [flatten_ctypes_exact ranges idx ncol hv h32 hb hn0 hn,
    flatten_ctypes_exact ranges idx' ncol hv' h32 hb hn0 hn] at he
  have h := CRes.ok_inj he
  have h1 : glamRowMajor ranges idx / ncol = glamRowMajor ranges idx' / ncol := by
    have := congrArg Prod.fst h; exact Int.ofNat.inj this
  have h2 : glamRowMajor ranges idx % ncol = glamRowMajor ranges idx' % ncol := by
    have := congrArg Prod.snd h; exact Int.ofNat.inj this
  apply glamRowMajor_inj ranges idx idx' hv hv'
  rw [← Nat.div_add_mod (glamRowMajor ranges idx) ncol, ← Nat.div_add_mod (glamRowMajor ranges idx') ncol, h1, h2]

/-- non-vacuity: two cells of the 257 × 257 problem beyond the 2³² boundary are kept apart -/
example : flattenC [257, 257, 257, 257] [254, 0, 0, 0] 66049 ≠ flattenC [257, 257, 257, 257] [0, 251, 3, 256] 66049 := by
  decide

/-- **The matrix assembled with the C-typed positions is the matrix `glam_eq_kron_C09` is about.**  For a tensor whose
listed entries have valid index tuples (`NdSparse.WF`), below 2⁶³ cells, `flatten_ndarray_to_sparse` with the index
arithmetic in its C types followed by `triplet_to_sparse` (`flattenNdC`) is the natural-number model `flattenNd` that
`glamSystem` uses — so the GLAM identity `glam_eq_kron_C09` holds for the routine as typed in C, for every problem with
fewer than 2⁶³ normal-matrix cells. -/
theorem flatten_ctypes_is_model {α : Type} [A : Arith α] (a : NdSparse α) (nrow ncol : Nat) (ha : a.WF)
    (h32 : ∀ r ∈ a.ranges, r < 4294967296) (hb : natProd a.ranges < 9223372036854775808)
    (hn0 : 0 < ncol) (hn : ncol < 18446744073709551616) :
    flattenNdC a nrow ncol = .ok (flattenNd a nrow ncol) := by
  unfold flattenNdC flattenNd
  rw [flatPositionsC_eq a.ranges ncol a.entries ha h32 hb hn0 hn]

/-- non-vacuity: three entries (one cell listed twice) of the 257 × 257 × 257 × 257 tensor, two of them beyond position 2³² -/
example : (⟨[257, 257, 257, 257], [([254, 0, 0, 0], (1 : Rat)), ([0, 251, 3, 256], 2), ([254, 0, 0, 0], 4)]⟩ : NdSparse Rat).WF := by
  intro e he
  simp only [List.mem_cons, List.not_mem_nil, or_false] at he
  rcases he with rfl | rfl | rfl <;> simp [idxIn_cons, idxIn_nil_right]

/-- **(d) the width of `moduli[]` matters.**  With `unsigned moduli[]` (each product `i[j]*moduli[j]` computed modulo
2³²) the 257 × 257 problem — 66 049 coefficients, 4 362 470 401 cells — sends the cell (row tuple (254, 0), column tuple
(0, 0)), which belongs in row 65 278, column 0, to row 251, column 1 027, where the different cell
(row tuple (0, 251), column tuple (3, 256)) also goes: the statements (a) and (c) are false for that typing. -/
theorem flatten_unsigned_moduli_collides :
    flattenCT .uint [257, 257, 257, 257] [254, 0, 0, 0] 66049 = .ok (251, 1027)
    ∧ flattenCT .uint [257, 257, 257, 257] [0, 251, 3, 256] 66049 = .ok (251, 1027)
    ∧ flattenCT .long [257, 257, 257, 257] [254, 0, 0, 0] 66049 = .ok (65278, 0)
    ∧ flattenCT .long [257, 257, 257, 257] [0, 251, 3, 256] 66049 = .ok (251, 1027) := by
  decide

/-- the same for `int moduli[]`; for 256 × 256 (2³² cells exactly) every in-range position still fits. -/
theorem flatten_int_moduli_wrong :
    flattenCT .int [257, 257, 257, 257] [254, 0, 0, 0] 66049 = .ok (251, 1027)
    ∧ flattenCT .int [70000, 70000] [69999, 5] 70000 = .ok (8642, 22709)
    ∧ flattenCT .long [70000, 70000] [69999, 5] 70000 = .ok (69999, 5)
    ∧ flattenCT .uint [256, 256, 256, 256] [255, 255, 255, 255] 65536 = .ok (65535, 65535) := by
  decide

/-! ## 2. scale equivariance -/
section
variable {α : Type} [Field α] [LinearOrder α] [IsStrictOrderedRing α] [A : Arith α] [L : LawfulArith α]

/-- Multiplying every weight and every smoothing strength by `s` multiplies the objective by `s` (any `s`, any problem,
any coefficient vector). -/
theorem objective_scales (s : α) (P : FitProblem α) (c : Nat → α) :
    objective (scaleProblem s P) c = s * objective P c := objective_scale s P c

/-- … and the normal equations: `specM (s·w, s·λ) = s · specM (w, λ)`, `specR (s·w, s·λ) = s · specR (w, λ)`. -/
theorem normal_system_scales (s : α) (P : FitProblem α) :
    (scaleProblem s P).ncoef = P.ncoef
    ∧ (∀ i < P.ncoef, ∀ j < P.ncoef, (specM (scaleProblem s P)).get i j = s * (specM P).get i j)
    ∧ (∀ i < P.ncoef, (specR (scaleProblem s P)).getD i 0 = s * (specR P).getD i 0) :=
  ⟨rfl, fun i hi j hj => Mf_scale s P i j hi hj, fun i hi => rf_scale s P i hi⟩

/-- **Scale equivariance of the fit.**  For `s > 0` the problems `(w, λ)` and `(s·w, s·λ)` have the same minimisers, the
same solutions of the normal equations, and their normal matrices are positive definite together — so when one is
well-posed both are and their unique minimisers coincide.  (In particular a strictly positive smoothing strength can
never be treated as zero because it is small in absolute terms: with weights of the order 10⁻¹⁸, `λ = 3·10⁻¹⁷` is a strong
penalty.) -/
theorem C09_scale_equivariant (P : FitProblem α) (s : α) (hs : 0 < s) (c : Nat → α) :
    ((∀ c' : Nat → α, objective (scaleProblem s P) c ≤ objective (scaleProblem s P) c')
        ↔ ∀ c' : Nat → α, objective P c ≤ objective P c')
    ∧ ((∀ i < P.ncoef, mulVec P.ncoef (Mf (scaleProblem s P)) c i = rf (scaleProblem s P) i)
        ↔ ∀ i < P.ncoef, mulVec P.ncoef (Mf P) c i = rf P i)
    ∧ (PosDef P.ncoef (Mf (scaleProblem s P)) ↔ PosDef P.ncoef (Mf P)) := by
  refine ⟨?_, ?_, ?_⟩
  · refine forall_congr' (fun c' => ?_)
    rw [objective_scale, objective_scale]
    exact ⟨fun h => le_of_mul_le_mul_left h hs, fun h => mul_le_mul_of_nonneg_left h hs.le⟩
  · refine forall_congr' (fun i => forall_congr' (fun hi => ?_))
    rw [mulVec_Mf_scale s P c i hi, rf_scale s P i hi]
    exact ⟨fun h => mul_left_cancel₀ hs.ne' h, fun h => by rw [h]⟩
  · unfold PosDef
    refine forall_congr' (fun v => forall_congr' (fun _ => ?_))
    rw [quad_Mf_scale]
    exact mul_pos_iff_of_pos_left hs

/-- The unique minimiser of the well-posed problem `(w, λ)` is the unique minimiser of `(s·w, s·λ)`: every solution `c`
of the normal equations of the *scaled* problem minimises the *unscaled* objective, uniquely. -/
theorem C09_scaled_solution_is_unique_minimiser (P : FitProblem α) (s : α) (hs : 0 < s) (c : Nat → α)
    (hP : PosDef P.ncoef (Mf P))
    (hc : ∀ i < P.ncoef, mulVec P.ncoef (Mf (scaleProblem s P)) c i = rf (scaleProblem s P) i) :
    (∀ c' : Nat → α, objective P c ≤ objective P c')
      ∧ ∀ c' : Nat → α, objective P c' ≤ objective P c → ∀ i < P.ncoef, c' i = c i := by
  have hN := ((C09_scale_equivariant P s hs c).2.1).1 hc
  exact ⟨((C09_fit_is_minimiser P c hP).1).1 hN, (C09_fit_is_minimiser P c hP).2 hN⟩

end

/-- non-vacuity: the example problem with weights and smoothing multiplied by 2⁻⁶⁰ (smoothing 8.7·10⁻¹⁹, below
`DBL_EPSILON`): its objective is 2⁻⁶⁰ times the original one, and `c = (1,1)` — the minimiser of the original — solves its
normal equations and minimises it. -/
example : (0 : Rat) < 1 / 2 ^ 60 ∧ (scaleProblem (1 / 2 ^ 60) exP).smooth = [1 / 2 ^ 60]
    ∧ (∀ i < exP.ncoef, mulVec exP.ncoef (Mf (scaleProblem (1 / 2 ^ 60) exP)) (fun _ => 1) i
        = rf (scaleProblem (1 / 2 ^ 60) exP) i)
    ∧ ∀ c' : Nat → Rat, objective (scaleProblem (1 / 2 ^ 60) exP) (fun _ => 1) ≤ objective (scaleProblem (1 / 2 ^ 60) exP) c' := by
  have hs : (0 : Rat) < 1 / 2 ^ 60 := by positivity
  refine ⟨hs, by simp [scaleProblem, exP], ?_, ?_⟩
  · exact ((C09_scale_equivariant exP _ hs _).2.1).2 exP_normal
  · exact ((C09_scale_equivariant exP _ hs _).1).2 (((C09_fit_is_minimiser exP _ exP_posDef).1).1 exP_normal)

end PsV
