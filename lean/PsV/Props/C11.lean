import PsV.Model.Nnls
namespace PsV
theorem c11_stub : True := trivial
end PsV
