import PsV.Proofs.Nnls
import PsV.Proofs.NnlsTerm
import PsV.Proofs.NnlsExist
import PsV.Proofs.WalkBlocks
import PsV.Props.C12
import Mathlib.Tactic.FinCases
import Mathlib.Tactic.NormNum
/-!
# C11 — the non-negative least-squares solvers return the constrained optimum

Property theorems only.  `qf A b z = ½ zᵀAz − bᵀz`, `gradM A b z = Az − b`, `SPD`, `KKT`, `TolKKT` are defined in
`PsV/Proofs/Nnls.lean`; `kktCheck`, `refNnls`, `distCheck`, `block3Run` are the executable definitions of
`PsV/Model/Nnls.lean` that the driver runs on the vectors returned by the C solvers.

What is **not** claimed: that the four C solvers converge for every input.  The check is certificate checking with a
proved checker (`kktCheck_sound` + `kkt_tol_gap` + `kkt_tol_dist` + `kkt_unique_min`): whatever vector a solver
returns is accepted only if the verified checker accepts it.  Exits of BLOCK3:
* `B3Exit.converged`  (`if (nH2 == 0 && optimal_on_F) break;`) — convergence: `block3_exit_kkt` (with exact solves
  the returned point satisfies the tolerance-KKT conditions);
* `B3Exit.iterCap`    (`iter == max_iter = 120`) — iteration cap, no optimality claim (`block3_cap_exit_not_kkt`
  exhibits a capped run that is not a KKT point);
* `B3Exit.innerFuel`  — model-only bound on the `while (!feasible)` loop.
All three return a component-wise non-negative vector (`block3_nonneg_invariant`), which is what C10 needs.

Proved for all sizes and all rational data about the executable definitions (second half of the file):
* the exact solve `solveOn` (Gauss–Jordan without row exchanges) is correct (`solveOn_solves`) and, on a certified
  matrix, total (`solveOn_returns`);
* the certificate `spdCert` (symmetric, all pivots `> 0`) is equivalent to positive definiteness (`spdCert_sound`,
  `spdCert_iff`) — through the `LDLᵀ` steps of the elimination, not through determinants;
* hence `ExactEnv` holds for the executable `exactEnv` (`exactEnv_ExactEnv`), and the convergence exit of the
  executable state machine certifies KKT with no hypothesis left (`block3_exit_kkt_exact`, `block3_exit_optimal`,
  `block3_exit_near_minimiser`);
* the constrained minimiser exists and is unique (`nnls_minimiser_exists_unique`), `refNnls` finds it
  (`refNnls_returns`), acceptance by `kktCheck` bounds the distance to it (`kktCheck_zero_optimal`,
  `kktCheck_tol_optimal`, `C11_certificate_full`);
* the `while (!feasible)` loop terminates within `n + 1` passes (`block3_inner_terminates`, `block3_exits`); an accepted
  projected step and an accepted unconstrained solve strictly decrease the objective
  (`walk_accepted_step_decreases`, `accepted_solve_decreases`).
Third round (end of the file): the result loop of `walk_descents` organised in blocks of workers — every trial index
looked at once, the last-trial test true for exactly one (block, worker) pair, the forced step taken for every worker
count, the sequential `walkDescents` of the state machine equal to that loop (`walk_trials_visited_once`,
`walk_last_trial_unique`, `walk_block_loop_sequential`, `walk_forced_step_reachable`, `walkDescents_is_block_loop`), and the
witness for the multiplier `n_blocks` (`walk_wrong_multiplier_never_steps`); rows added to the full-size factor by
`modify_factor_p` on the level of the represented matrix and `cholmod_rowadd`'s precondition
(`modify_factor_add_rows_represents`, `modify_factor_add_rows_order_independent`, `modify_factor_settle_first_breaks_rowadd`).
Still **not** proved: a decreasing measure for the outer `for` loop of BLOCK3 (the C code stores an unaccepted last
trial of `walk_descents` and binds coefficients below `kkt_tolerance`, both of which can raise the objective; the cap
`max_iter` is a real exit), and anything about the floating-point solves of the C code (covered by certificate checking).
-/
namespace PsV
open Matrix Nnls

section Exact
variable {n : ℕ} {α : Type} [Field α] [LinearOrder α] [IsStrictOrderedRing α]

/-- **KKT ⇒ unique global minimiser.**  `A` symmetric positive definite, `x ≥ 0`, `g = Ax − b` with `g_i = 0` where
`x_i > 0` and `g_i ≥ 0` where `x_i = 0`: then `x` minimises `½zᵀAz − bᵀz` over `z ≥ 0`, and any `z ≥ 0` with the
same value is `x`. -/
theorem kkt_unique_min (A : Matrix (Fin n) (Fin n) α) (b x : Fin n → α) (hA : SPD A) (hx : KKT A b x) :
    ∀ z : Fin n → α, (∀ i, 0 ≤ z i) → qf A b x ≤ qf A b z ∧ (qf A b z = qf A b x → z = x) := by
  intro z hz
  obtain ⟨hx0, hg0, hcomp⟩ := hx
  have hd := qf_diff hA.1 b x z
  have hlin : 0 ≤ (z - x) ⬝ᵥ gradM A b x := by
    rw [dot_sub_split]
    have h1 : 0 ≤ z ⬝ᵥ gradM A b x := Finset.sum_nonneg fun i _ => mul_nonneg (hz i) (hg0 i)
    have h2 : x ⬝ᵥ gradM A b x = 0 := by
      apply Finset.sum_eq_zero
      intro i _
      rcases lt_or_eq_of_le (hx0 i) with h | h
      · rw [hcomp i h, mul_zero]
      · rw [← h, zero_mul]
    rw [h2, sub_zero]; exact h1
  have hquad : 0 ≤ (z - x) ⬝ᵥ A *ᵥ (z - x) := hA.spsd.2 _
  constructor
  · linarith
  · intro heq
    by_contra hne
    have hne' : z - x ≠ 0 := sub_ne_zero.mpr hne
    have := hA.2 _ hne'
    linarith

/-- **Tolerance-KKT ⇒ explicit optimality gap.**  If `x ≥ 0`, `g_i ≥ −tol_i` and `g_i ≤ tol_i` where `x_i > 0`, then for
every feasible `z` (in particular the minimiser `x*`): `f x − f z ≤ Σ_i tol_i (x_i + z_i)`. -/
theorem kkt_tol_gap (A : Matrix (Fin n) (Fin n) α) (b x tol : Fin n → α) (hA : SPSD A) (hx : TolKKT A b x tol)
    (z : Fin n → α) (hz : ∀ i, 0 ≤ z i) :
    qf A b x - qf A b z ≤ ∑ i, tol i * (x i + z i) := by
  obtain ⟨hx0, hglo, hghi⟩ := hx
  have hd := qf_diff hA.1 b x z
  have hquad : 0 ≤ (z - x) ⬝ᵥ A *ᵥ (z - x) := hA.2 _
  have hlin : -(∑ i, tol i * (x i + z i)) ≤ (z - x) ⬝ᵥ gradM A b x := by
    rw [dot_sub_split, ← Finset.sum_neg_distrib]
    simp only [dotProduct]
    rw [← Finset.sum_sub_distrib]
    apply Finset.sum_le_sum
    intro i _
    have h1 : -(tol i) * z i ≤ z i * gradM A b x i := by
      have := mul_le_mul_of_nonneg_left (hglo i) (hz i)
      linarith
    have h2 : x i * gradM A b x i ≤ tol i * x i := by
      rcases lt_or_eq_of_le (hx0 i) with h | h
      · have := mul_le_mul_of_nonneg_left (hghi i h) (le_of_lt h)
        linarith
      · rw [← h]; simp
    linarith
  linarith

/-- **Tolerance-KKT ⇒ distance to the minimiser** (in the energy norm of `A`): if `xs` is an exact KKT point then
`½ (x − xs)ᵀ A (x − xs) ≤ Σ_i tol_i (x_i + xs_i)`.  This is the relation the driver decides (`distCheck`). -/
theorem kkt_tol_dist (A : Matrix (Fin n) (Fin n) α) (b x xs tol : Fin n → α) (hA : SPSD A) (hx : TolKKT A b x tol)
    (hxs : KKT A b xs) :
    (1/2) * ((x - xs) ⬝ᵥ A *ᵥ (x - xs)) ≤ ∑ i, tol i * (x i + xs i) := by
  have hgap := kkt_tol_gap A b x tol hA hx xs hxs.1
  obtain ⟨hs0, hsg, hscomp⟩ := hxs
  have hd := qf_diff hA.1 b xs x
  have hlin : 0 ≤ (x - xs) ⬝ᵥ gradM A b xs := by
    rw [dot_sub_split]
    have h1 : 0 ≤ x ⬝ᵥ gradM A b xs := Finset.sum_nonneg fun i _ => mul_nonneg (hx.1 i) (hsg i)
    have h2 : xs ⬝ᵥ gradM A b xs = 0 := by
      apply Finset.sum_eq_zero
      intro i _
      rcases lt_or_eq_of_le (hs0 i) with h | h
      · rw [hscomp i h, mul_zero]
      · rw [← h, zero_mul]
    rw [h2, sub_zero]; exact h1
  linarith

end Exact

/-! ## the executable checker and the reference solver (at `ℚ`, the carrier the driver runs) -/

/-- **Soundness of the executable checker**: `kktCheck … = true` implies the tolerance-KKT predicate for the matrix
and vectors it was given. -/
theorem kktCheck_sound (n : ℕ) (A : Mat) (b x tol : Vec) (h : kktCheck n A b x tol = true) :
    TolKKT (toMat n A) (toVec n b) (toVec n x) (toVec n tol) := by
  unfold kktCheck at h
  rw [List.all_eq_true] at h
  have key : ∀ i : Fin n, 0 ≤ x i ∧ -(tol i) ≤ grad n A b x i ∧ (x i ≤ 0 ∨ grad n A b x i ≤ tol i) := by
    intro i
    have := h i (List.mem_range.mpr i.2)
    simp only [Bool.and_eq_true, Bool.or_eq_true, decide_eq_true_eq] at this
    exact ⟨this.1.1, this.1.2, this.2⟩
  refine ⟨fun i => (key i).1, fun i => ?_, fun i hi => ?_⟩
  · rw [← grad_eq]; exact (key i).2.1
  · rw [← grad_eq]
    rcases (key i).2.2 with h0 | h1
    · exact absurd hi (not_lt.mpr h0)
    · exact h1

/-- with tolerance 0 the checker certifies exact KKT -/
theorem kktCheck_zero_sound (n : ℕ) (A : Mat) (b x : Vec) (h : kktCheck n A b x (fun _ => 0) = true) :
    KKT (toMat n A) (toVec n b) (toVec n x) := by
  obtain ⟨h0, h1, h2⟩ := kktCheck_sound n A b x _ h
  refine ⟨h0, fun i => ?_, fun i hi => ?_⟩
  · have := h1 i; simpa [toVec] using this
  · have a := h1 i; have c := h2 i hi
    simp only [toVec, neg_zero] at a c
    exact le_antisymm c a

/-- the executable distance test is the relation of `kkt_tol_dist` -/
theorem distCheck_iff (n : ℕ) (A : Mat) (tol x z : Vec) :
    distCheck n A tol x z = true ↔
      (1/2) * ((toVec n x - toVec n z) ⬝ᵥ (toMat n A) *ᵥ (toVec n x - toVec n z))
        ≤ ∑ i, toVec n tol i * (toVec n x i + toVec n z i) := by
  unfold distCheck
  rw [decide_eq_true_eq, halfQuad_eq, gapBound_eq]
  rfl

theorem refSearch_sound (n : ℕ) (A : Mat) (b : Vec) (fuel mask : ℕ) (xa : Array ℚ)
    (h : refSearch n A b fuel mask = some xa) : kktCheck n A b (at0 xa) (fun _ => 0) = true := by
  induction fuel generalizing mask with
  | zero => simp [refSearch] at h
  | succ f ih =>
    unfold refSearch at h
    cases ht : tryMask n A b mask with
    | none => rw [ht] at h; exact ih _ h
    | some y =>
      rw [ht] at h
      have hy : y = xa := by simpa using h
      subst hy
      unfold tryMask at ht
      cases hs : solveOn n A b (maskSet n mask) with
      | none => rw [hs] at ht; simp at ht
      | some w =>
        rw [hs] at ht
        simp only at ht
        split at ht
        · rename_i hc
          have : w = y := by simpa using ht
          subst this
          simp only [Bool.and_eq_true] at hc
          exact hc.2
        · simp at ht

/-- **Soundness of the reference solver**: whatever `refNnls` returns satisfies the exact KKT conditions … -/
theorem refNnls_sound (n : ℕ) (A : Mat) (b : Vec) (xa : Array ℚ) (h : refNnls n A b = some xa) :
    KKT (toMat n A) (toVec n b) (toVec n (at0 xa)) :=
  kktCheck_zero_sound n A b _ (refSearch_sound n A b _ _ xa h)

/-- … hence, for a symmetric positive-definite matrix, it *is* the unique constrained minimiser. -/
theorem refNnls_is_minimiser (n : ℕ) (A : Mat) (b : Vec) (xa : Array ℚ) (hA : SPD (toMat n A))
    (h : refNnls n A b = some xa) (z : Fin n → ℚ) (hz : ∀ i, 0 ≤ z i) :
    qf (toMat n A) (toVec n b) (toVec n (at0 xa)) ≤ qf (toMat n A) (toVec n b) z ∧
      (qf (toMat n A) (toVec n b) z = qf (toMat n A) (toVec n b) (toVec n (at0 xa)) → z = toVec n (at0 xa)) :=
  kkt_unique_min _ _ _ hA (refNnls_sound n A b xa h) z hz

/-- **What the correspondence establishes per accepted vector**: if the driver's three decisions succeed for the
(projected) vector `x` returned by a C solver — `kktCheck` with tolerance `tol`, `refNnls = some xs`, `distCheck` —
then `x` is a tolerance-KKT point, its objective value exceeds the constrained minimum by at most
`Σ tol_i (x_i + xs_i)`, and `xs` is the unique constrained minimiser. -/
theorem C11_certificate (n : ℕ) (A : Mat) (b x tol : Vec) (xa : Array ℚ) (hA : SPD (toMat n A))
    (hk : kktCheck n A b x tol = true) (hr : refNnls n A b = some xa) :
    TolKKT (toMat n A) (toVec n b) (toVec n x) (toVec n tol) ∧
    (∀ z : Fin n → ℚ, (∀ i, 0 ≤ z i) →
        qf (toMat n A) (toVec n b) (toVec n x) - qf (toMat n A) (toVec n b) z
          ≤ ∑ i, toVec n tol i * (toVec n x i + z i)) ∧
    distCheck n A tol x (at0 xa) = true := by
  have hT := kktCheck_sound n A b x tol hk
  have hK := refNnls_sound n A b xa hr
  refine ⟨hT, fun z hz => kkt_tol_gap _ _ _ _ hA.spsd hT z hz, ?_⟩
  rw [distCheck_iff]
  exact kkt_tol_dist _ _ _ _ _ hA.spsd hT hK

/-! ## the BLOCK3 state machine (`nnls_normal_block3` + `walk_descents`, repaired code) -/

/-- **Non-negativity invariant** (needed by C10): for *every* environment — any linear solver, any residual
function, any dual update, any iteration caps — and every exit (`converged`, `iterCap`, `innerFuel`), the vector the
state machine returns is component-wise `≥ 0`: an unconstrained solution is accepted only if it has no negative
entry, bound coefficients are set to zero, and projected trial points are clamped. -/
theorem block3_nonneg_invariant (E : B3Env) (y0 : ℕ → ℚ) :
    ∀ i, 0 ≤ at0 (block3Run E y0).1.x i := by
  unfold block3Run
  apply outerLoop_nn
  intro i; simp [b3Init, at0_empty]

/-- **The convergence exit certifies KKT.**  If the environment computes exact solves on the passive set and exact
duals (`ExactEnv`), a run that leaves through `if (nH2 == 0 && optimal_on_F) break;` returns a point accepted by the
verified checker with the solver's tolerance `kkt_tolerance` — hence (`kktCheck_sound`, `kkt_tol_gap`) a tolerance-KKT
point.  Nothing of the kind holds for the `iterCap` exit (`block3_cap_exit_not_kkt`).
Before the repair `fixes/C11-1.diff` the C code left through `if (nH2 == 0) break;` also right after a projected
step of `walk_descents`, where `x[F]` is not the solution on `F`: the statement was false for the code as it was. -/
theorem block3_exit_kkt (E : B3Env) (A : Mat) (b : Vec) (hE : ExactEnv E A b)
    (hexit : (block3Run E fun i => -(b i)).2 = B3Exit.converged) :
    kktCheck E.n A b (at0 (block3Run E fun i => -(b i)).1.x) (fun _ => E.tol) = true := by
  unfold block3Run at hexit ⊢
  exact outerLoop_kkt E A b hE _ _ (b3Init_inv E A b) hexit

/-- the dual update of the executable exact environment is exact (its solve is exact whenever the Gauss–Jordan
elimination is; that part is checked per run by the driver, not proved) -/
theorem exactEnv_dual_exact (n : ℕ) (A : Mat) (b : Vec) (tol : ℚ) (mi fu : ℕ) (inF : ℕ → Bool) (x : ℕ → ℚ) (i : ℕ) :
    (exactEnv n A b tol mi fu).dual inF x i = grad n A b (fun j => if inF j then x j else 0) i := by
  unfold exactEnv grad Nnls.mulVec
  simp only
  congr 1
  apply sumTo_congr
  intro j _
  split <;> simp


/-! ## the exact solve, the SPD certificate, and what they discharge (all sizes, all rational data)

`solveOn`, `gaussJordan`, `spdCert`, `exactEnv`, `block3Run` are the executable definitions of `PsV/Model/Nnls.lean`
the driver runs.  The proofs go through an entry-function description of the elimination (`PsV/Proofs/NnlsElim.lean`)
that the array code is shown to compute (`PsV/Proofs/NnlsBridge.lean`, `gj_bridge`). -/

/-- **The exact solve is correct.**  Whatever `solveOn n A b S` (Gauss–Jordan without row exchanges on `[A_SS | b_S]`,
scattered back) returns for a duplicate-free `S ⊆ [0,n)` is zero off `S` and satisfies the rows `i ∈ S` of `A x = b`. -/
theorem solveOn_solves (n : ℕ) (A : Mat) (b : Vec) (S : List ℕ) (x : Array ℚ) (hS : S.Nodup) (hn : ∀ i ∈ S, i < n)
    (h : solveOn n A b S = some x) :
    (∀ i, i ∉ S → at0 x i = 0) ∧ ∀ i, i ∈ S → Nnls.mulVec n A (at0 x) i = b i := by
  obtain ⟨h1, h2⟩ := solveOn_correct hS hn h
  refine ⟨h1, fun i hi => ?_⟩
  have := h2 i hi
  unfold grad at this
  linarith

/-- **The SPD certificate is sound** (what Sylvester's criterion was trusted for): `spdCert n A = true` — symmetric
and every pivot of the elimination without row exchanges `> 0` — implies `vᵀAv > 0` for every `v ≠ 0`.  Proof through
the `LDLᵀ` factorisation the elimination computes (`Qf_decomp`). -/
theorem spdCert_sound (n : ℕ) (A : Mat) (h : spdCert n A = true) : SPD (toMat n A) := spdCert_spd n A h

/-- … and complete: the certificate accepts exactly the symmetric positive-definite matrices. -/
theorem spdCert_iff (n : ℕ) (A : Mat) : spdCert n A = true ↔ SPD (toMat n A) :=
  ⟨spdCert_spd n A, spd_spdCert n A⟩

/-- **On a certified matrix the exact solve returns** for every passive set (no zero pivot: principal submatrices of
an SPD matrix are SPD, and SPD blocks have positive pivots). -/
theorem solveOn_returns (n : ℕ) (A : Mat) (b : Vec) (S : List ℕ) (hA : spdCert n A = true) (hS : S.Nodup)
    (hn : ∀ i ∈ S, i < n) : ∃ x, solveOn n A b S = some x :=
  solveOn_spd b (spdCert_spd n A hA) hS hn

/-- **`ExactEnv` holds for the executable exact environment** of a certified system: the hypothesis of
`block3_exit_kkt` is discharged for the definition the driver runs. -/
theorem exactEnv_ExactEnv (n : ℕ) (A : Mat) (b : Vec) (tol : ℚ) (mi fu : ℕ) (hA : spdCert n A = true)
    (htol : 0 ≤ tol) : ExactEnv (exactEnv n A b tol mi fu) A b :=
  exactEnv_exact n A b tol mi fu (spdCert_spd n A hA) htol

/-- **Acceptance by the checker with tolerance 0 on a certified matrix = the unique global optimum.** -/
theorem kktCheck_zero_optimal (n : ℕ) (A : Mat) (b x : Vec) (hA : spdCert n A = true)
    (hk : kktCheck n A b x (fun _ => 0) = true) (z : Fin n → ℚ) (hz : ∀ i, 0 ≤ z i) :
    qf (toMat n A) (toVec n b) (toVec n x) ≤ qf (toMat n A) (toVec n b) z ∧
      (qf (toMat n A) (toVec n b) z = qf (toMat n A) (toVec n b) (toVec n x) → z = toVec n x) :=
  kkt_unique_min _ _ _ (spdCert_spd n A hA) (kktCheck_zero_sound n A b x hk) z hz

/-- **Acceptance by the checker with a tolerance on a certified matrix**: explicit optimality gap against every
feasible point, and distance (energy norm) to any exact KKT point — which is then the unique minimiser. -/
theorem kktCheck_tol_optimal (n : ℕ) (A : Mat) (b x tol : Vec) (hA : spdCert n A = true)
    (hk : kktCheck n A b x tol = true) :
    (∀ z : Fin n → ℚ, (∀ i, 0 ≤ z i) →
      qf (toMat n A) (toVec n b) (toVec n x) - qf (toMat n A) (toVec n b) z
        ≤ ∑ i, toVec n tol i * (toVec n x i + z i)) ∧
    (∀ xs : Fin n → ℚ, KKT (toMat n A) (toVec n b) xs →
      (1/2) * ((toVec n x - xs) ⬝ᵥ (toMat n A) *ᵥ (toVec n x - xs)) ≤ ∑ i, toVec n tol i * (toVec n x i + xs i)) := by
  have hS := (spdCert_spd n A hA).spsd
  have hT := kktCheck_sound n A b x tol hk
  exact ⟨fun z hz => kkt_tol_gap _ _ _ _ hS hT z hz, fun xs hxs => kkt_tol_dist _ _ _ _ _ hS hT hxs⟩

/-- **The convergence exit of the executable state machine certifies KKT — no hypothesis on the solver left.**
For a certified system and `tol ≥ 0`, a run of `block3Run` on `exactEnv` that leaves through
`if (nH2 == 0 && optimal_on_F) break;` returns a point accepted by `kktCheck` with the tolerance `tol`. -/
theorem block3_exit_kkt_exact (n : ℕ) (A : Mat) (b : Vec) (tol : ℚ) (mi fu : ℕ) (hA : spdCert n A = true)
    (htol : 0 ≤ tol)
    (hexit : (block3Run (exactEnv n A b tol mi fu) fun i => -(b i)).2 = B3Exit.converged) :
    kktCheck n A b (at0 (block3Run (exactEnv n A b tol mi fu) fun i => -(b i)).1.x) (fun _ => tol) = true :=
  block3_exit_kkt (exactEnv n A b tol mi fu) A b (exactEnv_ExactEnv n A b tol mi fu hA htol) hexit

/-- … hence it is within the explicit gap of the constrained optimum, and with `tol = 0` it *is* the unique
constrained minimiser. -/
theorem block3_exit_optimal (n : ℕ) (A : Mat) (b : Vec) (tol : ℚ) (mi fu : ℕ) (hA : spdCert n A = true)
    (htol : 0 ≤ tol)
    (hexit : (block3Run (exactEnv n A b tol mi fu) fun i => -(b i)).2 = B3Exit.converged)
    (z : Fin n → ℚ) (hz : ∀ i, 0 ≤ z i) :
    qf (toMat n A) (toVec n b) (toVec n (at0 (block3Run (exactEnv n A b tol mi fu) fun i => -(b i)).1.x))
        - qf (toMat n A) (toVec n b) z
      ≤ ∑ i, tol * (toVec n (at0 (block3Run (exactEnv n A b tol mi fu) fun i => -(b i)).1.x) i + z i) ∧
    (tol = 0 → qf (toMat n A) (toVec n b) z
        = qf (toMat n A) (toVec n b) (toVec n (at0 (block3Run (exactEnv n A b tol mi fu) fun i => -(b i)).1.x)) →
      z = toVec n (at0 (block3Run (exactEnv n A b tol mi fu) fun i => -(b i)).1.x)) := by
  have hk := block3_exit_kkt_exact n A b tol mi fu hA htol hexit
  refine ⟨(kktCheck_tol_optimal n A b _ _ hA hk).1 z hz, fun h0 => ?_⟩
  subst h0
  exact (kktCheck_zero_optimal n A b _ hA hk z hz).2

/-- **The constrained minimiser exists and is unique** on every certified system (existence by induction on the
dimension with the Schur-complement step, `kktOn_exists`; no compactness argument, everything stays in `ℚ`). -/
theorem nnls_minimiser_exists_unique (n : ℕ) (A : Mat) (b : Vec) (hA : spdCert n A = true) :
    ∃ xs : Fin n → ℚ, KKT (toMat n A) (toVec n b) xs ∧
      ∀ z : Fin n → ℚ, (∀ i, 0 ≤ z i) →
        qf (toMat n A) (toVec n b) xs ≤ qf (toMat n A) (toVec n b) z ∧
        (qf (toMat n A) (toVec n b) z = qf (toMat n A) (toVec n b) xs → z = xs) := by
  obtain ⟨x, hx⟩ := kkt_point_exists n A b (spdCert_spd n A hA)
  exact ⟨toVec n x, kktCheck_zero_sound n A b x hx, fun z hz => kktCheck_zero_optimal n A b x hA hx z hz⟩

/-- **The reference solver is complete**: on a certified system `refNnls` returns (so the `ref=1` answer of the driver
is a theorem, and `C11_certificate` needs no hypothesis about it). -/
theorem refNnls_returns (n : ℕ) (A : Mat) (b : Vec) (hA : spdCert n A = true) : ∃ xa, refNnls n A b = some xa :=
  refNnls_complete n A b (spdCert_spd n A hA)

/-- **Acceptance by the checker, full strength**: on a certified system a vector accepted by `kktCheck` with
tolerance `tol` is within the `kkt_tol_dist` distance of the vector `refNnls` returns, which exists and is the unique
constrained minimiser. -/
theorem C11_certificate_full (n : ℕ) (A : Mat) (b x tol : Vec) (hA : spdCert n A = true)
    (hk : kktCheck n A b x tol = true) :
    ∃ xa, refNnls n A b = some xa ∧ distCheck n A tol x (at0 xa) = true ∧
      ∀ z : Fin n → ℚ, (∀ i, 0 ≤ z i) →
        qf (toMat n A) (toVec n b) (toVec n (at0 xa)) ≤ qf (toMat n A) (toVec n b) z ∧
        (qf (toMat n A) (toVec n b) z = qf (toMat n A) (toVec n b) (toVec n (at0 xa)) → z = toVec n (at0 xa)) := by
  obtain ⟨xa, hr⟩ := refNnls_returns n A b hA
  have hS := spdCert_spd n A hA
  exact ⟨xa, hr, (C11_certificate n A b x tol xa hS hk hr).2.2, fun z hz => refNnls_is_minimiser n A b xa hS hr z hz⟩

/-- **BLOCK3 with exact solves, convergence exit, full strength**: the returned point is within the `kkt_tol_dist`
distance (tolerance `kkt_tolerance` on every component) of the unique constrained minimiser, which `refNnls`
computes. -/
theorem block3_exit_near_minimiser (n : ℕ) (A : Mat) (b : Vec) (tol : ℚ) (mi fu : ℕ) (hA : spdCert n A = true)
    (htol : 0 ≤ tol)
    (hexit : (block3Run (exactEnv n A b tol mi fu) fun i => -(b i)).2 = B3Exit.converged) :
    ∃ xa, refNnls n A b = some xa ∧
      distCheck n A (fun _ => tol) (at0 (block3Run (exactEnv n A b tol mi fu) fun i => -(b i)).1.x) (at0 xa) = true := by
  obtain ⟨xa, hr, hd, _⟩ := C11_certificate_full n A b _ _ hA (block3_exit_kkt_exact n A b tol mi fu hA htol hexit)
  exact ⟨xa, hr, hd⟩

/-- **The `while (!feasible)` loop terminates** (DESIGN: `block3_inner_terminates`).  On a certified system with exact
solves every pass of the inner loop that does not leave it removes at least one coefficient from the passive set
(bound at the boundary, or clamped by an unsuccessful projected step — an unsuccessful *unprojected* step is
impossible because the objective strictly decreases along the segment to the minimiser on `F`), so the loop ends
within `n + 1` passes: with `innerFuel > n` the model-only exit `innerFuel` is unreachable, from any start `y0`.
No such measure is proved for the outer `for` loop; its cap `max_iter` is a real exit (`block3_cap_exit_not_kkt`). -/
theorem block3_inner_terminates (n : ℕ) (A : Mat) (b : Vec) (tol : ℚ) (mi fu : ℕ) (y0 : ℕ → ℚ)
    (hA : spdCert n A = true) (htol : 0 ≤ tol) (hfu : n < fu) :
    (block3Run (exactEnv n A b tol mi fu) y0).2 ≠ B3Exit.innerFuel := by
  unfold block3Run
  refine outerLoop_no_innerFuel (exactEnv n A b tol mi fu) A b (spdCert_spd n A hA)
    (exactEnv_ExactEnv n A b tol mi fu hA htol) (exactEnv_resid n A b tol mi fu) hfu _ _ ?_
  intro i; simp [b3Init, at0_empty]

/-- **An accepted projected step strictly decreases the objective.**  When `walk_descents` returns `feasible = true`
from a point `x ≥ 0`, the objective of the projected trial point (both restricted to the passive set `F`) is strictly
smaller.  (An *unaccepted* last trial is nevertheless stored by the C code and by the model; together with the
"descent at boundary" binding, which can raise the objective by `O(kkt_tolerance)`, this is why no monotone measure is
proved for the outer loop.) -/
theorem walk_accepted_step_decreases (n : ℕ) (A : Mat) (b : Vec) (tol : ℚ) (mi fu : ℕ) (inF : ℕ → Bool)
    (x xF : ℕ → ℚ) (hx : ∀ i, 0 ≤ x i) (hw : (walkDescents (exactEnv n A b tol mi fu) inF x xF).2 = true) :
    qf (toMat n A) (toVec n b) (restr n inF (trialVal inF x xF (walkDescents (exactEnv n A b tol mi fu) inF x xF).1))
      < qf (toMat n A) (toVec n b) (restr n inF x) :=
  walk_feasible_decreases (exactEnv n A b tol mi fu) A b (exactEnv_resid n A b tol mi fu) inF x xF hx hw

/-- **An accepted unconstrained solve strictly decreases the objective.**  On a certified system, if `x` is supported
on the passive set `F` and its gradient does not vanish somewhere on `F` (the situation right after coefficients with
multipliers `< −kkt_tolerance` have been added to `F`), the exact solve on `F` — which the loop accepts when it has no
negative entry — has a strictly smaller objective. -/
theorem accepted_solve_decreases (n : ℕ) (A : Mat) (b : Vec) (tol : ℚ) (mi fu : ℕ) (hA : spdCert n A = true)
    (htol : 0 ≤ tol) (inF : ℕ → Bool) (x : ℕ → ℚ) (hsup : ∀ i, i < n → inF i = false → x i = 0)
    (hg : ∃ i, i < n ∧ inF i = true ∧ grad n A b x i ≠ 0) :
    qf (toMat n A) (toVec n b) (restr n inF (at0 ((exactEnv n A b tol mi fu).solve inF)))
      < qf (toMat n A) (toVec n b) (toVec n x) :=
  full_step_decreases (exactEnv n A b tol mi fu) A b (spdCert_spd n A hA)
    (exactEnv_ExactEnv n A b tol mi fu hA htol) inF x hsup hg

/-- every exit of a run on a certified system with `innerFuel > n` is one of the two exits of the C code -/
theorem block3_exits (n : ℕ) (A : Mat) (b : Vec) (tol : ℚ) (mi fu : ℕ) (y0 : ℕ → ℚ)
    (hA : spdCert n A = true) (htol : 0 ≤ tol) (hfu : n < fu) :
    (block3Run (exactEnv n A b tol mi fu) y0).2 = B3Exit.converged ∨
    (block3Run (exactEnv n A b tol mi fu) y0).2 = B3Exit.iterCap := by
  have := block3_inner_terminates n A b tol mi fu y0 hA htol hfu
  cases h : (block3Run (exactEnv n A b tol mi fu) y0).2 with
  | converged => exact Or.inl rfl
  | iterCap => exact Or.inr rfl
  | innerFuel => exact absurd h this

/-! ### concrete instances (non-vacuity) -/

/-- a 2 × 2 system: `A = [[2,1],[1,2]]`, `b = (1, −1)`; minimiser `(1/2, 0)` with gradient `(0, 3/2)` -/
def exA : Mat := fun i j => if i = j then 2 else 1
def exb : Vec := fun i => if i = 0 then 1 else -1

theorem exA_spd : SPD (toMat 2 exA) := by
  constructor
  · ext i j; fin_cases i <;> fin_cases j <;> simp [toMat, exA]
  · intro v hv
    have hne : v 0 ≠ 0 ∨ v 1 ≠ 0 := by
      by_contra h
      rw [not_or, not_not, not_not] at h
      apply hv; ext i; fin_cases i <;> simp [h.1, h.2]
    have : v ⬝ᵥ (toMat 2 exA) *ᵥ v = v 0 ^ 2 + v 1 ^ 2 + (v 0 + v 1) ^ 2 := by
      simp [dotProduct, Matrix.mulVec, Fin.sum_univ_two, toMat, exA]; ring
    rw [this]
    rcases hne with h | h
    · have := sq_pos_of_ne_zero h
      nlinarith [sq_nonneg (v 1), sq_nonneg (v 0 + v 1)]
    · have := sq_pos_of_ne_zero h
      nlinarith [sq_nonneg (v 0), sq_nonneg (v 0 + v 1)]

/-- `refNnls` finds the minimiser of the example (kernel evaluation of the executable definition) -/
theorem ex_ref : refNnls 2 exA exb = some #[1/2, 0] := by decide +kernel

/-- hypotheses of `kkt_unique_min`, `kkt_tol_dist`: an SPD matrix with an exact KKT point that has an active and an
inactive constraint -/
example : SPD (toMat 2 exA) ∧ KKT (toMat 2 exA) (toVec 2 exb) (toVec 2 (at0 #[1/2, 0])) :=
  ⟨exA_spd, refNnls_sound 2 exA exb _ ex_ref⟩

/-- hypotheses of `kktCheck_sound`, `kkt_tol_gap`, `C11_certificate`: a slightly wrong point accepted with a positive
tolerance (and rejected with tolerance 0) -/
example : kktCheck 2 exA exb (at0 #[1/2 + 1/1000, 0]) (fun _ => 1/100) = true ∧
    kktCheck 2 exA exb (at0 #[1/2 + 1/1000, 0]) (fun _ => 0) = false ∧
    distCheck 2 exA (fun _ => 1/100) (at0 #[1/2 + 1/1000, 0]) (at0 #[1/2, 0]) = true := by decide +kernel

/-- hypothesis of `block3_exit_kkt`: the executable exact environment on the example leaves through the convergence
exit (after freeing coefficient 0 and accepting the solve), with the minimiser -/
example : (block3Run (exactEnv 2 exA exb (1/1000000) 120 16) fun i => -(exb i)).2 = B3Exit.converged ∧
    (block3Run (exactEnv 2 exA exb (1/1000000) 120 16) fun i => -(exb i)).1.x = #[1/2, 0] := by decide +kernel

/-- `ExactEnv` is satisfiable: a one-variable system with its exact solve -/
example : ExactEnv { n := 1, tol := 0, solve := fun _ => #[3/2], resid := fun _ _ => 0,
                     dual := fun inF x i => grad 1 (fun _ _ => 2) (fun _ => 3) (fun j => if inF j then x j else 0) i,
                     maxIter := 120, innerFuel := 8 } (fun _ _ => 2) (fun _ => 3) := by
  refine ⟨le_refl _, ?_, fun _ _ _ _ => rfl⟩
  intro inF i hi hF
  have hi' : i < 1 := hi
  have : i = 0 := by omega
  subst this
  simp [grad, Nnls.mulVec, sumTo, hF, at0]
  norm_num

/-- **The iteration-cap exit carries no optimality claim**: a run stopped by the cap before the first iteration returns
`x = 0`, which is not a KKT point of the example (`g₀ = −1 < 0`). -/
theorem block3_cap_exit_not_kkt :
    (block3Run (exactEnv 2 exA exb (1/1000000) 0 16) fun i => -(exb i)).2 = B3Exit.iterCap ∧
    kktCheck 2 exA exb (at0 (block3Run (exactEnv 2 exA exb (1/1000000) 0 16) fun i => -(exb i)).1.x)
      (fun _ => 1/1000000) = false := by decide +kernel

/-- a 5 × 5 Gram system (taken from the generator) on which the state machine takes a projected step of
`walk_descents` -/
def exA5 : Mat := fun i j =>
  ((([[3367, 529, 633, 1707, -144], [529, 1865, 139, 460, -1149], [633, 139, 1360, 589, -360],
      [1707, 460, 589, 2710, 342], [-144, -1149, -360, 342, 1155]] : List (List Int)).getD i []).getD j 0 : ℚ) / 256
def exb5 : Vec := fun i => ([55/16, 2, 0, 45/16, 15/4] : List ℚ).getD i 0

/-- the walk branch is exercised by the model, the run still ends at the convergence exit, and its result passes the
checker (an instance of `block3_exit_kkt` evaluated by the kernel; before the repair the C code stopped right after
the projected step, at a point that is not KKT) -/
example :
    let r := block3Run (exactEnv 5 exA5 exb5 (5 / 45035996273) 120 28) fun i => -(exb5 i)
    r.2 = B3Exit.converged ∧ r.1.nWalk = 1 ∧ r.1.nBoundary = 1 ∧ r.1.nFull = 2 ∧
      kktCheck 5 exA5 exb5 (at0 r.1.x) (fun _ => 5 / 45035996273) = true := by
  decide +kernel

/-- hypotheses of `spdCert_sound`, `solveOn_returns`, `exactEnv_ExactEnv`, `kktCheck_zero_optimal`,
`kktCheck_tol_optimal`, `block3_exit_kkt_exact`, `block3_exit_optimal`, `block3_inner_terminates`, `block3_exits`,
`nnls_minimiser_exists_unique`, `refNnls_returns`, `C11_certificate_full`, `block3_exit_near_minimiser`:
both example systems are certified -/
theorem exA_cert : spdCert 2 exA = true := by decide +kernel
theorem exA5_cert : spdCert 5 exA5 = true := by decide +kernel

/-- hypothesis of `solveOn_solves`: solves that return — the full passive set of the 2 × 2 system (the solution has a
negative entry: the solve is unconstrained) and the passive set `{0,1,3}` of the 5 × 5 system -/
example : [0, 1].Nodup ∧ (∀ i ∈ [0, 1], i < 2) ∧ solveOn 2 exA exb [0, 1] = some #[1, -1] ∧
    (solveOn 5 exA5 exb5 [0, 1, 3]).isSome = true := by
  refine ⟨by decide, by decide, by decide +kernel, by decide +kernel⟩

/-- a matrix the certificate rejects although it is symmetric with a positive diagonal: `[[1,2],[2,1]]` -/
example : spdCert 2 (fun i j => if i = j then 1 else 2) = false := by decide +kernel

/-- hypotheses of `block3_exit_kkt_exact` / `block3_exit_optimal` / `block3_inner_terminates` on the 5 × 5 system
(the fuel the driver uses is `4 n + 8`) -/
example : spdCert 5 exA5 = true ∧ (0 : ℚ) ≤ 5 / 45035996273 ∧ 5 < 28 ∧
    (block3Run (exactEnv 5 exA5 exb5 (5 / 45035996273) 120 28) fun i => -(exb5 i)).2 = B3Exit.converged := by
  refine ⟨exA5_cert, by norm_num, by norm_num, by decide +kernel⟩

/-- `kktCheck_zero_optimal` applies to the reference solution of the 2 × 2 system -/
example : kktCheck 2 exA exb (at0 #[1/2, 0]) (fun _ => 0) = true := by decide +kernel

/-- hypothesis of `walk_accepted_step_decreases`: from `x = (1,1)` towards the solve `(1,−1)` of the 2 × 2 system the
first trial (distance 1, projected to `(1,0)`) is accepted -/
example : (walkDescents (exactEnv 2 exA exb 0 120 16) (fun _ => true) (fun _ => 1) (at0 #[1, -1])) = (1, true) := by
  decide +kernel

/-- hypotheses of `accepted_solve_decreases`: the first iteration on the 2 × 2 system (`x = 0`, coefficient 0 freed,
gradient `−1` there) -/
example : (∀ i, i < 2 → (fun i => decide (i = 0)) i = false → (fun _ => (0 : ℚ)) i = 0) ∧
    ∃ i, i < 2 ∧ (fun i => decide (i = 0)) i = true ∧ grad 2 exA exb (fun _ => 0) i ≠ 0 :=
  ⟨fun _ _ _ => rfl, 0, by norm_num, by simp, by rw [grad_zero]; simp [exb]⟩

/-! ## the result loop of `walk_descents` for every number of line-search workers (seeded change C11-6)

`Sync.Cfg` (C12): `c.n` workers (`get_nthreads()`), `c.m = n_alpha` trial steps, `c.blocks = ⌈m/n⌉`, `c.active i` = workers
used in block `i`, `c.less a b` = "residual of trial `a` < residual of trial `b`".  `blockLoop c` is the coordinator's result
loop of `walk_descents` after the hand-shake with the workers (block `i`, worker `j` ↦ trial index `i*n + j`; that every
worker reports the trial it was given is `C12_each_trial_evaluated_once` / `C12_scanned_records`), `blockLoopL c mult` the same
loop with the last-trial test `i*mult + j == n_alpha-1`.  `C12_result_is_sequential` proves that the *threaded* routine
returns `selectSeq`; the theorems here are about the index arithmetic of the loop itself, which is what the seeded change
C11-6 (`i*n_blocks + j`) breaks, and they connect C12's `selectSeq` with the sequential `walkScan` that `block3Run` executes. -/

/-- **Every trial index is looked at exactly once**: for every number of workers `n ≥ 1` the scan organised in blocks
    (block `i`, worker `j < active i ≤ n` ↦ index `i*n + j`) enumerates `0, 1, …, n_alpha-1`, each once, in ascending order. -/
theorem walk_trials_visited_once (c : Sync.Cfg) (hn : 0 < c.n) :
    trialIndices c = List.range c.m ∧ ∀ i j, j < c.active i → j < c.n :=
  ⟨trialIndices_eq_range c hn, fun i _ hj => Nat.lt_of_lt_of_le hj (Sync.active_le c i)⟩

/-- **The last-trial test `i*n_threads + j == n_alpha-1` holds for exactly one started (block, worker) pair**, for every
    number of workers `n ≥ 1`: the forced step is reachable whatever `get_nthreads()` returns. -/
theorem walk_last_trial_unique (c : Sync.Cfg) (hn : 0 < c.n) (hm : 1 ≤ c.m) :
    ∃ i j, i < c.blocks ∧ j < c.active i ∧ j < c.n ∧ i * c.n + j = c.m - 1 ∧
      ∀ i' j', i' < c.blocks → j' < c.active i' → i' * c.n + j' = c.m - 1 → i' = i ∧ j' = j := by
  obtain ⟨h1, h2, h3⟩ := last_pair_exists c hn hm
  exact ⟨_, _, h1, h2, Nat.mod_lt _ hn, h3, fun i' j' _ hj' h => last_pair_unique c hn i' j' hj' h⟩

/-- **The loop as written is the sequential selection of C12**, for every number of workers `n ≥ 1` (hence the same for all). -/
theorem walk_block_loop_sequential (c : Sync.Cfg) (hn : 0 < c.n) : blockLoop c = Sync.selectSeq c.less c.m :=
  blockLoop_eq_selectSeq c hn

/-- **The forced step is taken for every number of workers**: when no trial reduces the residual, the loop as written
    chooses the last trial `n_alpha-1` and reports `feasible = false` (`success` is set: `walk_descents` copies that trial and
    its `H1`, and `nnls_normal_block3` binds the blocking coefficients). -/
theorem walk_forced_step_reachable (c : Sync.Cfg) (hn : 0 < c.n) (hm : 2 ≤ c.m)
    (hno : ∀ k, 1 ≤ k → k < c.m → c.less k 0 = false) :
    blockLoop c = (some 0, some (some (c.m - 1), false)) := by
  obtain ⟨k, hk1, hkm, hsel, hor, _⟩ := C12_select_spec c.less c.m hm
  have hk : k = c.m - 1 := by
    rcases hor with h | h
    · rw [hno k hk1 hkm] at h; cases h
    · exact h
  rw [walk_block_loop_sequential c hn, hsel, hno k hk1 hkm, hk]

/-- **Why the seeded change C11-6 hangs** (`i*n_blocks + j == n_alpha-1`, one worker, `n_alpha ≥ 2`): no started
    (block, worker) pair passes the test, so when no trial reduces the residual `success` is never set — `walk_descents`
    returns `feasible = false` with `x` and `H1` unchanged and the `while (!feasible)` loop of `nnls_normal_block3` repeats the
    same solve for ever.  (`n_alpha ≥ 3` in every call: index 0, distance 1 and at least one constraint crossing.) -/
theorem walk_wrong_multiplier_never_steps (c : Sync.Cfg) (h1 : c.n = 1) (hm : 2 ≤ c.m)
    (hno : ∀ k, 1 ≤ k → k < c.m → c.less k 0 = false) :
    blockLoopL c c.blocks = (some 0, none) ∧
      ∀ i j, i < c.blocks → j < c.active i → i * c.blocks + j ≠ c.m - 1 := by
  refine ⟨?_, fun i j hi hj => wrong_multiplier_never_last c h1 hm i j hi hj⟩
  have hb : 1 ≤ c.blocks := by rw [blocks_one c h1]; omega
  exact blockLoopL_wrong_prefix c h1 hm hno c.blocks hb (Nat.le_refl _)

/-- **The line search that `block3Run` executes is that loop**: for every number of workers `n ≥ 1` the block loop over the
    trials of one call of `walkDescents` (current point, then the distances `walkAlphas`) chooses the index `k` whose
    distance and `feasible` flag the sequential model `walkDescents` returns.  So the state machine of
    `block3_exit_kkt` / `block3_inner_terminates`, which knows nothing of workers, describes the C routine for every
    `OMP_NUM_THREADS` — as long as the loop is the one written (`blockLoop`). -/
theorem walkDescents_is_block_loop (E : B3Env) (inF : ℕ → Bool) (x xF : ℕ → ℚ) (n : ℕ) (hn : 0 < n) :
    let res0 := E.resid inF (trialVal inF x xF 0)
    let as := walkAlphas E.n inF x xF
    ∃ k, 1 ≤ k ∧ k ≤ as.length ∧
      blockLoop (walkCfg E inF x xF res0 as n) = (some 0, some (some k, walkLess E inF x xF res0 as k 0)) ∧
      walkDescents E inF x xF = (as.getD (k - 1) 0, walkLess E inF x xF res0 as k 0) := by
  intro res0 as
  have hlen : 1 ≤ as.length := by simp [as, walkAlphas]
  have hless : ∀ j, 1 ≤ j → walkLess E inF x xF res0 as j 0
      = decide (E.resid inF (trialVal inF x xF (as.getD (j - 1) 0)) < res0) := by
    intro j hj
    obtain ⟨j', rfl⟩ : ∃ j', j = j' + 1 := ⟨j - 1, by omega⟩
    rfl
  obtain ⟨k, hk1, hkm, hsel, hor, hbefore⟩ :=
    C12_select_spec (walkLess E inF x xF res0 as) (as.length + 1) (by omega)
  refine ⟨k, hk1, by omega, ?_, ?_⟩
  · rw [walk_block_loop_sequential (walkCfg E inF x xF res0 as n) hn]; exact hsel
  · have := walkScan_first_or_last E inF x xF res0 as k hk1 (by omega)
      (fun j hj1 hj2 => by rw [← hless j hj1]; exact (hbefore j hj1 hj2).1)
      (by
        rcases hor with h | h
        · left; rw [← hless k hk1]; exact h
        · right; omega)
    rw [hless k hk1]
    exact this

/-! ## rows added to the full-size factor by `modify_factor_p` (seeded changes C11-2, C11-5)

Abstraction (`PsV/Model/WalkBlocks.lean`): the full-size factor is described by the matrix it represents (`repMat A S`: `A` on
the passive set `S`, identity elsewhere); `rowAdd` is `cholmod_rowadd` with its documented precondition ("the kth row and
column of L must originally be equal to the kth row and column of the identity matrix"), `getColumn` is `get_column`,
`addRows` the `H2` loop as written, `addRowsSettled` the variant that moves all of `H2` into `F` before the first
`get_column`.  The floating-point factor is not modelled; on the C side the multi-row path is exercised and judged through
the KKT residual (input class 11 of the check). -/

/-- **Rows added one at a time, each column taken from `A` restricted to `F ∪ {rows already added}`, yield the factor of
    `A[F',F']`**: every `cholmod_rowadd` meets its precondition, and the represented matrix is `A` on `F' = F ∪ H2`,
    identity elsewhere. -/
theorem modify_factor_add_rows_represents (n : ℕ) (A : Mat) (S : ℕ → Bool) (H2 : List ℕ) (R : Mat)
    (hsym : ∀ i j, i < n → j < n → A i j = A j i) (hlt : ∀ k ∈ H2, k < n) (hnd : H2.Nodup)
    (hdisj : ∀ k ∈ H2, S k = false) (hR : AgreeOn n R (repMat A S)) :
    ∃ R', addRows n A S H2 R = some R' ∧ AgreeOn n R' (repMat A (fun i => S i || H2.contains i)) :=
  addRows_repMat n A hsym H2 S R hlt hnd hdisj hR

/-- … **independently of the order of addition**, and the exact solve of the model on the enlarged passive set
    (`exactEnv.solve`, i.e. `solveOn` on `F'`) is the solve with the represented matrix: the state machine's `solve` is
    what a correctly updated factor computes. -/
theorem modify_factor_add_rows_order_independent (n : ℕ) (A : Mat) (b : Vec) (S : ℕ → Bool) (H2 H2' : List ℕ) (R : Mat)
    (hsym : ∀ i j, i < n → j < n → A i j = A j i) (hlt : ∀ k ∈ H2, k < n) (hnd : H2.Nodup)
    (hdisj : ∀ k ∈ H2, S k = false) (hR : AgreeOn n R (repMat A S)) (hperm : H2.Perm H2') :
    ∃ R1 R2, addRows n A S H2 R = some R1 ∧ addRows n A S H2' R = some R2 ∧ AgreeOn n R1 R2 ∧
      ∀ P : List ℕ, (∀ i ∈ P, i < n ∧ (S i || H2.contains i) = true) →
        solveOn n R1 b P = solveOn n A b P ∧ solveOn n R2 b P = solveOn n A b P := by
  obtain ⟨R1, h1, hA1⟩ := addRows_repMat n A hsym H2 S R hlt hnd hdisj hR
  obtain ⟨R2, h2, hA2⟩ := addRows_repMat n A hsym H2' S R (fun k hk => hlt k (hperm.mem_iff.mpr hk))
    (hperm.nodup_iff.mp hnd) (fun k hk => hdisj k (hperm.mem_iff.mpr hk)) hR
  have hS : (fun i => S i || H2'.contains i) = (fun i => S i || H2.contains i) := by
    funext i; rw [hperm.contains_eq]
  rw [hS] at hA2
  refine ⟨R1, R2, h1, h2, fun i j hi hj => (hA1 i j hi hj).trans (hA2 i j hi hj).symm, fun P hP => ?_⟩
  have hon : ∀ (R' : Mat), AgreeOn n R' (repMat A (fun i => S i || H2.contains i)) →
      ∀ r ∈ P, ∀ c ∈ P, R' r c = A r c := by
    intro R' hA r hr c hc
    rw [hA r c (hP r hr).1 (hP c hc).1]
    have hr' := (hP r hr).2
    have hc' := (hP c hc).2
    unfold repMat
    simp only [hr', hc', Bool.and_self, if_true]
  exact ⟨solveOn_congr n R1 A b P (hon R1 hA1), solveOn_congr n R2 A b P (hon R2 hA2)⟩

/-- **Why the seeded changes C11-2 / C11-5 break the factor**: when all of `H2` is moved into `F` before the first
    `get_column`, the column of the first row `k₁` carries the entry `A[k₂,k₁]` of a row that is still identity in the factor;
    after that row/column `k₂` is no longer identity and the second `cholmod_rowadd` is called outside its precondition —
    as soon as the first two released coefficients are coupled (`A[k₂,k₁] ≠ 0`).  With a single row (or uncoupled rows) the
    two loops coincide, which is why small and sparse systems do not notice. -/
theorem modify_factor_settle_first_breaks_rowadd (n : ℕ) (A : Mat) (Sfinal : ℕ → Bool) (k1 k2 : ℕ) (rest : List ℕ)
    (R : Mat) (h1 : k1 < n) (hne : k1 ≠ k2) (hS2 : Sfinal k2 = true) (hc : A k2 k1 ≠ 0) :
    addRowsSettled n A Sfinal (k1 :: k2 :: rest) R = none :=
  addRowsSettled_coupled n A Sfinal k1 k2 rest R h1 hne hS2 hc

/-! ### concrete instances for the two groups of theorems above -/

/-- one worker, three trials, no trial reduces the residual: the loop as written takes the forced step, the loop with the
    multiplier `n_blocks` never sets `success`; the same with three workers and four trials (two blocks) -/
example : blockLoop { n := 1, m := 3, less := fun _ _ => false, repaired := true } = (some 0, some (some 2, false)) ∧
    blockLoopL { n := 1, m := 3, less := fun _ _ => false, repaired := true } 3 = (some 0, none) ∧
    blockLoop { n := 3, m := 4, less := fun _ _ => false, repaired := true } = (some 0, some (some 3, false)) ∧
    blockLoopL { n := 3, m := 4, less := fun _ _ => false, repaired := true } 2 = (some 0, none) ∧
    trialIndices { n := 3, m := 4, less := fun _ _ => false, repaired := true } = [0, 1, 2, 3] := by decide

/-- hypotheses of `walk_forced_step_reachable` / `walk_wrong_multiplier_never_steps` -/
example : (0 : ℕ) < 1 ∧ 2 ≤ 3 ∧ ∀ k, 1 ≤ k → k < 3 → (fun _ _ : ℕ => false) k 0 = false := ⟨by decide, by decide, fun _ _ _ => rfl⟩

/-- a system of the check's corpus (bin/props/C11_forced_corpus.txt, n = 4) -/
def exA4 : Mat := fun i j =>
  (([[6, -6, -3, 2], [-6, 19, 13, -4], [-3, 13, 12, -4], [2, -4, -4, 12]] : List (List ℚ)).getD i []).getD j 0
def exb4 : Vec := fun i => ([19, 0, -10, 9] : List ℚ).getD i 0

/-- … on which the exact state machine takes the forced step: one line search, no trial reduces the residual
    (`nForced = 1`), the run then converges to a KKT point -/
example :
    let r := block3Run (exactEnv 4 exA4 exb4 (1 / 11258999068) 120 24) fun i => -(exb4 i)
    r.2 = B3Exit.converged ∧ r.1.nWalk = 1 ∧ r.1.nForced = 1 ∧ r.1.nFull = 2 ∧
      kktCheck 4 exA4 exb4 (at0 r.1.x) (fun _ => 1 / 11258999068) = true := by
  decide +kernel

/-- a 3 × 3 symmetric matrix whose coefficients 1 and 2 are coupled; passive set `{0}`, both released in one call -/
def exA3 : Mat := fun i j => (([[4, -1, -1], [-1, 3, 1], [-1, 1, 3]] : List (List ℚ)).getD i []).getD j 0

/-- as written the two rows are added (`modify_factor_add_rows_represents`: the result is `exA3`); with the sets settled
    first the second `cholmod_rowadd` is outside its precondition (`modify_factor_settle_first_breaks_rowadd`); a single
    row is added identically by both loops -/
example :
    ((addRows 3 exA3 (fun i => i == 0) [1, 2] (repMat exA3 fun i => i == 0)).map fun R =>
        (List.range 3).map fun i => (List.range 3).map (R i)) = some [[4, -1, -1], [-1, 3, 1], [-1, 1, 3]] ∧
    (addRowsSettled 3 exA3 (fun _ => true) [1, 2] (repMat exA3 fun i => i == 0)).isNone = true ∧
    ((addRowsSettled 3 exA3 (fun i => i == 0 || i == 1) [1] (repMat exA3 fun i => i == 0)).map fun R =>
        (List.range 3).map fun i => (List.range 3).map (R i)) =
      ((addRows 3 exA3 (fun i => i == 0) [1] (repMat exA3 fun i => i == 0)).map fun R =>
        (List.range 3).map fun i => (List.range 3).map (R i)) := by
  decide +kernel

/-- hypotheses of `modify_factor_add_rows_represents` for that instance -/
example : (∀ i j, i < 3 → j < 3 → exA3 i j = exA3 j i) ∧ (∀ k ∈ [1, 2], k < 3) ∧ [1, 2].Nodup ∧
    (∀ k ∈ [1, 2], (fun i : ℕ => i == 0) k = false) ∧ AgreeOn 3 (repMat exA3 fun i => i == 0) (repMat exA3 fun i => i == 0) ∧
    exA3 2 1 ≠ 0 := by
  refine ⟨fun i j hi hj => ?_, by decide, by decide, by decide, fun _ _ _ _ => rfl, by decide +kernel⟩
  have hi' : i = 0 ∨ i = 1 ∨ i = 2 := by omega
  have hj' : j = 0 ∨ j = 1 ∨ j = 2 := by omega
  rcases hi' with rfl | rfl | rfl <;> rcases hj' with rfl | rfl | rfl <;> rfl

end PsV
