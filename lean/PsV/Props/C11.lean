import PsV.Proofs.Nnls
/-!
# C11 — the non-negative least-squares solvers return the constrained optimum

Property theorems only.  `qf A b z = ½ zᵀAz − bᵀz`, `gradM A b z = Az − b`, `SPD`, `KKT`, `TolKKT` are defined in
`PsV/Proofs/Nnls.lean`; `kktCheck`, `refNnls`, `distCheck`, `block3Run` are the executable definitions of
`PsV/Model/Nnls.lean` that the driver runs on the vectors returned by the C solvers.

What is **not** claimed: that the four C solvers converge for every input.  The check is certificate checking with a
proved checker (`kktCheck_sound` + `kkt_tol_gap` + `kkt_tol_dist` + `kkt_unique_min`): whatever vector a solver
returns is accepted only if the verified checker accepts it.  Exits of BLOCK3:
* `B3Exit.converged`  (`if (nH2 == 0 && optimal_on_F) break;`) — convergence: `block3_exit_kkt` (with exact solves
  the returned point satisfies the tolerance-KKT conditions);
* `B3Exit.iterCap`    (`iter == max_iter = 120`) — iteration cap, no optimality claim (`block3_cap_exit_not_kkt`
  exhibits a capped run that is not a KKT point);
* `B3Exit.innerFuel`  — model-only bound on the `while (!feasible)` loop.
All three return a component-wise non-negative vector (`block3_nonneg_invariant`), which is what C10 needs.
-/
namespace PsV
open Matrix Nnls

section Exact
variable {n : ℕ} {α : Type} [Field α] [LinearOrder α] [IsStrictOrderedRing α]

/-- **KKT ⇒ unique global minimiser.**  `A` symmetric positive definite, `x ≥ 0`, `g = Ax − b` with `g_i = 0` where
`x_i > 0` and `g_i ≥ 0` where `x_i = 0`: then `x` minimises `½zᵀAz − bᵀz` over `z ≥ 0`, and any `z ≥ 0` with the
same value is `x`. -/
theorem kkt_unique_min (A : Matrix (Fin n) (Fin n) α) (b x : Fin n → α) (hA : SPD A) (hx : KKT A b x) :
    ∀ z : Fin n → α, (∀ i, 0 ≤ z i) → qf A b x ≤ qf A b z ∧ (qf A b z = qf A b x → z = x) := by
  intro z hz
  obtain ⟨hx0, hg0, hcomp⟩ := hx
  have hd := qf_diff hA.1 b x z
  have hlin : 0 ≤ (z - x) ⬝ᵥ gradM A b x := by
    rw [dot_sub_split]
    have h1 : 0 ≤ z ⬝ᵥ gradM A b x := Finset.sum_nonneg fun i _ => mul_nonneg (hz i) (hg0 i)
    have h2 : x ⬝ᵥ gradM A b x = 0 := by
      apply Finset.sum_eq_zero
      intro i _
      rcases lt_or_eq_of_le (hx0 i) with h | h
      · rw [hcomp i h, mul_zero]
      · rw [← h, zero_mul]
    rw [h2, sub_zero]; exact h1
  have hquad : 0 ≤ (z - x) ⬝ᵥ A *ᵥ (z - x) := hA.spsd.2 _
  constructor
  · linarith
  · intro heq
    by_contra hne
    have hne' : z - x ≠ 0 := sub_ne_zero.mpr hne
    have := hA.2 _ hne'
    linarith

/-- **Tolerance-KKT ⇒ explicit optimality gap.**  If `x ≥ 0`, `g_i ≥ −tol_i` and `g_i ≤ tol_i` where `x_i > 0`, then for
every feasible `z` (in particular the minimiser `x*`): `f x − f z ≤ Σ_i tol_i (x_i + z_i)`. -/
theorem kkt_tol_gap (A : Matrix (Fin n) (Fin n) α) (b x tol : Fin n → α) (hA : SPSD A) (hx : TolKKT A b x tol)
    (z : Fin n → α) (hz : ∀ i, 0 ≤ z i) :
    qf A b x - qf A b z ≤ ∑ i, tol i * (x i + z i) := by
  obtain ⟨hx0, hglo, hghi⟩ := hx
  have hd := qf_diff hA.1 b x z
  have hquad : 0 ≤ (z - x) ⬝ᵥ A *ᵥ (z - x) := hA.2 _
  have hlin : -(∑ i, tol i * (x i + z i)) ≤ (z - x) ⬝ᵥ gradM A b x := by
    rw [dot_sub_split, ← Finset.sum_neg_distrib]
    simp only [dotProduct]
    rw [← Finset.sum_sub_distrib]
    apply Finset.sum_le_sum
    intro i _
    have h1 : -(tol i) * z i ≤ z i * gradM A b x i := by
      have := mul_le_mul_of_nonneg_left (hglo i) (hz i)
      linarith
    have h2 : x i * gradM A b x i ≤ tol i * x i := by
      rcases lt_or_eq_of_le (hx0 i) with h | h
      · have := mul_le_mul_of_nonneg_left (hghi i h) (le_of_lt h)
        linarith
      · rw [← h]; simp
    linarith
  linarith

/-- **Tolerance-KKT ⇒ distance to the minimiser** (in the energy norm of `A`): if `xs` is an exact KKT point then
`½ (x − xs)ᵀ A (x − xs) ≤ Σ_i tol_i (x_i + xs_i)`.  This is the relation the driver decides (`distCheck`). -/
theorem kkt_tol_dist (A : Matrix (Fin n) (Fin n) α) (b x xs tol : Fin n → α) (hA : SPSD A) (hx : TolKKT A b x tol)
    (hxs : KKT A b xs) :
    (1/2) * ((x - xs) ⬝ᵥ A *ᵥ (x - xs)) ≤ ∑ i, tol i * (x i + xs i) := by
  have hgap := kkt_tol_gap A b x tol hA hx xs hxs.1
  obtain ⟨hs0, hsg, hscomp⟩ := hxs
  have hd := qf_diff hA.1 b xs x
  have hlin : 0 ≤ (x - xs) ⬝ᵥ gradM A b xs := by
    rw [dot_sub_split]
    have h1 : 0 ≤ x ⬝ᵥ gradM A b xs := Finset.sum_nonneg fun i _ => mul_nonneg (hx.1 i) (hsg i)
    have h2 : xs ⬝ᵥ gradM A b xs = 0 := by
      apply Finset.sum_eq_zero
      intro i _
      rcases lt_or_eq_of_le (hs0 i) with h | h
      · rw [hscomp i h, mul_zero]
      · rw [← h, zero_mul]
    rw [h2, sub_zero]; exact h1
  linarith

end Exact

/-! ## the executable checker and the reference solver (at `ℚ`, the carrier the driver runs) -/

/-- **Soundness of the executable checker**: `kktCheck … = true` implies the tolerance-KKT predicate for the matrix
and vectors it was given. -/
theorem kktCheck_sound (n : ℕ) (A : Mat) (b x tol : Vec) (h : kktCheck n A b x tol = true) :
    TolKKT (toMat n A) (toVec n b) (toVec n x) (toVec n tol) := by
  unfold kktCheck at h
  rw [List.all_eq_true] at h
  have key : ∀ i : Fin n, 0 ≤ x i ∧ -(tol i) ≤ grad n A b x i ∧ (x i ≤ 0 ∨ grad n A b x i ≤ tol i) := by
    intro i
    have := h i (List.mem_range.mpr i.2)
    simp only [Bool.and_eq_true, Bool.or_eq_true, decide_eq_true_eq] at this
    exact ⟨this.1.1, this.1.2, this.2⟩
  refine ⟨fun i => (key i).1, fun i => ?_, fun i hi => ?_⟩
  · rw [← grad_eq]; exact (key i).2.1
  · rw [← grad_eq]
    rcases (key i).2.2 with h0 | h1
    · exact absurd hi (not_lt.mpr h0)
    · exact h1

/-- with tolerance 0 the checker certifies exact KKT -/
theorem kktCheck_zero_sound (n : ℕ) (A : Mat) (b x : Vec) (h : kktCheck n A b x (fun _ => 0) = true) :
    KKT (toMat n A) (toVec n b) (toVec n x) := by
  obtain ⟨h0, h1, h2⟩ := kktCheck_sound n A b x _ h
  refine ⟨h0, fun i => ?_, fun i hi => ?_⟩
  · have := h1 i; simpa [toVec] using this
  · have a := h1 i; have c := h2 i hi
    simp only [toVec, neg_zero] at a c
    exact le_antisymm c a

/-- the executable distance test is the relation of `kkt_tol_dist` -/
theorem distCheck_iff (n : ℕ) (A : Mat) (tol x z : Vec) :
    distCheck n A tol x z = true ↔
      (1/2) * ((toVec n x - toVec n z) ⬝ᵥ (toMat n A) *ᵥ (toVec n x - toVec n z))
        ≤ ∑ i, toVec n tol i * (toVec n x i + toVec n z i) := by
  unfold distCheck
  rw [decide_eq_true_eq, halfQuad_eq, gapBound_eq]
  rfl

theorem refSearch_sound (n : ℕ) (A : Mat) (b : Vec) (fuel mask : ℕ) (xa : Array ℚ)
    (h : refSearch n A b fuel mask = some xa) : kktCheck n A b (at0 xa) (fun _ => 0) = true := by
  induction fuel generalizing mask with
  | zero => simp [refSearch] at h
  | succ f ih =>
    unfold refSearch at h
    cases ht : tryMask n A b mask with
    | none => rw [ht] at h; exact ih _ h
    | some y =>
      rw [ht] at h
      have hy : y = xa := by simpa using h
      subst hy
      unfold tryMask at ht
      cases hs : solveOn n A b (maskSet n mask) with
      | none => rw [hs] at ht; simp at ht
      | some w =>
        rw [hs] at ht
        simp only at ht
        split at ht
        · rename_i hc
          have : w = y := by simpa using ht
          subst this
          simp only [Bool.and_eq_true] at hc
          exact hc.2
        · simp at ht

/-- **Soundness of the reference solver**: whatever `refNnls` returns satisfies the exact KKT conditions … -/
theorem refNnls_sound (n : ℕ) (A : Mat) (b : Vec) (xa : Array ℚ) (h : refNnls n A b = some xa) :
    KKT (toMat n A) (toVec n b) (toVec n (at0 xa)) :=
  kktCheck_zero_sound n A b _ (refSearch_sound n A b _ _ xa h)

/-- … hence, for a symmetric positive-definite matrix, it *is* the unique constrained minimiser. -/
theorem refNnls_is_minimiser (n : ℕ) (A : Mat) (b : Vec) (xa : Array ℚ) (hA : SPD (toMat n A))
    (h : refNnls n A b = some xa) (z : Fin n → ℚ) (hz : ∀ i, 0 ≤ z i) :
    qf (toMat n A) (toVec n b) (toVec n (at0 xa)) ≤ qf (toMat n A) (toVec n b) z ∧
      (qf (toMat n A) (toVec n b) z = qf (toMat n A) (toVec n b) (toVec n (at0 xa)) → z = toVec n (at0 xa)) :=
  kkt_unique_min _ _ _ hA (refNnls_sound n A b xa h) z hz

/-- **What the correspondence establishes per accepted vector**: if the driver's three decisions succeed for the
(projected) vector `x` returned by a C solver — `kktCheck` with tolerance `tol`, `refNnls = some xs`, `distCheck` —
then `x` is a tolerance-KKT point, its objective value exceeds the constrained minimum by at most
`Σ tol_i (x_i + xs_i)`, and `xs` is the unique constrained minimiser. -/
theorem C11_certificate (n : ℕ) (A : Mat) (b x tol : Vec) (xa : Array ℚ) (hA : SPD (toMat n A))
    (hk : kktCheck n A b x tol = true) (hr : refNnls n A b = some xa) :
    TolKKT (toMat n A) (toVec n b) (toVec n x) (toVec n tol) ∧
    (∀ z : Fin n → ℚ, (∀ i, 0 ≤ z i) →
        qf (toMat n A) (toVec n b) (toVec n x) - qf (toMat n A) (toVec n b) z
          ≤ ∑ i, toVec n tol i * (toVec n x i + z i)) ∧
    distCheck n A tol x (at0 xa) = true := by
  have hT := kktCheck_sound n A b x tol hk
  have hK := refNnls_sound n A b xa hr
  refine ⟨hT, fun z hz => kkt_tol_gap _ _ _ _ hA.spsd hT z hz, ?_⟩
  rw [distCheck_iff]
  exact kkt_tol_dist _ _ _ _ _ hA.spsd hT hK

end PsV
