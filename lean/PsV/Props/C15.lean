import PsV.Proofs.Permute
import PsV.Proofs.PermuteEval
import PsV.Props.C01
/-!
# C15 — permuting dimensions relabels axes without changing the function

Property theorems only.  They are about `PsV.Permute.permuteDimensions` / `splinetablePermute`
(`PsV/Model/Permute.lean`), the definitions the correspondence driver executes, which model
`splinetable::permuteDimensions` **with fixes/C15-1.diff applied** (`periods` permuted too) and the
C wrapper.  Any number of dimensions, any axis lengths, any element types.

* `T.WF`: the memory invariants of a table (`ndim ≥ 1`, every per-axis array has `ndim` entries,
  strides row-major, `coef` has `Π naxes` entries; `periods` may be absent).
* `perm.Perm (List.range n)`: the argument lists each of `0..n-1` exactly once.
* `rowMajor`, `digits`, `flat`, `nposOf`, `tensorEval`, `AxisAttr`, `PTable.axis`: `PsV/Proofs/Permute.lean`.
-/
namespace PsV.Permute
variable {K E C : Type} [Inhabited K] [Inhabited E]

/-- the validation block accepts exactly the permutations of `0..ndim-1` -/
theorem C15_valid_iff_perm (ndim : Nat) (perm : List Nat) :
    validate ndim perm = none ↔ perm.Perm (List.range ndim) :=
  validate_eq_none_iff ndim perm

/-- which `throw` a malformed argument meets: wrong length first; otherwise never "Missing index"
(that `throw` is dead code) -/
theorem C15_reject_kind (ndim : Nat) (perm : List Nat) :
    (perm.length ≠ ndim → validate ndim perm = some .wrongNumber) ∧ validate ndim perm ≠ some .missing := by
  refine ⟨?_, validate_ne_missing ndim perm⟩
  intro h; simp [validate, h]

/-- an argument that is not a permutation is rejected with an exception and the table is left
exactly as it was; a permutation is accepted (no exception) -/
theorem C15_reject_unchanged (junk : C) (T : PTable K E C) (perm : List Nat) :
    (¬ perm.Perm (List.range T.ndim) → ∃ e, permuteDimensions junk T perm = (T, some e)) ∧
    (perm.Perm (List.range T.ndim) → permuteDimensions junk T perm = (permuteBody junk T perm, none)) := by
  constructor
  · intro h
    have : validate T.ndim perm ≠ none := fun e => h ((C15_valid_iff_perm _ _).1 e)
    cases hv : validate T.ndim perm with
    | none => exact absurd hv this
    | some e => exact ⟨e, by simp [permuteDimensions, hv]⟩
  · intro h
    have := (C15_valid_iff_perm _ _).2 h
    simp [permuteDimensions, this]

/-- the C wrapper reads `ndim` words: returns 1 and leaves the table alone unless they form a
permutation, else returns 0 with the table permuted -/
theorem C15_c_wrapper (junk : C) (T : PTable K E C) (mem : List Nat) :
    (¬ (mem.take T.ndim).Perm (List.range T.ndim) → splinetablePermute junk T mem = (T, 1)) ∧
    ((mem.take T.ndim).Perm (List.range T.ndim) →
      splinetablePermute junk T mem = ((permuteDimensions junk T (mem.take T.ndim)).1, 0)) := by
  constructor
  · intro h
    obtain ⟨e, he⟩ := (C15_reject_unchanged junk T _).1 h
    simp [splinetablePermute, he]
  · intro h
    have := (C15_reject_unchanged junk T _).2 h
    simp [splinetablePermute, this]

/-- the position map of the relocation loop is a bijection of `[0, ncoeffs)` -/
theorem C15_npos_bijective (ns perm : List Nat) (hp : perm.Perm (List.range ns.length)) :
    (∀ pos < prodL ns, nposOf ns perm pos < prodL ns) ∧
    (∀ a < prodL ns, ∀ b < prodL ns, nposOf ns perm a = nposOf ns perm b → a = b) ∧
    (∀ q < prodL ns, ∃ pos < prodL ns, nposOf ns perm pos = q) := by
  have hp' : IsPerm ns.length perm := hp
  refine ⟨fun pos h => nposOf_lt hp' rfl h, fun a ha b hb h => nposOf_inj hp' rfl ha hb h, ?_⟩
  intro q hq
  have hr := iperm_isPerm hp'
  have hinv1 : Inv ns.length perm (iperm ns.length perm) := iperm_inv hp'
  have htn : (gather 0 ns perm).length = ns.length := by simp [gather_length, hp'.length]
  have hq' : q < prodL (gather 0 ns perm) := by rw [prodL_gather hp' rfl]; exact hq
  refine ⟨nposOf (gather 0 ns perm) (iperm ns.length perm) q, ?_, ?_⟩
  · have := nposOf_lt hr htn hq'
    rwa [prodL_gather hp' rfl] at this
  · have := nposOf_roundtrip hr hp' hinv1 htn hq'
    rwa [gather_gather 0 ns hp' hr rfl (hinv1.symm hp')] at this

/-- and it is the routine's: what `permuteDimensions` feeds the loop is `nposOf T.naxes perm`,
which in index terms relabels the multi-index -/
theorem C15_npos_meaning (ns perm : List Nat) (hp : perm.Perm (List.range ns.length)) (idx : List Nat)
    (h : InBox idx ns) :
    nposOf ns perm (flat ns idx) = flat (gather 0 ns perm) (gather 0 idx perm) := by
  have hp' : IsPerm ns.length perm := hp
  rw [nposOf_eq hp' rfl, digits_flat idx ns h]

/-- the new coefficient array holds exactly the old values, relocated: by position and by multi-index
(`new[idx ∘ perm] = old[idx]`) -/
theorem C15_coef_relocated (junk : C) (T : PTable K E C) (hT : T.WF) (perm : List Nat)
    (hp : perm.Perm (List.range T.ndim)) :
    let T' := (permuteDimensions junk T perm).1
    T'.coef.length = T.coef.length ∧
    (∀ pos < prodL T.naxes, T'.coef[nposOf T.naxes perm pos]? = T.coef[pos]?) ∧
    (∀ idx, InBox idx T.naxes → T'.coef[flat T'.naxes (gather 0 idx perm)]? = T.coef[flat T.naxes idx]?) := by
  have hp' : IsPerm T.ndim perm := hp
  have hT' := permuteBody_WF junk hT hp'
  simp only [(C15_reject_unchanged junk T perm).2 hp]
  refine ⟨?_, fun pos h => coef_relocated_aux junk hT hp' h, ?_⟩
  · rw [hT'.coef, hT.coef, permuteBody_naxes junk hT hp', prodL_gather hp' hT.naxes]
  · intro idx h
    have hp'' : perm.Perm (List.range T.naxes.length) := by rw [hT.naxes]; exact hp
    rw [permuteBody_naxes junk hT hp', ← C15_npos_meaning T.naxes perm hp'' idx h]
    exact coef_relocated_aux junk hT hp' (flat_lt idx T.naxes h)

/-- every per-axis attribute appears in the new order: slot `k` of the result holds what slot
`perm[k]` held — order, number of knots, number of coefficients, knot array, extents, and the period
(when the table has periods; a table without them still has none) -/
theorem C15_attrs_permuted (junk : C) (T : PTable K E C) (hT : T.WF) (perm : List Nat)
    (hp : perm.Perm (List.range T.ndim)) :
    let T' := (permuteDimensions junk T perm).1
    T'.ndim = T.ndim ∧ T'.periods.isSome = T.periods.isSome ∧
    ∀ k < T.ndim,
      T'.order.getD k 0 = T.order.getD (perm.getD k 0) 0 ∧
      T'.nknots.getD k 0 = T.nknots.getD (perm.getD k 0) 0 ∧
      T'.naxes.getD k 0 = T.naxes.getD (perm.getD k 0) 0 ∧
      T'.knots.getD k default = T.knots.getD (perm.getD k 0) default ∧
      T'.extents.getD k default = T.extents.getD (perm.getD k 0) default ∧
      (T'.periods.map fun a => a.getD k default) = T.periods.map fun a => a.getD (perm.getD k 0) default := by
  have hp' : IsPerm T.ndim perm := hp
  simp only [(C15_reject_unchanged junk T perm).2 hp]
  refine ⟨permuteBody_ndim junk hT hp', ?_, ?_⟩
  · rw [permuteBody_periods junk hT hp']; cases T.periods <;> rfl
  · intro k hk
    have h := permuteBody_axis junk hT hp' hk
    exact ⟨congrArg AxisAttr.order h, congrArg AxisAttr.nknots h, congrArg AxisAttr.naxes h,
      congrArg AxisAttr.knots h, congrArg AxisAttr.extent h, congrArg AxisAttr.period h⟩

/-- the result is again a well-formed table: array lengths kept, strides recomputed row-major for the
new axis lengths, coefficient count unchanged -/
theorem C15_strides_rowmajor (junk : C) (T : PTable K E C) (hT : T.WF) (perm : List Nat)
    (hp : perm.Perm (List.range T.ndim)) :
    let T' := (permuteDimensions junk T perm).1
    T'.WF ∧ T'.strides = rowMajor T'.naxes ∧ prodL T'.naxes = prodL T.naxes := by
  have hp' : IsPerm T.ndim perm := hp
  simp only [(C15_reject_unchanged junk T perm).2 hp]
  have hT' := permuteBody_WF junk hT hp'
  exact ⟨hT', hT'.strides, by rw [permuteBody_naxes junk hT hp', prodL_gather hp' hT.naxes]⟩

/-- applying an inverse permutation (`perm[inv[k]] = k`) afterwards restores a table equal to the original,
every array and attribute -/
theorem C15_inverse_restores (junk : C) (T : PTable K E C) (hT : T.WF) (perm inv : List Nat)
    (hp : perm.Perm (List.range T.ndim)) (hi : inv.Perm (List.range T.ndim))
    (hinv : ∀ k < T.ndim, perm.getD (inv.getD k 0) 0 = k) :
    permuteDimensions junk (permuteDimensions junk T perm).1 inv = (T, none) := by
  have hp' : IsPerm T.ndim perm := hp
  have hi' : IsPerm T.ndim inv := hi
  simp only [(C15_reject_unchanged junk T perm).2 hp]
  have hnd := permuteBody_ndim junk hT hp'
  rw [(C15_reject_unchanged junk _ inv).2 (by rw [hnd]; exact hi), permuteBody_inverse junk hT hp' hi' hinv]

/-- the inverse exists and is the one the routine itself computes (`iperm[perm[i]] = i`) -/
theorem C15_inverse_exists (n : Nat) (perm : List Nat) (hp : perm.Perm (List.range n)) :
    (iperm n perm).Perm (List.range n) ∧ (∀ k < n, (iperm n perm).getD (perm.getD k 0) 0 = k) ∧
    (∀ k < n, perm.getD ((iperm n perm).getD k 0) 0 = k) :=
  ⟨iperm_isPerm hp, iperm_inv hp, (iperm_inv (n := n) hp).symm hp⟩

/-- nothing of the uninitialised scratch buffer reaches the table -/
theorem C15_no_uninitialised (j1 j2 : C) (T : PTable K E C) (hT : T.WF) (perm : List Nat) :
    permuteDimensions j1 T perm = permuteDimensions j2 T perm := by
  by_cases hp : perm.Perm (List.range T.ndim)
  · rw [(C15_reject_unchanged j1 T perm).2 hp, (C15_reject_unchanged j2 T perm).2 hp,
      permuteBody_junk_irrelevant j1 j2 hT hp]
  · have : validate T.ndim perm ≠ none := fun e => hp ((C15_valid_iff_perm _ _).1 e)
    cases hv : validate T.ndim perm with
    | none => exact absurd hv this
    | some e => simp [permuteDimensions, hv]

/-- evaluation at the correspondingly permuted point is unchanged, exactly, over any commutative
(semi)ring: for every choice of per-axis basis functions (a function of the axis' attributes, the
coordinate and the coefficient index) the tensor-product sum over all coefficients of the permuted
table at `x ∘ perm` equals that of the original table at `x` -/
theorem C15_eval_permuted {R X : Type} [CommSemiring R] (val : C → R) (basis : AxisAttr K E → X → Nat → R)
    (dc : C) (dx : X) (junk : C) (T : PTable K E C) (hT : T.WF) (perm : List Nat)
    (hp : perm.Perm (List.range T.ndim)) (x : List X) (hx : x.length = T.ndim) :
    tensorEval val basis dc dx (permuteDimensions junk T perm).1 (gather dx x perm)
      = tensorEval val basis dc dx T x := by
  simp only [(C15_reject_unchanged junk T perm).2 hp]
  exact tensorEval_permuteBody val basis dc dx junk hT hp x hx

/-! ## the same statement about the evaluation tables of C01 -/
section eval
variable {F E' : Type} [Field F] [LinearOrder F] [Inhabited E']
attribute [local instance] Arith.ofField

/-- **The C01 meaning of an evaluation is invariant under `permuteDimensions`**: for a table whose
knot entries are knot arrays, `specEval` (sum over all coefficients of coefficient × product of
Cox–de Boor values or derivatives, C01's continuity convention) of the permuted table at the
correspondingly permuted point and derivative selection equals that of the original, exactly. -/
theorem C15_specEval_permuted (junk : F) (T : PTable (Int → F) E' F) (hT : T.WF) (perm : List Nat)
    (hp : perm.Perm (List.range T.ndim)) (xs : List F) (ms : List BasisMode)
    (hx : xs.length = T.ndim) (hm : ms.length = T.ndim) :
    specEval (toTable (permuteDimensions junk T perm).1) (gather 0 xs perm) (gather .value ms perm)
      = specEval (toTable T) xs ms := by
  simp only [(C15_reject_unchanged junk T perm).2 hp]
  exact specEval_permuteBody junk T hT hp xs ms hx hm

/-- **Evaluator level**: whenever the model evaluator (`ndsplineeval`, the definition tied bit-exactly to the
C++ in C01) accepts the point on the original table and the permuted point on the permuted table —
hypotheses of `C01_eval_eq_spec_partial` for both — the two values are equal, exactly. -/
theorem C15_ndsplineeval_permuted (junk : F) (T : PTable (Int → F) E' F) (hT : T.WF) (perm : List Nat)
    (hp : perm.Perm (List.range T.ndim)) (xs : List F) (cs cs' : List Nat) (hx : xs.length = T.ndim)
    (hwf : (toTable T).WF) (hnd : AllNonDegenerate (toTable T).dims xs)
    (hs : @searchCenters F (cmpLO F) ((toTable T).dims.map Dim.axis) xs = .ok cs)
    (hwf' : (toTable (permuteDimensions junk T perm).1).WF)
    (hnd' : AllNonDegenerate (toTable (permuteDimensions junk T perm).1).dims (gather 0 xs perm))
    (hs' : @searchCenters F (cmpLO F) ((toTable (permuteDimensions junk T perm).1).dims.map Dim.axis)
      (gather 0 xs perm) = .ok cs') :
    ndsplineeval (toTable (permuteDimensions junk T perm).1) (gather 0 xs perm) cs' 0
      = ndsplineeval (toTable T) xs cs 0 := by
  have hp' : IsPerm T.ndim perm := hp
  have hnd1 : (permuteDimensions junk T perm).1.ndim = T.ndim := by
    simp only [(C15_reject_unchanged junk T perm).2 hp]; exact permuteBody_ndim junk hT hp'
  have hl : (toTable T).dims.length = T.ndim := by simp [toTable]
  have hl' : (toTable (permuteDimensions junk T perm).1).dims.length = T.ndim := by simp [toTable, hnd1]
  rw [C01_eval_eq_spec_partial _ _ _ hwf (by rw [hl, hx]) hnd hs,
    C01_eval_eq_spec_partial _ _ _ hwf' (by rw [hl', gather_length, hp'.length]) hnd' hs', hl, hl',
    ← C15_specEval_permuted junk T hT perm hp xs (List.replicate T.ndim .value) hx (by simp)]
  congr 1
  unfold gather
  apply List.ext_getElem
  · simp [hp'.length]
  · intro i h1 h2
    have hj : perm[i]'(by simpa using h2) < T.ndim := hp'.lt (List.getElem_mem _)
    simp [List.getD_eq_getElem?_getD, List.getElem?_replicate, hj]
end eval

/-! ## non-vacuity and the defect the repair removes -/

/-- a 3-d table with pairwise different attributes and periods -/
def exT : PTable String Nat Nat :=
  { ndim := 3, order := [2, 0, 1], naxes := [2, 3, 4], strides := [12, 4, 1], nknots := [5, 4, 6],
    knots := ["kx", "ky", "kz"], extents := [(10, 11), (20, 21), (30, 31)], periods := some [7, 8, 9],
    coef := List.range 24 }

example : exT.WF := ⟨by decide, rfl, rfl, rfl, rfl, rfl, by intro p h; cases h; rfl, rfl, rfl⟩
/-- `[1,2,0]` is a permutation that is not its own inverse -/
example : ([1, 2, 0] : List Nat).Perm (List.range exT.ndim) := by decide
example : ¬ ([1, 1, 0] : List Nat).Perm (List.range exT.ndim) := by decide
example : (permuteDimensions 99 exT [1, 2, 0]).1.periods = some [8, 9, 7] := by decide
example : (permuteDimensions 99 exT [1, 2, 0]).1.strides = [8, 2, 1] := by decide
example : (permuteDimensions 99 exT [1, 2, 0]).1.coef.take 5 = [0, 12, 1, 13, 2] := by decide
example : permuteDimensions 99 (permuteDimensions 99 exT [1, 2, 0]).1 [2, 0, 1] = (exT, none) := by decide
example : permuteDimensions 99 exT [1, 1, 0] = (exT, some .duplicate) := by decide
example : permuteDimensions 99 exT [1, 3, 0] = (exT, some .tooLarge) := by decide
example : permuteDimensions 99 exT [1, 0] = (exT, some .wrongNumber) := by decide
example : InBox [1, 2, 3] exT.naxes := ⟨rfl, by decide⟩

/-- the routine before fixes/C15-1.diff: identical except that `periods` is left alone -/
def permuteBodyUnrepaired (junk : C) (T : PTable K E C) (perm : List Nat) : PTable K E C :=
  { permuteBody junk T perm with periods := T.periods }

/-- witness of the defect: with periods (7,8) and the swap, the unrepaired routine leaves the periods
attached to the wrong axes, contradicting `C15_attrs_permuted` -/
theorem C15_unrepaired_periods_not_permuted :
    ∃ (T : PTable String Nat Nat) (perm : List Nat), T.WF ∧ perm.Perm (List.range T.ndim) ∧
      ∃ k < T.ndim, ((permuteBodyUnrepaired 0 T perm).periods.map fun a => a.getD k 0)
        ≠ T.periods.map fun a => a.getD (perm.getD k 0) 0 :=
  ⟨{ ndim := 2, order := [1, 2], naxes := [2, 3], strides := [3, 1], nknots := [4, 6], knots := ["a", "b"],
     extents := [(0, 1), (2, 3)], periods := some [7, 8], coef := List.range 6 }, [1, 0],
   ⟨by decide, rfl, rfl, rfl, rfl, rfl, by intro p h; cases h; rfl, rfl, rfl⟩, by decide, 0, by decide, by decide⟩

end PsV.Permute

/-! ## non-vacuity of `C15_ndsplineeval_permuted`: a 2-d table (orders 1, 2), the swap, an accepted point -/
namespace PsV.Permute
open PsV
attribute [local instance] Arith.ofField

def kn : Int → Rat := fun i => (i : Rat)
def nvT : PTable (Int → Rat) Nat Rat :=
  { ndim := 2, order := [1, 2], naxes := [4, 4], strides := [4, 1], nknots := [6, 7],
    knots := [kn, kn], extents := [(0, 1), (2, 3)], periods := none,
    coef := [0,1,2,3,4,5,6,7,8,9,10,11,12,13,14,15] }
def nvT' : PTable (Int → Rat) Nat Rat :=
  { ndim := 2, order := [2, 1], naxes := [4, 4], strides := [4, 1], nknots := [7, 6],
    knots := [kn, kn], extents := [(2, 3), (0, 1)], periods := none,
    coef := [0,4,8,12,1,5,9,13,2,6,10,14,3,7,11,15] }

theorem nv_perm : (permuteDimensions 0 nvT [1, 0]).1 = nvT' := by rfl
end PsV.Permute
namespace PsV.Permute
open PsV
attribute [local instance] Arith.ofField

theorem kn_mono (n : Nat) : ∀ i j : Int, 0 ≤ i → i ≤ j → j < n → kn i ≤ kn j :=
  fun i j _ hij _ => by show ((i:Int):Rat) ≤ ((j:Int):Rat); exact_mod_cast hij

example : nvT.WF ∧ ([1, 0] : List Nat).Perm (List.range nvT.ndim) ∧
    (toTable nvT).WF ∧ AllNonDegenerate (toTable nvT).dims [(5/2 : Rat), 7/2] ∧
    @searchCenters Rat (cmpLO Rat) ((toTable nvT).dims.map Dim.axis) [(5/2 : Rat), 7/2] = .ok [2, 3] ∧
    (toTable (permuteDimensions 0 nvT [1, 0]).1).WF ∧
    AllNonDegenerate (toTable (permuteDimensions 0 nvT [1, 0]).1).dims (gather 0 [(5/2 : Rat), 7/2] [1, 0]) ∧
    @searchCenters Rat (cmpLO Rat) ((toTable (permuteDimensions 0 nvT [1, 0]).1).dims.map Dim.axis)
      (gather 0 [(5/2 : Rat), 7/2] [1, 0]) = .ok [3, 2] := by
  rw [nv_perm]
  have d1 : (toTable nvT).dims = [⟨1, 6, 4, 4, kn⟩, ⟨2, 7, 4, 1, kn⟩] := rfl
  have d2 : (toTable nvT').dims = [⟨2, 7, 4, 4, kn⟩, ⟨1, 6, 4, 1, kn⟩] := rfl
  have g : gather 0 [(5/2 : Rat), 7/2] [1, 0] = [7/2, 5/2] := rfl
  rw [d1, d2, g]
  refine ⟨⟨by decide, rfl, rfl, rfl, rfl, rfl, (by intro p h; cases h), rfl, rfl⟩, by decide, ⟨?_, ?_⟩, ?_, ?_, ⟨?_, ?_⟩, ?_, ?_⟩
  · intro d hd
    rw [d1] at hd
    simp only [List.mem_cons, List.not_mem_nil, or_false] at hd
    rcases hd with rfl | rfl
    · exact ⟨by decide, rfl, kn_mono _⟩
    · exact ⟨by decide, rfl, kn_mono _⟩
  · rw [d1]; rfl
  · exact ⟨Or.inl (by simp [kn]; norm_num), Or.inl (by simp [kn]; norm_num), trivial⟩
  · simp [searchCenters, searchAxis, Dim.axis, bsearch, Cmp.lt, Cmp.le, kn]
    norm_num
  · intro d hd
    rw [d2] at hd
    simp only [List.mem_cons, List.not_mem_nil, or_false] at hd
    rcases hd with rfl | rfl
    · exact ⟨by decide, rfl, kn_mono _⟩
    · exact ⟨by decide, rfl, kn_mono _⟩
  · rw [d2]; rfl
  · exact ⟨Or.inl (by simp [kn]; norm_num), Or.inl (by simp [kn]; norm_num), trivial⟩
  · simp [searchCenters, searchAxis, Dim.axis, bsearch, Cmp.lt, Cmp.le, kn]
    norm_num
end PsV.Permute
