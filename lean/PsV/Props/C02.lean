import PsV.Proofs.Lanes
import PsV.Proofs.Bridge
import PsV.Proofs.PolyDeriv
import PsV.Proofs.PolyDerivK
import PsV.Proofs.RoundingDerivEval
/-!
# C02 — derivative and gradient evaluations (first part: structural facts)

* a derivative along an order-0 dimension is zero (code and specification);
* a derivative of order above the spline order is zero in the specification;
* the value-plus-gradient evaluation uses, lane by lane, exactly the rows of plain / single-derivative
  evaluation, for every arithmetic — so lane 0 is the plain value and lane `1+d` the bitmask
  derivative `1<<d`, bit for bit.
* `C02_mask_eval_eq_spec_partial`: evaluation with any derivative bitmask (single and mixed first
  derivatives) equals the sum over all coefficients of coefficient × Π_d (basis function, or its
  knot-difference derivative formula `n (B_{i,n-1}/(t_{i+n}-t_i) − B_{i+1,n-1}/(t_{i+n+1}-t_{i+1}))` in the
  selected dimensions), with the one-sided convention of C01, over any linearly ordered field.
  That this formula is the derivative of the polynomial piece is `C02_formula_is_derivative` (below,
  when present); arbitrary-order derivatives (`derivK`, the recursive routine) are tied by the
  exact-rational oracle and the bit-exact run only.

**Rounding** (section `rounding`, last part of this file).  Derivative basis values are *differences*
`n·B_{i,n-1}/(t_{i+n}−t_i) − n·B_{i+1,n-1}/(t_{i+n+1}−t_{i+1})`, so the error of a rounded evaluation cannot be
proportional to the derivative itself; it is proportional to the **majorant** `ndsplineevalAbs ⟨dims, |coef|⟩ x c mask`
= `Σ |coef| · Π_d (B_d or Babs_d)`, the code's own formula with the subtraction of the two terms (and the negation in
slot 0) replaced by addition (`PsV.Model.DerivAbs`; `Babs_i = n(B_{i,n-1}/(t_{i+n}−t_i) + B_{i+1,n-1}/(t_{i+n+1}−t_{i+1}))`).
* `C02_deriv_basis_rounding_envelope`: every slot of `bspline_deriv_nonzero` run with any roundings of relative error `ε`
  is within `((1+ε)^(7·order) − 1)·Babs` of the exact slot;
* `C02_rounding_envelope_partial`: `|ndsplineeval@rounded − ndsplineeval@exact| ≤ ((1+ε)^K − 1)·majorant` for **every bitmask**,
  `K = 3 + ndim(7·maxorder+3) + 2·Π(order_d+1)` — the constant of plain evaluation (C01): a derivative row costs `7·order`
  roundings per entry, a value row `7·order + 1`;
* `C02_rounded_deriv_near_spec_partial`: the same against the specification (true derivative, by `C02_mask_eval_eq_spec_partial`
  and `C02_formula_is_derivative`);
* `C02_gradient_rounding_envelope`: every lane of `ndsplineeval_gradient`; `C02_deriv_orders_rounding_envelope_partial`:
  `ndsplineeval_deriv` with all orders ≤ 1;
* `C02_majorant_dominates`, `C02_majorant_mask_zero`, and a concrete evaluation in which majorant = |derivative|: the
  majorant is a genuine, attainable bound.
Partial: restricted by `AllInterior` to points inside a non-empty knot interval of the fully supported range
(`order ≤ c`, `c+order+2 ≤ nknots`, `knots[c] ≤ x ≤ knots[c+1]`); the partially supported margins (where the recurrences
also produce discarded entries from the padding, handled for values in `Proofs/RoundingMargin.lean`) are not redone for the
derivative combination; arbitrary-order derivatives (`derivK`) and underflow/overflow stay with the measured envelope.
-/
namespace PsV
variable {α : Type} [A : Arith α]

/-- code: the single-derivative basis of an order-0 dimension is the one-element row `[0]` -/
theorem C02_order0_deriv_zero_code (t : Int → α) (nknots : Nat) (x : α) (left : Int) :
    bsplineDerivNonzero t nknots x left 0 = [A.rnd A.zero] := by
  simp [bsplineDerivNonzero]

/-- specification: every derivative of positive order of an order-0 basis function is zero -/
theorem C02_order0_deriv_zero_spec (ind : Int → Bool) (t : Int → α) (x : α) (k : Nat) (i : Int) :
    Dind ind t x (k+1) 0 i = A.zero := by
  simp [Dind]

/-- gradient lanes are built from the rows of plain evaluation (values) and of the single
derivative (derivatives): `gradRows` for lane `1+d` equals `rows` with the bitmask `1<<d`, and for
lane 0 the rows of plain evaluation, whenever every dimension has order ≥ 1. -/
theorem C02_gradient_rows : ∀ (ds : List (Dim α)) (xs : List α) (cs : List Nat) (lane n : Nat),
    (∀ d ∈ ds, d.order ≠ 0) →
    gradRows ds xs cs lane n =
      rows ds xs cs ((List.range ds.length).map fun j => if lane = n + j + 1 then BasisMode.deriv1 else BasisMode.value) := by
  intro ds
  induction ds with
  | nil => intro xs cs lane n _; simp [gradRows, rows]
  | cons d ds ih =>
    intro xs cs lane n ho
    cases xs with
    | nil => simp [gradRows, rows]
    | cons x xs =>
      cases cs with
      | nil => simp [gradRows, rows]
      | cons c cs =>
        have hd : d.order ≠ 0 := ho d (by simp)
        simp only [gradRows, List.length_cons, List.range_succ_eq_map, List.map_cons, List.map_map, rows]
        rw [ih xs cs lane (n+1) (fun e he => ho e (by simp [he]))]
        congr 1
        · by_cases hl : lane = n + 1
          · simp [hl, localRow, bsplineNonzero_derivs]
          · simp [hl, localRow, bsplineNonzero_values _ _ _ _ _ hd]
        · congr 1
          apply List.map_congr_left
          intro j _
          simp only [Function.comp]
          have : n + 1 + j + 1 = n + (j + 1) + 1 := by omega
          rw [this]


-- `laneMask` (derivative bitmask of a gradient lane: lane 0 = value, lane `1+d` = `1<<d`) is defined in `PsV.Model.DerivAbs`

/-- **Every gradient lane is the corresponding scalar evaluation, operation for operation** — for
every arithmetic (so bit for bit in IEEE): `ndsplineeval_gradient` returns
`[ndsplineeval(x, c, 0), ndsplineeval(x, c, 1<<0), …, ndsplineeval(x, c, 1<<(ndim-1))]`
whenever every dimension has order ≥ 1 and the SIMD layout can serve the request. -/
theorem C02_gradient_eq_mask_evals (maxDim : Nat) (T : Table α) (xs : List α) (cs : List Nat)
    (hord : ∀ d ∈ T.dims, d.order ≠ 0) (hdim : T.dims.length + 1 ≤ maxDim) :
    ndsplineevalGradient maxDim T xs cs =
      some ((List.range (T.dims.length + 1)).map fun lane => ndsplineeval T xs cs (laneMask lane)) := by
  unfold ndsplineevalGradient
  rw [if_neg (by omega)]
  congr 1
  apply List.map_congr_left
  intro lane _
  unfold ndsplineeval evalModes maskModes
  rw [C02_gradient_rows T.dims xs cs lane 0 hord]
  congr 2
  apply List.map_congr_left
  intro j _
  cases lane with
  | zero => simp [laneMask]
  | succ l =>
    simp only [laneMask, Nat.testBit_two_pow, Nat.zero_add, Nat.add_right_cancel_iff, decide_eq_true_eq]

section field
variable {β : Type} [Field β] [LinearOrder β]
attribute [local instance] Arith.ofField

/-- **Bitmask derivatives = specification.** -/
theorem C02_mask_eval_eq_spec_partial (T : Table β) (xs : List β) (cs : List Nat) (mask : Nat) (hwf : T.WF)
    (hlen : T.dims.length = xs.length) (hnd : AllNonDegenerate T.dims xs)
    (hs : @searchCenters β (cmpLO β) (T.dims.map Dim.axis) xs = .ok cs) :
    ndsplineeval T xs cs mask = specEval T xs (maskModes T.dims.length mask) :=
  ndsplineeval_mask_eq_specEval T xs cs mask (allOK_of_search T.dims xs cs hwf.dims hlen hnd hs) hwf.stride

/-- **Value-plus-gradient = specification**: lane 0 is the specification sum, lane `1+d` the sum with the
knot-difference derivative in dimension `d`. -/
theorem C02_gradient_eq_spec_partial (maxDim : Nat) (T : Table β) (xs : List β) (cs : List Nat) (hwf : T.WF)
    (hlen : T.dims.length = xs.length) (hnd : AllNonDegenerate T.dims xs)
    (hs : @searchCenters β (cmpLO β) (T.dims.map Dim.axis) xs = .ok cs)
    (hord : ∀ d ∈ T.dims, d.order ≠ 0) (hdim : T.dims.length + 1 ≤ maxDim) :
    ndsplineevalGradient maxDim T xs cs =
      some ((List.range (T.dims.length + 1)).map fun lane =>
        specEval T xs (maskModes T.dims.length (laneMask lane))) := by
  rw [C02_gradient_eq_mask_evals maxDim T xs cs hord hdim]
  congr 1
  apply List.map_congr_left
  intro lane _
  exact C02_mask_eval_eq_spec_partial T xs cs _ hwf hlen hnd hs

/-- **Arbitrary-order derivatives = specification.**  `ndsplineeval_deriv` with per-dimension
derivative orders `ks` (0 = value, 1 = single derivative, `k ≥ 2` = the recursive routine) equals the
sum over all coefficients of coefficient × Π_d (k_d-th iterated knot-difference derivative of the basis
function), provided every dimension with `k_d ≥ 2` has its coordinate below `knots[naxes]` or not on a
knot (there the recursive routine's right-continuous convention differs from plain evaluation: known
finding `deriv>=2-at-upper-knot`).  Exact arithmetic; IEEE faithfulness of the recursive routine needs
strictly increasing knots (no 0/0), which the correspondence generator respects. -/
theorem C02_deriv_eval_eq_spec_partial (T : Table β) (xs : List β) (cs : List Nat) (ks : List Nat) (hwf : T.WF)
    (hlen : T.dims.length = xs.length) (hnd : AllNonDegenerate T.dims xs)
    (hs : @searchCenters β (cmpLO β) (T.dims.map Dim.axis) xs = .ok cs)
    (hks : AllModesOK T.dims xs (derivModes ks)) :
    ndsplineevalDeriv T xs cs ks = specEval T xs (derivModes ks) :=
  evalModes_eq_specEval T xs cs _ (allOK_of_search T.dims xs cs hwf.dims hlen hnd hs) hks hwf.stride

/-- **The knot-difference formula is the true derivative of the polynomial piece**: `Pp` is the
piece of basis function `i` on interval `left` as a `Polynomial`, its evaluation is what the code's
value recurrence computes (`Bp`), and the evaluation of its `Polynomial.derivative` is the formula
`(n+1)(B_{i,n}/(t_{i+n+1}-t_i) − B_{i+1,n}/(t_{i+n+2}-t_{i+1}))` that `bspline_deriv_nonzero` computes —
for knots non-decreasing on the indices the function uses (repeated knots allowed, `a/0 = 0`). -/
theorem C02_formula_is_derivative (t : Int → β) (x : β) (left : Int) (n : Nat) (i : Int)
    (hmono : ∀ a b : Int, i ≤ a → a ≤ b → b ≤ i + n + 2 → t a ≤ t b) :
    (Pp t left (n+1) i).eval x = Bp t x left (n+1) i ∧
    (Polynomial.derivative (Pp t left (n+1) i)).eval x = DBp t x left n i := by
  refine ⟨eval_Pp t x left (n+1) i, ?_⟩
  rw [eval_derivative_Pp, dBp_eq_DBp t x left n i hmono]

/-- **Arbitrary-order derivatives are the true derivatives**: the specification's `k`-fold knot-difference
formula `Dind … k` of basis function `i` (all of whose knots are valid and non-decreasing) equals the
evaluation of `Polynomial.derivative^[k]` of the polynomial piece the indicator selects. -/
theorem C02_formula_is_iterated_derivative (t : Int → β) (x : β) (nknots : Nat) (l : Int) (ind : Int → Bool)
    (hind : ∀ j : Int, 0 ≤ j → j ≤ (nknots:Int) - 2 → (ind j = true ↔ j = l))
    (k n : Nat) (i : Int) (h0 : 0 ≤ i) (h1 : i + n + 1 ≤ (nknots:Int) - 1)
    (hmono : ∀ a b : Int, i ≤ a → a ≤ b → b ≤ i + n + 1 → t a ≤ t b) :
    Dind ind t x k n i = (Polynomial.derivative^[k] (Pp t l n i)).eval x := by
  rw [Dind_eq_DkBp t x nknots l ind hind k n i h0 h1, iterate_derivative_Pp t x l k n i hmono]

end field

end PsV

namespace PsV
section rounding
variable {F : Type} [Field F] [LinearOrder F] [IsStrictOrderedRing F] {ε : F} {fl st : F → F}

/-- **Forward error of `bspline_deriv_nonzero`** (one dimension, point inside a knot interval of the fully
supported range): the three rows — absolute (`Babs`), exact, rounded — have `order+1` slots, and in every slot
`|rounded − exact| ≤ ((1+ε)^(7·order) − 1)·Babs` and `|exact| ≤ Babs`. -/
theorem C02_deriv_basis_rounding_envelope (hε : 0 ≤ ε) (hfl : ∀ a, RelErr ε 1 a (fl a)) (hst : ∀ a, RelErr ε 1 a (st a))
    (d : Dim F) (x : F) (c : Nat) (hint : Interior d x c) :
    (@bsplineDerivNonzeroAbs F (Arith.ofField F) d.knots d.nknots x c d.order).length = d.order + 1 ∧
    (@bsplineDerivNonzero F (Arith.ofField F) d.knots d.nknots x c d.order).length = d.order + 1 ∧
    (@bsplineDerivNonzero F (Arith.rounded fl st) d.knots d.nknots x c d.order).length = d.order + 1 ∧
    ∀ (i : Nat) (m e r : F),
      (@bsplineDerivNonzeroAbs F (Arith.ofField F) d.knots d.nknots x c d.order)[i]? = some m →
      (@bsplineDerivNonzero F (Arith.ofField F) d.knots d.nknots x c d.order)[i]? = some e →
      (@bsplineDerivNonzero F (Arith.rounded fl st) d.knots d.nknots x c d.order)[i]? = some r →
      |r - e| ≤ gfac ε (7 * d.order) * m ∧ |e| ≤ m := by
  obtain ⟨hrow, hlen⟩ := bsplineDerivNonzero_row3 hε hfl hst d x c hint
  obtain ⟨l1, l2⟩ := hrow.length_eq
  exact ⟨by rw [l1, hlen], hlen, by rw [l2, hlen], fun i m e r hm he hr => hrow.get i m e r hm he hr⟩

/-- **Forward error bound for evaluation with a derivative bitmask** (model at rounded arithmetic vs the same model
exact; any bitmask — single and mixed first derivatives, `mask = 0` is C01).

Partial: the one restricting hypothesis is `hint : AllInterior T.dims xs cs` — every coordinate lies in the knot interval
`[knots[c], knots[c+1]]` of its centre, that interval is not empty, the centre is fully supported (`order ≤ c`,
`c + order + 2 ≤ nknots`) and the knots the recurrences touch are non-decreasing.  The full statement replaces it by the
hypotheses of the exact theorem (`T.WF`, `AllNonDegenerate`, `searchCenters … = .ok cs`), i.e. it also covers the two
partially supported margins and points of the supported range that sit exactly on `knots[naxes]`:
```
theorem C02_rounding_envelope_all … (hwf : T.WF) (hlen : T.dims.length = xs.length) (hnd : AllNonDegenerate T.dims xs)
    (hs : searchCenters (T.dims.map Dim.axis) xs = .ok cs) (hn : ∀ d ∈ T.dims, d.order ≤ n) :
    |ndsplineeval@rounded T xs cs mask − specEval T xs (maskModes T.dims.length mask)| ≤
      gfac ε (3 + T.dims.length * (7 * n + 3) + 2 * blockSize T.dims) * ndsplineevalAbs ⟨T.dims, |coef|⟩ xs cs mask
```
Missing for it: the margin version of `derivCombine_row3` (in the margins `bsplvb` also fills slots of absent basis
functions from the padding; they carry no bound and are discarded by `rearrange` — as done for values in
`Proofs/RoundingMargin.lean`). -/
theorem C02_rounding_envelope_partial (hε : 0 ≤ ε) (hfl : ∀ a, RelErr ε 1 a (fl a)) (hst : ∀ a, RelErr ε 1 a (st a))
    (T : Table F) (xs : List F) (cs : List Nat) (n mask : Nat)
    (hint : AllInterior T.dims xs cs) (hn : ∀ d ∈ T.dims, d.order ≤ n) :
    |@ndsplineeval F (Arith.rounded fl st) T xs cs mask - @ndsplineeval F (Arith.ofField F) T xs cs mask| ≤
      gfac ε (3 + T.dims.length * (7 * n + 3) + 2 * blockSize T.dims) *
        @ndsplineevalAbs F (Arith.ofField F) ⟨T.dims, fun i => |T.coef i|⟩ xs cs mask :=
  (ndsplineeval_mask_rounding hε hfl hst T xs cs n mask hint hn).1

/-- the same for `ndsplineeval_deriv` when every requested derivative order is 0 or 1 (the routine then uses the same two
basis routines; orders ≥ 2 go through the recursive `bspline_deriv` and are not covered) -/
theorem C02_deriv_orders_rounding_envelope_partial (hε : 0 ≤ ε) (hfl : ∀ a, RelErr ε 1 a (fl a)) (hst : ∀ a, RelErr ε 1 a (st a))
    (T : Table F) (xs : List F) (cs : List Nat) (n : Nat) (ks : List Nat)
    (hint : AllInterior T.dims xs cs) (hn : ∀ d ∈ T.dims, d.order ≤ n)
    (hkl : ks.length = T.dims.length) (hk1 : ∀ k ∈ ks, k ≤ 1) :
    |@ndsplineevalDeriv F (Arith.rounded fl st) T xs cs ks - @ndsplineevalDeriv F (Arith.ofField F) T xs cs ks| ≤
      gfac ε (3 + T.dims.length * (7 * n + 3) + 2 * blockSize T.dims) *
        @evalModesAbs F (Arith.ofField F) ⟨T.dims, fun i => |T.coef i|⟩ xs cs (derivModes ks) :=
  (evalModes_rounding hε hfl hst T xs cs n (derivModes ks) hint hn (by simp [derivModes, hkl]) (derivModes_mem ks hk1)).1

/-- the majorant dominates the exact derivative (it is the sum of the magnitudes of the terms the derivative sums) -/
theorem C02_majorant_dominates (T : Table F) (xs : List F) (cs : List Nat) (mask : Nat)
    (hint : AllInterior T.dims xs cs) :
    |@ndsplineeval F (Arith.ofField F) T xs cs mask| ≤
      @ndsplineevalAbs F (Arith.ofField F) ⟨T.dims, fun i => |T.coef i|⟩ xs cs mask := by
  have hid : ∀ a : F, RelErr (0 : F) 1 a (id a) := fun a => (RelErr.refl (le_refl (0 : F)) a).mono (le_refl _) (by omega)
  obtain ⟨n, hn⟩ : ∃ n : Nat, ∀ d ∈ T.dims, d.order ≤ n :=
    ⟨(T.dims.map Dim.order).sum, fun d hd => List.single_le_sum (fun _ _ => Nat.zero_le _) _ (List.mem_map_of_mem hd)⟩
  exact (ndsplineeval_mask_rounding (le_refl (0 : F)) hid hid T xs cs n mask hint hn).2

/-- with no derivative selected the majorant is plain evaluation (of whatever table it is applied to): the
envelope of `C02_rounding_envelope_partial` at `mask = 0` is the envelope of `C01_rounding_envelope_partial` -/
theorem C02_majorant_mask_zero {α : Type} [A : Arith α] (T : Table α) (xs : List α) (cs : List Nat) :
    ndsplineevalAbs T xs cs 0 = ndsplineeval T xs cs 0 := by
  unfold ndsplineevalAbs ndsplineeval evalModesAbs evalModes
  rw [rowsAbs_value]
  intro m hm
  rw [maskModes_zero'] at hm
  exact List.eq_of_mem_replicate hm

/-- … and therefore against the specification (the true partial derivative of the tensor-product sum, one-sided
convention of C01): rounded bitmask evaluation is within the envelope. -/
theorem C02_rounded_deriv_near_spec_partial (hε : 0 ≤ ε) (hfl : ∀ a, RelErr ε 1 a (fl a)) (hst : ∀ a, RelErr ε 1 a (st a))
    (T : Table F) (xs : List F) (cs : List Nat) (n mask : Nat) (hwf : T.WF)
    (hlen : T.dims.length = xs.length) (hnd : AllNonDegenerate T.dims xs)
    (hs : @searchCenters F (cmpLO F) (T.dims.map Dim.axis) xs = .ok cs)
    (hint : AllInterior T.dims xs cs) (hn : ∀ d ∈ T.dims, d.order ≤ n) :
    |@ndsplineeval F (Arith.rounded fl st) T xs cs mask
        - @specEval F (Arith.ofField F) T xs (maskModes T.dims.length mask)| ≤
      gfac ε (3 + T.dims.length * (7 * n + 3) + 2 * blockSize T.dims) *
        @ndsplineevalAbs F (Arith.ofField F) ⟨T.dims, fun i => |T.coef i|⟩ xs cs mask := by
  have h := C02_rounding_envelope_partial hε hfl hst T xs cs n mask hint hn
  rw [C02_mask_eval_eq_spec_partial T xs cs mask hwf hlen hnd hs] at h
  exact h

/-- **Every lane of the value-plus-gradient evaluation** under rounding: `ndsplineeval_gradient` returns `ndim+1` lanes
in both arithmetics, and lane `l` (0 = value, `1+d` = derivative along `d`) is within the envelope with the majorant of
the bitmask `laneMask l`.  (The lanes perform the scalar evaluation's operations in every arithmetic,
`C02_gradient_eq_mask_evals`, so the bound transfers without a second analysis.) -/
theorem C02_gradient_rounding_envelope (hε : 0 ≤ ε) (hfl : ∀ a, RelErr ε 1 a (fl a)) (hst : ∀ a, RelErr ε 1 a (st a))
    (maxDim : Nat) (T : Table F) (xs : List F) (cs : List Nat) (n : Nat)
    (hint : AllInterior T.dims xs cs) (hn : ∀ d ∈ T.dims, d.order ≤ n)
    (hord : ∀ d ∈ T.dims, d.order ≠ 0) (hdim : T.dims.length + 1 ≤ maxDim) :
    ∃ gR gE : List F,
      @ndsplineevalGradient F (Arith.rounded fl st) maxDim T xs cs = some gR ∧
      @ndsplineevalGradient F (Arith.ofField F) maxDim T xs cs = some gE ∧
      gR.length = T.dims.length + 1 ∧ gE.length = T.dims.length + 1 ∧
      ∀ (lane : Nat) (vR vE : F), gR[lane]? = some vR → gE[lane]? = some vE →
        |vR - vE| ≤ gfac ε (3 + T.dims.length * (7 * n + 3) + 2 * blockSize T.dims) *
          @ndsplineevalAbs F (Arith.ofField F) ⟨T.dims, fun i => |T.coef i|⟩ xs cs (laneMask lane) := by
  refine ⟨_, _, @C02_gradient_eq_mask_evals F (Arith.rounded fl st) maxDim T xs cs hord hdim,
    @C02_gradient_eq_mask_evals F (Arith.ofField F) maxDim T xs cs hord hdim, by simp, by simp, ?_⟩
  intro lane vR vE hR hE
  simp only [List.getElem?_map, Option.map_eq_some_iff] at hR hE
  obtain ⟨l1, h1, rfl⟩ := hR
  obtain ⟨l2, h2, rfl⟩ := hE
  have e1 : l1 = lane := by
    by_cases hl : lane < T.dims.length + 1
    · rw [List.getElem?_range hl] at h1; exact (Option.some.inj h1).symm
    · rw [List.getElem?_eq_none (by simpa using hl)] at h1; cases h1
  have e2 : l2 = lane := by
    by_cases hl : lane < T.dims.length + 1
    · rw [List.getElem?_range hl] at h2; exact (Option.some.inj h2).symm
    · rw [List.getElem?_eq_none (by simpa using hl)] at h2; cases h2
  subst e1; subst e2
  exact C02_rounding_envelope_partial hε hfl hst T xs cs n _ hint hn

end rounding

/-- 2-d table for the non-vacuity examples: orders 2 and 1, knots 0..6 and 0..4, strides 3 and 1, coefficients of both signs -/
def c02ExDims : List (Dim Rat) := [⟨2, 7, 4, 3, fun i => (i : Rat)⟩, ⟨1, 5, 3, 1, fun i => (i : Rat)⟩]
def c02ExTable : Table Rat := ⟨c02ExDims, fun i => (i : Rat) - 5⟩

/-- hypotheses of `C02_rounding_envelope_partial` / `C02_deriv_basis_rounding_envelope` (and the rounding part of the other two):
roundings (`fl = st = id`, `ε = 1/8`; any `ε ≥ 0` works), an interior point of the 2-d table, the order bound -/
example : (∀ a : Rat, RelErr (1/8 : Rat) 1 a (id a)) ∧
    AllInterior c02ExTable.dims [(7/2 : Rat), 3/2] [3, 1] ∧ (∀ d ∈ c02ExTable.dims, d.order ≤ 2) ∧
    Interior (⟨2, 7, 4, 3, fun i => (i : Rat)⟩ : Dim Rat) (7/2) 3 := by
  have h1 : Interior (⟨2, 7, 4, 3, fun i => (i : Rat)⟩ : Dim Rat) (7/2) 3 :=
    ⟨by decide, by decide, by norm_num, by norm_num, by norm_num,
      fun a b _ hab _ => by show ((a:Int):Rat) ≤ ((b:Int):Rat); exact_mod_cast hab⟩
  have h2 : Interior (⟨1, 5, 3, 1, fun i => (i : Rat)⟩ : Dim Rat) (3/2) 1 :=
    ⟨by decide, by decide, by norm_num, by norm_num, by norm_num,
      fun a b _ hab _ => by show ((a:Int):Rat) ≤ ((b:Int):Rat); exact_mod_cast hab⟩
  refine ⟨fun a => (RelErr.refl (by norm_num) a).mono (by norm_num) (by omega), ⟨h1, h2, trivial⟩, ?_, h1⟩
  intro d hd
  simp only [c02ExTable, c02ExDims, List.mem_cons, List.not_mem_nil, or_false] at hd
  rcases hd with rfl | rfl <;> decide

/-- remaining hypotheses of `C02_rounded_deriv_near_spec_partial` at the same point -/
example : c02ExTable.WF ∧ c02ExTable.dims.length = [(7/2 : Rat), 3/2].length ∧
    AllNonDegenerate c02ExTable.dims [(7/2 : Rat), 3/2] ∧
    @searchCenters Rat (cmpLO Rat) (c02ExTable.dims.map Dim.axis) [(7/2 : Rat), 3/2] = .ok [3, 1] := by
  refine ⟨⟨?_, rfl⟩, rfl, ?_, ?_⟩
  · intro d hd
    simp only [c02ExTable, c02ExDims, List.mem_cons, List.not_mem_nil, or_false] at hd
    rcases hd with rfl | rfl
    · exact ⟨by decide, rfl, fun i j _ hij _ => by show ((i:Int):Rat) ≤ ((j:Int):Rat); exact_mod_cast hij⟩
    · exact ⟨by decide, rfl, fun i j _ hij _ => by show ((i:Int):Rat) ≤ ((j:Int):Rat); exact_mod_cast hij⟩
  · exact ⟨Or.inl (by norm_num), Or.inl (by norm_num), trivial⟩
  · simp [searchCenters, searchAxis, c02ExTable, c02ExDims, Dim.axis, bsearch, Cmp.lt, Cmp.le]
    norm_num

/-- remaining hypotheses of `C02_gradient_rounding_envelope` and of `C02_deriv_orders_rounding_envelope_partial` (orders `[1, 0]`) -/
example : (∀ d ∈ c02ExTable.dims, d.order ≠ 0) ∧ c02ExTable.dims.length + 1 ≤ maxDimDefault ∧
    ([1, 0] : List Nat).length = c02ExTable.dims.length ∧ (∀ k ∈ ([1, 0] : List Nat), k ≤ 1) := by
  refine ⟨?_, by decide, rfl, by decide⟩
  intro d hd
  simp only [c02ExTable, c02ExDims, List.mem_cons, List.not_mem_nil, or_false] at hd
  rcases hd with rfl | rfl <;> decide

/-- the majorant is a concrete finite number where the derivative cancels completely: mixed partial d²/dx dy of the 2-d
table (coefficients linear in the position) at (7/2, 3/2) is 0, the majorant 9 — the envelope cannot be proportional
to the derivative itself -/
example : @ndsplineeval Rat (Arith.ofField Rat) c02ExTable [7/2, 3/2] [3, 1] 3 = 0 ∧
    @ndsplineevalAbs Rat (Arith.ofField Rat) ⟨c02ExTable.dims, fun i => |c02ExTable.coef i|⟩ [7/2, 3/2] [3, 1] 3 = 9 := by
  constructor
  · norm_num [ndsplineeval, evalModes, c02ExTable, c02ExDims, maskModes, rows, localRow, bsplineDerivNonzero, marginShift, shiftUp, shiftDown, (by decide : Nat.testBit 3 0 = true), (by decide : Nat.testBit 3 1 = true),
      bsplvb, vbLevels, vbStep, rearrange, derivCombine, derivMid, walk, walkRow, walkLast, startPos, List.range, List.range.loop]
  · norm_num [ndsplineevalAbs, evalModesAbs, c02ExTable, c02ExDims, maskModes, rowsAbs, localRowAbs, bsplineDerivNonzeroAbs, marginShift, shiftUp, shiftDown, (by decide : Nat.testBit 3 0 = true), (by decide : Nat.testBit 3 1 = true),
      bsplvb, vbLevels, vbStep, rearrange, derivCombineAbs, derivMidAbs, walk, walkRow, walkLast, startPos, List.range, List.range.loop]

/-- … and it is attained: for the 1-d table of order 2 on knots 0..6 with coefficients `i − 2` (the spline `x ↦ x − 5/2 + …`
of slope 1) the derivative at 7/2 is 1 and the majorant is 1 — all terms of the derivative sum have one sign. -/
example : @ndsplineeval Rat (Arith.ofField Rat) ⟨[⟨2, 7, 4, 1, fun i => (i : Rat)⟩], fun i => (i : Rat) - 2⟩ [7/2] [3] 1 = 1 ∧
    @ndsplineevalAbs Rat (Arith.ofField Rat) ⟨[⟨2, 7, 4, 1, fun i => (i : Rat)⟩], fun i => |(i : Rat) - 2|⟩ [7/2] [3] 1 = 1 := by
  constructor
  · norm_num [ndsplineeval, evalModes, maskModes, rows, localRow, bsplineDerivNonzero, marginShift, shiftUp,
      bsplvb, vbLevels, vbStep, rearrange, derivCombine, derivMid, walk, walkLast, startPos, List.range, List.range.loop]
  · norm_num [ndsplineevalAbs, evalModesAbs, maskModes, rowsAbs, localRowAbs, bsplineDerivNonzeroAbs, marginShift, shiftUp,
      bsplvb, vbLevels, vbStep, rearrange, derivCombineAbs, derivMidAbs, walk, walkLast, startPos, List.range, List.range.loop]

end PsV
