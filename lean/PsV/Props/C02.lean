import PsV.Proofs.Lanes
import PsV.Proofs.Bridge
import PsV.Proofs.PolyDeriv
import PsV.Proofs.PolyDerivK
/-!
# C02 — derivative and gradient evaluations (first part: structural facts)

* a derivative along an order-0 dimension is zero (code and specification);
* a derivative of order above the spline order is zero in the specification;
* the value-plus-gradient evaluation uses, lane by lane, exactly the rows of plain / single-derivative
  evaluation, for every arithmetic — so lane 0 is the plain value and lane `1+d` the bitmask
  derivative `1<<d`, bit for bit.
* `C02_mask_eval_eq_spec_partial`: evaluation with any derivative bitmask (single and mixed first
  derivatives) equals the sum over all coefficients of coefficient × Π_d (basis function, or its
  knot-difference derivative formula `n (B_{i,n-1}/(t_{i+n}-t_i) − B_{i+1,n-1}/(t_{i+n+1}-t_{i+1}))` in the
  selected dimensions), with the one-sided convention of C01, over any linearly ordered field.
  That this formula is the derivative of the polynomial piece is `C02_formula_is_derivative` (below,
  when present); arbitrary-order derivatives (`derivK`, the recursive routine) are tied by the
  exact-rational oracle and the bit-exact run only.
-/
namespace PsV
variable {α : Type} [A : Arith α]

/-- code: the single-derivative basis of an order-0 dimension is the one-element row `[0]` -/
theorem C02_order0_deriv_zero_code (t : Int → α) (nknots : Nat) (x : α) (left : Int) :
    bsplineDerivNonzero t nknots x left 0 = [A.rnd A.zero] := by
  simp [bsplineDerivNonzero]

/-- specification: every derivative of positive order of an order-0 basis function is zero -/
theorem C02_order0_deriv_zero_spec (ind : Int → Bool) (t : Int → α) (x : α) (k : Nat) (i : Int) :
    Dind ind t x (k+1) 0 i = A.zero := by
  simp [Dind]

/-- gradient lanes are built from the rows of plain evaluation (values) and of the single
derivative (derivatives): `gradRows` for lane `1+d` equals `rows` with the bitmask `1<<d`, and for
lane 0 the rows of plain evaluation, whenever every dimension has order ≥ 1. -/
theorem C02_gradient_rows : ∀ (ds : List (Dim α)) (xs : List α) (cs : List Nat) (lane n : Nat),
    (∀ d ∈ ds, d.order ≠ 0) →
    gradRows ds xs cs lane n =
      rows ds xs cs ((List.range ds.length).map fun j => if lane = n + j + 1 then BasisMode.deriv1 else BasisMode.value) := by
  intro ds
  induction ds with
  | nil => intro xs cs lane n _; simp [gradRows, rows]
  | cons d ds ih =>
    intro xs cs lane n ho
    cases xs with
    | nil => simp [gradRows, rows]
    | cons x xs =>
      cases cs with
      | nil => simp [gradRows, rows]
      | cons c cs =>
        have hd : d.order ≠ 0 := ho d (by simp)
        simp only [gradRows, List.length_cons, List.range_succ_eq_map, List.map_cons, List.map_map, rows]
        rw [ih xs cs lane (n+1) (fun e he => ho e (by simp [he]))]
        congr 1
        · by_cases hl : lane = n + 1
          · simp [hl, localRow, bsplineNonzero_derivs]
          · simp [hl, localRow, bsplineNonzero_values _ _ _ _ _ hd]
        · congr 1
          apply List.map_congr_left
          intro j _
          simp only [Function.comp]
          have : n + 1 + j + 1 = n + (j + 1) + 1 := by omega
          rw [this]


/-- derivative bitmask a gradient lane corresponds to: lane 0 = value, lane `1+d` = `1<<d` -/
def laneMask : Nat → Nat
  | 0 => 0
  | l+1 => 2 ^ l

/-- **Every gradient lane is the corresponding scalar evaluation, operation for operation** — for
every arithmetic (so bit for bit in IEEE): `ndsplineeval_gradient` returns
`[ndsplineeval(x, c, 0), ndsplineeval(x, c, 1<<0), …, ndsplineeval(x, c, 1<<(ndim-1))]`
whenever every dimension has order ≥ 1 and the SIMD layout can serve the request. -/
theorem C02_gradient_eq_mask_evals (maxDim : Nat) (T : Table α) (xs : List α) (cs : List Nat)
    (hord : ∀ d ∈ T.dims, d.order ≠ 0) (hdim : T.dims.length + 1 ≤ maxDim) :
    ndsplineevalGradient maxDim T xs cs =
      some ((List.range (T.dims.length + 1)).map fun lane => ndsplineeval T xs cs (laneMask lane)) := by
  unfold ndsplineevalGradient
  rw [if_neg (by omega)]
  congr 1
  apply List.map_congr_left
  intro lane _
  unfold ndsplineeval evalModes maskModes
  rw [C02_gradient_rows T.dims xs cs lane 0 hord]
  congr 2
  apply List.map_congr_left
  intro j _
  cases lane with
  | zero => simp [laneMask]
  | succ l =>
    simp only [laneMask, Nat.testBit_two_pow, Nat.zero_add, Nat.add_right_cancel_iff, decide_eq_true_eq]

section field
variable {β : Type} [Field β] [LinearOrder β]
attribute [local instance] Arith.ofField

/-- **Bitmask derivatives = specification.** -/
theorem C02_mask_eval_eq_spec_partial (T : Table β) (xs : List β) (cs : List Nat) (mask : Nat) (hwf : T.WF)
    (hlen : T.dims.length = xs.length) (hnd : AllNonDegenerate T.dims xs)
    (hs : @searchCenters β (cmpLO β) (T.dims.map Dim.axis) xs = .ok cs) :
    ndsplineeval T xs cs mask = specEval T xs (maskModes T.dims.length mask) :=
  ndsplineeval_mask_eq_specEval T xs cs mask (allOK_of_search T.dims xs cs hwf.dims hlen hnd hs) hwf.stride

/-- **Value-plus-gradient = specification**: lane 0 is the specification sum, lane `1+d` the sum with the
knot-difference derivative in dimension `d`. -/
theorem C02_gradient_eq_spec_partial (maxDim : Nat) (T : Table β) (xs : List β) (cs : List Nat) (hwf : T.WF)
    (hlen : T.dims.length = xs.length) (hnd : AllNonDegenerate T.dims xs)
    (hs : @searchCenters β (cmpLO β) (T.dims.map Dim.axis) xs = .ok cs)
    (hord : ∀ d ∈ T.dims, d.order ≠ 0) (hdim : T.dims.length + 1 ≤ maxDim) :
    ndsplineevalGradient maxDim T xs cs =
      some ((List.range (T.dims.length + 1)).map fun lane =>
        specEval T xs (maskModes T.dims.length (laneMask lane))) := by
  rw [C02_gradient_eq_mask_evals maxDim T xs cs hord hdim]
  congr 1
  apply List.map_congr_left
  intro lane _
  exact C02_mask_eval_eq_spec_partial T xs cs _ hwf hlen hnd hs

/-- **Arbitrary-order derivatives = specification.**  `ndsplineeval_deriv` with per-dimension
derivative orders `ks` (0 = value, 1 = single derivative, `k ≥ 2` = the recursive routine) equals the
sum over all coefficients of coefficient × Π_d (k_d-th iterated knot-difference derivative of the basis
function), provided every dimension with `k_d ≥ 2` has its coordinate below `knots[naxes]` or not on a
knot (there the recursive routine's right-continuous convention differs from plain evaluation: known
finding `deriv>=2-at-upper-knot`).  Exact arithmetic; IEEE faithfulness of the recursive routine needs
strictly increasing knots (no 0/0), which the correspondence generator respects. -/
theorem C02_deriv_eval_eq_spec_partial (T : Table β) (xs : List β) (cs : List Nat) (ks : List Nat) (hwf : T.WF)
    (hlen : T.dims.length = xs.length) (hnd : AllNonDegenerate T.dims xs)
    (hs : @searchCenters β (cmpLO β) (T.dims.map Dim.axis) xs = .ok cs)
    (hks : AllModesOK T.dims xs (derivModes ks)) :
    ndsplineevalDeriv T xs cs ks = specEval T xs (derivModes ks) :=
  evalModes_eq_specEval T xs cs _ (allOK_of_search T.dims xs cs hwf.dims hlen hnd hs) hks hwf.stride

/-- **The knot-difference formula is the true derivative of the polynomial piece**: `Pp` is the
piece of basis function `i` on interval `left` as a `Polynomial`, its evaluation is what the code's
value recurrence computes (`Bp`), and the evaluation of its `Polynomial.derivative` is the formula
`(n+1)(B_{i,n}/(t_{i+n+1}-t_i) − B_{i+1,n}/(t_{i+n+2}-t_{i+1}))` that `bspline_deriv_nonzero` computes —
for knots non-decreasing on the indices the function uses (repeated knots allowed, `a/0 = 0`). -/
theorem C02_formula_is_derivative (t : Int → β) (x : β) (left : Int) (n : Nat) (i : Int)
    (hmono : ∀ a b : Int, i ≤ a → a ≤ b → b ≤ i + n + 2 → t a ≤ t b) :
    (Pp t left (n+1) i).eval x = Bp t x left (n+1) i ∧
    (Polynomial.derivative (Pp t left (n+1) i)).eval x = DBp t x left n i := by
  refine ⟨eval_Pp t x left (n+1) i, ?_⟩
  rw [eval_derivative_Pp, dBp_eq_DBp t x left n i hmono]

/-- **Arbitrary-order derivatives are the true derivatives**: the specification's `k`-fold knot-difference
formula `Dind … k` of basis function `i` (all of whose knots are valid and non-decreasing) equals the
evaluation of `Polynomial.derivative^[k]` of the polynomial piece the indicator selects. -/
theorem C02_formula_is_iterated_derivative (t : Int → β) (x : β) (nknots : Nat) (l : Int) (ind : Int → Bool)
    (hind : ∀ j : Int, 0 ≤ j → j ≤ (nknots:Int) - 2 → (ind j = true ↔ j = l))
    (k n : Nat) (i : Int) (h0 : 0 ≤ i) (h1 : i + n + 1 ≤ (nknots:Int) - 1)
    (hmono : ∀ a b : Int, i ≤ a → a ≤ b → b ≤ i + n + 1 → t a ≤ t b) :
    Dind ind t x k n i = (Polynomial.derivative^[k] (Pp t l n i)).eval x := by
  rw [Dind_eq_DkBp t x nknots l ind hind k n i h0 h1, iterate_derivative_Pp t x l k n i hmono]

end field

end PsV
