import PsV.Proofs.FitQuad
import PsV.Proofs.FitDiffs
import PsV.Proofs.FitPosDef
import PsV.Proofs.NormalEqExists
import PsV.Proofs.PolyReproNd
import PsV.Proofs.PolyReproGen
import PsV.Proofs.ElimPosDef
/-!
# C09 — the unconstrained fit minimises the penalised weighted least-squares objective

Property theorems only; helper lemmas and the statement-level definitions (`Mf`, `rf`, `objConst`,
`penaltyNK`, `penaltyGram`, `PenaltyVanishes`, `DerivVanishes`, `RowsEquiv`, the example problem `exP`)
live in `PsV/Proofs/FitQuad.lean`, the linear algebra of the normal equations in
`PsV/Proofs/NormalEq.lean` / `NormalEqExists.lean`, positive definiteness in `PsV/Proofs/FitPosDef.lean`
(`fitVal P v r = (Bv)_r`), polynomial data in `PsV/Proofs/PolyRepro1d.lean`, `TensorCoef.lean`, `PolyReproNd.lean`
(`polyVal`, `polyCoef`, `PolyDegOK`, `InSupport`, `KnotsSorted`, `PolyData`, the example problem `polyP`), `Marsden1d.lean`,
`PolyReproGen.lean` (`dualCoef`, `polyCoefGSum`, `polyValGSum`, `PolyDegOKG`, `PolyDataG`, the example `polyP2`); the
elimination certificate in `PsV/Proofs/ElimPosDef.lean`.  The carrier is any ordered field whose `Arith` bundle is lawful; `Rat` with
the instance the compiled driver executes is one.

Notation: `N = P.ncoef`, `R = P.rows.size`, `Mf P i j = (specM P).get i j`, `rf P i = (specR P).getD i 0`.
No well-formedness of `P` is assumed anywhere: `penaltySum` and `penaltyTabs`/`penaltyEntry` both stop at
the shortest of the lists `dims`/`smooth`/`porder`, and `(N / (n·s))·n·s ≤ N` always holds, which is all
the line geometry needs.
-/
namespace PsV
open Arith NormalEq
set_option linter.unusedSectionVars false
section
variable {α : Type} [Field α] [LinearOrder α] [IsStrictOrderedRing α] [A : Arith α] [L : LawfulArith α]

/-! ## 1. the normal matrix and right-hand side, entry by entry -/

/-- `M = BᵀWB + Σ_d λ_d K_dᵀK_d`: entry `(i,j)` of `specM` is `Σ_r w_r B[r,i] B[r,j]` plus the penalty
Gram matrix (`penaltyGram`: `Σ_d λ_d Σ_{q < nK_d} K_d[q,i] K_d[q,j]`, `K_d[q,·] = penaltyRow`). -/
theorem specM_entries (P : FitProblem α) (i j : Nat) (hi : i < P.ncoef) (hj : j < P.ncoef) :
    (specM P).get i j
      = ∑ r ∈ Finset.range P.rows.size, rowW P r * designEntry P r i * designEntry P r j
        + penaltyGram P.dims P.smooth P.porder P.ncoef i j := specM_get P i j hi hj

/-- `penaltyGram` written out for one more dimension. -/
theorem penaltyGram_cons (d : Dim α) (ds : List (Dim α)) (l : α) (ls : List α) (p : Nat) (ps : List Nat)
    (N i j : Nat) :
    penaltyGram (d :: ds) (l :: ls) (p :: ps) N i j
      = l * (∑ q ∈ Finset.range ((N / (d.naxes * d.stride)) * (d.naxes - p) * d.stride),
              penaltyRow d.knots d.order p d.naxes d.stride q i
                * penaltyRow d.knots d.order p d.naxes d.stride q j)
        + penaltyGram ds ls ps N i j := rfl

/-- `r = BᵀWz`. -/
theorem specR_entries (P : FitProblem α) (i : Nat) (hi : i < P.ncoef) :
    (specR P).getD i 0
      = ∑ r ∈ Finset.range P.rows.size, rowW P r * rowZ P r * designEntry P r i := specR_get P i hi

/-- The normal matrix is symmetric. -/
theorem specM_symmetric (P : FitProblem α) : Symm P.ncoef (Mf P) := specM_symm P

/-- Non-vacuity: the example problem has `M = [[2,−1],[−1,2]]`, `r = (1,1)`. -/
example : exP.ncoef = 2 ∧ Mf exP 0 0 = 2 ∧ Mf exP 0 1 = -1 ∧ Mf exP 1 0 = -1 ∧ Mf exP 1 1 = 2
    ∧ rf exP 0 = 1 ∧ rf exP 1 = 1 :=
  ⟨exP_ncoef, exP_M00, exP_M01, exP_M10, exP_M11, exP_r0, exP_r1⟩

/-! ## 2. the objective is the quadratic `cᵀMc − 2rᵀc + Σ_r w_r z_r²` -/

/-- The penalty `Σ_d λ_d Σ (p_d-th derivative coefficients of the lines along d)²` is the quadratic form
of `Σ_d λ_d K_dᵀK_d` (for every problem, every `N`). -/
theorem penalty_as_quadratic (ds : List (Dim α)) (ls : List α) (ps : List Nat) (N : Nat) (c : Nat → α) :
    penaltySum ds ls ps N c = quad N (penaltyGram ds ls ps N) c := penaltySum_eq_quad ds ls ps N c

/-- For every problem `P` (no well-formedness needed) and every coefficient vector `c` the objective of
`PsV/Spec/Fit.lean` equals `cᵀMc − 2rᵀc + Σ_r w_r z_r²` with `M = specM P`, `r = specR P`. -/
theorem objective_as_quadratic (P : FitProblem α) (c : Nat → α) :
    objective P c
      = quad P.ncoef (Mf P) c - 2 * dot P.ncoef (rf P) c
        + ∑ r ∈ Finset.range P.rows.size, rowW P r * rowZ P r ^ 2 := objective_eq_fullObj P c

/-- The quadratic form of the normal matrix is the homogeneous part of the objective,
`vᵀMv = Σ_r w_r (Bv)_r² + Σ_d λ_d ‖K_d v‖²` (so `PosDef` says: no non-zero spline of the space has both
zero weighted data norm and zero penalty). -/
theorem normal_matrix_quadratic_form (P : FitProblem α) (v : Nat → α) :
    quad P.ncoef (Mf P) v
      = ∑ r ∈ Finset.range P.rows.size,
          rowW P r * (∑ i ∈ Finset.range P.ncoef, designEntry P r i * v i) ^ 2
        + penaltySum P.dims P.smooth P.porder P.ncoef v := quad_Mf P v

/-- Non-vacuity: for the example problem the objective is `(1−c₀)² + (1−c₁)² + (c₁−c₀)²` (two data of
weight 1 at the nodes, the datum of weight 0 absent, first-difference penalty). -/
example (c : Nat → Rat) : objective exP c = (1 - c 0) ^ 2 + (1 - c 1) ^ 2 + (c 1 - c 0) ^ 2 := by
  rw [objective_as_quadratic, exP_quad]
  have hk : ∑ r ∈ Finset.range exP.rows.size, rowW exP r * rowZ exP r ^ 2 = 2 := by decide +kernel
  rw [hk, exP_ncoef]
  simp only [dot, Finset.sum_range_succ, Finset.sum_range_zero, exP_r0, exP_r1]
  ring

/-! ## 3. the solution of the normal equations is the unique minimiser -/

/-- If the normal matrix is positive definite, then `c` solves `M c = r` iff `c` minimises the objective,
and the minimiser is unique on `[0,N)`. -/
theorem C09_fit_is_minimiser (P : FitProblem α) (c : Nat → α) (hP : PosDef P.ncoef (Mf P)) :
    ((∀ i < P.ncoef, mulVec P.ncoef (Mf P) c i = rf P i) ↔ ∀ c' : Nat → α, objective P c ≤ objective P c')
    ∧ ((∀ i < P.ncoef, mulVec P.ncoef (Mf P) c i = rf P i) →
        ∀ c' : Nat → α, objective P c' ≤ objective P c → ∀ i < P.ncoef, c' i = c i) := by
  refine ⟨?_, ?_⟩
  · rw [normal_eq_minimises_full (objConst P) (specM_symm P) hP]
    exact forall_congr' (fun c' => by rw [objective_eq_fullObj P c, objective_eq_fullObj P c'])
  · intro hN c' hle
    rw [objective_eq_fullObj P c, objective_eq_fullObj P c', objective_shift] at hle
    exact minimiser_unique (specM_symm P) hP hN hle

/-- Non-vacuity: the example normal matrix is positive definite, `c = (1,1)` solves the normal equations,
so it minimises the objective. -/
example : PosDef exP.ncoef (Mf exP) ∧ (∀ i < exP.ncoef, mulVec exP.ncoef (Mf exP) (fun _ => 1) i = rf exP i)
    ∧ ∀ c' : Nat → Rat, objective exP (fun _ => 1) ≤ objective exP c' :=
  ⟨exP_posDef, exP_normal, ((C09_fit_is_minimiser exP _ exP_posDef).1).1 exP_normal⟩

/-! ## 3b. when the normal matrix is positive definite; existence of the minimiser -/

/-- **Characterisation.**  Weights and smoothing strengths non-negative: the normal matrix is positive definite iff the
only coefficient vector whose spline vanishes at every datum of non-zero weight (`fitVal P v r = Σ_i B[r,i] v_i = 0`) and
on which every penalty term with `λ_d ≠ 0` vanishes is the zero vector.  (Replaces the per-instance elimination of the
driver as the *reason* for well-posedness; the driver's pivots remain a per-instance check.) -/
theorem normal_matrix_posDef_iff (P : FitProblem α) (hw : ∀ r < P.rows.size, 0 ≤ rowW P r)
    (hl : ∀ l ∈ P.smooth, 0 ≤ l) :
    PosDef P.ncoef (Mf P) ↔
      ∀ v : Nat → α, (∀ r < P.rows.size, rowW P r ≠ 0 → fitVal P v r = 0) →
        PenaltyVanishes P.dims P.smooth P.porder P.ncoef v → ∀ i < P.ncoef, v i = 0 :=
  posDef_iff_trivial_kernel P hw hl

/-- **Sufficient condition.**  `BᵀWB + Σ_d λ_d K_dᵀK_d` is positive definite when the weights are non-negative and
positive on a set `S` of data rows on which the design matrix has full column rank, and `λ_d ≥ 0` (penalty PSD). -/
theorem normal_matrix_posDef_of_full_rank (P : FitProblem α) (hw : ∀ r < P.rows.size, 0 ≤ rowW P r)
    (hl : ∀ l ∈ P.smooth, 0 ≤ l) (S : Nat → Prop) (hS : ∀ r, S r → r < P.rows.size ∧ 0 < rowW P r)
    (hrank : ∀ v : Nat → α, (∀ r, S r → fitVal P v r = 0) → ∀ i < P.ncoef, v i = 0) :
    PosDef P.ncoef (Mf P) := posDef_of_full_rank P hw hl S hS hrank

/-- A positive-definite system of normal equations has a solution (finite dimension: injective ⇒ surjective). -/
theorem normal_eq_solvable (P : FitProblem α) (hP : PosDef P.ncoef (Mf P)) :
    ∃ c : Nat → α, ∀ i < P.ncoef, mulVec P.ncoef (Mf P) c i = rf P i := posDef_solvable hP (rf P)

/-- **Well-posed problems have exactly one minimiser, and it is the solution of the normal equations.**  Under the
sufficient condition above there is a coefficient vector `c` with `M c = r`; it minimises the penalised weighted
least-squares objective of the property, and every minimiser agrees with it on `[0, N)`. -/
theorem C09_wellposed_unique_minimiser (P : FitProblem α) (hw : ∀ r < P.rows.size, 0 ≤ rowW P r)
    (hl : ∀ l ∈ P.smooth, 0 ≤ l) (S : Nat → Prop) (hS : ∀ r, S r → r < P.rows.size ∧ 0 < rowW P r)
    (hrank : ∀ v : Nat → α, (∀ r, S r → fitVal P v r = 0) → ∀ i < P.ncoef, v i = 0) :
    ∃ c : Nat → α, (∀ i < P.ncoef, mulVec P.ncoef (Mf P) c i = rf P i)
      ∧ (∀ c' : Nat → α, objective P c ≤ objective P c')
      ∧ ∀ c' : Nat → α, objective P c' ≤ objective P c → ∀ i < P.ncoef, c' i = c i := by
  have hP := posDef_of_full_rank P hw hl S hS hrank
  obtain ⟨c, hc⟩ := posDef_solvable hP (rf P)
  exact ⟨c, hc, ((C09_fit_is_minimiser P c hP).1).1 hc, (C09_fit_is_minimiser P c hP).2 hc⟩

/-- Non-vacuity: in `exP` the weights are `1, 1, 0`, `λ = 1`, and on the rows `S = {0, 1}` the design matrix is the
2 × 2 identity, so it has full column rank there. -/
example : (∀ r < exP.rows.size, 0 ≤ rowW exP r) ∧ (∀ l ∈ exP.smooth, 0 ≤ l)
    ∧ (∀ r, (r = 0 ∨ r = 1) → r < exP.rows.size ∧ 0 < rowW exP r)
    ∧ (∀ v : Nat → Rat, (∀ r, (r = 0 ∨ r = 1) → fitVal exP v r = 0) → ∀ i < exP.ncoef, v i = 0) := by
  have e00 : designEntry exP 0 0 = 1 := by decide +kernel
  have e01 : designEntry exP 0 1 = 0 := by decide +kernel
  have e10 : designEntry exP 1 0 = 0 := by decide +kernel
  have e11 : designEntry exP 1 1 = 1 := by decide +kernel
  refine ⟨?_, ?_, ?_, ?_⟩
  · intro r hr
    have hr' : r < 3 := hr
    have : r = 0 ∨ r = 1 ∨ r = 2 := by omega
    rcases this with rfl | rfl | rfl <;> decide +kernel
  · intro l hl
    have : l = 1 := by simpa [exP] using hl
    rw [this]; norm_num
  · rintro r (rfl | rfl) <;> exact ⟨by decide, by decide +kernel⟩
  · intro v hv i hi
    rw [exP_ncoef] at hi
    have h0 := hv 0 (Or.inl rfl)
    have h1 := hv 1 (Or.inr rfl)
    simp only [fitVal, exP_ncoef, Finset.sum_range_succ, Finset.sum_range_zero, e00, e01, e10, e11] at h0 h1
    have : i = 0 ∨ i = 1 := by omega
    rcases this with rfl | rfl
    · linarith
    · linarith

/-- **The driver's verdict is a certificate.**  `psvdriver C09` classifies a generated problem as well-posed when the exact
elimination `specFit P = solveSPD (specM P) (specR P)` (no pivoting, stops at the first non-positive pivot) succeeds.
If it succeeds the normal matrix IS positive definite (completing the square along the Schur complements), so every
theorem of this file that assumes `PosDef` applies to every instance the check judges. -/
theorem specFit_certifies_posDef (P : FitProblem α) (c : Array α) (h : specFit P = some c) :
    PosDef P.ncoef (Mf P) := specFit_posDef P c h

/-- Non-vacuity: the elimination succeeds on `exP`. -/
example : ∃ c, specFit exP = some c := by
  have h : (specFit exP).isSome = true := by decide +kernel
  exact Option.isSome_iff_exists.1 h

/-! ## 4. data of weight zero are irrelevant -/

/-- Dropping the data rows with `w = 0` changes neither the normal matrix, nor the right-hand side, nor
the objective. -/
theorem zero_weight_irrelevant (P : FitProblem α) :
    let P' : FitProblem α := { P with rows := P.rows.filter (fun row => !isZero row.w) }
    P'.ncoef = P.ncoef ∧ (∀ i < P.ncoef, ∀ j < P.ncoef, Mf P' i j = Mf P i j)
      ∧ (∀ i < P.ncoef, rf P' i = rf P i) ∧ ∀ c : Nat → α, objective P' c = objective P c :=
  rowsEquiv_same P _ (rowsEquiv_filter P)

/-- Non-vacuity: the example problem has three data rows, one of weight 0 (with `z = 5`, off the fit). -/
example : exP.rows.size = 3 ∧ (exP.rows.filter (fun row => !isZero row.w)).size = 2 := by
  decide +kernel

/-! ## 5. the order of the data rows is irrelevant -/

/-- Permuting the data rows changes neither the normal matrix, nor the right-hand side, nor the objective. -/
theorem perm_invariant (P P' : FitProblem α) (hd : P'.dims = P.dims) (hc : P'.coords = P.coords)
    (hs : P'.smooth = P.smooth) (hp : P'.porder = P.porder)
    (hperm : P'.rows.toList.Perm P.rows.toList) :
    P'.ncoef = P.ncoef ∧ (∀ i < P.ncoef, ∀ j < P.ncoef, Mf P' i j = Mf P i j)
      ∧ (∀ i < P.ncoef, rf P' i = rf P i) ∧ ∀ c : Nat → α, objective P' c = objective P c :=
  rowsEquiv_same P P' (rowsEquiv_perm P P' hd hc hs hp hperm)

/-- Non-vacuity: `exPperm` is `exP` with the first two data rows exchanged. -/
example : exPperm.dims = exP.dims ∧ exPperm.coords = exP.coords ∧ exPperm.smooth = exP.smooth
    ∧ exPperm.porder = exP.porder ∧ exPperm.rows.toList.Perm exP.rows.toList :=
  ⟨rfl, rfl, rfl, rfl, List.Perm.swap _ _ _⟩

/-! ## 6. data generated by a spline of the space are reproduced -/

/-- Without smoothing (`λ_d = 0` in every dimension) data generated by a spline on the same knots (at
every datum of non-zero weight) make that spline's coefficients a solution of the normal equations: the
fit is the weighted least-squares projection. -/
theorem reproduces_spline (P : FitProblem α) (c0 : Nat → α) (hl : ∀ l ∈ P.smooth, l = 0)
    (hz : ∀ r < P.rows.size, rowW P r ≠ 0 →
      rowZ P r = ∑ i ∈ Finset.range P.ncoef, designEntry P r i * c0 i) :
    ∀ i < P.ncoef, mulVec P.ncoef (Mf P) c0 i = rf P i :=
  normal_eq_of_generated P c0 hz (penaltyVanishes_of_all_zero _ _ _ _ _ hl)

/-- … and when the normal matrix is positive definite it is the unique minimiser. -/
theorem lambda0_projection (P : FitProblem α) (c0 : Nat → α) (hl : ∀ l ∈ P.smooth, l = 0)
    (hz : ∀ r < P.rows.size, rowW P r ≠ 0 →
      rowZ P r = ∑ i ∈ Finset.range P.ncoef, designEntry P r i * c0 i)
    (hP : PosDef P.ncoef (Mf P)) :
    (∀ c' : Nat → α, objective P c0 ≤ objective P c')
      ∧ ∀ c' : Nat → α, objective P c' ≤ objective P c0 → ∀ i < P.ncoef, c' i = c0 i :=
  have hN := reproduces_spline P c0 hl hz
  ⟨((C09_fit_is_minimiser P c0 hP).1).1 hN, (C09_fit_is_minimiser P c0 hP).2 hN⟩

/-- Non-vacuity: `exP0` (= `exP` with `λ = 0`) has data generated by `c0 = (1,1)` at the data of
non-zero weight. -/
example : (∀ l ∈ exP0.smooth, l = 0) ∧ ∀ r < exP0.rows.size, rowW exP0 r ≠ 0 →
    rowZ exP0 r = ∑ i ∈ Finset.range exP0.ncoef, designEntry exP0 r i * (fun _ => (1 : Rat)) i := by
  decide +kernel

/-- Data generated by `c0`, and in every dimension either `λ_d = 0` or every row of `K_d` vanishes on
`c0` (`PenaltyVanishes`): then `c0` solves the normal equations, for every smoothing strength. -/
theorem penalty_free_data_reproduced (P : FitProblem α) (c0 : Nat → α)
    (hz : ∀ r < P.rows.size, rowW P r ≠ 0 →
      rowZ P r = ∑ i ∈ Finset.range P.ncoef, designEntry P r i * c0 i)
    (hpen : PenaltyVanishes P.dims P.smooth P.porder P.ncoef c0) :
    ∀ i < P.ncoef, mulVec P.ncoef (Mf P) c0 i = rf P i :=
  normal_eq_of_generated P c0 hz hpen

/-- `PenaltyVanishes` written out for one more dimension. -/
theorem penaltyVanishes_cons (d : Dim α) (ds : List (Dim α)) (l : α) (ls : List α) (p : Nat)
    (ps : List Nat) (N : Nat) (c : Nat → α) :
    PenaltyVanishes (d :: ds) (l :: ls) (p :: ps) N c ↔
      (l = 0 ∨ ∀ q < (N / (d.naxes * d.stride)) * (d.naxes - p) * d.stride,
          ∑ i ∈ Finset.range N, penaltyRow d.knots d.order p d.naxes d.stride q i * c i = 0)
        ∧ PenaltyVanishes ds ls ps N c := Iff.rfl

/-- Full statement wanted: *data that are a polynomial of degree below the penalty order in every
dimension are reproduced for every smoothing strength.*  Proved here: if the data are generated by `c0`
and the `p_d`-th derivative coefficients (`derivCoef`) of every line of `c0` along every dimension `d`
vanish (`DerivVanishes`), then `c0` solves the normal equations whatever `P.smooth` is (hence is the
unique minimiser when `M` is positive definite, by `C09_fit_is_minimiser`).
Missing for the polynomial statement (Marsden's identity): (a) a polynomial of degree `< p_d ≤ order_d`
in every variable has a B-spline coefficient vector `c0` on the knots of `P` (on the fully supported range),
and (b) the `p_d`-th derivative coefficients of that `c0` are all zero.
Both are discharged below: first for degree ≤ 1 in each variable with the Greville abscissae
(`poly_below_penalty_reproduced`, `poly_sum_below_penalty_reproduced`, `constant_data_reproduced`), then for every degree
(`poly_any_degree_below_penalty_reproduced`, Marsden's identity).  This theorem is kept: the full ones are its corollaries. -/
theorem poly_below_penalty_reproduced_partial (P : FitProblem α) (c0 : Nat → α)
    (hz : ∀ r < P.rows.size, rowW P r ≠ 0 →
      rowZ P r = ∑ i ∈ Finset.range P.ncoef, designEntry P r i * c0 i)
    (hder : DerivVanishes P.dims P.porder P.ncoef c0) :
    ∀ i < P.ncoef, mulVec P.ncoef (Mf P) c0 i = rf P i :=
  normal_eq_of_generated P c0 hz (penaltyVanishes_of_deriv _ _ _ _ _ hder)

/-! ### polynomial data: the hypothesis of the partial theorem discharged for degrees 0 and 1 per variable -/

/-- **Polynomial data of degree below the penalty order are reproduced for every smoothing strength** — proved for
products of affine factors `z = Π_d (a_d + b_d x_d)` (degree ≤ 1 in each variable; `qs = [(a_d, b_d)]`).
Hypotheses: C-ordered strides; one coordinate vector and one penalty order per dimension; sorted knots (repeated knots
allowed); in every dimension the degree of the factor is below the penalty order (`PolyDegOK`: `b_d = 0 ∧ p_d ≥ 1`, or
`p_d ≥ 2`, `order_d ≥ 1` and no interior knot of multiplicity `order_d`); every datum of non-zero weight lies in the fully
supported range `Π_d [knots_d[order_d], knots_d[naxes_d])` and carries the polynomial's value (`PolyData`).
Conclusion: the explicit coefficient vector `polyCoef P.dims qs`, `c_i = Π_d (a_d + b_d ξ_{d,i_d})` with `ξ` the Greville
abscissae, solves the normal equations whatever `P.smooth` is — no existence hypothesis left (partition of unity
`Bind_sum_one`, linear precision `Bind_sum_greville`, factorisation of the Kronecker sum `sum_compProd`, vanishing
derivative coefficients `derivCoef_const`, `derivCoef_affine`, `derivVanishes_compProd`). -/
theorem poly_below_penalty_reproduced (P : FitProblem α) (qs : List (α × α))
    (hst : StridesRowMajor P.dims) (hc : P.coords.length = P.dims.length) (hq : qs.length = P.dims.length)
    (hp : P.porder.length = P.dims.length) (hsorted : KnotsSorted P.dims)
    (hdeg : PolyDegOK P.dims qs P.porder) (hz : PolyData P qs) :
    ∀ i < P.ncoef, mulVec P.ncoef (Mf P) (polyCoef P.dims qs) i = rf P i :=
  poly_below_penalty_reproduced_partial P (polyCoef P.dims qs)
    (polyData_generated P qs hst hc hq hsorted (ordOK_of_degOK P.dims qs P.porder hq hp hdeg) hz)
    (derivVanishes_polyCoef P.dims qs P.porder P.ncoef hst hdeg)

/-- … and for finite sums of such products, i.e. for **every polynomial of degree ≤ 1 in each variable** whose degree in
`x_d` is below `p_d` (a polynomial of coordinate degree ≤ 1 is a sum of products of affine factors). -/
theorem poly_sum_below_penalty_reproduced (P : FitProblem α) (terms : List (List (α × α)))
    (hst : StridesRowMajor P.dims) (hc : P.coords.length = P.dims.length)
    (hp : P.porder.length = P.dims.length) (hsorted : KnotsSorted P.dims)
    (hterms : ∀ qs ∈ terms, qs.length = P.dims.length ∧ PolyDegOK P.dims qs P.porder)
    (hz : PolyDataSum P terms) :
    ∀ i < P.ncoef, mulVec P.ncoef (Mf P) (polyCoefSum P.dims terms) i = rf P i :=
  poly_below_penalty_reproduced_partial P (polyCoefSum P.dims terms)
    (polyDataSum_generated P terms hst hc hp hsorted hterms hz)
    (derivVanishes_polyCoefSum P.dims terms P.porder P.ncoef hst (fun qs h => (hterms qs h).2))

/-- Degree 0 spelled out: constant data `z = a` (at the data of non-zero weight, inside the fully supported range) with
every penalty order at least 1 are reproduced by the constant coefficient vector, for every smoothing strength. -/
theorem constant_data_reproduced (P : FitProblem α) (a : α) (hne : P.dims ≠ [])
    (hst : StridesRowMajor P.dims) (hc : P.coords.length = P.dims.length)
    (hp : P.porder.length = P.dims.length) (hsorted : KnotsSorted P.dims) (hp1 : ∀ p ∈ P.porder, 1 ≤ p)
    (hz : ∀ r < P.rows.size, rowW P r ≠ 0 →
      ∃ xs, rowPoint P r = some xs ∧ InSupport P.dims xs ∧ rowZ P r = a) :
    ∀ i < P.ncoef, mulVec P.ncoef (Mf P) (fun _ => a) i = rf P i := by
  have hfun : polyCoef P.dims (constQs P.dims a) = fun _ => a := by
    funext i; exact polyCoef_constQs P.dims hne a i
  rw [← hfun]
  refine poly_below_penalty_reproduced P (constQs P.dims a) hst hc (constQs_length _ _) hp hsorted
    (polyDegOK_constQs P.dims a P.porder hp1) ?_
  intro r hr hw
  obtain ⟨xs, h1, h2, h3⟩ := hz r hr hw
  refine ⟨xs, h1, h2, ?_⟩
  rw [h3, polyVal_constQs P.dims hne a xs (by rw [rowPoint_length P r xs h1, hc])]

/-- … hence, when the normal matrix is positive definite, the fit of polynomial data is that polynomial's coefficient
vector: it is the unique minimiser (for every smoothing strength). -/
theorem poly_below_penalty_unique_minimiser (P : FitProblem α) (qs : List (α × α))
    (hst : StridesRowMajor P.dims) (hc : P.coords.length = P.dims.length) (hq : qs.length = P.dims.length)
    (hp : P.porder.length = P.dims.length) (hsorted : KnotsSorted P.dims)
    (hdeg : PolyDegOK P.dims qs P.porder) (hz : PolyData P qs) (hP : PosDef P.ncoef (Mf P)) :
    (∀ c' : Nat → α, objective P (polyCoef P.dims qs) ≤ objective P c')
      ∧ ∀ c' : Nat → α, objective P c' ≤ objective P (polyCoef P.dims qs) →
          ∀ i < P.ncoef, c' i = polyCoef P.dims qs i :=
  have hN := poly_below_penalty_reproduced P qs hst hc hq hp hsorted hdeg hz
  ⟨((C09_fit_is_minimiser P _ hP).1).1 hN, (C09_fit_is_minimiser P _ hP).2 hN⟩

/-- Non-vacuity: `polyP` — two dimensions, orders 2 × 1, 3 × 2 coefficients, penalty order 2 and `λ = (3, 1/2)`, four data
on the polynomial `(1 + 2x)(3 − y)` inside the fully supported range plus one datum of weight 0 off it — satisfies every
hypothesis; so `c_i = (1 + 2ξ_{i_0})(3 − η_{i_1})` solves its normal equations. -/
example : StridesRowMajor polyP.dims ∧ polyP.coords.length = polyP.dims.length
    ∧ polyQs.length = polyP.dims.length ∧ polyP.porder.length = polyP.dims.length ∧ KnotsSorted polyP.dims
    ∧ PolyDegOK polyP.dims polyQs polyP.porder ∧ PolyData polyP polyQs :=
  ⟨polyP_strides, rfl, rfl, rfl, polyP_sorted, polyP_degOK, polyP_data⟩

example : ∀ i < polyP.ncoef, mulVec polyP.ncoef (Mf polyP) (polyCoef polyP.dims polyQs) i = rf polyP i :=
  poly_below_penalty_reproduced polyP polyQs polyP_strides rfl rfl rfl polyP_sorted polyP_degOK polyP_data

/-- Non-vacuity (sum of products, constants): the same problem read as the sum of the two products
`(1 + 2x)·3` and `(1 + 2x)·(−y)`; and `exP` has constant data `z = 1`, penalty order 1. -/
example : (∀ qs ∈ [[((1 : Rat), (2 : Rat)), (3, 0)], [(1, 2), (0, -1)]],
      qs.length = polyP.dims.length ∧ PolyDegOK polyP.dims qs polyP.porder) := by
  intro qs hqs
  simp only [List.mem_cons, List.not_mem_nil, or_false] at hqs
  rcases hqs with rfl | rfl
  · exact ⟨rfl, polyP_degOK.1, Or.inl ⟨rfl, by decide⟩, trivial⟩
  · exact ⟨rfl, polyP_degOK.1, polyP_degOK.2.1, trivial⟩

example : exP.dims ≠ [] ∧ StridesRowMajor exP.dims ∧ exP.coords.length = exP.dims.length
    ∧ exP.porder.length = exP.dims.length ∧ (∀ p ∈ exP.porder, 1 ≤ p) := by
  refine ⟨by simp [exP], rfl, rfl, rfl, ?_⟩
  intro p hp
  have : p = 1 := by simpa [exP] using hp
  omega

/-- **Polynomial data of degree below the penalty order are reproduced for every smoothing strength — any degree.**
The data are values of `Σ_terms Π_d (Σ_j a_{d,j} x_d^j)` (`terms`: per term and dimension the list of monomial
coefficients; every polynomial is such a sum), each factor of degree `< p_d` and `≤ order_d` (`PolyDegOKG`, which also asks
that the knot spans the derivative recurrence divides by are non-degenerate: `knots[m+q+1] ≠ knots[m+order+1]` for
`q < p_d`, i.e. interior knots of multiplicity at most `order_d − p_d + 1`), at points of the fully supported range.
Then the explicit coefficient vector given by Marsden's identity, `c_i = Σ_terms Π_d Σ_j a_{d,j}·e_j(t_{i_d+1..i_d+order})/C(order, j)`
(`polyCoefGSum`), solves the normal equations whatever `P.smooth` is.  This is the full statement asked for beside
`poly_below_penalty_reproduced_partial`: Marsden's identity (`Bind_sum_monomial`) and the vanishing of the `p`-th derivative
coefficients of the dual coefficients of `x^j`, `j < p` (`derivCoef_monomial`), are theorems. -/
theorem poly_any_degree_below_penalty_reproduced (P : FitProblem α) (terms : List (List (List α)))
    (hst : StridesRowMajor P.dims) (hc : P.coords.length = P.dims.length)
    (hp : P.porder.length = P.dims.length) (hsorted : KnotsSorted P.dims)
    (hterms : ∀ ass ∈ terms, ass.length = P.dims.length ∧ PolyDegOKG P.dims ass P.porder)
    (hz : PolyDataG P terms) :
    ∀ i < P.ncoef, mulVec P.ncoef (Mf P) (polyCoefGSum P.dims terms) i = rf P i :=
  poly_below_penalty_reproduced_partial P (polyCoefGSum P.dims terms)
    (polyDataG_generated P terms hst hc hp hsorted hterms hz)
    (derivVanishes_polyCoefGSum P.dims terms P.porder P.ncoef hst (fun ass h => (hterms ass h).2))

/-- … and it is the unique minimiser when the normal matrix is positive definite. -/
theorem poly_any_degree_unique_minimiser (P : FitProblem α) (terms : List (List (List α)))
    (hst : StridesRowMajor P.dims) (hc : P.coords.length = P.dims.length)
    (hp : P.porder.length = P.dims.length) (hsorted : KnotsSorted P.dims)
    (hterms : ∀ ass ∈ terms, ass.length = P.dims.length ∧ PolyDegOKG P.dims ass P.porder)
    (hz : PolyDataG P terms) (hP : PosDef P.ncoef (Mf P)) :
    (∀ c' : Nat → α, objective P (polyCoefGSum P.dims terms) ≤ objective P c')
      ∧ ∀ c' : Nat → α, objective P c' ≤ objective P (polyCoefGSum P.dims terms) →
          ∀ i < P.ncoef, c' i = polyCoefGSum P.dims terms i :=
  have hN := poly_any_degree_below_penalty_reproduced P terms hst hc hp hsorted hterms hz
  ⟨((C09_fit_is_minimiser P _ hP).1).1 hN, (C09_fit_is_minimiser P _ hP).2 hN⟩

/-- Non-vacuity: `polyP2` — orders 3 × 1, 5 × 2 coefficients, penalty orders (3, 2), `λ = (2, 5)`, four data on
`x²(1 − y) + 3` inside the fully supported range `[3,5) × [1,2)` plus one datum of weight 0 off it — satisfies every
hypothesis. -/
example : StridesRowMajor polyP2.dims ∧ polyP2.coords.length = polyP2.dims.length
    ∧ polyP2.porder.length = polyP2.dims.length ∧ KnotsSorted polyP2.dims
    ∧ (∀ ass ∈ polyTerms2, ass.length = polyP2.dims.length ∧ PolyDegOKG polyP2.dims ass polyP2.porder)
    ∧ PolyDataG polyP2 polyTerms2 :=
  ⟨polyP2_strides, rfl, rfl, polyP2_sorted, polyP2_terms, polyP2_data⟩

/-- `DerivVanishes` written out for one more dimension. -/
theorem derivVanishes_cons (d : Dim α) (ds : List (Dim α)) (p : Nat) (ps : List Nat) (N : Nat)
    (c : Nat → α) :
    DerivVanishes (d :: ds) (p :: ps) N c ↔
      (∀ a < N / (d.naxes * d.stride), ∀ k < d.naxes - p, ∀ b < d.stride,
          derivCoef d.knots d.order p (fun m => c (a * d.naxes * d.stride + m * d.stride + b)) k = 0)
        ∧ DerivVanishes ds ps N c := Iff.rfl

/-- Non-vacuity: in `exP` (`λ = 1`, penalty order 1) the constant data `z = 1` (degree 0 < 1) at the data
of non-zero weight are generated by `c0 = (1,1)`, whose first-derivative coefficient vanishes. -/
example : (∀ r < exP.rows.size, rowW exP r ≠ 0 →
      rowZ exP r = ∑ i ∈ Finset.range exP.ncoef, designEntry exP r i * (fun _ => (1 : Rat)) i)
    ∧ DerivVanishes exP.dims exP.porder exP.ncoef (fun _ => (1 : Rat)) := by
  refine ⟨by decide +kernel, ?_⟩
  refine ⟨?_, trivial⟩
  intro a _ k _ b _
  simp [derivCoef, exDim, Arith.div, Arith.mul, Arith.sub]

/-! ## 7. the code's penalty matrix: `divided_diffs` produces the derivative coefficients -/

/-- `divided_diffs(order, p, j, knots, out)` of glam.c, applied to a coefficient vector, yields coefficient `j` of the
p-th derivative in the basis of order `order − p` (de Boor's recurrence `derivCoef`).  The code divides by
`delta = (t_{j+order+1} − t_{j+p})/(order − (p−1))`, the recurrence multiplies by `order − (p−1)` and divides by the knot
difference: the same number in every field, also when a knot difference vanishes (both are 0).  Hence `‖D c‖²` of the
code's finite-difference matrix IS the sum of squares of the B-spline coefficients of the p-th derivative: the scaling
of the code matches the statement of the property (no constant factor). -/
theorem penalty_dividedDiffs_eq_derivCoeffs (t : Int → α) (order p j : Nat) (c : Nat → α) :
    ∑ i ∈ Finset.range (p+1), (dividedDiffs t order p j).getD i 0 * c (j + i) = derivCoef t order p c j :=
  dividedDiffs_eq_derivCoeffs t order p j c

/-- row `r` of the `(n−p) × n` matrix `finitediff` of `calc_penalty` maps `c` to its p-th derivative coefficient `r`. -/
theorem finiteDiff_row_is_derivCoef (t : Int → α) (order p n r : Nat) (c : Nat → α) (hr : r < n - p) :
    ∑ c' ∈ Finset.range n, (finiteDiff t order p n).get r c' * c c' = derivCoef t order p c r :=
  finiteDiff_row t order p n r c hr

/-- one application of `derivCoef` gives `order·(c_{j+1} − c_j)/(t_{j+1+order} − t_{j+1})` … -/
theorem derivCoef_one_formula (t : Int → α) (n : Nat) (c : Nat → α) (j : Nat) :
    derivCoef t (n+1) 1 c j
      = ((n+1 : Nat) : α) * (c (j+1) - c j) / (t (((j : Int) + 1) + n + 1) - t ((j : Int) + 1)) :=
  derivCoef_one t n c j

/-- … and these are the coefficients of the derivative in the basis of order `n`: the derivative of `Σ_{i<N} c_i B_{i,n+1}`
(`Dind … 1`, the knot-difference formula of the evaluation spec) is `Σ_{j<N−1} c'_j B_{j+1,n}` plus two boundary terms
that involve only `B_{0,n}` and `B_{N,n}`, which vanish on the fully supported range `[t_{n+1}, t_N)`. -/
theorem derivCoef_is_derivative (ind : Int → Bool) (t : Int → α) (x : α) (n : Nat) (c : Nat → α)
    (N : Nat) (hN : 1 ≤ N) :
    ∑ i ∈ Finset.range N, c i * Dind ind t x 1 (n+1) (i : Int)
      = ∑ j ∈ Finset.range (N-1), derivCoef t (n+1) 1 c j * Bind ind t x n ((j : Int) + 1)
        + c 0 * ((n+1 : Nat) : α) * Bind ind t x n 0 / (t ((n : Int) + 1) - t 0)
        - c (N-1) * ((n+1 : Nat) : α) * Bind ind t x n (N : Int) / (t ((N : Int) + n + 1) - t (N : Int)) :=
  derivCoef_one_is_derivative ind t x n c N hN

/-- non-vacuity: the weights for uniform knots are the familiar `[1, -2, 1]`. -/
example : dividedDiffs (fun i => (i : Rat)) 3 2 0 = [1, -2, 1] := by
  simp [dividedDiffs, Arith.div, Arith.sub, Arith.neg, Arith.ofNat, Arith.one, Arith.zero]; norm_num

/-! ## 8. the normal equations characterise the minimiser (any size) -/

/-- `M` symmetric positive definite: `M c = r` ⇔ `c` minimises `½cᵀMc − rᵀc`; the minimiser is unique. -/
theorem normal_eq_minimises {n : Nat} {M : Nat → Nat → α} {r c : Nat → α} (hS : Symm n M) (hP : PosDef n M) :
    ((∀ i < n, mulVec n M c i = r i) ↔ (∀ c' : Nat → α, halfObj n M r c ≤ halfObj n M r c'))
    ∧ ((∀ i < n, mulVec n M c i = r i) → ∀ c' : Nat → α, halfObj n M r c' ≤ halfObj n M r c → ∀ i < n, c' i = c i) :=
  ⟨NormalEq.normal_eq_minimises hS hP, fun h _ hle => NormalEq.minimiser_unique hS hP h hle⟩

example : Symm 2 NormalEq.M2 := by
  intro i _ j _
  simp [NormalEq.M2, eq_comm]

end
end PsV
