import PsV.Proofs.FitsWrite
import PsV.Proofs.FitsBytes
/-!
# C08 — interrupted or failing writes never pass as success or load as another table

Property theorems only.  Part 1: control flow of the writer (`PsV.C08.writeFits` etc., the definitions the driver
executes against the step traces observed in the real code; `writeFits`/`writeFitsMem` are the code with
`fixes/C08-1.diff`, `C08-2.diff` and `C08-3.diff` applied).
-/
namespace PsV
open PsV.C08

/-- C08 (control flow, repaired `write_fits`): reported success ⇒ the calls made are exactly create, every call of
    `write_fits_core`, close — and every one of them, including the close, succeeded. -/
theorem C08_success_implies_all_ok (sh : Shape) (env : Env)
    (h : (writeFits sh env).outcome = .success) :
    (writeFits sh env).trace = (fullSteps .init sh).map (fun s => (s, true)) ∧
    ∀ j, j < (fullSteps .init sh).length → env j = true := by
  unfold writeFits writeFitsOn at h ⊢
  by_cases h0 : env 0 = true
  · simp only [h0, Bool.not_true, Bool.false_eq_true, if_false] at h ⊢
    by_cases hc : (runCore env (coreSteps sh) 1).1 = true
    · obtain ⟨ht, ha⟩ := runCore_ok env _ 1 hc
      simp only [hc, if_true] at h ⊢
      by_cases hn : env (1 + (runCore env (coreSteps sh) 1).2.length) = true
      · simp only [hn, if_true]
        refine ⟨by simp [fullSteps, ht], ?_⟩
        intro j hj
        simp only [fullSteps, List.length_cons, List.length_append, List.length_nil] at hj
        rcases Nat.lt_or_ge j 1 with h1 | h1
        · have : j = 0 := by omega
          subst this; exact h0
        · rcases Nat.lt_or_ge (j-1) (coreSteps sh).length with h2 | h2
          · have := ha (j-1) h2
            have e : 1 + (j - 1) = j := by omega
            rw [e] at this; exact this
          · have e : j = 1 + (runCore env (coreSteps sh) 1).2.length := by
              rw [ht, List.length_map]; omega
            rw [e]; exact hn
      · simp only [hn] at h; exact absurd h (by simp)
    · simp only [hc] at h; exact absurd h (by simp)
  · simp only [h0] at h; exact absurd h (by simp)

example : (writeFits ⟨2, true, 1, true⟩ (fun _ => true)).outcome = .success := by decide

/-- The same for the repaired `write_fits_mem`. -/
theorem C08_mem_success_implies_all_ok (sh : Shape) (env : Env)
    (h : (writeFitsMem sh env).outcome = .success) :
    (writeFitsMem sh env).trace = (fullSteps .imem sh).map (fun s => (s, true)) ∧
    ∀ j, j < (fullSteps .imem sh).length → env j = true := by
  unfold writeFitsMem writeFitsMemOn at h ⊢
  by_cases h0 : env 0 = true
  · simp only [h0, Bool.not_true, Bool.false_eq_true, if_false] at h ⊢
    by_cases hc : (runCore env (coreSteps sh) 1).1 = true
    · obtain ⟨ht, ha⟩ := runCore_ok env _ 1 hc
      simp only [hc, if_true] at h ⊢
      by_cases hn : env (1 + (runCore env (coreSteps sh) 1).2.length) = true
      · simp only [hn]
        refine ⟨by simp [fullSteps, ht], ?_⟩
        intro j hj
        simp only [fullSteps, List.length_cons, List.length_append, List.length_nil] at hj
        rcases Nat.lt_or_ge j 1 with h1 | h1
        · have : j = 0 := by omega
          subst this; exact h0
        · rcases Nat.lt_or_ge (j-1) (coreSteps sh).length with h2 | h2
          · have := ha (j-1) h2
            have e : 1 + (j - 1) = j := by omega
            rw [e] at this; exact this
          · have e : j = 1 + (runCore env (coreSteps sh) 1).2.length := by
              rw [ht, List.length_map]; omega
            rw [e]; exact hn
      · simp only [hn] at h; exact absurd h (by simp)
    · simp only [hc] at h; exact absurd h (by simp)
  · simp only [h0] at h; exact absurd h (by simp)

example : (writeFitsMem ⟨1, false, 0, false⟩ (fun _ => true)).outcome = .success := by decide

/-- The C wrapper returns 0 only for non-null arguments and a write all of whose calls succeeded. -/
theorem C08_cwrapper_zero_implies_all_ok (argsOk : Bool) (sh : Shape) (env : Env)
    (h : (cWrapper argsOk (writeFits sh env)).1 = 0) :
    argsOk = true ∧ (cWrapper argsOk (writeFits sh env)).2 = (fullSteps .init sh).map (fun s => (s, true)) ∧
    ∀ j, j < (fullSteps .init sh).length → env j = true := by
  unfold cWrapper at h ⊢
  cases argsOk with
  | false => simp at h
  | true =>
    simp only [Bool.not_true, Bool.false_eq_true, if_false] at h ⊢
    cases ho : (writeFits sh env).outcome with
    | failure => rw [ho] at h; simp at h
    | success =>
      obtain ⟨a, b⟩ := C08_success_implies_all_ok sh env ho
      exact ⟨trivial, a, b⟩

example : (cWrapper true (writeFits ⟨3, true, 0, true⟩ (fun _ => true))).1 = 0 := by decide

/-- The defect in the code as found: a failing close (where buffered data reaches the file) is swallowed.
    1-d table with periods and extents: 13 calls, the close is call 12. -/
theorem C08_close_error_swallowed :
    ∃ sh env, (writeFitsOld sh env).outcome = .success ∧ (Step.clos, false) ∈ (writeFitsOld sh env).trace :=
  ⟨⟨1, true, 0, true⟩, fun i => i != 12, by decide, by decide⟩

/-- … and the repaired control flow reports that very environment as a failure and removes the file. -/
theorem C08_close_error_reported :
    (writeFits ⟨1, true, 0, true⟩ (fun i => i != 12)).outcome = .failure ∧
    (Step.remove, true) ∈ (writeFits ⟨1, true, 0, true⟩ (fun i => i != 12)).trace := by decide

/-- C08 (call order of the repaired `write_fits_core`): every key of a header is written before any pixel data.
    cfitsio therefore never has to insert a header block in front of data which are already in the file — the one
    place where it drops I/O errors (`ffiblk` treats every status of its copy loop as end-of-file): with the order as
    found a failing `fwrite` during that shifting was reported as success and the file loaded as a different table. -/
theorem C08_keys_before_data (sh : Shape) (i j : Nat)
    (hi : (coreSteps sh)[i]? = some .ppx) (hj : (coreSteps sh)[j]? = some .pky) : j < i := by
  obtain ⟨pre, post, e, h1, h2⟩ : ∃ pre post, coreSteps sh = pre ++ post ∧ Step.ppx ∉ pre ∧ Step.pky ∉ post := by
    refine ⟨[.crim, .pky] ++ List.replicate sh.ndim .pky ++ (if sh.hasPeriods then List.replicate sh.ndim .pky else [])
              ++ List.replicate sh.naux .pky,
            [.ppx] ++ (List.replicate sh.ndim [Step.crim, .uky, .ppx]).flatten
              ++ (if sh.hasExtents then [.crim, .uky, .ppx] else []), ?_, ?_, ?_⟩
    · simp only [coreSteps, List.append_assoc]
    · cases sh.hasPeriods <;> simp [List.mem_replicate]
    · cases sh.hasExtents <;> simp [List.mem_replicate]
  rw [e] at hi hj
  by_cases hjl : j < pre.length
  · by_cases hil : i < pre.length
    · rw [List.getElem?_append_left hil] at hi
      exact absurd (List.mem_of_getElem? hi) h1
    · omega
  · rw [List.getElem?_append_right (by omega)] at hj
    exact absurd (List.mem_of_getElem? hj) h2

example : (coreSteps ⟨2, true, 1, false⟩)[7]? = some .ppx ∧ (coreSteps ⟨2, true, 1, false⟩)[6]? = some .pky := by decide

/-- … which the call order as found violates: 1-d table, the coefficients (call 1) precede `TYPE` and `ORDER0`. -/
theorem C08_keys_after_data_as_found :
    ∃ (sh : Shape) (i j : Nat), i < j ∧ (coreStepsDataFirst sh)[i]? = some Step.ppx ∧
      (coreStepsDataFirst sh)[j]? = some Step.pky :=
  ⟨⟨1, false, 0, false⟩, 1, 2, by decide, by decide, by decide⟩

/-! Part 2: bytes.  `PsV.C08.encode` is compared byte for byte with the file cfitsio writes, `PsV.C08.readBytes`
    verdict for verdict with the real reader on every crash-state file, on every run. -/

/-- C08 (reader): whatever orders, axes, coefficients and knots the reader extracts from a truncated file, it extracts
    exactly the same from every extension of that file — for *arbitrary* bytes, not only for encodings.  The reader
    never takes end-of-file for data: an incomplete header means "no such HDU", incomplete data blocks mean failure. -/
theorem C08_reader_prefix_stable (bs : Bytes) (n : Nat) (c : Core)
    (h : readCoreBytes (bs.take n) = some c) : readCoreBytes bs = some c :=
  readCoreBytes_prefix (List.take_prefix n bs) c h

/- Full statement of C08_prefix_safe:
     ∀ t (wf : t well-formed: ndim ≥ 1, matching lengths, values in range, extra cards not named END/ORDERn/NAXISn/…) n,
       readBytes ((encode t).take n) = none ∨ ∃ v, readBytes ((encode t).take n) = some v ∧ v.core = t.core
   Proved below with the round trip `readCoreBytes (encode t) = some t.core` as a hypothesis instead of deriving it
   from well-formedness (missing: the card-level round-trip lemmas — decimal formatting of values and of the index in
   ORDERn/NAXISn/KNOTSn names, and `cardsOf ∘ flatten`).  The hypothesis is evaluated by the driver for every table the
   check generates (`rt=1`, a test) and proved for the instance `tinyTable` below. -/
/-- C08 (crash safety of the file format as written): every byte prefix of the file of a table that round-trips is
    either rejected or loads with orders, axes, coefficients and knots equal to the table's. -/
theorem C08_prefix_safe_partial (t : Table) (n : Nat) (hrt : readCoreBytes (encode t) = some t.core) :
    readBytes ((encode t).take n) = none ∨
    ∃ v, readBytes ((encode t).take n) = some v ∧ v.core = t.core := by
  cases hv : readBytes ((encode t).take n) with
  | none => exact Or.inl rfl
  | some v =>
    refine Or.inr ⟨v, rfl, ?_⟩
    have h1 : readCoreBytes ((encode t).take n) = some v.core := readTable_core hv
    have h2 := C08_reader_prefix_stable (encode t) n v.core h1
    rw [hrt] at h2
    exact (Option.some.inj h2).symm

/-- smallest table: one dimension, order 0, two knots (1.0, 2.0: finite, increasing, `2 = 2·order+2`), one coefficient
    (`1 = nknots − order − 1`), extents -/
def tinyTable : Table :=
  ⟨[0], [1], [1065353216], [[4607182418800017408, 4611686018427387904]], some [4607182418800017408, 4611686018427387904], []⟩

set_option maxRecDepth 100000 in
/-- the round-trip hypothesis holds for `tinyTable` (kernel evaluation of encoder and reader on its 17 280 bytes) -/
theorem C08_roundtrip_instance : readCoreBytes (encode tinyTable) = some tinyTable.core := by decide

set_option maxRecDepth 100000 in
/-- hypotheses of `C08_reader_prefix_stable` are satisfiable: the file cut after the knot HDU (no `EXTENTS`) loads -/
example : readCoreBytes ((encode tinyTable).take 11520) = some tinyTable.core := by decide

/-! The reader's validation (`/repo` 6b9ba04) is part of `readCoreBytes`: it is not vacuous — -/
set_option maxRecDepth 100000 in
/-- the file of `tinyTable` with its two knots exchanged (2.0, 1.0: decreasing) is rejected, -/
example : readCoreBytes (encode { tinyTable with knots := [[4611686018427387904, 4607182418800017408]] }) = none := by decide
set_option maxRecDepth 100000 in
/-- and so is the file which declares order 1 for the same two knots and one coefficient (`nknots < 2·order+2`). -/
example : readCoreBytes (encode { tinyTable with orders := [1] }) = none := by decide
/-- binary64 patterns: NaN and ±∞ are not finite, the largest finite number is; `-0.0` and `+0.0` are equal,
    `-1.0 < -0.0`, the smallest negative subnormal is below `+0.0`, `1.0 < 2.0`. -/
example : dblFinite 0x7ff8000000000000 = false ∧ dblFinite 0x7ff0000000000000 = false ∧ dblFinite 0xfff0000000000000 = false ∧
    dblFinite 0x7ff0000000000001 = false ∧ dblFinite 0x7fefffffffffffff = true ∧ dblFinite 0 = true ∧
    dblLt 0x8000000000000000 0 = false ∧ dblLt 0 0x8000000000000000 = false ∧ dblLt 0xbff0000000000000 0x8000000000000000 = true ∧
    dblLt 0x8000000000000001 0 = true ∧ dblLt 0x3ff0000000000000 0x4000000000000000 = true ∧
    dblLt 0x4000000000000000 0x3ff0000000000000 = false := by decide

/-- C08_prefix_safe, full strength, for `tinyTable`: every byte prefix is rejected or loads equal. -/
theorem C08_prefix_safe_tiny (n : Nat) :
    readBytes ((encode tinyTable).take n) = none ∨
    ∃ v, readBytes ((encode tinyTable).take n) = some v ∧ v.core = tinyTable.core :=
  C08_prefix_safe_partial tinyTable n C08_roundtrip_instance

end PsV
