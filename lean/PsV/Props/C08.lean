import PsV.Proofs.FitsWrite
import PsV.Proofs.FitsBytes
import PsV.Proofs.FitsRoundTrip
import PsV.Proofs.FitsCrash
/-!
# C08 — interrupted or failing writes never pass as success or load as another table

Property theorems only.  Part 1: control flow of the writer (`PsV.C08.writeFits` etc., the definitions the driver
executes against the step traces observed in the real code; `writeFits`/`writeFitsMem` are the code with
`fixes/C08-1.diff`, `C08-2.diff` and `C08-3.diff` applied).
-/
namespace PsV
open PsV.C08

/-- C08 (control flow, repaired `write_fits`): reported success ⇒ the calls made are exactly create, every call of
    `write_fits_core`, close — and every one of them, including the close, succeeded. -/
theorem C08_success_implies_all_ok (sh : Shape) (env : Env)
    (h : (writeFits sh env).outcome = .success) :
    (writeFits sh env).trace = (fullSteps .init sh).map (fun s => (s, true)) ∧
    ∀ j, j < (fullSteps .init sh).length → env j = true := by
  unfold writeFits writeFitsOn at h ⊢
  by_cases h0 : env 0 = true
  · simp only [h0, Bool.not_true, Bool.false_eq_true, if_false] at h ⊢
    by_cases hc : (runCore env (coreSteps sh) 1).1 = true
    · obtain ⟨ht, ha⟩ := runCore_ok env _ 1 hc
      simp only [hc, if_true] at h ⊢
      by_cases hn : env (1 + (runCore env (coreSteps sh) 1).2.length) = true
      · simp only [hn, if_true]
        refine ⟨by simp [fullSteps, ht], ?_⟩
        intro j hj
        simp only [fullSteps, List.length_cons, List.length_append, List.length_nil] at hj
        rcases Nat.lt_or_ge j 1 with h1 | h1
        · have : j = 0 := by omega
          subst this; exact h0
        · rcases Nat.lt_or_ge (j-1) (coreSteps sh).length with h2 | h2
          · have := ha (j-1) h2
            have e : 1 + (j - 1) = j := by omega
            rw [e] at this; exact this
          · have e : j = 1 + (runCore env (coreSteps sh) 1).2.length := by
              rw [ht, List.length_map]; omega
            rw [e]; exact hn
      · simp only [hn] at h; exact absurd h (by simp)
    · simp only [hc] at h; exact absurd h (by simp)
  · simp only [h0] at h; exact absurd h (by simp)

example : (writeFits ⟨2, true, 1, true⟩ (fun _ => true)).outcome = .success := by decide

/-- The same for the repaired `write_fits_mem`. -/
theorem C08_mem_success_implies_all_ok (sh : Shape) (env : Env)
    (h : (writeFitsMem sh env).outcome = .success) :
    (writeFitsMem sh env).trace = (fullSteps .imem sh).map (fun s => (s, true)) ∧
    ∀ j, j < (fullSteps .imem sh).length → env j = true := by
  unfold writeFitsMem writeFitsMemOn at h ⊢
  by_cases h0 : env 0 = true
  · simp only [h0, Bool.not_true, Bool.false_eq_true, if_false] at h ⊢
    by_cases hc : (runCore env (coreSteps sh) 1).1 = true
    · obtain ⟨ht, ha⟩ := runCore_ok env _ 1 hc
      simp only [hc, if_true] at h ⊢
      by_cases hn : env (1 + (runCore env (coreSteps sh) 1).2.length) = true
      · simp only [hn]
        refine ⟨by simp [fullSteps, ht], ?_⟩
        intro j hj
        simp only [fullSteps, List.length_cons, List.length_append, List.length_nil] at hj
        rcases Nat.lt_or_ge j 1 with h1 | h1
        · have : j = 0 := by omega
          subst this; exact h0
        · rcases Nat.lt_or_ge (j-1) (coreSteps sh).length with h2 | h2
          · have := ha (j-1) h2
            have e : 1 + (j - 1) = j := by omega
            rw [e] at this; exact this
          · have e : j = 1 + (runCore env (coreSteps sh) 1).2.length := by
              rw [ht, List.length_map]; omega
            rw [e]; exact hn
      · simp only [hn] at h; exact absurd h (by simp)
    · simp only [hc] at h; exact absurd h (by simp)
  · simp only [h0] at h; exact absurd h (by simp)

example : (writeFitsMem ⟨1, false, 0, false⟩ (fun _ => true)).outcome = .success := by decide

/-- The C wrapper returns 0 only for non-null arguments and a write all of whose calls succeeded. -/
theorem C08_cwrapper_zero_implies_all_ok (argsOk : Bool) (sh : Shape) (env : Env)
    (h : (cWrapper argsOk (writeFits sh env)).1 = 0) :
    argsOk = true ∧ (cWrapper argsOk (writeFits sh env)).2 = (fullSteps .init sh).map (fun s => (s, true)) ∧
    ∀ j, j < (fullSteps .init sh).length → env j = true := by
  unfold cWrapper at h ⊢
  cases argsOk with
  | false => simp at h
  | true =>
    simp only [Bool.not_true, Bool.false_eq_true, if_false] at h ⊢
    cases ho : (writeFits sh env).outcome with
    | failure => rw [ho] at h; simp at h
    | success =>
      obtain ⟨a, b⟩ := C08_success_implies_all_ok sh env ho
      exact ⟨trivial, a, b⟩

example : (cWrapper true (writeFits ⟨3, true, 0, true⟩ (fun _ => true))).1 = 0 := by decide

/-- The defect in the code as found: a failing close (where buffered data reaches the file) is swallowed.
    1-d table with periods and extents: 13 calls, the close is call 12. -/
theorem C08_close_error_swallowed :
    ∃ sh env, (writeFitsOld sh env).outcome = .success ∧ (Step.clos, false) ∈ (writeFitsOld sh env).trace :=
  ⟨⟨1, true, 0, true⟩, fun i => i != 12, by decide, by decide⟩

/-- … and the repaired control flow reports that very environment as a failure and removes the file. -/
theorem C08_close_error_reported :
    (writeFits ⟨1, true, 0, true⟩ (fun i => i != 12)).outcome = .failure ∧
    (Step.remove, true) ∈ (writeFits ⟨1, true, 0, true⟩ (fun i => i != 12)).trace := by decide

/-- C08 (call order of the repaired `write_fits_core`): every key of a header is written before any pixel data.
    cfitsio therefore never has to insert a header block in front of data which are already in the file — the one
    place where it drops I/O errors (`ffiblk` treats every status of its copy loop as end-of-file): with the order as
    found a failing `fwrite` during that shifting was reported as success and the file loaded as a different table. -/
theorem C08_keys_before_data (sh : Shape) (i j : Nat)
    (hi : (coreSteps sh)[i]? = some .ppx) (hj : (coreSteps sh)[j]? = some .pky) : j < i := by
  obtain ⟨pre, post, e, h1, h2⟩ : ∃ pre post, coreSteps sh = pre ++ post ∧ Step.ppx ∉ pre ∧ Step.pky ∉ post := by
    refine ⟨[.crim, .pky] ++ List.replicate sh.ndim .pky ++ (if sh.hasPeriods then List.replicate sh.ndim .pky else [])
              ++ List.replicate sh.naux .pky,
            [.ppx] ++ (List.replicate sh.ndim [Step.crim, .uky, .ppx]).flatten
              ++ (if sh.hasExtents then [.crim, .uky, .ppx] else []), ?_, ?_, ?_⟩
    · simp only [coreSteps, List.append_assoc]
    · cases sh.hasPeriods <;> simp [List.mem_replicate]
    · cases sh.hasExtents <;> simp [List.mem_replicate]
  rw [e] at hi hj
  by_cases hjl : j < pre.length
  · by_cases hil : i < pre.length
    · rw [List.getElem?_append_left hil] at hi
      exact absurd (List.mem_of_getElem? hi) h1
    · omega
  · rw [List.getElem?_append_right (by omega)] at hj
    exact absurd (List.mem_of_getElem? hj) h2

example : (coreSteps ⟨2, true, 1, false⟩)[7]? = some .ppx ∧ (coreSteps ⟨2, true, 1, false⟩)[6]? = some .pky := by decide

/-- … which the call order as found violates: 1-d table, the coefficients (call 1) precede `TYPE` and `ORDER0`. -/
theorem C08_keys_after_data_as_found :
    ∃ (sh : Shape) (i j : Nat), i < j ∧ (coreStepsDataFirst sh)[i]? = some Step.ppx ∧
      (coreStepsDataFirst sh)[j]? = some Step.pky :=
  ⟨⟨1, false, 0, false⟩, 1, 2, by decide, by decide, by decide⟩

/-! Part 2: bytes.  `PsV.C08.encode` is compared byte for byte with the file cfitsio writes, `PsV.C08.readBytes`
    verdict for verdict with the real reader on every crash-state file, on every run. -/

/-- C08 (reader): whatever orders, axes, coefficients and knots the reader extracts from a truncated file, it extracts
    exactly the same from every extension of that file — for *arbitrary* bytes, not only for encodings.  The reader
    never takes end-of-file for data: an incomplete header means "no such HDU", incomplete data blocks mean failure. -/
theorem C08_reader_prefix_stable (bs : Bytes) (n : Nat) (c : Core)
    (h : readCoreBytes (bs.take n) = some c) : readCoreBytes bs = some c :=
  readCoreBytes_prefix (List.take_prefix n bs) c h

/- Full statement of C08_prefix_safe:
     ∀ t (wf : t well-formed: ndim ≥ 1, matching lengths, values in range, extra cards not named END/ORDER/EXTNAME) n,
       readBytes ((encode t).take n) = none ∨ ∃ v, readBytes ((encode t).take n) = some v ∧ v.core = t.core
   It is proved in Part 3 below (`C08_prefix_safe`, with `C08_roundtrip` for every table satisfying `Table.wf`).  The
   version with the round trip `readCoreBytes (encode t) = some t.core` as a hypothesis is kept: it is the step from
   the round trip to prefix safety, and `C08_prefix_safe` is its corollary. -/
/-- C08 (crash safety of the file format as written): every byte prefix of the file of a table that round-trips is
    either rejected or loads with orders, axes, coefficients and knots equal to the table's. -/
theorem C08_prefix_safe_partial (t : Table) (n : Nat) (hrt : readCoreBytes (encode t) = some t.core) :
    readBytes ((encode t).take n) = none ∨
    ∃ v, readBytes ((encode t).take n) = some v ∧ v.core = t.core := by
  cases hv : readBytes ((encode t).take n) with
  | none => exact Or.inl rfl
  | some v =>
    refine Or.inr ⟨v, rfl, ?_⟩
    have h1 : readCoreBytes ((encode t).take n) = some v.core := readTable_core hv
    have h2 := C08_reader_prefix_stable (encode t) n v.core h1
    rw [hrt] at h2
    exact (Option.some.inj h2).symm

/-- smallest table: one dimension, order 0, two knots (1.0, 2.0: finite, increasing, `2 = 2·order+2`), one coefficient
    (`1 = nknots − order − 1`), extents -/
def tinyTable : Table :=
  ⟨[0], [1], [1065353216], [[4607182418800017408, 4611686018427387904]], some [4607182418800017408, 4611686018427387904], []⟩

set_option maxRecDepth 100000 in
/-- the round-trip hypothesis holds for `tinyTable` (kernel evaluation of encoder and reader on its 17 280 bytes) -/
theorem C08_roundtrip_instance : readCoreBytes (encode tinyTable) = some tinyTable.core := by decide

set_option maxRecDepth 100000 in
/-- hypotheses of `C08_reader_prefix_stable` are satisfiable: the file cut after the knot HDU (no `EXTENTS`) loads -/
example : readCoreBytes ((encode tinyTable).take 11520) = some tinyTable.core := by decide

/-! The reader's validation (`/repo` 6b9ba04) is part of `readCoreBytes`: it is not vacuous — -/
set_option maxRecDepth 100000 in
/-- the file of `tinyTable` with its two knots exchanged (2.0, 1.0: decreasing) is rejected, -/
example : readCoreBytes (encode { tinyTable with knots := [[4611686018427387904, 4607182418800017408]] }) = none := by decide
set_option maxRecDepth 100000 in
/-- and so is the file which declares order 1 for the same two knots and one coefficient (`nknots < 2·order+2`). -/
example : readCoreBytes (encode { tinyTable with orders := [1] }) = none := by decide
/-- binary64 patterns: NaN and ±∞ are not finite, the largest finite number is; `-0.0` and `+0.0` are equal,
    `-1.0 < -0.0`, the smallest negative subnormal is below `+0.0`, `1.0 < 2.0`. -/
example : dblFinite 0x7ff8000000000000 = false ∧ dblFinite 0x7ff0000000000000 = false ∧ dblFinite 0xfff0000000000000 = false ∧
    dblFinite 0x7ff0000000000001 = false ∧ dblFinite 0x7fefffffffffffff = true ∧ dblFinite 0 = true ∧
    dblLt 0x8000000000000000 0 = false ∧ dblLt 0 0x8000000000000000 = false ∧ dblLt 0xbff0000000000000 0x8000000000000000 = true ∧
    dblLt 0x8000000000000001 0 = true ∧ dblLt 0x3ff0000000000000 0x4000000000000000 = true ∧
    dblLt 0x4000000000000000 0x3ff0000000000000 = false := by decide

/-- C08_prefix_safe, full strength, for `tinyTable`: every byte prefix is rejected or loads equal. -/
theorem C08_prefix_safe_tiny (n : Nat) :
    readBytes ((encode tinyTable).take n) = none ∨
    ∃ v, readBytes ((encode tinyTable).take n) = some v ∧ v.core = tinyTable.core :=
  C08_prefix_safe_partial tinyTable n C08_roundtrip_instance

/-! Part 3: the round trip for *every* well-formed table, and with it the unconditional prefix safety.
    `Table.wf` (Model/FitsBytes.lean, executable: the driver evaluates it on every generated table, `wf=1`) is what
    `write_fits` can be handed: 1 ≤ ndim ≤ 999, per dimension `nknots ≥ 2·order+2`, `naxes = nknots − order − 1`, knots
    finite and non-decreasing, as many coefficients as the axes say, values within their C types, extra cards 80
    columns wide and not called `END`, `ORDER` or `EXTNAME`. -/

/-- C08 (round trip, all tables): the reader extracts from the file the encoder writes for a well-formed table exactly
    the table's orders, axes, coefficients and knots.  Structural: header blocks → cards → look-ups by key
    (`NAXISn`/`ORDERn`/`KNOTSn` are pairwise different because decimal numerals are injective), fixed-format integers
    and big-endian words parse back, the reader's validation (`countsOk`, `knotsValid`) is implied by `wf`. -/
theorem C08_roundtrip (t : Table) (h : t.wf = true) : readCoreBytes (encode t) = some t.core := roundtrip t h

example : tinyTable.wf = true := by decide

/-- a 2-d table (orders 1 and 0; knots 0,0,1,1 and 1,2; two coefficients) with a `PERIOD0` card, no extents -/
def twoDimTable : Table :=
  ⟨[1, 0], [2, 1], [1065353216, 3212836864], [[0, 0, 4607182418800017408, 4607182418800017408],
    [4607182418800017408, 4611686018427387904]], none, [cardRaw "PERIOD0 =                   0."]⟩
example : twoDimTable.wf = true := by decide

/-- … and `read_fits_core` as a whole (extents included) accepts that file and returns the table. -/
theorem C08_write_reads_back (t : Table) (h : t.wf = true) : ∃ v, readBytes (encode t) = some v ∧ v.core = t.core :=
  readBytes_encode t h

set_option maxRecDepth 10000 in
/-- `wf` is not vacuous the other way either: a bare `ORDER` key among the aux cards makes the reader take it for the
    order of every dimension (the file of such a table is rejected or loads differently) — hence excluded. -/
example : ({ tinyTable with extraCards := [cardRaw "ORDER   = '3       '"] } : Table).wf = false := by decide

/-- **C08_prefix_safe, full strength**: every byte prefix of the file of a well-formed table is rejected or loads with
    orders, axes, coefficients and knots equal to the table's.  (Supersedes `C08_prefix_safe_partial`: the round trip
    is no longer a hypothesis.) -/
theorem C08_prefix_safe (t : Table) (h : t.wf = true) (n : Nat) :
    readBytes ((encode t).take n) = none ∨
    ∃ v, readBytes ((encode t).take n) = some v ∧ v.core = t.core :=
  C08_prefix_safe_partial t n (C08_roundtrip t h)

/-! Part 4: every failure path of the repaired writer, with the file system (`Model/FitsCrash.lean`): the calls made
    issue libc operations — *any* operations (`World.io` is arbitrary: cfitsio's buffering is not modelled), each of
    which may fail or write short — and `fits_create_file("!…")`, `fits_delete_file`, `remove` create and delete the
    file.  `diskAfter` is the state of the file name when `write_fits` has returned. -/

/-- C08 (error propagation): any call that reports an error — whichever, including the close and the clean-up calls —
    makes `write_fits` report a failure. -/
theorem C08_failing_call_is_reported (sh : Shape) (env : Env) (c : Step × Bool)
    (hc : c ∈ (writeFits sh env).trace) (hf : c.2 = false) : (writeFits sh env).outcome = .failure :=
  failing_call_reported (coreSteps sh) env c hc hf

example : (Step.ppx, false) ∈ (writeFits ⟨1, true, 0, true⟩ (fun i => i != 5)).trace := by decide

/-- C08 (libc faults): under cfitsio's contract `Surfaces` (a failing write or close inside a call makes that call or a
    later one report an error; observed on every fault-injection run) a failing `fwrite` (no space, size limit, short
    write) or `fclose` inside any call made — whatever else was written before or after — ends in a reported failure. -/
theorem C08_write_fault_is_reported (sh : Shape) (w : World) (hs : Surfaces w (writeFits sh w.env).trace)
    (j : Nat) (hj : j < (writeFits sh w.env).trace.length) (o : IoOp) (ho : o ∈ w.io j) (hbad : o.bad = true) :
    (writeFits sh w.env).outcome = .failure :=
  bad_op_reported (coreSteps sh) w hs j hj o ho hbad

/-- a world for the examples: a 1-d table without periods/extents (9 calls, the close is call 8); everything is written
    inside the close; the second write fails after 7 bytes (short write, no space) and the close reports it -/
def exampleWorld : World :=
  ⟨fun i => i != 8,
   fun j => if j = 8 then [⟨.pwrite 0 [1, 2, 3], true, 0⟩, ⟨.pwrite 3 (List.replicate 20 9), false, 7⟩, ⟨.close, true, 0⟩] else [],
   false, false⟩

example : (∃ o ∈ exampleWorld.io 8, o.bad = true) ∧ 8 < (writeFits ⟨1, false, 0, false⟩ exampleWorld.env).trace.length ∧
    (writeFits ⟨1, false, 0, false⟩ exampleWorld.env).outcome = .failure ∧
    diskAfter (coreSteps ⟨1, false, 0, false⟩) exampleWorld (some [42]) = none := by decide

/-- the contract holds in that world (the short write happens inside the close, which reports it) -/
example : Surfaces exampleWorld (writeFits ⟨1, false, 0, false⟩ exampleWorld.env).trace := by
  intro j _ ⟨o, ho, _⟩
  have hj8 : j = 8 := by
    by_cases h : j = 8
    · exact h
    · simp [exampleWorld, h] at ho
  subst hj8
  exact ⟨8, Nat.le_refl _, .clos, by decide⟩

/-- C08 (what a failed write leaves, all operation logs): when `write_fits` reports a failure, no file of that name is
    left behind, or — only when creating the file failed — the file which was there before is untouched, unless the
    clean-up call (`fits_delete_file` after a failing `write_fits_core`, `remove` after a failing close) failed too. -/
theorem C08_failure_leaves_no_file (sh : Shape) (w : World) (prev : Option Bytes)
    (h : (writeFits sh w.env).outcome = .failure) :
    diskAfter (coreSteps sh) w prev = none ∨
    ((writeFits sh w.env).trace = [(.init, false)] ∧ diskAfter (coreSteps sh) w prev = prev) ∨
    (Step.delt, false) ∈ (writeFits sh w.env).trace ∨ (Step.remove, false) ∈ (writeFits sh w.env).trace :=
  failure_disk (coreSteps sh) (coreSteps_plain sh) w prev h

/-- **C08 (every single fault)**: if exactly one call of a run reports an error — any call, on any operation log, with
    any failing or short libc operations behind it — then `write_fits` reports a failure, and a reader of that file
    name afterwards finds no file (rejects) or, when it was the create that failed, possibly the untouched previous
    file: never a table made of what this write left behind. -/
theorem C08_single_fault_leaves_no_other_table (sh : Shape) (w : World) (prev : Option Bytes)
    (h1 : failures (writeFits sh w.env).trace = 1) :
    (writeFits sh w.env).outcome = .failure ∧
    (diskAfter (coreSteps sh) w prev = none ∨ diskAfter (coreSteps sh) w prev = prev) ∧
    (readDisk (diskAfter (coreSteps sh) w prev) = none ∨ readDisk (diskAfter (coreSteps sh) w prev) = readDisk prev) := by
  have hfail : (writeFits sh w.env).outcome = .failure := by
    have hne : (writeFits sh w.env).trace.filter (fun c => !c.2) ≠ [] := by
      intro e; unfold failures at h1; rw [e] at h1; exact absurd h1 (by simp)
    obtain ⟨c, hc⟩ := List.exists_mem_of_ne_nil _ hne
    obtain ⟨hc1, hc2⟩ := List.mem_filter.1 hc
    exact C08_failing_call_is_reported sh w.env c hc1 (by simpa using hc2)
  have hclean := single_failure (coreSteps sh) (coreSteps_plain sh) w.env (Nat.le_of_eq h1)
  have hd : diskAfter (coreSteps sh) w prev = none ∨ diskAfter (coreSteps sh) w prev = prev := by
    rcases C08_failure_leaves_no_file sh w prev hfail with h | ⟨_, h⟩ | h | h
    · exact Or.inl h
    · exact Or.inr h
    · exact absurd h hclean.1
    · exact absurd h hclean.2
  refine ⟨hfail, hd, ?_⟩
  rcases hd with h | h
  · left; rw [h]; rfl
  · right; rw [h]

example : failures (writeFits ⟨1, false, 0, false⟩ exampleWorld.env).trace = 1 := by decide

/-- The hypothesis "one failing call" cannot be dropped (a limit of the code, not of the proof): with *two* faults — a
    write that fails while later writes of the same flush succeed, and a `remove` that fails afterwards — `write_fits`
    reports the failure but a file with a hole stays behind, which is not a prefix of the complete file (here
    `1,2,3,0,0,6` instead of `1,2,3,4,5,6`); when the hole lies in the coefficient data, such a file loads as a
    different table (the zeroed-block files of the check: `coverage.hole_states`).  Outside the property's quantifier
    (a single failing operation). -/
theorem C08_two_faults_limit :
    ∃ w : World, failures (writeFits ⟨1, false, 0, false⟩ w.env).trace = 2 ∧
      (writeFits ⟨1, false, 0, false⟩ w.env).outcome = .failure ∧
      diskAfter (coreSteps ⟨1, false, 0, false⟩) w none = some [1, 2, 3, 0, 0, 6] ∧
      diskAfter (coreSteps ⟨1, false, 0, false⟩) ⟨fun _ => true, fun j => (w.io j).map fun o => { o with ok := true }, false, false⟩ none
        = some [1, 2, 3, 4, 5, 6] :=
  ⟨⟨fun i => i != 8 && i != 9,
    fun j => if j = 8 then [⟨.pwrite 0 [1, 2, 3], true, 0⟩, ⟨.pwrite 3 [4, 5], false, 0⟩, ⟨.pwrite 5 [6], true, 0⟩, ⟨.close, true, 0⟩]
             else [],
    false, false⟩, by decide, by decide, by decide, by decide⟩

/-- C08 (success): under the contract `Surfaces` a reported success means that no write and no close failed in any
    call, and the file consists of everything the calls wrote; if that is the encoding of a well-formed table (tied
    byte for byte on every run), the file reads back equal to the table. -/
theorem C08_success_file_complete (sh : Shape) (w : World) (prev : Option Bytes)
    (hs : Surfaces w (writeFits sh w.env).trace) (h : (writeFits sh w.env).outcome = .success) :
    (∀ j, j < (writeFits sh w.env).trace.length → ∀ o ∈ w.io j, o.bad = false) ∧
    diskAfter (coreSteps sh) w prev = some ((ioRange w 0 (writeFits sh w.env).trace.length).foldl IoOp.apply []) ∧
    ∀ t : Table, t.wf = true → (ioRange w 0 (writeFits sh w.env).trace.length).foldl IoOp.apply [] = encode t →
      ∃ v, readDisk (diskAfter (coreSteps sh) w prev) = some v ∧ v.core = t.core := by
  have hdisk := success_disk (coreSteps sh) (coreSteps_plain sh) w prev h
  refine ⟨?_, hdisk, ?_⟩
  · intro j hj o ho
    cases hb : o.bad with
    | false => rfl
    | true =>
      have := C08_write_fault_is_reported sh w hs j hj o ho hb
      rw [h] at this; exact absurd this (by simp)
  · intro t ht hfile
    unfold writeFits at hdisk
    rw [hdisk]
    show ∃ v, readBytes _ = some v ∧ _
    unfold writeFits at hfile
    rw [hfile]
    exact C08_write_reads_back t ht

example : Surfaces ⟨fun _ => true, fun _ => [], false, false⟩ (writeFits ⟨1, false, 0, false⟩ (fun _ => true)).trace ∧
    (writeFits ⟨1, false, 0, false⟩ (fun _ => true)).outcome = .success :=
  ⟨fun j _ ⟨o, ho, _⟩ => absurd ho (by simp), by decide⟩

/-! Part 5: atomicity — what a crash can leave.  The writer does not write to a temporary name: it creates the file
    under its final name (removing the previous one) and cfitsio writes it front to back (`appendOnly`, evaluated by
    the driver on the operation log recorded for every generated table).  The invariant over prefixes of such a log:
    the file is always a byte prefix of the complete file.  So a crash leaves, under that name, nothing, or a file
    which is rejected or loads equal to the table being written — never a different table, but also not the previous
    table: old-or-new atomicity is *not* offered. -/

/-- C08 (invariant over operation-log prefixes): for a log that writes front to back (every write starts at the
    current end of the file), the file after any number of complete operations plus any number of bytes of the next
    one is a prefix of the complete file. -/
theorem C08_crash_states_are_prefixes (ops : List Op) (hao : appendOnly 0 ops = true) (k b : Nat) :
    crashState ops k b <+: applyOps [] ops := by
  rw [crashState_eq]
  exact crash_prefix ops [] k b hao

example : appendOnly 0 (sequentialOps 0 [1, 2, 3, 4, 5, 6, 7] [3, 2, 2]) = true ∧
    crashState (sequentialOps 0 [1, 2, 3, 4, 5, 6, 7] [3, 2, 2]) 1 1 = [1, 2, 3, 4] := by decide

/-- **C08 (crash safety)**: whatever prefix of the operations the writer issues for a well-formed table has reached the
    file — at operation or at byte granularity — the file is rejected or loads with orders, axes, coefficients and knots
    equal to the table's.  Hypotheses: the log writes front to back and its complete result is the table's encoding
    (both evaluated per run on the recorded log; the encoding is compared byte for byte with cfitsio's file). -/
theorem C08_crash_safe (t : Table) (h : t.wf = true) (ops : List Op) (hao : appendOnly 0 ops = true)
    (hfin : applyOps [] ops = encode t) (k b : Nat) :
    readBytes (crashState ops k b) = none ∨ ∃ v, readBytes (crashState ops k b) = some v ∧ v.core = t.core := by
  have hp := C08_crash_states_are_prefixes ops hao k b
  rw [hfin] at hp
  rw [List.prefix_iff_eq_take.1 hp]
  exact C08_prefix_safe t h _

example : appendOnly 0 [.pwrite 0 ((encode twoDimTable).take 2880), .flush,
      .pwrite ((encode twoDimTable).take 2880).length ((encode twoDimTable).drop 2880), .close] = true ∧
    applyOps [] [.pwrite 0 ((encode twoDimTable).take 2880), .flush,
      .pwrite ((encode twoDimTable).take 2880).length ((encode twoDimTable).drop 2880), .close] = encode twoDimTable := by
  have h : appendOnly 0 [.pwrite 0 ((encode twoDimTable).take 2880), .flush,
      .pwrite ((encode twoDimTable).take 2880).length ((encode twoDimTable).drop 2880), .close] = true := by
    simp [appendOnly]
  exact ⟨h, by rw [applyOps_appendOnly _ [] h]; simp [payload]⟩

/-- C08 (no old-or-new atomicity): once `fits_create_file` has returned, the table that was stored under that name
    before is gone — a crash right then leaves an empty file, which every reader rejects, whatever was there. -/
theorem C08_previous_table_is_not_preserved (w : World) (prev : Option Bytes) (h0 : w.io 0 = []) :
    readDisk (diskOfTrace w prev [(.init, true)] 0 prev) = none := by
  show readDisk (some ((w.io 0).foldl IoOp.apply [])) = none
  rw [h0, List.foldl_nil]
  show readTable (hdusOf []) = none
  unfold hdusOf
  rw [readHdus_nil]
  rfl

end PsV
