import PsV.Proofs.FitsWrite
/-!
# C08 — interrupted or failing writes never pass as success or load as another table

Property theorems only.  Part 1: control flow of the writer (`PsV.C08.writeFits` etc., the definitions the driver
executes against the step traces observed in the real code).
-/
namespace PsV
open PsV.C08

/-- C08 (control flow, repaired `write_fits`): reported success ⇒ the calls made are exactly create, every call of
    `write_fits_core`, close — and every one of them, including the close, succeeded. -/
theorem C08_success_implies_all_ok (sh : Shape) (env : Env)
    (h : (writeFits sh env).outcome = .success) :
    (writeFits sh env).trace = (fullSteps .init sh).map (fun s => (s, true)) ∧
    ∀ j, j < (fullSteps .init sh).length → env j = true := by
  unfold writeFits at h ⊢
  by_cases h0 : env 0 = true
  · simp only [h0, Bool.not_true, Bool.false_eq_true, if_false] at h ⊢
    by_cases hc : (runCore env (coreSteps sh) 1).1 = true
    · obtain ⟨ht, ha⟩ := runCore_ok env _ 1 hc
      simp only [hc, if_true] at h ⊢
      by_cases hn : env (1 + (runCore env (coreSteps sh) 1).2.length) = true
      · simp only [hn, if_true]
        refine ⟨by simp [fullSteps, ht], ?_⟩
        intro j hj
        simp only [fullSteps, List.length_cons, List.length_append, List.length_nil] at hj
        rcases Nat.lt_or_ge j 1 with h1 | h1
        · have : j = 0 := by omega
          subst this; exact h0
        · rcases Nat.lt_or_ge (j-1) (coreSteps sh).length with h2 | h2
          · have := ha (j-1) h2
            have e : 1 + (j - 1) = j := by omega
            rw [e] at this; exact this
          · have e : j = 1 + (runCore env (coreSteps sh) 1).2.length := by
              rw [ht, List.length_map]; omega
            rw [e]; exact hn
      · simp only [hn] at h; exact absurd h (by simp)
    · simp only [hc] at h; exact absurd h (by simp)
  · simp only [h0] at h; exact absurd h (by simp)

example : (writeFits ⟨2, true, 1, true⟩ (fun _ => true)).outcome = .success := by decide

/-- The same for the repaired `write_fits_mem`. -/
theorem C08_mem_success_implies_all_ok (sh : Shape) (env : Env)
    (h : (writeFitsMem sh env).outcome = .success) :
    (writeFitsMem sh env).trace = (fullSteps .imem sh).map (fun s => (s, true)) ∧
    ∀ j, j < (fullSteps .imem sh).length → env j = true := by
  unfold writeFitsMem at h ⊢
  by_cases h0 : env 0 = true
  · simp only [h0, Bool.not_true, Bool.false_eq_true, if_false] at h ⊢
    by_cases hc : (runCore env (coreSteps sh) 1).1 = true
    · obtain ⟨ht, ha⟩ := runCore_ok env _ 1 hc
      simp only [hc, if_true] at h ⊢
      by_cases hn : env (1 + (runCore env (coreSteps sh) 1).2.length) = true
      · simp only [hn]
        refine ⟨by simp [fullSteps, ht], ?_⟩
        intro j hj
        simp only [fullSteps, List.length_cons, List.length_append, List.length_nil] at hj
        rcases Nat.lt_or_ge j 1 with h1 | h1
        · have : j = 0 := by omega
          subst this; exact h0
        · rcases Nat.lt_or_ge (j-1) (coreSteps sh).length with h2 | h2
          · have := ha (j-1) h2
            have e : 1 + (j - 1) = j := by omega
            rw [e] at this; exact this
          · have e : j = 1 + (runCore env (coreSteps sh) 1).2.length := by
              rw [ht, List.length_map]; omega
            rw [e]; exact hn
      · simp only [hn] at h; exact absurd h (by simp)
    · simp only [hc] at h; exact absurd h (by simp)
  · simp only [h0] at h; exact absurd h (by simp)

example : (writeFitsMem ⟨1, false, 0, false⟩ (fun _ => true)).outcome = .success := by decide

/-- The C wrapper returns 0 only for non-null arguments and a write all of whose calls succeeded. -/
theorem C08_cwrapper_zero_implies_all_ok (argsOk : Bool) (sh : Shape) (env : Env)
    (h : (cWrapper argsOk (writeFits sh env)).1 = 0) :
    argsOk = true ∧ (cWrapper argsOk (writeFits sh env)).2 = (fullSteps .init sh).map (fun s => (s, true)) ∧
    ∀ j, j < (fullSteps .init sh).length → env j = true := by
  unfold cWrapper at h ⊢
  cases argsOk with
  | false => simp at h
  | true =>
    simp only [Bool.not_true, Bool.false_eq_true, if_false] at h ⊢
    cases ho : (writeFits sh env).outcome with
    | failure => rw [ho] at h; simp at h
    | success =>
      obtain ⟨a, b⟩ := C08_success_implies_all_ok sh env ho
      exact ⟨trivial, a, b⟩

example : (cWrapper true (writeFits ⟨3, true, 0, true⟩ (fun _ => true))).1 = 0 := by decide

/-- The defect in the code as found: a failing close (where buffered data reaches the file) is swallowed.
    1-d table with periods and extents: 13 calls, the close is call 12. -/
theorem C08_close_error_swallowed :
    ∃ sh env, (writeFitsOld sh env).outcome = .success ∧ (Step.clos, false) ∈ (writeFitsOld sh env).trace :=
  ⟨⟨1, true, 0, true⟩, fun i => i != 12, by decide, by decide⟩

/-- … and the repaired control flow reports that very environment as a failure and removes the file. -/
theorem C08_close_error_reported :
    (writeFits ⟨1, true, 0, true⟩ (fun i => i != 12)).outcome = .failure ∧
    (Step.remove, true) ∈ (writeFits ⟨1, true, 0, true⟩ (fun i => i != 12)).trace := by decide

end PsV
