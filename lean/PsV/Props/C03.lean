import PsV.Generated.Dispatch
import PsV.Proofs.Lanes
import PsV.Proofs.Odometer
import Mathlib.Algebra.BigOperators.Group.List.Defs
/-!
# C03 — the evaluation result is independent of the evaluation path selected

* `C03_dispatch_sound_*`: for **every** list of per-dimension orders (any length, any values) the
  routine pair that `get_evaluator` selects — according to the dispatch table *regenerated from the
  source on this run* — has template arguments that describe exactly that table (`Compat`), in both
  template modes.
* `C03_value_lane`, `C03_deriv_lane`: the value / derivative rows of the gradient code are,
  operation for operation, those of plain evaluation — for every arithmetic (`Arith` instance, no
  laws), hence bit-identical.
* `C03_generic_loop_is_walk`, `C03_templated_loop_is_generic`, `C03_selected_core_eq_generic`: the odometer
  loops as written (`while(true){chunk; if(++n==nchunks) break; advance}` of the generic core,
  `for(n<nchunks-1){chunk; advance} chunk` of the templated cores, carry loop and incremental
  `basis_tree` update included — `PsV.Model.Walk`) equal the nested block walk for every arithmetic,
  and the routine `get_evaluator` selects has the table's chunk count; so it computes, bit for bit,
  what the generic core computes.
The loop bodies are additionally compared bitwise in the real binary by the correspondence check (both
template modes, as-shipped and sanitizer flags).
-/
namespace PsV
open Dispatch

/-- what the labels of a table entry promise about its routines -/
def RoutineSound (e : Entry) : Routine → Prop
  | .generic => True
  | .coreD D => e.ndim = some D
  | .fixedOrder D O => e.ndim = some D ∧ e.constOrder = some O ∧ O ≠ 0
  | .knownOrder _ => False

instance (e : Entry) (r : Routine) : Decidable (RoutineSound e r) := by
  cases r <;> unfold RoutineSound <;> infer_instance

def EntrySound (e : Entry) : Prop := RoutineSound e e.scalar ∧ RoutineSound e e.vector
instance (e : Entry) : Decidable (EntrySound e) := by unfold EntrySound; infer_instance

def OverrideSound (o : Override) : Prop := o.scalar = .knownOrder o.orders ∧ o.vector = .knownOrder o.orders
instance (o : Override) : Decidable (OverrideSound o) := by unfold OverrideSound; infer_instance

theorem constOrder_all (orders : List Nat) (O : Nat) (h : constOrder orders = O) (hO : O ≠ 0) :
    ∀ o ∈ orders, o = O := by
  cases orders with
  | nil => intro o ho; simp at ho
  | cons a as =>
    simp only [constOrder] at h
    split at h
    · rename_i hall
      subst h
      intro o ho
      simp only [List.mem_cons] at ho
      rcases ho with rfl | ho
      · rfl
      · have := List.all_eq_true.mp hall o ho
        simpa using this
    · exact absurd h.symm hO

theorem select_spec (tbl : List Entry) (orders : List Nat) (e : Entry) (h : select tbl orders = some e) :
    e ∈ tbl ∧ (∀ D, e.ndim = some D → D = orders.length) ∧ (∀ O, e.constOrder = some O → O = constOrder orders) := by
  simp only [select] at h
  have hm := List.mem_of_find?_eq_some h
  have hp := List.find?_some h
  rw [List.mem_filter] at hm
  refine ⟨hm.1, ?_, ?_⟩
  · intro D hD
    rw [hD] at hp
    simpa [matchLabel] using hp
  · intro O hO
    have := hm.2
    rw [hO] at this
    simpa [matchLabel] using this

/-- generic soundness argument: a table whose entries and overrides are individually sound
selects only compatible routines, for every order list -/
theorem getEvaluator_compat (tbl : List Entry) (ovr : List Override)
    (htbl : ∀ e ∈ tbl, EntrySound e) (hovr : ∀ o ∈ ovr, OverrideSound o)
    (orders : List Nat) (s v : Routine) (h : getEvaluator tbl ovr orders = some (s, v)) :
    Compat orders s ∧ Compat orders v := by
  simp only [getEvaluator] at h
  split at h
  · rename_i o ho
    have hm := List.mem_of_find?_eq_some ho
    have hp := List.find?_some ho
    have heq : o.orders = orders := by simpa using hp
    obtain ⟨h1, h2⟩ := hovr o hm
    simp only [Option.some.injEq, Prod.mk.injEq] at h
    rw [← h.1, ← h.2, h1, h2]
    exact ⟨heq, heq⟩
  · cases hsel : select tbl orders with
    | none => rw [hsel] at h; simp at h
    | some e =>
      rw [hsel] at h
      simp only [Option.map_some, Option.some.injEq, Prod.mk.injEq] at h
      obtain ⟨hmem, hnd, hco⟩ := select_spec tbl orders e hsel
      obtain ⟨es, ev⟩ := htbl e hmem
      have key : ∀ r, RoutineSound e r → Compat orders r := by
        intro r hr
        cases r with
        | generic => trivial
        | coreD D => exact hnd D hr
        | fixedOrder D O =>
          obtain ⟨a, b, c⟩ := hr
          exact ⟨hnd D a, constOrder_all orders O (hco O b).symm c⟩
        | knownOrder os => exact hr.elim
      rw [← h.1, ← h.2]
      exact ⟨key _ es, key _ ev⟩

/-- **Dispatch soundness, templates enabled** (table generated from the current source). -/
theorem C03_dispatch_sound_templated (orders : List Nat) (s v : Routine)
    (h : getEvaluator Gen.templatedEntries Gen.templatedOverrides orders = some (s, v)) :
    Compat orders s ∧ Compat orders v :=
  getEvaluator_compat _ _ (by decide) (by decide) orders s v h

/-- **Dispatch soundness, `PHOTOSPLINE_NO_EVAL_TEMPLATES`.** -/
theorem C03_dispatch_sound_generic (orders : List Nat) (s v : Routine)
    (h : getEvaluator Gen.genericEntries Gen.genericOverrides orders = some (s, v)) :
    Compat orders s ∧ Compat orders v :=
  getEvaluator_compat _ _ (by decide) (by decide) orders s v h

/-- The gradient routines refuse exactly `ndim + 1 > PHOTOSPLINE_MAXDIM`, and the SIMD layout has room
for `maxDim` lanes (constants regenerated from simd.h). -/
theorem C03_gradient_capacity : Gen.nvecs * Gen.vectorSize = Gen.maxDim ∧ maxDimDefault = Gen.maxDim := by decide

/-- value lane of the gradient = plain value basis, for every arithmetic (order ≥ 1) -/
theorem C03_value_lane {α : Type} [Arith α] (t : Int → α) (nknots : Nat) (x : α) (left : Int) (n : Nat) (hn : n ≠ 0) :
    (bsplineNonzero t nknots x left n).1 = bsplvbSimple t nknots x left n :=
  bsplineNonzero_values t nknots x left n hn

/-- derivative lane of the gradient = single-derivative basis, for every arithmetic -/
theorem C03_deriv_lane {α : Type} [Arith α] (t : Int → α) (nknots : Nat) (x : α) (left : Int) (n : Nat) :
    (bsplineNonzero t nknots x left n).2 = bsplineDerivNonzero t nknots x left n :=
  bsplineNonzero_derivs t nknots x left n

/-- the generic core's loop, as written, is the nested block walk (any arithmetic) -/
theorem C03_generic_loop_is_walk {α : Type} [Arith α] (coef : Int → α) (ds : List (ODim α)) (last : List α) (start : Int) :
    coreGeneric coef ds last start =
      walk coef (ds.reverse.map rowOf ++ [(1, last)]) (Arith.rnd Arith.one) start (Arith.rnd Arith.zero) :=
  coreGeneric_eq_walk coef ds last start

/-- a templated core whose compile-time chunk count is the table's computes what the generic core computes -/
theorem C03_templated_loop_is_generic {α : Type} [Arith α] (coef : Int → α) (ds : List (ODim α)) (last : List α)
    (start : Int) (nchunks : Nat) (h : nchunks = nchunksOf ds) :
    coreTemplated coef ds last start nchunks = coreGeneric coef ds last start :=
  coreTemplated_eq_generic coef ds last start nchunks h

/-- chunk count a routine derives from its template arguments (`orders` = the table's, most significant first) -/
def templateChunks (orders : List Nat) : Routine → Nat
  | .generic => (orders.dropLast.map (· + 1)).prod
  | .coreD _ => (orders.dropLast.map (· + 1)).prod
  | .fixedOrder D O => (O + 1) ^ (D - 1)
  | .knownOrder os => (os.dropLast.map (· + 1)).prod

theorem nchunksOf_eq_prod {α : Type} : ∀ (ds : List (ODim α)),
    nchunksOf ds = (ds.reverse.map fun d => d.order + 1).prod := by
  intro ds
  induction ds with
  | nil => rfl
  | cons d R ih => simp [nchunksOf, ih, Nat.mul_comm]

theorem templateChunks_compat (orders : List Nat) (r : Routine) (h : Compat orders r) :
    templateChunks orders r = (orders.dropLast.map (· + 1)).prod := by
  cases r with
  | generic => rfl
  | coreD D => rfl
  | fixedOrder D O =>
    obtain ⟨hD, hO⟩ := h
    simp only [templateChunks]
    have : orders.dropLast.map (· + 1) = List.replicate (D - 1) (O + 1) := by
      apply List.eq_replicate_iff.mpr
      constructor
      · simp [hD]
      · intro b hb
        simp only [List.mem_map] at hb
        obtain ⟨o, ho, rfl⟩ := hb
        rw [hO o (List.dropLast_subset _ ho)]
    rw [this, List.prod_replicate]
  | knownOrder os => simp only [templateChunks]; rw [h]

/-- **Selected core = generic core.**  For every table (outer dimensions `ds`, least significant first, whose
orders are those of `orders` without its last entry), the scalar routine that `get_evaluator` selects
according to the table regenerated from the source runs the templated loop with the table's chunk
count, hence returns exactly what the generic core returns — for every arithmetic. -/
theorem C03_selected_core_eq_generic {α : Type} [Arith α] (coef : Int → α) (ds : List (ODim α)) (last : List α)
    (start : Int) (orders : List Nat) (hds : ds.reverse.map (·.order) = orders.dropLast) (s v : Routine)
    (h : getEvaluator Gen.templatedEntries Gen.templatedOverrides orders = some (s, v)) :
    coreTemplated coef ds last start (templateChunks orders s) = coreGeneric coef ds last start := by
  apply coreTemplated_eq_generic
  rw [templateChunks_compat orders s (C03_dispatch_sound_templated orders s v h).1, nchunksOf_eq_prod, ← hds]
  simp only [List.map_map]
  rfl

/-- Non-vacuity: the generated table does select specialised routines. -/
example : getEvaluator Gen.templatedEntries Gen.templatedOverrides [2, 2, 2] = some (.fixedOrder 3 2, .fixedOrder 3 2) ∧
    getEvaluator Gen.templatedEntries Gen.templatedOverrides [2, 2, 2, 5, 2, 2] = some (.knownOrder [2,2,2,5,2,2], .knownOrder [2,2,2,5,2,2]) ∧
    getEvaluator Gen.templatedEntries Gen.templatedOverrides [1, 4] = some (.coreD 2, .coreD 2) ∧
    getEvaluator Gen.templatedEntries Gen.templatedOverrides [3,3,3,3,3,3,3,3,3] = some (.generic, .generic) := by decide

end PsV
