import PsV.Proofs.CApi
import PsV.Generated.C18
/-!
# C18 — the C interface is a faithful, leak-free wrapper

Property theorems only.  They are statements about `PsV.Generated.C18.wrappers` and `PsV.Generated.C18.facts`, the
tables that `tools/gen_c18.py` extracts from the *current* `src/cinter/splinetable.cpp` on every run, and about
`PsV.CApi.wrapRet` / `PsV.CApi.step`, the definitions the driver executes.  If the source loses a `catch(...)`, drops a
result, or deletes through the wrong type, the table changes and these proofs stop checking.

Reading guide: `possible op o` — outcome `o ∈ {ok, fail, throws}` can occur for the C++ operation `op`
(`canThrow`, `canFail` in `Model/CApi.lean`, from the C++ headers); `wrapRet w c o` — what the C caller sees when the
underlying call `c` of wrapper `w` has outcome `o`.
-/
namespace PsV
open PsV.CApi PsV.Generated.C18

theorem C18_table_checked : wrappers.all wrapperOk = true := by decide

theorem C18_facts_good : facts.Good := by decide

/-- **no_exception_escapes.**  For every wrapper and every call it makes into the C++ library: whatever that call does
    (return, report failure, throw), no exception leaves the `extern "C"` function. -/
theorem C18_no_exception_escapes :
    ∀ w ∈ wrappers, ∀ c ∈ w.calls, ∀ o, possible c.op o = true → wrapRet w c o ≠ .escapes := by
  intro w hw c hc o hp
  exact ((wrapperOk_sound (List.all_eq_true.mp C18_table_checked w hw)).1 c hc o hp).1

/-- The same in syntactic form: every call of an operation that can throw sits inside a `try` with a `catch(...)`. -/
theorem C18_throwing_calls_guarded :
    ∀ w ∈ wrappers, ∀ c ∈ w.calls, canThrow c.op = true → c.guarded = true := by
  intro w hw c hc ht
  have h := C18_no_exception_escapes w hw c hc .throws ht
  cases hg : c.guarded with
  | true => rfl
  | false => exact absurd ((escapes_iff w c .throws).mpr ⟨rfl, hg⟩) h

/-- **wrapper_faithful.**  For every wrapper, every underlying call and every outcome that call can have, the C caller
    sees exactly what a faithful wrapper must show: status wrappers 0 on success and non-zero on failure, pointer
    wrappers the C++ pointer on success and NULL on failure, value wrappers the C++ value. -/
theorem C18_wrapper_faithful :
    ∀ w ∈ wrappers, ∀ c ∈ w.calls, ∀ o, possible c.op o = true → wrapRet w c o = expected w.ret o := by
  intro w hw c hc o hp
  exact ((wrapperOk_sound (List.all_eq_true.mp C18_table_checked w hw)).1 c hc o hp).2

/-- `ret ≠ 0 ⇔ the underlying operation failed`, for every `int`-returning wrapper. -/
theorem C18_status_nonzero_iff_failed :
    ∀ w ∈ wrappers, w.ret = .status → ∀ c ∈ w.calls, ∀ o, possible c.op o = true →
      (wrapRet w c o = .failure ↔ o ≠ .ok) ∧ (wrapRet w c o = .success ↔ o = .ok) := by
  intro w hw hr c hc o hp
  rw [C18_wrapper_faithful w hw c hc o hp, hr]
  cases o <;> simp [expected]

/-- `NULL ⇔ the underlying operation failed`, for every pointer-returning wrapper. -/
theorem C18_pointer_null_iff_failed :
    ∀ w ∈ wrappers, w.ret = .pointer → ∀ c ∈ w.calls, ∀ o, possible c.op o = true →
      (wrapRet w c o = .failure ↔ o ≠ .ok) := by
  intro w hw hr c hc o hp
  rw [C18_wrapper_faithful w hw c hc o hp, hr]
  cases o <;> simp [expected]

/-- Value wrappers hand the C++ value through. -/
theorem C18_value_passthrough :
    ∀ w ∈ wrappers, w.ret = .value → ∀ c ∈ w.calls, wrapRet w c .ok = .value := by
  intro w hw hr c hc
  rw [C18_wrapper_faithful w hw c hc .ok rfl, hr]; rfl

/-- A NULL argument that a wrapper guards against yields the failure value (never a success code). -/
theorem C18_null_guard_fails : ∀ w ∈ wrappers, guardRet w = expected w.ret .fail := by
  intro w hw
  have h := (wrapperOk_sound (List.all_eq_true.mp C18_table_checked w hw)).2
  unfold guardRet expected
  cases w.ret <;> simp [h]

/-- **handles_balanced.**  Any number of handles and result slots, any (unbounded) sequence of C-interface calls obeying
    the usage rule `validRun` (init only on a handle that owns nothing, grid evaluation only into an empty slot), with
    any mixture of successful and failing outcomes; then `splinetable_free` on every handle, `ndsparse_destroy` on
    every slot and `free` on every buffer the caller still owns: the ledger is empty, nothing was deleted twice or
    through a wrong type, every handle is NULL. -/
theorem C18_handles_balanced (nh nr : Nat) (ops : List Op) (hv : validRun facts (St.init nh nr) ops = true) :
    let s := run facts (St.init nh nr) ops
    let t := run facts s (cleanupOps nh nr s.led.buffers)
    t.led = {} ∧ t.ub = false ∧ (∀ j, hget t j = .null) ∧ (∀ j, rget t j = false) :=
  balanced_of_good C18_facts_good nh nr ops hv

/-- The ledger is exact at every moment, not only at the end: live tables = live handles, result objects = array
    sets = occupied slots (so nothing is orphaned in between either). -/
theorem C18_ledger_tracks_handles (nh nr : Nat) (ops : List Op) (hv : validRun facts (St.init nh nr) ops = true) :
    let s := run facts (St.init nh nr) ops
    s.ub = false ∧ s.led.tables = s.hs.count .live ∧ s.led.ndObjs = s.rs.count true ∧ s.led.ndArrays = s.rs.count true := by
  intro s
  obtain ⟨hi, _, _⟩ := run_inv C18_facts_good ops (St.init nh nr) (inv_init nh nr) hv
  exact ⟨hi.noub, hi.tables, hi.ndObjs, hi.ndArrays⟩

/-! ### Non-vacuity: concrete, non-trivial instances of the hypotheses -/

/-- a wrapper whose underlying call can throw *and* report failure through its result -/
example : w_splinetable_read_key ∈ wrappers ∧ (∀ c ∈ w_splinetable_read_key.calls, possible c.op .throws = true ∧ possible c.op .fail = true)
    ∧ w_splinetable_read_key.calls ≠ [] := by decide

/-- a valid history mixing successes and failures on two handles and two result slots, with an occupied-handle read -/
def demoOps : List Op :=
  [.init 0 .ok, .readMem 0 .ok, .readFile 1 .throws, .readFile 1 .ok, .readFile 1 .ok, .readMem 1 .throws,
   .grideval 0 0 .ok, .grideval 1 1 .throws, .grideval 1 1 .ok, .writeMem 0 .ok, .use 1, .destroy 0, .grideval 0 0 .ok, .free 0,
   .init 0 .throws, .init 0 .ok]

example : validRun facts (St.init 2 2) demoOps = true := by decide
example : (run facts (St.init 2 2) demoOps).led = { tables := 2, ndObjs := 2, ndArrays := 2, buffers := 1 } := by decide

/-! ### What the usage rule excludes, and what the model says about the code before the repairs (witnesses) -/

/-- without the usage rule the claim is false: `splinetable_init` on a live handle orphans the old object -/
example : (run facts (run facts (St.init 1 0) [.init 0 .ok, .init 0 .ok]) (cleanupOps 1 0 0)).led.tables = 1 := by decide

/-- `delete nd` through `struct ndsparse*` (the code before fix C18-3): the arrays are never freed -/
example : (run { facts with destroyDeletesDerived := false } (St.init 1 1)
    ([.init 0 .ok, .grideval 0 0 .ok] ++ cleanupOps 1 1 0)).led = { ndArrays := 1 } := by decide

/-- a wrapper that drops the `bool` of `read_key` (before fix C18-1) reports success for a missing key -/
example : wrapRet w_splinetable_read_key ⟨.readKey, true, .discarded⟩ .fail = .success := by decide

/-- an unguarded `convolve` (before fix C18-2) lets the exception out -/
example : wrapRet w_splinetable_convolve ⟨.convolve, false, .noResult⟩ .throws = .escapes := by decide

/-- `return searchcenters(...)` (before fix C18-4) is non-zero exactly on success -/
example : wrapRet w_tablesearchcenters ⟨.searchcenters, false, .returned⟩ .ok = .failure := by decide

end PsV
