import PsV.Proofs.CApi
import PsV.Proofs.CApiRefine
import PsV.Generated.C18
/-!
# C18 — the C interface is a faithful, leak-free wrapper

Property theorems only.  They are statements about `PsV.Generated.C18.wrappers` and `PsV.Generated.C18.facts`, the
tables that `tools/gen_c18.py` extracts from the *current* `src/cinter/splinetable.cpp` on every run, and about
`PsV.CApi.wrapRet` / `PsV.CApi.step`, the definitions the driver executes.  If the source loses a `catch(...)`, drops a
result, or deletes through the wrong type, the table changes and these proofs stop checking.

Three layers (the later ones were added by the deepening round; nothing earlier was weakened):
* per call of a wrapper (`C18_no_exception_escapes` … `C18_null_guard_fails`), per *body* of a wrapper
  (`C18_body_faithful`: any sequence of its calls);
* per history, ownership only (`C18_handles_balanced`, `C18_ledger_tracks_handles` under the usage rule;
  `C18_orphans_exact`, `C18_free_twice`, `C18_destroy_twice` in the wider scope of what the C code defines);
* per history, with the C++ objects: `C18_refines` — the C machine `cstep` (pointers, ledger, return codes from the
  generated table) against the C++ program `tstep` a caller of the C++ API writes, for *every* wrapper of the table,
  every semantics of the C++ operations inside the behaviour classes, every history in the defined scope, including
  allocation failures of the wrappers' own (`oom`) — and what remains undefined (`C18_undefined_on_null_table`,
  `C18_undefined_without_object`).

Reading guide: `possible op o` — outcome `o ∈ {ok, fail, throws}` can occur for the C++ operation `op`
(`canThrow`, `canFail` in `Model/CApi.lean`, from the C++ headers); `wrapRet w c o` — what the C caller sees when the
underlying call `c` of wrapper `w` has outcome `o`.
-/
namespace PsV
open PsV.CApi PsV.Generated.C18

theorem C18_table_checked : wrappers.all wrapperOk = true := by decide

theorem C18_facts_good : facts.Good := by decide

/-- **no_exception_escapes.**  For every wrapper and every call it makes into the C++ library: whatever that call does
    (return, report failure, throw), no exception leaves the `extern "C"` function. -/
theorem C18_no_exception_escapes :
    ∀ w ∈ wrappers, ∀ c ∈ w.calls, ∀ o, possible c.op o = true → wrapRet w c o ≠ .escapes := by
  intro w hw c hc o hp
  exact ((wrapperOk_sound (List.all_eq_true.mp C18_table_checked w hw)).1 c hc o hp).1

/-- The same in syntactic form: every call of an operation that can throw sits inside a `try` with a `catch(...)`. -/
theorem C18_throwing_calls_guarded :
    ∀ w ∈ wrappers, ∀ c ∈ w.calls, canThrow c.op = true → c.guarded = true := by
  intro w hw c hc ht
  have h := C18_no_exception_escapes w hw c hc .throws ht
  cases hg : c.guarded with
  | true => rfl
  | false => exact absurd ((escapes_iff w c .throws).mpr ⟨rfl, hg⟩) h

/-- **wrapper_faithful.**  For every wrapper, every underlying call and every outcome that call can have, the C caller
    sees exactly what a faithful wrapper must show: status wrappers 0 on success and non-zero on failure, pointer
    wrappers the C++ pointer on success and NULL on failure, value wrappers the C++ value. -/
theorem C18_wrapper_faithful :
    ∀ w ∈ wrappers, ∀ c ∈ w.calls, ∀ o, possible c.op o = true → wrapRet w c o = expected w.ret o := by
  intro w hw c hc o hp
  exact ((wrapperOk_sound (List.all_eq_true.mp C18_table_checked w hw)).1 c hc o hp).2

/-- `ret ≠ 0 ⇔ the underlying operation failed`, for every `int`-returning wrapper. -/
theorem C18_status_nonzero_iff_failed :
    ∀ w ∈ wrappers, w.ret = .status → ∀ c ∈ w.calls, ∀ o, possible c.op o = true →
      (wrapRet w c o = .failure ↔ o ≠ .ok) ∧ (wrapRet w c o = .success ↔ o = .ok) := by
  intro w hw hr c hc o hp
  rw [C18_wrapper_faithful w hw c hc o hp, hr]
  cases o <;> simp [expected]

/-- `NULL ⇔ the underlying operation failed`, for every pointer-returning wrapper. -/
theorem C18_pointer_null_iff_failed :
    ∀ w ∈ wrappers, w.ret = .pointer → ∀ c ∈ w.calls, ∀ o, possible c.op o = true →
      (wrapRet w c o = .failure ↔ o ≠ .ok) := by
  intro w hw hr c hc o hp
  rw [C18_wrapper_faithful w hw c hc o hp, hr]
  cases o <;> simp [expected]

/-- Value wrappers hand the C++ value through. -/
theorem C18_value_passthrough :
    ∀ w ∈ wrappers, w.ret = .value → ∀ c ∈ w.calls, wrapRet w c .ok = .value := by
  intro w hw hr c hc
  rw [C18_wrapper_faithful w hw c hc .ok rfl, hr]; rfl

/-- A NULL argument that a wrapper guards against yields the failure value (never a success code). -/
theorem C18_null_guard_fails : ∀ w ∈ wrappers, guardRet w = expected w.ret .fail := by
  intro w hw
  have h := (wrapperOk_sound (List.all_eq_true.mp C18_table_checked w hw)).2
  unfold guardRet expected
  cases w.ret <;> simp [h]

/-- **handles_balanced.**  Any number of handles and result slots, any (unbounded) sequence of C-interface calls obeying
    the usage rule `validRun` (init only on a handle that owns nothing, grid evaluation only into an empty slot), with
    any mixture of successful and failing outcomes; then `splinetable_free` on every handle, `ndsparse_destroy` on
    every slot and `free` on every buffer the caller still owns: the ledger is empty, nothing was deleted twice or
    through a wrong type, every handle is NULL. -/
theorem C18_handles_balanced (nh nr : Nat) (ops : List Op) (hv : validRun facts (St.init nh nr) ops = true) :
    let s := run facts (St.init nh nr) ops
    let t := run facts s (cleanupOps nh nr s.led.buffers)
    t.led = {} ∧ t.ub = false ∧ (∀ j, hget t j = .null) ∧ (∀ j, rget t j = false) :=
  balanced_of_good C18_facts_good nh nr ops hv

/-- The ledger is exact at every moment, not only at the end: live tables = live handles, result objects = array
    sets = occupied slots (so nothing is orphaned in between either). -/
theorem C18_ledger_tracks_handles (nh nr : Nat) (ops : List Op) (hv : validRun facts (St.init nh nr) ops = true) :
    let s := run facts (St.init nh nr) ops
    s.ub = false ∧ s.led.tables = s.hs.count .live ∧ s.led.ndObjs = s.rs.count true ∧ s.led.ndArrays = s.rs.count true := by
  intro s
  obtain ⟨hi, _, _⟩ := run_inv C18_facts_good ops (St.init nh nr) (inv_init nh nr) hv
  exact ⟨hi.noub, hi.tables, hi.ndObjs, hi.ndArrays⟩

/-! ### Non-vacuity: concrete, non-trivial instances of the hypotheses -/

/-- a wrapper whose underlying call can throw *and* report failure through its result -/
example : w_splinetable_read_key ∈ wrappers ∧ (∀ c ∈ w_splinetable_read_key.calls, possible c.op .throws = true ∧ possible c.op .fail = true)
    ∧ w_splinetable_read_key.calls ≠ [] := by decide

/-- a valid history mixing successes and failures on two handles and two result slots, with an occupied-handle read -/
def demoOps : List Op :=
  [.init 0 .ok, .readMem 0 .ok, .readFile 1 .throws, .readFile 1 .ok, .readFile 1 .ok, .readMem 1 .throws,
   .grideval 0 0 .ok, .grideval 1 1 .throws, .grideval 1 1 .ok, .writeMem 0 .ok, .use 1, .destroy 0, .grideval 0 0 .ok, .free 0,
   .init 0 .throws, .init 0 .ok]

example : validRun facts (St.init 2 2) demoOps = true := by decide
example : (run facts (St.init 2 2) demoOps).led = { tables := 2, ndObjs := 2, ndArrays := 2, buffers := 1 } := by decide

/-! ### What the usage rule excludes, and what the model says about the code before the repairs (witnesses) -/

/-- without the usage rule the claim is false: `splinetable_init` on a live handle orphans the old object -/
example : (run facts (run facts (St.init 1 0) [.init 0 .ok, .init 0 .ok]) (cleanupOps 1 0 0)).led.tables = 1 := by decide

/-- `delete nd` through `struct ndsparse*` (the code before fix C18-3): the arrays are never freed -/
example : (run { facts with destroyDeletesDerived := false } (St.init 1 1)
    ([.init 0 .ok, .grideval 0 0 .ok] ++ cleanupOps 1 1 0)).led = { ndArrays := 1 } := by decide

/-- a wrapper that drops the `bool` of `read_key` (before fix C18-1) reports success for a missing key -/
example : wrapRet w_splinetable_read_key ⟨.readKey, true, .discarded⟩ .fail = .success := by decide

/-- an unguarded `convolve` (before fix C18-2) lets the exception out -/
example : wrapRet w_splinetable_convolve ⟨.convolve, false, .noResult⟩ .throws = .escapes := by decide

/-- `return searchcenters(...)` (before fix C18-4) is non-zero exactly on success -/
example : wrapRet w_tablesearchcenters ⟨.searchcenters, false, .returned⟩ .ok = .failure := by decide

/-! ## Deepening round -/

/-! ### Whole wrapper bodies -/

theorem C18_table_checked2 : wrappers.all wrapperOk2 = true := by decide

/-- **body_faithful.**  `C18_wrapper_faithful` speaks of one call "all earlier calls having succeeded".  This one
    speaks of a whole body: for every wrapper of the table and *every* sequence of its calls into the C++ library (any
    length, any order, any outcomes the behaviour classes allow) that ends in a `return` of the wrapper: the C caller
    sees exactly what a faithful wrapper shows for the outcome of the C++ side (that of the first call that does not
    succeed, `ok` if there is none), and no exception leaves. -/
theorem C18_body_faithful :
    ∀ w ∈ wrappers, ∀ tr : List (Call × Outcome), (∀ p ∈ tr, p.1 ∈ w.calls ∧ possible p.1.op p.2 = true) →
      completes w tr = true → execTrace w tr = expected w.ret (traceOutcome tr) ∧ execTrace w tr ≠ .escapes := by
  intro w hw tr htr hc
  have h2 := List.all_eq_true.mp C18_table_checked2 w hw
  simp only [wrapperOk2, Bool.and_eq_true] at h2
  exact execTrace_sound h2.1.1 h2.1.2 tr htr hc

/-- the body of `splinetable_glamfit`: two helper containers are built, then `fit` throws -/
example : let w := w_splinetable_glamfit
    let tr : List (Call × Outcome) := [(⟨.other, true, .stored⟩, .ok), (⟨.other, true, .stored⟩, .ok), (⟨.fit, true, .noResult⟩, .throws)]
    (∀ p ∈ tr, p.1 ∈ w.calls ∧ possible p.1.op p.2 = true) ∧ completes w tr = true ∧ traceOutcome tr = .throws ∧
    execTrace w tr = .failure := by decide

/-- The hypothesis `completes` of `C18_body_faithful` holds for every body that gets as far as the wrapper's last call
    (whatever that call then does): a wrapper whose last statement is not `return 0` ends in a call whose result it
    returns.  (Bodies that stop earlier stop at a `return`, by the definition of `returnsOn`.) -/
theorem C18_body_completes :
    ∀ w ∈ wrappers, ∀ tr : List (Call × Outcome), tr.getLast?.map Prod.fst = w.calls.getLast? → completes w tr = true := by
  intro w hw tr hl
  have h2 := List.all_eq_true.mp C18_table_checked2 w hw
  simp only [wrapperOk2, Bool.and_eq_true] at h2
  have hne : ∀ w ∈ wrappers, w.calls ≠ [] := by decide
  exact completes_of_reaches_last h2.2 tr hl (hne w hw)

example : let w := w_splinetable_get_key
    let tr : List (Call × Outcome) := [(⟨.getAuxValue, true, .returned⟩, .fail)]
    tr.getLast?.map Prod.fst = w.calls.getLast? ∧ w.finalSucceeds = false ∧ execTrace w tr = .failure := by decide

/-! ### The C machine refines the C++ program -/

theorem C18_life_rets : LifeRetsOk wrappers := by
  constructor <;> decide

/-- every wrapper of the table is either one of the seven that move pointers (modelled one by one in `cstep`) or a plain
    member-function wrapper (modelled generically by `CCall.member w`, for any `w` of the table) -/
theorem C18_every_wrapper_covered :
    ∀ w ∈ wrappers, lifeNames.contains w.name = true ∨ (principal w 0).isSome = true := by decide

/-- **refines.**  Any object type, argument type and value type; any semantics `sem` of the C++ operations that stays
    inside the behaviour classes (`Sem.WF`); any number of handles and result slots; any history of calls of the C
    interface — every wrapper of the generated table, live and NULL handles, NULL arguments, allocation failures inside
    the C++ operations (part of `sem`) and of the wrappers' own (`oom`) — inside the defined scope `cDefined`.  Then,
    running the C machine (`cstep`: pointers and ledger driven by the generated `facts`, return codes by the generated
    `wrappers`) and the C++ program for the same calls (`tstep`):
    * the handles hold exactly the twin's objects in the twin's states, the result pointers the twin's results, the
      caller the same number of buffers (`abs`);
    * call by call the C caller saw `0`/non-NULL/the value iff the C++ operation succeeded, the failure value iff it
      threw, reported failure or could not be written down, the same value, and no exception left (`agrees`);
    * nothing was deleted twice or through a wrong type, no handle dangles, and the ledger is the live C++ objects:
      table objects = the twin's objects, result objects = array sets = the twin's results;
    * the ownership state is the one `run facts` (the definitions of `C18_handles_balanced`) reaches by a history that
      obeys the usage rule — so the clean-up of `C18_handles_balanced` empties the ledger (`C18_refines_balanced`). -/
theorem C18_refines {Obj Arg Val : Type} (sem : Sem Obj Arg Val) (hsem : sem.WF) (nh nr : Nat) (calls : List (CCall Arg))
    (hd : cDefinedRun facts wrappers sem (CSt.init nh nr) calls = true) :
    let c := crun facts wrappers sem (CSt.init nh nr) calls
    let t := trun sem (TSt.init nh nr) calls
    c.1.abs = t.1 ∧ agreesAll calls c.2 t.2 ∧
    c.1.ub = false ∧ (∀ h, hptr c.1 h = .null ∨ ∃ x, hptr c.1 h = .live x) ∧
    c.1.led.tables = t.1.objs.countP Option.isSome ∧ c.1.led.ndObjs = t.1.res.countP Option.isSome ∧
    c.1.led.ndArrays = t.1.res.countP Option.isSome ∧ c.1.led.buffers = t.1.bufs ∧
    ∃ ops, validRun facts (St.init nh nr) ops = true ∧ c.1.erase = run facts (St.init nh nr) ops := by
  intro c t
  have hinit : (CSt.init nh nr : CSt Obj Val).erase = St.init nh nr := by simp [CSt.init, CSt.erase, St.init, HPtr.st]
  have habs : (CSt.init nh nr : CSt Obj Val).abs = TSt.init nh nr := by simp [CSt.init, CSt.abs, TSt.init, HPtr.obj?]
  have hT : ∀ w ∈ wrappers, wrapperOk w = true := List.all_eq_true.mp C18_table_checked
  obtain ⟨h1, h2, h3, h4⟩ := crun_refines C18_facts_good hT C18_life_rets sem hsem calls (CSt.init nh nr)
    (by rw [hinit]; exact inv_init nh nr) hd
  rw [habs] at h1 h2
  rw [hinit] at h4
  have ht : t.1 = c.1.abs := h1.symm
  refine ⟨h1, h2, h3.noub, ?_, ?_, ?_, ?_, ?_, h4⟩
  · intro h
    cases hh : hptr c.1 h with
    | null => exact Or.inl rfl
    | live x => exact Or.inr ⟨x, rfl⟩
    | dangling => exact absurd hh (not_dangling h3 h)
  · rw [ht]; simp only [CSt.abs]; rw [← countP_objs]; exact h3.tables
  · rw [ht]; simp only [CSt.abs]; rw [← countP_res]; exact h3.ndObjs
  · rw [ht]; simp only [CSt.abs]; rw [← countP_res]; exact h3.ndArrays
  · rw [ht]; rfl

/-- … and so the caller's clean-up (`splinetable_free` on every handle, `ndsparse_destroy` on every result pointer,
    `free` on every buffer) after any such history leaves nothing behind. -/
theorem C18_refines_balanced {Obj Arg Val : Type} (sem : Sem Obj Arg Val) (hsem : sem.WF) (nh nr : Nat) (calls : List (CCall Arg))
    (hd : cDefinedRun facts wrappers sem (CSt.init nh nr) calls = true) :
    let s := (crun facts wrappers sem (CSt.init nh nr) calls).1.erase
    let t := run facts s (cleanupOps nh nr s.led.buffers)
    t.led = {} ∧ t.ub = false ∧ (∀ j, hget t j = .null) ∧ (∀ j, rget t j = false) := by
  obtain ⟨ops, hv, he⟩ := (C18_refines sem hsem nh nr calls hd).2.2.2.2.2.2.2.2
  simp only [he]
  exact C18_handles_balanced nh nr ops hv

/-- a semantics inside the behaviour classes and a defined history that uses every kind of call: a table is read from
    memory into a fresh handle, a key is read (the C++ call reports failure through its result), a guarded wrapper is
    called on a handle that owns nothing and with a NULL key, a grid evaluation succeeds, an allocation of
    `splinetable_permute`'s own fails, the file reader replaces the object, everything is released, and released again -/
def demoSem : Sem Nat Nat Nat :=
  { empty := 0, load := fun a => if a = 0 then none else some a,
    member := fun op a x => (if a = 0 then (if canFail op then .fail else if canThrow op then .throws else .ok) else .ok, x + a, 10 * x + a) }

theorem demoSem_wf : demoSem.WF := by
  intro op a x
  simp only [demoSem]
  by_cases ha : a = 0
  · cases hf : canFail op <;> cases ht : canThrow op <;> simp [ha, possible, hf, ht]
  · simp [ha, possible]

def demoCalls : List (CCall Nat) :=
  [.readMem 0 5 false, .member w_splinetable_read_key 0 0 1 false, .member w_splinetable_read_key 0 3 0 false,
   .member w_splinetable_get_key 1 3 0 false, .nullArg w_splinetable_read_key "key" 0,
   .grideval false 0 0 2 false, .grideval true 1 1 2 false, .member w_splinetable_permute 0 1 0 true,
   .member w_splinetable_ndim 0 1 0 false, .readMem 1 0 true, .init 1 true, .init 1 false, .readMem 1 0 false,
   .readFile 0 7 false, .readFile 1 0 false, .writeMem 0 1 false, .freeBuffer,
   .destroy 0, .destroy 0, .free 0, .free 0, .free 1]

example : cDefinedRun facts wrappers demoSem (CSt.init 2 2) demoCalls = true := by decide
example : ((crun facts wrappers demoSem (CSt.init 2 2) demoCalls).2.map (·.ret)) =
    [.success, .failure, .success, .failure, .failure, .success, .failure, .failure, .value, .failure, .failure, .success, .failure,
     .success, .failure, .success, .void, .void, .void, .void, .void, .void] := by decide

/-! ### Beyond the usage rule: what the C code defines on handles that are not "valid", and what it does not -/

/-- **orphans_exact.**  `splinetable_init` on a handle that owns an object and `splinetable_grideval` into a result
    pointer that still holds a result are plain pointer overwrites in C: defined behaviour, but the object that was there
    can no longer be released.  For every history in that wider scope (`definedRun`): nothing is deleted twice, no
    handle dangles, and at every moment the ledger is what the handles and result pointers own *plus exactly* the
    orphans of the history (`orphansOf`: one table object per successful `init` on an owning handle, one result per
    grid evaluation — successful or not, `*result = NULL` comes first — into an occupied pointer); after the caller's
    clean-up exactly those orphans are left. -/
theorem C18_orphans_exact (nh nr : Nat) (ops : List Op) (hv : definedRun facts (St.init nh nr) ops = true) :
    let s := run facts (St.init nh nr) ops
    let o := orphansOf facts (St.init nh nr) ops
    let t := run facts s (cleanupOps nh nr s.led.buffers)
    (s.ub = false ∧ HState.dangling ∉ s.hs ∧ s.led.tables = s.hs.count .live + o.1 ∧
     s.led.ndObjs = s.rs.count true + o.2 ∧ s.led.ndArrays = s.rs.count true + o.2) ∧
    (t.led = { tables := o.1, ndObjs := o.2, ndArrays := o.2, buffers := 0 } ∧ t.ub = false ∧
     (∀ j, hget t j = .null) ∧ (∀ j, rget t j = false)) := by
  intro s o t
  obtain ⟨hi, _, _⟩ := run_invO C18_facts_good ops 0 0 (St.init nh nr) (inv_init nh nr).toO hv
  simp only [Nat.zero_add] at hi
  exact ⟨⟨hi.noub, hi.nodangling, hi.tables, hi.ndObjs, hi.ndArrays⟩, balanced_of_goodO C18_facts_good nh nr ops hv⟩

/-- a history outside the usage rule but inside `definedRun`: init twice on the same handle, a failing and a successful
    grid evaluation into an occupied result pointer -/
def demoOrphanOps : List Op :=
  [.init 0 .ok, .init 0 .ok, .grideval 0 0 .ok, .grideval 0 0 .throws, .grideval 0 0 .ok, .grideval 0 0 .ok, .init 0 .throws]

example : definedRun facts (St.init 1 1) demoOrphanOps = true ∧ validRun facts (St.init 1 1) demoOrphanOps = false ∧
    orphansOf facts (St.init 1 1) demoOrphanOps = (1, 2) := by decide
example : (run facts (run facts (St.init 1 1) demoOrphanOps) (cleanupOps 1 1 0)).led = { tables := 1, ndObjs := 2, ndArrays := 2 } := by decide

/-- **free_twice.**  `splinetable_free` resets the handle, so a second `splinetable_free` on the same handle is
    `delete nullptr`: defined, and without effect — in any state a history in the defined scope can reach. -/
theorem C18_free_twice (nh nr : Nat) (ops : List Op) (hv : definedRun facts (St.init nh nr) ops = true) (h : Nat) :
    let s := run facts (St.init nh nr) ops
    step facts (step facts s (.free h)) (.free h) = step facts s (.free h) ∧ (step facts s (.free h)).ub = false := by
  intro s
  obtain ⟨hi, _, _⟩ := run_invO C18_facts_good ops 0 0 (St.init nh nr) (inv_init nh nr).toO hv
  obtain ⟨h1, _, _, _, h5, _⟩ := freeStep_invO C18_facts_good hi h
  refine ⟨?_, h1.noub⟩
  simp only [step]
  generalize freeStep facts s h = s1 at h5
  simp only [freeStep, h5]

/-- **destroy_twice.**  `ndsparse_destroy` on a result pointer the caller has reset (or that `splinetable_grideval` set
    to NULL on failure) is `delete nullptr`: the second release through the same *variable* is without effect.
    (A second `ndsparse_destroy` through a stale copy of the pointer is a double delete and stays undefined.) -/
theorem C18_destroy_twice (s : St) (slot : Nat) :
    step facts (step facts s (.destroy slot)) (.destroy slot) = step facts s (.destroy slot) := by
  simp only [step]
  cases hr : rget s slot with
  | false => simp only [Bool.false_eq_true, if_false, hr]
  | true =>
    simp only [if_true]
    rw [if_neg]
    simp only [rget, getD_set_self_false, Bool.false_eq_true, not_false_eq_true]

/-- **NULL `table`.**  The wrappers that test their `table` argument — they return the failure value (void: return)
    before touching anything (`C18_null_guard_fails`, `cstep (.nullArg ..)`, `cstep (.grideval true ..)`) … -/
theorem C18_null_table_guarded :
    (wrappers.filter (·.nullChecked.contains "table")).map (·.name) =
    ["splinetable_init", "splinetable_free", "readsplinefitstable", "writesplinefitstable", "splinetable_get_key",
     "splinetable_read_key", "splinetable_write_key", "splinetable_convolve", "readsplinefitstable_mem",
     "writesplinefitstable_mem", "splinetable_glamfit", "splinetable_grideval"] := by decide

/-- … and the calls that remain **undefined** with `table == NULL`: every wrapper that dereferences `table` without a
    test (the value wrappers, evaluation, `splinetable_permute`; `ndsparse_destroy` has no table argument). -/
theorem C18_undefined_on_null_table :
    (wrappers.filter (fun w => w.derefsData && !w.nullChecked.contains "table")).map (·.name) =
    ["splinetable_ndim", "splinetable_order", "splinetable_nknots", "splinetable_knots", "splinetable_knot",
     "splinetable_lower_extent", "splinetable_upper_extent", "splinetable_period", "splinetable_ncoeffs",
     "splinetable_total_ncoeffs", "splinetable_stride", "splinetable_coefficients", "tablesearchcenters", "ndsplineeval",
     "ndsplineeval_gradient", "ndsplineeval_deriv", "splinetable_permute"] := by decide

/-- **NULL `table->data`** (a handle that owns nothing).  Defined: the wrappers that test it (failure value, no effect:
    `cstep (.member ..)` on a NULL handle), `splinetable_free` (`delete nullptr`), `splinetable_init`,
    `readsplinefitstable`, `readsplinefitstable_mem` (they create the object).  **Undefined** — the wrapper forms
    `*static_cast<…*>(table->data)` without a test: the list below (on top of it, with an object *without data* behind
    the handle the C++ operations behind the per-dimension getters and the evaluation functions are themselves
    undefined; that is a matter of the C++ class, not of the wrapper.  The wrappers of this list whose C++ operation *is*
    defined on an object without data — `splinetable_ndim` (0), `splinetable_total_ncoeffs` (the empty product 1),
    `tablesearchcenters` (no dimension to test: success), the writers, `splinetable_permute` with the empty
    permutation — are inside `cDefined` on such an object like on any live one, and the differential run calls them
    there: after `splinetable_init`, after a failed read / fit, after a convolve that emptied the table). -/
theorem C18_undefined_without_object :
    (wrappers.filter (fun w => w.derefsData && !w.nullChecked.contains "table->data" &&
        !["splinetable_free", "readsplinefitstable_mem"].contains w.name)).map (·.name) =
    ["writesplinefitstable", "splinetable_ndim", "splinetable_order", "splinetable_nknots", "splinetable_knots", "splinetable_knot",
     "splinetable_lower_extent", "splinetable_upper_extent", "splinetable_period", "splinetable_ncoeffs",
     "splinetable_total_ncoeffs", "splinetable_stride", "splinetable_coefficients", "tablesearchcenters", "ndsplineeval",
     "ndsplineeval_gradient", "ndsplineeval_deriv", "writesplinefitstable_mem", "splinetable_permute"] := by decide

/-! ### std::bad_alloc -/

/-- **bad_alloc.**  Every wrapper that makes a call which can throw — so every wrapper that can request heap storage at
    all, its own `new`, helper containers and temporaries included (`Wrapper.mayThrow`) — answers the failure of its
    first such request with the failure value (void wrappers: return normally), and the exception does not leave.
    (The effect on handles and ledger is part of `C18_refines`: the `oom` flag of the calls.) -/
theorem C18_bad_alloc_contained :
    ∀ w ∈ wrappers, w.mayThrow = true → oomRet w = expected w.ret .throws ∧ oomRet w ≠ .escapes := by
  intro w hw hm
  exact oomRet_sound (List.all_eq_true.mp C18_table_checked w hw) hm

example : w_splinetable_permute ∈ wrappers ∧ w_splinetable_permute.mayThrow = true ∧ w_ndsplineeval_gradient.mayThrow = true := by decide

/-- The other wrappers make no call that can throw; the model classifies the operations behind them as allocation-free
    (`canThrow = false`), and the harness counts the `operator new` requests of every call of these to be 0. -/
theorem C18_allocation_free_wrappers :
    (wrappers.filter (fun w => !w.mayThrow)).map (·.name) =
    ["splinetable_free", "splinetable_get_key", "splinetable_ndim", "splinetable_order", "splinetable_nknots", "splinetable_knots",
     "splinetable_knot", "splinetable_lower_extent", "splinetable_upper_extent", "splinetable_period", "splinetable_ncoeffs",
     "splinetable_total_ncoeffs", "splinetable_stride", "splinetable_coefficients", "tablesearchcenters", "ndsplineeval",
     "ndsplineeval_deriv", "ndsparse_destroy"] := by decide

/-- `readsplinefitstable_mem` on a handle that owns nothing when `new splinetable<>()` throws: nothing is created, the
    handle stays NULL (the other failure, `read_fits_mem` throwing, leaves an empty object behind the handle) -/
example : (cstep facts wrappers demoSem (CSt.init 1 0) (.readMem 0 0 true)).1.abs.objs = [none] ∧
    (cstep facts wrappers demoSem (CSt.init 1 0) (.readMem 0 0 false)).1.abs.objs = [some 0] ∧
    (cstep facts wrappers demoSem (CSt.init 1 0) (.readMem 0 0 true)).2.ret = .failure ∧
    (cstep facts wrappers demoSem (CSt.init 1 0) (.readMem 0 0 false)).2.ret = .failure := by decide

end PsV
