import PsV.Proofs.AuxFits
/-!
# C16 — auxiliary keys behave as an ordered string map that survives serialisation

Property theorems only.  They are about `PsV.Aux.writeKey / removeKey / getAux / readKeyInt / readKeyStr /
validate / reserved / step`, the string-card routines `ffs2c / mkCard / cardOf / ffgknm / ffpsvc / stripValue /
entryOfCard` and the round trip `fitsTrip` — the definitions `psvdriver C16` executes against the real code — instantiated with the constants and the reserved-prefix table of
`PsV.Gen.C16`, which `tools/gen_c16.py` regenerates from the working tree before every build.
The model is that of the repaired code (fixes/C16-1..5.diff).
-/
namespace PsV
open PsV.Aux PsV.Gen

/-- **aux_refines_ordered_map.**  On a store without duplicate keys (the invariant, preserved by every
    operation) the array operations of `aux.h` are exactly the operations of an insertion-ordered association
    list: lookup = `Spec.get`; an accepted write = `Spec.put` (overwrite in place, else append at the end) and
    returns `appended` exactly for a new key; removal = `Spec.del` and reports whether the key was there. -/
theorem C16_aux_refines_ordered_map (st : Store) (hn : NoDupKeys st) :
    (∀ k, getAux st k = Spec.get st k) ∧
    (∀ k v, (writeKey st k v).1.accepted = true →
        (writeKey st k v).2 = Spec.put st k v ∧ NoDupKeys (writeKey st k v).2 ∧
        ((writeKey st k v).1 = .appended ↔ k ∉ keys st)) ∧
    (∀ k, removeKey st k = (decide (k ∈ keys st), Spec.del st k) ∧ NoDupKeys (Spec.del st k)) := by
  refine ⟨getAux_eq_spec st, ?_, ?_⟩
  · intro k v
    unfold writeKey
    cases hv : validate k v with
    | some e => simp [WOut.accepted]
    | none =>
      by_cases hk : k ∈ keys st
      · have hh : hasKey st k = true := (hasKey_iff st k).mpr hk
        simp only [hh, if_true]
        intro _
        have : setFirst st k v = Spec.put st k v := by
          rw [setFirst_eq_spec st k v hn]; unfold Spec.put; rw [if_pos hk]
        refine ⟨this, this ▸ nodup_put st k v hn, ?_⟩
        simp [hk]
      · have hh : hasKey st k = false := by
          cases h : hasKey st k with
          | false => rfl
          | true => exact absurd ((hasKey_iff st k).mp h) hk
        simp only [hh, Bool.false_eq_true, if_false]
        intro _
        have : st ++ [(k, v)] = Spec.put st k v := by unfold Spec.put; rw [if_neg hk]
        refine ⟨this, this ▸ nodup_put st k v hn, ?_⟩
        simp [hk]
  · intro k
    refine ⟨?_, nodup_del st k hn⟩
    unfold removeKey
    by_cases hk : k ∈ keys st
    · have hh : hasKey st k = true := (hasKey_iff st k).mpr hk
      simp only [hh, if_true, eraseFirst_eq_spec st k hn, hk, decide_true]
    · have hh : hasKey st k = false := by
        cases h : hasKey st k with
        | false => rfl
        | true => exact absurd ((hasKey_iff st k).mp h) hk
      simp only [hh, Bool.false_eq_true, if_false, hk, decide_false, Prod.mk.injEq, true_and]
      unfold Spec.del
      symm; rw [List.filter_eq_self]
      intro e he
      have : e.1 ≠ k := fun x => hk (by simp only [keys, List.mem_map]; exact ⟨e, he, x⟩)
      simp [this]

example : NoDupKeys [("A".toList, "1".toList), ("LONG KEY".toList, "it's".toList)] := by unfold NoDupKeys keys; decide

/-- **The laws of the ordered map** the store refines: a lookup returns the most recently stored value of a
    present key and reports absence otherwise; other keys are not affected by a write or a removal; an overwrite
    keeps the position, a new key goes to the end; removal deletes exactly that key and keeps the order. -/
theorem C16_ordered_map_laws (m : Store) (k v : Str) :
    Spec.get (Spec.put m k v) k = some v ∧
    (∀ k', k' ≠ k → Spec.get (Spec.put m k v) k' = Spec.get m k') ∧
    keys (Spec.put m k v) = (if k ∈ keys m then keys m else keys m ++ [k]) ∧
    (Spec.get m k = none ↔ k ∉ keys m) ∧
    Spec.get (Spec.del m k) k = none ∧
    (∀ k', k' ≠ k → Spec.get (Spec.del m k) k' = Spec.get m k') ∧
    keys (Spec.del m k) = (keys m).filter (fun a => !(a == k)) ∧
    (Spec.del m k).Sublist m := by
  refine ⟨?_, ?_, keys_put m k v, ?_, Spec.get_del_same m k, fun k' h => Spec.get_del_other m k k' h, keys_del m k, List.filter_sublist⟩
  · unfold Spec.put
    by_cases hk : k ∈ keys m
    · rw [if_pos hk]; exact Spec.get_map_upd_same m k v hk
    · rw [if_neg hk, Spec.get_append_single]
      have : Spec.get m k = none := by rw [← getAux_eq_spec]; exact (getAux_none_iff m k).mpr hk
      rw [this]; simp
  · intro k' hk'
    unfold Spec.put
    by_cases hk : k ∈ keys m
    · rw [if_pos hk]; exact Spec.get_map_upd_other m k v k' hk'
    · rw [if_neg hk, Spec.get_append_single]
      have : (k == k') = false := by simpa using fun x => hk' x.symm
      rw [this]
      cases Spec.get m k' <;> simp
  · rw [← getAux_eq_spec]; exact getAux_none_iff m k

example : Spec.get (Spec.put [("A".toList, "1".toList)] "A".toList "2".toList) "A".toList = some "2".toList := by decide

/-- **reject_unchanged.**  A write that is not accepted (reserved keyword, malformed key, over-long key or
    value) leaves the store exactly as it was. -/
theorem C16_reject_unchanged (st : Store) (key val : Str) :
    (writeKey st key val).1.accepted = false → (writeKey st key val).2 = st := by
  unfold writeKey
  cases h : validate key val with
  | some e => intro _; rfl
  | none => by_cases hk : hasKey st key <;> simp [hk, WOut.accepted]

example : (writeKey [] "TYPE".toList "x".toList).1 = .threw .reserved ∧ (writeKey [] "A-B".toList "x".toList).1 = .threw .shortChar ∧
    (writeKey [] "long key x".toList "x".toList).1 = .threw .hasLower := by decide

/-- **int_roundtrip.**  Own decimal codec of `operator<<` / `operator>>` for `int`: every `int` is recovered
    exactly, and so through the store: after an accepted `write_key(k, n)`, `read_key<int>(k)` succeeds with `n`. -/
theorem C16_int_roundtrip (st : Store) (k : Str) (n : Int) (hlo : intMin ≤ n) (hhi : n ≤ intMax)
    (hn : NoDupKeys st) (hacc : (writeKey st k (showInt n)).1.accepted = true) :
    parseInt (showInt n) = (true, some n) ∧
    readKeyInt (writeKey st k (showInt n)).2 k = .parsed true (some n) := by
  have hp := parseInt_showInt n hlo hhi
  refine ⟨hp, ?_⟩
  obtain ⟨_, hw, _⟩ := C16_aux_refines_ordered_map st hn
  obtain ⟨hput, _, _⟩ := hw k (showInt n) hacc
  unfold readKeyInt
  rw [hput, getAux_eq_spec, (C16_ordered_map_laws st k (showInt n)).1]
  simp only [hp]

example : showInt (-2147483648) = "-2147483648".toList ∧ parseInt " 17x".toList = (true, some 17) ∧
    (writeKey [] "N".toList (showInt 42)).1.accepted = true := by decide

/-- **string_roundtrip.**  After an accepted `write_key(k, s)`, `read_key<string>(k)` and `get_aux_value(k)` return `s`. -/
theorem C16_string_roundtrip (st : Store) (k v : Str) (hn : NoDupKeys st)
    (hacc : (writeKey st k v).1.accepted = true) :
    readKeyStr (writeKey st k v).2 k = .parsed true (some v) ∧ getAux (writeKey st k v).2 k = some v := by
  obtain ⟨_, hw, _⟩ := C16_aux_refines_ordered_map st hn
  obtain ⟨hput, _, _⟩ := hw k v hacc
  have : getAux (writeKey st k v).2 k = some v := by
    rw [hput, getAux_eq_spec, (C16_ordered_map_laws st k v).1]
  exact ⟨by unfold readKeyStr; rw [this], this⟩

/-- **accepted values fit the card** (the length test of the repaired `write_key`, with the constants of the
    source): an accepted value, with every quote counted twice, is at most 68 characters for a short key and
    at most `67 - strlen(key)` for a long one — in true arithmetic, the `size_t` subtraction cannot wrap because
    keys of 67 or more characters are rejected. -/
theorem C16_accepted_fits_card (key val : Str) (h : validate key val = none) :
    reserved key = false ∧
    (key.length ≤ 8 → val.length + countQuotes val ≤ 68 ∧ key.any badShortChar = false) ∧
    (9 ≤ key.length → key.length + val.length + countQuotes val ≤ 67 ∧ '=' ∉ key) := by
  obtain ⟨hres, _, _, hshort, hlong, _⟩ := (validate_none_iff key val).mp h
  refine ⟨hres, ?_, ?_⟩
  · intro hl
    obtain ⟨ha, hd⟩ := hshort hl
    exact ⟨hd, (any_badShortChar_false_iff key).mpr ha⟩
  · intro hl
    obtain ⟨⟨_, heq, _⟩, _, hfit⟩ := hlong hl
    exact ⟨by omega, heq⟩

example : validate "LONG KEY'S NAME".toList "it's".toList = none ∧ validate "A".toList (List.replicate 34 '\'') = none := by decide

/-- **maxdatalen_wrap (witness).**  The expression `80-(13+keylen-1)` of the source, evaluated in `size_t`
    arithmetic as the unrepaired code did for every long key: for a key of 67 characters it is 0, for 68
    characters it wraps to 2^64-1 (no value was ever too long).  The repaired `write_key` never gets there
    (`C16_accepted_fits_card`), a key of 67 or more characters is rejected. -/
theorem C16_maxdatalen_wrap_witness :
    longMaxData 68 = 0 ∧ longMaxData 69 = 2 ^ 64 - 1 ∧
    validate (List.replicate 67 'K') [] = some .keyTooLong ∧ validate (List.replicate 66 'K') ['x'] = none := by decide

/-- **The reserved table is a prefix filter**: every `strncmp(lit, key, n)` of `reservedFitsKeyword` (as generated
    from the source) compares exactly the `strlen(lit)` characters of its literal. -/
theorem C16_reserved_table_is_prefix_filter :
    C16.reservedPrefixes.all (fun p => p.2 == p.1.length && !p.1.contains '\x00') = true ∧
    C16.reservedPrefixes.map (·.1) = ["BITPIX".toList, "SIMPLE".toList, "TYPE".toList, "ORDER".toList, "NAXIS".toList,
      "PERIOD".toList, "EXTEND".toList, "COMMENT".toList] := by decide

example : reserved "ORDER12".toList = true ∧ reserved "ORDE".toList = false ∧ reserved "COMMENTARY X".toList = true := by decide

/- accepted_survive_fits.  The full statement is `C16_accepted_survive_fits` further down (whole stores, key and
   value, standard and HIERARCH cards).  The theorem below was the first step and is kept: the value part for the
   card layout of a standard (short) key — `ffs2c` (quote doubling, pad to 8, closing quote), then `ffpsvc` on
   columns 11.. of the card and the repaired quote stripping of `read_fits_core` give back the value plus padding
   blanks, for every value the repaired `write_key` accepts (length + quotes <= 68). -/
theorem C16_accepted_survive_fits_partial (k8 v : Str) (hk : k8.length = 8) (hv : v.length + countQuotes v ≤ 68)
    (h1 : hierPrefix.isPrefixOf (k8 ++ ['=', ' '] ++ ffs2c v) = false)
    (h2 : commentaryHeads.any (·.isPrefixOf (k8 ++ ['=', ' '] ++ ffs2c v)) = false) :
    stripValue (ffpsvc (k8 ++ ['=', ' '] ++ ffs2c v)) = v ++ blanks (8 - (v.length + countQuotes v)) := by
  have hl := length_dbl v
  obtain ⟨p, hp⟩ : ∃ p, p = 8 - (dbl v).length := ⟨_, rfl⟩
  have hq : ffs2c v = '\'' :: (dbl (v ++ blanks p) ++ ['\'']) := by
    rw [ffs2c_eq v hv, dbl_append, dbl_blanks, ← hp]; rfl
  have hlen : (dbl (v ++ blanks p)).length ≤ 68 := by
    rw [dbl_append, dbl_blanks, List.length_append]; simp only [blanks, List.length_replicate]; omega
  have hvl : (v ++ blanks p).length ≤ (dbl (v ++ blanks p)).length := by rw [length_dbl (v ++ blanks p)]; omega
  unfold ffpsvc
  simp only [h1, Bool.false_eq_true, if_false, h2, Bool.or_false]
  have hc : ¬ (k8 ++ ['=', ' '] ++ ffs2c v).length < 9 := by simp only [List.length_append, List.length_cons, List.length_nil, hk]; omega
  have hd8 : ((k8 ++ ['=', ' '] ++ ffs2c v).drop 8).take 2 = ['=', ' '] := by
    rw [List.append_assoc, List.drop_left' hk]; rfl
  have hd10 : (k8 ++ ['=', ' '] ++ ffs2c v).drop 10 = ffs2c v := by
    rw [List.drop_left' (by simp [hk])]
  simp only [decide_eq_true_eq, hc, if_false, hd8, beq_self_eq_true, if_true, hd10]
  rw [hq]
  have hdw : List.dropWhile (fun x => x == ' ') ('\'' :: (dbl (v ++ blanks p) ++ ['\''])) = '\'' :: (dbl (v ++ blanks p) ++ ['\'']) := by
    rw [List.dropWhile_cons_of_neg]; decide
  simp only [lstrip, hdw]
  have hfuel : (dbl (v ++ blanks p) ++ ['\'']).length + 1 = ((dbl (v ++ blanks p)).length + 2 - (v ++ blanks p).length) + (v ++ blanks p).length := by
    rw [List.length_append]; simp only [List.length_singleton]; omega
  rw [hfuel, psvcQ_dbl _ _ _ _ (by omega) rfl]
  obtain ⟨f, hf⟩ : ∃ f, (dbl (v ++ blanks p)).length + 2 - (v ++ blanks p).length = f + 1 := ⟨(dbl (v ++ blanks p)).length + 1 - (v ++ blanks p).length, by omega⟩
  rw [hf, psvcQ_close f (1 + (dbl (v ++ blanks p)).length) (by omega)]
  unfold stripValue
  simp only [List.length_cons, List.length_append, List.length_singleton]
  have hlast : ('\'' :: (dbl (v ++ blanks p) ++ ['\''])).getLast? = some '\'' := by
    rw [← List.cons_append, List.getLast?_append]; simp
  simp only [hlast, show (dbl (v ++ blanks p)).length + 1 + 1 ≥ 2 by omega, decide_true, Bool.and_self, beq_self_eq_true, if_true, List.dropLast_concat]
  have hfin : undouble (dbl v ++ blanks p) = v ++ blanks (8 - (v.length + countQuotes v)) := by
    rw [undouble_dbl_blanks, hp, hl]
  rw [dbl_append, dbl_blanks]
  first
    | exact hfin
    | (rw [if_pos (by simp)]; exact hfin)

/-- the hypotheses are satisfiable, and the general `fitsTrip` agrees on a concrete store with a quote -/
example : hierPrefix.isPrefixOf ("GEOTYPE ".toList ++ ['=', ' '] ++ ffs2c "it's".toList) = false ∧
    commentaryHeads.any (·.isPrefixOf ("GEOTYPE ".toList ++ ['=', ' '] ++ ffs2c "it's".toList)) = false ∧
    fitsTrip [("GEOTYPE".toList, "it's".toList), ("MY LONG KEY".toList, "'q'".toList)] =
      some [("GEOTYPE".toList, "it's   ".toList), ("MY LONG KEY".toList, "'q'   ".toList)] := by decide

/-- **write_key accepts exactly** (repaired code incl. fixes/C16-5; constants and tables generated from the source):
    the key is not reserved (prefix table of `reservedFitsKeyword`), not empty, has no blank at either end, does not
    start with `HIERARCH ` and is not END / HISTORY / CONTINUE / EXTNAME / HDUNAME / PCOUNT / GCOUNT; a key of at most 8 characters is made of upper-case
    letters and digits and the value, every quote counted twice, has at most 68 characters; a longer key is
    printable ASCII without `=` and lower-case letters, has at most 66 characters, and key and value (quotes counted
    twice) together at most 67; the value is printable ASCII.  Everything else is rejected (`C16_reject_unchanged`).
    In particular an accepted key is a `PlainKey` and an accepted value a `PlainVal`. -/
theorem C16_validate_iff (key val : Str) :
    (validate key val = none ↔
      (¬ ∃ p ∈ C16.reservedPrefixes, p.1 <+: key) ∧
      (key ≠ [] ∧ key.head? ≠ some ' ' ∧ key.getLast? ≠ some ' ') ∧
      (hierPrefix.isPrefixOf key = false ∧ key ≠ endKey ∧ key ≠ historyKey ∧ key ≠ continueKey ∧
        key ≠ extnameKey ∧ key ≠ hdunameKey ∧ key ≠ pcountKey ∧ key ≠ gcountKey) ∧
      (key.length ≤ 8 → Alnum key ∧ val.length + countQuotes val ≤ 68) ∧
      (9 ≤ key.length → ((∀ c ∈ key, printable c = true) ∧ '=' ∉ key ∧ ∀ c ∈ key, c.isLower = false) ∧
        key.length ≤ 66 ∧ key.length + (val.length + countQuotes val) ≤ 67) ∧
      PlainVal val) ∧
    (validate key val = none → PlainKey key ∧ PlainVal val) := by
  refine ⟨?_, validate_plain key val⟩
  rw [validate_none_iff, edgeBlank_false_iff, writeReserved_false_iff, ← reserved_iff_prefix]
  simp only [Bool.not_eq_true]

example : validate "K1".toList (List.replicate 34 '\'') = none ∧ validate "K1".toList (List.replicate 35 '\'') = some .valueTooLong ∧
    validate "A LONG KEY".toList (List.replicate 57 'x') = none ∧ validate "A LONG KEY".toList (List.replicate 58 'x') = some .valueTooLong ∧
    validate "A LONG KEY ".toList ['x'] = some .edgeBlank ∧ validate "A LONG\tKEY".toList ['x'] = some .keyNonPrintable ∧
    validate "K1".toList "\t12".toList = some .valueNonPrintable ∧ validate "ENDPOINT".toList ['x'] = none := by decide

/-- The keywords cfitsio itself interprets when it (re)reads the header of a primary image HDU before writing pixels
    (`ffpinit` / `ffgphd`: SIMPLE, BITPIX, NAXIS, NAXISn, EXTEND, PCOUNT, GCOUNT, END; a card with one of these names
    decides what the HDU *is*, whatever its value — observed on the real library for every one of them: a table
    holding such a card cannot be written or is written as another structure) together with the names by which
    `read_fits` finds HDUs (EXTNAME, HDUNAME).  Hand-written from cfitsio's source (trusted); the rest of the statement
    is about the generated tables. -/
def cfitsioStructural : List Str :=
  ["SIMPLE".toList, "BITPIX".toList, "NAXIS".toList, "NAXIS1".toList, "NAXIS2".toList, "NAXIS999".toList, "EXTEND".toList,
   "PCOUNT".toList, "GCOUNT".toList, "END".toList, "EXTNAME".toList, "HDUNAME".toList]

/-- **No accepted key is a structural keyword** (the class of the PCOUNT/GCOUNT defect, repaired by 14bd540): whatever
    `write_key` accepts, with any value, is none of the names cfitsio takes for the structure of the primary HDU — so
    an accepted entry cannot change what the coefficient image is.  (With the source as found before the repair the
    generated exact-name list lacks PCOUNT and GCOUNT and this theorem does not check.) -/
theorem C16_accepted_not_structural (key val : Str) (h : validate key val = none) : key ∉ cfitsioStructural := by
  obtain ⟨hres, _, ⟨_, hend, _, _, hext, hhdu, hp, hg⟩, _⟩ := (C16_validate_iff key val).1.mp h
  intro hm
  have hpre : ∀ lit : Str, (∃ p ∈ C16.reservedPrefixes, p.1 = lit) → ∀ rest : Str, key ≠ lit ++ rest := by
    rintro lit ⟨p, hp', rfl⟩ rest rfl
    exact hres ⟨p, hp', List.prefix_append _ _⟩
  simp only [cfitsioStructural, List.mem_cons, List.not_mem_nil, or_false] at hm
  rcases hm with rfl | rfl | rfl | rfl | rfl | rfl | rfl | rfl | rfl | rfl | rfl | rfl
  · exact hpre "SIMPLE".toList ⟨("SIMPLE".toList, 6), by decide, rfl⟩ [] (by simp)
  · exact hpre "BITPIX".toList ⟨("BITPIX".toList, 6), by decide, rfl⟩ [] (by simp)
  · exact hpre "NAXIS".toList ⟨("NAXIS".toList, 5), by decide, rfl⟩ [] (by simp)
  · exact hpre "NAXIS".toList ⟨("NAXIS".toList, 5), by decide, rfl⟩ ['1'] (by decide)
  · exact hpre "NAXIS".toList ⟨("NAXIS".toList, 5), by decide, rfl⟩ ['2'] (by decide)
  · exact hpre "NAXIS".toList ⟨("NAXIS".toList, 5), by decide, rfl⟩ ['9', '9', '9'] (by decide)
  · exact hpre "EXTEND".toList ⟨("EXTEND".toList, 6), by decide, rfl⟩ [] (by simp)
  · exact hp (by decide)
  · exact hg (by decide)
  · exact hend (by decide)
  · exact hext (by decide)
  · exact hhdu (by decide)

/-- the hypothesis is satisfiable, and the neighbours of the structural names are ordinary keys -/
example : validate "PCOUNTS".toList ['1'] = none ∧ validate "GCOUNT2".toList ['1'] = none ∧ validate "CHECKSUM".toList "abc".toList = none ∧
    validate "PCOUNT".toList ['1'] = some .reserved := by decide

/-- **reservedFitsKeyword is the prefix filter of its table**, for every key: `strncmp(lit, key, n) == 0` for some
    row of the generated table iff one of the literals is a prefix of the key (the same function filters the cards
    when a file is read). -/
theorem C16_reserved_iff_prefix (key : Str) :
    reserved key = true ↔ ∃ p ∈ C16.reservedPrefixes, p.1 <+: key :=
  reserved_iff_prefix key

example : reserved "NAXIS12".toList = true ∧ reserved "NAXI".toList = false ∧ reserved "XTYPE".toList = false := by decide

/-- **accepted_survive_fits, one entry (key and value).**  For every entry `write_key` accepts (no further
    hypothesis: since fixes/C16-5 acceptance implies that the key is one cfitsio stores verbatim and the value is
    printable, `C16_validate_iff`):
    `fits_write_key(TSTRING)` (= `ffs2c`, `ffmkky` with the standard 8-column keyword field or the
    `HIERARCH name = ` layout incl. the `= ` variant and the cut-off padding / forced closing quote of a full card,
    `ffprec`) succeeds with a card of exactly 80 columns (only padding blanks are ever cut off, never the value), the card does not terminate the header, and `fits_read_keyn` (= `ffgrec`, `ffgknm`,
    `ffpsvc`) followed by the reserved filter and the repaired quote stripping of `read_fits_core` returns the same
    key and the value followed by `padOf k v <= 8` blanks. -/
theorem C16_accepted_entry_survives_fits (k v : Str) (hacc : validate k v = none) :
    ∃ card, cardOf (k, v) = some card ∧ card.length = 80 ∧ isEndCard card = false ∧
      entryOfCard card = some (k, v ++ blanks (padOf k v)) ∧
      padOf k v ≤ 8 ∧ rstrip (v ++ blanks (padOf k v)) = rstrip v := by
  obtain ⟨card, h1, h0, h2, h3⟩ := entry_survives k v hacc
  exact ⟨card, h1, h0, h2, h3, padOf_le k v, rstrip_pad v _⟩

/-- hypotheses satisfiable: a HIERARCH key with a quote and a key of 66 characters (full card, forced closing quote) -/
example : validate "LONG KEY'S NAME".toList "it's".toList = none ∧ validate (List.replicate 66 'K') ['x'] = none ∧
    (cardOf (List.replicate 66 'K', ['x'])).bind entryOfCard = some (List.replicate 66 'K', ['x']) := by decide

/-- **accepted_survive_fits (whole stores).**  For every store all of whose entries were accepted by `write_key`
    (`Accepted`; nothing else is assumed): `write_fits_mem` followed by `read_fits_mem` (`fitsTrip`: one card per
    entry in array order, cut at an END card, reserved names filtered, nothing de-duplicated) succeeds and returns
    the same keys in the same order, every value intact apart from trailing blanks (at most 8, `padOf`); lookups
    agree up to that padding; uniqueness of keys is kept; the result is again accepted and is a fixed point of
    the round trip (so any number of round trips changes nothing more). -/
theorem C16_accepted_survive_fits (st : Store) (h : Accepted st) :
    fitsTrip st = some (padStore st) ∧
    keys (padStore st) = keys st ∧
    (padStore st).map (fun e => (e.1, rstrip e.2)) = st.map (fun e => (e.1, rstrip e.2)) ∧
    (∀ k, getAux (padStore st) k = (getAux st k).map fun v => v ++ blanks (padOf k v)) ∧
    (NoDupKeys st → NoDupKeys (padStore st)) ∧
    Accepted (padStore st) ∧ fitsTrip (padStore st) = some (padStore st) := by
  have ha := accepted_padStore st h
  refine ⟨fitsTrip_accepted st h, keys_padStore st, rstrip_padStore st, getAux_padStore st, ?_, ha, ?_⟩
  · intro hn; unfold NoDupKeys; rw [keys_padStore]; exact hn
  · have := fitsTrip_accepted (padStore st) ha
    rw [padStore_idem] at this; exact this

example : fitsTrip [("GEOTYPE".toList, "it's".toList), ("MY LONG KEY".toList, "'q'".toList), ("N".toList, showInt (-7))] =
    some [("GEOTYPE".toList, "it's   ".toList), ("MY LONG KEY".toList, "'q'   ".toList), ("N".toList, "-7      ".toList)] := by decide

/-- **histories.**  From a store with unique, accepted entries (e.g. the empty one), ANY sequence of operations of
    the differential run — writes (string, int, text) of arbitrary keys and values, accepted or rejected, overwrites,
    removals, lookups, typed reads and FITS round trips, in any order — keeps the store a duplicate-free accepted
    store, and a FITS round trip at any point succeeds and returns the store with its values padded
    (`C16_accepted_survive_fits`). -/
theorem C16_history_survives (st : Store) (ops : List Op) (hn : NoDupKeys st) (ha : Accepted st) :
    NoDupKeys (runOps st ops) ∧ Accepted (runOps st ops) ∧
    step (runOps st ops) .fits = (.fitsOk, padStore (runOps st ops)) := by
  have hw : ∀ (s : Store) (k v : Str), NoDupKeys s → Accepted s →
      NoDupKeys (writeKey s k v).2 ∧ Accepted (writeKey s k v).2 := by
    intro s k v hn ha
    refine ⟨?_, accepted_writeKey s k v ha⟩
    cases hacc : (writeKey s k v).1.accepted with
    | true => exact ((C16_aux_refines_ordered_map s hn).2.1 k v hacc).2.1
    | false => rw [C16_reject_unchanged s k v hacc]; exact hn
  have hstep : ∀ (s : Store) (op : Op), NoDupKeys s → Accepted s →
      NoDupKeys (step s op).2 ∧ Accepted (step s op).2 := by
    intro s op hn ha
    cases op with
    | writeStr k v => exact hw s k v hn ha
    | writeText k v => exact hw s k v hn ha
    | writeInt k n => exact hw s k (showInt n) hn ha
    | remove k =>
      refine ⟨?_, accepted_removeKey s k ha⟩
      have := (C16_aux_refines_ordered_map s hn).2.2 k
      show NoDupKeys (removeKey s k).2
      rw [this.1]; exact this.2
    | get k => exact ⟨hn, ha⟩
    | readInt k => exact ⟨hn, ha⟩
    | readStr k => exact ⟨hn, ha⟩
    | readText k => exact ⟨hn, ha⟩
    | fits =>
      have h := C16_accepted_survive_fits s ha
      show NoDupKeys (match fitsTrip s with | none => (Out.fitsWriteFailed, s) | some s' => (Out.fitsOk, s')).2 ∧
        Accepted (match fitsTrip s with | none => (Out.fitsWriteFailed, s) | some s' => (Out.fitsOk, s')).2
      rw [h.1]
      exact ⟨h.2.2.2.2.1 hn, h.2.2.2.2.2.1⟩
  induction ops generalizing st with
  | nil =>
    refine ⟨hn, ha, ?_⟩
    show (match fitsTrip st with | none => (Out.fitsWriteFailed, st) | some s' => (Out.fitsOk, s')) = _
    rw [(C16_accepted_survive_fits st ha).1]; rfl
  | cons op r ih =>
    obtain ⟨h1, h2⟩ := hstep st op hn ha
    exact ih (step st op).2 h1 h2

/-- a history with rejected writes (END, a blank-edged key, a TAB in the value), overwrites, a removal and round trips -/
example : runOps [] [Op.writeStr "A".toList "it's".toList, .writeStr endKey ['v'], .writeInt "LONG KEY 1".toList 12, .writeStr " B".toList ['v'],
      .fits, .writeStr "A".toList "\t1".toList, .remove "A".toList, .fits]
      = [("LONG KEY 1".toList, "12      ".toList)] ∧ NoDupKeys ([] : Store) ∧ Accepted [] :=
  ⟨by decide, by unfold NoDupKeys keys; decide, fun e he => absurd he (by simp)⟩

/-- **int_survives_fits.**  An `int` written (and accepted) into an accepted store is still read back exactly
    after a FITS round trip of the whole store (the padding blanks follow the digits and stop `operator>>`). -/
theorem C16_int_survives_fits (st : Store) (k : Str) (n : Int) (hlo : intMin ≤ n) (hhi : n ≤ intMax)
    (hn : NoDupKeys st) (ha : Accepted st)
    (hacc : (writeKey st k (showInt n)).1.accepted = true) :
    ∃ st', fitsTrip (writeKey st k (showInt n)).2 = some st' ∧ readKeyInt st' k = .parsed true (some n) := by
  have ha' := accepted_writeKey st k (showInt n) ha
  refine ⟨_, (C16_accepted_survive_fits _ ha').1, ?_⟩
  unfold readKeyInt
  rw [getAux_padStore, (C16_string_roundtrip st k (showInt n) hn hacc).2]
  simp only [Option.map_some, parseInt_showInt_pad n _ hlo hhi]

example : (writeKey [] "N".toList (showInt (-2147483648))).1.accepted = true ∧
    (fitsTrip (writeKey [] "N".toList (showInt (-2147483648))).2).map (readKeyInt · "N".toList) = some (.parsed true (some (-2147483648))) := by decide

/-- **structural cards are filtered.**  Cards whose keyword starts with a literal of the generated table (all the
    cards `write_fits_core` itself puts into the primary header: SIMPLE, BITPIX, NAXIS*, EXTEND, COMMENT, TYPE,
    ORDER*, PERIOD*) never become auxiliary entries, wherever they stand in front of the auxiliary cards. -/
theorem C16_structural_cards_filtered (pre cards : List (List Char))
    (h : ∀ c ∈ pre, ∃ p ∈ C16.reservedPrefixes, p.1 <+: ffgknm (rstrip c)) :
    (pre ++ cards).filterMap entryOfCard = cards.filterMap entryOfCard :=
  filterMap_reserved_cards pre cards fun c hc => (reserved_iff_prefix _).mpr (h c hc)

example : ∀ c ∈ ["SIMPLE  =                    T / file does conform to FITS standard".toList, "NAXIS1  =                   12".toList,
      "ORDER0  =                    2 / B-Spline Order".toList, "TYPE    = 'Spline Coefficient Table'".toList,
      "COMMENT   FITS (Flexible Image Transport System) format is defined in 'Astronomy".toList, "PERIOD1 =                   0.".toList],
    reserved (ffgknm (rstrip c)) = true := by decide

/-- **histories refine the ordered map.**  Folding the operations of `aux.h` over any history (any keys and values,
    accepted or not) equals folding the specification `Spec.apply` (put / del / nothing) and keeps the keys unique,
    from any duplicate-free store as long as no FITS round trip is involved; with round trips the same holds from
    every accepted store (`padStore` being the specification of the round trip). -/
theorem C16_history_refines_map (st : Store) (ops : List Op) (hn : NoDupKeys st) :
    ((∀ op ∈ ops, isFits op = false) →
      runOps st ops = ops.foldl Spec.apply st ∧ NoDupKeys (runOps st ops)) ∧
    (Accepted st → runOps st ops = ops.foldl Spec.apply st) := by
  have hw : ∀ (s : Store) (k v : Str), NoDupKeys s →
      (writeKey s k v).2 = (if validate k v = none then Spec.put s k v else s) := by
    intro s k v hn
    cases hacc : (writeKey s k v).1.accepted with
    | true =>
      have hv : validate k v = none := by
        unfold writeKey at hacc
        cases hv : validate k v with
        | none => rfl
        | some e => rw [hv] at hacc; exact absurd hacc (by simp [WOut.accepted])
      rw [if_pos hv]; exact ((C16_aux_refines_ordered_map s hn).2.1 k v hacc).1
    | false =>
      have hv : validate k v ≠ none := by
        intro hv
        unfold writeKey at hacc
        rw [hv] at hacc
        by_cases hh : hasKey s k = true <;> simp [hh, WOut.accepted] at hacc
      rw [if_neg hv]; exact C16_reject_unchanged s k v hacc
  have hstep : ∀ (s : Store) (op : Op), NoDupKeys s → (isFits op = false ∨ Accepted s) →
      (step s op).2 = Spec.apply s op := by
    intro s op hn hf
    cases op with
    | writeStr k v => exact hw s k v hn
    | writeText k v => exact hw s k v hn
    | writeInt k n => exact hw s k (showInt n) hn
    | remove k =>
      show (removeKey s k).2 = Spec.del s k
      rw [((C16_aux_refines_ordered_map s hn).2.2 k).1]
    | get k => rfl
    | readInt k => rfl
    | readStr k => rfl
    | readText k => rfl
    | fits =>
      rcases hf with hf | hf
      · exact absurd hf (by simp [isFits])
      · show (match fitsTrip s with | none => (Out.fitsWriteFailed, s) | some s' => (Out.fitsOk, s')).2 = padStore s
        rw [(C16_accepted_survive_fits s hf).1]
  have hnd : ∀ (s : Store) (op : Op), NoDupKeys s → isFits op = false → NoDupKeys (Spec.apply s op) := by
    intro s op hn hf
    cases op with
    | writeStr k v => show NoDupKeys (if _ then _ else _); split; exact nodup_put s k v hn; exact hn
    | writeText k v => show NoDupKeys (if _ then _ else _); split; exact nodup_put s k v hn; exact hn
    | writeInt k n => show NoDupKeys (if _ then _ else _); split; exact nodup_put s k _ hn; exact hn
    | remove k => exact nodup_del s k hn
    | get k => exact hn
    | readInt k => exact hn
    | readStr k => exact hn
    | readText k => exact hn
    | fits => exact absurd hf (by simp [isFits])
  constructor
  · intro hops
    induction ops generalizing st with
    | nil => exact ⟨rfl, hn⟩
    | cons op r ih =>
      have hf := hops op (by simp)
      have e := hstep st op hn (Or.inl hf)
      have := ih (step st op).2 (e ▸ hnd st op hn hf) (fun o ho => hops o (by simp [ho]))
      simp only [runOps, List.foldl_cons] at this ⊢
      rw [← e]; exact this
  · intro ha
    induction ops generalizing st with
    | nil => rfl
    | cons op r ih =>
      have e := hstep st op hn (Or.inr ha)
      have hg := C16_history_survives st [op] hn ha
      have := ih (step st op).2 hg.1 hg.2.1
      simp only [runOps, List.foldl_cons] at this ⊢
      rw [← e]; exact this

example : runOps [] [Op.writeStr "A".toList "1".toList, .writeStr "b".toList "x".toList, .writeInt "B".toList 2, .writeStr "A".toList "3".toList, .remove "B".toList]
    = [("A".toList, "3".toList)] := by decide

/-- **every new test of `write_key` is needed** (the seven former findings of C16, as theorems about the model):
    each of these entries is now rejected by `write_key`, and had it been stored it would not have survived the
    round trip — empty key, leading blank, trailing blank, explicit `HIERARCH ` prefix, END (this entry and all
    later ones are lost), HISTORY, CONTINUE (value lost), a control character in the value (blanked). -/
theorem C16_unstorable_rejected :
    (validate [] ['v'] = some .edgeBlank ∧ fitsTrip [([], ['v'])] = some [([], [])]) ∧
    (validate " LEADING SP".toList ['v'] = some .edgeBlank ∧ (fitsTrip [(" LEADING SP".toList, ['v'])]).map keys = some ["LEADING SP".toList]) ∧
    (validate "TRAILING SP ".toList ['v'] = some .edgeBlank ∧ (fitsTrip [("TRAILING SP ".toList, ['v'])]).map keys = some ["TRAILING SP".toList]) ∧
    (validate "HIERARCH FOO".toList ['v'] = some .reserved ∧ (fitsTrip [("HIERARCH FOO".toList, ['v'])]).map keys = some ["FOO".toList]) ∧
    (validate endKey ['v'] = some .reserved ∧ fitsTrip [(['B'], ['0']), (endKey, ['v']), (['A'], ['1'])] = some [(['B'], "0       ".toList)]) ∧
    (validate historyKey ['v'] = some .reserved ∧ fitsTrip [(historyKey, ['v'])] = some [(historyKey, [])]) ∧
    (validate continueKey ['v'] = some .reserved ∧ fitsTrip [(continueKey, ['v'])] = some [(continueKey, [])]) ∧
    (validate ['A'] "\t12".toList = some .valueNonPrintable ∧ fitsTrip [(['A'], "\t12".toList)] = some [(['A'], " 12     ".toList)]) ∧
    -- PCOUNT / GCOUNT (found by the FITS-vocabulary key stream): with such a card in the primary header the real cfitsio
    -- refuses the coefficient image (write_fits throws, or crashes inside fits_write_pix on a small table); the abstract
    -- store of the model has no group structures, so only the rejection is stated here — the failing write is tied by
    -- the harness (an accepted entry must survive the F operation)
    (validate pcountKey ['1'] = some .reserved ∧ validate gcountKey ['1'] = some .reserved ∧
      validate "PCOUNT1".toList ['1'] = none ∧ validate "A PCOUNT KEY".toList ['1'] = none) :=
  ⟨⟨by decide, by decide⟩, ⟨by decide, by decide⟩, ⟨by decide, by decide⟩, ⟨by decide, by decide⟩, ⟨by decide, by decide⟩,
   ⟨by decide, by decide⟩, ⟨by decide, by decide⟩, ⟨by decide, by decide⟩, ⟨by decide, by decide, by decide, by decide⟩⟩

end PsV
