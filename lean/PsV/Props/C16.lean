import PsV.Model.AuxKeys
namespace PsV
open PsV.Aux

theorem C16_reject_unchanged (st : Store) (key val : Str) :
    (writeKey st key val).1.accepted = false → (writeKey st key val).2 = st := by
  unfold writeKey
  cases h : validate key val with
  | some e => intro _; rfl
  | none => by_cases hk : hasKey st key <;> simp [hk, WOut.accepted]

end PsV
